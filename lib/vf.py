"""Common machinery for the libscientific verification checks.

- builds libscientific from /repo's *working tree* (hooks ON) into /verif/.cache
- builds C drivers against it
- runs Coq (make of the development, evaluation of generated case files)
- evidence / replay / known-findings / verdict plumbing
"""
import hashlib, json, os, re, shutil, subprocess, sys, time, glob, random, struct

VERIF = os.path.dirname(os.path.dirname(os.path.abspath(__file__)))
REPO = os.environ.get("VERIF_REPO", "/repo")
SRC = os.path.join(REPO, "src")
CACHE = os.path.join(VERIF, ".cache")
COQ = os.path.join(VERIF, "coq")
GUARD = "LIBSCIENTIFIC_VERIF"
NCPU = os.cpu_count() or 4

BASE_CFLAGS = ["-std=c99", "-D_GNU_SOURCE", "-fPIC", "-D" + GUARD,
               "-fno-fast-math", "-ffp-contract=off", "-w"]
VARIANTS = {
    "plain": ["-O1", "-g"],
    "asan": ["-O1", "-g", "-fsanitize=address,undefined", "-fno-sanitize-recover=all",
             # qsort(NULL, 0, ..) / memmove(NULL, NULL, 0) on an empty container touch no memory:
             # the nonnull-attribute sub-check of UBSan is not part of any property
             "-fno-sanitize=nonnull-attribute", "-fno-omit-frame-pointer"],
    "tsan": ["-O1", "-g", "-fsanitize=thread"],
}


def sh(cmd, timeout=1200, cwd=None, env=None, inp=None):
    """run, return (rc, stdout, stderr); rc=124 on timeout"""
    try:
        p = subprocess.run(cmd, cwd=cwd, env=env, input=inp, timeout=timeout,
                           stdout=subprocess.PIPE, stderr=subprocess.PIPE,
                           shell=isinstance(cmd, str))
        return p.returncode, p.stdout.decode("utf-8", "replace"), p.stderr.decode("utf-8", "replace")
    except subprocess.TimeoutExpired as e:
        out = (e.stdout or b"").decode("utf-8", "replace")
        err = (e.stderr or b"").decode("utf-8", "replace")
        return 124, out, err


def lib_sources():
    cm = open(os.path.join(SRC, "CMakeLists.txt")).read()
    m = re.search(r"set\(Scientific_C_SRCS(.*?)\)", cm, re.S)
    return re.findall(r"[A-Za-z_0-9]+\.c", m.group(1))


def sha_files(paths):
    h = hashlib.sha256()
    for p in sorted(paths):
        h.update(p.encode())
        try:
            h.update(open(p, "rb").read())
        except OSError:
            h.update(b"<missing>")
    return h.hexdigest()


def src_hash():
    files = glob.glob(os.path.join(SRC, "*.c")) + glob.glob(os.path.join(SRC, "*.h")) + \
        glob.glob(os.path.join(SRC, "*.in")) + [os.path.join(SRC, "CMakeLists.txt")]
    return sha_files(files)


def _gen_config(incdir):
    s = open(os.path.join(SRC, "scientificconfig.h.in")).read()
    cm = open(os.path.join(REPO, "CMakeLists.txt")).read()
    def ver(name, dflt):
        m = re.search(r"set\(%s\s+\"?(\d+)\"?\)" % name, cm)
        return m.group(1) if m else dflt
    s = re.sub(r"@\w*MAJOR\w*@", ver("VERSION_MAJOR", "1"), s)
    s = re.sub(r"@\w*MINOR\w*@", ver("VERSION_MINOR", "6"), s)
    s = re.sub(r"@\w*PATCH\w*@", ver("VERSION_PATCH", "1"), s)
    s = re.sub(r"@\w+@", "0", s)
    open(os.path.join(incdir, "scientificconfig.h"), "w").write(s)


def build_lib(variant="plain"):
    """Compile libscientific from /repo's working tree. Returns dict(dir, lib, inc)."""
    os.makedirs(CACHE, exist_ok=True)
    key = hashlib.sha256((src_hash() + " ".join(BASE_CFLAGS + VARIANTS[variant])).encode()).hexdigest()[:16] + "-" + variant
    d = os.path.join(CACHE, "lib-" + key)
    lib = os.path.join(d, "libsci.a")
    inc = os.path.join(d, "inc")
    if os.path.exists(lib):
        return {"dir": d, "lib": lib, "inc": inc, "key": key, "cached": True}
    # drop stale builds of the same variant (disk is limited)
    for old in glob.glob(os.path.join(CACHE, "lib-*-" + variant)):
        shutil.rmtree(old, ignore_errors=True)
    os.makedirs(inc, exist_ok=True)
    _gen_config(inc)
    link = os.path.join(inc, "scientific")
    if not os.path.islink(link):
        os.symlink(SRC, link)
    open(os.path.join(inc, "scientific.h"), "w").write(open(os.path.join(SRC, "scientific.h")).read()
        if os.path.exists(os.path.join(SRC, "scientific.h")) else "")
    procs = []
    objs = []
    for c in lib_sources():
        o = os.path.join(d, c[:-2] + ".o")
        objs.append(o)
        fl = list(BASE_CFLAGS)
        if c == "datasets.c":
            fl += ["-O0"]           # static tables only; never instrumented (gcc 12 blows up)
        else:
            fl += VARIANTS[variant]
        cmd = ["timeout", "600", "gcc"] + fl + ["-I" + inc, "-I" + SRC, "-c", os.path.join(SRC, c), "-o", o]
        procs.append((c, subprocess.Popen(cmd, stdout=subprocess.PIPE, stderr=subprocess.PIPE)))
    errs = []
    for c, p in procs:
        out, err = p.communicate()
        if p.returncode != 0:
            errs.append((c, err.decode("utf-8", "replace")[-2000:]))
    if errs:
        shutil.rmtree(d, ignore_errors=True)
        raise BuildError("library does not compile: " + "; ".join("%s: %s" % e for e in errs))
    rc, out, err = sh(["ar", "rcs", lib] + objs)
    if rc != 0:
        raise BuildError("ar failed: " + err)
    for o in objs:
        os.remove(o)
    return {"dir": d, "lib": lib, "inc": inc, "key": key, "cached": False}


class BuildError(Exception):
    pass


def build_driver(name, variant="plain", extra_src=()):
    """compile /verif/harness/<name>.c against the freshly built library"""
    L = build_lib(variant)
    srcs = [os.path.join(VERIF, "harness", name + ".c")] + [os.path.join(VERIF, "harness", s) for s in extra_src]
    hdrs = glob.glob(os.path.join(VERIF, "harness", "*.h"))
    key = sha_files(srcs + hdrs)[:12]
    exe = os.path.join(L["dir"], "%s-%s" % (name, key))
    if os.path.exists(exe):
        return exe
    for old in glob.glob(os.path.join(L["dir"], name + "-*")):
        os.remove(old)
    cmd = ["timeout", "600", "gcc"] + BASE_CFLAGS + VARIANTS[variant] + \
        ["-I" + L["inc"], "-I" + SRC, "-I" + os.path.join(VERIF, "harness")] + srcs + \
        [L["lib"], "-o", exe, "-lm", "-lpthread", "-llapack", "-lsqlite3"]
    rc, out, err = sh(cmd, timeout=700)
    if rc != 0:
        raise BuildError("driver %s does not compile: %s" % (name, err[-3000:]))
    return exe


# ----------------------------------------------------------------------------------
# float <-> text
def fhex(x):
    """python float -> C99 hex literal (also accepted by strtod)"""
    if x != x:
        return "nan"
    if x == float("inf"):
        return "inf"
    if x == float("-inf"):
        return "-inf"
    return float(x).hex()


def parse_f(s):
    s = s.strip()
    if s in ("nan", "-nan"):
        return float("nan")
    if s == "inf":
        return float("inf")
    if s == "-inf":
        return float("-inf")
    if s.startswith(("0x", "-0x")):
        return float.fromhex(s)
    return float(s)


def coq_f(x):
    """python float -> Coq float_scope literal"""
    if x != x:
        return "nan"
    if x == float("inf"):
        return "infinity"
    if x == float("-inf"):
        return "neg_infinity"
    if x == 0:
        return "(-0)" if str(x).startswith("-") else "0"
    h = float(x).hex()
    # python: [-]0x1.xxxxp+e ; Coq accepts 0x1.xxxxp+e
    if h.startswith("-"):
        return "(-" + h[1:] + ")"
    return h


def coq_vec(v):
    return "[:: " + "; ".join(coq_f(x) for x in v) + "]" if len(v) else "[::]"


def coq_mat(m):
    return "[:: " + ";\n   ".join(coq_vec(r) for r in m) + "]" if len(m) else "[::]"


def coq_zlist(v):
    return "[:: " + "; ".join("(%d)%%Z" % x for x in v) + "]" if len(v) else "[::]"


def coq_natlist(v):
    return "[:: " + "; ".join(str(int(x)) for x in v) + "]" if len(v) else "[::]"


# ----------------------------------------------------------------------------------
# Coq
def coq_regen():
    """run the translators (rewrite theories/Gen/*.v only when content changes)"""
    sys.path.insert(0, os.path.join(VERIF, "translators"))
    import importlib
    res = {}
    for mod in ("t_params", "t_leaf", "t_abi", "t_shape"):
        p = os.path.join(VERIF, "translators", mod + ".py")
        if not os.path.exists(p):
            continue
        try:
            m = importlib.import_module(mod)
            res[mod] = m.run(REPO, os.path.join(COQ, "theories", "Gen"))
        except Exception:  # the source no longer has the shape the translator reads: the model is stale
            import traceback
            res[mod] = {"errors": ["translator %s raised: %s" % (mod, traceback.format_exc()[-1200:])], "raised": True}
    return res


def coq_makefile():
    mk = os.path.join(COQ, "Makefile")
    cp = os.path.join(COQ, "_CoqProject")
    if (not os.path.exists(mk)) or os.path.getmtime(mk) < os.path.getmtime(cp):
        rc, out, err = sh(["coq_makefile", "-f", "_CoqProject", "-o", "Makefile"], cwd=COQ)
        if rc != 0:
            raise BuildError("coq_makefile: " + err)


def coq_make(targets, timeout=3000):
    """make -k the given .vo targets (paths relative to coq/). Returns dict with log, ok list, failed list"""
    coq_makefile()
    t0 = time.time()
    rc, out, err = sh(["timeout", str(timeout), "make", "-k", "-j%d" % NCPU] + list(targets), cwd=COQ, timeout=timeout + 30)
    log = out + "\n" + err
    failed = []
    for t in targets:
        if not os.path.exists(os.path.join(COQ, t)):
            failed.append(t)
        else:
            src = os.path.join(COQ, t[:-1])
            if os.path.getmtime(os.path.join(COQ, t)) < os.path.getmtime(src):
                failed.append(t)
    return {"rc": rc, "log": log, "failed": failed, "wall": time.time() - t0}


def coq_deps(target_v):
    """transitive list of project .v files a property file depends on (via coqdep)"""
    rc, out, err = sh("coqdep -f _CoqProject 2>/dev/null", cwd=COQ)
    dep = {}
    for line in out.splitlines():
        if ":" not in line:
            continue
        l, r = line.split(":", 1)
        for t in l.split():
            if t.endswith(".vo"):
                dep[t] = [x for x in r.split() if x.endswith(".vo")]
    seen = []
    def go(t):
        if t in seen:
            return
        seen.append(t)
        for d in dep.get(t, []):
            go(d)
    go(target_v + "o" if target_v.endswith(".v") else target_v)
    return [s[:-1] for s in seen]


STMT_RE = re.compile(r"^\s*(?:Local\s+|Global\s+|#\[[^\]]*\]\s*)*(Theorem|Lemma|Corollary|Example|Fact|Proposition|Remark)\s+([A-Za-z_0-9']+)", re.M)
FORBID_RE = re.compile(r"\b(Admitted|admit|Axiom|Axioms|Parameter|Parameters|Conjecture|Hypothesis|Variable|Variables|Hypotheses)\b|Unset\s+Guard|bypass_check|type-in-type|Admit Obligations")


def coq_hygiene(files):
    """forbidden constructs. Variable/Hypothesis are allowed only inside a Section."""
    bad = []
    for f in files:
        depth = 0
        txt = open(os.path.join(COQ, f)).read()
        txt = re.sub(r"\(\*.*?\*\)", lambda m: " " * 0 + "\n" * m.group(0).count("\n"), txt, flags=re.S)
        for ln, line in enumerate(txt.splitlines(), 1):
            if re.match(r"\s*Section\s", line):
                depth += 1
            if re.match(r"\s*End\s", line) and depth > 0:
                depth -= 1 if not re.match(r"\s*End\s+\w+\.\s*$", line) or True else 0
            for m in FORBID_RE.finditer(line):
                w = m.group(0)
                if w.split()[0] in ("Variable", "Variables", "Hypothesis", "Hypotheses") :
                    if depth > 0:
                        continue
                if w == "Parameter" and re.search(r"ast-dump|-Xclang", line):
                    continue
                bad.append("%s:%d: %s" % (f, ln, line.strip()[:100]))
    return bad


def coq_obligations(files):
    """named statements in the given project files (the obligations that make re-checks)"""
    names = []
    for f in files:
        txt = open(os.path.join(COQ, f)).read()
        txt = re.sub(r"\(\*.*?\*\)", "", txt, flags=re.S)
        for m in STMT_RE.finditer(txt):
            names.append((f, m.group(2)))
    return names


def coq_eval(vfile, timeout=900):
    """coqc a generated file under the project's load path; returns (rc, out+err)"""
    rc, out, err = sh(["timeout", str(timeout), "coqc", "-w", "none", "-Q", "theories", "LS", vfile], cwd=COQ, timeout=timeout + 30)
    return rc, out + err


def parse_assumptions(log):
    """collect axioms printed by Print Assumptions in a make log"""
    ax = set()
    closed = 0
    lines = log.splitlines()
    i = 0
    while i < len(lines):
        l = lines[i]
        if "Closed under the global context" in l:
            closed += 1
        if l.startswith("Axioms:"):
            i += 1
            while i < len(lines) and (lines[i].startswith(" ") or re.match(r"^[A-Za-z_][\w.']*\s*:", lines[i]) or lines[i].strip() == ""):
                m = re.match(r"^([A-Za-z_][\w.']*)\s*:", lines[i])
                if m and m.group(1) != "Axioms":
                    ax.add(m.group(1))
                if lines[i].strip() == "":
                    break
                i += 1
            continue
        i += 1
    return closed, sorted(ax)


# ----------------------------------------------------------------------------------
# known findings
def load_known():
    p = os.path.join(VERIF, "known_findings.json")
    if not os.path.exists(p):
        return []
    return json.load(open(p))["findings"]


class Check:
    """accumulates the outcome of one check run and renders verdict + evidence"""

    def __init__(self, pid, tier, seed, keep_replays=False):
        self.pid = pid
        self.tier = tier
        self.seed = seed
        self.t0 = time.time()
        if not keep_replays:
            for old in glob.glob(os.path.join(VERIF, "replay", "%s-%d-*.json" % (pid, seed))):
                os.remove(old)
        self.failures = []      # dicts: site, cls, what, case(replay content)
        self.obl_broken = []    # names of theorems / correspondences that no longer check
        self.cov = {"evaluations": 0, "distinct_nontrivial": 0, "rule": "", "samples": [],
                    "obligations": 0, "discharged": 0, "checker_cmd": "", "trusted_base": []}
        self.assumptions = []
        self.notes = []
        self.hist = {}
        self._distinct = set()

    # -- coverage bookkeeping
    def count(self, key, n=1):
        self.hist[key] = self.hist.get(key, 0) + n

    def case(self, canon, nontrivial=True, sample=None):
        self.cov["evaluations"] += 1
        if nontrivial:
            self._distinct.add(hashlib.sha1(repr(canon).encode()).hexdigest())
        if sample is not None and len(self.cov["samples"]) < 4:
            self.cov["samples"].append(sample)

    def fail(self, site, cls, what, case):
        self.failures.append({"site": site, "class": cls, "what": what, "case": case})

    def broken(self, name, detail=""):
        self.obl_broken.append({"name": name, "detail": detail[-1500:]})

    # -- proof part
    def prove(self, prop_file, extra_targets=()):
        """(re)generate Gen files, build Properties file, record obligations"""
        gen = coq_regen()
        self.gen = gen
        tgt = "theories/Props/%s.vo" % prop_file
        files = coq_deps("theories/Props/%s.v" % prop_file)
        # force the property file itself to be re-checked every run (Print Assumptions output)
        vo = os.path.join(COQ, tgt)
        if os.path.exists(vo):
            os.remove(vo)
        genfiles = {"t_params": "Gen_Params", "t_leaf": "Gen_Leaf", "t_abi": "Gen_Abi", "t_shape": "Gen_Shape"}
        for mod, g in gen.items():
            if isinstance(g, dict) and g.get("raised") and any(genfiles.get(mod, "?") in f for f in files):
                self.broken("translator:" + mod, "the model this property is proved about could not be regenerated from the source: " + "; ".join(g["errors"]))
        r = coq_make([tgt] + list(extra_targets))
        obl = coq_obligations(files)
        self.cov["obligations"] = len(obl)
        bad = coq_hygiene(files)
        if bad:
            self.broken("hygiene", "forbidden constructs: " + "; ".join(bad[:5]))
        if r["failed"]:
            # find which file failed
            m = re.findall(r'File "\./([^"]+)", line (\d+)', r["log"])
            self.broken("coq-build:" + ",".join(sorted(set(f for f, _ in m)) or r["failed"]), r["log"][-1500:])
            failedfiles = set(f for f, _ in m)
            ok = [o for o in obl if o[0] not in failedfiles and o[0] != "theories/Props/%s.v" % prop_file]
            self.cov["discharged"] = len(ok)
        else:
            self.cov["discharged"] = len(obl)
        closed, ax = parse_assumptions(r["log"])
        self.cov["print_assumptions_closed"] = closed
        self.cov["axioms_reported"] = ax
        self.cov["checker_cmd"] = "make -k -j%d %s (coqc 8.16.1, full .vo) in /verif/coq" % (NCPU, tgt)
        self.cov["theorems"] = [n for f, n in obl if f.startswith("theories/Props/")]
        self.cov["files"] = files
        self.cov["coq_wall_s"] = round(r["wall"], 1)
        self.cov["trusted_base"] = [
            "Coq 8.16.1 kernel + vm_compute (no native_compute)",
            "axioms reported by Print Assumptions in this run: " + (", ".join(ax) if ax else "none (Closed under the global context x%d)" % closed),
        ]
        return r

    # -- verdict
    def finish_replay(self, rp, path):
        """replay mode: the generators are deterministic in (seed, tier), so the recorded input is
        regenerated by re-running the check with the recorded seed and tier on the CURRENT tree;
        reports whether the recorded failure recurs. Writes neither evidence nor replay files."""
        if rp.get("kind") == "obligation":
            names = {b.get("name") for b in rp.get("broken", [])}
            again = [b for b in self.obl_broken if b.get("name") in names]
            hit = bool(again) or bool(self.obl_broken)
            what = "; ".join(b.get("name", "?") for b in (again or self.obl_broken))
        else:
            again = [f for f in self.failures if f["site"] == rp.get("site") and f["class"] == rp.get("class")]
            hit = bool(again)
            what = again[0]["what"] if again else ""
        if hit:
            print("REPRODUCED: %s" % what[:300])
            print("VIOLATION property=%s replay=%s%s" % (self.pid, path, " no-failing-input-found" if rp.get("kind") == "obligation" else ""))
            return 1
        print("NOT REPRODUCED on the current tree: %s/%s (seed %s, tier %s)" % (rp.get("site"), rp.get("class"), rp.get("seed"), rp.get("tier")))
        return 0

    def finish(self):
        known = [k for k in load_known() if k["property"] == self.pid and k["status"] == "known"]
        lines = []
        viol = []
        seen_known = set()
        for f in self.failures:
            hit = None
            for k in known:
                if k["site"] == f["site"] and k["class"] == f["class"]:
                    hit = k
                    break
            if hit:
                kk = (hit["site"], hit["class"])
                if kk not in seen_known:
                    seen_known.add(kk)
                    lines.append("KNOWN-FINDING: property=%s %s [%s/%s]" % (self.pid, hit["what"], hit["site"], hit["class"]))
            else:
                viol.append(f)
        os.makedirs(os.path.join(VERIF, "replay"), exist_ok=True)
        rc = 0
        if viol:
            # group by (site,class), one replay each (first = smallest found)
            done = set()
            for n, f in enumerate(viol):
                kk = (f["site"], f["class"])
                if kk in done:
                    continue
                done.add(kk)
                p = os.path.join(VERIF, "replay", "%s-%d-%d.json" % (self.pid, self.seed, len(done)))
                json.dump({"property": self.pid, "kind": "input", "site": f["site"], "class": f["class"],
                           "what": f["what"], "case": f["case"], "seed": self.seed, "tier": self.tier,
                           "cmd": "./check %s --replay %s" % (self.pid, p)}, open(p, "w"), indent=1, default=str)
                lines.append("VIOLATION property=%s replay=%s" % (self.pid, p))
            rc = 1
        unexplained = list(self.obl_broken)
        if unexplained and not viol:
            p = os.path.join(VERIF, "replay", "%s-%d-obligation.json" % (self.pid, self.seed))
            json.dump({"property": self.pid, "kind": "obligation", "broken": unexplained, "seed": self.seed, "tier": self.tier,
                       "note": "a proof obligation or the model/implementation correspondence no longer checks and the search found no concrete failing input",
                       "cmd": "./check %s --tier %s" % (self.pid, self.tier)}, open(p, "w"), indent=1, default=str)
            lines.append("VIOLATION property=%s replay=%s no-failing-input-found" % (self.pid, p))
            rc = 1
        self.cov["distinct_nontrivial"] = len(self._distinct)
        self.cov["histogram"] = self.hist
        self.cov["known_findings_seen"] = sorted("%s/%s" % k for k in seen_known)
        self.cov["broken_obligations"] = self.obl_broken
        if self.notes:
            self.cov["notes"] = self.notes
        ev = {"property_id": self.pid, "tier": self.tier, "seed": self.seed, "level": "proof",
              "coverage": self.cov, "assumptions": self.assumptions,
              "wall_s": round(time.time() - self.t0, 2), "violations": len(viol) + (1 if (unexplained and not viol) else 0)}
        # VERIF_EVIDENCE_DIR: used by the seeded-change campaign so that runs on a mutated tree never
        # overwrite the evidence of the unchanged tree
        evdir = os.environ.get("VERIF_EVIDENCE_DIR") or os.path.join(VERIF, "evidence")
        os.makedirs(evdir, exist_ok=True)
        json.dump(ev, open(os.path.join(evdir, self.pid + ".json"), "w"), indent=1, default=str)
        for l in lines:
            print(l)
        print("%s %s: obligations %d/%d, cases %d (%d distinct non-trivial), failures %d (unlisted %d), broken %d, %.1fs" % (
            self.pid, self.tier, self.cov["discharged"], self.cov["obligations"], self.cov["evaluations"],
            self.cov["distinct_nontrivial"], len(self.failures), len(viol), len(self.obl_broken), time.time() - self.t0))
        return rc


class Rng:
    """single PRNG (all random choices of a run derive from VERIF_SEED)"""

    def __init__(self, seed):
        self.r = random.Random(seed)

    def __getattr__(self, k):
        return getattr(self.r, k)

    def mat(self, n, m, lo=-1.0, hi=1.0):
        return [[self.r.uniform(lo, hi) for _ in range(m)] for _ in range(n)]

    def gauss_mat(self, n, m, s=1.0):
        return [[self.r.gauss(0, s) for _ in range(m)] for _ in range(n)]


# ----------------------------------------------------------------------------------
# driver I/O
def fmt_mat(m, ncols=None):
    r = len(m)
    c = len(m[0]) if r else (ncols or 0)
    return "%d %d %s" % (r, c, " ".join(fhex(x) for row in m for x in row))


def fmt_vec(v):
    return "%d %s" % (len(v), " ".join(fhex(x) for x in v))


def fmt_uivec(v):
    return "%d %s" % (len(v), " ".join(str(int(x)) for x in v))


def fmt_tensor(t):
    return "%d %s" % (len(t), " ".join(fmt_mat(m) for m in t))


def parse_driver_output(out):
    """-> list of dict name -> value (float | int | list | list of lists)"""
    cases = []
    cur = {}
    for line in out.splitlines():
        if line == ".":
            cases.append(cur)
            cur = {}
            continue
        if not line.startswith("= "):
            continue
        tk = line.split()
        name, kind = tk[1], tk[2]
        if kind == "D":
            cur[name] = parse_f(tk[3])
        elif kind == "I":
            cur[name] = int(tk[3])
        elif kind == "V":
            n = int(tk[3])
            cur[name] = [parse_f(x) for x in tk[4:4 + n]]
        elif kind == "U":
            n = int(tk[3])
            cur[name] = [int(x) for x in tk[4:4 + n]]
        elif kind == "M":
            r, c = int(tk[3]), int(tk[4])
            vals = [parse_f(x) for x in tk[5:5 + r * c]]
            cur[name] = [vals[i * c:(i + 1) * c] for i in range(r)]
            cur[name + ".shape"] = (r, c)
        elif kind == "S":
            cur[name] = " ".join(tk[3:])
    if cur:
        cur["_truncated"] = True
        cases.append(cur)
    return cases


def _run_watch(cmd, text, timeout, case_timeout, env):
    """run the driver with a watchdog: killed (rc 124) when the whole run exceeds `timeout` or when no further case
    is answered (a line holding a single '.') within `case_timeout` seconds"""
    import threading
    p = subprocess.Popen(cmd, stdin=subprocess.PIPE, stdout=subprocess.PIPE, stderr=subprocess.PIPE, env=env)
    chunks, errs = [], []
    state = {"done": 0, "t": time.time()}

    def rd_out():
        for line in iter(p.stdout.readline, b""):
            chunks.append(line)
            if line.strip() == b".":
                state["done"] += 1
                state["t"] = time.time()

    def rd_err():
        errs.append(p.stderr.read())

    def wr_in():
        try:
            p.stdin.write(text)
            p.stdin.close()
        except (BrokenPipeError, OSError):
            pass
    ths = [threading.Thread(target=f, daemon=True) for f in (rd_out, rd_err, wr_in)]
    for t in ths:
        t.start()
    t0 = time.time()
    hung = False
    while p.poll() is None:
        time.sleep(0.05)
        now = time.time()
        if now - t0 > timeout or now - state["t"] > case_timeout:
            hung = True
            p.kill()
            break
    p.wait()
    for t in ths:
        t.join(timeout=5)
    out = b"".join(chunks).decode("utf-8", "replace")
    err = b"".join(x for x in errs if x).decode("utf-8", "replace")
    return (124 if hung else p.returncode), out, err


def run_driver(exe, text, timeout=600, env=None, case_timeout=240):
    e = dict(os.environ)
    e["ASAN_OPTIONS"] = "detect_leaks=0:abort_on_error=0:exitcode=77"
    e["UBSAN_OPTIONS"] = "print_stacktrace=1:halt_on_error=1:exitcode=78"
    if env:
        e.update(env)
    rc, out, err = _run_watch([exe], text.encode(), timeout, case_timeout, e)
    return rc, parse_driver_output(out), err


# which output each bit of a driver's `reuse_bad` mask stands for (per driver; ops of one driver use disjoint meanings
# only where listed by op name)
REUSE_SITES = {
    "drv_pca": ["PCAScorePredictor (output holding a previous result / junk)", "PCAScorePredictor (output holding the scores of another block)",
                "PCAIndVarPredictor", "GetResidualMatrix"],
    "drv_pls": ["PLSScorePredictor", "PLSYPredictorAllLV (score output)", "PLSYPredictorAllLV (response output)", "PLSYPredictorAllLV (no score output requested)",
                "PLSYPredictor (output reused for 1..A latent variables)"],
    "drv_alg:mlr": ["MLRPredictY", "MLRPredictY (R2/SDEC without the optional residual matrix)"],
    "drv_alg:square": ["MatrixInversion", "MatrixInversion (in place)", "MatrixLUInversion", "MatrixLUInversion (in place)"],
    "drv_alg:ols": ["OrdinaryLeastSquares"], "drv_alg:pinv": ["MatrixMoorePenrosePseudoinverse"],
    "drv_alg:eig": ["EVectEval (eigenvalues)", "EVectEval (eigenvectors)"], "drv_alg:svd": ["SVDlapack (U)", "SVDlapack (S)", "SVDlapack (V')", "SVDlapack (input object used as an output)"],
    "drv_kernels:outer": ["RowColOuterProduct", "DVectorTrasposedDVectorDotProduct"],
    "drv_kernels:unary": ["MatrixTranspose", "MatrixNorm", "MatrixCovariance", "MatrixColAverage (append)", "MatrixColVar (append)", "MatrixColSDEV (append)",
                          "MatrixColRMS (append)", "MatrixRowAverage (append)"],
    "drv_prep": ["MatrixPreprocess (transformed matrix)", "MatrixPreprocess (stored statistics)", "MatrixPreprocess (apply)", "MatrixPreprocess (apply into an empty output)", "MatrixPreprocess (apply with another value of the option argument)"],
    "drv_interp:spline": ["cubic_spline_interpolation (table that held a larger spline)", "cubic_spline_predict"],
    "drv_interp:nm": ["NelderMeadSimplex (result vector holding numbers)", "NelderMeadSimplex (start point used as result vector)"],
    "drv_stat:plsstat": ["PLSRegressionStatistics"],
    "drv_lda": ["LDAPrediction"], "drv_sel": ["KMeans"],
}


def reuse_scan(ck, key, outs, describe):
    """a routine that returns its result in an output object must return the same result when that object already holds
    numbers (the same call repeated, junk of the right shape, a result of another shape) or when input and output are
    the same object where the library supports it; the drivers make those calls and report a bit mask"""
    names = REUSE_SITES[key]
    n = 0
    for k, o in enumerate(outs):
        if not o or "reuse_bad" not in o:
            continue
        n += 1
        mask = int(o["reuse_bad"])
        for b, nm in enumerate(names):
            if mask >> b & 1:
                ck.fail(nm.split(" (")[0], "depends_on_previous_output_contents",
                        "%s: the result differs when the output object already holds numbers or is shared with an input (fresh output vs reused output)" % nm, describe(k))
                break
    ck.count("calls repeated into used output objects", n)


def first_nonfinite(o, exclude=()):
    """name of the first numeric output of a driver case that holds NaN/Inf (comparisons of the form `difference > tolerance`
    are blind to NaN: results that must be finite are tested for it explicitly)"""
    def bad(v):
        if isinstance(v, float):
            return v != v or v in (float("inf"), float("-inf"))
        if isinstance(v, (list, tuple)):
            return any(bad(x) for x in v)
        return False
    for k, v in o.items():
        if k in exclude or k.endswith(".shape"):
            continue
        if bad(v):
            return k
    return None


def run_driver_cases(ck, exe, lines, describe, header="", timeout=900, case_timeout=40, env=None, max_bad=5):
    """run one case per line; a case on which the library hangs (no answer within case_timeout seconds), crashes or
    aborts is reported as a FAILURE of the property with that input (describe(k) -> (site, input dict)), the remaining
    cases are run in a fresh process.  Returns the list of parsed outputs (None for the reported cases)."""
    outs = [None] * len(lines)
    start, nbad = 0, 0
    t0 = time.time()
    while start < len(lines):
        rc, got, err = run_driver(exe, header + "\n".join(lines[start:]) + "\n", timeout=max(30, timeout - (time.time() - t0)), env=env, case_timeout=case_timeout)
        got = got[:len(lines) - start]
        for j, o in enumerate(got):
            outs[start + j] = o
        k = start + len(got)
        if k >= len(lines):
            break
        site, inp = describe(k)
        hang = rc == 124
        ck.fail(site, "hang" if hang else "crash",
                ("the library does not return within %d s on this input" % case_timeout) if hang else
                ("the library aborted or crashed (rc %s): %s" % (rc, (err.strip().splitlines() or [""])[-1][:200])), inp)
        nbad += 1
        start = k + 1
        if nbad >= max_bad or time.time() - t0 > timeout:
            ck.broken("driver %s" % os.path.basename(exe).split("-")[0], "stopped after %d hanging/crashing cases; %d cases not run" % (nbad, len(lines) - start))
            break
    return outs


def coq_failing_ids(log):
    """parse 'FAILING = [:: 1; 2]' style output of Eval vm_compute (list nat)"""
    m = re.search(r"=\s*(\[.*?\])\s*:\s*(?:seq|list)\s+nat", log, re.S)
    if not m:
        return None
    return [int(x) for x in re.findall(r"\d+", m.group(1))]


def run_cases_v(name, imports, defs, checks, shard=400, timeout=900):
    """write coq/cases/<name>_<k>.v holding boolean checks (id, term) and evaluate them with
    vm_compute inside coqc. Returns (failing ids, logs, error or None)."""
    d = os.path.join(COQ, "cases")
    os.makedirs(d, exist_ok=True)
    for old in glob.glob(os.path.join(d, name + "_*")):
        os.remove(old)
    failing = []
    procs = []
    files = []
    # the modules the case files import must be compiled against the CURRENT regenerated files
    # (a change of /repo rewrites Gen_*.v; modules outside the property's own dependency cone
    # would otherwise be stale: "makes inconsistent assumptions")
    mods = set()
    for m in re.finditer(r"From LS Require Import ([^.]*)\.", imports):
        mods.update(m.group(1).split())
    tg = []
    for mname in sorted(mods):
        hit = glob.glob(os.path.join(COQ, "theories", "*", mname + ".v"))
        if hit:
            tg.append(os.path.relpath(hit[0], COQ)[:-2] + ".vo")
    if tg:
        r = coq_make(tg)
        if r["failed"]:
            return [], [r["log"]], "modules imported by the case files do not build: " + r["log"][-1200:]
    for k in range(0, len(checks), shard):
        part = checks[k:k + shard]
        fn = os.path.join(d, "%s_%d.v" % (name, k // shard))
        with open(fn, "w") as f:
            f.write(imports + "\n" + defs + "\n")
            f.write("Definition results : list (nat * bool) :=\n  [:: " + ";\n  ".join("(%d%%N, %s)" % (i, t) for i, t in part) + "].\n")
            f.write("Eval vm_compute in (map fst (filter (fun x => negb (snd x)) results)).\n")
            f.write("Eval vm_compute in (size results).\n")
        files.append(fn)
    # run shards in parallel
    running = []
    logs = []
    err = None
    def start(fn):
        return subprocess.Popen(["timeout", str(timeout), "coqc", "-w", "none", "-Q", "theories", "LS", fn], cwd=COQ,
                                stdout=subprocess.PIPE, stderr=subprocess.STDOUT)
    idx = 0
    results = [None] * len(files)
    active = {}
    while idx < len(files) or active:
        while idx < len(files) and len(active) < NCPU:
            active[idx] = start(files[idx])
            idx += 1
        for i, p in list(active.items()):
            if p.poll() is not None:
                results[i] = (p.returncode, p.stdout.read().decode("utf-8", "replace"))
                del active[i]
        time.sleep(0.05)
    for i, (rc, log) in enumerate(results):
        logs.append(log)
        ids = coq_failing_ids(log)
        if rc != 0 or ids is None:
            err = "coqc on %s failed (rc=%s): %s" % (files[i], rc, log[-1500:])
        else:
            failing += ids
    for fn in files:
        base = fn[:-2]
        for ext in (".vo", ".vok", ".vos", ".glob"):
            try:
                os.remove(base + ext)
            except OSError:
                pass
        try:
            os.remove(os.path.join(os.path.dirname(fn), "." + os.path.basename(base) + ".aux"))
        except OSError:
            pass
    return failing, logs, err


class Checks:
    """boolean Coq terms to evaluate, with a map back to (case index, label)"""

    def __init__(self):
        self.items = []
        self.where = {}

    def add(self, case, label, term):
        cid = len(self.items)
        self.items.append((cid, term))
        self.where[cid] = (case, label)
