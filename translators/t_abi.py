"""T-abi: regenerate theories/Gen/Gen_Abi.v from the C headers (clang JSON AST) and the
ctypes declarations of src/python_bindings/libscientific/*.py (Python's ast)."""
import ast, glob, json, os, re, subprocess
from t_leaf import write_if_changed

CT = {"void": "Void", "double": "Double", "float": "Float", "char": "Char", "signed char": "Char", "unsigned char": "(Int 8 false)",
      "int": "(Int 32 true)", "unsigned int": "(Int 32 false)", "unsigned": "(Int 32 false)", "long": "(Int 64 true)",
      "unsigned long": "(Int 64 false)", "size_t": "(Int 64 false)", "long long": "(Int 64 true)", "unsigned long long": "(Int 64 false)",
      "uint32_t": "(Int 32 false)", "uint64_t": "(Int 64 false)", "int32_t": "(Int 32 true)", "int64_t": "(Int 64 true)", "ssize_t": "(Int 64 true)",
      "short": "(Int 16 true)", "unsigned short": "(Int 16 false)", "_Bool": "(Int 8 false)"}
PT = {"c_double": "Double", "c_float": "Float", "c_int": "(Int 32 true)", "c_uint": "(Int 32 false)", "c_size_t": "(Int 64 false)",
      "c_ssize_t": "(Int 64 true)", "c_long": "(Int 64 true)", "c_ulong": "(Int 64 false)", "c_longlong": "(Int 64 true)",
      "c_ulonglong": "(Int 64 false)", "c_char_p": "(Ptr Char)", "c_void_p": "(Ptr Void)", "c_char": "Char", "c_bool": "(Int 8 false)",
      "c_int32": "(Int 32 true)", "c_uint32": "(Int 32 false)", "c_int64": "(Int 64 true)", "c_uint64": "(Int 64 false)",
      "c_short": "(Int 16 true)", "c_ushort": "(Int 16 false)", "c_byte": "Char", "c_ubyte": "(Int 8 false)"}


def cty(q, enums):
    q = q.replace("const ", "").replace("restrict", "").strip()
    if "(*)" in q or "(" in q:
        return "FunPtr"
    n = q.count("*")
    base = q.replace("*", "").strip()
    arr = re.search(r"\[(\d*)\]", base)
    if arr:
        base = base[:arr.start()].strip()
        n += 1
    if base.startswith("struct "):
        base = base[7:]
    if base.startswith("enum "):
        t = "(Int 32 false)"
    elif base in CT:
        t = CT[base]
    elif base in enums:
        t = "(Int 32 false)"
    else:
        t = '(Named "%s")' % base
    for _ in range(n):
        t = "(Ptr %s)" % t
    return t


def c_side(repo):
    src = os.path.join(repo, "src")
    inc = glob.glob("/verif/.cache/lib-*-plain/inc")
    tmpc = "/verif/.cache/abi_all.c"
    os.makedirs("/verif/.cache", exist_ok=True)
    hdrs = sorted(os.path.basename(h) for h in glob.glob(os.path.join(src, "*.h")) if os.path.basename(h) not in ("scientific.h",))
    open(tmpc, "w").write("".join('#include "%s"\n' % h for h in hdrs))
    cmd = ["clang", "-fsyntax-only", "-std=c99", "-D_GNU_SOURCE", "-w", "-I" + src] + ["-I" + i for i in inc[:1]] + \
          ["-Xclang", "-ast-dump=json", tmpc]
    p = subprocess.run(cmd, stdout=subprocess.PIPE, stderr=subprocess.PIPE, timeout=300)
    d = json.loads(p.stdout.decode())
    names = set(os.listdir(src))
    cur = None
    recs = {}
    structs = {}
    funs = {}
    enums = set()
    scalars = {}
    # clang prints the "file" of a source location only when it differs from the location printed just before it,
    # ANYWHERE in the dump (also inside nested nodes): follow every location in document order
    state = {"cur": None}

    def see(l):
        if isinstance(l, dict):
            for key in ("spellingLoc", "expansionLoc"):
                if key in l:
                    see(l[key])
            if l.get("file"):
                state["cur"] = l["file"]

    def walk_locs(n):
        see(n.get("loc"))
        r = n.get("range")
        if isinstance(r, dict):
            see(r.get("begin")); see(r.get("end"))
        for c in n.get("inner", []) or []:
            if isinstance(c, dict):
                walk_locs(c)
    for x in d["inner"]:
        see(x.get("loc"))
        cur = state["cur"]
        r_ = x.get("range")
        if isinstance(r_, dict):
            see(r_.get("begin")); see(r_.get("end"))
        for c_ in x.get("inner", []) or []:
            if isinstance(c_, dict):
                walk_locs(c_)
        if not cur or os.path.basename(cur) not in names or not (cur.startswith(src) or "/scientific/" in cur):
            continue
        k = x["kind"]
        if k == "EnumDecl" and x.get("name"):
            enums.add(x["name"])
        if k == "RecordDecl":
            fields = [(c["name"], c["type"]["qualType"]) for c in x.get("inner", []) if c.get("kind") == "FieldDecl"]
            recs[x["id"]] = fields
            if x.get("name") and fields:
                structs[x["name"]] = fields
        elif k == "TypedefDecl":
            # typedef struct {...} name;
            def find_rec(n):
                if n.get("kind") == "RecordType" and "decl" in n:
                    return n["decl"]["id"]
                for c in n.get("inner", []):
                    r = find_rec(c)
                    if r:
                        return r
                if "ownedTagDecl" in n:
                    return n["ownedTagDecl"]["id"]
                return None
            rid = find_rec(x)
            if rid in recs and recs[rid]:
                structs[x["name"]] = recs[rid]
            elif x["type"]["qualType"].startswith("enum "):
                enums.add(x["name"])
            else:
                # a typedef of a scalar type (typedef int ssignal;): parameters written with the typedef name have the
                # width of what it stands for NOW
                u = (x["type"].get("desugaredQualType") or x["type"]["qualType"]).replace("const ", "").strip()
                if u in CT:
                    scalars[x["name"]] = u
        elif k == "FunctionDecl":
            if x.get("storageClass") == "static":
                continue    # internal linkage (e.g. static inline in a header): not a symbol of the shared library
            params = [c["type"]["qualType"] for c in x.get("inner", []) if c.get("kind") == "ParmVarDecl"]
            ret = x["type"]["qualType"].split("(")[0].strip()
            funs[x["name"]] = (ret, params)

    # the DEFINITIONS: what the shared library exports is what src/*.c define, whatever the headers say (a source file that does
    # not include its own header is never compared with it by the compiler): a non-static function definition replaces the
    # header's prototype of the same name
    def defs_of(cfile):
        if os.path.getsize(cfile) > 400000:
            return {}       # data tables (datasets.c)
        pc = subprocess.run(["clang", "-fsyntax-only", "-std=c99", "-D_GNU_SOURCE", "-w", "-I" + src] + ["-I" + i for i in inc[:1]] +
                            ["-Xclang", "-ast-dump=json", cfile], stdout=subprocess.PIPE, stderr=subprocess.PIPE, timeout=300)
        try:
            dd = json.loads(pc.stdout.decode())
        except Exception:
            return {}
        r = {}
        for x in dd.get("inner", []):
            if x.get("kind") != "FunctionDecl" or x.get("storageClass") == "static" or x.get("isImplicit"):
                continue
            if not any(c.get("kind") == "CompoundStmt" for c in x.get("inner", []) or []):
                continue
            if x.get("inline") and x.get("storageClass") != "extern":
                continue
            r[x["name"]] = (x["type"]["qualType"].split("(")[0].strip(), [c["type"]["qualType"] for c in x.get("inner", []) if c.get("kind") == "ParmVarDecl"])
        return r
    from concurrent.futures import ThreadPoolExecutor
    with ThreadPoolExecutor(max_workers=8) as ex:
        for dm in ex.map(defs_of, sorted(glob.glob(os.path.join(src, "*.c")))):
            for n_, sig in dm.items():
                funs[n_] = sig

    def resolve(q):
        return re.sub(r"\b([A-Za-z_]\w*)\b", lambda m_: scalars.get(m_.group(1), m_.group(1)), q)
    funs = {n: (resolve(r), [resolve(p_) for p_ in ps_]) for n, (r, ps_) in funs.items()}
    structs = {n: [(fn_, resolve(t_)) for fn_, t_ in fl_] for n, fl_ in structs.items()}
    return structs, funs, enums


class PyT:
    def __init__(self):
        self.unknown = []

    def ty(self, n):
        if n is None or (isinstance(n, ast.Constant) and n.value is None):
            return "Void"
        if isinstance(n, ast.Attribute):
            if n.attr in PT:
                return PT[n.attr]
            return '(Named "%s")' % n.attr
        if isinstance(n, ast.Name):
            if n.id in PT:
                return PT[n.id]
            return '(Named "%s")' % n.id
        if isinstance(n, ast.Call):
            fn = n.func.attr if isinstance(n.func, ast.Attribute) else getattr(n.func, "id", "")
            if fn == "POINTER" and len(n.args) == 1:
                return "(Ptr %s)" % self.ty(n.args[0])
            if fn == "CFUNCTYPE":
                return "FunPtr"
        self.unknown.append(ast.dump(n)[:80])
        return "Unknown"


def py_side(repo):
    pdir = os.path.join(repo, "src", "python_bindings", "libscientific")
    structs = {}
    decls = {}
    called = set()
    pt = PyT()
    for f in sorted(glob.glob(os.path.join(pdir, "*.py"))):
        tree = ast.parse(open(f).read())
        fn = os.path.basename(f)
        # a declaration is in force only if it is EXECUTED when the module is imported: statements of the module body and of
        # compound statements / class bodies nested in it — not the bodies of functions (a declaration that slipped into a
        # wrapper function, e.g. after its return, never runs); calls are collected everywhere
        def import_time(body):
            for st in body:
                yield st
                if isinstance(st, (ast.FunctionDef, ast.AsyncFunctionDef, ast.Lambda)):
                    continue
                for fld in ("body", "orelse", "finalbody", "handlers"):
                    sub = getattr(st, fld, None)
                    if isinstance(sub, list):
                        for x in import_time([h for h in sub if isinstance(h, ast.stmt)] + [s2 for h in sub if isinstance(h, ast.ExceptHandler) for s2 in h.body]):
                            yield x
        live = set(id(n) for n in import_time(tree.body))
        # ctypes keeps argtypes/restype per library HANDLE: when the module binds its global `lsci` again (a second
        # load_libscientific_library()), the wrappers — which run after the import — call through the LAST handle, and the
        # declarations made on an earlier handle are not in force
        rebinds = [st.lineno for st in import_time(tree.body) if isinstance(st, ast.Assign) and any(isinstance(t_, ast.Name) and t_.id == "lsci" for t_ in st.targets)]
        last_bind = max(rebinds) if rebinds else 0
        for node in ast.walk(tree):
            if isinstance(node, ast.Assign) and id(node) not in live and not any(isinstance(t_, ast.Name) and t_.id == "_fields_" for t_ in node.targets):
                continue
            if isinstance(node, ast.Assign) and len(node.targets) == 1 and isinstance(node.targets[0], ast.Attribute) and node.targets[0].attr in ("argtypes", "restype") \
                    and getattr(node, "lineno", 0) < last_bind:
                continue
            if isinstance(node, ast.ClassDef) and any((isinstance(b, ast.Attribute) and b.attr == "Structure") or (isinstance(b, ast.Name) and b.id == "Structure") for b in node.bases):
                for st in node.body:
                    if isinstance(st, ast.Assign) and any(isinstance(t, ast.Name) and t.id == "_fields_" for t in st.targets) and isinstance(st.value, (ast.List, ast.Tuple)):
                        fl = []
                        for e in st.value.elts:
                            if isinstance(e, ast.Tuple) and len(e.elts) >= 2 and isinstance(e.elts[0], ast.Constant):
                                fl.append((e.elts[0].value, pt.ty(e.elts[1])))
                        structs[node.name] = (fn, fl)
            if isinstance(node, ast.Assign) and len(node.targets) == 1:
                t = node.targets[0]
                if isinstance(t, ast.Attribute) and t.attr in ("argtypes", "restype") and isinstance(t.value, ast.Attribute) \
                        and isinstance(t.value.value, ast.Name) and t.value.value.id == "lsci":
                    name = t.value.attr
                    # every module loads its own library handle: a declaration holds for the module that makes it
                    d = decls.setdefault((fn, name), {"file": fn})
                    if t.attr == "argtypes":
                        if isinstance(node.value, (ast.List, ast.Tuple)):
                            d["args"] = [pt.ty(e) for e in node.value.elts]
                        else:
                            d["args"] = None
                    else:
                        d["ret"] = pt.ty(node.value)
            if isinstance(node, ast.Call) and isinstance(node.func, ast.Attribute) and isinstance(node.func.value, ast.Name) and node.func.value.id == "lsci":
                called.add((fn, node.func.attr))
    return structs, decls, called, pt.unknown


def coq_str(s):
    return '"%s"' % s


def run(repo, outdir):
    cs, cf, enums = c_side(repo)
    ps, pd, called, unknown = py_side(repo)
    out = ["(* GENERATED by /verif/translators/t_abi.py from src/*.h, the function definitions of src/*.c and src/python_bindings/libscientific/*.py — do not edit. *)",
           "From Coq Require Import String List ZArith.", "Import ListNotations.", "From LS Require Import Abi.", "Local Open Scope string_scope.", ""]
    def fl(fields, conv):
        return "[" + "; ".join("(%s, %s)" % (coq_str(n), conv(t)) for n, t in fields) + "]"
    out.append("Definition c_structs : list (string * list (string * ctype)) :=\n  [" +
               ";\n   ".join("(%s, %s)" % (coq_str(n), fl(f, lambda t: cty(t, enums))) for n, f in sorted(cs.items())) + "].\n")
    out.append("Definition c_protos : list (string * (ctype * list ctype)) :=\n  [" +
               ";\n   ".join("(%s, (%s, [%s]))" % (coq_str(n), cty(r, enums), "; ".join(cty(p, enums) for p in ps_)) for n, (r, ps_) in sorted(cf.items())) + "].\n")
    out.append("Definition py_structs : list (string * list (string * ctype)) :=\n  [" +
               ";\n   ".join("(%s, %s)" % (coq_str(n), fl(f, lambda t: t)) for n, (_, f) in sorted(ps.items())) + "].\n")
    # declarations: name, declared argtypes (option), restype (option; ctypes default = c_int)
    def opt_args(d):
        if d.get("args") is None:
            return "None"
        return "Some [%s]" % "; ".join(d["args"])
    def opt_ret(d):
        return "Some %s" % d["ret"] if "ret" in d else "None"
    # one entry per (module, function): a function called in a module that does not declare it there is an entry
    # without argtypes/restype (ctypes then converts nothing and reads the result as a C int)
    allnames = sorted(set(pd) | called)
    out.append("(* one entry per module and function, in the order: " + ", ".join("%s:%s" % k for k in allnames[:6]) + ", ... *)")
    out.append("Definition py_decls : list (string * (option (list ctype) * option ctype)) :=\n  [" +
               ";\n   ".join("(%s, (%s, %s))" % (coq_str(k[1]), opt_args(pd.get(k, {})), opt_ret(pd.get(k, {}))) for k in allnames) + "].\n")
    out.append("Definition py_decl_modules : list string :=\n  [" + "; ".join(coq_str(k[0]) for k in allnames) + "].\n")
    # name map python class -> C typedef: votes from positional pairing of struct names in the
    # declared functions (same arity) and in structures of equal (case-insensitive) name
    votes = {}
    def leaf(t):
        m = re.findall(r'Named "([^"]+)"', t)
        return m[0] if m else None
    def vote(pt_, ct_):
        a, b = leaf(pt_), leaf(ct_)
        if a and b:
            votes.setdefault(a, {}).setdefault(b, 0)
            votes[a][b] += 1
    for (_, n), d in pd.items():
        if n in cf and d.get("args") is not None and len(d["args"]) == len(cf[n][1]):
            for pa, ca in zip(d["args"], cf[n][1]):
                vote(pa, cty(ca, enums))
    lower = {}
    for n in cs:
        lower.setdefault(n.lower(), []).append(n)
    for pn, (_, pf) in ps.items():
        for cn in lower.get(pn.lower(), []):
            votes.setdefault(pn, {}).setdefault(cn, 0)
            votes[pn][cn] += 5
            if len(pf) == len(cs[cn]):
                for (_, pt_), (_, ct_) in zip(pf, cs[cn]):
                    vote(pt_, cty(ct_, enums))
    nm = []
    for pn in sorted(ps):
        if pn in votes:
            best = sorted(votes[pn].items(), key=lambda kv: (-kv[1], kv[0]))[0][0]
            nm.append((pn, best))
    out.append("Definition name_map : list (string * string) :=\n  [" + "; ".join("(%s, %s)" % (coq_str(a), coq_str(b)) for a, b in nm) + "].\n")
    changed = write_if_changed(os.path.join(outdir, "Gen_Abi.v"), "\n".join(out) + "\n")
    return {"c_structs": len(cs), "c_protos": len(cf), "py_structs": len(ps), "py_decls": len(pd), "py_called": len(called),
            "unknown_py_types": unknown, "changed": changed,
            "py_files": {n: f for n, (f, _) in ps.items()}, "decl_files": {n: d.get("file") for (_, n), d in pd.items()},
            "decl_modules": ["%s:%s" % k for k in allnames]}


if __name__ == "__main__":
    import sys
    print(json.dumps(run(sys.argv[1] if len(sys.argv) > 1 else "/repo", "/verif/coq/theories/Gen"), indent=1)[:3000])
