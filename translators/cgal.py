"""cgal.py — shallow translation of small C integer code (clang JSON AST) to Gallina.

Supported subset: integer locals, + - * / % << >> ^ & |, comparisons, if/else, return,
(compound) assignment, integral casts (explicit wrap at the C type's width for unsigned
types), `ceil((double)a/(double)b)` (-> ceiling division), struct-pointer array members
`s->x[k]` with constant k (-> variables x_k), canonical thread-slicing for loops.
Anything else raises Unsupported (the translator fails loudly)."""
import json, os, re, subprocess


class Unsupported(Exception):
    pass


def clang_ast(path, fn, incs):
    cmd = ["clang", "-fsyntax-only", "-std=c99", "-D_GNU_SOURCE", "-DLIBSCIENTIFIC_VERIF", "-w"] + \
        ["-I" + i for i in incs] + ["-Xclang", "-ast-dump=json", "-Xclang", "-ast-dump-filter=" + fn, path]
    p = subprocess.run(cmd, stdout=subprocess.PIPE, stderr=subprocess.PIPE, timeout=120)
    txt = p.stdout.decode()
    dec = json.JSONDecoder()
    i = 0
    docs = []
    while i < len(txt):
        while i < len(txt) and txt[i].isspace():
            i += 1
        if i >= len(txt):
            break
        d, j = dec.raw_decode(txt, i)
        docs.append(d)
        i = j
    for d in docs:
        if d.get("kind") == "FunctionDecl" and d.get("name") == fn and any(c.get("kind") == "CompoundStmt" for c in d.get("inner", [])):
            return d
    raise Unsupported("function %s not found in %s" % (fn, path))


WIDTH = {"size_t": (64, False), "unsigned long": (64, False), "unsigned long long": (64, False), "uint64_t": (64, False),
         "uint32_t": (32, False), "unsigned int": (32, False), "int": (32, True), "long": (64, True),
         "long long": (64, True), "int32_t": (32, True), "unsigned char": (8, False), "uint8_t": (8, False)}


def ctype(node):
    t = node.get("type", {})
    q = t.get("desugaredQualType") or t.get("qualType", "")
    q = q.replace("const ", "").strip()
    if q in WIDTH:
        return WIDTH[q]
    q2 = t.get("qualType", "").replace("const ", "").strip()
    if q2 in WIDTH:
        return WIDTH[q2]
    return None


def kids(n):
    return [c for c in n.get("inner", []) if c.get("kind")]


class Tr:
    """expression/statement translator. env: C variable name -> Gallina name"""

    def __init__(self, rename=None, wrap=True):
        self.rename = rename or {}
        self.wrap = wrap

    def w(self, node, s):
        """wrap s at the unsigned width of node's type"""
        if not self.wrap:
            return s
        t = ctype(node)
        if t is None or t[1]:
            return s
        return "(wrap %d %s)" % (t[0], s)

    def name(self, n):
        return self.rename.get(n, n)

    def lval(self, n):
        k = n["kind"]
        if k == "DeclRefExpr":
            return self.name(n["referencedDecl"]["name"])
        if k == "ParenExpr":
            return self.lval(kids(n)[0])
        if k == "ArraySubscriptExpr":
            base, idx = kids(n)
            base = self.strip(base)
            idx = self.strip(idx)
            if base["kind"] == "MemberExpr" and idx["kind"] == "IntegerLiteral":
                return "%s_%s" % (base["name"], idx["value"])
        if k == "MemberExpr":
            key = self.member_key(n)
            if key in self.rename:
                return self.rename[key]
        raise Unsupported("lvalue " + k)

    def strip(self, n):
        while n["kind"] in ("ImplicitCastExpr", "ParenExpr") and n.get("castKind") in (None, "LValueToRValue", "NoOp", "ArrayToPointerDecay", "FunctionToPointerDecay"):
            n = kids(n)[0]
        return n

    def member_key(self, n):
        base = self.strip(kids(n)[0])
        if base["kind"] == "DeclRefExpr":
            return "%s%s%s" % (base["referencedDecl"]["name"], "->" if n.get("isArrow") else ".", n["name"])
        if base["kind"] == "ArraySubscriptExpr":
            b = self.strip(kids(base)[0])
            if b["kind"] == "DeclRefExpr":
                return "%s[]%s%s" % (b["referencedDecl"]["name"], "->" if n.get("isArrow") else ".", n["name"])
        raise Unsupported("member base")

    def expr(self, n):
        k = n["kind"]
        if k == "IntegerLiteral":
            return "%s" % n["value"]
        if k in ("ParenExpr",):
            return self.expr(kids(n)[0])
        if k == "DeclRefExpr":
            return self.name(n["referencedDecl"]["name"])
        if k == "ImplicitCastExpr" or k == "CStyleCastExpr":
            ck = n.get("castKind")
            inner = kids(n)[0]
            if ck in ("LValueToRValue", "NoOp"):
                return self.expr(inner)
            if ck == "IntegralCast":
                return self.w(n, self.expr(inner))
            if ck == "FloatingToIntegral":
                return self.expr(inner)       # only reached for ceil(...) patterns
            raise Unsupported("cast " + str(ck))
        if k == "CallExpr":
            ks = kids(n)
            callee = self.strip(ks[0])
            if callee["kind"] == "DeclRefExpr" and callee["referencedDecl"]["name"] == "ceil":
                a = self.strip(ks[1])
                if a["kind"] == "BinaryOperator" and a["opcode"] == "/":
                    l, r = kids(a)
                    l, r = self.strip(l), self.strip(r)
                    if l["kind"] == "CStyleCastExpr" and r["kind"] == "CStyleCastExpr":
                        return "(cdiv %s %s)" % (self.expr(kids(l)[0]), self.expr(kids(r)[0]))
            raise Unsupported("call")
        if k == "MemberExpr" or k == "ArraySubscriptExpr":
            return self.lval(n)
        if k == "UnaryOperator":
            op = n["opcode"]
            if op == "-":
                return self.w(n, "(- %s)" % self.expr(kids(n)[0]))
            raise Unsupported("unary " + op)
        if k == "BinaryOperator":
            op = n["opcode"]
            l, r = kids(n)
            a, b = self.expr(l), self.expr(r)
            arith = {"+": "(%s + %s)", "-": "(%s - %s)", "*": "(%s * %s)", "/": "(%s / %s)", "%": "(%s mod %s)",
                     "<<": "(Z.shiftl %s %s)", ">>": "(Z.shiftr %s %s)", "^": "(Z.lxor %s %s)", "&": "(Z.land %s %s)", "|": "(Z.lor %s %s)"}
            cmp_ = {"<": "(%s <? %s)", ">": "(%s >? %s)", "<=": "(%s <=? %s)", ">=": "(%s >=? %s)", "==": "(%s =? %s)", "!=": "(negb (%s =? %s))"}
            if op in arith:
                return self.w(n, arith[op] % (a, b))
            if op in cmp_:
                return cmp_[op] % (a, b)
            if op == "&&":
                return "(%s && %s)" % (a, b)
            if op == "||":
                return "(%s || %s)" % (a, b)
            raise Unsupported("binop " + op)
        raise Unsupported("expr " + k)

    # ---- statements -------------------------------------------------------------
    def assigned(self, stmts):
        out = []
        for s in stmts:
            k = s["kind"]
            if k in ("BinaryOperator", "CompoundAssignOperator") and (k == "CompoundAssignOperator" or s["opcode"] == "="):
                try:
                    v = self.lval(kids(s)[0])
                except Unsupported:
                    continue
                if v not in out:
                    out.append(v)
            elif k == "IfStmt":
                ks = kids(s)
                for br in ks[1:]:
                    for v in self.assigned(self.block(br)):
                        if v not in out:
                            out.append(v)
            elif k == "CompoundStmt":
                for v in self.assigned(kids(s)):
                    if v not in out:
                        out.append(v)
        return out

    def block(self, s):
        return kids(s) if s["kind"] == "CompoundStmt" else [s]

    def returns(self, stmts):
        for s in stmts:
            if s["kind"] == "ReturnStmt":
                return True
            if s["kind"] == "IfStmt":
                ks = kids(s)
                if len(ks) == 3 and self.returns(self.block(ks[1])) and self.returns(self.block(ks[2])):
                    return True
        return False

    def stmts(self, ss, final, ignore=None):
        """translate a statement list; `final` is the Gallina term to put at the end (when
        no return statement ends the list). ignore(stmt) -> True drops a statement."""
        if not ss:
            return final
        s, rest = ss[0], ss[1:]
        k = s["kind"]
        if ignore and ignore(s):
            return self.stmts(rest, final, ignore)
        if k == "CompoundStmt":
            return self.stmts(kids(s) + rest, final, ignore)
        if k == "DeclStmt":
            out = ""
            tail = self.stmts(rest, final, ignore)
            for v in reversed(kids(s)):
                if v["kind"] != "VarDecl":
                    raise Unsupported("decl")
                ini = kids(v)
                if ini:
                    tail = "let %s := %s in\n  %s" % (self.name(v["name"]), self.w(v, self.expr(ini[0])), tail)
            return tail
        if k == "ReturnStmt":
            return self.expr(kids(s)[0])
        if k == "BinaryOperator" and s["opcode"] == "=":
            l, r = kids(s)
            return "let %s := %s in\n  %s" % (self.lval(l), self.expr(r), self.stmts(rest, final, ignore))
        if k == "CompoundAssignOperator":
            l, r = kids(s)
            op = s["opcode"][:-1]
            fake = {"kind": "BinaryOperator", "opcode": op, "type": s.get("computeResultType", s["type"]),
                    "inner": [l, r]}
            return "let %s := %s in\n  %s" % (self.lval(l), self.w(s, self.expr(fake)), self.stmts(rest, final, ignore))
        if k == "IfStmt":
            ks = kids(s)
            c = self.expr(ks[0])
            thn = self.block(ks[1])
            els = self.block(ks[2]) if len(ks) > 2 else []
            if self.returns(thn) and (not els or self.returns(els)):
                e = self.stmts(els + rest, final, ignore) if not self.returns(els) else self.stmts(els, final, ignore)
                return "if %s then %s\n  else %s" % (c, self.stmts(thn, final, ignore), e)
            if self.returns(els):
                return "if %s then %s\n  else %s" % (c, self.stmts(thn + rest, final, ignore), self.stmts(els, final, ignore))
            av = self.assigned(thn + els)
            if not av:
                return self.stmts(rest, final, ignore)
            tup = "(" + ", ".join(av) + ")" if len(av) > 1 else av[0]
            pat = "'" + tup if len(av) > 1 else tup
            return "let %s := (if %s then %s else %s) in\n  %s" % (
                pat, c, self.stmts(thn, tup, ignore), self.stmts(els, tup, ignore), self.stmts(rest, final, ignore))
        raise Unsupported("stmt " + k)
