"""C18 — model fitting terminates with finite leading components on degenerate data."""
import math, os, subprocess
import numpy as np
import vf
from props import c02

IMPORTS = """From Coq Require Import Floats ZArith.
From mathcomp Require Import ssreflect ssrfun ssrbool eqtype ssrnat seq.
From LS Require Import NumOps F64Ops Kernels Preprocess Pca Pls Cpca.
Local Open Scope float_scope.
"""
DEFS = """Definition pca_fuel (fuel : nat) (sc : Z) (npc : nat) (X : seq (seq float)) : bool :=
  match pca_fit fuel sc npc X with Err Fuel => true | _ => false end.
Definition pls_fuel (fuel : nat) (xs ys : Z) (nlv : nat) (X Y : seq (seq float)) : bool :=
  match pls_fit fuel xs ys nlv X Y with Err Fuel => true | _ => false end.
Definition cpca_fuel (fuel : nat) (sc : Z) (npc : nat) (X : seq (seq (seq float))) : bool :=
  match cpca_fit fuel sc npc X with Err Fuel => true | _ => false end.
"""
CAP = 1500


def low_rank_int(rng, n, m, r):
    """integer matrix of rank <= r (exact cancellations)"""
    if r == 0:
        return np.zeros((n, m))
    A = np.array([[rng.randint(-3, 3) for _ in range(r)] for _ in range(n)], dtype=float)
    B = np.array([[rng.randint(-3, 3) for _ in range(m)] for _ in range(r)], dtype=float)
    return A @ B


def run(ck, rng, tier):
    thorough = tier == "thorough"
    ck.prove("Properties_C18")
    epca, epls, ecpca = vf.build_driver("drv_pca"), vf.build_driver("drv_pls"), vf.build_driver("drv_cpca")
    checks = vf.Checks()
    cm = vf.coq_mat
    N = 24 if not thorough else 200
    # ---------------- PCA
    lines, meta = [], []
    for c in range(N):
        n, m = rng.randint(2, 8), rng.randint(1, 6)
        r = rng.randint(0, min(n, m))
        X = low_rank_int(rng, n, m, r)
        kind = rng.choice(("exact", "exact", "dup_rows", "const_col", "perturbed"))
        if kind == "dup_rows" and n >= 3:
            X[n - 1] = X[0]; X[n - 2] = X[0]
        if kind == "const_col":
            X[:, rng.randrange(m)] = 4.0
        if kind == "perturbed":
            X = X + 2.0 ** -20 * np.array([[rng.randint(-1, 1) for _ in range(m)] for _ in range(n)])
        scaling = rng.choice((-1, 0, 0, 1))
        npc = rng.randint(1, m + 2)
        E0 = c02.preprocess(X, scaling)
        rk = int(np.linalg.matrix_rank(E0, tol=1e-9 * max(1.0, np.abs(E0).max()))) if np.abs(E0).max() > 0 else 0
        lines.append("pca %s %s %d %d 1" % (vf.fmt_mat(X.tolist(), m), vf.fmt_mat([X[0].tolist()], m), scaling, npc))
        meta.append((X, scaling, npc, rk, kind))
    # full column rank, exactly cancelling (disjoint supports, zero column sums), more components
    # requested than columns: the request must be cut down to the rank
    for c in range(6 if not thorough else 40):
        m = rng.randint(1, 3)
        n = 2 * m + rng.randint(0, 3)
        mags = rng.sample(range(1, 9), m)
        X = np.zeros((n, m))
        for j in range(m):
            X[2 * j, j], X[2 * j + 1, j] = mags[j], -mags[j]
        scaling, npc = rng.choice((-1, 0)), m + rng.randint(1, 2)
        lines.append("pca %s %s %d %d 1" % (vf.fmt_mat(X.tolist(), m), vf.fmt_mat([X[0].tolist()], m), scaling, npc))
        meta.append((X, scaling, npc, m, "overrequest_full_rank"))
    rc, outs, err = vf.run_driver(epca, ("cap %d\n" % CAP) + "\n".join(lines) + "\n", timeout=600)
    if rc != 0 or len(outs) != len(meta):
        ck.broken("driver drv_pca", "rc=%s cases=%d/%d %s" % (rc, len(outs), len(meta), err[-500:]))
    else:
        for i, (mt, o) in enumerate(zip(meta, outs)):
            X, scaling, npc, rk, kind = mt
            m = X.shape[1]
            ck.case(("pca", X.shape, scaling, npc, rk, kind, repr(X.tolist())), nontrivial=True,
                    sample={"routine": "PCA", "shape": X.shape, "rank_after_preprocessing": rk, "npc": npc, "kind": kind} if i % 7 == 0 else None)
            ck.count("pca npc<=rank" if min(npc, m) <= rk else "pca npc>rank")
            nonterm = bool(o.get("nonterminating"))
            if kind != "perturbed":
                checks.add(("pca", i), "fuel", "%s (pca_fuel %d%%N (%d)%%Z %d%%N %s)" % ("" if nonterm else "negb", CAP, scaling, npc, cm(X.tolist())))
            if nonterm:
                within = min(npc, m) <= rk
                E0 = c02.preprocess(X, scaling)
                j0 = int(np.argmax(E0.var(axis=0, ddof=1))) if E0.shape[0] > 1 else 0
                null_start = within and np.abs(E0).max() > 0 and np.abs(E0[:, j0]).max() == 0
                ck.fail("PCA", "nontermination_null_start_column" if null_start else ("nontermination_within_rank" if within else "nontermination_beyond_rank"),
                        "PCA does not return (more than %d inner iterations) on a %dx%d matrix of rank %d after preprocessing with %d components requested" % (CAP, X.shape[0], m, rk, npc),
                        {"X": X.tolist(), "scaling": scaling, "npc": npc})
            else:
                T, ve = np.array(o["scores"]), np.array(o["varexp"])
                k = min(rk, T.shape[1])
                if not (np.isfinite(T[:, :k]).all() and np.isfinite(ve[:k]).all()):
                    ck.fail("PCA", "leading_components_not_finite", "components up to the rank are not finite", {"X": X.tolist(), "scaling": scaling, "npc": npc})
                elif not np.isfinite(ve).all() or (kind != "perturbed" and (ve[k:] > 1e-6).any()):
                    ck.fail("PCA", "variance_beyond_rank_not_zero", "explained variance beyond the rank is %s" % ve[k:], {"X": X.tolist(), "scaling": scaling, "npc": npc})
    # ---------------- PLS
    lines, meta = [], []
    for c in range(N):
        n, m = rng.randint(4, 9), rng.randint(1, 5)
        r = rng.randint(1, min(n - 1, m))
        X = low_rank_int(rng, n, m, r)
        ykind = rng.choice(("constant", "two_valued", "regular"))
        if ykind == "constant":
            Y = np.full((n, 1), float(rng.randint(-5, 5)))
        elif ykind == "two_valued":
            Y = np.array([[float(rng.choice((0, 1)))] for _ in range(n)])
            Y[0, 0], Y[1, 0] = 0.0, 1.0
        else:
            Y = np.array([[float(rng.randint(-9, 9))] for _ in range(n)])
        xs, ys = rng.choice((0, 1)), rng.choice((0, 1))
        nlv = rng.randint(1, m + 2)
        E0 = c02.preprocess(X, xs)
        rk = int(np.linalg.matrix_rank(E0, tol=1e-9 * max(1.0, np.abs(E0).max()))) if np.abs(E0).max() > 0 else 0
        if c % 4 == 3 and rk >= 1:
            # several responses of which the first is constant: the regular one must drive the fit
            ykind = "constant_first_of_two"
            Y = np.hstack([np.full((n, 1), float(rng.randint(-5, 5))), np.array([[float(rng.randint(-9, 9))] for _ in range(n)])])
            ys = 0
            nlv = rng.randint(1, rk)
        lines.append("pls %s %s %s %d %d %d" % (vf.fmt_mat(X.tolist(), m), vf.fmt_mat(Y.tolist(), Y.shape[1]), vf.fmt_mat([X[0].tolist()], m), xs, ys, nlv))
        meta.append((X, Y, xs, ys, nlv, rk, ykind))
    rc, outs, err = vf.run_driver(epls, ("cap %d\n" % CAP) + "\n".join(lines) + "\n", timeout=600)
    if rc != 0 or len(outs) != len(meta):
        ck.broken("driver drv_pls", "rc=%s cases=%d/%d %s" % (rc, len(outs), len(meta), err[-500:]))
    else:
        for i, (mt, o) in enumerate(zip(meta, outs)):
            X, Y, xs, ys, nlv, rk, ykind = mt
            m = X.shape[1]
            ck.case(("pls", X.shape, xs, ys, nlv, rk, ykind, repr(X.tolist())), sample={"routine": "PLS", "shape": X.shape, "rank": rk, "nlv": nlv, "response": ykind} if i % 7 == 0 else None)
            ck.count("pls response " + ykind)
            nonterm = bool(o.get("nonterminating"))
            checks.add(("pls", i), "fuel", "%s (pls_fuel %d%%N (%d)%%Z (%d)%%Z %d%%N %s %s)" % ("" if nonterm else "negb", CAP, xs, ys, nlv, cm(X.tolist()), cm(Y.tolist())))
            if nonterm:
                Ex, Ey = c02.preprocess(X, xs), c02.preprocess(Y, ys)
                uncorrelated = min(nlv, m) <= rk and ykind != "constant" and np.abs(Ex.T @ Ey).max() <= 1e-12 * max(1e-300, np.linalg.norm(Ex) * np.linalg.norm(Ey))
                cls = "nontermination_constant_response" if ykind == "constant" else ("nontermination_beyond_rank" if min(nlv, m) > rk else
                                                                                      ("nontermination_zero_covariance" if uncorrelated else "nontermination_within_rank"))
                ck.fail("PLS", cls, "PLS does not return (more than %d inner iterations): X %dx%d rank %d, %s response, %d latent variables" % (CAP, X.shape[0], m, rk, ykind, nlv),
                        {"X": X.tolist(), "Y": Y.tolist(), "xs": xs, "ys": ys, "nlv": nlv})
            else:
                T = np.array(o["T"])
                k = min(rk, T.shape[1])
                if ykind != "constant" and not np.isfinite(T[:, :k]).all():
                    ck.fail("PLS", "leading_components_not_finite", "x-scores up to the rank are not finite", {"X": X.tolist(), "Y": Y.tolist(), "xs": xs, "ys": ys, "nlv": nlv})
                elif not np.isfinite(T).all() or not np.isfinite(np.array(o["xvarexp"])).all():
                    cls = "nan_constant_response" if ykind == "constant" else "nan_beyond_rank"
                    ck.fail("PLS", cls, "returned model holds NaN scores / explained variance (%s response, rank %d, nlv %d)" % (ykind, rk, nlv), {"X": X.tolist(), "Y": Y.tolist(), "xs": xs, "ys": ys, "nlv": nlv})
    # ---------------- CPCA
    lines, meta = [], []
    for c in range(N // 2):
        n = rng.randint(4, 8)
        widths = [rng.randint(1, 3) for _ in range(rng.randint(2, 3))]
        blocks = [low_rank_int(rng, n, w, rng.randint(1, w)) for w in widths]
        kind = rng.choice(("const_block", "regular", "beyond_rank"))
        if kind == "const_block":
            blocks[rng.randrange(len(blocks))][:, :] = 3.0
        npc = 1 if kind != "beyond_rank" else min(widths)
        lines.append("cpca %s 0 %d 1" % (vf.fmt_tensor([b.tolist() for b in blocks]), npc))
        meta.append((blocks, npc, kind))
    # blocks whose variables have disjoint supports (exact deflation): several components within the rank
    for c in range(5 if not thorough else 30):
        nb = rng.randint(2, 3)
        pairs = rng.randint(3, 4)
        n = 2 * pairs
        blocks = []
        for b in range(nb):
            B = np.zeros((n, 2))
            rows = rng.sample(range(pairs), 2)
            for j in range(2):
                a = rng.randint(1, 6)
                B[2 * rows[j], j], B[2 * rows[j] + 1, j] = a, -a
            blocks.append(B)
        Ec_ = np.hstack(blocks)
        rk_ = int(np.linalg.matrix_rank(Ec_))
        lines.append("cpca %s 0 %d 1" % (vf.fmt_tensor([b.tolist() for b in blocks]), min(2, rk_)))
        meta.append((blocks, min(2, rk_), "disjoint_supports"))
    rc, outs, err = vf.run_driver(ecpca, ("cap %d\n" % CAP) + "\n".join(lines) + "\n", timeout=600)
    if rc != 0 or len(outs) != len(meta):
        ck.broken("driver drv_cpca", "rc=%s cases=%d/%d %s" % (rc, len(outs), len(meta), err[-500:]))
    else:
        for i, (mt, o) in enumerate(zip(meta, outs)):
            blocks, npc, kind = mt
            ck.case(("cpca", kind, npc, repr([b.tolist() for b in blocks])), sample={"routine": "CPCA", "blocks": [b.shape for b in blocks], "kind": kind} if i % 5 == 0 else None)
            ck.count("cpca " + kind)
            nonterm = bool(o.get("nonterminating"))
            Xs = "[:: " + "; ".join(cm(b.tolist()) for b in blocks) + "]"
            checks.add(("cpca", i), "fuel", "%s (cpca_fuel %d%%N 0%%Z %d%%N %s)" % ("" if nonterm else "negb", CAP, npc, Xs))
            Ec = np.hstack([c02.preprocess(b, 0) for b in blocks])
            rk = int(np.linalg.matrix_rank(Ec, tol=1e-9)) if np.abs(Ec).max() > 0 else 0
            if nonterm:
                ck.fail("CPCA", "nontermination_beyond_rank" if npc > rk else "nontermination_within_rank",
                        "CPCA does not return (more than %d inner iterations), rank %d, npc %d, %s" % (CAP, rk, npc, kind), {"blocks": [b.tolist() for b in blocks], "npc": npc})
            else:
                bev = [o["bev.%d" % k] for k in range(o["n_bev"])]
                if not np.isfinite(np.array(o["super_scores"])[:, :min(rk, npc)]).all():
                    ck.fail("CPCA", "leading_components_not_finite", "super scores up to the rank are not finite", {"blocks": [b.tolist() for b in blocks], "npc": npc})
                elif any(x != x for v in bev for x in v):
                    constb = any(np.abs(c02.preprocess(b, 0)).max() == 0 for b in blocks)
                    ck.fail("CPCA", "nan_block_expvar_constant_block" if constb else "nan_block_expvar", "block explained variance is NaN (%s)" % kind, {"blocks": [b.tolist() for b in blocks], "npc": npc})
    # ---------------- k-means on duplicated rows, all initialisers (wall-clock guarded subprocess)
    ec13 = vf.build_driver("drv_sel") if os.path.exists(os.path.join(vf.VERIF, "harness", "drv_sel.c")) else None
    if ec13:
        for c in range(8 if not thorough else 40):
            n, m = rng.randint(4, 10), rng.randint(1, 3)
            distinct = rng.randint(1, 3)
            base = [[float(rng.randint(-4, 4)) for _ in range(m)] for _ in range(distinct)]
            M = [base[rng.randrange(distinct)] for _ in range(n)]
            ncl = rng.randint(1, 4)
            init = rng.choice((0, 1, 2, 3))
            ck.case(("kmeans", n, m, distinct, ncl, init, repr(M)))
            ck.count("kmeans init %d" % init)
            rc, o2, err = vf.run_driver(ec13, "kmeans %s %d %d 1 %d\n" % (vf.fmt_mat(M, m), ncl, init, 12345 + c), timeout=8)
            nd = len(set(map(tuple, M)))
            if rc == 124:
                ck.fail("KMeans", "nontermination_init%d_fewer_distinct_points" % init if nd < ncl else "nontermination_init%d" % init,
                        "KMeans(initialiser %d) does not return within 8 s: %d objects, %d distinct, %d clusters" % (init, n, nd, ncl), {"M": M, "nclusters": ncl, "initializer": init})
            elif rc != 0:
                ck.fail("KMeans", "crash_init%d" % init, "KMeans aborted (rc %d) on duplicated rows" % rc, {"M": M, "nclusters": ncl, "initializer": init})
    # ---------------- simplex optimiser on degenerate objectives: it must stop at its iteration cap
    enm = vf.build_driver("drv_interp")
    for c in range(9 if not thorough else 45):
        dim = (1, 2, 3)[c % 3]
        kind = ("constant", "one_direction", "flat_start")[(c // 3) % 3]
        A = np.zeros((dim, dim)); b = np.zeros(dim)
        if kind == "one_direction":
            A[0, 0] = float(rng.randint(1, 4))            # f = a x_0^2: every other direction is flat
        elif kind == "flat_start":
            A[dim - 1, dim - 1] = 1.0; b[dim - 1] = 0.0   # start on the valley floor: reflections tie
        x0 = [0.0 if kind == "flat_start" else float(rng.randint(-3, 3)) for _ in range(dim)]
        step = [float(rng.choice((1, 2)))] * dim
        iters = rng.choice((50, 200))
        ck.case(("nm", dim, kind, iters, repr(x0)), sample={"routine": "NelderMeadSimplex", "dim": dim, "objective": kind, "iteration_cap": iters} if c % 4 == 0 else None)
        ck.count("simplex " + kind)
        cmd = "nm %s %s %s %s 1e-10 %d\n" % (vf.fmt_mat(A.tolist(), dim), vf.fmt_vec(b.tolist()), vf.fmt_vec(x0), vf.fmt_vec(step), iters)
        rc, o3, err = vf.run_driver(enm, cmd, timeout=10)
        if rc == 124:
            ck.fail("NelderMeadSimplex", "nontermination_" + kind, "the simplex optimiser does not return within 10 s on a %s objective in %d dimension(s) with an iteration cap of %d" % (kind, dim, iters),
                    {"A": A.tolist(), "b": b.tolist(), "x0": x0, "step": step, "iterations": iters})
        elif rc != 0 or len(o3) != 1:
            ck.fail("NelderMeadSimplex", "crash_" + kind, "the simplex optimiser aborted (rc %s)" % rc, {"A": A.tolist(), "x0": x0, "step": step})
        else:
            o = o3[0]
            # at most (n+2) evaluations per iteration plus the shrink (n) and the start simplex (n+1)
            bound = (iters + 2) * (2 * dim + 3) + dim + 1
            if o["evals"] > bound:
                ck.fail("NelderMeadSimplex", "iteration_cap_exceeded_" + kind, "%d objective evaluations for an iteration cap of %d (bound %d)" % (o["evals"], iters, bound), {"A": A.tolist(), "x0": x0, "step": step, "iterations": iters})
            elif not (np.isfinite(o["res"]) and np.isfinite(np.array(o["best"])).all()):
                ck.fail("NelderMeadSimplex", "not_finite_" + kind, "returned value %r at %r" % (o["res"], o["best"]), {"A": A.tolist(), "x0": x0, "step": step})
    failing, logs, cerr = vf.run_cases_v("c18", IMPORTS, DEFS, checks.items, shard=8, timeout=1200)
    if cerr:
        ck.broken("correspondence:coq-eval", cerr)
    for cid in sorted(set(failing)):
        case, label = checks.where[cid]
        ck.broken("correspondence:termination of %s case %d" % case, "model (fuel %d) and implementation (iteration ceiling %d through the tick hook) disagree on whether the loop exits" % (CAP, CAP))
    ck.cov["model_checks_evaluated_in_coq"] = len(checks.items)
    ck.cov["traces_validated_against_impl"] = len(checks.items)
    ck.cov["rule"] = ("integer matrices of rank 0..min(shape) (exact cancellations), duplicated rows, constant columns, 2^-20 perturbations; npc/nlv 1..columns+2; constant, two-valued and regular "
                      "responses; CPCA with a constant block; k-means on duplicated rows with all initialisers; non-termination decided by an iteration ceiling of %d through the NIPALS tick hook" % CAP)
    ck.assumptions += ["non-termination is decided at an iteration ceiling (%d inner iterations); the NaN-absorption theorems explain why larger ceilings cannot help" % CAP]


def replay(ck, rp):
    return 1
