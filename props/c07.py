"""C07 — MLR is ordinary least squares with intercept."""
import math
import numpy as np
import vf

IMPORTS = """From Coq Require Import Floats ZArith.
From mathcomp Require Import ssreflect ssrfun ssrbool eqtype ssrnat seq.
From LS Require Import NumOps F64Ops Kernels Preprocess Algebra Mlr.
Local Open Scope float_scope.
"""
DEFS = """Definition REL := 0x1p-30.
Definition mchk (a b : seq (seq float)) := m_agree REL (mmax b) a b.
Definition vchk (a b : seq float) := v_agree REL (vmax b) a b.
Definition mlr_ok (X Y : seq (seq float)) (B : seq (seq float)) (ymean : seq float) (rec res : seq (seq float)) (r2 sdec : seq float) : bool :=
  let M := mlr_fit X Y in
  [&& mchk (ml_B M) B, vchk (ml_ymean M) ymean, mchk (ml_recalc M) rec, m_agree REL (mmax rec) (ml_resid M) res, v_agree 0x1p-20 1 (ml_r2 M) r2 & vchk (ml_sdec M) sdec].
"""


def cols(M):
    return [list(c) for c in zip(*M)] if M else []


def gen(rng, n, m, ny, cond, noise):
    U, _ = np.linalg.qr(np.array([[rng.gauss(0, 1) for _ in range(m)] for _ in range(n)]))
    V, _ = np.linalg.qr(np.array([[rng.gauss(0, 1) for _ in range(m)] for _ in range(m)]))
    s = np.logspace(0, -math.log10(cond), m) if m > 1 else np.array([1.0])
    X = (U * s) @ V.T * rng.choice((1.0, 10.0, 0.1)) + np.array([rng.choice((0.0, rng.uniform(-5, 5))) for _ in range(m)])
    B = np.array([[rng.gauss(0, 1) for _ in range(ny)] for _ in range(m)])
    Y = X @ B + np.array([rng.uniform(-10, 10) for _ in range(ny)])
    Y = Y + noise * (Y.std(axis=0) + 1e-9) * np.array([[rng.gauss(0, 1) for _ in range(ny)] for _ in range(n)])
    return X, Y


def run(ck, rng, tier):
    thorough = tier == "thorough"
    ck.prove("Properties_C07")
    exe = vf.build_driver("drv_alg")
    lines, meta = [], []
    for c in range(60 if not thorough else 600):
        m = rng.randint(1, 10 if thorough else 6)
        n = rng.randint(m + 3, 50 if thorough else 25)
        ny = rng.randint(1, 4)
        cond = rng.choice((1.0, 10.0, 100.0, 1e3, 1e4))
        noise = rng.choice((0.0, 0.0, 0.1, 2.0))
        if c in (5, 6):     # object counts one above a multiple of 32 (33, 65), noisy data
            n, noise, cond = (33, 65)[c - 5], 0.5, 10.0
        if c == 7:
            noise, cond = 0.4, min(cond, 100.0)
        far = c in (1, 2) or (thorough and c % 20 == 7)
        if far:  # noisy responses far from the origin (offset 3e5..3e6 spreads): TSS must be taken about the mean
            noise, cond = 0.3, min(cond, 10.0)
        X, Y = gen(rng, n, m, ny, cond, noise)
        if far:
            Y = Y + rng.choice((3e5, 3e6)) * Y.std(axis=0)
            ck.count("responses far from the origin")
        if c in (8, 9):
            # predictors with means below -1 (negative column sums larger than n) followed by a last predictor that is centred
            # (column sum 0 to rounding, e.g. a -1/0/+1 design factor): the first column of [1 X]'[1 X] is (n, negative..., 0)
            if m < 2:
                m = 3; X, Y = gen(rng, n, m, ny, cond, noise)
            X = X - X.mean(axis=0) + np.array([rng.uniform(-6, -2) for _ in range(m)])
            X[:, m - 1] -= X[:, m - 1].mean()
            Bc = np.array([[rng.gauss(0, 1) for _ in range(ny)] for _ in range(m)])
            Y = X @ Bc + np.array([rng.uniform(-10, 10) for _ in range(ny)])
            Y = Y + noise * (Y.std(axis=0) + 1e-9) * np.array([[rng.gauss(0, 1) for _ in range(ny)] for _ in range(n)])
            ck.count("negative predictor means, centred last predictor")
        if c in (10, 11):
            # a 0/1 group indicator among the predictors, objects sorted by group: rows 4k..4k+3 exactly 0, later rows 1
            n = (12, 16)[c - 10]; m = max(m, 2)
            X, Y = gen(rng, n, m, ny, min(cond, 100.0), noise)
            X[:, m - 1] = np.array(([0.0] * 4 + [1.0] * 4) * (n // 8) + [1.0] * (n % 8))[:n] if c == 10 else np.array([0.0] * 8 + [1.0] * 8)
            Bc = np.array([[rng.gauss(0, 1) for _ in range(ny)] for _ in range(m)])
            Y = X @ Bc + np.array([rng.uniform(-10, 10) for _ in range(ny)])
            Y = Y + noise * (Y.std(axis=0) + 1e-9) * np.array([[rng.gauss(0, 1) for _ in range(ny)] for _ in range(n)])
            ck.count("sorted 0/1 indicator predictor")
        Xnew = np.array([[rng.gauss(0, 1) for _ in range(m)] for _ in range(3)])
        if c == 3 or (thorough and c % 20 == 9):
            # predictors in large units, responses in small ones (slopes of order 1e-12): every coefficient counts
            ux, uy = rng.choice((1e6, 1e5)), rng.choice((1e-6, 1e-7))
            X, Y, Xnew = X * ux, Y * uy, Xnew * ux
            ck.count("predictors in units of %g, responses in units of %g" % (ux, uy))
        if c == 7:
            # responses in units of 1e-7 whose column sums lie inside (-1e-6, 1e-6) although their means are not negligible
            # against their spread: MLR takes the response means from MatrixColAverage (known finding, zero-sum window)
            Y = (Y - Y.mean(axis=0)) / (Y.std(axis=0) + 1e-300) * 1e-7
            Y = Y + np.array([rng.choice((6e-7, -5e-7, 8e-7)) for _ in range(ny)]) / n
            ck.count("response sums inside the zero-sum window")
        if c == 4:
            # responses beyond the range of single precision (units of 1e40): ordinary doubles
            Y = Y * 1e40
            ck.count("responses in units of 1e40")
        kind = rng.choice(("plain", "yaffine", "xmix"))
        lines.append("mlr %s %s %s" % (vf.fmt_mat(X.tolist(), m), vf.fmt_mat(Y.tolist(), ny), vf.fmt_mat(Xnew.tolist(), m)))
        meta.append(("base", X, Y, Xnew, cond, noise, kind))
        if kind == "yaffine":
            cs = np.array([rng.choice((-2.0, 0.5, 3.0)) for _ in range(ny)])
            ds = np.array([rng.uniform(-5, 5) for _ in range(ny)])
            lines.append("mlr %s %s %s" % (vf.fmt_mat(X.tolist(), m), vf.fmt_mat((Y * cs + ds).tolist(), ny), vf.fmt_mat(Xnew.tolist(), m)))
            meta.append(("yaffine", cs, ds))
        elif kind == "xmix":
            G = np.array([[rng.gauss(0, 1) for _ in range(m)] for _ in range(m)]) + 2 * np.eye(m)
            lines.append("mlr %s %s %s" % (vf.fmt_mat((X @ G).tolist(), m), vf.fmt_mat(Y.tolist(), ny), vf.fmt_mat((Xnew @ G).tolist(), m)))
            meta.append(("xmix", G))
        ck.count("cond %g" % cond)
        ck.count("noise %g" % noise)
    outs = vf.run_driver_cases(ck, exe, lines, lambda k: ("MLR", {"case": str(meta[k])[:1500]}))
    vf.reuse_scan(ck, "drv_alg:mlr", outs, lambda k: {"case": str(meta[k])[:1500]})
    # the least-squares kernel itself, called the way a user calls it repeatedly: into a coefficient vector that
    # already holds the coefficients of a previous call / other numbers
    ols_lines, ols_meta = [], []
    for c in range(6 if not thorough else 40):
        p = rng.randint(1, 4)
        q = rng.randint(p + 3, 15)          # more equations than coefficients (p + 1)
        Z = np.hstack([np.ones((q, 1)), np.array([[rng.gauss(0, 1) for _ in range(p)] for _ in range(q)])])
        yv = np.array([rng.gauss(0, 2) for _ in range(q)])
        ols_lines.append("ols %s %s" % (vf.fmt_mat(Z.tolist(), p + 1), vf.fmt_vec(yv.tolist()))); ols_meta.append((Z, yv))
    rc_o, outs_o, err_o = vf.run_driver(exe, "\n".join(ols_lines) + "\n")
    if rc_o != 0 or len(outs_o) != len(ols_meta):
        ck.broken("driver drv_alg (ols)", "rc=%s cases=%d/%d %s" % (rc_o, len(outs_o), len(ols_meta), err_o[-500:]))
    else:
        vf.reuse_scan(ck, "drv_alg:ols", outs_o, lambda k: {"Z": ols_meta[k][0].tolist(), "y": ols_meta[k][1].tolist()})
        for (Z, yv), o_ in zip(ols_meta, outs_o):
            ck.case(("ols", Z.shape, repr(Z[0].tolist())))
            ref_, *_ = np.linalg.lstsq(Z, yv, rcond=None)
            if np.abs(np.array(o_["coef"]) - ref_).max() > 1e-8 * np.linalg.cond(Z) ** 2 * max(1.0, np.abs(ref_).max()):
                ck.fail("OrdinaryLeastSquares", "not_least_squares", "coefficients differ from the least-squares solution", {"Z": Z.tolist(), "y": yv.tolist()})
    checks = vf.Checks()
    cm, cv = vf.coq_mat, vf.coq_vec
    base = None
    for i, (mt, o) in enumerate(zip(meta, outs)):
        if o is None:
            continue
        nf_ = None if o.get("nonterminating") else vf.first_nonfinite(o)
        if nf_:
            # finite in-domain data: every stored result is a finite number (tolerance comparisons below are blind to NaN)
            ck.fail("MLR", "not_finite", "the output `%s` holds NaN/Inf" % nf_, {"case": str(mt)[:3000]})
            continue
        if mt[0] == "base":
            _, X, Y, Xnew, cond, noise, kind = mt
            n, m = X.shape
            ny = Y.shape[1]
            base = (X, Y, Xnew, o, cond)
            ck.case(("mlr", n, m, ny, cond, noise, repr(X[0].tolist())), sample={"X": (n, m), "ny": ny, "cond": cond, "noise": noise} if i % 19 == 0 else None)
            if mt[4] <= 100 and n * m <= 200:
                checks.add(i, "fit", "mlr_ok %s %s %s %s %s %s %s %s" % (cm(X.tolist()), cm(Y.tolist()), cm(cols(o["b"])), cv(o["ymean"]), cm(o["recalc"]), cm(o["resid"]), cv(o["r2"]), cv(o["sdec"])))
            B = np.array(o["b"])
            Z = np.hstack([np.ones((n, 1)), X])
            R = Y - Z @ B
            ysc = np.abs(Y - Y.mean(axis=0)).max() + 1e-300
            cond = max(cond, float(np.linalg.cond(Z / np.sqrt((Z ** 2).sum(axis=0)))))   # condition of the (column-normalised) design matrix
            base = (X, Y, Xnew, o, cond)
            if cond > 1e5:
                # offsets of the predictors that are large compared with their spread make the design
                # matrix [1 X] ill-conditioned whatever the condition of X: beyond 10x the stated bound
                # (1e4) the case is outside the property's domain
                ck.count("outside domain: design condition above 1e5")
                base = None
                continue
            bad = None
            # normal equations: residuals sum to zero and are orthogonal to every predictor (independent oracle: numpy lstsq)
            ne = np.abs(Z.T @ R).max() / (np.abs(Z).max() * ysc * n)
            if ne > 1e-9 * cond ** 2:
                bad = ("normal_equations", "max |Z'(Y - ZB)| relative %.3g" % ne)
            Bo, *_ = np.linalg.lstsq(Z, Y, rcond=None)
            if bad is None and np.abs(Z @ B - Z @ Bo).max() > 1e-9 * cond ** 2 * max(1.0, np.abs(Y).max()):
                bad = ("not_least_squares", "fitted values differ from the least-squares fit by %.3g" % np.abs(Z @ B - Z @ Bo).max())
            if bad is None and noise == 0.0 and np.abs(R).max() > 1e-9 * cond ** 2 * max(1.0, np.abs(Y).max()):
                bad = ("exact_recovery", "noise-free data not recovered: max residual %.3g" % np.abs(R).max())
            if bad is None and np.abs(np.array(o["recalc"]) - Z @ B).max() > 1e-9 * max(1.0, np.abs(Y).max()):
                bad = ("predict_formula", "recalculated y is not intercept + X b")
            if bad is None and np.abs(np.array(o["pred_new"]) - (np.hstack([np.ones((3, 1)), Xnew]) @ B)).max() > 1e-9 * max(1.0, np.abs(Y).max()):
                bad = ("predict_formula", "prediction on new rows is not intercept + X b")
            rss = (R ** 2).sum(axis=0)
            tss = ((Y - Y.mean(axis=0)) ** 2).sum(axis=0)
            r2 = np.array(o["r2"])
            if bad is None and (np.abs(r2 - (1 - rss / tss)) > 1e-7).any():
                bad = ("r2_formula", "reported R2 %s vs 1 - RSS/TSS %s" % (r2, 1 - rss / tss))
                inwin = np.abs(Y.sum(axis=0)) < 1e-6
                tss0 = np.where(inwin, (Y ** 2).sum(axis=0), tss)
                if inwin.any() and (np.abs(r2 - (1 - rss / tss0)) <= 1e-7).all():
                    # explained entirely by response means stored as 0: the zero-sum window of MatrixColAverage
                    bad = ("r2_response_sum_inside_zero_window", "reported R2 %s vs 1 - RSS/TSS %s: the response columns with sums %s inside (-1e-6, 1e-6) got the mean 0" % (r2, 1 - rss / tss, Y.sum(axis=0)[inwin]))
            if bad is None and ((r2 < -1e-9) | (r2 > 1 + 1e-9)).any():
                bad = ("r2_range", "R2 outside [0,1]: %s" % r2)
            if bad is None and (np.abs(np.array(o["sdec"]) - np.sqrt(rss / n)) > 1e-7 * (1 + np.sqrt(rss / n)) + 1e-9 * np.abs(Y).max()).any():
                bad = ("sdec_formula", "reported SDEC %s vs sqrt(RSS/n) %s" % (o["sdec"], np.sqrt(rss / n)))
            if bad:
                ck.fail("MLR", bad[0], bad[1] + " (X %dx%d, ny %d, cond %g)" % (n, m, ny, cond), {"X": X.tolist(), "Y": Y.tolist()})
        elif base is not None:
            X, Y, Xnew, o0, cond = base
            ck.case(("equivariance", mt[0], i))
            p0, p1 = np.array(o0["pred_new"]), np.array(o["pred_new"])
            tol = 1e-8 * cond ** 2 * max(1.0, np.abs(Y).max())
            if mt[0] == "yaffine":
                cs, ds = mt[1], mt[2]
                B0, B1 = np.array(o0["b"]), np.array(o["b"])
                want = B0 * cs
                want[0, :] += ds
                if np.abs(p1 - (p0 * cs + ds)).max() > tol * max(1.0, np.abs(cs).max()) or np.abs(B1 - want).max() > 1e-6 * cond ** 2 * max(1.0, np.abs(want).max()):
                    ck.fail("MLR", "equivariance_y", "scaling/shifting the responses does not scale/shift coefficients and predictions", {"X": X.tolist(), "Y": Y.tolist(), "c": cs.tolist(), "d": ds.tolist()})
            else:
                G = mt[1]
                if np.abs(p1 - p0).max() > tol * max(1.0, np.linalg.cond(G)):
                    ck.fail("MLR", "equivariance_x", "an invertible re-mixing of the predictors changes the predictions by %.3g" % np.abs(p1 - p0).max(), {"X": X.tolist(), "Y": Y.tolist(), "G": G.tolist()})
    failing, logs, cerr = vf.run_cases_v("c07", IMPORTS, DEFS, checks.items, shard=40)
    if cerr:
        ck.broken("correspondence:coq-eval", cerr)
    for cid in sorted(set(failing)):
        case, label = checks.where[cid]
        ck.broken("correspondence:%s case %d" % (label, case), "model (F64 instance) and implementation disagree")
    ck.cov["model_checks_evaluated_in_coq"] = len(checks.items)
    ck.cov["traces_validated_against_impl"] = len(meta)
    ck.cov["rule"] = "X 4..50 x 1..10 with condition number 1..1e4, Y 1..4 columns, noise 0..dominant, offsets/scales; metamorphic re-runs (response affine maps, predictor re-mixing); oracle numpy lstsq"
    ck.assumptions += ["tolerances scale with cond^2 (normal equations square the condition number)", "rounding compared (2^-30 relative on well-conditioned cases), not bounded"]


def replay(ck, rp):
    return 1
