"""C11 — dense kernels equal their definitions for all shapes."""
import itertools, math
from fractions import Fraction
import vf

IMPORTS = """From Coq Require Import Floats.
From mathcomp Require Import ssreflect ssrfun ssrbool eqtype ssrnat seq.
From LS Require Import NumOps F64Ops Kernels Tensor.
Local Open Scope float_scope.
"""
DEFS = """Definition REL := 0x1p-44.
Definition mchk (a b : seq (seq float)) := m_agree REL (mmax b) a b.
Definition vchk (a b : seq float) := v_agree REL (vmax b) a b.
Definition fchk (a b : float) := f_agree REL 0 a b.
"""
MISSING = 99999999.0


def rnd_val(rng, mag):
    # values spanning 1e-6..1e6, both signs, occasional exact zeros / small integers
    k = rng.random()
    if k < 0.05:
        return 0.0
    if k < 0.25:
        return float(rng.randint(-9, 9))
    e = rng.uniform(-6, 6) if mag is None else mag + rng.uniform(-1, 1)
    return rng.choice((-1, 1)) * 10 ** e * rng.uniform(0.1, 1)


NEAR_CODE = ((9999.9999, 10000.0), (10000.0, 9999.9999), (3.0, 33333333.0), (99999.999, 1000.0), (-9999.9999, -10000.0),
             (12345.0, 99999999.05 / 12345.0), (2.0, 49999999.48), (7.0, 99999999.0 / 7.0))


def plant(rng):
    """an operand pair whose PRODUCT lies within 0.1 of the missing-value code while neither operand is
    missing-coded (both far outside the 0.1 window around the code): an ordinary product, which no kernel may drop"""
    return rng.choice(NEAR_CODE)


def rmat(rng, r, c, mag=None):
    return [[rnd_val(rng, mag) for _ in range(c)] for _ in range(r)]


def exact_dot(us, vs, acc=0.0):
    s = Fraction(acc)
    a = abs(Fraction(acc))
    for x, y in zip(us, vs):
        s += Fraction(x) * Fraction(y)
        a += abs(Fraction(x) * Fraction(y))
    return s, a


def close(val, exact, absum, n):
    if val != val or math.isinf(val):
        return False
    tol = (n + 4) * 2.0 ** -52 * float(absum) + 1e-300
    return abs(Fraction(val) - exact) <= Fraction(tol)


def run(ck, rng, tier):
    ck.prove("Properties_C11")
    exe = vf.build_driver("drv_kernels", "asan")
    thorough = tier == "thorough"
    shapes = list(itertools.product(range(0, 18), repeat=3))
    if not thorough:
        # every residue of the inner dimension mod 4, boundaries 0/1/3/4/17, random rest
        must = [(m, n, p) for n in range(0, 18) for (m, p) in ((1, 1), (3, 2))] + \
               [(0, 3, 2), (2, 3, 0), (0, 0, 0), (17, 17, 17), (1, 0, 1), (5, 4, 5), (5, 3, 5)]
        shapes = must + [rng.choice(shapes) for _ in range(110)]
    else:
        rng.shuffle(shapes)
        shapes = shapes[:1500] + [(m, n, p) for n in range(0, 18) for (m, p) in ((1, 1), (3, 2), (17, 17))]
    inp = []
    meta = []
    for (m, n, p) in shapes:
        mag = rng.choice((None, None, -5, 0, 5))
        A, B, R0 = rmat(rng, m, n, mag), rmat(rng, n, p, mag), (rmat(rng, m, p, mag) if rng.random() < 0.5 else [[0.0] * p for _ in range(m)])
        if m and n and p and rng.random() < 0.12:
            a_, b_ = plant(rng); l_ = rng.randrange(n)
            A[rng.randrange(m)][l_] = a_; B[l_][rng.randrange(p)] = b_
            ck.count("operand pairs with product next to the missing-value code")
        if m and p and n >= 8 and len(meta) % 3 == 0:
            # exact zeros in aligned blocks of four along the inner dimension (an indicator column sorted by group, a sparse row):
            # rows 4k..4k+3 of a column of B, and the matching stretch of a row of A, with non-zero entries after them
            jb, ia, k4 = rng.randrange(p), rng.randrange(m), 4 * rng.randrange(0, (n - 4) // 4)
            for q in range(k4, k4 + 4):
                B[q][jb] = 0.0
            for q in range(0, 4):
                A[ia][q] = 0.0
            ck.count("aligned blocks of exact zeros along the inner dimension")
        inp.append("matmul %s %s %s" % (vf.fmt_mat(A, n), vf.fmt_mat(B, p), vf.fmt_mat(R0, p)))
        meta.append(("matmul", (m, n, p), A, B, R0))
        ck.count("matmul n%%4=%d" % (n % 4))
    nmv = 60 if not thorough else 400
    for _ in range(nmv):
        m, n = rng.randint(1, 17), rng.randint(1, 17)
        E = rmat(rng, m, n)
        miss = rng.random() < 0.3
        if miss:
            for _ in range(rng.randint(1, 3)):
                E[rng.randrange(m)][rng.randrange(n)] = MISSING
        v = [rnd_val(rng, None) for _ in range(n)]
        w = [rnd_val(rng, None) for _ in range(m)]
        if miss and rng.random() < 0.5:
            v[rng.randrange(n)] = MISSING
        if rng.random() < 0.2:
            # cells NEXT TO the missing-value code but outside its +-0.1 window are ordinary numbers
            E[rng.randrange(m)][rng.randrange(n)] = rng.choice((MISSING + 0.5, 1e8, MISSING - 0.7, MISSING + 9.0))
            if rng.random() < 0.5:
                v[rng.randrange(n)] = rng.choice((MISSING + 0.5, 1e8)); w[rng.randrange(m)] = rng.choice((MISSING - 0.7, 1e8))
            ck.count("cells next to the missing-value code (ordinary numbers)")
        if miss and rng.random() < 0.5:
            # cells inside the window without being the code itself: missing
            E[rng.randrange(m)][rng.randrange(n)] = rng.choice((MISSING + 0.05, MISSING - 0.09))
        if rng.random() < 0.2:
            a_, b_ = plant(rng); i_, j_ = rng.randrange(m), rng.randrange(n)
            E[i_][j_] = a_; v[j_] = b_; w[i_] = b_
            ck.count("operand pairs with product next to the missing-value code")
        np_ = rng.choice((1, 2, 3, 5, 8, 16, 24))
        p0 = [0.0] * m if rng.random() < 0.6 else [rnd_val(rng, None) for _ in range(m)]
        q0 = [0.0] * n if rng.random() < 0.6 else [rnd_val(rng, None) for _ in range(n)]
        inp.append("matvec %s %s %s %d" % (vf.fmt_mat(E, n), vf.fmt_vec(v), vf.fmt_vec(p0), np_))
        meta.append(("matvec", (m, n), E, v, p0, np_, miss))
        inp.append("vecmat %s %s %s %d" % (vf.fmt_mat(E, n), vf.fmt_vec(w), vf.fmt_vec(q0), np_))
        meta.append(("vecmat", (m, n), E, w, q0, np_, miss))
        ck.count("matvec/vecmat" + (" with MISSING" if miss else ""))
    for _ in range(40 if not thorough else 300):
        m, n = rng.randint(1, 17), rng.randint(1, 17)
        a = [rnd_val(rng, None) for _ in range(m)]
        b = [rnd_val(rng, None) for _ in range(n)]
        if rng.random() < 0.2:
            a[rng.randrange(m)] = MISSING
        if rng.random() < 0.2:
            b[rng.randrange(n)] = MISSING
        if rng.random() < 0.25:
            a[rng.randrange(m)], b[rng.randrange(n)] = plant(rng)
            ck.count("operand pairs with product next to the missing-value code")
        inp.append("outer %s %s" % (vf.fmt_vec(a), vf.fmt_vec(b)))
        meta.append(("outer", (m, n), a, b))
        M = rmat(rng, m, n, rng.choice((None, 0, 3)))
        if _ in (6, 8, 9, 11):   # square shapes (1, 4, 17) and matrices without any positive entry
            m, n = ((1, 1), (4, 4), (17, 17), (3, 1))[(6, 8, 9, 11).index(_)]
            M = rmat(rng, m, n, 0)
            b = [rnd_val(rng, None) for _q in range(n)]
            if _ in (6, 11):
                M = [[-abs(x) - 0.5 for x in r] for r in M]
        elif _ in (1, 2, 4):   # row / column counts one above a multiple of 32
            m, n = ((33, 3), (2, 65), (65, 33))[(1, 2, 4).index(_)]
            M = rmat(rng, m, n, 0)
            b = [rnd_val(rng, None) for _q in range(n)]
        elif _ % 7 == 5:   # entries of order 1e-5: every column sum lies between 1e-6 and 1e-3
            M = [[rng.choice((-1, 1, 1, 1)) * rng.uniform(0.5, 4.0) * 1e-5 for b in range(n)] for a in range(m)]
        elif _ % 7 == 3:   # a matrix whose columns lie entirely just above (or below the negative of) the missing-value code
            sgn_ = rng.choice((1.0, -1.0))
            M = [[sgn_ * (1.0000005e8 + 3.0 * b + rng.uniform(0, 2.5)) for b in range(n)] for a in range(m)]
        elif _ % 5 == 0:   # columns far from the origin compared with their spread
            M = [[1e4 * (1 + b) + 1e-2 * rng.gauss(0, 1) for b in range(n)] for a in range(m)]
        elif rng.random() < 0.2 and m > 2:
            M[rng.randrange(1, m)][rng.randrange(n)] = MISSING
        if m > 1 and n > 0 and _ % 4 == 1 and not any(MISSING in r for r in M):
            M[rng.randrange(m)][rng.randrange(n)] = 0.0       # an exact zero among the observations (sparse / count data)
            M[rng.randrange(m)][rng.randrange(n)] = 0.0
        inp.append("unary %s" % vf.fmt_mat(M, n))
        meta.append(("unary", (m, n), M))
        key = rng.randrange(n)
        M2 = [r[:] for r in M]
        if rng.random() < 0.3:      # ties in the key column
            for r in M2:
                r[key] = float(rng.randint(0, 3))
        elif _ % 7 == 3 and m >= 3:
            # distinct values of the key column a few 1e-8 (relative) apart, not in order: equal at single precision
            base_ = rng.choice((1e6, 3.0, 1e-3))
            for a_, r in enumerate(M2):
                r[key] = base_ * (1.0 + 1e-8 * ((a_ * 5) % 7 - 3)) if a_ != 1 else base_ * 1e-5
        inp.append("sort %s %d" % (vf.fmt_mat(M2, n), key))
        meta.append(("sort", (m, n), M2, key))
        u = [rnd_val(rng, None) for _ in range(n)]
        if rng.random() < 0.25:
            k_ = rng.randrange(n); b = b[:]; b[k_], u[k_] = plant(rng)
        inp.append("vec %s %s" % (vf.fmt_vec(b), vf.fmt_vec(u)))
        meta.append(("vec", (n,), b, u))
        o = rng.randint(1, 4)
        T = [rmat(rng, m, n, 0) for _ in range(o)]
        tv = [rnd_val(rng, 0) for _ in range(m)]
        tw = [rnd_val(rng, 0) for _ in range(n)]
        pm = rmat(rng, n, o, 0)
        if rng.random() < 0.4:
            k_, i_, j_ = rng.randrange(o), rng.randrange(m), rng.randrange(n)
            a_, b_ = plant(rng)
            T[k_][i_][j_] = a_; pm[j_][k_] = b_; tv[i_] = b_; tw[j_] = b_
            ck.count("operand pairs with product next to the missing-value code")
        inp.append("tensor %s %s %s %s" % (vf.fmt_tensor(T), vf.fmt_vec(tv), vf.fmt_vec(tw), vf.fmt_mat(pm, o)))
        meta.append(("tensor", (o, m, n), T, tv, tw, pm))
        ck.count("outer/unary/sort/vec/tensor")
    rc, outs, err = vf.run_driver(exe, "\n".join(inp) + "\n")
    if rc != 0 or len(outs) != len(meta):
        ck.broken("driver drv_kernels", "rc=%s cases=%d/%d %s" % (rc, len(outs), len(meta), err[-800:]))
        return
    for op_ in ("outer", "unary"):
        sel_ = [k for k in range(len(meta)) if meta[k][0] == op_]
        vf.reuse_scan(ck, "drv_kernels:" + op_, [outs[k] for k in sel_], lambda j, sel_=sel_: {"op": op_, "operands": [list(x) if isinstance(x, (list, tuple)) else x for x in meta[sel_[j]][2:4]]})
    checks = vf.Checks()
    direct_fail = {}
    for i, (mt, o) in enumerate(zip(meta, outs)):
        kind = mt[0]
        ck.case((kind, mt[1], repr(mt[2])[:200]), nontrivial=all(d > 0 for d in mt[1]),
                sample={"op": kind, "shape": mt[1]} if i % 97 == 0 else None)
        cm, cv = vf.coq_mat, vf.coq_vec
        if kind == "matmul":
            _, (m, n, p), A, B, R0 = mt
            checks.add(i, "matmul_into", "mchk (matmul_into %s %s %s) %s" % (cm(A), cm(B), cm(R0), cm(o["r"])))
            if "r_unrolled" in o:
                checks.add(i, "matmul_unrolled_into", "mchk (matmul_unrolled_into %s %s %s) %s" % (cm(A), cm(B), cm(R0), cm(o["r_unrolled"])))
            checks.add(i, "matmul_plain_into", "mchk (matmul_plain_into %s %s %s) %s" % (cm(A), cm(B), cm(R0), cm(o["r_plain"])))
            # direct predicate: every variant equals R0 + A*B to rounding
            for nm in ("r", "r_unrolled", "r_plain"):
                if nm not in o:
                    continue
                R = o[nm]
                ok = o[nm + ".shape"] == (m, p)
                for a in range(m):
                    for b in range(p):
                        if not ok:
                            break
                        ex, ab = exact_dot(A[a], [B[k][b] for k in range(n)], R0[a][b])
                        ok = close(R[a][b], ex, ab, n)
                if not ok:
                    direct_fail[i] = ("MatrixDotProduct" + ("" if nm == "r" else "_" + nm[2:]), "value",
                                      "%s != R0 + A*B for shape %s" % (nm, (m, n, p)))
        elif kind in ("matvec", "vecmat"):
            _, (m, n), E, v, p0, np_, miss = mt
            if kind == "matvec":
                checks.add(i, "matvec_into", "vchk (matvec_into %s %s %s) %s" % (cm(E), cv(v), cv(p0), cv(o["p"])))
                # MT worker zeroes its output row first
                if np_ == 1:
                    checks.add(i, "matvec_into", "vchk (matvec_into %s %s %s) %s" % (cm(E), cv(v), cv(p0), cv(o["p_mt"])))
                else:
                    checks.add(i, "map", "vchk (map (fun r => matvec_row_mt r %s) %s) %s" % (cv(v), cm(E), cv(o["p_mt"])))
                rows, vec = E, v
            else:
                checks.add(i, "vecmat_into", "vchk (vecmat_into %s %s %s) %s" % (cm(E), cv(v), cv(p0), cv(o["p"])))
                checks.add(i, "vecmat_into", "vchk (vecmat_into %s %s %s) %s" % (cm(E), cv(v), cv(p0), cv(o["p_mt"])))
                rows, vec = [[E[a][b] for a in range(m)] for b in range(n)], v
            if not miss:
                for nm in ("p", "p_mt"):
                    ok = len(o[nm]) == len(rows)
                    for a, r in enumerate(rows):
                        if not ok:
                            break
                        init = 0.0 if (nm == "p_mt" and kind == "matvec" and np_ > 1) else p0[a]
                        ex, ab = exact_dot(r, vec, init)
                        ok = close(o[nm][a], ex, ab, len(r))
                    if not ok:
                        direct_fail[i] = (("MT_" if nm == "p_mt" else "") + ("MatrixDVectorDotProduct" if kind == "matvec" else "DVectorMatrixDotProduct"),
                                          "value", "%s differs from definition, shape %s threads %d" % (nm, (m, n), np_))
        elif kind == "outer":
            _, (m, n), a, b = mt
            checks.add(i, "outer", "mchk (outer %s %s) %s" % (cv(a), cv(b), cm(o["m"])))
            exp = [[MISSING if (a[x] == MISSING or b[y] == MISSING) else a[x] * b[y] for y in range(n)] for x in range(m)]
            if not all(o["m"][x][y] == exp[x][y] for x in range(m) for y in range(n)):
                direct_fail[i] = ("RowColOuterProduct", "value", "entry != a_i*b_j (MISSING where an operand is missing)")
            if not all(o["m2"][x][y] == exp[x][y] for x in range(m) for y in range(n)):
                direct_fail[i] = ("DVectorTrasposedDVectorDotProduct", "value", "entry != a_i*b_j (MISSING where an operand is missing), shape %dx%d" % (m, n))
            checks.add(i, "outer2", "mchk (outer %s %s) %s" % (cv(a), cv(b), cm(o["m2"])))
        elif kind == "unary":
            _, (m, n), M = mt
            checks.add(i, "transpose", "mchk (transpose %d %s) %s" % (n, cm(M), cm(o["transpose"])))
            checks.add(i, "trace", "fchk (%s) %s" % (("trace " + cm(M)) if m == n else "0", vf.coq_f(o["trace"])))
            checks.add(i, "fro_norm", "fchk (fro_norm %s) %s" % (cm(M), vf.coq_f(o["norm"])))
            checks.add(i, "mat_col_average", "vchk (mat_col_average %s) %s" % (cm(M), cv(o["colavg"])))
            checks.add(i, "mat_row_average", "vchk (mat_row_average %s) %s" % (cm(M), cv(o["rowavg"])))
            checks.add(i, "col_minmax", "mchk (map (fun j => let mm := col_minmax (col %s j) in [:: mm.1; mm.2]) (iota 0 %d)) %s" % (cm(M), n, cm(o["minmax"])))
            if m > 1:
                checks.add(i, "mat_col_var", "vchk (mat_col_var %s) %s" % (cm(M), cv(o["colvar"])))
                checks.add(i, "mat_col_sdev", "vchk (mat_col_sdev %s) %s" % (cm(M), cv(o["colsdev"])))
                checks.add(i, "covariance", "mchk (covariance %s) %s" % (cm(M), cm(o["cov"])))
            checks.add(i, "mat_col_rms", "vchk (mat_col_rms %s) %s" % (cm(M), cv(o["colrms"])))
            if not any(MISSING in r for r in M):
                if o["transpose"] != [[M[a][b] for a in range(m)] for b in range(n)]:
                    direct_fail[i] = ("MatrixTranspose", "value", "transpose mismatch")
                if m > 1 and "descstat" in o:
                    # complete data (no missing cell): mean, median, population / sample variance, min, max and the zero count of every
                    # column — exact zeros are ordinary observations
                    DS = o["descstat"]
                    for b_ in range(n):
                        colv = [M[a][b_] for a in range(m)]
                        mu_ = sum(Fraction(x) for x in colv) / m
                        ssq = sum((Fraction(x) - mu_) ** 2 for x in colv)
                        sc_ = max(1e-300, max(abs(x) for x in colv))
                        srt = sorted(colv)
                        med = srt[m // 2] if m % 2 else (srt[m // 2] + srt[m // 2 - 1]) / 2.0
                        want = {0: float(mu_), 1: med, 3: float(ssq / m), 4: float(ssq / (m - 1)), 9: min(colv), 10: max(colv),
                                11: float(sum(1 for x in colv if abs(x) < 1e-6)), 12: 0.0}
                        for q_, w_ in want.items():
                            tol_ = 1e-9 * (sc_ ** 2 if q_ in (3, 4) else sc_) * (m + 4)
                            if len(DS) != n or len(DS[b_]) != 13 or not (abs(DS[b_][q_] - w_) <= tol_):
                                direct_fail[i] = ("MatrixColDescStat", "value", "column %d, statistic %d: %r, the definition gives %r" % (b_, q_, DS[b_][q_] if len(DS) == n and len(DS[b_]) == 13 else None, w_))
                if m == n:
                    ex = sum(Fraction(M[a][a]) for a in range(m))
                    ab = sum(abs(Fraction(M[a][a])) for a in range(m))
                    if not close(o["trace"], ex, ab, m):
                        direct_fail[i] = ("MatrixTrace", "value", "trace mismatch")
                fr = math.sqrt(float(sum(Fraction(x) ** 2 for r in M for x in r)))
                if abs(o["norm"] - fr) > 1e-12 * max(fr, 1e-300) * (m * n + 4):
                    direct_fail[i] = ("Matrixnorm", "value", "Frobenius norm mismatch")
                if m > 1:
                    mean = [sum(Fraction(M[a][b]) for a in range(m)) / m for b in range(n)]
                    scale2 = [float(sum((Fraction(M[a][b]) - mean[b]) ** 2 for a in range(m)) / (m - 1)) for b in range(n)]
                    C = o["cov"]
                    okc = True
                    snapped = any(abs(float(mean[b] * m)) < 1e-6 and mean[b] != 0 for b in range(n))
                    for x in range(n):
                        for y in range(n):
                            ex = float(sum((Fraction(M[a][x]) - mean[x]) * (Fraction(M[a][y]) - mean[y]) for a in range(m)) / (m - 1))
                            tol = 1e-9 * math.sqrt(scale2[x] * scale2[y]) + 1e-9 * (abs(float(mean[x])) + abs(float(mean[y])) + 1) ** 2 * 1e-3
                            if abs(C[x][y] - ex) > tol and not snapped:
                                okc = False
                            if C[x][y] != C[y][x] and abs(C[x][y] - C[y][x]) > 1e-12 * abs(C[x][y]):
                                okc = False
                    if not okc:
                        direct_fail[i] = ("MatrixCovariance", "value", "covariance differs from definition / not symmetric")
                    # column variance / standard deviation against the exact value, entry by entry
                    for b in range(n):
                        if abs(o["colvar"][b] - scale2[b]) > 1e-8 * scale2[b] + 1e-300 or abs(o["colsdev"][b] - math.sqrt(scale2[b])) > 1e-8 * math.sqrt(scale2[b]) + 1e-300:
                            direct_fail[i] = ("MatrixColVar", "value", "column %d: variance %r / sdev %r, exact variance %r (column mean %.6g)" % (b, o["colvar"][b], o["colsdev"][b], scale2[b], float(mean[b])))
                            break
        elif kind == "sort":
            _, (m, n), M, key = mt
            checks.add(i, "msort", "mchk (msort %d %s) %s" % (key, cm(M), cm(o["sorted"])))
            checks.add(i, "mrsort", "mchk (mrsort %d %s) %s" % (key, cm(M), cm(o["rsorted"])))
            if not any(MISSING in r for r in M) or True:
                S, Rv = o["sorted"], o["rsorted"]
                if sorted(map(tuple, S)) != sorted(map(tuple, M)) or any(S[a][key] > S[a + 1][key] for a in range(m - 1)):
                    direct_fail[i] = ("MatrixSort", "order", "not a sorted permutation of the rows")
                if sorted(map(tuple, Rv)) != sorted(map(tuple, M)) or any(Rv[a][key] < Rv[a + 1][key] for a in range(m - 1)):
                    direct_fail[i] = ("MatrixReverseSort", "order", "not a reverse-sorted permutation of the rows")
                colk = sorted(r[key] for r in M)
                if m > 0 and o.get("vsorted") != colk:
                    direct_fail[i] = ("DVectorSort", "order", "the sorted key column is not the ascending rearrangement of its values")
                elif m > 0 and not any(r[key] != r[key] for r in M):
                    want = colk[m // 2] if m % 2 else (colk[m // 2] + colk[m // 2 - 1]) / 2.0
                    if o.get("median") != want:
                        direct_fail[i] = ("DVectorMedian", "value", "median %r, the middle order statistic is %r" % (o.get("median"), want))
        elif kind == "vec":
            _, (n,), a, b = mt
            checks.add(i, "vdot", "fchk (vdot %s %s) %s" % (cv(a), cv(b), vf.coq_f(o["dot"])))
            checks.add(i, "vmodule", "fchk (vmodule %s) %s" % (cv(a), vf.coq_f(o["module"])))
            checks.add(i, "vnormalize", "vchk (vnormalize %s) %s" % (cv(a), cv(o["normalized"])))
            keep = [(x, y) for x, y in zip(a, b) if x != MISSING and y != MISSING]    # pairs with a missing operand are skipped
            ex, ab = exact_dot([x for x, _ in keep], [y for _, y in keep])
            if not close(o["dot"], ex, ab, n):
                direct_fail[i] = ("DVectorDVectorDotProd", "value", "dot product mismatch")
        elif kind == "tensor":
            _, (od, m, n), T, tv, tw, pm = mt
            ct = "[:: " + "; ".join(cm(x) for x in T) + "]"
            checks.add(i, "dvector_tensor_dot", "mchk (dvector_tensor_dot %s %s (zerom %d %d)) %s" % (ct, cv(tv), n, od, cm(o["vT"])))
            checks.add(i, "transposed_tensor_dvector", "mchk (transposed_tensor_dvector %s %s (zerom %d %d)) %s" % (ct, cv(tw), od, m, cm(o["Tw"])))
            checks.add(i, "tensor_matrix_dot", "vchk (tensor_matrix_dot %s %s (zeros %d)) %s" % (ct, cm(pm), m, cv(o["TM"])))
            okt = True
            for k in range(od):
                for j in range(n):
                    ex, ab = exact_dot(tv, [T[k][a][j] for a in range(m)])
                    okt = okt and close(o["vT"][j][k], ex, ab, m)
                for a in range(m):
                    ex, ab = exact_dot(T[k][a], tw)
                    okt = okt and close(o["Tw"][k][a], ex, ab, n)
            for a in range(m):
                ex = sum(Fraction(T[k][a][j]) * Fraction(pm[j][k]) for k in range(od) for j in range(n))
                ab = sum(abs(Fraction(T[k][a][j]) * Fraction(pm[j][k])) for k in range(od) for j in range(n))
                okt = okt and close(o["TM"][a], ex, ab, n * od)
            if not okt:
                direct_fail[i] = ("tensor contraction", "value", "tensor-vector / tensor-matrix contraction differs from definition")
    failing, logs, cerr = vf.run_cases_v("c11", IMPORTS, DEFS, checks.items, shard=400 if not thorough else 250)
    ck.cov["model_checks_evaluated_in_coq"] = len(checks.items)
    ck.cov["traces_validated_against_impl"] = len(meta)
    ck.cov["rule"] = ("shapes (m,n,p) in 0..17^3 incl. every inner-dimension residue mod 4 and zero dimensions, values 1e-6..1e6; "
                      "non-trivial = all dimensions > 0; distinct by (op, shape, data prefix)")
    if cerr:
        ck.broken("correspondence:coq-eval", cerr)
    fset = sorted(set(failing))
    for cid in fset:
        i, label = checks.where[cid]
        mt = meta[i]
        if i in direct_fail:
            continue
        ck.broken("correspondence:%s/%s case %d shape %s" % (mt[0], label, i, mt[1]), "model (F64 instance) and implementation disagree")
    for i, (site, cls, what) in direct_fail.items():
        mt = meta[i]
        ck.fail(site, cls, what, {"op": mt[0], "shape": mt[1], "inputs": [list(x) if isinstance(x, list) else x for x in mt[2:]], "observed": {k: v for k, v in outs[i].items()}})
    ck.cov["correspondence_disagreements"] = len(fset)
    ck.assumptions += ["floating-point rounding of the C code is compared (bit-for-bit up to 2^-44 relative), not bounded by a theorem",
                       "gcc -O1 -ffp-contract=off on x86-64/SSE2", "python Fraction arithmetic as the independent oracle of the direct predicates"]


def replay(ck, rp):
    raise SystemExit("replay: re-run ./check C11 with VERIF_SEED=%s" % rp.get("seed"))
