"""C15 — regression and classification figures of merit equal their definitions."""
import math
import numpy as np
import vf

IMPORTS = """From Coq Require Import Floats ZArith.
From mathcomp Require Import ssreflect ssrfun ssrbool eqtype ssrnat seq.
From LS Require Import NumOps F64Ops Kernels Stats.
Local Open Scope float_scope.
"""
DEFS = """Definition REL := 0x1p-44.
Definition fchk (a b : float) := f_agree REL 0 a b.
Definition pts_ok (p : seq (float * float)) (m : seq (seq float)) := m_agree REL 1 (map (fun xy => [:: xy.1; xy.2]) p) m.
Definition reg_ok (yt yp : seq float) (a b c d e : float) :=
  [&& fchk (r2 yt yp) a, fchk (mse yt yp) b, fchk (rmse yt yp) c, fchk (mae yt yp) d & fchk (bias yt yp) e].
Definition roc_ok (yt ys : seq float) (roc : seq (seq float)) (auc : float) (pr : seq (seq float)) (ap : float) :=
  [&& pts_ok (roc_curve yt ys) roc, fchk (roc_auc yt ys) auc, pts_ok (pr_curve yt ys) pr & fchk (pr_ap yt ys) ap].
"""
MISSING = 99999999.0


def run(ck, rng, tier):
    thorough = tier == "thorough"
    ck.prove("Properties_C15")
    exe = vf.build_driver("drv_stat")
    lines, meta = [], []
    for c in range(60 if not thorough else 600):
        n = rng.randint(2, 200 if thorough else 60)
        sc = 10 ** rng.uniform(-3, 4)
        yt = [rng.gauss(0, 1) * sc + rng.uniform(-5, 5) * sc for _ in range(n)]
        kind = rng.choice(("noisy", "noisy", "perfect", "bad"))
        yp = [y + (0 if kind == "perfect" else rng.gauss(0, 0.3 if kind == "noisy" else 5) * sc) for y in yt]
        ytm = list(yt)
        nmiss = 0
        if rng.random() < 0.4:
            for i in range(n):
                if rng.random() < 0.2 and n - nmiss > 2:
                    ytm[i] = MISSING
                    nmiss += 1
        if c % 7 == 5:
            # truths and predictions in small units (1e-6 .. 1e-7) with an accurate prediction (errors of about 1 %):
            # every figure of merit is a ratio or scales with the unit
            kind = "small_units"
            u = rng.choice((1e-6, 1e-7))
            yt = [u * rng.uniform(2.1, 2.9) for _ in range(n)]
            yp = [y * (1.0 + rng.gauss(0, 0.01)) for y in yt]
            ytm = list(yt)
        if c % 7 == 1 and nmiss:
            # at a slot whose truth is missing-coded the prediction may be anything (here: huge), it is ignored
            yp = list(yp)
            yp[[i for i in range(n) if ytm[i] == MISSING][0]] = rng.choice((1e200, -3e180))
        if c % 7 == 3:
            # truths NEXT TO the missing-value code but outside its +-0.1 window (ordinary numbers, all of them count),
            # with one or two inside the window (missing)
            kind = "near_code"
            yt = [MISSING + rng.choice((-1, 1)) * rng.uniform(0.5, 90.0) for _ in range(n)]
            yp = [y + rng.gauss(0, 3.0) for y in yt]
            ytm = list(yt)
            if n > 4:
                ytm[rng.randrange(n)] = MISSING + rng.choice((0.05, -0.08, 0.0))
        lines.append("reg %s %s" % (vf.fmt_vec(ytm), vf.fmt_vec(yp)))
        meta.append(("reg", ytm, yp, kind))
        ck.count("reg " + kind)
    for c in range(60 if not thorough else 600):
        n = rng.randint(2, 200 if thorough else 50)
        lab = [float(rng.random() < rng.choice((0.2, 0.5, 0.8))) for _ in range(n)]
        lab[0], lab[1] = 1.0, 0.0
        dist = rng.choice(("gauss", "exp", "int"))
        sc = rng.sample(range(-5 * n, 5 * n), n) if dist == "int" else None
        scores = [float(sc[i]) if sc else (rng.gauss(lab[i], 1.0) if dist == "gauss" else rng.expovariate(1.0) * (1 + lab[i])) for i in range(n)]
        if c in (9, 10):
            # many positives (ordinate steps of the curve below 1e-2): 150..190 objects of which 85 % are positive
            n = rng.randint(150, 190)
            lab = [float(rng.random() < 0.85) for _ in range(n)]
            lab[0], lab[1] = 1.0, 0.0
            scores = [rng.gauss(0.3 * lab[i], 1.0) for i in range(n)]
            # ... with negatives ranked between the best and the second-best positive (the first, lowest horizontal piece of the curve)
            top_ = max(scores)
            ip_ = lab.index(1.0)
            scores[ip_] = top_ + 4.0
            for q_, in_ in enumerate([i for i in range(n) if lab[i] == 0.0][:3]):
                scores[in_] = top_ + 3.0 - 0.5 * q_
            ck.count("roc with more than 100 positives")
        if c in (6, 7, 8):
            # a score equal (or next) to the missing-value code: the code only has a meaning in the TRUTH vector, a score
            # of 99999999 is an ordinary (the largest) score and its object counts like any other
            scores[rng.randrange(n)] = MISSING + (0.0, 0.05, -0.08)[c - 6]
            ck.count("roc score next to the missing-value code")
        if len(set(scores)) != n:
            continue
        kind = rng.choice(("plain", "monotone", "perm", "negate"))
        lines.append("roc %s %s" % (vf.fmt_vec(lab), vf.fmt_vec(scores)))
        meta.append(("roc", lab, scores, "base"))
        if c < 6:
            kind = "monotone"     # every run: distinct scores a hair apart (the AUC only depends on the ranks)
        if kind == "monotone":
            tiny = (lambda x: 1e60 * x, lambda x: 1e-60 * x, lambda x: 1e-7 * x, lambda x: 1.0 / (1.0 + math.exp(-max(min(20.0 * x, 700.0), -700.0))), lambda x: 1.0 + 1e-9 * x)
            f = tiny[c % 5] if c < 6 else rng.choice((lambda x: 3 * x + 1, lambda x: x ** 3 + x, lambda x: math.atan(x), lambda x: math.exp(min(x, 50) / 50)) + tiny)
            s2 = [f(x) for x in scores]
            if len(set(s2)) == n:
                lines.append("roc %s %s" % (vf.fmt_vec(lab), vf.fmt_vec(s2))); meta.append(("roc", lab, s2, "monotone"))
        elif kind == "perm":
            p = list(range(n)); rng.shuffle(p)
            lines.append("roc %s %s" % (vf.fmt_vec([lab[i] for i in p]), vf.fmt_vec([scores[i] for i in p]))); meta.append(("roc", [lab[i] for i in p], [scores[i] for i in p], "perm"))
        elif kind == "negate":
            lines.append("roc %s %s" % (vf.fmt_vec(lab), vf.fmt_vec([-x for x in scores]))); meta.append(("roc", lab, [-x for x in scores], "negate"))
        ck.count("roc " + kind)
    # statistic tables of PLS / MLR: the scalar functions applied per response and latent variable
    for c in range(8 if not thorough else 60):
        n, ny, nlv = rng.randint(4, 15), rng.randint(1, 3), rng.randint(1, 3)
        Yt = [[rng.gauss(0, 1) for _ in range(ny)] for _ in range(n)]
        Yp = [[Yt[i][j % ny] + rng.gauss(0, 0.4) for j in range(ny * nlv)] for i in range(n)]
        lines.append("plsstat %s %s" % (vf.fmt_mat(Yt), vf.fmt_mat(Yp))); meta.append(("plsstat", Yt, Yp, ny, nlv))
        lines.append("mlrstat %s %s" % (vf.fmt_mat(Yt), vf.fmt_mat([r[:ny] for r in Yp]))); meta.append(("mlrstat", Yt, [r[:ny] for r in Yp], ny, 1))
    rc, outs, err = vf.run_driver(exe, "\n".join(lines) + "\n")
    if rc != 0 or len(outs) != len(meta):
        ck.broken("driver drv_stat", "rc=%s cases=%d/%d %s" % (rc, len(outs), len(meta), err[-800:]))
        return
    for op_ in ("plsstat",):
        sel_ = [k for k in range(len(meta)) if meta[k][0] == op_]
        vf.reuse_scan(ck, "drv_stat:" + op_, [outs[k] for k in sel_], lambda j, sel_=sel_: {"op": op_, "case": str(meta[sel_[j]][1:3])[:1500]})
    checks = vf.Checks()
    cv, cm, cf = vf.coq_vec, vf.coq_mat, vf.coq_f
    base_auc = None
    for i, (mt, o) in enumerate(zip(meta, outs)):
        if mt[0] == "reg":
            _, yt, yp, kind = mt
            ck.case(("reg", len(yt), kind, repr(yt[:3])), sample={"op": "reg", "n": len(yt), "kind": kind, "missing": sum(1 for y in yt if abs(y - MISSING) < 0.1)} if i % 29 == 0 else None)
            checks.add(i, "reg", "reg_ok %s %s %s %s %s %s %s" % (cv(yt), cv(yp), cf(o["r2"]), cf(o["mse"]), cf(o["rmse"]), cf(o["mae"]), cf(o["bias"])))
            miss = lambda a: abs(a - MISSING) < 0.1
            t = np.array([a for a in yt if not miss(a)]); p = np.array([b for a, b in zip(yt, yp) if not miss(a)])
            mse = ((p - t) ** 2).mean(); mae = np.abs(p - t).mean(); r2 = 1 - ((p - t) ** 2).sum() / ((t - t.mean()) ** 2).sum()
            bad = None
            rel = lambda a, b: abs(a - b) <= 1e-9 * max(abs(a), abs(b), 1e-300) + 1e-12 * (abs(b) + 1e-300)
            rel7 = lambda a, b: abs(a - b) <= 1e-7 * max(abs(a), abs(b), 1e-300)
            if not rel(o["mse"], mse): bad = ("MSE", "definition", "MSE %r vs %r" % (o["mse"], mse))
            elif not rel(o["mae"], mae): bad = ("MAE", "definition", "MAE %r vs %r" % (o["mae"], mae))
            elif abs(o["r2"] - r2) > 1e-9 * max(1, abs(r2)): bad = ("R2", "definition", "R2 %r vs %r" % (o["r2"], r2))
            elif not rel(o["rmse"] ** 2, o["mse"]): bad = ("RMSE", "rmse_sq", "RMSE^2 %r != MSE %r" % (o["rmse"] ** 2, o["mse"]))
            elif o["mae"] > o["rmse"] * (1 + 1e-12): bad = ("MAE", "mae_le_rmse", "MAE %r > RMSE %r" % (o["mae"], o["rmse"]))
            elif o["r2"] > 1 + 1e-12: bad = ("R2", "r2_le_1", "R2 %r > 1" % o["r2"])
            elif len(t) > 1 and ((t - t.mean()) ** 2).sum() > 0 and abs(t.mean()) <= 100 * t.std() and not rel7(o["bias"], abs(1 - (p * (t - t.mean())).sum() / (t * (t - t.mean())).sum()) if abs(1 - (p * (t - t.mean())).sum() / (t * (t - t.mean())).sum()) > 1e-6 else o["bias"]):
                bad = ("BIAS", "definition", "BIAS %r vs |1 - sum yp (yt - mean) / sum yt (yt - mean)| = %r" % (o["bias"], abs(1 - (p * (t - t.mean())).sum() / (t * (t - t.mean())).sum())))
            elif kind == "perfect" and (o["r2"] != 1.0 or o["mse"] != 0.0 or o["mae"] != 0.0): bad = ("R2", "perfect", "perfect prediction gives r2=%r mse=%r mae=%r" % (o["r2"], o["mse"], o["mae"]))
            if bad:
                ck.fail(bad[0], bad[1], bad[2], {"ytrue": yt, "ypred": yp})
        elif mt[0] == "roc":
            _, lab, scores, kind = mt
            n = len(lab)
            ck.case(("roc", n, kind, repr(scores[:3])), sample={"op": "roc", "n": n, "kind": kind} if i % 31 == 0 else None)
            checks.add(i, "roc", "roc_ok %s %s %s %s %s %s" % (cv(lab), cv(scores), cm(o["roc"]), cf(o["auc"]), cm(o["pr"]), cf(o["ap"])))
            P = sum(lab); N = n - P
            mw = sum(1 for a in range(n) if lab[a] == 1 for b in range(n) if lab[b] == 0 and scores[b] < scores[a]) / (P * N)
            roc = o["roc"]
            bad = None
            if roc[0] != [0.0, 0.0] or roc[-1] != [1.0, 1.0]: bad = ("ROC", "endpoints", "curve goes from %s to %s" % (roc[0], roc[-1]))
            elif any(roc[k + 1][0] < roc[k][0] or roc[k + 1][1] < roc[k][1] for k in range(len(roc) - 1)): bad = ("ROC", "monotone", "ROC curve not monotone")
            elif abs(o["auc"] - mw) > 1e-10: bad = ("ROC", "mann_whitney", "AUC %r vs Mann-Whitney %r" % (o["auc"], mw))
            pr = o["pr"]
            if bad is None and (any(pr[k + 1][0] < pr[k][0] for k in range(len(pr) - 1)) or pr[-1][0] != 1.0): bad = ("PrecisionRecall", "recall_monotone", "recall not non-decreasing to 1")
            if bad is None and not (-1e-12 <= o["ap"] <= 1 + 1e-12): bad = ("PrecisionRecall", "area_range", "area %r outside [0,1]" % o["ap"])
            if kind == "base":
                base_auc = o["auc"]
            elif bad is None and base_auc is not None:
                want = 1 - base_auc if kind == "negate" else base_auc
                if abs(o["auc"] - want) > 1e-10:
                    bad = ("ROC", "invariance_" + kind, "AUC after %s is %r, expected %r" % (kind, o["auc"], want))
            if bad:
                ck.fail(bad[0], bad[1], bad[2], {"labels": lab, "scores": scores, "kind": kind})
        else:
            _, Yt, Yp, ny, nlv = mt
            ck.case((mt[0], ny, nlv, repr(Yt[0])))
            Yt_, Yp_ = np.array(Yt), np.array(Yp)
            for lv in range(nlv):
                for j in range(ny):
                    t, p = Yt_[:, j], Yp_[:, ny * lv + j]
                    r2 = 1 - ((p - t) ** 2).sum() / ((t - t.mean()) ** 2).sum()
                    rm = math.sqrt(((p - t) ** 2).mean())
                    got_r2 = o["r2"][lv][j] if mt[0] == "plsstat" else o["r2"][j]
                    got_rm = o["rmse"][lv][j] if mt[0] == "plsstat" else o["rmse"][j]
                    if abs(got_r2 - r2) > 1e-9 or abs(got_rm - rm) > 1e-9 * max(1, rm):
                        ck.fail(mt[0], "table_entry", "statistic table entry (lv %d, response %d): r2 %r vs %r, rmse %r vs %r" % (lv + 1, j, got_r2, r2, got_rm, rm), {"ytrue": Yt, "ypred": Yp})
            # a table requested on its own (the other outputs NULL) is the same table
            for nm in ("r2", "rmse", "bias"):
                if repr(o[nm]) != repr(o[nm + "_alone"]):
                    ck.fail(mt[0], "table_depends_on_other_outputs", "the %s table requested alone differs from the one returned together with the others: %s vs %s" % (nm, str(o[nm + "_alone"])[:80], str(o[nm])[:80]), {"ytrue": Yt, "ypred": Yp})
                    break
    failing, logs, cerr = vf.run_cases_v("c15", IMPORTS, DEFS, checks.items, shard=40)
    if cerr:
        ck.broken("correspondence:coq-eval", cerr)
    for cid in sorted(set(failing)):
        case, label = checks.where[cid]
        ck.broken("correspondence:%s case %d (%s, n=%d)" % (label, case, meta[case][3], len(meta[case][1])), "model (F64 instance) and implementation disagree")
    ck.cov["model_checks_evaluated_in_coq"] = len(checks.items)
    ck.cov["traces_validated_against_impl"] = len(meta)
    ck.cov["rule"] = "vectors of length 2..200, scales 1e-3..1e4, <= 20% MISSING truths, perfect/noisy/bad predictions; binary truths with both classes, tie-free scores (gaussian/exponential/integer), monotone maps, permutations, negation; PLS/MLR statistic tables"
    ck.assumptions += ["python/numpy definitions as the independent oracle (Mann-Whitney by explicit pair counting)"]


def replay(ck, rp):
    return 1
