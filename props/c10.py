"""C10 — centring/scaling options."""
import math
import vf

IMPORTS = """From Coq Require Import Floats ZArith.
From mathcomp Require Import ssreflect ssrfun ssrbool eqtype ssrnat seq.
From LS Require Import NumOps F64Ops Kernels Preprocess.
Local Open Scope float_scope.
"""
DEFS = """Definition REL := 0x1p-44.
Definition mchk (a b : seq (seq float)) := m_agree REL (mmax b) a b.
Definition vchk (a b : seq float) := v_agree REL (vmax b) a b.
Definition fit_ok (ty : Z) (X : seq (seq float)) (tr : seq (seq float)) (avg sc : seq float) : bool :=
  let: (t, a, s) := preprocess_fit ty X (zerom (size X) (ncols X)) in mchk t tr && vchk a avg && vchk s sc.
"""
MISSING = 99999999.0


def is_missing(x):
    return 99999999 - 0.1 < x < 99999999 + 0.1


def gen_matrix(rng, n, m, miss_frac, special):
    X = []
    offs = [rng.choice((0.0, 0.0, rng.uniform(-1e3, 1e3), rng.uniform(-5, 5))) for _ in range(m)]
    spread = [rng.choice((0.0, 0.02, 1.0, rng.uniform(0.02, 100))) for _ in range(m)]
    for i in range(n):
        X.append([offs[j] + (rng.gauss(0, 1) * spread[j] if spread[j] else 0.0) for j in range(m)])
    for j in range(m):
        if spread[j] and n > 1:      # enforce a sample sd >= 0.02 on non-constant columns
            col = [X[i][j] for i in range(n)]
            mu = sum(col) / n
            sd = math.sqrt(sum((c - mu) ** 2 for c in col) / (n - 1))
            if sd < 0.02:
                f = 0.03 / max(sd, 1e-12)
                for i in range(n):
                    X[i][j] = mu + (X[i][j] - mu) * f
    if special == "small_sum":       # a column (spread >= 0.02) whose sum is a few 1e-7: inside the library's zero-sum window
        j = rng.randrange(m)
        col = [X[i][j] for i in range(n)]
        shift = (rng.choice((4e-7, -7e-7, 9e-7)) - math.fsum(col)) / n
        for i in range(n):
            X[i][j] += shift
    if special == "near_unit":       # every column with a spread within 1e-3 of 1 (but not 1)
        for j in range(m):
            col = [X[i][j] for i in range(n)]
            mu = sum(col) / n
            sd = math.sqrt(sum((c - mu) ** 2 for c in col) / (n - 1)) if n > 1 else 0.0
            if sd > 0:
                f = (1.0 + rng.choice((-6e-4, 4e-4, 7e-4))) / sd
                for i in range(n):
                    X[i][j] = mu + (X[i][j] - mu) * f
    if special == "symmetric":       # a column that is exactly symmetric about 0 (its sum and mean are exactly 0)
        j = rng.randrange(m)
        half = [rng.randint(1, 400) / 16.0 for _ in range(n // 2)]
        vals = half + [-v for v in half] + ([0.0] if n % 2 else [])
        rng.shuffle(vals)
        for i in range(n):
            X[i][j] = vals[i]
    if special == "above_code":      # every column entirely just above (or below minus) the missing-value code: ordinary numbers
        for j in range(m):
            sgn = rng.choice((1.0, -1.0))
            for i in range(n):
                X[i][j] = sgn * (1.0000005e8 + 2.0 * j + rng.uniform(0.0, 3.0))
    if special == "const_last":      # the LAST column (or the only one) has no spread
        for i in range(n):
            X[i][m - 1] = offs[m - 1]
    if special == "band":            # level scaling with a column mean between the two guards
        j = rng.randrange(m)
        col = [X[i][j] for i in range(n)]
        mu = sum(col) / n
        target = rng.uniform(0.0015, 0.009)
        for i in range(n):
            X[i][j] += target - mu
    if miss_frac > 0:
        for i in range(n):
            for j in range(m):
                if rng.random() < miss_frac:
                    X[i][j] = MISSING
        if special == "miss_first":
            X[0][rng.randrange(m)] = MISSING
        # keep at least two observed cells per column
        for j in range(m):
            obs = [i for i in range(n) if X[i][j] != MISSING]
            while len(obs) < 2 and n >= 2:
                i = rng.choice([i for i in range(n) if X[i][j] == MISSING])
                X[i][j] = rng.gauss(0, 1)
                obs.append(i)
    return X


def oracle_stats(col, ty):
    obs = [x for x in col if not is_missing(x)]
    n = len(obs)
    s = math.fsum(obs)
    avg = 0.0 if -1e-6 < s < 1e-6 else s / n          # what MatrixColAverage stores (sum inside (-1e-6, 1e-6) => 0)
    mu = s / n
    oracle_stats.true_mean = mu
    var = math.fsum((x - mu) ** 2 for x in obs) / (n - 1) if n > 1 else float("nan")
    if ty == 1:
        sc = math.sqrt(var)
    elif ty == 2:
        sc = math.sqrt(math.fsum(x * x for x in obs) / n)
    elif ty == 3:
        sc = math.sqrt(math.sqrt(var))
    elif ty == 4:
        sc = max(obs) - min(obs)
    elif ty == 5:
        sc = avg
    else:
        sc = 1.0
    return avg, sc


def close(a, b, rel=1e-9, ab=1e-12):
    if a != a or b != b or math.isinf(a) or math.isinf(b):
        return False
    return abs(a - b) <= rel * max(abs(a), abs(b)) + ab


def run(ck, rng, tier):
    thorough = tier == "thorough"
    ck.prove("Properties_C10")
    exe = vf.build_driver("drv_prep")
    lines, meta = [], []
    N = 140 if not thorough else 1500
    for c in range(N):
        ty = rng.choice((-1, 0, 1, 2, 3, 4, 5))
        n, m = rng.randint(2, 60 if thorough else 24), rng.randint(1, 20 if thorough else 8)
        special = rng.choice(("none", "none", "none", "band", "miss_first"))
        if c < 3:
            special = "small_sum"
        elif c < 8:
            special, ty = "near_unit", (1, 1, 2, 3, 1)[c - 3]
        elif c < 12:
            special, ty = "symmetric", (0, 1, 3, 4)[c - 8]
        elif c < 15:
            special, ty = "above_code", (4, 4, 1)[c - 12]
        elif c < 19:
            special, ty = "const_last", (1, 3, 4, 2)[c - 15]
        miss = rng.choice((0.0, 0.0, 0.1, 0.2)) if special not in ("band", "above_code") else 0.0
        if special == "miss_first":
            miss = max(miss, 0.1)
        if special == "band":
            ty = 5
        X = gen_matrix(rng, n, m, miss, special)
        New = [[rng.gauss(0, 1) * 3 + rng.uniform(-5, 5) for _ in range(m)] for _ in range(rng.randint(1, 3))]
        lines.append("prep %s %s %d" % (vf.fmt_mat(X, m), vf.fmt_mat(New, m), ty))
        meta.append(("prep", ty, X, New, special, miss))
        ck.count("option %d" % ty)
        ck.count("special=%s" % special)
    for c in range(12 if not thorough else 100):
        ty = rng.choice((0, 1, 2, 3, 4, 5))
        k, n, m = rng.randint(1, 4), rng.randint(3, 12), rng.randint(1, 5)
        T = [gen_matrix(rng, n, m, 0.0, "none") for _ in range(k)]
        lines.append("tprep %s %d" % (vf.fmt_tensor(T), ty))
        meta.append(("tprep", ty, T))
        for b in T:
            lines.append("prep %s %s %d" % (vf.fmt_mat(b, m), vf.fmt_mat([b[0]], m), ty))
            meta.append(("prep_block", ty, b))
    rc, outs, err = vf.run_driver(exe, "\n".join(lines) + "\n")
    if rc != 0 or len(outs) != len(meta):
        ck.broken("driver drv_prep", "rc=%s cases=%d/%d %s" % (rc, len(outs), len(meta), err[-800:]))
        return
    vf.reuse_scan(ck, "drv_prep", outs, lambda k: {"case": str(meta[k])[:1500]})
    checks = vf.Checks()
    cm, cv = vf.coq_mat, vf.coq_vec
    i = 0
    while i < len(meta):
        mt, o = meta[i], outs[i]
        if mt[0] == "prep":
            _, ty, X, New, special, miss = mt
            n, m = len(X), len(X[0])
            hasmiss = any(is_missing(x) for r in X for x in r)
            ck.case(("prep", ty, n, m, repr(X[0])), nontrivial=n >= 3,
                    sample={"op": "MatrixPreprocess", "option": ty, "shape": (n, m), "missing_cells": sum(is_missing(x) for r in X for x in r), "special": special} if i % 41 == 0 else None)
            checks.add(i, "fit", "fit_ok (%d)%%Z %s %s %s %s" % (ty, cm(X), cm(o["trans"]), cv(o["avg"]), cv(o["scale"])))
            if ty >= 0:
                checks.add(i, "apply_same", "mchk (preprocess_apply %s %s %s) %s" % (cm(X), cv(o["avg"]), cv(o["scale"]), cm(o["apply_same"])))
                checks.add(i, "apply_new", "mchk (preprocess_apply %s %s %s) %s" % (cm(New), cv(o["avg"]), cv(o["scale"]), cm(o["apply_new"])))
            # ---- direct predicates on the implementation's output
            tr = o["trans"]
            if any((v != v or math.isinf(v)) for r in tr for v in r):
                ck.fail("MatrixPreprocess", "nan_or_inf", "transformed matrix holds NaN/Inf (option %d)" % ty, {"option": ty, "X": X})
            if ty < 0:
                if tr != X:
                    ck.fail("MatrixPreprocess", "copy_option", "option -1 does not copy", {"X": X})
                i += 1
                continue
            for j in range(m):
                col = [X[r][j] for r in range(n)]
                avg, sc = oracle_stats(col, ty)
                what = None
                if avg == 0.0 and abs(oracle_stats.true_mean) > 1e-9 and o["avg"][j] == 0.0:
                    ck.fail("MatrixColAverage", "sum_inside_zero_window", "stored column average is 0 although the observed cells average %.3g (their sum %.3g lies inside the (-1e-6, 1e-6) window the routine treats as zero)" % (oracle_stats.true_mean, oracle_stats.true_mean * len([x for x in col if not is_missing(x)])), {"option": ty, "column": j, "values": col})
                if not close(o["avg"][j], avg, 1e-9, 1e-9):
                    what = ("stored_average", "stored column average %r is not the average of the observed cells %r" % (o["avg"][j], avg))
                elif not close(o["scale"][j], sc, 1e-9, 1e-9) and not (abs(sc) < 1e-6 and abs(o["scale"][j]) < 1e-3 * 0.5):
                    cls = "range_scaling_missing_seed" if (ty == 4 and is_missing(col[0])) else "stored_scaling"
                    what = (cls, "stored scaling %r of option %d is not the statistic of the observed cells %r" % (o["scale"][j], ty, sc))
                if what:
                    ck.fail("MatrixPreprocess", what[0], what[1], {"option": ty, "column": j, "values": col})
                    continue
                zero = -1e-3 < sc < 1e-3
                for r in range(n):
                    if is_missing(col[r]):
                        continue
                    want = 0.0 if zero else (col[r] - avg) / sc
                    if not close(tr[r][j], want, 1e-9, 1e-9 * (abs(avg) + 1) / max(abs(sc), 1e-3)):
                        ck.fail("MatrixPreprocess", "fit_formula", "trans[%d][%d]=%r, (x-avg)/scale=%r (option %d)" % (r, j, tr[r][j], want, ty), {"option": ty, "column": j, "values": col})
                        break
                if not hasmiss:
                    for r in range(n):
                        if not close(o["apply_same"][r][j], tr[r][j], 1e-12, 1e-12):
                            band = 1e-3 <= abs(o["scale"][j]) < 1e-2
                            ck.fail("MatrixPreprocess", "apply_guard_band" if band else "apply_differs_from_fit",
                                    "applying the stored statistics to the training matrix gives %r, the training transform is %r (stored scale %r)" % (o["apply_same"][r][j], tr[r][j], o["scale"][j]),
                                    {"option": ty, "column": j, "values": col, "scale": o["scale"][j]})
                            break
                if not (-1e-2 < o["scale"][j] < 1e-2):
                    for r, row in enumerate(New):
                        want = (row[j] - o["avg"][j]) / o["scale"][j]
                        if not close(o["apply_new"][r][j], want, 1e-12, 1e-12):
                            ck.fail("MatrixPreprocess", "apply_not_affine", "new row is not mapped by (x-avg)/scale", {"option": ty, "column": j})
                            break
            i += 1
        elif mt[0] == "tprep":
            _, ty, T = mt
            ck.case(("tprep", ty, len(T), repr(T[0][0])))
            for b in range(len(T)):
                ob = outs[i + 1 + b]
                if o["trans.%d" % b] != ob["trans"] or o["avg.%d" % b] != ob["avg"] or o["scale.%d" % b] != ob["scale"]:
                    ck.fail("TensorPreprocess", "not_blockwise", "tensor preprocessing of block %d differs from matrix preprocessing of that block" % b, {"option": ty, "block": T[b]})
            i += 1 + len(T)
        else:
            i += 1
    failing, logs, cerr = vf.run_cases_v("c10", IMPORTS, DEFS, checks.items, shard=120)
    if cerr:
        ck.broken("correspondence:coq-eval", cerr)
    for cid in sorted(set(failing)):
        case, label = checks.where[cid]
        ck.broken("correspondence:%s case %d option %s" % (label, case, meta[case][1]), "model (F64 instance) and implementation disagree")
    ck.cov["model_checks_evaluated_in_coq"] = len(checks.items)
    ck.cov["traces_validated_against_impl"] = len(meta)
    ck.cov["rule"] = ("matrices 2..60 x 1..20, offsets, column spreads >= 0.02 or exactly 0, <= 20% MISSING cells, options -1..5; aimed cases: level scaling with a mean "
                      "between the two zero guards, MISSING in the first row; tensors of 1..4 blocks; non-trivial = at least 3 rows")
    ck.assumptions += ["floating-point rounding compared (2^-44 relative), not bounded", "python math.fsum statistics as the independent oracle of the direct predicates"]


def replay(ck, rp):
    return 1
