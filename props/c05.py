"""C05 — cross-validation predictions are out-of-sample and cover every object once."""
import math
import numpy as np
import vf

IMPORTS = """From Coq Require Import List Arith ZArith.
Import ListNotations.
From mathcomp Require Import ssreflect ssrbool ssrnat seq.
From LS Require Import Gen_Leaf CV.
"""
DEFS = """Definition zm_eq (a b : list (list Z)) : bool :=
  if list_eq_dec (list_eq_dec Z.eq_dec) a b then true else false.
Definition groups_ok (seed : Z) (ng nobj : nat) (gid : list (list Z)) : bool :=
  match gen_groups 800 seed ng nobj with Some g => zm_eq g gid | None => false end.
Definition nl_eq (a b : list nat) : bool := if list_eq_dec Nat.eq_dec a b then true else false.
Definition split_ok (gid : list (list Z)) (g : nat) (tr te : list nat) : bool :=
  let s := split_ids gid g in nl_eq (fst s) tr && nl_eq (snd s) te.
"""
ALGOS = {0: "PLS", 4: "MLR", 5: "LDA"}


def zmat(M):
    return "[" + "; ".join("[" + "; ".join("(%d)%%Z" % int(x) for x in r) + "]" for r in M) + "]"


def nlist(v):
    return "[" + "; ".join("%d%%nat" % int(x) for x in v) + "]"


def gen_data(rng, n, m, ny, algo):
    X = np.array([[rng.gauss(0, 1) for _ in range(m)] for _ in range(n)]) + np.array([rng.uniform(-2, 2) for _ in range(m)])
    if algo == 5:
        ncl = rng.randint(2, 3)
        lab = [i % ncl for i in range(n)]
        rng.shuffle(lab)
        cent = np.array([[rng.uniform(-4, 4) for _ in range(m)] for _ in range(ncl)])
        X = X * 0.7 + cent[lab]
        Y = np.array([[float(l)] for l in lab])
    else:
        B = np.array([[rng.gauss(0, 1) for _ in range(ny)] for _ in range(m)])
        Y = X @ B + 0.3 * np.array([[rng.gauss(0, 1) for _ in range(ny)] for _ in range(n)]) + rng.uniform(-3, 3)
    return X, Y


def run(ck, rng, tier):
    thorough = tier == "thorough"
    ck.prove("Properties_C05")
    exe = vf.build_driver("drv_cv")
    checks = vf.Checks()
    # ---------------- group generator + split: exhaustive (objects, groups) pairs on small sizes, seeds as the library forms them
    lines, meta = [], []
    pairs = [(n, g) for n in range(6, 31 if thorough else 17) for g in range(1, n + 1)]
    if not thorough:
        # ... plus the shapes whose group matrix is square (groups == ceil(objects / groups)) and a few fixed ones
        pairs = rng.sample(pairs, 60) + [(6, 1), (6, 6), (7, 3), (16, 5), (9, 3), (8, 3), (16, 4), (14, 4), (13, 4)]
    for (n, g) in pairs:
        seed = rng.choice((g + n + 1 + 4 + rng.randint(0, 12), rng.randint(0, 255)))
        lines.append("groups %d %d %d" % (seed, g, n))
        meta.append(("groups", seed, g, n))
    rc, outs, err = vf.run_driver(exe, "\n".join(lines) + "\n", timeout=600)
    if rc != 0 or len(outs) != len(meta):
        ck.broken("driver drv_cv(groups)", "rc=%s cases=%d/%d %s" % (rc, len(outs), len(meta), err[-500:]))
        return
    split_lines, split_meta = [], []
    for i, (mt, o) in enumerate(zip(meta, outs)):
        _, seed, g, n = mt
        gid = o["gid"]
        ck.case(("groups", seed, g, n), nontrivial=g >= 2, sample={"op": "random_kfold_group_generator", "seed": seed, "groups": g, "objects": n, "gid": gid} if i % 23 == 0 else None)
        ck.count("groups divide objects" if n % g == 0 else "groups do not divide objects")
        if n <= 20:
            checks.add(("groups", i), "gid", "groups_ok %d%%Z %d %d %s" % (seed, g, n, zmat(gid)))
        ids = [int(x) for r in gid for x in r if int(x) != -1]
        cols = math.ceil(n / g)
        if o["gid.shape"] != (g, cols):
            ck.fail("random_kfold_group_generator", "shape", "gid is %s for %d groups of %d objects" % (o["gid.shape"], g, n), {"seed": seed, "groups": g, "objects": n})
        elif sorted(ids) != list(range(n)):
            ck.fail("random_kfold_group_generator", "not_partition", "object indices %s are not each in exactly one group" % sorted(ids), {"seed": seed, "groups": g, "objects": n})
        else:
            k = rng.randrange(g)
            X = [[float(a * 10 + b) for b in range(2)] for a in range(n)]
            Y = [[float(a)] for a in range(n)]
            split_lines.append("split %s %s %s %d" % (vf.fmt_mat(X), vf.fmt_mat(Y), vf.fmt_mat(gid, cols), k))
            split_meta.append((gid, k, n))
    rc, outs, err = vf.run_driver(exe, "\n".join(split_lines) + "\n", timeout=600)
    for i, (mt, o) in enumerate(zip(split_meta, outs)):
        gid, k, n = mt
        ck.case(("split", repr(gid), k))
        tr = [int(r[0]) for r in o["y_train"]]
        te = [int(r[0]) for r in o["y_test"]]
        checks.add(("split", i), "ids", "split_ok %s %d %s %s" % (zmat(gid), k, nlist(tr), nlist(te)))
        if sorted(tr + te) != list(range(n)) or set(tr) & set(te) or sorted(te) != sorted(int(x) for x in gid[k] if int(x) != -1):
            ck.fail("kfold_group_train_test_split", "not_partition", "training and test parts are not a partition with the test part = group %d" % k, {"gid": gid, "group": k})
        elif any(o["x_train"][a] != [float(t * 10), float(t * 10 + 1)] for a, t in enumerate(tr)):
            ck.fail("kfold_group_train_test_split", "rows_mismatch", "x rows do not follow the y rows", {"gid": gid, "group": k})
    # ---------------- out-of-sample predictions through the public API
    # every run covers each scheme with the multi-response / multi-component PLS layout (where the
    # residual columns are LV-major) and with MLR and LDA; the rest is random
    # ... more responses than variables (1 variable, 3 responses) and responses in units of 1e-6
    FORCED = [(0, "loo", 2, 2), (0, "kfold", 3, 2), (0, "boot", 2, 2), (4, "kfold", 2, 0), (4, "boot", 3, 0), (5, "boot", 1, 0),
              (4, "kfold", 3, 0, 1, 1.0), (4, "boot", 3, 0, 1, 1.0), (4, "loo", 2, 0, 2, 1e-6), (0, "loo", 2, 1, 2, 1e-6)]
    N = (10 if not thorough else 80) + len(FORCED)
    for c in range(N):
        algo = rng.choice((0, 4, 4, 5))
        n = rng.randint(6, 30 if thorough else 14)
        m = rng.randint(1, 6 if thorough else 3)
        ny = 1 if algo == 5 else rng.randint(1, 3)
        nlv = rng.randint(1, m) if algo == 0 else 0
        scheme = rng.choice(("loo", "kfold", "boot")) if algo != 5 else rng.choice(("loo", "boot"))
        yunit = 1.0
        if c < len(FORCED):
            algo, scheme, ny, nlv = FORCED[c][:4]
            m = max(m, nlv, 2)
            if len(FORCED[c]) > 4:
                m, yunit = FORCED[c][4], FORCED[c][5]
        X, Y = gen_data(rng, n, m, ny, algo)
        if yunit != 1.0:
            Y = Y * yunit
            ck.count("responses in units of %g" % yunit)
        # scaling options of the learner: PLS with several responses is run with y autoscaling as well (with one response the
        # y scaling does not change a PLS prediction)
        oxs, oys = 1, 0
        if algo == 0 and ny >= 2 and yunit == 1.0:      # (responses in units of 1e-6 are zeroed by the y autoscaling guard: left to C10/C18)
            oys = rng.choice((0, 1, 1, 2))
            oxs = rng.choice((1, 1, 0, 2))
            if c < len(FORCED):     # every run: y scaling on, and x / y options that differ in the bootstrap scheme
                oxs, oys = {"loo": (1, 1), "kfold": (0, 1), "boot": (1, 2)}[scheme]
        opts = "opts %d %d\n" % (oxs, oys)
        ck.count("learner scaling options x=%d y=%d" % (oxs, oys))
        nth = rng.choice((1, 2, 3, 4, 8))
        if c < len(FORCED) and scheme == "kfold":
            # user labels with a gap (3 is unused) and worker batches in which the unused label is not the last one (3, 5 or 8 workers)
            nth = (3, 8, 5)[c % 3]
        ck.count("%s %s" % (scheme, ALGOS[algo]))
        head = "%d %d %s %s" % (algo, nlv, vf.fmt_mat(X.tolist(), m), vf.fmt_mat(Y.tolist(), ny))
        Y2 = Y.copy()
        a = rng.randrange(n)
        if algo == 5:
            Y2[a, 0] = float((int(Y[a, 0]) + 1) % (int(Y.max()) + 1))
        else:
            Y2[a, :] += 7.5 * yunit
        head2 = "%d %d %s %s" % (algo, nlv, vf.fmt_mat(X.tolist(), m), vf.fmt_mat(Y2.tolist(), ny))
        if scheme == "loo":
            cmd, cmd2 = "loo %s %d" % (head, nth), "loo %s %d" % (head2, nth)
            folds = [[i] for i in range(n)]
        elif scheme == "kfold":
            labels = [rng.choice((0, 1, 2, 4)) for _ in range(n)]      # unbalanced, non-contiguous (3 is empty)
            for l in (0, 1, 2, 4):
                labels[rng.randrange(n)] = l
            cmd, cmd2 = "kfold %s %s %d" % (head, vf.fmt_uivec(labels), nth), "kfold %s %s %d" % (head2, vf.fmt_uivec(labels), nth)
            folds = [[i for i in range(n) if labels[i] == g] for g in range(max(labels) + 1)]
        else:
            grp, its = rng.randint(2, min(5, n // 2)), rng.choice((2, 4))
            nthb = rng.choice([t for t in (1, 2, 4) if its % t == 0])
            cmd, cmd2 = "boot %s %d %d %d" % (head, grp, its, nthb), "boot %s %d %d %d" % (head2, grp, its, nthb)
            folds = None
        # a training part with fewer objects than coefficients (MLR: variables + 1) does not determine a model: the
        # prediction is then not a function of the training data alone and the refit clause says nothing
        biggest = max(len(f) for f in folds) if folds is not None else -(-n // grp)
        if algo == 4 and n - biggest < m + 2:
            ck.count("skipped: training part smaller than the number of MLR coefficients + 1")
            continue
        rc, o2, err = vf.run_driver(exe, opts + cmd + "\n" + cmd2 + "\n", timeout=300)
        if rc != 0 or len(o2) != 2:
            ck.fail("CV/" + scheme, "crash_" + ALGOS[algo], "driver aborted (rc %s): %s" % (rc, err.strip().splitlines()[-1] if err.strip() else ""), {"cmd": cmd})
            continue
        P, P2 = np.array(o2[0]["pred"]), np.array(o2[1]["pred"])
        R = np.array(o2[0]["resid"])
        ck.case((scheme, algo, n, m, ny, nlv, repr(X[0].tolist())), sample={"scheme": scheme, "learner": ALGOS[algo], "objects": n, "variables": m, "responses": ny, "threads": nth} if c % 3 == 0 else None)
        site = {"loo": "LeaveOneOut", "kfold": "KFoldCV", "boot": "BootstrapRandomGroupsCV"}[scheme]
        if not np.isfinite(P).all():
            ck.fail(site, "non_finite_prediction_" + ALGOS[algo], "some object has no finite prediction", {"cmd": cmd})
            continue
        # leakage: changing the response of object a must not move its own prediction
        if scheme != "boot" and not np.array_equal(P[a], P2[a]):
            ck.fail(site, "leakage_" + ALGOS[algo], "the prediction of object %d changes (%s -> %s) when its own response changes" % (a, P[a], P2[a]), {"cmd": cmd, "object": a})
        # residuals = prediction - matching observed response
        if algo != 5:
            nycols = Y.shape[1]
            want = P - Y[:, [j % nycols for j in range(P.shape[1])]]
            if R.shape != P.shape or np.abs(R - want).max() > 1e-9 * max(np.abs(Y).max(), np.abs(P).max(), 1e-300):
                ck.fail(site, "residual_columns_" + ALGOS[algo], "reported residuals are not prediction minus the matching response column", {"cmd": cmd})
        # the residuals do not depend on whether the prediction matrix was asked for as well
        if "resid_only" in o2[0] and algo != 5:
            R1 = np.array(o2[0]["resid_only"])
            if R1.shape != R.shape or not (np.abs(R1 - R).max() <= 1e-12 * max(np.abs(R).max(), 1e-300)):
                ck.fail(site, "residuals_without_predictions_" + ALGOS[algo], "the residuals of a call without a prediction matrix differ from those of the call with one (max %.3g)" % (np.abs(R1 - R).max() if R1.shape == R.shape else float("nan")), {"cmd": cmd})
        # equals the refit on exactly the other folds
        if folds is not None:
            rl = []
            for f in folds:
                if not f:
                    continue
                tr = [i for i in range(n) if i not in f]
                rl.append("refit %d %d %s %s %s" % (algo, nlv, vf.fmt_mat(X[tr].tolist(), m), vf.fmt_mat(Y[tr].tolist(), ny), vf.fmt_mat(X[f].tolist(), m)))
            rc, o3, err = vf.run_driver(exe, opts + "\n".join(rl) + "\n", timeout=300)
            k = 0
            for f in folds:
                if not f:
                    continue
                pr = np.array(o3[k]["pred"]) if k < len(o3) else None
                k += 1
                # (PLS with several responses iterates to a relative change of 1e-8 per latent variable: two fits of the same
                # objects given in another ORDER stop at slightly different points; the refit agrees to that accuracy, not to rounding)
                rtol = 1e-3 if (algo == 0 and ny >= 2) else 1e-9
                if pr is None or pr.shape != P[f].shape or np.abs(pr - P[f]).max() > rtol * max(np.abs(P).max(), 1e-300):
                    ck.fail(site, "not_refit_" + ALGOS[algo], "the value predicted for objects %s is not the prediction of a model refitted on the other objects" % f[:4], {"cmd": cmd, "fold": f})
                    break
        else:
            # bootstrap: reproduce every iteration from the generator (public API) and average
            toks = cmd.split()
            grp, its = int(toks[-3]), int(toks[-2])
            acc = np.zeros_like(P)
            cnt = np.zeros(n)
            okb = True
            for it in range(its):
                seed = grp + n + ny + its + it
                rc, og, err = vf.run_driver(exe, "groups %d %d %d\n" % (seed, grp, n), timeout=60)
                gid = og[0]["gid"]
                rl, fl = [], []
                for g in range(grp):
                    f = [int(x) for x in gid[g] if int(x) != -1]
                    tr = [int(x) for gg in range(grp) if gg != g for x in gid[gg] if int(x) != -1]
                    rl.append("refit %d %d %s %s %s" % (algo, nlv, vf.fmt_mat(X[tr].tolist(), m), vf.fmt_mat(Y[tr].tolist(), ny), vf.fmt_mat(X[f].tolist(), m)))
                    fl.append(f)
                rc, o3, err = vf.run_driver(exe, opts + "\n".join(rl) + "\n", timeout=300)
                if rc != 0 or len(o3) != len(fl):
                    okb = False
                    break
                for f, oo in zip(fl, o3):
                    pr = np.array(oo["pred"])
                    for r_, i_ in enumerate(f):
                        acc[i_] += pr[r_]
                        cnt[i_] += 1
            if okb:
                if (cnt < 1).any():
                    ck.fail(site, "object_never_predicted", "some object is in no test group", {"cmd": cmd})
                else:
                    want = acc / cnt[:, None]
                    if np.abs(want - P).max() > (1e-3 if (algo == 0 and ny >= 2) else 1e-9) * max(np.abs(P).max(), 1e-300):
                        ck.fail(site, "not_refit_" + ALGOS[algo], "bootstrap predictions are not the average of the out-of-fold refits (max diff %.3g)" % np.abs(want - P).max(), {"cmd": cmd})
    failing, logs, cerr = vf.run_cases_v("c05", IMPORTS, DEFS, checks.items, shard=8, timeout=1200)
    if cerr:
        ck.broken("correspondence:coq-eval", cerr)
    for cid in sorted(set(failing)):
        case, label = checks.where[cid]
        ck.broken("correspondence:%s %s" % (label, case), "model (regenerated RNG, group generator / split) and implementation disagree")
    ck.cov["model_checks_evaluated_in_coq"] = len(checks.items)
    ck.cov["traces_validated_against_impl"] = len(checks.items) + N
    ck.cov["rule"] = ("(objects, groups) pairs with objects 6..30 and groups 1..objects (exhaustive in the thorough tier), seeds as the library forms them; data sets 6..30 x 1..6 with 1..3 responses; "
                      "LOO / user-grouped k-fold (unbalanced, non-contiguous labels) / bootstrap (iterations 2,4; threads dividing them) with PLS, MLR, LDA; threads 1..8")
    ck.assumptions += ["KFoldCV has no LDA branch in the library: LDA is exercised with leave-one-out and bootstrap only"]


def replay(ck, rp):
    return 1
