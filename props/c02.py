"""C02 — PCA components are the principal axes of the data (spectral correctness)."""
import math
import numpy as np
import vf
from props import c10


def rand_orth(rng, k):
    A = np.array([[rng.gauss(0, 1) for _ in range(k)] for _ in range(k)])
    Q, Rm = np.linalg.qr(A)
    return Q * np.sign(np.diag(Rm))


def gen_separated(rng, n, m, mag):
    """U diag(s) V' + offsets with singular-value ratios <= 0.85 (after centring the columns)"""
    r = min(n - 1, m)
    s = [1.0]
    for _ in range(r - 1):
        s.append(s[-1] * rng.uniform(0.35, 0.85))
    U = rand_orth(rng, n)
    # make U's columns orthogonal to the ones vector so that centring keeps the spectrum
    ones = np.ones((n, 1)) / math.sqrt(n)
    B = U - ones @ (ones.T @ U)
    Q, _ = np.linalg.qr(B[:, :r + 1])
    Q = Q[:, :r]
    V = rand_orth(rng, m)[:, :r]
    X = (Q * (np.array(s) * mag)) @ V.T
    big = rng.choice((1.0, 1.0, 1.0, 1e5))          # now and then offsets that dwarf the spread
    off = np.array([rng.choice((0.0, rng.uniform(-10, 10))) * mag * big for _ in range(m)])
    return X + off, np.array(s) * mag


def window_hit(Xa):
    """a column whose sum lies inside the library's zero-sum window (-1e-6, 1e-6) although its mean is not negligible
    against its spread: MatrixColAverage stores 0 for it (known finding C10 MatrixColAverage/sum_inside_zero_window)
    and the matrix is then not centred; such inputs are left to C10"""
    Xa = np.asarray(Xa, dtype=float)
    s_ = Xa.sum(axis=0)
    sd = Xa.std(axis=0)
    return bool(((np.abs(s_) < 2e-6) & (np.abs(Xa.mean(axis=0)) > 1e-6 * (sd + 1e-300))).any())


def preprocess(Xa, scaling):
    m = Xa.shape[1]
    if scaling < 0:
        return Xa.copy()
    E0 = Xa - Xa.mean(axis=0)
    for j in range(m):
        sc = c10.oracle_stats(list(Xa[:, j]), scaling)[1]
        E0[:, j] = 0.0 if abs(sc) < 1e-3 else E0[:, j] / sc
    return E0


def run(ck, rng, tier):
    thorough = tier == "thorough"
    ck.prove("Properties_C02")
    exe = vf.build_driver("drv_pca")
    lines, meta = [], []
    N = 40 if not thorough else 400
    for c in range(N):
        n, m = rng.randint(6, 40 if thorough else 24), rng.randint(2, 12 if thorough else 7)
        nproc = rng.choice((1, 1, 2, 3, 8, 16))
        if c < 6:      # every run: wide matrices seen by many threads (more threads than rows)
            n, m, nproc = rng.randint(4, 9), rng.randint(12, 22), rng.choice((8, 16))
        scaling = rng.choice((0, 0, 1, 2, 3, 4, 5, -1))
        mag = rng.choice((1.0, 1.0, 30.0, 0.05, 1e-3, 1e-5, 1e-6, 1e4)) if scaling in (0, -1) else rng.choice((1.0, 30.0, 0.05))
        X, s = gen_separated(rng, n, m, mag)
        if c == 6:
            # range scaling of columns lying entirely just above the missing-value code (ordinary numbers)
            scaling, mag = 4, 1.0
            X, s = gen_separated(rng, n, m, 1.0)
            X = X + 1.0000005e8
            ck.count("columns just above the missing-value code")
        elif c == 10:
            # a steep spectrum (singular values 1, 0.1, ..., 1e-7) and a first loading with one tiny but non-zero entry
            # (9e-7), seven components: every rank-one term has to be removed in full
            n, m, scaling, mag, nproc = 24, 8, 0, 1.0, 1
            v0 = np.array([rng.gauss(0, 1) for _ in range(m)]); v0[3] = 0.0; v0 = v0 / np.linalg.norm(v0) * math.sqrt(1 - 9e-7 ** 2); v0[3] = 9e-7
            Vb, _ = np.linalg.qr(np.column_stack([v0] + [np.array([rng.gauss(0, 1) for _ in range(m)]) for _ in range(m - 1)]))
            Vb = Vb * np.sign(Vb[3, 0] if Vb[3, 0] != 0 else 1.0)
            U_ = np.array([[rng.gauss(0, 1) for _ in range(m)] for _ in range(n)]); U_ = U_ - U_.mean(axis=0)
            Qb, _ = np.linalg.qr(U_)
            s = np.array([10.0 ** -k for k in range(m)])
            X = (Qb * s) @ Vb.T + np.array([0.5 + 0.37 * k for k in range(m)])
            ck.count("steep spectrum with a tiny loading entry")
        elif c == 9:
            # unscaled data in units of 1e100 (squares of the scores are still finite doubles)
            scaling, mag = 0, 1e100
            X, s = gen_separated(rng, n, m, 1.0)
            X, s = X * 1e100, s * 1e100
            ck.count("units of 1e100")
        elif c in (7, 8):
            # exactly uncorrelated variables of which the LAST has the largest variance: the leading component is that
            # variable itself, every other column is orthogonal to it
            scaling, mag, nproc = 0, 1.0, 1
            n = max(n, m + 3)
            Q_, _ = np.linalg.qr(np.array([[rng.gauss(0, 1) for _ in range(m)] for _ in range(n)]) - 0.0)
            Q_ = Q_ - Q_.mean(axis=0)
            Q_, _ = np.linalg.qr(Q_)
            s = np.array([2.0 ** k for k in range(m)])
            if c == 8 and m >= 3:      # ... or one in the middle dominant, followed by columns that still beat the first one
                s = np.array([2.0, 2.0 ** (m + 1)] + [2.0 ** (m - k) for k in range(m - 2)])
            X = Q_ * s
            s = np.sort(s)[::-1]
            ck.count("uncorrelated variables, last / a middle one dominant")
        elif c == 11:
            # integer-valued (designed) data with integer column means: cells that are bitwise equal to their column mean
            # (preprocessed value exactly 0.0), centring only, several components
            n, m, scaling, mag, nproc = 12, 4, 0, 1.0, 1
            for _try in range(50):
                cols_ = []
                for j in range(m):
                    v = [float(rng.randint(-3, 3)) for _ in range(n - 1)]
                    v.append(-sum(v))
                    cols_.append(np.array(v) * (9.0, 5.0, 3.0, 2.0)[j] + float(rng.randint(-4, 4)))
                X = np.column_stack(cols_)
                s = np.linalg.svd(X - X.mean(axis=0), compute_uv=False)
                if (s[1:] / s[:-1]).max() <= 0.85 and s[-1] > 0.05 * s[0] and ((X - X.mean(axis=0)) == 0.0).sum() >= 3:
                    break
            ck.count("designed integer data with cells equal to their column mean")
        elif c == 13:
            # autoscaling of columns of which one has a standard deviation below 1e-3 (zeroed by the preprocessing): the trace is
            # that of the remaining columns
            scaling, mag, nproc = 1, 1.0, 1
            n, m = rng.randint(10, 14), rng.randint(4, 6)
            X, s = gen_separated(rng, n, m, 1.0)
            j_ = rng.randrange(m)
            X[:, j_] = 3.0 + (X[:, j_] - X[:, j_].mean()) * (3e-4 / max(X[:, j_].std(ddof=1), 1e-300))
            ck.count("autoscaling with a column below the zero guard")
        elif c == 12:
            # autoscaling (and the other scalings) of columns of which ONE has a scale within 1e-3 of 1 but not 1 (standard
            # deviation / root mean square 1.0008): it is divided by its scale like every other column; retried until the
            # preprocessed matrix has a separated spectrum (the components are then judged)
            scaling, mag, nproc = rng.choice((1, 1, 2)), 1.0, 1
            n, m = rng.randint(8, 10), rng.randint(3, 5)
            for _try in range(200):
                X, s = gen_separated(rng, n, m, 1.0)
                j_ = rng.randrange(m)
                cj = X[:, j_] - X[:, j_].mean()
                if scaling == 1:
                    X[:, j_] = cj * (1.0008 / cj.std(ddof=1)) + rng.uniform(-2, 2)
                else:
                    X[:, j_] = (cj + 3.0) * (1.0008 / math.sqrt(((cj + 3.0) ** 2).mean()))
                for k_ in range(m):
                    if k_ != j_:
                        X[:, k_] = (X[:, k_] - X[:, k_].mean()) * rng.choice((3.0, 0.2, 7.5)) + rng.uniform(-2, 2)
                w_ = np.sort(np.linalg.eigvalsh(preprocess(X, scaling).T @ preprocess(X, scaling)))[::-1]
                if len(w_) >= 3 and w_[1] / w_[0] <= 0.35 and w_[2] / w_[1] <= 0.35:
                    break
            ck.count("one column scale within 1e-3 of 1")
        npc = rng.randint(1, min(3, len(s))) if c not in (10, 11, 12) else (7 if c == 10 else (3 if c == 11 else 2))
        # the property presumes rank >= number of components AFTER preprocessing (a column whose scale
        # falls inside the zero guard is dropped by the preprocessing; centring costs one rank)
        E0_ = preprocess(X, scaling)
        rk_ = int(np.linalg.matrix_rank(E0_, tol=1e-9 * max(1.0, np.abs(E0_).max()))) if np.abs(E0_).max() > 0 else 0
        if rk_ == 0:
            continue
        npc = min(npc, rk_)
        kind = rng.choice(("plain", "rowperm", "colperm", "rotate"))
        if kind == "rotate" and scaling not in (0,):
            kind = "plain"
        if scaling >= 0 and window_hit(X):
            ck.count("skipped: column sum inside the zero-sum window (known finding C10)")
            continue
        lines.append("pca %s %s %d %d %d" % (vf.fmt_mat(X.tolist(), m), vf.fmt_mat([X[0].tolist()], m), scaling, npc, nproc))
        meta.append(("base", X, scaling, npc, mag, kind))
        if kind == "rowperm":
            perm = list(range(n))
            rng.shuffle(perm)
            X2 = X[perm, :]
        elif kind == "colperm":
            perm = list(range(m))
            rng.shuffle(perm)
            X2 = X[:, perm]
        elif kind == "rotate":
            perm = rand_orth(rng, m)
            X2 = X @ perm
        else:
            perm, X2 = None, None
        if X2 is not None and scaling >= 0 and window_hit(X2):
            ck.count("skipped: column sum inside the zero-sum window (known finding C10)")
            X2 = None
        if X2 is not None:
            lines.append("pca %s %s %d %d %d" % (vf.fmt_mat(X2.tolist(), m), vf.fmt_mat([X2[0].tolist()], m), scaling, npc, nproc))
            meta.append((kind, X2, scaling, npc, mag, perm))
        ck.count("scaling %d" % scaling)
        ck.count("magnitude %g" % mag)
        ck.count("metamorphic %s" % kind)
    outs = vf.run_driver_cases(ck, exe, lines, lambda k: ("PCA", {"X": np.array(meta[k][1]).tolist(), "scaling": meta[k][2], "npc": meta[k][3]}),
                               header="cap 400000\n", timeout=1500)
    base = None
    for i, (mt, o) in enumerate(zip(meta, outs)):
        if o is None:
            continue
        nf_ = None if o.get("nonterminating") else vf.first_nonfinite(o)
        if nf_:
            # finite in-domain data: every stored result is a finite number (tolerance comparisons below are blind to NaN)
            ck.fail("PCA", "not_finite", "the output `%s` holds NaN/Inf" % nf_, {"case": str(mt)[:3000]})
            continue
        kind, X, scaling, npc, mag = mt[0], mt[1], mt[2], mt[3], mt[4]
        n, m = X.shape
        if o.get("nonterminating"):
            ck.fail("PCA", "nontermination_full_rank_request", "no return within the iteration cap", {"X": X.tolist(), "scaling": scaling, "npc": npc})
            base = None
            continue
        T, P, ve = np.array(o["scores"]), np.array(o["loadings"]), np.array(o["varexp"])
        if kind == "base":
            E0 = preprocess(X, scaling)
            w_ = np.sort(np.linalg.eigvalsh(E0.T @ E0))[::-1]
            sep = all(k + 1 >= len(w_) or w_[k + 1] / w_[k] <= 0.81 + 1e-9 for k in range(npc))
            base = (X, T, P, ve) if sep else None
            ck.case(("spectral", n, m, scaling, npc, mag, repr(X[0].tolist())),
                    sample={"shape": (n, m), "scaling": scaling, "npc": npc, "magnitude": mag, "inner_iterations": o["ticks"]} if i % 13 == 0 else None)
            E0 = preprocess(X, scaling)
            w, V = np.linalg.eigh(E0.T @ E0)
            order = np.argsort(-w)
            w, V = w[order], V[:, order]
            tr = w.sum()
            # the scores are the projections of the DOCUMENTED preprocessed data (independent computation) deflated by the model's own
            # earlier components: what is decomposed is the cross-product matrix the property names
            Ek_, nrm_ = E0.copy(), max(np.abs(E0).max(), 1e-300)
            for k in range(npc):
                if np.abs(Ek_ @ P[:, k] - T[:, k]).max() > 1e-7 * nrm_ * max(1, m):
                    ck.fail("PCA", "scores_not_projections_of_preprocessed_data", "component %d: max |t - E_k p| = %.3g for the documented preprocessing of option %d (shape %dx%d)"
                            % (k + 1, np.abs(Ek_ @ P[:, k] - T[:, k]).max(), scaling, n, m), {"X": X.tolist(), "scaling": scaling, "npc": npc})
                    break
                Ek_ = Ek_ - np.outer(T[:, k], P[:, k])
            # only components whose eigenvalue is separated from the next (ratio of singular values <= 0.9) are judged
            for k in range(npc):
                if k + 1 < len(w) and w[k + 1] / w[k] > 0.81 + 1e-9:
                    break
                if w[k] <= 1e-14 * tr:
                    break
                share = 100 * w[k] / tr
                cosang = abs(float(P[:, k] @ V[:, k]))
                # a component carrying less than 1e-12 of the trace is resolved less sharply (rounding of the larger ones)
                # accuracy implied by the stopping rule (squared relative score change < 1e-10) for a component whose eigenvalue ratio to
                # the next is <= 0.81: direction error <= 1e-5 / (1 - 0.81), i.e. 1 - |cos| <= 1.4e-9, explained variance to ~1e-7 points
                # stopping rule: sum (t - t_old)^2 / (n sum t^2) < 1e-10, i.e. a relative score change below sqrt(n 1e-10); with the
                # largest eigenvalue ratio r among the components judged so far the direction error of component k is bounded by
                # about (k+1) * that / (1 - r) (the errors of the earlier components are inherited through the deflation; factor 3
                # margin); judged on 1 - |cos| = angle^2 / 2, never below 2e-8
                r_ = max([(w[q + 1] / w[q]) for q in range(k + 1) if q + 1 < len(w)] or [0.0])
                angtol = 3.0 * (k + 1) * math.sqrt(n * 1e-10) / (1.0 - r_)
                costol = max(2e-8, angtol ** 2 / 2.0) * max(1.0, 1e-9 * tr / w[k])
                if abs(ve[k] - share) > 2e-3 or cosang < 1 - costol:
                    small = mag <= 0.05 and scaling in (0, -1)
                    ck.fail("PCA", "not_principal_axis_small_magnitude" if small else "not_principal_axis",
                            "component %d: explained variance %.6f (eigenvalue share %.6f), |cos(loading, eigenvector)| = %.10f; shape %dx%d scaling %d magnitude %g"
                            % (k + 1, ve[k], share, cosang, n, m, scaling, mag),
                            {"X": X.tolist(), "scaling": scaling, "npc": npc, "magnitude": mag})
                    break
        elif base is not None:
            X0, T0, P0, ve0 = base
            perm = mt[5]
            def close_up_to_sign(A, B, tol):
                for k in range(A.shape[1]):
                    if min(np.abs(A[:, k] - B[:, k]).max(), np.abs(A[:, k] + B[:, k]).max()) > tol * max(1e-300, np.abs(B[:, k]).max()):
                        return False
                return True
            ok = np.abs(ve - ve0).max() <= 1e-3
            if kind == "rowperm":
                ok = ok and close_up_to_sign(T, T0[perm, :], 2e-3) and close_up_to_sign(P, P0, 2e-3)
            elif kind == "colperm":
                ok = ok and close_up_to_sign(T, T0, 2e-3) and close_up_to_sign(P, P0[perm, :], 2e-3)
            else:
                ok = ok and close_up_to_sign(T, T0, 2e-3) and close_up_to_sign(P, perm.T @ P0, 2e-3)
            ck.case(("equivariance", kind, n, m, scaling, repr(X[0].tolist())))
            if not ok:
                small = mag <= 0.05 and scaling in (0, -1)
                ck.fail("PCA", ("equivariance_" + kind) + ("_small_magnitude" if small else ""),
                        "%s of the data does not map scores/loadings/variances accordingly (shape %dx%d, scaling %d, magnitude %g)" % (kind, n, m, scaling, mag),
                        {"X": X0.tolist(), "kind": kind, "scaling": scaling, "npc": npc})
    ck.cov["traces_validated_against_impl"] = len(meta)
    ck.cov["rule"] = ("X = U diag(s) V' + offsets, random orthogonal U,V, singular-value ratios in [0.35,0.85], magnitudes 1e-3..30, all scaling options; "
                      "each base case optionally re-run after a row permutation / column permutation / orthogonal rotation; oracle: numpy.linalg.eigh of E0'E0")
    ck.cov["correspondence_note"] = "the binary64 model of PCA is compared with the library in check C01 (same driver, same model)"
    ck.assumptions += ["tolerances: |varexp - eigenvalue share| <= 0.05 (percent), |cos| >= 1 - 1e-5, equivariance 2e-3 relative (criterion 1e-10*n on squared score change with eigenvalue ratio <= 0.72 implies about 1e-4) — two orders of magnitude above the a-posteriori bound of C02_residual_bound for these gaps",
                       "numpy/LAPACK eigh as the independent eigen-solver"]


def replay(ck, rp):
    return 1
