"""C16 — a saved model reads back equal to the model last written, whatever came before."""
import glob, math, os
import numpy as np
import vf
from props import c02

IMPORTS = """From Coq Require Import Floats String.
From mathcomp Require Import ssreflect ssrfun ssrbool eqtype ssrnat seq.
From LS Require Import NumOps F64Ops IoModel.
Local Open Scope float_scope.
Local Open Scope string_scope.
"""
DEFS = """(* |a - b| <= 1e-15 * max(1, |a|) *)
Definition num_ok (a b : float) := f_agree 0x1.203af9ee75616p-50 1 a b.
Fixpoint rows_ok (a b : seq float) := match a, b with [::], [::] => true | x :: a', y :: b' => num_ok x y && rows_ok a' b' | _, _ => false end.
Definition tables_ok (d : db float) (expect : seq (string * seq float)) : bool :=
  all (fun kv => rows_ok (read_table kv.1 d) kv.2) expect.
"""
PCA_FIELDS = ["colaverage", "colscaling", "varexp", "scores", "loadings"]
PLS_V = ["xcolscaling", "xcolaverage", "ycolscaling", "ycolaverage", "xvarexp", "b"]
PLS_M = ["xscores", "xloadings", "xweights", "yscores", "yloadings", "recalculated_y", "recalc_residuals", "predicted_y", "pred_residuals",
         "r2y_recalculated", "r2y_validation", "q2y", "sdep", "sdec", "bias", "yscrambling",
         "roc_auc_recalculated", "roc_auc_validation", "precision_recall_ap_recalculated", "precision_recall_ap_validation"]
PLS_T = ["roc_recalculated", "roc_validation", "precision_recall_recalculated", "precision_recall_validation"]


def ser_matrix(M, shape):
    return [float(shape[0]), float(shape[1])] + [x for r in M for x in r]


def fields_of(kind, o, pre):
    """-> dict table -> (serialised rows, shape descriptor) from driver output with prefix pre"""
    out = {}
    if kind == "pca":
        for f in ("colaverage", "colscaling", "varexp"):
            out[f] = list(o["%s.%s" % (pre, f)])
        for f in ("scores", "loadings", "dmodx"):
            out[f] = ser_matrix(o["%s.%s" % (pre, f)], o["%s.%s.shape" % (pre, f)])
    elif kind == "pls":
        for f in PLS_V:
            out[f] = list(o["%s.%s" % (pre, f)])
        for f in PLS_M:
            out[f] = ser_matrix(o["%s.%s" % (pre, f)], o["%s.%s.shape" % (pre, f)])
        for f in PLS_T:
            k = o["%s.%s.order" % (pre, f)]
            s = [float(k)]
            for j in range(k):
                s += ser_matrix(o["%s.%s.%d" % (pre, f, j)], o["%s.%s.%d.shape" % (pre, f, j)])
            out[f] = s
    else:
        for f in ("scaling_factor", "total_expvar"):
            out[f] = list(o["%s.%s" % (pre, f)])
        for f in ("super_scores", "super_weights"):
            out[f] = ser_matrix(o["%s.%s" % (pre, f)], o["%s.%s.shape" % (pre, f)])
        for f in ("block_scores", "block_loadings"):
            k = o["%s.%s.order" % (pre, f)]
            s = [float(k)]
            for j in range(k):
                s += ser_matrix(o["%s.%s.%d" % (pre, f, j)], o["%s.%s.%d.shape" % (pre, f, j)])
            out[f] = s
        for f, cnt in (("block_expvar", "n_block_expvar"), ("colaverage", "n_colaverage"), ("colscaling", "n_colaverage")):
            s = []
            for j in range(o["%s.%s" % (pre, cnt)]):
                v = o["%s.%s.%d" % (pre, f, j)]
                s += [float(len(v))] + list(v)
            out[f] = s
    return out


def coq_model(d, skip=()):
    return "[:: " + "; ".join('("%s", %s)' % (k, vf.coq_vec(v)) for k, v in d.items() if k not in skip) + "]"


def run(ck, rng, tier):
    thorough = tier == "thorough"
    ck.prove("Properties_C16")
    exe = vf.build_driver("drv_io")
    iodir = os.path.join(vf.CACHE, "io")
    os.makedirs(iodir, exist_ok=True)
    for f in glob.glob(os.path.join(iodir, "*")):
        os.remove(f)
    lines, meta = [], []
    nh = 14 if not thorough else 120
    for hno in range(nh):
        paths = [os.path.join(iodir, "h%d_%d.sqlite3" % (hno, k)) for k in range(rng.randint(1, 2))]
        L = rng.randint(1, 5) if hno > 1 else 1
        kinds_on = {}
        for step in range(L):
            p = rng.choice(paths)
            kind = kinds_on.get(p) if (p in kinds_on and rng.random() < 0.6) else rng.choice(("pca", "pca", "pls", "cpca"))
            kinds_on[p] = kind
            mag = 10 ** rng.choice((-9, -3, 0, 0, 3, 9))
            n, m = rng.randint(3, 9), rng.randint(1, 4)
            X = (np.array([[rng.gauss(0, 1) for _ in range(m)] for _ in range(n)]) * mag)
            if hno == 0 and step == 0:
                # a stored number NEXT TO the missing-value code: the first column average is 99999999.05 (no data cell is
                # inside the +-0.1 window of the code)
                kind, mag = "pca", 1.0
                kinds_on[p] = kind
                n = 2 * (n // 2) + 2
                dev = [rng.choice((-1, 1)) * rng.randint(4, 24) / 8.0 for _ in range(n // 2)]
                X = np.array([[rng.gauss(0, 1) for _ in range(m)] for _ in range(n)])
                X[:, 0] = 99999999.05 + np.array(dev + [-d for d in dev])
            if hno == 1 and step == 0:
                # the smallest model: one variable, one response, one latent variable (1 x 1 tables)
                kind, mag, m, n = "pls", 1.0, 1, 6     # (6 objects: the first discriminant-analysis table stays empty while later ones are filled)
                kinds_on[p] = kind
                X = np.array([[rng.gauss(0, 1)] for _ in range(n)])
            unit_ends = hno == 2 and step == 0
            if unit_ends:
                # autoscaled model whose FIRST and LAST stored scaling factors are exactly 1.0 (small-integer columns with unit
                # sample standard deviation) while the inner ones are ordinary numbers
                kind, mag, n, m = "pca", 1.0, 5, rng.randint(3, 4)
                kinds_on[p] = kind
                X = np.array([[rng.gauss(0, 1) * (3.6, 2500.0)[j % 2] for j in range(m)] for _ in range(n)])
                X[:, 0] = np.array([1.0, 1, 2, 3, 3])[rng.sample(range(5), 5)] + float(rng.randint(-3, 3))
                X[:, m - 1] = np.array([10.0, 12, 11, 10, 12])[rng.sample(range(5), 5)]
            big_cpca = hno == 4 and step == 0
            if big_cpca:
                # CPCA with few blocks and as many components as the smaller block has variables (6 and 5 columns, 5 components):
                # the list of column averages is SHORTER than the list of block explained variances
                kind, mag, n, m = "cpca", 1.0, 9, 6
                kinds_on[p] = kind
                X = np.array([[rng.gauss(0, 1) * (1 + 0.4 * j) for j in range(m)] for _ in range(n)])
            if hno == 3 and step == 0:
                # a model whose score table holds more than 500 numbers (60 objects, 10 components)
                kind, mag, n, m = "pca", 1.0, 60, 12
                kinds_on[p] = kind
                X = np.array([[rng.gauss(0, 1) * (1 + 0.3 * j) for j in range(m)] for _ in range(n)])
            if kind == "pca":
                sc = rng.choice((0, 1)) if 1e-2 <= mag <= 1e3 else 0
                if unit_ends:
                    sc = 1
                rk = int(np.linalg.matrix_rank(c02.preprocess(X, sc)))
                npc = rng.randint(1, max(1, rk))
                if hno == 3 and step == 0:
                    npc = 10
                Xn = X[:2] * 0.5
                lines.append("write pca %s %s %s %d %d" % (p, vf.fmt_mat(X.tolist(), m), vf.fmt_mat(Xn.tolist(), m), sc, npc))
            elif kind == "pls":
                Y = X @ np.array([[rng.gauss(0, 1)] for _ in range(m)]) + mag * 0.1 * np.array([[rng.gauss(0, 1)] for _ in range(n)])
                lines.append("write pls %s %s %s 0 0 %d" % (p, vf.fmt_mat(X.tolist(), m), vf.fmt_mat(Y.tolist(), 1), rng.randint(1, m)))
            else:
                X2 = np.array([[rng.gauss(0, 1) for _ in range(5 if big_cpca else 2)] for _ in range(n)]) * mag
                lines.append("write cpca %s %s 0 %d" % (p, vf.fmt_tensor([X.tolist(), X2.tolist()]), 5 if big_cpca else 1))
            meta.append(("write", hno, p, kind))
            if rng.random() < 0.5 or step == L - 1:
                lines.append("read %s %s" % (kind, p))
                meta.append(("read", hno, p, kind))
        ck.count("history length %d" % L)
    rc, outs, err = vf.run_driver(exe, "\n".join(lines) + "\n", timeout=900)
    if rc != 0 or len(outs) != len(meta):
        k = len(outs)
        what = meta[k] if k < len(meta) else None
        ck.fail("io", "crash", "driver aborted (rc %s) at operation %s: %s" % (rc, what, err.strip().splitlines()[-1] if err.strip() else ""), {"op": str(what)})
        outs = outs[:min(len(outs), len(meta))]
    checks = vf.Checks()
    last = {}
    hist = {}
    maxcodec = 0.0
    for i, (mt, o) in enumerate(zip(meta, outs)):
        op, hno, p, kind = mt
        if op == "write":
            w = fields_of(kind, o, "w")
            w2 = fields_of(kind, o, "w2")
            ck.case(("write", hno, kind, repr(w.get("colaverage", w.get("xcolaverage")))[:80]), sample={"op": "write", "kind": kind, "path": os.path.basename(p), "history": hno} if i % 9 == 0 else None)
            if w != w2:
                ck.fail("Write" + kind.upper(), "modifies_model", "writing changed the in-memory model", {"kind": kind})
            if kind == "pca" and "pred_r" in o and "pred_w" in o:
                a, b = np.array(o["pred_w"]), np.array(o["pred_r"])
                if a.shape != b.shape or np.abs(a - b).max() > 1e-9 * max(1.0, np.abs(a).max()):
                    ck.fail("ReadPCA", "predictions_differ", "the model read back predicts scores differing from the saved model's", {"path": p})
            last[p] = (kind, w)
            hist.setdefault(hno, []).append((p, w))
        else:
            ck.case(("read", hno, kind, i), sample={"op": "read", "kind": kind, "path": os.path.basename(p), "history": hno, "writes_before": len(hist.get(hno, []))} if i % 9 == 0 else None)
            if p not in last:
                continue
            lk, w = last[p]
            r = fields_of(kind, o, "r")
            nwrites = sum(1 for (pp, _) in hist[hno] if pp == p)
            # correspondence: the table-store model of the file (drops executed) predicts what is read
            skip = ("dmodx",)
            h = "[:: " + "; ".join('("%s", %s)' % (os.path.basename(pp), coq_model(ww, skip)) for pp, ww in hist[hno]) + "]"
            checks.add(i, "read", 'tables_ok (read_file "%s" (run_history true %s)) %s' % (os.path.basename(p), h, coq_model(r, skip)))
            bad = None
            for f, rows in w.items():
                got = r.get(f)
                if got is None:
                    continue
                if f == "dmodx":
                    if len(got) != len(rows):
                        ck.fail("WritePCA", "field_not_persisted_dmodx", "PCAMODEL.dmodx is not written to the file: read back %d numbers, the saved model holds %d" % (len(got) - 2, len(rows) - 2), {"path": p})
                    continue
                if len(got) != len(rows):
                    bad = ("dimensions", "field %s read back with %d numbers, the model last written holds %d (%d writes to this path before the read)" % (f, len(got), len(rows), nwrites))
                    break
                for a, b in zip(rows, got):
                    if a == a and abs(a - b) > 1e-15 * max(1.0, abs(a)):
                        bad = ("value", "field %s: %r read back as %r" % (f, a, b))
                        break
                    if a == a:
                        maxcodec = max(maxcodec, abs(a - b) / max(1.0, abs(a)))
                if bad:
                    break
            if bad:
                cls = bad[0] + ("_after_rewrite" if nwrites >= 2 else "")
                ck.fail("Read" + kind.upper(), cls, bad[1], {"path": p, "history": [(os.path.basename(pp), {k: len(v) for k, v in ww.items()}) for pp, ww in hist[hno]]})
    failing, logs, cerr = vf.run_cases_v("c16", IMPORTS, DEFS, checks.items, shard=10)
    if cerr:
        ck.broken("correspondence:coq-eval", cerr)
    for cid in sorted(set(failing)):
        case, label = checks.where[cid]
        ck.broken("correspondence:read case %d (%s)" % (case, meta[case][3]), "table-store model (tables dropped before each write) and the file read back disagree")
    ck.cov["model_checks_evaluated_in_coq"] = len(checks.items)
    ck.cov["traces_validated_against_impl"] = len(meta)
    ck.cov["codec_max_relative_error_measured"] = maxcodec
    ck.cov["rule"] = "write/read histories of length 1..5 over 1..2 paths mixing PCA, PLS and CPCA models of different sizes fitted on random data with magnitudes 1e-9..1e9; distinct by full history"
    ck.assumptions += ["SQLite is a table store; printf %.18f + SQLite's decimal parser is an abstract codec whose error is measured per run (bound 1e-15*max(1,|v|))"]
    for f in glob.glob(os.path.join(iodir, "*")):
        os.remove(f)


def replay(ck, rp):
    return 1
