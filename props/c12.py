"""C12 — linear solvers, inverses and factorisations satisfy their defining equations."""
import math
import numpy as np
import vf

IMPORTS = """From Coq Require Import Floats ZArith.
From mathcomp Require Import ssreflect ssrfun ssrbool eqtype ssrnat seq.
From LS Require Import NumOps F64Ops Kernels Algebra Lse Mlr.
Local Open Scope float_scope.
"""
DEFS = """Definition REL := 0x1p-36.
Definition mchk (a b : seq (seq float)) := m_agree REL (mmax b) a b.
Definition vchk (a b : seq float) := v_agree REL (vmax b) a b.
Definition fchk (a b : float) := f_agree REL 0 a b.
(* SolveLSE: the executable model from the three solution vectors the driver passes (fresh, right size holding
   7.5(q+1)-3.25, two too long) against the three vectors the library returned *)
Definition lse_ok (Ab : seq (seq float)) (s1 : seq float) (r0 r1 r2 : seq float) :=
  [&& vchk (solve_lse Ab [::]) r0, vchk (solve_lse Ab s1) r1 & vchk (solve_lse Ab (s1 ++ [:: 0; 0])) r2].
"""


def structured(rng, n, kind, cond):
    if kind == "perm":
        p = list(range(n)); rng.shuffle(p)
        M = np.zeros((n, n))
        for i, j in enumerate(p):
            M[i, j] = rng.choice((1.0, -2.0, 0.5))
        return M
    if kind == "diag":
        return np.diag([rng.choice((-1, 1)) * rng.uniform(0.5, 5) for _ in range(n)])
    if kind == "tri":
        M = np.triu(np.array([[rng.gauss(0, 1) for _ in range(n)] for _ in range(n)]))
        for i in range(n):
            M[i, i] = rng.choice((-1, 1)) * rng.uniform(1, 3)
        return M
    U, _ = np.linalg.qr(np.array([[rng.gauss(0, 1) for _ in range(n)] for _ in range(n)]))
    V, _ = np.linalg.qr(np.array([[rng.gauss(0, 1) for _ in range(n)] for _ in range(n)]))
    s = np.logspace(0, -math.log10(cond), n) if n > 1 else np.array([1.0])
    if kind == "spd":
        return (U * s) @ U.T
    M = (U * s) @ V.T
    if kind == "zero_lead" and n >= 2:
        M[0, 0] = 0.0
        if n >= 3:
            M[1, 1] = M[1, 0] * M[0, 1] / M[0, 0] if M[0, 0] != 0 else M[1, 1]
    return M


def run(ck, rng, tier):
    thorough = tier == "thorough"
    ck.prove("Properties_C12")
    exe = vf.build_driver("drv_alg")
    lines, meta = [], []
    for c in range(70 if not thorough else 700):
        n = rng.randint(1, 12)
        kind = rng.choice(("general", "general", "perm", "zero_lead", "tri", "spd", "diag"))
        cond = rng.choice((1.0, 10.0, 1e3, 1e6)) if kind in ("general", "spd", "zero_lead") else 1.0
        M = structured(rng, n, kind, cond)
        if c % 9 == 4 and n >= 2:
            # small but non-zero entries: a well-conditioned matrix with one row / one diagonal entry in small units
            kind, cond = "small_entries", 10.0
            n = min(n, 7)
            M = structured(rng, n, rng.choice(("general", "diag")), 10.0)
            M[rng.randrange(n), :] *= rng.choice((5e-5, 2e-5))
        lse_only = False
        if c % 9 == 6 and n >= 2:
            # linear systems in small units (every entry ~1e-5) or with a small leading entry that is a perfectly good pivot
            lse_only = True
            if rng.random() < 0.5:
                kind, cond = "small_units", 10.0
                M = structured(rng, n, "general", 10.0) * rng.choice((1e-5, 3e-6))
            else:
                kind, cond = "small_pivot", 10.0
                M = structured(rng, n, "general", 10.0)
                M[0, 0] = rng.choice((-1, 1)) * rng.choice((5e-4, 2e-4, 9e-4))
        if c % 9 == 2 and n >= 2:
            # a system in extremely small units (1e-170) whose leading entry is zero: a row exchange is needed, squares of the
            # entries underflow
            lse_only, kind, cond = True, "tiny_units_zero_lead", 10.0
            M = structured(rng, n, "zero_lead", 10.0) * 1e-170
        if c == 0:
            n, kind, cond, lse_only = 1, "general", 1.0, False
            M = np.array([[rng.choice((-2.5, 3.0, 0.75))]])
        if (abs(np.linalg.det(M)) < 1e-12 and not lse_only) or np.linalg.cond(M) > 1e7:
            continue
        if not lse_only:
            lines.append("square %s" % vf.fmt_mat(M.tolist(), n)); meta.append(("square", M, kind, cond))
        x = np.array([rng.uniform(-3, 3) for _ in range(n)])
        Ab = np.hstack([M, (M @ x).reshape(-1, 1)])
        lines.append("lse %s" % vf.fmt_mat(Ab.tolist(), n + 1)); meta.append(("lse", M, x, kind, cond))
        ck.count("kind %s" % kind)
    # small-integer systems in which the elimination produces an EXACT zero on the diagonal of a row that is not the pivot row
    # (exact cancellation, or a structural zero carried there by a row exchange)
    for M_ in ([[2.0, 1, 1], [2, 3, 2], [2, 2, 1]], [[4.0, 3, 0], [1, 5, 7], [2, 0, 0]], [[1.0, 2, 3, 4], [1, 2, 5, 1], [2, 1, 0, 3], [3, 5, 8, 6]]):
        M = np.array(M_); x = np.array([float(q + 1) for q in range(len(M_))])
        Ab = np.hstack([M, (M @ x).reshape(-1, 1)])
        lines.append("lse %s" % vf.fmt_mat(Ab.tolist(), len(M_) + 1)); meta.append(("lse", M, x, "integer_cancellation", float(np.linalg.cond(M))))
    for c in range(25 if not thorough else 250):
        n = rng.randint(2, 12)
        S = structured(rng, n, "general", 10.0)
        S = (S + S.T) / 2
        lines.append("eig %s" % vf.fmt_mat(S.tolist(), n)); meta.append(("eig", S))
        r, cc = rng.randint(1, 12), rng.randint(1, 12)
        A = np.array([[rng.gauss(0, 1) for _ in range(cc)] for _ in range(r)])
        lines.append("svd %s" % vf.fmt_mat(A.tolist(), cc)); meta.append(("svd", A))
        p = rng.randint(1, 6); q = rng.randint(p, 12)
        T = np.array([[rng.gauss(0, 1) for _ in range(p)] for _ in range(q)])
        lines.append("pinv %s" % vf.fmt_mat(T.tolist(), p)); meta.append(("pinv", T))
        y = np.array([rng.gauss(0, 1) for _ in range(q)])
        lines.append("ols %s %s" % (vf.fmt_mat(T.tolist(), p), vf.fmt_vec(y.tolist()))); meta.append(("ols", T, y))
    rc, outs, err = vf.run_driver(exe, "\n".join(lines) + "\n", env={"ASAN_OPTIONS": "detect_leaks=0"})
    if rc != 0 or len(outs) != len(meta):
        ck.broken("driver drv_alg", "rc=%s cases=%d/%d %s" % (rc, len(outs), len(meta), err[-800:]))
        return
    for op_ in ("square", "ols", "pinv", "eig", "svd"):
        sel_ = [k for k in range(len(meta)) if meta[k][0] == op_]
        vf.reuse_scan(ck, "drv_alg:" + op_, [outs[k] for k in sel_], lambda j, sel_=sel_: {"op": op_, "matrix": np.array(meta[sel_[j]][1]).tolist()})
    # the LAPACK glue under AddressSanitizer/UBSan (rectangular inputs in both orientations)
    exa = vf.build_driver("drv_alg", "asan")
    svd_lines = [l for l in lines if l.startswith(("svd", "pinv", "eig"))]
    rca, outsa, erra = vf.run_driver(exa, "\n".join(svd_lines) + "\n")
    ck.cov["sanitizer_cases"] = len(svd_lines)
    if rca != 0:
        k = len(outsa)
        ck.fail("SVDlapack" if svd_lines[k].startswith("svd") else svd_lines[k].split()[0], "memory_error",
                "sanitizer report: %s" % (erra.strip().splitlines()[1] if len(erra.strip().splitlines()) > 1 else erra[:200]), {"input": svd_lines[k]})
    checks = vf.Checks()
    cm, cv = vf.coq_mat, vf.coq_vec
    for i, (mt, o) in enumerate(zip(meta, outs)):
        kind = mt[0]
        if kind == "square":
            _, M, skind, cond = mt
            n = M.shape[0]
            ck.case(("square", n, skind, cond, repr(M[0].tolist())), sample={"n": n, "kind": skind, "cond": cond} if i % 23 == 0 else None)
            if cond <= 1e3:
                checks.add(i, "gj_inverse", "mchk (gj_inverse %s) %s" % (cm(M.tolist()), cm(o["gj_inverse"])))
                if "det" in o and n <= 6:
                    checks.add(i, "det", "fchk (mdet %s) %s" % (cm(M.tolist()), vf.coq_f(o["det"])))
            I = np.eye(n)
            tol = 1e-10 * cond * max(1, n)
            for nm, site in (("gj_inverse", "MatrixInversion"), ("lu_inverse", "MatrixLUInversion")):
                Inv = np.array(o[nm])
                if not np.isfinite(Inv).all() or np.abs(M @ Inv - I).max() > tol:
                    zero_lead = any(abs(np.linalg.det(M[:k, :k])) < 1e-12 for k in range(1, n + 1))
                    ck.fail(site, "zero_leading_minor" if (zero_lead and nm == "gj_inverse") else "not_inverse",
                            "%s: M * M^-1 differs from I by %s (n=%d, %s, cond %g)" % (site, "NaN" if not np.isfinite(Inv).all() else "%.3g" % np.abs(M @ Inv - I).max(), n, skind, cond),
                            {"M": M.tolist()})
            if "det" in o:
                d = np.linalg.det(M)   # LU-based (independent)
                hadamard = float(np.prod(np.linalg.norm(M, axis=1)))
                if abs(o["det"] - d) > 1e-9 * cond * abs(d) * 10 + 1e-12 * hadamard:
                    ck.fail("MatrixDeterminant", "det_value", "determinant %.12g vs product of LU pivots %.12g" % (o["det"], d), {"M": M.tolist()})
        elif kind == "lse":
            _, M, x, skind, cond = mt
            ck.case(("lse", M.shape[0], skind, repr(M[0].tolist())))
            b_ = M @ x
            kM = float(np.linalg.cond(M))
            if M.shape[0] <= 8 and kM <= 1e3 and all(k_ in o for k_ in ("solution", "solution_reused", "solution_resized")):
                Ab_ = np.hstack([M, b_.reshape(-1, 1)]).tolist()
                s1_ = [7.5 * (q + 1) - 3.25 for q in range(M.shape[0])]
                checks.add(i, "solve_lse", "lse_ok %s %s %s %s %s" % (cm(Ab_), cv(s1_), cv(o["solution"]), cv(o["solution_reused"]), cv(o["solution_resized"])))
            # every non-singular system of the quantified domain (condition <= 1e6, any units): small residual (backward
            # stability) and a solution within condition x rounding of the exact one; the same whatever the solution
            # vector held before the call
            for which in ("solution", "solution_reused", "solution_resized"):
                sol = np.array(o[which])
                fin = sol.shape == x.shape and np.isfinite(sol).all()
                res = np.abs(M @ sol - b_).max() if fin else float("nan")
                err_ = np.abs(sol - x).max() if fin else float("nan")
                if not fin or res > 1e-9 * (np.abs(M).max() * max(1.0, np.abs(sol).max()) * M.shape[0] + np.abs(b_).max()) or err_ > 1e-11 * max(kM, 10.0) * M.shape[0] * max(1.0, np.abs(x).max()):
                    ck.fail("SolveLSE", "not_solution_" + skind + ("" if which == "solution" else "_" + which.split("_")[1]),
                            "A x != b: max residual %.3g, max error %.3g (n=%d, %s, condition %.3g%s)" % (res, err_, M.shape[0], skind, kM, "" if which == "solution" else "; solution vector holding numbers before the call"),
                            {"A": M.tolist(), "b": b_.tolist()})
                    break
        elif kind == "eig":
            S = mt[1]
            n = S.shape[0]
            ck.case(("eig", n, repr(S[0].tolist())))
            ev, V = np.array(o["eval"]), np.array(o["evect"])
            if ev.shape != (n,) or V.shape != (n, n) or np.abs(S @ V - V * ev).max() > 1e-9 * max(1.0, np.abs(S).max()):
                ck.fail("EVectEval", "not_eigenpair", "A v != lambda v on a symmetric matrix", {"A": S.tolist()})
        elif kind == "svd":
            A = mt[1]
            r, c_ = A.shape
            ck.case(("svd", r, c_, repr(A[0].tolist())))
            U, Sg, Vt = np.array(o["u"]), np.array(o["s"]), np.array(o["vt"])
            ok = True
            try:
                ok = (np.diag(Sg) >= -1e-12).all() and np.abs(U @ Sg @ Vt - A).max() <= 1e-9 * max(1.0, np.abs(A).max())
            except Exception:
                ok = False
            if not ok:
                ck.fail("SVDlapack", "rectangular" if r != c_ else "square", "U S V' does not multiply back to the %dx%d input (shapes %s %s %s)" % (r, c_, U.shape, Sg.shape, Vt.shape), {"A": A.tolist()})
        elif kind == "pinv":
            T = mt[1]
            ck.case(("pinv", T.shape, repr(T[0].tolist())))
            Pm = np.array(o["pinv"])
            t = 1e-7 * max(1.0, np.linalg.cond(T) ** 2)
            ok = Pm.shape == (T.shape[1], T.shape[0])
            if ok:
                ok = (np.abs(T @ Pm @ T - T).max() <= t and np.abs(Pm @ T @ Pm - Pm).max() <= t * max(1, np.abs(Pm).max()) and
                      np.abs((T @ Pm).T - T @ Pm).max() <= t and np.abs((Pm @ T).T - Pm @ T).max() <= t)
            if ok and T.shape[0] * T.shape[1] <= 80 and np.linalg.cond(T) <= 1e3:
                checks.add(i, "pinv", "mchk (pinv %d %d %s) %s" % (T.shape[0], T.shape[1], cm(T.tolist()), cm(o["pinv"])))
            if not ok:
                ck.fail("MatrixMoorePenrosePseudoinverse", "penrose", "Penrose conditions violated for a %dx%d full-column-rank matrix" % T.shape, {"A": T.tolist()})
        elif kind == "ols":
            T, y = mt[1], mt[2]
            ck.case(("ols", T.shape, repr(T[0].tolist())))
            cf = np.array(o["coef"])
            ref, *_ = np.linalg.lstsq(T, y, rcond=None)
            if np.abs(cf - ref).max() > 1e-7 * np.linalg.cond(T) ** 2 * max(1.0, np.abs(ref).max()):
                ck.fail("OrdinaryLeastSquares", "not_least_squares", "coefficients differ from the least-squares solution", {"Z": T.tolist(), "y": y.tolist()})
            if np.linalg.cond(T) < 50:
                checks.add(i, "ols", "vchk (ols %s %s) %s" % (cm(T.tolist()), cv(y.tolist()), cv(o["coef"])))
    failing, logs, cerr = vf.run_cases_v("c12", IMPORTS, DEFS, checks.items, shard=40)
    if cerr:
        ck.broken("correspondence:coq-eval", cerr)
    for cid in sorted(set(failing)):
        case, label = checks.where[cid]
        ck.broken("correspondence:%s case %d (%s)" % (label, case, str(meta[case][2:4])), "model (F64 instance) and implementation disagree")
    ck.cov["model_checks_evaluated_in_coq"] = len(checks.items)
    ck.cov["traces_validated_against_impl"] = len(meta)
    ck.cov["rule"] = "sizes 1..12; structured families: permutation, zero leading entry, triangular, SPD, diagonal, general with condition 1..1e6; rectangular SVD both orientations; oracle numpy (LU determinant, lstsq)"
    ck.assumptions += ["LAPACK (dgetrf/dgetri/dgesdd/dgeev) is an oracle with its documented contract; the glue around it is checked through the defining equations",
                       "SolveLSE: model vs library on systems of condition <= 1e3 (binary64 agreement 2^-36 relative); the defining equation on every generated system"]


def replay(ck, rp):
    return 1
