"""C03 — PLS structural identities; also hosts the shared PLS runner used by C04."""
import math
import numpy as np
import vf
from props import c10, c02

IMPORTS = """From Coq Require Import Floats ZArith.
From mathcomp Require Import ssreflect ssrfun ssrbool eqtype ssrnat seq.
From LS Require Import NumOps F64Ops Kernels Preprocess Pca Pls.
Local Open Scope float_scope.
"""
DEFS = """Definition REL := 0x1p-38.
Definition mchk (a b : seq (seq float)) := m_agree REL (mmax b) a b.
Definition vchk (a b : seq float) := v_agree REL (vmax b) a b.
Definition pls_ok (xs ys : Z) (nlv : nat) (X Y : seq (seq float)) (T U P W Q : seq (seq float)) (b xve : seq float)
    (rec res : seq (seq float)) (ticks : nat) : bool :=
  match pls_fit 100000 xs ys nlv X Y with
  | Ok M => [&& mchk (pl_T M) T, mchk (pl_U M) U, mchk (pl_P M) P, mchk (pl_W M) W, mchk (pl_Q M) Q, vchk (pl_b M) b,
                vchk (pl_xvarexp M) xve, mchk (pl_recalc M) rec, mchk (pl_resid M) res & sumn (pl_iters M) == ticks]
  | Err _ => false end.
"""


def cols(M):
    return [list(c) for c in zip(*M)] if M else []


def gen_xy(rng, n, m, ny, noise):
    X = np.array([[rng.gauss(0, 1) for _ in range(m)] for _ in range(n)])
    X = X * np.array([rng.choice((0.3, 1.0, 5.0)) for _ in range(m)]) + np.array([rng.choice((0.0, rng.uniform(-20, 20))) for _ in range(m)])
    B = np.array([[rng.gauss(0, 1) for _ in range(ny)] for _ in range(m)])
    Y = X @ B
    if ny > 1 and rng.random() < 0.5:       # correlated, differently scaled responses
        Y[:, 1] = Y[:, 0] * rng.uniform(0.5, 2) + 0.3 * Y[:, 1]
    Y = Y * np.array([rng.choice((1.0, 1.0, 100.0, 0.1)) for _ in range(ny)])
    sdy = Y.std(axis=0) + 1e-12
    Y = Y + noise * sdy * np.array([[rng.gauss(0, 1) for _ in range(ny)] for _ in range(n)])
    Y = Y + np.array([rng.choice((0.0, rng.uniform(-50, 50))) for _ in range(ny)])
    return X, Y


def run_pls(ck, rng, tier, which):
    thorough = tier == "thorough"
    exe = vf.build_driver("drv_pls")
    lines, meta = [], []
    N = 50 if not thorough else 500
    for c in range(N):
        n = rng.randint(6, 40 if thorough else 22)
        m = rng.randint(1, min(12 if thorough else 6, n - 2))
        ny = rng.randint(1, 4 if which == "C03" else 3)
        xs, ys = rng.choice((-1, 0, 1, 2, 3, 4, 5)), rng.choice((-1, 0, 0, 1, 2, 3, 4, 5))
        noise = rng.choice((0.0, 0.05, 0.5, 3.0))
        X, Y = gen_xy(rng, n, m, ny, noise)
        # corners of the domain that random unit-scale data never reach: descriptors / responses in
        # small units (with no or centring-only scaling nothing rescales them) and nearly collinear descriptors
        corner = c % 8
        if corner == 1:
            X, xs = X * 1e-6, rng.choice((-1, 0))
        elif corner == 2 and m >= 2:
            X[:, 1] = X[:, 0] + 1e-3 * X[:, 0].std() * np.array([rng.gauss(0, 1) for _ in range(n)])
        elif corner == 3:
            X[:, 0], xs = X[:, 0] * (1e-6 if c % 16 == 11 else 1e-4), rng.choice((-1, 0))
        elif corner == 4:
            Y, ys = (Y - Y.mean(axis=0)) * 1e-3 / (np.abs(Y - Y.mean(axis=0)).max() + 1e-300) + Y.mean(axis=0) * 1e-3, rng.choice((-1, 0))
        elif corner == 6 and c < 16:
            n, m, ny = rng.randint(12, 18), 7, 1
            X, Y = gen_xy(rng, n, m, ny, noise)
        elif corner == 7:
            # finite data of extreme magnitude with no or centring-only scaling: the squares of single entries are finite doubles, the
            # squares of whole cross-products are not
            if ny >= 2:
                X, Y, xs, ys = X * 1e80, Y * 1e80, rng.choice((-1, 0)), rng.choice((-1, 0))
            else:
                X, xs = X * 1e100, rng.choice((-1, 0))
        elif corner == 5:
            # descriptors in large units with one entry that is EXACTLY 1e8: next to the missing-value code (99999999), an
            # ordinary number for every routine
            X, xs = X * 1e6, rng.choice((0, 1, 2))
            X[rng.randrange(n), rng.randrange(m)] = 1e8
        if corner in (1, 3, 4):
            # stay clear of the known finding C10 MatrixColAverage/sum_inside_zero_window: a column whose
            # sum lies inside (-1e-6, 1e-6) is not centred by the library
            for M_ in (X, Y):
                for j in range(M_.shape[1]):
                    if abs(M_[:, j].sum()) < 1e-5:
                        M_[:, j] += 3e-5
        if c == 10:
            # level scaling (option 5: division by the column mean) of descriptors of which one has a NEGATIVE mean
            xs = 5
            X[:, 0] = X[:, 0] - X[:, 0].mean() - rng.uniform(3.0, 9.0)
            if m > 1:
                X[:, m - 1] = X[:, m - 1] - X[:, m - 1].mean() + rng.uniform(2.0, 6.0)
            ck.count("level scaling with a negative column mean")
        if c == 12:
            # strongly collinear descriptors (a shared profile plus small individual parts), centring only, as many latent variables
            # as the rank, responses that depend on the small directions: later scores are orders of magnitude below the first
            n, m, xs, noise = max(n, 12), max(m, 4), 0, 0.0
            prof = np.array([rng.gauss(0, 1) for _ in range(n)])
            X = np.column_stack([prof * rng.uniform(0.8, 1.2) + 1e-3 * np.array([rng.gauss(0, 1) for _ in range(n)]) for _ in range(m)])
            Bc = np.array([[rng.gauss(0, 1) * 300.0 for _ in range(ny)] for _ in range(m)])
            Y = X @ Bc
            ck.count("collinear descriptors, responses on the small directions")
        if c == 13:
            # a 2^3 factorial design with small setting errors plus centre points (nearly orthogonal descriptors of equal length)
            n, m, ny, xs, noise = 10, 3, 1, rng.choice((0, 1)), 0.2
            D_ = np.array([[a_, b_, c_] for a_ in (-1.0, 1.0) for b_ in (-1.0, 1.0) for c_ in (-1.0, 1.0)] + [[0.0, 0, 0], [0.0, 0, 0]])
            X = D_ + 0.02 * np.array([[rng.gauss(0, 1) for _ in range(3)] for _ in range(10)])
            Y = (X @ np.array([[1.0], [-2.0], [0.5]]) + 0.2 * np.array([[rng.gauss(0, 1)] for _ in range(10)])) + 3.0
            ck.count("perturbed factorial design")
        if c == 14:
            # more responses than descriptors (2 descriptors, 3 responses)
            m, ny = 2, 3
            n = max(n, 8)
            X, Y = gen_xy(rng, n, m, ny, noise)
            ck.count("more responses than descriptors")
        designed = c in (9, 17)
        designed = c in (9, 17)
        if designed:
            # integer-valued (designed) data with integer column means, centring only: centred cells that are EXACTLY 0, and a
            # descriptor whose sum of products with the centred response is EXACTLY 0 (weight 0.0 on the first latent variable)
            # although it is correlated with the other descriptors (loading not 0) and gets a weight on the next one
            n, m, ny, xs, ys, noise = 8, 3, 1, 0, 0, 1.0
            k3 = rng.choice((1.0, 2.0))
            yc = np.array([-3.0, -1, 1, 3, -3, -1, 1, 3])
            x3 = k3 * np.array([1.0, -1, -1, 1, 1, -1, -1, 1])
            x2 = np.array([0.0, 1, 0, 3, 1, 0, 2, 1])
            e = np.array([1.0, 0, 0, -1, -1, 0, 0, 1])
            X = np.column_stack([yc + x3, x2, x3]) + np.array([float(rng.randint(-3, 3)) for _ in range(3)])
            Y = (yc + e + float(rng.randint(-4, 4))).reshape(n, 1)
            prm = list(range(n)); rng.shuffle(prm)
            X, Y = X[prm], Y[prm]
            if c == 17:
                X = X[:, [2, 0, 1]]
            ck.count("designed integer data (exact zero weight / exactly centred cells)")
        Xc = c02.preprocess(X, xs)
        rank = int(np.linalg.matrix_rank(Xc, tol=1e-9 * max(1.0, np.abs(Xc).max())))
        if rank < 1:
            continue
        nlv = rng.choice((rank, rank, 1, rng.randint(1, rank)))
        if corner == 6 and c < 16 and m == 7:
            nlv = rank
        if designed:
            nlv = rank
        if c in (12, 13, 14):
            nlv = rank
        Xnew = np.array([[rng.gauss(0, 1) * 2 + rng.uniform(-3, 3) for _ in range(m)] for _ in range(3)])
        lines.append("pls %s %s %s %d %d %d" % (vf.fmt_mat(X.tolist(), m), vf.fmt_mat(Y.tolist(), ny), vf.fmt_mat(Xnew.tolist(), m), xs, ys, nlv))
        meta.append((X, Y, Xnew, xs, ys, nlv, rank, noise))
        ck.count("ny=%d" % ny)
        ck.count("xscaling %d" % xs)
        ck.count("nlv=rank" if nlv == rank else "nlv<rank")
    outs = vf.run_driver_cases(ck, exe, lines, lambda k: ("PLS", {"X": np.array(meta[k][0]).tolist(), "Y": np.array(meta[k][1]).tolist(), "xscaling": meta[k][3], "yscaling": meta[k][4], "nlv": meta[k][5]}),
                               header="cap 3000000\n", timeout=1500)
    vf.reuse_scan(ck, "drv_pls", outs, lambda k: {"X": np.array(meta[k][0]).tolist(), "Y": np.array(meta[k][1]).tolist(), "Xnew": np.array(meta[k][2]).tolist(), "xscaling": meta[k][3], "yscaling": meta[k][4], "nlv": meta[k][5]})
    checks = vf.Checks()
    cm, cv = vf.coq_mat, vf.coq_vec
    for i, (mt, o) in enumerate(zip(meta, outs)):
        if o is None:
            continue
        nf_ = None if o.get("nonterminating") else vf.first_nonfinite(o)
        if nf_:
            # finite in-domain data: every stored result is a finite number (tolerance comparisons below are blind to NaN)
            ck.fail("PLS", "not_finite", "the output `%s` holds NaN/Inf" % nf_, {"case": str(mt)[:3000]})
            continue
        X, Y, Xnew, xs, ys, nlv, rank, noise = mt
        n, m = X.shape
        ny = Y.shape[1]
        ck.case(("pls", n, m, ny, xs, ys, nlv, repr(X[0].tolist())), nontrivial=nlv >= 1,
                sample={"X": (n, m), "ny": ny, "xscaling": xs, "yscaling": ys, "nlv": nlv, "rank": rank, "noise": noise} if i % 11 == 0 else None)
        if o.get("nonterminating"):
            ck.fail("PLS", "nontermination_regular_input", "PLS did not return within the iteration cap on full-rank X / non-constant Y", {"X": X.tolist(), "Y": Y.tolist(), "xs": xs, "ys": ys, "nlv": nlv})
            continue
        T, U, P, W, Q = (np.array(o[k]) for k in ("T", "U", "P", "W", "Q"))
        b = np.array(o["b"])
        if o["ticks"] <= 3000 and n * m <= 300:
          if which == "C03":
            checks.add(i, "fit", "pls_ok (%d)%%Z (%d)%%Z %d%%N %s %s %s %s %s %s %s %s %s %s %s %d%%N" % (
                xs, ys, nlv, cm(X.tolist()), cm(Y.tolist()), cm(cols(o["T"])), cm(cols(o["U"])), cm(cols(o["P"])), cm(cols(o["W"])), cm(cols(o["Q"])),
                cv(o["b"]), cv(o["xvarexp"]), cm(o["recalc"]), cm(o["resid"]), o["ticks"]))
          # the projection of unseen objects and the regression-coefficient form: part of C03 (re-projection) and of C04 (coefficients
          # against the score-based predictor) alike
          checks.add(i, "predict_scores", "mchk (pls_predict_scores %s %s %s %s %d%%N %s) %s" % (
                cv(o["xavg"]), cv(o["xsc"]), cm(cols(o["W"])), cm(cols(o["P"])), nlv, cm(Xnew.tolist()), cm(cols(o["pred_new"]))))
          if ny == 1:
                checks.add(i, "betas", "vchk (pls_betas %s %s %s %d%%N) %s" % (cm(cols(o["W"])), cm(cols(o["P"])), cv(o["b"]), nlv, cv(o["betas%d" % nlv])))
        a = T.shape[1]
        E0 = c02.preprocess(X, xs)
        F0 = c02.preprocess(Y, ys)
        yavg = np.array(o["yavg"]) if o["yavg"] else np.zeros(ny)
        ysc = np.array(o["ysc"]) if o["ysc"] else np.ones(ny)
        # orthogonality is lost in proportion to the condition of the part of the preprocessed X that the extracted
        # components span (the inner iteration itself stops at a relative change of 1e-8)
        sv_ = np.linalg.svd(E0, compute_uv=False)
        kap_ = sv_[0] / max(sv_[min(a, len(sv_)) - 1], 1e-300) if len(sv_) and sv_[0] > 0 else 1.0
        tol = (1e-8 + 2e-9 * a) * max(1.0, kap_ / 50.0)
        bad = None
        tn = np.sqrt((T ** 2).sum(axis=0)) + 1e-300
        if which == "C03":
            G = (T.T @ T) / np.outer(tn, tn)
            if np.abs(G - np.diag(np.diag(G))).max() > tol:
                bad = ("scores_not_orthogonal", "max normalised |t_j't_k| = %.3g" % np.abs(G - np.diag(np.diag(G))).max())
            wn = np.sqrt((W ** 2).sum(axis=0)) + 1e-300
            Gw = (W.T @ W) / np.outer(wn, wn)
            if bad is None and np.abs(Gw - np.diag(np.diag(Gw))).max() > tol:
                bad = ("weights_not_orthogonal", "max normalised |w_j'w_k| = %.3g" % np.abs(Gw - np.diag(np.diag(Gw))).max())
            # X = T P' + residual with residual orthogonal to the scores (t_k = X_k w_k/|.| etc.)
            Xr = E0 - T @ P.T
            if bad is None and np.abs(T.T @ Xr).max() > 1e-7 * max(1.0, np.abs(E0).max()) * max(1.0, np.abs(T).max()) * n:
                bad = ("x_decomposition", "scores are not orthogonal to X - TP': %.3g" % np.abs(T.T @ Xr).max())
            if bad is None and np.abs(np.array(o["pred_same"]) - T).max() > 1e-7 * max(1.0, np.abs(T).max()):
                bad = ("score_roundtrip", "re-projecting the training X gives scores differing by %.3g" % np.abs(np.array(o["pred_same"]) - T).max())
            # recalculated y (LV-major) and residuals
            rec, res = np.array(o["recalc"]), np.array(o["resid"])
            if bad is None and rec.shape != (n, ny * a):
                bad = ("recalculated_shape", "recalculated_y has shape %s" % (rec.shape,))
            if bad is None:
                for aa in range(1, a + 1):
                    core = sum(b[k] * np.outer(T[:, k], Q[:, k]) for k in range(aa))
                    want = core * ysc + yavg if ys >= 0 else core
                    got = rec[:, ny * (aa - 1): ny * aa]
                    if np.abs(got - want).max() > 1e-8 * max(1.0, np.abs(want).max()):
                        bad = ("recalculated_layout", "recalculated y for %d LVs is not the back-transformed sum of b t q'" % aa)
                        break
            if bad is None:
                for c_ in range(ny * a):
                    want = rec[:, c_] - Y[:, c_ % ny]
                    if np.abs(res[:, c_] - want).max() > 1e-9 * max(1.0, np.abs(Y).max()):
                        cls = "residual_column_index" if (ny >= 2 and a >= 2) else "residual_value"
                        bad = (cls, "recalc_residuals column %d (LV %d, response %d) is not recalculated minus observed response %d: e.g. %.6g vs %.6g"
                               % (c_, c_ // ny + 1, c_ % ny, c_ % ny, res[0, c_], want[0]))
                        break
        else:
            # ---- C04: least-squares family
            rec = np.array(o["recalc"])
            rss = []
            for aa in range(1, a + 1):
                rss.append(((rec[:, ny * (aa - 1): ny * aa] - Y) ** 2).sum(axis=0))
            rss = np.array(rss)
            if ys in (-1, 0) or True:
                # RSS in the scaled metric is what the theorem speaks about; per response scaling is a positive factor, so monotone per column too
                for aa in range(1, a):
                    if (rss[aa] > rss[aa - 1] * (1 + 1e-9) + 1e-12 * (Y ** 2).sum()).any():
                        bad = ("rss_increases", "training RSS increases from %d to %d latent variables: %s -> %s" % (aa, aa + 1, rss[aa - 1], rss[aa]))
                        break
            if bad is None and a == rank and xs >= 0 and ys >= 0 and rank == m:
                # OLS on the preprocessed blocks, independent (numpy lstsq), back-transformed
                coef, *_ = np.linalg.lstsq(E0, F0, rcond=None)
                ols = (E0 @ coef) * ysc + yavg
                got = rec[:, ny * (a - 1): ny * a]
                scale_ = max(1.0, np.abs(Y - Y.mean(axis=0)).max())
                if np.abs(got - ols).max() > 1e-5 * scale_:
                    bad = ("ols_limit", "with nlv = rank(X) the fitted responses differ from the OLS fit by %.3g" % np.abs(got - ols).max())
            if bad is None and ny == 1:
                # betas vs score-based predictor on unseen objects
                ynew = np.array(o["ynew_all"])
                xavg = np.array(o["xavg"]) if o["xavg"] else np.zeros(m)
                xsc = np.array(o["xsc"]) if o["xsc"] else np.ones(m)
                Zn = Xnew - xavg if xs >= 0 else Xnew.copy()
                for j in range(m):
                    if xs >= 0:
                        Zn[:, j] = 0.0 if abs(xsc[j]) < 1e-3 else Zn[:, j] / xsc[j]
                for aa in range(1, a + 1):
                    bt = np.array(o["betas%d" % aa])
                    pred_b = (Zn @ bt) * (ysc[0] if ys >= 0 else 1.0) + (yavg[0] if ys >= 0 else 0.0)
                    if np.abs(pred_b - ynew[:, aa - 1]).max() > 1e-6 * max(1.0, np.abs(ynew[:, aa - 1]).max()):
                        bad = ("betas_disagree", "regression coefficients for %d LVs predict %s, the score predictor %s" % (aa, pred_b[:2], ynew[:2, aa - 1]))
                        break
        if bad:
            ck.fail("PLS", bad[0], bad[1] + " (X %dx%d, ny %d, scaling %d/%d, nlv %d)" % (n, m, ny, xs, ys, nlv),
                    {"X": X.tolist(), "Y": Y.tolist(), "xs": xs, "ys": ys, "nlv": nlv})
    if which == "C04":
        # affine equivariance of a single centred response: y -> c*y + d
        lines2, meta2 = [], []
        for _ in range(10 if not thorough else 80):
            n, m = rng.randint(6, 20), rng.randint(1, 5)
            X, Y = gen_xy(rng, n, m, 1, rng.choice((0.0, 0.3)))
            cc, dd = rng.choice((-3.0, 0.5, 7.0)), rng.uniform(-10, 10)
            if _ % 3 == 0 and abs(float(Y.sum())) > 1e-3:
                # a change of units that makes the response tiny: column sum 1e-4 (well above the 1e-6 at
                # which the library treats a column sum as zero)
                cc, dd = 1e-4 / float(Y.sum()), 0.0
            xs = rng.choice((0, 1, 2))
            nlv = rng.randint(1, m)
            Xnew = np.array([[rng.gauss(0, 1) for _ in range(m)] for _ in range(3)])
            for YY in (Y, cc * Y + dd):
                lines2.append("pls %s %s %s %d 0 %d" % (vf.fmt_mat(X.tolist(), m), vf.fmt_mat(YY.tolist(), 1), vf.fmt_mat(Xnew.tolist(), m), xs, nlv))
            meta2.append((cc, dd, X, Y, xs, nlv))
        rc, outs2, err = vf.run_driver(exe, "\n".join(lines2) + "\n", timeout=600)
        for k, (cc, dd, X, Y, xs, nlv) in enumerate(meta2):
            a0, a1 = outs2[2 * k], outs2[2 * k + 1]
            ck.case(("affine", cc, dd, repr(X[0].tolist())))
            p0, p1 = np.array(a0["ynew_all"]), np.array(a1["ynew_all"])
            spread = max(abs(cc) * np.abs(Y - Y.mean()).max(), 1e-300)
            if np.abs(p1 - (cc * p0 + dd)).max() > 1e-6 * spread + 1e-12 * abs(dd):
                ck.fail("PLS", "affine_equivariance", "predictions for y -> %g*y + %g are not mapped the same way" % (cc, dd), {"X": X.tolist(), "Y": Y.tolist(), "c": cc, "d": dd, "xs": xs, "nlv": nlv})
    if checks.items:
        failing, logs, cerr = vf.run_cases_v(which.lower(), IMPORTS, DEFS, checks.items, shard=10, timeout=1500)
        if cerr:
            ck.broken("correspondence:coq-eval", cerr)
        for cid in sorted(set(failing)):
            case, label = checks.where[cid]
            mt = meta[case]
            ck.broken("correspondence:%s case %d (X %dx%d ny %d scaling %d/%d nlv %d)" % (label, case, mt[0].shape[0], mt[0].shape[1], mt[1].shape[1], mt[3], mt[4], mt[5]),
                      "model (F64 instance) and implementation disagree")
    ck.cov["model_checks_evaluated_in_coq"] = len(checks.items)
    ck.cov["traces_validated_against_impl"] = len(meta)
    ck.cov["rule"] = ("X 6..40 x 1..12 full column rank, Y 1..4 columns (correlated / differently scaled), noise 0..dominant, 7x7 scaling pairs, nlv in 1..rank, "
                      "unseen objects; distinct by full case; oracle numpy")
    ck.assumptions += ["theorems over exact real closed fields; rounding compared (2^-38 relative), not bounded",
                       "numpy lstsq as the independent OLS oracle"]


def run(ck, rng, tier):
    ck.prove("Properties_C03")
    run_pls(ck, rng, tier, "C03")


def replay(ck, rp):
    return 1
