"""C04 — PLS regression is a correct least-squares family (OLS limit, betas, monotone)."""
from props import c03


def run(ck, rng, tier):
    ck.prove("Properties_C04")
    c03.run_pls(ck, rng, tier, "C04")


def replay(ck, rp):
    return 1
