"""C08 — LDA predicts the arg-max discriminant and is invariant to affine re-coding."""
import math
import numpy as np
import vf

IMPORTS = """From Coq Require Import Floats ZArith.
From mathcomp Require Import ssreflect ssrfun ssrbool eqtype ssrnat seq.
From LS Require Import NumOps F64Ops Kernels Pca Lda.
Local Open Scope float_scope.
"""
DEFS = """Definition REL := 0x1p-28.
Definition mchk (a b : seq (seq float)) := m_agree REL (mmax b) a b.
Definition vchk (a b : seq float) := v_agree REL (vmax b) a b.
Definition lda_ok (X : seq (seq float)) (labels : seq nat) (logp : seq float) (nclass start : nat) (pprob : seq float) (mu icov : seq (seq float))
   (Xt : seq (seq float)) (scores : seq (seq float)) : bool :=
  let M := lda_fit X labels in
  [&& ld_nclass M == nclass, ld_start M == start, vchk (ld_pprob M) pprob, mchk (ld_mu M) mu, mchk (ld_inv_cov M) icov
    & m_agree 0x1p-20 (mmax scores) (map (lda_scores M logp) Xt) scores].
"""


def gen(rng, ncl, m, per, sep):
    cent = np.array([[rng.uniform(-1, 1) * sep for _ in range(m)] for _ in range(ncl)])
    A = np.array([[rng.gauss(0, 1) for _ in range(m)] for _ in range(m)]) * 0.3 + np.eye(m)
    X, lab = [], []
    for k in range(ncl):
        for _ in range(per[k]):
            X.append(cent[k] + A @ np.array([rng.gauss(0, 1) for _ in range(m)]))
            lab.append(k)
    idx = list(range(len(lab)))
    rng.shuffle(idx)
    return np.array(X)[idx], [lab[i] for i in idx]


def run(ck, rng, tier):
    thorough = tier == "thorough"
    ck.prove("Properties_C08")
    exe = vf.build_driver("drv_lda", "asan")
    lines, meta = [], []
    for c in range(36 if not thorough else 300):
        ncl, m = rng.randint(2, 5), rng.randint(2, 6)
        per = [rng.randint(4, 40 if thorough else 12) for _ in range(ncl)]
        sep = rng.choice((2.0, 6.0, 25.0))
        start = rng.choice((0, 1))
        X, lab = gen(rng, ncl, m, per, sep)
        Xt, labt = gen(rng, ncl, m, [3] * ncl, sep)
        kind = rng.choice(("plain", "affine", "rowperm"))
        if c == 9:
            # integer-valued features whose class means are integers, one of them EXACTLY 0 in a feature that is not the last
            # (class 0: mean (0, 5, 2, ...)); compared with the same data moved by (3, -2, 1, ...): kind "affine" with A = I
            ncl, m = 2, rng.randint(3, 4)
            per = [6, 6]
            dev = [-2.0, -1.0, -1.0, 1.0, 1.0, 2.0]
            means = [[0.0, 5.0, 2.0, -4.0][:m], [6.0, 0.0, -3.0, 1.0][:m]]
            rows_, lab = [], []
            for k_ in range(2):
                cols_ = []
                for j_ in range(m):
                    d_ = dev[:]; rng.shuffle(d_)
                    cols_.append([means[k_][j_] + (j_ + 1) * v for v in d_])
                for i_ in range(6):
                    rows_.append([cols_[j_][i_] for j_ in range(m)]); lab.append(k_)
            idx_ = list(range(12)); rng.shuffle(idx_)
            X, lab = np.array(rows_)[idx_], [lab[i_] for i_ in idx_]
            Xt = np.array([[means[k_][j_] + rng.choice((-1.0, 0.0, 1.0)) for j_ in range(m)] for k_ in (0, 1, 0)])
            sep, kind = 6.0, "affine"
            ck.count("integer data with a class mean that is exactly 0 in an inner feature")
        if c in (2, 3, 4, 5, 6, 7, 8):
            kind = "affine"
        if c == 4:
            Xt[0, 0] = 0.0     # re-coded below to exactly 1e8, next to the missing-value code
        y = [[float(l + start)] for l in lab]
        lines.append("lda %s %s %s" % (vf.fmt_mat(X.tolist(), m), vf.fmt_mat(y, 1), vf.fmt_mat(Xt.tolist(), m)))
        meta.append(("base", X, lab, start, Xt, sep, kind, ncl))
        if kind == "affine":
            U, _ = np.linalg.qr(np.array([[rng.gauss(0, 1) for _ in range(m)] for _ in range(m)]))
            V, _ = np.linalg.qr(np.array([[rng.gauss(0, 1) for _ in range(m)] for _ in range(m)]))
            A = (U * np.logspace(0, math.log10(rng.choice((1.0, 10.0, 100.0))), m)) @ V.T
            cvec = np.array([rng.uniform(-5, 5) for _ in range(m)])
            if c == 2:      # a change of units: features of order 1e-7 (offset 1e-4): every entry of the pooled covariance is below 1e-12
                A, cvec = A * 1e-7, cvec * 1e-4 + 3e-4
            elif c == 3:    # features of order 1e6
                A, cvec = A * 1e6, cvec * 1e6
            elif c == 4:    # x -> 1e6 x + 1e8: an exact zero becomes exactly 1e8
                A, cvec = np.eye(m) * 1e6, np.full(m, 1e8)
            elif c == 5:    # features beyond the range of single precision (units of 1e39)
                A, cvec = A * 1e39, cvec * 1e39
            elif c == 6:    # a diagonal re-coding of condition 100 in units of 4e2 .. 4e4
                A, cvec = np.diag(np.logspace(math.log10(4e2), math.log10(4e4), m)), cvec * 1e3
            elif c == 9:
                A, cvec = np.eye(m), np.array([3.0, -2.0, 1.0, 5.0][:m])
            elif c in (7, 8):
                # features in different units within one data set: the first in units of 1e5 (variance of order 1e10), another in
                # units of 1e-2 (variance of order 1e-4), the rest of unit scale; in the other order for c == 8
                d = [1.0] * m
                d[0], d[1 if c == 7 else m - 1] = 1e5, 1e-2
                if c == 8:
                    d = d[::-1]
                A = np.diag(d)
            ck.count("affine re-coding: units / offset", 1 if c in (2, 3, 4, 5, 6, 7, 8) else 0)
            lines.append("lda %s %s %s" % (vf.fmt_mat((X @ A.T + cvec).tolist(), m), vf.fmt_mat(y, 1), vf.fmt_mat((Xt @ A.T + cvec).tolist(), m)))
            meta.append(("affine", A))
        elif kind == "rowperm":
            p = list(range(len(lab))); rng.shuffle(p)
            lines.append("lda %s %s %s" % (vf.fmt_mat(X[p].tolist(), m), vf.fmt_mat([y[i] for i in p], 1), vf.fmt_mat(Xt.tolist(), m)))
            meta.append(("rowperm", p))
        ck.count("labels from %d" % start)
        ck.count("classes %d" % ncl)
    # per-class ROC summaries for perfect predictions (labels from 0)
    stat_meta = []
    for c in range(10 if not thorough else 60):
        ncl = rng.randint(2, 5)
        yt = [rng.randrange(ncl) for _ in range(rng.randint(8, 40))]
        for k in range(ncl):
            yt[k] = k
        lines.append("ldastat %s %s" % (vf.fmt_mat([[float(v)] for v in yt], 1), vf.fmt_mat([[float(v)] for v in yt], 1)))
        meta.append(("stat", yt, ncl))
    rc, outs, err = vf.run_driver(exe, "\n".join(lines) + "\n", timeout=900)
    if rc != 0:
        k = len(outs)
        mt = meta[k] if k < len(meta) else None
        base = mt if mt and mt[0] == "base" else next((meta[j] for j in range(min(k, len(meta) - 1), -1, -1) if meta[j][0] == "base"), None)
        one = base is not None and base[3] == 1
        ck.fail("LDAPrediction", "memory_error_labels_from_1" if one else "memory_error",
                "sanitizer/crash (rc %s) in case %d (%s, labels from %s): %s" % (rc, k, mt[0] if mt else "?", base[3] if base else "?", [l for l in err.splitlines() if "ERROR" in l or "SUMMARY" in l][:2]),
                {"X": base[1].tolist() if base else None, "labels": [l + base[3] for l in base[2]] if base else None})
    vf.reuse_scan(ck, "drv_lda", outs, lambda k: {"case": str(meta[k][:3])[:1500]})
    checks = vf.Checks()
    cm, cv = vf.coq_mat, vf.coq_vec
    base = None
    for i, (mt, o) in enumerate(zip(meta, outs)):
        if mt[0] == "base":
            _, X, lab, start, Xt, sep, kind, ncl = mt
            n, m = X.shape
            base = (X, lab, start, Xt, o, sep)
            ck.case(("lda", n, m, ncl, start, repr(X[0].tolist())), sample={"objects": n, "features": m, "classes": ncl, "labels_from": start, "separation": sep} if i % 11 == 0 else None)
            counts = [lab.count(k) for k in range(ncl)]
            pp = np.array(o["pprob"])
            bad = None
            if o["nclass"] != ncl or o["class_start"] != start:
                bad = ("class_bookkeeping", "nclass %d / class_start %d for %d classes numbered from %d" % (o["nclass"], o["class_start"], ncl, start))
            elif np.abs(pp - np.array(counts) / n).max() > 1e-12 or abs(pp.sum() - 1) > 1e-12:
                bad = ("priors", "priors %s are not the class frequencies %s" % (pp, np.array(counts) / n))
            else:
                mu = np.array(o["mu"])
                want = np.array([X[[j for j in range(n) if lab[j] == k]].mean(axis=0) for k in range(ncl)])
                if np.abs(mu - want).max() > 1e-9 * max(1.0, np.abs(want).max()) + 2e-6:
                    bad = ("class_means", "stored class means differ from the per-class averages by %.3g" % np.abs(mu - want).max())
            if bad is None:
                for which, XX in (("train", X), ("test", Xt)):
                    pred = [int(r[0]) for r in o["pred_" + which]]
                    S = np.array(o["score_" + which])
                    for r in range(len(pred)):
                        if pred[r] - start not in range(ncl):
                            bad = ("label_not_in_training_labels" + ("_labels_from_1" if start == 1 else ""), "predicted label %d does not occur in the training labels %s (labels numbered from %d)" % (pred[r], sorted(set(l + start for l in lab)), start))
                            break
                        if S[r, pred[r] - start] < S[r].max() - 1e-12 * max(1.0, abs(S[r].max())):
                            bad = ("not_argmax", "predicted label %d does not maximise the stored discriminant score" % pred[r])
                            break
                    if bad:
                        break
            if bad is None:
                # the stored score IS the linear discriminant of the stored model, to rounding of double arithmetic:
                # mu_k' C x - mu_k' C mu_k / 2 + log prior_k
                mu_, C_, lp_ = np.array(o["mu"]), np.array(o["inv_cov"]), np.log(np.array(o["pprob"]))
                for which, XX in (("train", X), ("test", Xt)):
                    S = np.array(o["score_" + which])
                    lin, quad = XX @ C_.T @ mu_.T, 0.5 * np.einsum("ki,ij,kj->k", mu_, C_, mu_)
                    want = lin - quad + lp_
                    scale = np.abs(XX) @ np.abs(C_.T) @ np.abs(mu_.T) + 0.5 * np.einsum("ki,ij,kj->k", np.abs(mu_), np.abs(C_), np.abs(mu_)) + np.abs(lp_)
                    if S.shape != want.shape or (np.abs(S - want) > 1e-11 * scale + 1e-300).any():
                        r_, k_ = np.unravel_index(np.argmax(np.abs(S - want) / scale), S.shape) if S.shape == want.shape else (0, 0)
                        bad = ("score_not_discriminant", "stored score of %s object %d, class %d is %.17g, the linear discriminant of the stored model is %.17g" % (which, r_, k_, S[r_, k_] if S.shape == want.shape else float("nan"), want[r_, k_]))
                        break
            cents = np.array([X[[j for j in range(n) if lab[j] == k]].mean(axis=0) for k in range(ncl)])
            spread = max(np.sqrt(((X[[j for j in range(n) if lab[j] == k]] - cents[k]) ** 2).sum(axis=1)).max() for k in range(ncl))
            mind = min(np.linalg.norm(cents[a] - cents[b]) for a in range(ncl) for b in range(a + 1, ncl))
            if bad is None and mind > 6.0 * spread:
                pred = [int(r[0]) - start for r in o["pred_train"]]
                if pred != lab:
                    bad = ("well_separated_misclassified", "well-separated classes (min centre distance %.3g > 6 x max within-class radius %.3g) are not classified without error" % (mind, spread))
            if bad:
                ck.fail("LDA" if bad[0] in ("class_bookkeeping", "priors", "class_means") else "LDAPrediction", bad[0], bad[1], {"X": X.tolist(), "labels": [l + start for l in lab]})
            elif n * m <= 150 and ncl <= 3:
                logp = [math.log(v) for v in o["pprob"]]
                labs = "[:: " + "; ".join("%d%%N" % (l + start) for l in lab) + "]"
                checks.add(i, "fit", "lda_ok %s %s %s %d%%N %d%%N %s %s %s %s %s" % (cm(X.tolist()), labs, cv(logp), o["nclass"], o["class_start"], cv(o["pprob"]), cm(o["mu"]), cm(o["inv_cov"]), cm(Xt.tolist()), cm(o["score_test"])))
        elif mt[0] in ("affine", "rowperm") and base is not None:
            X, lab, start, Xt, o0, sep = base
            ck.case(("invariance", mt[0], i))
            S0, S1 = np.array(o0["score_test"]), np.array(o["score_test"])
            d0 = S0 - S0[:, [0]]
            d1 = S1 - S1[:, [0]]
            # a diagonal map is a change of units feature by feature: elimination with pivoting follows it exactly up to rounding, so
            # its condition number does not enter the tolerance
            diag_map = mt[0] == "affine" and np.count_nonzero(mt[1] - np.diag(np.diagonal(mt[1]))) == 0
            tol = 1e-6 * max(1.0, np.abs(d0).max()) * (np.linalg.cond(mt[1]) ** 2 if (mt[0] == "affine" and not diag_map) else 1.0)
            if not np.isfinite(S1).all() and np.isfinite(S0).all():
                ck.fail("LDAPrediction", "invariance_" + mt[0], "discriminant scores are not finite after %s (they are finite before)" % ("an invertible affine map" if mt[0] == "affine" else "a reordering of the training objects"),
                        {"X": X.tolist(), "labels": [l + start for l in lab], "map": mt[1].tolist() if mt[0] == "affine" else mt[1]})
            elif not (np.abs(d0 - d1).max() <= tol):
                ck.fail("LDAPrediction", "invariance_" + mt[0], "discriminant-score differences change by %.3g under %s" % (np.abs(d0 - d1).max(), "an invertible affine map" if mt[0] == "affine" else "a reordering of the training objects"),
                        {"X": X.tolist(), "labels": [l + start for l in lab]})
            elif sep >= 6.0 and o0["pred_test"] != o["pred_test"] and np.abs(np.sort(S0, axis=1)[:, -1] - np.sort(S0, axis=1)[:, -2]).min() > 1e-6:
                ck.fail("LDAPrediction", "invariance_" + mt[0] + "_predictions", "predictions change", {"X": X.tolist(), "labels": [l + start for l in lab]})
        elif mt[0] == "stat":
            _, yt, ncl = mt
            ck.case(("stat", ncl, repr(yt)))
            if any(abs(a - 1.0) > 1e-12 for a in o["roc_aucs"]) or len(o["roc_aucs"]) != (1 if ncl == 2 else ncl):
                ck.fail("LDAMulticlassStatistics", "perfect_predictions_auc", "per-class AUC for perfect predictions is %s" % o["roc_aucs"], {"ytrue": yt, "ypred": yt})
    failing, logs, cerr = vf.run_cases_v("c08", IMPORTS, DEFS, checks.items, shard=10)
    if cerr:
        ck.broken("correspondence:coq-eval", cerr)
    for cid in sorted(set(failing)):
        case, label = checks.where[cid]
        ck.broken("correspondence:%s case %d" % (label, case), "model (F64 instance) and implementation disagree")
    ck.cov["model_checks_evaluated_in_coq"] = len(checks.items)
    ck.cov["traces_validated_against_impl"] = len(meta)
    ck.cov["rule"] = "2..5 classes, 2..6 features, 4..40 objects per class (balanced and unbalanced), labels from 0 or 1, separations 2..25 spreads, affine maps with condition <= 100, row permutations; run under ASan+UBSan"
    ck.assumptions += ["ln(prior) is supplied to the model from libm (oracle); the LAPACK eigen-decomposition for the projected features is not modelled"]


def replay(ck, rp):
    return 1
