"""C19 — spline, trapezoid area and simplex minimiser meet their numerical contracts."""
import math
from fractions import Fraction
import numpy as np
import vf

IMPORTS = """From Coq Require Import Floats ZArith.
From mathcomp Require Import ssreflect ssrfun ssrbool eqtype ssrnat seq.
From LS Require Import NumOps F64Ops Kernels Stats Spline Simplex.
Local Open Scope float_scope.
"""
DEFS = """Definition REL := 0x1p-40.
Definition mchk (a b : seq (seq float)) := m_agree REL (mmax b) a b.
Definition vchk (a b : seq float) := v_agree REL (vmax b) a b.
Definition fchk (a b : float) := f_agree REL 0 a b.
Definition spline_ok (xs ys q : seq float) (S : seq (seq float)) (pred : seq float) :=
  let Sm := spline_fit xs ys in
  all2 (fun r s => v_agree 0x1p-30 (vmax s) r s) Sm S && (size Sm == size S) && vchk (spline_predict S q) pred.
(* the objective of the harness: sum_i x_i (sum_j A_ij x_j) + sum_i b_i x_i, left to right *)
Definition quad (A : seq (seq float)) (b x : seq float) : float :=
  let f := foldl (fun f ai => f + ai.2 * (foldl (fun r ax => r + ax.1 * ax.2) 0 (zip ai.1 x))) 0 (zip A x) in
  foldl (fun f bx => f + bx.1 * bx.2) f (zip b x).
Definition nm_ok (A : seq (seq float)) (b x0 step : seq float) (xtol : float) (iter : nat) (res : float) (best : seq float) :=
  let r := nelder_mead (quad A b) x0 step xtol iter in fchk r.2 res && vchk r.1 best.
"""


def gen_knots(rng, n, spacing, irregular):
    xs = [rng.uniform(-5, 5) * spacing]
    for _ in range(n - 1):
        xs.append(xs[-1] + spacing * (rng.uniform(0.3, 3.0) if irregular else 1.0))
    return xs


def evalS(S, j, x):
    xi, a, b, c, d = S[j]
    t = x - xi
    return a + b * t + c * t * t + d * t ** 3


def run(ck, rng, tier):
    thorough = tier == "thorough"
    ck.prove("Properties_C19")
    exe = vf.build_driver("drv_interp")
    exs = vf.build_driver("drv_stat")
    lines, meta = [], []
    for c in range(50 if not thorough else 500):
        n = rng.randint(3, 40 if thorough else 14)
        spacing = 10 ** rng.choice((-4, -3, -2, -1, 0, 0, 1, 2, 4))
        irregular = rng.random() < 0.5
        xs = gen_knots(rng, n, spacing, irregular)
        kind = rng.choice(("general", "general", "linear"))
        ys = [2.5 * x / spacing - 1.0 for x in xs] if kind == "linear" else [rng.gauss(0, 1) * rng.choice((1.0, 100.0)) for _ in xs]
        if c % 8 == 5 and kind != "linear":
            # ordinates of any size: far above the library's missing-value code (1e8 .. 3e8) or far below its negative
            off = rng.choice((1.5e8, 3e8, -2e8))
            ys = [off + 1e3 * y for y in ys]
            ck.count("ordinates of order 1e8")
        if c in (3, 4) or (thorough and c % 25 == 11):
            # spacings at both ends of the scale in ONE set: knots about 1e4 apart and one pair only 1e-4 apart (below
            # 1e-9 of the span) with clearly different ordinates
            n = rng.randint(13, 32)
            spacing, kind = 1e4, "general"
            xs = gen_knots(rng, n, spacing, True)
            k = rng.randrange(2, n - 2)
            xs[k] = xs[k - 1] + 1e-4 * rng.uniform(1.0, 3.0)
            ys = [rng.gauss(0, 1) for _ in xs]
            ys[k] = ys[k - 1] + rng.choice((0.25, -0.4))
            ck.count("knots 1e4 apart with one pair 1e-4 apart")
        if c in (5, 6):
            # irregular knots whose FIRST spacing equals the mean spacing exactly (x_n - x_0 == n * h_0 in binary64)
            spacing = 2.0 ** rng.choice((-6, 0, 8))
            base_ = [0.0, 1.0, 1.5, 4.0, 4.25, 5.0] if c == 5 else [0.0, 1.0, 1.25, 1.5, 3.5, 6.0, 6.5, 7.0]
            off_ = spacing * rng.choice((0.0, -4.0, 16.0))
            xs = [off_ + spacing * v for v in base_]
            n = len(xs)
            kind = "general" if c == 5 else "linear"
            ys = [2.5 * x / spacing - 1.0 for x in xs] if kind == "linear" else [rng.gauss(0, 1) for _ in xs]
            ck.count("irregular knots, first spacing = mean spacing")
        # query points: the knots themselves and interior points
        q = list(xs) + [xs[i] + (xs[i + 1] - xs[i]) * rng.uniform(0.1, 0.9) for i in range(n - 1)]
        lines.append("spline %s %s" % (vf.fmt_mat([[x, y] for x, y in zip(xs, ys)]), vf.fmt_vec(q)))
        meta.append(("spline", xs, ys, q, spacing, kind))
        ck.count("spacing %g" % spacing)
    for c in range(25 if not thorough else 250):
        dim = rng.randint(2, 6)
        Qm, _ = np.linalg.qr(np.array([[rng.gauss(0, 1) for _ in range(dim)] for _ in range(dim)]))
        ev = np.logspace(0, math.log10(rng.choice((1.0, 10.0, 100.0))), dim)
        A = (Qm * ev) @ Qm.T
        A = (A + A.T) / 2
        xmin = np.array([rng.uniform(-3, 3) for _ in range(dim)])
        b = -2 * A @ xmin
        x0 = (xmin + np.array([rng.uniform(-4, 4) for _ in range(dim)])).tolist()
        step = [rng.choice((0.5, 1.0, -0.7, 2.0)) for _ in range(dim)]
        iters = rng.choice((3, 10, 4000))
        if c < 4:
            # exact ties: a circular bowl with the start simplex placed so that the reflected point has EXACTLY the
            # objective value of the worst vertex (dyadic data, no rounding): x0 = xmin + e1, steps (-2, s, ...)
            dim = 2 + c // 2
            A = np.eye(dim)
            xmin = np.array([float(rng.randint(-3, 3)) for _ in range(dim)])
            b = -2 * A @ xmin
            x0 = (xmin + np.array([1.0] + [0.0] * (dim - 1))).tolist()
            step = [-2.0] + [float(rng.choice((3, 4, 10)))] * (dim - 1)
            iters = (10, 4000)[c % 2]
            ck.count("nm exact tie between the reflected and the worst vertex")
        if c == 8:
            # the reflected point has EXACTLY the value of the best vertex (neither better nor worse than it)
            A = np.array([[2.0, 0.5], [0.5, 1.0]]); xmin = np.array([1.0, -2.0]); b = -2 * A @ xmin; dim = 2
            x0, step, iters = [3.0, 0.0], [2.0, 2.0], 4000
            ck.count("nm reflected value equal to the best value")
        if c in (4, 5, 6, 7):
            A = np.array([[2.0, 0.5], [0.5, 1.0]]); xmin = np.array([1.0, -2.0]); b = -2 * A @ xmin; dim = 2
            if c == 4:      # all three vertices of the start simplex carry exactly the same value (f = 8)
                x0, step, iters = [0.0, -4.0], [3.0, 5.0], 4000
            else:           # negative steps, the best start vertex is one of the stepped ones, almost no iterations allowed
                x0, step, iters = [3.0, 0.0], [-2.0, -2.0], (0, 1, 3)[c - 5]
            ck.count("nm flat start simplex / negative steps with a tiny budget")
        lines.append("nm %s %s %s %s 1e-13 %d" % (vf.fmt_mat(A.tolist()), vf.fmt_vec(b.tolist()), vf.fmt_vec(x0), vf.fmt_vec(step), iters))
        meta.append(("nm", A, b, x0, step, iters, xmin))
        ck.count("nm dim %d" % dim)
    rc, outs, err = vf.run_driver(exe, "\n".join(lines) + "\n")
    if rc != 0 or len(outs) != len(meta):
        ck.broken("driver drv_interp", "rc=%s cases=%d/%d %s" % (rc, len(outs), len(meta), err[-800:]))
        return
    for op_ in ("spline", "nm"):
        sel_ = [k for k in range(len(meta)) if meta[k][0] == op_]
        vf.reuse_scan(ck, "drv_interp:" + op_, [outs[k] for k in sel_], lambda j, sel_=sel_: {"op": op_, "case": str(meta[sel_[j]][1:5])[:1500]})
    checks = vf.Checks()
    cv, cm, cf = vf.coq_vec, vf.coq_mat, vf.coq_f
    for i, (mt, o) in enumerate(zip(meta, outs)):
        if mt[0] == "spline":
            _, xs, ys, q, spacing, kind = mt
            n = len(xs)
            ck.case(("spline", n, spacing, kind, repr(xs[:2])), sample={"knots": n, "spacing": spacing, "kind": kind} if i % 13 == 0 else None)
            checks.add(i, "spline", "spline_ok %s %s %s %s %s" % (cv(xs), cv(ys), cv(q), cm(o["S"]), cv(o["pred"])))
            S = o["S"]
            ysc = max(1.0, max(abs(y) for y in ys))
            bad = None
            pred = o["pred"]
            for j in range(n):
                if abs(pred[j] - ys[j]) > 1e-7 * ysc:
                    bad = ("interpolation", "S(x_%d) = %r but y_%d = %r (knot spacing %g)" % (j, pred[j], j, ys[j], spacing))
                    break
            if bad is None and len(S) == n - 1:
                for j in range(n - 2):
                    h = xs[j + 1] - xs[j]
                    xi, a, b, c, d = S[j]
                    xi2, a2, b2, c2, d2 = S[j + 1]
                    s1 = b + 2 * c * h + 3 * d * h * h
                    s2 = 2 * c + 6 * d * h
                    if abs(s1 - b2) > 1e-6 * (abs(b2) + ysc / h):
                        bad = ("C1", "first derivative jumps at knot %d: %r vs %r" % (j + 1, s1, b2)); break
                    if abs(s2 - 2 * c2) > 1e-6 * (abs(2 * c2) + ysc / h / h):
                        bad = ("C2", "second derivative jumps at knot %d" % (j + 1)); break
                hl = xs[-1] - xs[-2]
                if bad is None and (abs(S[0][3]) > 1e-9 * ysc / (xs[1] - xs[0]) ** 2 or abs(2 * S[-1][3] + 6 * S[-1][4] * hl) > 1e-6 * ysc / hl ** 2):
                    bad = ("natural", "second derivative at the ends is not zero")
            elif bad is None:
                bad = ("shape", "coefficient table has %d rows for %d knots" % (len(S), n))
            if bad is None:
                # evaluation between the knots uses the piece that contains the point
                for k, x in enumerate(q[n:]):
                    want = evalS(S, k, x)
                    if abs(pred[n + k] - want) > 1e-7 * ysc:
                        bad = ("piece_lookup", "evaluation at %r (between knots %d and %d, spacing %g) gives %r, the piece of that interval gives %r" % (x, k, k + 1, spacing, pred[n + k], want))
                        break
            if bad is None and kind == "linear":
                for k, x in enumerate(q):
                    if abs(pred[k] - (2.5 * x / spacing - 1.0)) > 1e-7 * ysc:
                        bad = ("linear_exact", "straight line not reproduced at %r" % x); break
            if bad:
                small = spacing < 2e-2
                ck.fail("cubic_spline_predict" if bad[0] in ("piece_lookup", "interpolation", "linear_exact") else "cubic_spline_interpolation",
                        bad[0] + ("_small_spacing" if small and bad[0] in ("piece_lookup", "interpolation", "linear_exact") else ""), bad[1], {"x": xs, "y": ys})
        else:
            _, A, b, x0, step, iters, xmin = mt
            dim = len(x0)
            ck.case(("nm", dim, iters, repr(x0)), sample={"op": "nelder-mead", "dim": dim, "iterations": iters} if i % 11 == 0 else None)
            if iters <= 10:
                checks.add(i, "nm", "nm_ok %s %s %s %s 1e-13 %d%%N %s %s" % (cm(A.tolist()), cv(b.tolist()), cv(x0), cv(step), iters, cf(o["res"]), cv(o["best"])))
            f = lambda x: float(np.array(x) @ A @ np.array(x) + b @ np.array(x))
            verts = [list(x0)] + [[x0[j] + (step[j] if j == k else 0.0) for j in range(dim)] for k in range(dim)]
            fmin0 = min(f(v) for v in verts)
            if o["res"] != o["f_best"]:
                ck.fail("NelderMeadSimplex", "reported_value", "reported value %r is not the objective at the returned point %r" % (o["res"], o["f_best"]), {"A": A.tolist(), "b": b.tolist(), "x0": x0, "step": step})
            elif o["res"] > fmin0 + 1e-12 * max(1.0, abs(fmin0)):
                ck.fail("NelderMeadSimplex", "worse_than_start", "returned value %r is worse than the best initial vertex %r" % (o["res"], fmin0), {"A": A.tolist(), "b": b.tolist(), "x0": x0, "step": step})
            elif iters >= 4000 and np.abs(np.array(o["best"]) - xmin).max() > 1e-4 * max(1.0, np.abs(xmin).max()):
                ck.fail("NelderMeadSimplex", "no_convergence", "after %d iterations the simplex is %.3g away from the minimiser of a convex quadratic (dim %d)" % (iters, np.abs(np.array(o["best"]) - xmin).max(), dim),
                        {"A": A.tolist(), "b": b.tolist(), "x0": x0, "step": step})
    # ---- trapezoid area: exact integral of the polyline, additivity
    lines2, meta2 = [], []
    for c in range(30 if not thorough else 300):
        n = rng.randint(2, 30)
        xs = gen_knots(rng, n, 10 ** rng.choice((-3, 0, 2)), True)
        ys = [float(rng.randint(-20, 20)) / 4 for _ in xs]
        k = rng.randint(0, n - 1)
        pts = [[x, y] for x, y in zip(xs, ys)]
        for P in (pts, pts[:k + 1], pts[k:]):
            lines2.append("area %s" % vf.fmt_mat(P, 2))
        meta2.append((pts, k))
    rc, outs2, err = vf.run_driver(exs, "\n".join(lines2) + "\n")
    for t, (pts, k) in enumerate(meta2):
        a, a1, a2 = outs2[3 * t]["area"], outs2[3 * t + 1]["area"], outs2[3 * t + 2]["area"]
        ck.case(("area", len(pts), k, repr(pts[0])))
        checks.add(("area", t), "area", "fchk (curve_area %s) %s" % ("[:: " + "; ".join("(%s, %s)" % (cf(p[0]), cf(p[1])) for p in pts) + "]", cf(a)))
        exact = sum((Fraction(pts[j + 1][0]) - Fraction(pts[j][0])) * (Fraction(pts[j][1]) + Fraction(pts[j + 1][1])) / 2 for j in range(len(pts) - 1))
        mag = sum(abs((Fraction(pts[j + 1][0]) - Fraction(pts[j][0])) * (Fraction(pts[j][1]) + Fraction(pts[j + 1][1])) / 2) for j in range(len(pts) - 1))
        if abs(Fraction(a) - exact) > Fraction(1e-12) * (mag + 1) :
            ck.fail("curve_area", "not_exact_integral", "trapezoid area %r, exact integral of the polyline %r" % (a, float(exact)), {"points": pts})
        elif abs(a - (a1 + a2)) > 1e-12 * (float(mag) + 1):
            ck.fail("curve_area", "not_additive", "area %r != %r + %r over the split at point %d" % (a, a1, a2, k), {"points": pts, "split": k})
    failing, logs, cerr = vf.run_cases_v("c19", IMPORTS, DEFS, checks.items, shard=25)
    if cerr:
        ck.broken("correspondence:coq-eval", cerr)
    for cid in sorted(set(failing)):
        case, label = checks.where[cid]
        ck.broken("correspondence:%s case %s" % (label, case), "model (F64 instance) and implementation disagree")
    ck.cov["model_checks_evaluated_in_coq"] = len(checks.items)
    ck.cov["traces_validated_against_impl"] = len(meta) + len(meta2)
    ck.cov["rule"] = "3..40 knots, spacings 1e-4..1e4 (uniform / irregular), arbitrary ordinates and straight lines, queries at knots and inside every interval; convex quadratics in 2..6 dimensions with condition <= 100, 3/10/4000 iterations; polylines with dyadic ordinates for the trapezoid rule"
    ck.assumptions += ["convergence of Nelder-Mead on convex quadratics is validated, not a theorem"]


def replay(ck, rp):
    return 1
