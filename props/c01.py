"""C01 — PCA is an exact orthogonal decomposition that accounts for all the variance."""
import math
import numpy as np
import vf
from props import c10

IMPORTS = """From Coq Require Import Floats ZArith.
From mathcomp Require Import ssreflect ssrfun ssrbool eqtype ssrnat seq.
From LS Require Import NumOps F64Ops Kernels Preprocess Pca.
Local Open Scope float_scope.
"""
DEFS = """Definition REL := 0x1p-40.
Definition mchk (a b : seq (seq float)) := m_agree REL (mmax b) a b.
Definition vchk (a b : seq float) := v_agree REL (vmax b) a b.
(* scores/loadings of the implementation are given component-major (one vector per component) *)
Definition pca_ok (scaling : Z) (npc : nat) (X : seq (seq float)) (T P D : seq (seq float)) (ve avg sc : seq float) (ticks : nat) : bool :=
  match pca_fit 200000 scaling npc X with
  | Ok M => [&& mchk (pm_scores M) T, mchk (pm_loadings M) P, mchk (pm_dmodx M) D, vchk (pm_varexp M) ve,
                vchk (pm_avg M) avg, vchk (pm_scale M) sc & sumn (pm_iters M) == ticks]
  | Err _ => false end.
Definition predict_ok (avg sc : seq float) (P : seq (seq float)) (npc : nat) (X : seq (seq float)) (T : seq (seq float)) :=
  mchk (pca_predict avg sc P npc X) T.
Definition back_ok (T P : seq (seq float)) (avg sc : seq float) npc rows cols (B : seq (seq float)) :=
  mchk (pca_backtransform T P avg sc npc rows cols) B.
"""


def gen_data(rng, n, m, kind="general"):
    """finite matrix with column spreads >= 0.02 or exactly 0, arbitrary offsets"""
    r = min(n - 1, m)
    A = np.array([[rng.gauss(0, 1) for _ in range(m)] for _ in range(n)])
    scale = np.array([rng.choice((0.05, 1.0, 1.0, 30.0)) for _ in range(m)])
    off = np.array([rng.choice((0.0, rng.uniform(-100, 100), rng.uniform(-3, 3))) for _ in range(m)])
    X = A * scale + off
    if kind == "small":
        X = X * 1e-3
        for j in range(m):
            sd = X[:, j].std(ddof=1)
            if sd < 0.02:
                X[:, j] = (X[:, j] - X[:, j].mean()) * (0.025 / sd) + X[:, j].mean()
    return X.tolist()


def cols(M):
    return [list(c) for c in zip(*M)] if M else []


def run(ck, rng, tier, prop="C01"):
    thorough = tier == "thorough"
    ck.prove("Properties_" + prop)
    exe = vf.build_driver("drv_pca")
    lines, meta = [], []
    N = 60 if not thorough else 600
    for c in range(N):
        n = rng.randint(2, 60 if thorough else 20)
        m = rng.randint(1, 25 if thorough else 8)
        scaling = rng.choice((-1, 0, 1, 2, 3, 4, 5))
        kind = rng.choice(("general", "general", "general", "small"))
        if c < 4:
            # every run: no centring (-1) on a matrix with no more rows than columns, every admissible
            # component requested (the rank is then the number of rows, not rows - 1)
            n, scaling = rng.randint(2, 5), -1
            m = n + rng.randint(0, 3)
            kind = "general"
        X = gen_data(rng, n, m, kind)
        if c in (4, 5):
            # no centring, several workers, one cell NEXT TO the missing-value code but outside its window (an ordinary number
            # for every kernel, threaded or not)
            scaling, kind = -1, "general"
            X[rng.randrange(n)][rng.randrange(m)] = (99999999.5, 99999998.6)[c - 4]
        if c == 7:
            # more variables than objects under range scaling (option 4), every admissible component
            n, m, scaling, kind = rng.randint(3, 5), rng.randint(7, 9), 4, "general"
            X = gen_data(rng, n, m, kind)
        if c == 6:
            # exactly uncorrelated, centred variables (a factorial-type design) with the dominant one in the middle
            n, m, scaling, kind = 8, rng.randint(3, 5), 0, "general"
            Qd, _ = np.linalg.qr(np.array([[rng.gauss(0, 1) for _ in range(m)] for _ in range(n)]))
            Qd = Qd - Qd.mean(axis=0)
            Qd, _ = np.linalg.qr(Qd)
            X = (Qd * np.array(([2.0, 8.0, 4.0, 1.0, 3.0])[:m]) + np.array([rng.uniform(-3, 3) for _ in range(m)])).tolist()
        if c == 8:
            # two leading eigenvalues a hair apart (ratio 1 - 2e-4): the first component needs of the order of 1e4 inner iterations,
            # the others follow in the same call; all components requested, one thread
            n, m, scaling, kind = 5, 3, 0, "general"
            Qd, _ = np.linalg.qr(np.array([[rng.gauss(0, 1) for _ in range(m)] for _ in range(n)]))
            Qd = Qd - Qd.mean(axis=0)
            Qd, _ = np.linalg.qr(Qd)
            Vd, _ = np.linalg.qr(np.array([[rng.gauss(0, 1) for _ in range(m)] for _ in range(m)]))
            X = ((Qd * np.array([1.0, math.sqrt(1 - 2e-4), 0.3])) @ Vd.T + np.array([rng.uniform(-3, 3) for _ in range(m)])).tolist()
            ck.count("leading eigenvalues a hair apart")
        if c == 9:
            # a well-determined last component carrying less than 1e-10 of the total sum of squares (spreads 1000, 900 and 0.008),
            # centring only, every component requested
            n, m, scaling, kind = 8, 3, 0, "general"
            Qd, _ = np.linalg.qr(np.array([[rng.gauss(0, 1) for _ in range(m)] for _ in range(n)]))
            Qd = Qd - Qd.mean(axis=0)
            Qd, _ = np.linalg.qr(Qd)
            Vd, _ = np.linalg.qr(np.array([[rng.gauss(0, 1) for _ in range(m)] for _ in range(m)]))
            X = ((Qd * np.array([1e3, 9e2, 8e-3])) @ Vd.T + np.array([rng.uniform(-3, 3) for _ in range(m)])).tolist()
            ck.count("last component below 1e-10 of the total sum of squares")
        if c in (11, 12):
            # a variable that is already centred (stored mean within 1e-12 of 0) among ordinary ones, scaling options 1 and 3
            n, m, scaling, kind = rng.randint(8, 12), 4, (1, 3)[c - 11], "general"
            X = gen_data(rng, n, m, kind)
            Xa_ = np.array(X); j_ = rng.randrange(m)
            Xa_[:, j_] = Xa_[:, j_] - Xa_[:, j_].mean()
            X = Xa_.tolist()
            ck.count("a pre-centred variable")
        if c == 10:
            # the column of largest variance exactly uncorrelated with the dominant direction (a designed data set: x3 = +-1.2
            # alternating, x1 and x2 strongly correlated with each other and exactly uncorrelated with x3): known finding
            n, m, scaling, kind = 8, 3, 0, "general"
            h1 = np.array([1.0, 1, -1, -1, 1, 1, -1, -1]); h2 = np.array([1.0, 1, 1, 1, -1, -1, -1, -1]); h3 = np.array([1.0, -1, 1, -1, 1, -1, 1, -1])
            X = np.column_stack([h1, h1 + 0.25 * h2, 1.25 * h3]).tolist()
            ck.count("largest-variance column uncorrelated with the dominant direction")
        from props import c02
        Xc = c02.preprocess(np.array(X), scaling)
        rank = int(np.linalg.matrix_rank(Xc, tol=1e-8 * max(1.0, np.abs(Xc).max())))
        if rank < 1:
            continue
        npc = rng.choice((1, rank, rank, rng.randint(1, rank)))
        if c < 4 or c in (7, 8, 9, 10):
            npc = rank
        nproc = rng.choice((1, 1, 2, 3, 5, 8, 16))
        if c in (4, 5):
            nproc = (2, 4)[c - 4]
        if c in (8, 9, 10):
            nproc = 1
        New = [[rng.gauss(0, 1) for _ in range(m)] for _ in range(2)]
        lines.append("pca %s %s %d %d %d" % (vf.fmt_mat(X, m), vf.fmt_mat(New, m), scaling, npc, nproc))
        meta.append((X, New, scaling, npc, nproc, rank, kind))
        ck.count("scaling %d" % scaling)
        ck.count("nproc %d" % nproc)
        ck.count("kind %s" % kind)
    outs = vf.run_driver_cases(ck, exe, lines, lambda k: ("PCA", {"X": meta[k][0], "scaling": meta[k][2], "npc": meta[k][3], "threads": meta[k][4]}),
                               header="cap 400000\n", timeout=1500)
    vf.reuse_scan(ck, "drv_pca", outs, lambda k: {"X": meta[k][0], "scaling": meta[k][2], "npc": meta[k][3]})
    checks = vf.Checks()
    cm, cv = vf.coq_mat, vf.coq_vec
    for i, (mt, o) in enumerate(zip(meta, outs)):
        if o is None:
            continue
        nf_ = None if o.get("nonterminating") else vf.first_nonfinite(o)
        if nf_:
            # finite in-domain data: every stored result is a finite number (tolerance comparisons below are blind to NaN)
            ck.fail("PCA", "not_finite", "the output `%s` holds NaN/Inf" % nf_, {"case": str(mt)[:3000]})
            continue
        X, New, scaling, npc, nproc, rank, kind = mt
        n, m = len(X), len(X[0])
        ck.case(("pca", n, m, scaling, npc, repr(X[0])), nontrivial=n >= 3 and npc >= 1,
                sample={"shape": (n, m), "scaling": scaling, "npc": npc, "rank": rank, "threads": nproc, "kind": kind} if i % 17 == 0 else None)
        if o.get("nonterminating"):
            ck.fail("PCA", "nontermination_full_rank_request", "PCA did not return within %d inner iterations although npc <= rank" % 400000,
                    {"X": X, "scaling": scaling, "npc": npc})
            continue
        if len(o["scores"]) != n or (n and len(o["scores"][0]) != npc) or len(o["loadings"]) != m or (m and len(o["loadings"][0]) != npc) or len(o["varexp"]) != npc:
            ck.fail("PCA", "component_count", "%d components requested (rank %d after preprocessing), the model holds %s scores / %s loadings / %d explained variances" % (
                npc, rank, np.array(o["scores"]).shape, np.array(o["loadings"]).shape, len(o["varexp"])), {"X": X, "scaling": scaling, "npc": npc})
            continue
        T, P, D = cols(o["scores"]), cols(o["loadings"]), cols(o["dmodx"])
        # model correspondence is evaluated for moderately sized cases (iteration counts can be large)
        if o["ticks"] <= 4000 and n * m <= 400:
            checks.add(i, "fit", "pca_ok (%d)%%Z %d%%N %s %s %s %s %s %s %s %d%%N" % (
                scaling, npc, cm(X), cm(T), cm(P), cm(D), cv(o["varexp"]), cv(o["avg"]), cv(o["scale"]), o["ticks"]))
            checks.add(i, "predict_new", "predict_ok %s %s %s %d%%N %s %s" % (cv(o["avg"]), cv(o["scale"]), cm(P), npc, cm(New), cm(cols(o["pred_new"]))))
            checks.add(i, "backtransform", "back_ok %s %s %s %s %d%%N %d%%N %d%%N %s" % (cm(T), cm(P), cv(o["avg"]), cv(o["scale"]), npc, n, m, cm(o["back"])))
        # ---- direct predicates (the theorem statements evaluated on the implementation's output)
        Tm, Pm = np.array(o["scores"]), np.array(o["loadings"])
        # preprocessed data by an independent computation
        Xa = np.array(X)
        if scaling >= 0:
            avg = Xa.mean(axis=0)
            sc = np.array([c10.oracle_stats(list(Xa[:, j]), scaling)[1] for j in range(m)])
            E0 = Xa - avg
            for j in range(m):
                E0[:, j] = 0.0 if abs(sc[j]) < 1e-3 else E0[:, j] / sc[j]
        else:
            E0 = Xa.copy()
        nrm = max(np.abs(E0).max(), 1e-300)
        tol = 1e-8
        bad = None
        G = Pm.T @ Pm
        if np.abs(G - np.eye(npc)).max() > tol:
            bad = ("loadings_not_orthonormal", "max |P'P - I| = %.3g" % np.abs(G - np.eye(npc)).max())
        Er = E0 - Tm @ Pm.T
        # (loadings are orthogonal to the convergence tolerance only: the bound grows with the number of components removed)
        if bad is None and np.abs(Er @ Pm).max() > tol * nrm * max(1, n) * max(1.0, npc / 2.0):
            bad = ("residual_not_orthogonal", "max |(E0 - TP')P| = %.3g" % np.abs(Er @ Pm).max())
        # scores = successive projections
        Ek = E0.copy()
        if bad is None:
            for k in range(npc):
                tk = Ek @ Pm[:, k]
                if np.abs(tk - Tm[:, k]).max() > 1e-7 * nrm * max(1, m):
                    bad = ("scores_not_projections", "component %d: max |t - E_k p| = %.3g" % (k, np.abs(tk - Tm[:, k]).max()))
                    break
                Ek = Ek - np.outer(Tm[:, k], Pm[:, k])
        ve = np.array(o["varexp"])
        ss = (E0 ** 2).sum()
        if bad is None and (ve < -1e-9).any():
            bad = ("varexp_negative", "explained variance %s" % ve)
        if bad is None and ve.sum() > 100 * (1 + 1e-4):
            bad = ("varexp_sum_gt_100", "sum of explained variances %.9g" % ve.sum())
        if bad is None and np.abs(ve - 100 * (Tm ** 2).sum(axis=0) / ss).max() > 1e-3 * 100:
            bad = ("varexp_not_score_ss", "varexp %s vs 100 |t|^2/ss %s" % (ve, 100 * (Tm ** 2).sum(axis=0) / ss))
        full = npc == m or npc == rank
        if bad is None and npc >= min(rank, m) and abs(ve.sum() - 100) > 1e-3:
            bad = ("varexp_sum_not_100", "all components taken but explained variances sum to %.9g" % ve.sum())
        if bad is None and any(ve[k + 1] > ve[k] * (1 + 1e-6) + 1e-9 for k in range(npc - 1)):
            bad = ("varexp_increasing", "explained variances not non-increasing: %s" % ve)
            # every extracted component a true principal axis (its share is an eigenvalue share of the cross-product matrix, all
            # distinct ones) and only their ORDER wrong: the iteration stopped at a non-dominant stationary direction because the
            # start column (largest variance) has no (or a < 1e-4) component along the dominant one — the known finding
            lam = np.sort(np.linalg.eigvalsh(E0.T @ E0))[::-1]
            shares = 100 * lam / max(lam.sum(), 1e-300)
            left = list(shares)
            ok_ = True
            for v in ve:
                j_ = min(range(len(left)), key=lambda q: abs(left[q] - v)) if left else None
                if j_ is None or abs(left[j_] - v) > 1e-6 * 100:
                    ok_ = False
                    break
                left.pop(j_)
            if ok_:
                bad = ("components_out_of_order", "every component is a principal axis but their explained variances are not non-increasing: %s" % ve)
        if bad is None and npc >= min(rank, m):
            B = np.array(o["back"])
            keep = [j for j in range(m) if scaling < 0 or abs(sc[j]) >= 1e-3 or Xa[:, j].std() == 0]
            if len(keep) and np.abs(B[:, keep] - Xa[:, keep]).max() > 1e-6 * max(1.0, np.abs(Xa).max()):
                bad = ("backtransform", "scores x loadings' back-transformed differs from the input by %.3g" % np.abs(B[:, keep] - Xa[:, keep]).max())
        if bad is None and np.abs(np.array(o["pred_same"]) - Tm).max() > 1e-7 * max(1.0, np.abs(Tm).max()):
            bad = ("projection_roundtrip", "projecting the training matrix gives scores differing by %.3g" % np.abs(np.array(o["pred_same"]) - Tm).max())
        if bad is None and "resid_half" in o:
            # GetResidualMatrix: preprocessed data minus the first k components, orthogonal to their loadings
            for nm, k in (("resid_all", Tm.shape[1]), ("resid_half", (Tm.shape[1] + 1) // 2)):
                Rk = np.array(o[nm])
                ref = E0 - Tm[:, :k] @ Pm[:, :k].T
                if Rk.shape != ref.shape or np.abs(Rk - ref).max() > 1e-7 * nrm * max(1, m):
                    bad = ("residual_matrix", "GetResidualMatrix(%d components) differs from preprocessed data - T P' by %.3g" % (k, np.abs(Rk - ref).max() if Rk.shape == ref.shape else float("nan")))
                    break
                if np.abs(Rk @ Pm[:, :k]).max() > tol * nrm * max(1, n):
                    bad = ("residual_matrix_not_orthogonal", "residual after %d components is not orthogonal to their loadings: max |R P| = %.3g" % (k, np.abs(Rk @ Pm[:, :k]).max()))
                    break
        if bad:
            small = kind == "small" and scaling in (-1, 0)
            ck.fail("PCA", bad[0], bad[1] + " (shape %dx%d scaling %d npc %d)" % (n, m, scaling, npc),
                    {"X": X, "scaling": scaling, "npc": npc, "threads": nproc, "kind": kind})
    failing, logs, cerr = vf.run_cases_v(prop.lower(), IMPORTS, DEFS, checks.items, shard=12, timeout=1500)
    if cerr:
        ck.broken("correspondence:coq-eval", cerr)
    for cid in sorted(set(failing)):
        case, label = checks.where[cid]
        ck.broken("correspondence:%s case %d (shape %dx%d scaling %d npc %d)" % (label, case, len(meta[case][0]), len(meta[case][0][0]), meta[case][2], meta[case][3]),
                  "model (F64 instance) and implementation disagree")
    ck.cov["model_checks_evaluated_in_coq"] = len(checks.items)
    ck.cov["traces_validated_against_impl"] = len(meta)
    ck.cov["rule"] = ("matrices 2..60 x 1..25, column spreads >= 0.02, offsets, 7 scaling options, npc in 1..rank, processor override 1..16; "
                      "a quarter of the cases at magnitude 1e-3; non-trivial = at least 3 rows")
    ck.assumptions += ["theorems are over exact real closed fields; rounding of the C code is compared with the binary64 model, not bounded",
                       "numpy as the independent oracle of the direct predicates (tolerance 1e-8 relative)",
                       "MT kernels equal the sequential ones (C13), so the model has no thread parameter; the harness varies the processor count 1..16"]


def replay(ck, rp):
    return 1
