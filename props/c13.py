"""C13 — multithreaded kernels equal their sequential definition for any thread count."""
import math, os
import vf

IMPORTS = """From Coq Require Import Floats ZArith.
From mathcomp Require Import ssreflect ssrfun ssrbool eqtype ssrnat seq.
From LS Require Import NumOps F64Ops Kernels Gen_Leaf Distance.
Local Open Scope float_scope.
"""
DEFS = """Definition REL := 0x1p-44.
Definition mchk (a b : seq (seq float)) := m_agree REL (mmax b) a b.
Definition vchk (a b : seq float) := v_agree REL (vmax b) a b.
Definition zl_eq (a b : seq Z) := (size a == size b) && all (fun p => Z.eqb p.1 p.2) (zip a b).
Definition cidx_table (n : nat) : seq Z :=
  flatten (map (fun i => map (fun j => cidx (Z.of_nat i) (Z.of_nat j) (Z.of_nat n)) (iota i.+1 (n - i.+1))) (iota 0 n)).
Definition cidx_table_sw (n : nat) : seq Z :=
  flatten (map (fun i => map (fun j => cidx (Z.of_nat j) (Z.of_nat i) (Z.of_nat n)) (iota i.+1 (n - i.+1))) (iota 0 n)).
"""
SWEEP_V = """From Coq Require Import List Arith Bool.
Import ListNotations.
From LS Require Import Gen_Leaf Slicing.
Definition leqb (a b : list nat) := if list_eq_dec Nat.eq_dec a b then true else false.
Definition bad : list (nat * nat * nat) :=
  flat_map (fun k => flat_map (fun rows => flat_map (fun nth =>
     if leqb (cover ((nth_default (fun _ _ => []) all_slicers k) rows nth)) (seq 0 rows) then [] else [(k, rows, nth)])
     (seq 1 %d)) (seq 0 %d)) (seq 0 (length all_slicers)).
Eval vm_compute in (length all_slicers, length bad, firstn 5 bad).
"""
METRICS = ["Euclidean", "SqEuclidean", "Manhattan", "Cosine"]


def run(ck, rng, tier):
    thorough = tier == "thorough"
    r = ck.prove("Properties_C13")
    gen = getattr(ck, "gen", {}).get("t_leaf", {})
    ck.cov["slicing_sites_regenerated"] = gen.get("slicers")
    if gen.get("errors"):
        ck.broken("translator:T-leaf", "; ".join(gen["errors"]))
    exe = vf.build_driver("drv_c13")
    # --- exhaustive sweep of the property's stated range on the implementation
    RMAX, TMAX = (40, 24)
    lines = ["sweep %d %d" % (R, T) for R in range(0, RMAX + 1) for T in range(1, TMAX + 1)]
    lines += ["cidx %d" % n for n in range(0, 65 if thorough else 41)]
    dist_meta = []
    for _ in range(25 if not thorough else 200):
        n1, n2, c = rng.randint(1, 60 if thorough else 25), rng.randint(1, 12), rng.randint(1, 10)
        mag = rng.choice((0, 0, 3, -3, -6, 6)) if _ >= 5 else (-6, -5, 6, 78, -80)[_]   # units from 1e-6 to 1e6 on every run, and two extreme ones
        m1 = [[rng.gauss(0, 1) * 10 ** mag for _ in range(c)] for _ in range(n1)]
        m2 = [[rng.gauss(0, 1) * 10 ** mag for _ in range(c)] for _ in range(n2)]
        T = rng.choice((1, 2, 3, 5, 8, 16))
        lines.append("dist %s %s %d" % (vf.fmt_mat(m1, c), vf.fmt_mat(m2, c), T))
        dist_meta.append((m1, m2, T))
    rc, outs, err = vf.run_driver(exe, "\n".join(lines) + "\n", timeout=1500)
    nsweep = (RMAX + 1) * TMAX
    ncidx = 65 if thorough else 41
    if rc != 0 or len(outs) != nsweep + ncidx + len(dist_meta):
        if len(outs) < len(lines):
            # the library died on a concrete input: that input is the failing case
            op = lines[len(outs)]
            ck.fail("kernel:" + op.split()[0], "crash", "the library aborted or crashed (rc %s) on `%s`: %s" % (rc, op[:120], (err.strip().splitlines() or [""])[-1][:200]),
                    {"input": op[:2000], "stderr": err[-800:], "replay": "echo '<input>' | drv_c13"})
        else:
            ck.broken("driver drv_c13", "rc=%s cases=%d %s" % (rc, len(outs), err[-800:]))
        return
    k = 0
    for R in range(0, RMAX + 1):
        for T in range(1, TMAX + 1):
            o = outs[k]
            k += 1
            ck.case(("sweep", R, T), nontrivial=R > 0, sample={"rows": R, "threads": T, "result": o} if (R, T) in ((10, 4), (3, 8)) else None)
            for name, v in o.items():
                if v != -1:
                    site = name.split("_")[0]
                    ck.fail("slicing:" + site, "differs_from_sequential_kernel" if ("missing" in site or site == "labels") else "row_not_processed_once",
                            "%s: first bad row/col %d with rows=%d threads=%d" % (name, v, R, T),
                            {"rows": R, "threads": T, "kernel": name, "first_bad": v, "replay": "echo 'sweep %d %d' | drv_c13" % (R, T)})
    ck.count("sweep (rows 0..40 x threads 1..24)", nsweep)
    # --- generated slicing loops: the same sweep on the regenerated model (search aid, not the proof)
    swv = os.path.join(vf.COQ, "cases")
    os.makedirs(swv, exist_ok=True)
    open(os.path.join(swv, "c13_sweep.v"), "w").write(SWEEP_V % (TMAX, RMAX + 1))
    rc2, log = vf.coq_eval("cases/c13_sweep.v")
    import re
    m = re.search(r"=\s*\((\d+),\s*(\d+),\s*(.*?)\)\s*:", log, re.S)
    if rc2 != 0 or not m:
        ck.broken("model-sweep", log[-800:])
    else:
        ck.cov["model_sweep"] = {"slicers": int(m.group(1)), "bad": int(m.group(2)), "first": m.group(3).strip()}
        if int(m.group(2)) != 0:
            ck.broken("model-sweep: generated slicing loop does not partition", m.group(3))
    # --- condensed index: implementation table vs regenerated function, exhaustively n <= 40/64
    checks = vf.Checks()
    for n in range(ncidx):
        o = outs[k]
        k += 1
        ck.case(("cidx", n), nontrivial=n >= 3)
        tab = o["cidx"]
        checks.add(("cidx", n), "table", "zl_eq (cidx_table %d) %s" % (n, vf.coq_zlist(tab)))
        checks.add(("cidx", n), "table_swapped", "zl_eq (cidx_table_sw %d) %s" % (n, vf.coq_zlist(o["cidx_swapped"])))
        want = list(range(n * (n - 1) // 2))
        if sorted(tab) != want:
            ck.fail("square_to_condensed_index", "not_bijective", "index map on n=%d is not a bijection onto 0..n(n-1)/2-1" % n, {"n": n, "table": tab})
        if o["cidx_swapped"] != tab:
            ck.fail("square_to_condensed_index", "not_symmetric", "cidx(j,i,n) != cidx(i,j,n) for n=%d" % n, {"n": n})
    ck.count("cidx tables", ncidx)
    # --- distance values
    for (m1, m2, T) in dist_meta:
        o = outs[k]
        cid = k
        k += 1
        n1 = len(m1)
        ck.case(("dist", n1, len(m2), len(m1[0]), T, repr(m1[0])), sample={"op": "dist", "shape": (n1, len(m2), len(m1[0])), "threads": T} if cid % 9 == 0 else None)
        for me, name in enumerate(METRICS):
            checks.add(cid, "square/" + name, "mchk (dist_matrix %s %s %s) %s" % (name, vf.coq_mat(m1), vf.coq_mat(m2), vf.coq_mat(o["square%d" % me])))
            checks.add(cid, "condensed/" + name, "vchk (condensed %s %s) %s" % (name, vf.coq_mat(m1), vf.coq_vec(o["cond%d" % me])))
            S = o["self%d" % me]
            C = o["cond%d" % me]
            bad = None
            if repr(o["st%d" % me]) != repr(o["square%d" % me]):
                bad = "the threaded table differs from the single-threaded routine (%s_ST)" % name
            if repr(S) != repr(o["selfcopy%d" % me]):
                bad = "CalculateDistance(m, m) differs from CalculateDistance(m, copy of m)"
            idx = 0
            for i in range(n1):
                for j in range(i + 1, n1):
                    if S[j][i] != C[idx] and not (S[j][i] != S[j][i] and C[idx] != C[idx]):
                        bad = "condensed[%d] != square[%d][%d]" % (idx, i, j)
                    idx += 1
            if name != "Cosine":
                for i in range(n1):
                    if S[i][i] != 0:
                        bad = "self distance not zero"
                    for j in range(n1):
                        if S[i][j] != S[j][i]:
                            bad = "not symmetric"
                        if S[i][j] < 0:
                            bad = "negative distance"
            else:
                for i in range(n1):
                    for j in range(n1):
                        if S[i][j] != S[j][i] and abs(S[i][j] - S[j][i]) > 1e-15:
                            bad = "cosine not symmetric"
            if name in ("Euclidean", "Manhattan") and n1 <= 30:
                for i in range(n1):
                    for j in range(n1):
                        for l in range(n1):
                            if S[i][j] > S[i][l] + S[l][j] + 1e-12 * (S[i][l] + S[l][j] + 1e-300):
                                bad = "triangle inequality violated"
            if bad:
                ck.fail("distance:" + name, "definition", bad, {"m1": m1, "threads": T})
    failing, logs, cerr = vf.run_cases_v("c13", IMPORTS, DEFS, checks.items, shard=60)
    if cerr:
        ck.broken("correspondence:coq-eval", cerr)
    for cid in sorted(set(failing)):
        case, label = checks.where[cid]
        ck.broken("correspondence:%s case %s" % (label, case), "model (regenerated cidx / F64 distances) and implementation disagree")
    if ck.obl_broken and not ck.failures:
        # search: a proof obligation / the correspondence broke; widen the implementation sweep
        ext = ["cidx %d" % n for n in range(ncidx, 201)] + ["sweep %d %d" % (R, T) for R in range(41, 80, 3) for T in (1, 2, 7, 25, 32, 64)]
        rc3, outs3, err3 = vf.run_driver(exe, "\n".join(ext) + "\n", timeout=1500)
        for ln, o in zip(ext, outs3):
            tk = ln.split()
            if tk[0] == "cidx":
                n = int(tk[1])
                if sorted(o["cidx"]) != list(range(n * (n - 1) // 2)) or o["cidx"] != o["cidx_swapped"]:
                    ck.fail("square_to_condensed_index", "not_bijective", "index map on n=%d is not a bijection / not symmetric" % n, {"n": n})
                    break
            else:
                for name, v in o.items():
                    if v != -1:
                        ck.fail("slicing:" + name.split("_")[0], "row_not_processed_once", "%s rows=%s threads=%s" % (name, tk[1], tk[2]), {"rows": int(tk[1]), "threads": int(tk[2])})
        ck.cov["search_extended"] = len(ext)
    ck.cov["model_checks_evaluated_in_coq"] = len(checks.items)
    ck.cov["traces_validated_against_impl"] = len(outs)
    ck.cov["exhaustive"] = True
    ck.cov["rule"] = ("exhaustive sweep rows 0..40 x threads 1..24 of every slicing kernel on the implementation (poisoned / zero outputs, reference by plain "
                      "definition) and on the regenerated model; cidx tables exhaustively for n <= %d; random matrices for distance values; non-trivial = rows > 0" % (ncidx - 1))
    ck.assumptions += ["(size_t)ceil((double)a/(double)b) = ceiling division for a < 2^31, 0 < b <= 2^16 (T-leaf)",
                       "pthread create/join modelled as fork/join at row-step granularity; hardware-level races not modelled",
                       "slicing arithmetic read over unbounded naturals (rows < 2^31)"]


def replay(ck, rp):
    exe = vf.build_driver("drv_c13")
    c = rp["case"]
    rc, outs, err = vf.run_driver(exe, "sweep %d %d\n" % (c["rows"], c["threads"]))
    print(outs)
    return 0 if all(v == -1 for v in outs[0].values()) else 1
