"""C17 — object selection and k-means return valid, optimal-by-construction results."""
import math
import numpy as np
import vf

IMPORTS = """From Coq Require Import Floats ZArith.
From mathcomp Require Import ssreflect ssrfun ssrbool eqtype ssrnat seq.
From LS Require Import NumOps F64Ops Kernels Pca Distance Select.
Local Open Scope float_scope.
"""
DEFS = """Definition sel_ok (me : metric) (X : seq (seq float)) (n : nat) (a b : seq nat) : bool :=
  (maxdis me X n == a) && (maxdis_fast me X n == b).
Definition km_ok (X : seq (seq float)) (ncl : nat) (labels : seq nat) (cents : seq (seq float)) : bool :=
  match kmeans_maxdis X ncl with
  | Some (l, c, _) => (l == labels) && m_agree 0x1p-40 (mmax cents) c cents
  | None => false end.
"""
METRIC = {0: "Euclidean", 1: "Manhattan", 2: "Cosine"}


def dist(a, b, me):
    a, b = np.array(a), np.array(b)
    if me == 0:
        return math.sqrt(((a - b) ** 2).sum())
    if me == 1:
        return np.abs(a - b).sum()
    return float(a @ b / (math.sqrt(a @ a) * math.sqrt(b @ b)))


def nlist(v):
    return "[:: " + "; ".join("%d%%N" % x for x in v) + "]" if len(v) else "[::]"


def run(ck, rng, tier):
    thorough = tier == "thorough"
    ck.prove("Properties_C17")
    exe = vf.build_driver("drv_sel")
    lines, meta = [], []
    for c in range(40 if not thorough else 400):
        n, m = rng.randint(3, 80 if thorough else 25), rng.randint(1, 6)
        X = [[rng.gauss(0, 1) * rng.choice((1.0, 10.0)) + rng.uniform(-3, 3) for _ in range(m)] for _ in range(n)]
        nsel = rng.randint(1, n)
        metric = rng.choice((0, 0, 1, 2))
        nth = rng.choice((1, 2, 3, 8))
        lines.append("select %s %d %d %d %d" % (vf.fmt_mat(X, m), nsel, metric, nth, rng.randint(1, 10 ** 6)))
        meta.append(("select", X, nsel, metric, nth))
        ck.count("select metric %s" % METRIC[metric])
    for c in range(30 if not thorough else 300):
        n, m = rng.randint(6, 80 if thorough else 30), rng.randint(1, 6)
        ncl = rng.randint(1, 6)
        cents = [[rng.uniform(-10, 10) for _ in range(m)] for _ in range(ncl)]
        X = [[cents[i % ncl][j] + rng.gauss(0, 1) for j in range(m)] for i in range(n)]
        init = rng.choice((0, 1, 2, 3, 3))
        seed = rng.randint(1, 10 ** 6)
        for nth in (1, rng.choice((2, 3, 5, 8))):
            lines.append("kmeans %s %d %d %d %d" % (vf.fmt_mat(X, m), ncl, init, nth, seed))
            meta.append(("kmeans", X, ncl, init, nth))
        ck.count("kmeans init %d" % init)
    rc, outs, err = vf.run_driver(exe, "\n".join(lines) + "\n", timeout=900)
    if rc != 0 or len(outs) != len(meta):
        ck.broken("driver drv_sel", "rc=%s cases=%d/%d %s" % (rc, len(outs), len(meta), err[-600:]))
        return
    checks = vf.Checks()
    cm = vf.coq_mat
    prev = None
    for i, (mt, o) in enumerate(zip(meta, outs)):
        if mt[0] == "select":
            _, X, nsel, metric, nth = mt
            n = len(X)
            ck.case(("select", n, len(X[0]), nsel, metric, repr(X[0])), sample={"objects": n, "variables": len(X[0]), "select": nsel, "metric": METRIC[metric], "threads": nth} if i % 13 == 0 else None)
            if n <= 14:
                checks.add(i, "maxdis", "sel_ok %s %s %d%%N %s %s" % (METRIC[metric], cm(X), nsel, nlist(o["maxdis"]), nlist(o["maxdis_fast"])))
            for name in ("mdc", "maxdis", "maxdis_fast", "kmeanspp"):
                s = o[name]
                if len(s) != nsel or len(set(s)) != len(s) or any(not (0 <= v < n) for v in s):
                    ck.fail(name, "invalid_selection", "%s returned %s for %d of %d objects (distinct in-range indices expected)" % (name, s[:10], nsel, n), {"X": X, "n": nsel, "metric": metric})
            a, b = o["maxdis"], o["maxdis_fast"]
            if a != b:
                ck.fail("MaxDis_Fast", "differs_from_maxdis", "MaxDis returns %s, MaxDis_Fast %s" % (a[:8], b[:8]), {"X": X, "n": nsel, "metric": metric})
            elif len(a) == nsel:
                c_ = np.array(X).mean(axis=0)
                dc = [math.sqrt(((np.array(r) - c_) ** 2).sum()) for r in X]
                if dc[a[0]] < max(dc) * (1 - 1e-12):
                    ck.fail("MaxDis", "first_not_farthest", "first element %d is not the object farthest from the centroid" % a[0], {"X": X, "n": nsel, "metric": metric})
                else:
                    for k in range(1, len(a)):
                        mind = {j: min(dist(X[j], X[s], metric) for s in a[:k]) for j in range(n) if j not in a[:k]}
                        if mind[a[k]] < max(mind.values()) - 1e-12 * abs(max(mind.values())) - 1e-300:
                            ck.fail("MaxDis", "not_maxmin", "element %d (object %d) does not maximise the minimum distance to those already chosen" % (k, a[k]), {"X": X, "n": nsel, "metric": metric})
                            break
        else:
            _, X, ncl, init, nth = mt
            n, m = len(X), len(X[0])
            ck.case(("kmeans", n, m, ncl, init, nth, repr(X[0])), sample={"objects": n, "clusters": ncl, "initializer": init, "threads": nth} if i % 13 == 0 else None)
            L, C = o["labels"], np.array(o["centroids"])
            bad = None
            if len(L) != n or any(not (0 <= l < ncl) for l in L):
                bad = ("labels_out_of_range", "labels %s for %d clusters" % (sorted(set(L)), ncl))
            else:
                Xa = np.array(X)
                for k in range(ncl):
                    idx = [j for j in range(n) if L[j] == k]
                    if idx and np.abs(Xa[idx].mean(axis=0) - C[k]).max() > 1e-9 * max(1.0, np.abs(C[k]).max()):
                        bad = ("centroid_not_mean", "centroid %d is not the mean of the objects carrying its label" % k)
                        break
                if bad is None:
                    for j in range(n):
                        dj = [math.sqrt(((Xa[j] - C[k]) ** 2).sum()) for k in range(ncl)]
                        # nearest centroid up to the documented convergence tolerance 1e-3 on centroid coordinates
                        if dj[L[j]] > min(dj) + 2e-3 * math.sqrt(m) + 1e-9:
                            bad = ("label_not_nearest", "object %d carries label %d at distance %.6g, the nearest centroid is at %.6g" % (j, L[j], dj[L[j]], min(dj)))
                            break
            if bad:
                ck.fail("KMeans", bad[0], bad[1] + " (initializer %d, %d threads)" % (init, nth), {"X": X, "nclusters": ncl, "initializer": init})
            if nth == 1:
                prev = (L, C)
                if init == 3 and n <= 16 and ncl <= 3:
                    checks.add(i, "kmeans", "km_ok %s %d%%N %s %s" % (cm(X), ncl, nlist(L), cm(o["centroids"])))
            elif prev is not None:
                if prev[0] != L or np.abs(prev[1] - C).max() > 0:
                    ck.fail("KMeans", "thread_count_dependence", "labels/centroids with %d threads differ from the single-thread result (initializer %d)" % (nth, init), {"X": X, "nclusters": ncl, "initializer": init})
    failing, logs, cerr = vf.run_cases_v("c17", IMPORTS, DEFS, checks.items, shard=8, timeout=1200)
    if cerr:
        ck.broken("correspondence:coq-eval", cerr)
    for cid in sorted(set(failing)):
        case, label = checks.where[cid]
        ck.broken("correspondence:%s case %d" % (label, case), "model (F64 instance) and implementation disagree")
    ck.cov["model_checks_evaluated_in_coq"] = len(checks.items)
    ck.cov["traces_validated_against_impl"] = len(meta)
    ck.cov["rule"] = "data sets 3..80 x 1..6 in general position, selection sizes 1..objects, three metrics, 1..8 threads; clustered data with 1..6 clusters, all four initialisers (random ones seeded), each run with 1 and with k threads"
    ck.assumptions += ["the random initialisers are seeded through srand_ before the call; an empty cluster (re-seeded by a random object in the code) is outside the model"]


def replay(ck, rp):
    return 1
