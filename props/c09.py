"""C09 — CPCA super scores are the PCA scores of the block-scaled concatenated data."""
import math
import numpy as np
import vf
from props import c02

IMPORTS = """From Coq Require Import Floats ZArith.
From mathcomp Require Import ssreflect ssrfun ssrbool eqtype ssrnat seq.
From LS Require Import NumOps F64Ops Kernels Preprocess Pca Cpca.
Local Open Scope float_scope.
"""
DEFS = """Definition REL := 0x1p-36.
Definition mchk (a b : seq (seq float)) := m_agree REL (mmax b) a b.
Definition vchk (a b : seq float) := v_agree REL (vmax b) a b.
(* per component: super score, super weights, block scores (order x rows), block loadings, block expvar, total expvar *)
Definition comp_ok (c : cpca_comp) (t w : seq float) (TT P : seq (seq float)) (bev : seq float) (tev : float) :=
  [&& vchk (cc_t c) t, vchk (cc_w c) w, mchk (cc_T c) TT, all2 (fun a b => vchk a b) (cc_P c) P, v_agree 0x1p-30 100 (cc_bev c) bev & f_agree 0x1p-30 100 (cc_tev c) tev].
Definition cpca_ok (scaling : Z) (npc : nat) (X : seq (seq (seq float))) (ts ws : seq (seq float)) (TTs Ps : seq (seq (seq float)))
   (bevs : seq (seq float)) (tevs : seq float) (ticks : nat) : bool :=
  match cpca_fit 200000 scaling npc X with
  | Ok M => (size (cm_comps M) == size ts) &&
            all (fun x => x) (map (fun c6 => let: (c, t, w, TT, P, bev, tev) := c6 in comp_ok c t w TT P bev tev)
                 (zip (zip (zip (zip (zip (zip (cm_comps M) ts) ws) TTs) Ps) bevs) tevs)) &&
            (sumn (map cc_it (cm_comps M)) == ticks)
  | Err _ => false end.
"""


def cols(M):
    return [list(c) for c in zip(*M)] if M else []


def run(ck, rng, tier):
    thorough = tier == "thorough"
    ck.prove("Properties_C09")
    exe = vf.build_driver("drv_cpca")
    lines, meta = [], []
    for c in range(30 if not thorough else 300):
        nb = rng.randint(2, 4)
        n = rng.randint(5, 30 if thorough else 16)
        widths = [rng.randint(1, 8 if thorough else 5) for _ in range(nb)]
        scaling = rng.choice((0, 1, 2, 3, 4, 5))
        # separated spectrum for the concatenation: build it from U diag(s) V' and cut into blocks
        tot = sum(widths)
        Xc, s = c02.gen_separated(rng, n, tot, rng.choice((1.0, 5.0)))
        if c == 0:
            # a spectrum with distinct but CLOSE eigenvalues (singular-value ratios 0.985): every component needs several
            # hundred inner iterations, a few thousand in total
            nb, n, widths, scaling, tot = 2, 14, [4, 4], 0, 8
            U_ = c02.rand_orth(rng, n); ones_ = np.ones((n, 1)) / math.sqrt(n)
            Q_, _ = np.linalg.qr((U_ - ones_ @ (ones_.T @ U_))[:, :tot + 1])
            Xc = (Q_[:, :tot] * np.array([0.985 ** k for k in range(tot)])) @ c02.rand_orth(rng, tot).T
        elif c == 1:
            # two blocks holding the same data
            nb = 2
            widths = [widths[0], widths[0]]
            tot = 2 * widths[0]
            Xc = np.hstack([Xc[:, :widths[0]], Xc[:, :widths[0]]])
        if c in (2, 3):
            nb, n, widths, tot = 2, max(n, 8), [3, 2], 5
            Xc, s = c02.gen_separated(rng, n, tot, 1.0)
            if c == 2:      # the first variable of the first block is constant, two components
                Xc[:, 0] = 4.0
                scaling = rng.choice((0, 1))
            else:           # a variable far from the origin compared with its spread (4e7 + [0, 30)), autoscaling
                Xc[:, 1] = 4.0e7 + 30.0 * (Xc[:, 1] - Xc[:, 1].min()) / (Xc[:, 1].max() - Xc[:, 1].min() + 1e-300)
                scaling = 1
        if c == 5:
            # autoscaling with a constant variable in the middle of a block (zeroed by the preprocessing)
            nb, n, widths, tot, scaling = 3, max(n, 10), [3, 4, 2], 9, 1
            Xc, s = c02.gen_separated(rng, n, tot, 1.0)
            Xc[:, 1] = 2.5
        if c in (6, 7, 8):
            nb, n, widths, tot = 2, max(n, 9), [3, 2], 5
            Xc, s = c02.gen_separated(rng, n, tot, 1.0)
            if c == 6:      # level scaling (option 5) with a variable whose mean is negative
                scaling = 5
                Xc = Xc - Xc.mean(axis=0) + np.array([4.0, -3.0, 2.5, 6.0, -5.0])
            else:           # centring only, data in units of 1e-3 / 1e-5 (sums of squares below 1e-3 / 1e-9), two components
                scaling = 0
                Xc = (Xc - Xc.mean(axis=0)) * (1e-3, 1e-5)[c - 7] + np.array([0.02, 0.03, 0.05, 0.04, 0.06])
        blocks, c0 = [], 0
        for w in widths:
            blocks.append(Xc[:, c0:c0 + w].copy())
            c0 += w
        npc = rng.randint(1, min(widths))
        nproc = rng.choice((1, 1, 2, 4, 8))
        if c == 0:
            npc, nproc = 4, 1
        if c in (2, 3, 5, 7, 8):
            npc = 2
        # the property presumes regular data: every preprocessed block non-constant, enough rank
        Ebs = [c02.preprocess(b, scaling) for b in blocks]
        if any(np.abs(E).max() < 1e-9 for E in Ebs):
            continue
        if np.linalg.matrix_rank(np.hstack(Ebs), tol=1e-8) < npc:
            continue
        lines.append("cpca %s %d %d %d" % (vf.fmt_tensor([b.tolist() for b in blocks]), scaling, npc, nproc))
        meta.append((blocks, scaling, npc, nproc))
        ck.count("blocks %d" % nb)
        ck.count("scaling %d" % scaling)
    outs = vf.run_driver_cases(ck, exe, lines, lambda k: ("CPCA", {"case": str(meta[k])[:1500]}), header="cap 50000\n", timeout=900)
    checks = vf.Checks()
    cm, cv = vf.coq_mat, vf.coq_vec
    for i, (mt, o) in enumerate(zip(meta, outs)):
        if o is None:
            continue
        nf_ = None if o.get("nonterminating") else vf.first_nonfinite(o)
        if nf_:
            # finite in-domain data: every stored result is a finite number (tolerance comparisons below are blind to NaN)
            ck.fail("CPCA", "not_finite", "the output `%s` holds NaN/Inf" % nf_, {"case": str(mt)[:3000]})
            continue
        blocks, scaling, npc, nproc = mt
        nb, n = len(blocks), blocks[0].shape[0]
        ck.case(("cpca", nb, n, tuple(b.shape[1] for b in blocks), scaling, npc, repr(blocks[0][0].tolist())),
                sample={"blocks": [b.shape for b in blocks], "scaling": scaling, "npc": npc, "threads": nproc} if i % 9 == 0 else None)
        if o.get("nonterminating"):
            ck.fail("CPCA", "nontermination_regular_input", "CPCA did not return within 50000 inner iterations on separated full-rank data", {"blocks": [b.tolist() for b in blocks], "scaling": scaling, "npc": npc})
            continue
        a = np.array(o["super_scores"]).shape[1]
        T = np.array(o["super_scores"])
        W = np.array(o["super_weights"])
        BS = [np.array(o["block_scores.%d" % k]) for k in range(o["block_scores.order"])]      # per component: rows x blocks
        BL = [np.array(o["block_loadings.%d" % b]) for b in range(nb)]                         # per block: cols x npc
        bev = [o["bev.%d" % k] for k in range(o["n_bev"])]
        if o["ticks"] <= (3000 if i else 6000) and n * sum(b.shape[1] for b in blocks) <= 250:
            ts = cols(o["super_scores"]); ws = cols(o["super_weights"])
            TTs = "[:: " + "; ".join(cm(cols(BS[k].tolist())) for k in range(a)) + "]"
            Ps = "[:: " + "; ".join("[:: " + "; ".join(cv(BL[b][:, k].tolist()) for b in range(nb)) + "]" for k in range(a)) + "]"
            Xs = "[:: " + "; ".join(cm(b.tolist()) for b in blocks) + "]"
            checks.add(i, "fit", "cpca_ok (%d)%%Z %d%%N %s %s %s %s %s %s %s %d%%N" % (scaling, npc, Xs, cm(ts), cm(ws), TTs, Ps, cm(bev), cv(o["total_expvar"]), o["ticks"]))
        # ---- direct predicates
        Eb = [c02.preprocess(b, scaling) for b in blocks]
        Xs_ = np.hstack([Eb[b] / math.sqrt(blocks[b].shape[1]) for b in range(nb)])
        w_, V = np.linalg.eigh(Xs_.T @ Xs_)
        order = np.argsort(-w_)
        w_, V = w_[order], V[:, order]
        bad = None
        for k in range(a):
            if k + 1 < len(w_) and w_[k + 1] / w_[k] > 0.81 + 1e-9:
                break
            tp = Xs_ @ V[:, k]
            sgn = 1.0 if abs((tp - T[:, k])).max() <= abs((tp + T[:, k])).max() else -1.0
            if np.abs(sgn * tp - T[:, k]).max() > 2e-3 * max(1e-300, np.abs(tp).max()):
                bad = ("super_scores_not_pca", "component %d: super scores differ from the PCA scores of the block-scaled concatenation by %.3g (relative)" % (k + 1, np.abs(sgn * tp - T[:, k]).max() / np.abs(tp).max()))
                break
            share = 100 * w_[k] / w_.sum()
            if abs(o["total_expvar"][k] - share) > 0.05:
                bad = ("total_expvar", "component %d: total explained variance %.6f vs PCA %.6f" % (k + 1, o["total_expvar"][k], share))
                break
            if np.abs(BS[k] @ W[:, k] - T[:, k]).max() > 1e-8 * max(1.0, np.abs(T[:, k]).max()):
                bad = ("super_score_from_blocks", "super score != block scores x super weights (component %d)" % (k + 1))
                break
        if bad is None:
            for b in range(nb):
                seq_ = [bev[k][b] for k in range(a)]
                if any(x < -1e-9 or x > 100 + 1e-9 for x in seq_) or any(seq_[k + 1] < seq_[k] - 1e-9 for k in range(a - 1)):
                    bad = ("block_expvar", "block %d explained variances not cumulative within [0,100]: %s" % (b, seq_))
                    break
        if bad is None:
            # the projection reproduces the scores of every CONVERGED component, separated or merely distinct eigenvalues
            sep = all(k + 1 >= len(w_) or w_[k + 1] / w_[k] <= 0.975 for k in range(a))
            Pd = np.array(o["pred_super"])
            if sep and np.abs(Pd - T).max() > 2e-3 * max(1e-300, np.abs(T).max()):
                bad = ("projection_roundtrip", "projecting the training tensor gives super scores differing by %.3g" % np.abs(Pd - T).max())
        if bad:
            ck.fail("CPCA", bad[0], bad[1] + " (%d blocks, %d objects, scaling %d, npc %d)" % (nb, n, scaling, npc), {"blocks": [b.tolist() for b in blocks], "scaling": scaling, "npc": npc})
    if checks.items:
        failing, logs, cerr = vf.run_cases_v("c09", IMPORTS, DEFS, checks.items, shard=6, timeout=1500)
        if cerr:
            ck.broken("correspondence:coq-eval", cerr)
        for cid in sorted(set(failing)):
            case, label = checks.where[cid]
            ck.broken("correspondence:%s case %d (scaling %d npc %d)" % (label, case, meta[case][1], meta[case][2]), "model (F64 instance) and implementation disagree")
    ck.cov["model_checks_evaluated_in_coq"] = len(checks.items)
    ck.cov["traces_validated_against_impl"] = len(meta)
    ck.cov["rule"] = "2..4 blocks of 1..8 variables cut from U diag(s) V' with singular-value ratios <= 0.85, 5..30 objects, scalings 0..5, npc 1..min width, 1..8 threads; oracle numpy eigh of the block-scaled concatenation"
    ck.assumptions += ["tolerance 2e-3 relative on converged quantities (criterion 1e-18 on the squared relative score change)"]


def replay(ck, rp):
    return 1
