"""C14 — containers stay memory-safe and shape-consistent under any operation history."""
import math, os, re, subprocess
from concurrent.futures import ThreadPoolExecutor
import vf

MISSING = 99999999.0
NS = 4


class Abort(Exception):
    pass


class Shadow:
    """by-value reference semantics of the container operations (what each operation defines)"""

    def __init__(self):
        self.D = [None] * NS; self.U = [None] * NS; self.I = [None] * NS; self.M = [None] * NS
        self.T = [None] * NS; self.L = [None] * NS; self.S = [None] * NS

    # matrices are (rows, cols, list of rows)
    @staticmethod
    def zeros(r, c):
        return [r, c, [[0.0] * c for _ in range(r)]]

    def apply(self, t):
        """returns ('ok'|'abort'|'ret', value)"""
        op = t[0]
        a = t[1:]
        z = lambda i: int(a[i])
        f = lambda i: float(a[i])
        D, U, I, M, T, L, S = self.D, self.U, self.I, self.M, self.T, self.L, self.S
        try:
            if op in ("dv_new", "ui_new", "iv_new"):
                {"d": D, "u": U, "i": I}[op[0]][z(0)] = [0.0 if op[0] == "d" else 0] * z(1)
            elif op in ("dv_init", "ui_init", "iv_init"):
                {"d": D, "u": U, "i": I}[op[0]][z(0)] = []
            elif op in ("dv_del", "ui_del", "iv_del"):
                {"d": D, "u": U, "i": I}[op[0]][z(0)] = None
            elif op == "dv_resize":
                D[z(0)] = [0.0] * z(1)
            elif op == "ui_resize":
                U[z(0)] = [0] * z(1)
            elif op == "dv_append":
                D[z(0)].append(f(1))
            elif op in ("ui_append", "iv_append"):
                {"u": U, "i": I}[op[0]][z(0)].append(z(1))
            elif op in ("dv_remove", "ui_remove", "iv_remove"):
                v = {"d": D, "u": U, "i": I}[op[0]][z(0)]
                if z(1) < len(v):
                    del v[z(1)]
            elif op == "dv_copy":
                D[z(1)] = list(D[z(0)])
            elif op in ("dv_extend", "ui_extend", "iv_extend"):
                P = {"d": D, "u": U, "i": I}[op[0]]
                P[z(2)] = list(P[z(0)]) + list(P[z(1)])
            elif op == "dv_set":
                if z(1) < len(D[z(0)]):
                    D[z(0)][z(1)] = f(2)
                else:
                    raise Abort()
            elif op in ("ui_set", "iv_set"):
                v = {"u": U, "i": I}[op[0]][z(0)]
                if z(1) < len(v):
                    v[z(1)] = z(2)
            elif op in ("dv_get", "ui_get", "iv_get"):
                v = {"d": D, "u": U, "i": I}[op[0]][z(0)]
                if z(1) < len(v):
                    return ("ret", float(v[z(1)]))
                raise Abort()
            elif op == "dv_fill":
                D[z(0)] = [f(1)] * len(D[z(0)])
            elif op == "ui_fill":
                U[z(0)] = [z(1)] * len(U[z(0)])
            elif op == "dv_sort":
                D[z(0)].sort()
            elif op == "ui_sort":
                U[z(0)].sort()
            elif op == "m_new":
                M[z(0)] = self.zeros(z(1), z(2))
            elif op == "m_init":
                M[z(0)] = self.zeros(0, 0)
            elif op == "m_del":
                M[z(0)] = None
            elif op == "m_resize":
                M[z(0)] = self.zeros(z(1), z(2))
            elif op in ("m_sort", "m_rsort"):
                # MatrixSort / MatrixReverseSort: exchange sort of the rows by one column (whole rows move, full double precision keys)
                m = M[z(0)]
                rows, kc = m[2], z(1)
                for i_ in range(m[0]):
                    for j_ in range(i_ + 1, m[0]):
                        if (rows[i_][kc] > rows[j_][kc]) if op == "m_sort" else (rows[i_][kc] < rows[j_][kc]):
                            rows[i_], rows[j_] = rows[j_], rows[i_]
            elif op == "m_copy":
                s = M[z(0)]
                M[z(1)] = [s[0], s[1], [list(r) for r in s[2]]]
            elif op == "m_set":
                m = M[z(0)]
                if z(1) < m[0] and z(2) < m[1]:
                    x = f(3)
                    m[2][z(1)][z(2)] = MISSING if (x != x or math.isinf(x)) else x
            elif op == "m_get":
                m = M[z(0)]
                if z(1) < m[0] and z(2) < m[1]:
                    return ("ret", m[2][z(1)][z(2)])
                return ("ret", float("nan"))
            elif op == "m_fill":
                m = M[z(0)]
                m[2] = [[f(1)] * m[1] for _ in range(m[0])]
            elif op in ("m_approw", "m_appuirow"):
                m = M[z(0)]
                v = [float(x) for x in (D if op == "m_approw" else U)[z(1)]]
                nc = max(m[1], len(v))
                m[2] = [r + [0.0] * (nc - m[1]) for r in m[2]] + [v + [0.0] * (nc - len(v))]
                m[0] += 1
                m[1] = nc
            elif op in ("m_appcol", "m_appuicol"):
                m = M[z(0)]
                v = [float(x) for x in (D if op == "m_appcol" else U)[z(1)]]
                nr = max(m[0], len(v))
                rows = m[2] + [[0.0] * m[1] for _ in range(nr - m[0])]
                m[2] = [rows[i] + [v[i] if i < len(v) else 0.0] for i in range(nr)]
                m[0] = nr
                m[1] += 1
            elif op == "m_delrow":
                m = M[z(0)]
                del m[2][z(1)]
                m[0] -= 1
            elif op == "m_delcol":
                m = M[z(0)]
                for r in m[2]:
                    del r[z(1)]
                m[1] -= 1
            elif op == "m_getrow":
                m = M[z(0)]
                D[z(2)] = list(m[2][z(1)]) if z(1) < m[0] else None
            elif op == "m_getcol":
                m = M[z(0)]
                D[z(2)] = [r[z(1)] for r in m[2]] if z(1) < m[1] else None
            elif op == "t_init":
                T[z(0)] = []
            elif op == "t_new":
                T[z(0)] = [None] * z(1)
            elif op == "t_del":
                T[z(0)] = None
            elif op == "t_newmat":
                t_ = T[z(0)]
                if len(t_) == 0:
                    raise Abort()
                if z(1) < len(t_):
                    t_[z(1)] = self.zeros(z(2), z(3))
            elif op == "t_addmat":
                T[z(0)].append(self.zeros(z(1), z(2)))
            elif op == "t_appmat":
                t_, s = T[z(0)], M[z(1)]
                if len(t_) > 0 and t_[-1][0] != s[0]:
                    raise Abort()
                t_.append([s[0], s[1], [list(r) for r in s[2]]])
            elif op == "t_approw":
                t_, v = T[z(0)], D[z(2)]
                if z(1) < len(t_) and len(v) != t_[z(1)][0]:
                    m = t_[z(1)]
                    nc = max(m[1], len(v))
                    m[2] = [r + [0.0] * (nc - m[1]) for r in m[2]] + [list(v) + [0.0] * (nc - len(v))]
                    m[0] += 1
                    m[1] = nc
                else:
                    raise Abort()
            elif op == "t_appcol":
                t_, v = T[z(0)], D[z(2)]
                if z(1) < len(t_):
                    m = t_[z(1)]
                    nr = max(m[0], len(v))
                    rows = m[2] + [[0.0] * m[1] for _ in range(nr - m[0])]
                    m[2] = [rows[i] + [v[i] if i < len(v) else 0.0] for i in range(nr)]
                    m[0] = nr
                    m[1] += 1
                else:
                    raise Abort()
            elif op == "t_copy":
                T[z(1)] = [[m[0], m[1], [list(r) for r in m[2]]] for m in T[z(0)]]
            elif op == "t_set":
                t_ = T[z(0)]
                if z(1) < len(t_) and z(2) < t_[z(1)][0] and z(3) < t_[z(1)][1]:
                    x = f(4)
                    t_[z(1)][2][z(2)][z(3)] = MISSING if (x != x or math.isinf(x)) else x
                else:
                    raise Abort()
            elif op == "t_get":
                t_ = T[z(0)]
                if z(1) < len(t_) and z(2) < t_[z(1)][0] and z(3) < t_[z(1)][1]:
                    return ("ret", t_[z(1)][2][z(2)][z(3)])
                return ("ret", float("nan"))
            elif op == "t_fill":
                for m in T[z(0)]:
                    m[2] = [[f(1)] * m[1] for _ in range(m[0])]
            elif op == "l_init":
                L[z(0)] = []
            elif op == "l_new":
                L[z(0)] = [[] for _ in range(z(1))]
            elif op == "l_del":
                L[z(0)] = None
            elif op == "l_append":
                L[z(0)].append(list(D[z(1)]))
            elif op == "s_new":
                S[z(0)] = [""] * z(1)
            elif op == "s_init":
                S[z(0)] = []
            elif op == "s_del":
                S[z(0)] = None
            elif op == "s_append":
                S[z(0)].append(a[1])
            elif op == "s_appint":
                S[z(0)].append(str(z(1)))
            elif op == "s_appdbl":
                S[z(0)].append("%f" % float(a[1]))
            elif op == "s_set":
                S[z(0)][z(1)] = a[2]
            elif op == "s_split":
                # SplitString: the text without its leading/trailing white space, cut at any of the separator characters, empty
                # pieces dropped; the pieces are appended
                dec = lambda t_: "" if t_ == "@" else t_.replace("_", " ").replace("~", "\t")
                txt, sep = dec(a[1]).strip(" \t\n\r\v\f"), dec(a[2])
                cur = ""
                for ch in txt + (sep[:1] or "\0"):
                    if ch in sep or ch == "\0":
                        if cur:
                            S[z(0)].append(cur)
                        cur = ""
                    else:
                        cur += ch
            elif op == "s_extend":
                S[z(2)] = list(S[z(0)]) + list(S[z(1)])
            else:
                raise KeyError(op)
        except Abort:
            return ("abort", None)
        return ("ok", None)

    def dump(self):
        out = []
        fm = lambda x: "nan" if x != x else repr(float(x))
        for k in range(NS):
            if self.D[k] is not None:
                out.append(("D%d" % k, [len(self.D[k])] + [float(x) for x in self.D[k]]))
        for k in range(NS):
            if self.U[k] is not None:
                out.append(("U%d" % k, [len(self.U[k])] + [float(x) for x in self.U[k]]))
        for k in range(NS):
            if self.I[k] is not None:
                out.append(("I%d" % k, [len(self.I[k])] + [float(x) for x in self.I[k]]))
        for k in range(NS):
            if self.M[k] is not None:
                m = self.M[k]
                out.append(("M%d" % k, [m[0], m[1]] + [x for r in m[2] for x in r]))
        for k in range(NS):
            if self.T[k] is not None:
                v = [len(self.T[k])]
                for m in self.T[k]:
                    if m is None:
                        v.append("null")
                    else:
                        v += [m[0], m[1]] + [x for r in m[2] for x in r]
                out.append(("T%d" % k, v))
        for k in range(NS):
            if self.L[k] is not None:
                v = [len(self.L[k])]
                for d in self.L[k]:
                    v += [len(d)] + list(d)
                out.append(("L%d" % k, v))
        for k in range(NS):
            if self.S[k] is not None:
                out.append(("S%d" % k, [len(self.S[k])] + ['"%s"' % s for s in self.S[k]]))
        return out


def same(a, b):
    if len(a) != len(b):
        return False
    for (na, va), (nb, vb) in zip(a, b):
        if na != nb or len(va) != len(vb):
            return False
        for x, y in zip(va, vb):
            if isinstance(x, str) or isinstance(y, str):
                if x != y:
                    return False
            elif not (x == y or (x != x and y != y)):
                return False
    return True


def parse_dump(lines):
    out = []
    for ln in lines:
        m = re.match(r"^([DUIMTLS]\d) (.*)$", ln)
        if not m:
            continue
        vals = []
        for tok in re.findall(r'"[^"]*"|\S+', m.group(2)):     # a quoted text may hold blanks
            if tok.startswith('"') or tok == "null":
                vals.append(tok)
            else:
                try:
                    vals.append(float(tok))
                except ValueError:
                    vals.append(tok)
        out.append((m.group(1), vals))
    return out


def parse_run(text):
    """-> list of (status, value, dump) per executed op"""
    res, cur = [], None
    for ln in text.split("\n"):
        if ln.startswith("> "):
            p = ln.split()
            st = p[2] if len(p) > 2 else "?"
            val = None
            if st == "ret":
                val = float(p[3]) if p[3] not in ("nan",) else float("nan")
            cur = [p[1], st, val, []]
        elif ln.startswith("$"):
            if cur is not None:
                res.append((cur[0], cur[1], cur[2], parse_dump(cur[3])))
            cur = None
        elif cur is not None:
            cur[3].append(ln)
    return res


# ------------------------------------------------------------------------------- generator
def around(rng, n):
    """a length around n: shorter / equal / longer / zero"""
    c = rng.random()
    if c < 0.3:
        return n
    if c < 0.55:
        return max(0, n - rng.randint(1, 2))
    if c < 0.85:
        return n + rng.randint(1, 3)
    if c < 0.93:
        return 0
    return rng.randint(0, 6)


def val(rng):
    return rng.choice((0.0, 1.0, -1.0, 0.25, 2.5, -3.75, 7.0, 1e6, -0.5, 12.125))


def dval(rng):
    """value for a dvector cell: mostly ordinary numbers, now and then an infinity or a NaN (a dvector stores any
    double as it is; only setMatrixValue re-codes non-finite numbers)"""
    c = rng.random()
    if c < 0.05:
        return rng.choice((float("inf"), float("-inf")))
    if c < 0.07:
        return float("nan")
    return val(rng)


def gen_history(rng, length, kinds):
    sh = Shadow()
    ops = []
    words = ["a", "bb", "xyz", "hello", "k9", "Q", "50%%", "a%%b", "tab\\t"]

    def live(P):
        return [k for k in range(NS) if P[k] is not None]

    def empty(P):
        return [k for k in range(NS) if P[k] is None]

    tries = 0
    while len(ops) < length and tries < length * 40:
        tries += 1
        kind = rng.choice(kinds)
        t = None
        if kind in ("dv", "ui", "iv"):
            P = {"dv": sh.D, "ui": sh.U, "iv": sh.I}[kind]
            lv, em = live(P), empty(P)
            c = rng.random()
            if (not lv or c < 0.12) and em:
                k = rng.choice(em)
                t = ["%s_new" % kind, k, rng.randint(0, 5)] if rng.random() < 0.7 else ["%s_init" % kind, k]
            elif not lv:
                continue
            else:
                k = rng.choice(lv)
                n = len(P[k])
                o = rng.choice(("append", "append", "remove", "set", "get", "extend", "resize", "copy", "fill", "sort", "del"))
                x = val(rng) if kind == "dv" else rng.randint(0, 40)
                idx = rng.choice((0, max(0, n - 1), n, n + 1, rng.randint(0, n + 2), 2 ** 32 + rng.randint(0, max(0, n - 1)), 3 * 2 ** 32))
                if o == "append":
                    t = ["%s_append" % kind, k, x]
                elif o == "remove":
                    t = ["%s_remove" % kind, k, idx]
                elif o == "set":
                    t = ["%s_set" % kind, k, idx, x]
                elif o == "get":
                    t = ["%s_get" % kind, k, idx]
                elif o == "extend" and em:
                    t = ["%s_extend" % kind, k, rng.choice(lv), rng.choice(em)]
                elif o == "resize" and kind != "iv":
                    t = ["%s_resize" % kind, k, around(rng, n)]
                elif o == "copy" and kind == "dv":
                    t = ["dv_copy", k, rng.choice(lv)]
                    if t[1] == t[2]:
                        t = None
                elif o == "fill" and kind != "iv":
                    t = ["%s_fill" % kind, k, x]
                elif o == "sort" and kind != "iv":
                    t = ["%s_sort" % kind, k]
                    if kind == "dv" and any(x != x for x in P[k]):
                        t = None  # the order of a NaN under the library's comparison function is not defined
                elif o == "del" and rng.random() < 0.3:
                    t = ["%s_del" % kind, k]
        elif kind == "m":
            lv, em = live(sh.M), empty(sh.M)
            c = rng.random()
            if (not lv or c < 0.12) and em:
                k = rng.choice(em)
                t = ["m_new", k, rng.randint(0, 4), rng.randint(0, 4)] if rng.random() < 0.75 else ["m_init", k]
            elif not lv:
                continue
            else:
                k = rng.choice(lv)
                r, c_ = sh.M[k][0], sh.M[k][1]
                o = rng.choice(("approw", "approw", "appcol", "appcol", "appuirow", "appuicol", "delrow", "delcol", "set", "get", "resize", "copy", "fill", "getrow", "getcol", "del", "sort", "rsort"))
                if o in ("sort", "rsort"):
                    t = ["m_" + o, k, rng.randrange(c_)] if (c_ > 0 and r > 0) else None
                elif o in ("approw", "appcol"):
                    want = around(rng, c_ if o == "approw" else r)
                    # make (or reuse) a dvector of the wanted length
                    dl = [j for j in live(sh.D) if len(sh.D[j]) == want]
                    if dl:
                        t = ["m_" + o, k, rng.choice(dl)]
                    else:
                        j = rng.choice(range(NS))
                        if sh.D[j] is None:
                            t = ["dv_new", j, want]
                        else:
                            t = ["dv_resize", j, want]
                        ops.append(t); sh.apply([str(x) for x in t])
                        for q in range(want):
                            t2 = ["dv_set", j, q, dval(rng)]
                            ops.append(t2); sh.apply([str(x) for x in t2])
                        t = ["m_" + o, k, j]
                elif o in ("appuirow", "appuicol"):
                    want = around(rng, c_ if o == "appuirow" else r)
                    j = rng.choice(range(NS))
                    t0 = ["ui_new", j, want] if sh.U[j] is None else ["ui_resize", j, want]
                    ops.append(t0); sh.apply([str(x) for x in t0])
                    for q in range(want):
                        t2 = ["ui_set", j, q, rng.randint(0, 30)]
                        ops.append(t2); sh.apply([str(x) for x in t2])
                    t = ["m_" + o, k, j]
                elif o == "delrow" and r > 0:
                    t = ["m_delrow", k, rng.randint(0, r - 1)]
                elif o == "delcol" and c_ > 0:
                    t = ["m_delcol", k, rng.randint(0, c_ - 1)]
                elif o == "set":
                    t = ["m_set", k, rng.choice((0, max(0, r - 1), r, r + 1)), rng.choice((0, max(0, c_ - 1), c_, c_ + 2)), rng.choice((val(rng), val(rng), float("nan"), float("inf")))]
                elif o == "get":
                    t = ["m_get", k, rng.choice((0, max(0, r - 1), r, r + 1)), rng.choice((0, max(0, c_ - 1), c_, c_ + 2))]
                elif o == "resize":
                    t = ["m_resize", k, around(rng, r), around(rng, c_)]
                elif o == "copy" and len(lv) > 1:
                    k2 = rng.choice([x for x in lv if x != k])
                    t = ["m_copy", k, k2]
                elif o == "fill":
                    t = ["m_fill", k, val(rng)]
                elif o in ("getrow", "getcol"):
                    em_d = empty(sh.D)
                    if em_d:
                        lim = r if o == "getrow" else c_
                        t = ["m_" + o, k, rng.choice((0, max(0, lim - 1), lim)), rng.choice(em_d)]
                elif o == "del" and rng.random() < 0.3:
                    t = ["m_del", k]
        elif kind == "t":
            lv, em = live(sh.T), empty(sh.T)
            c = rng.random()
            if (not lv or c < 0.15) and em:
                k = rng.choice(em)
                if rng.random() < 0.6:
                    t = ["t_init", k]
                else:
                    o_ = rng.randint(1, 3)
                    t = ["t_new", k, o_]
                    ops.append(t); sh.apply([str(x) for x in t])
                    for q in range(o_):
                        t = ["t_newmat", k, q, rng.randint(0, 3), rng.randint(0, 3)]
                        if q < o_ - 1:
                            ops.append(t); sh.apply([str(x) for x in t])
            elif not lv:
                continue
            else:
                k = rng.choice(lv)
                T_ = sh.T[k]
                o = rng.choice(("addmat", "appmat", "appmat", "approw", "appcol", "copy", "copy", "set", "get", "fill", "del"))
                if o == "addmat":
                    t = ["t_addmat", k, rng.randint(0, 3), rng.randint(0, 3)]
                elif o == "appmat" and live(sh.M):
                    t = ["t_appmat", k, rng.choice(live(sh.M))]
                elif o in ("approw", "appcol") and live(sh.D):
                    t = ["t_" + o, k, rng.randint(0, len(T_)), rng.choice(live(sh.D))]
                elif o == "copy":
                    others = [x for x in lv if x != k]
                    if others and rng.random() < 0.7:
                        t = ["t_copy", k, rng.choice(others)]
                    elif em:
                        k2 = rng.choice(em)
                        t0 = ["t_init", k2]
                        ops.append(t0); sh.apply([str(x) for x in t0])
                        t = ["t_copy", k, k2]
                elif o in ("set", "get"):
                    oo = rng.randint(0, len(T_))
                    rr = T_[oo][0] if oo < len(T_) else 1
                    cc = T_[oo][1] if oo < len(T_) else 1
                    t = ["t_" + o, k, oo, rng.choice((0, max(0, rr - 1), rr)), rng.choice((0, max(0, cc - 1), cc))] + ([val(rng)] if o == "set" else [])
                elif o == "fill":
                    t = ["t_fill", k, val(rng)]
                elif o == "del" and rng.random() < 0.3:
                    t = ["t_del", k]
        elif kind == "l":
            lv, em = live(sh.L), empty(sh.L)
            if (not lv or rng.random() < 0.1) and em:
                t = ["l_init", rng.choice(em)] if rng.random() < 0.5 else ["l_new", rng.choice(em), rng.choice((0, 1, 2, 3, 3, 5, 6, 7))]
            elif lv and live(sh.D):
                k = rng.choice(lv)
                t = ["l_append", k, rng.choice(live(sh.D))] if rng.random() < 0.9 else ["l_del", k]
        elif kind == "s":
            lv, em = live(sh.S), empty(sh.S)
            if (not lv or rng.random() < 0.12) and em:
                k = rng.choice(em)
                t = ["s_new", k, rng.randint(0, 3)] if rng.random() < 0.6 else ["s_init", k]
            elif lv:
                k = rng.choice(lv)
                n = len(sh.S[k])
                o = rng.choice(("append", "append", "appint", "appdbl", "set", "extend", "del", "split"))
                if o == "append":
                    t = ["s_append", k, rng.choice(words)]
                elif o == "appint":
                    t = ["s_appint", k, rng.randint(-5, 500)]
                elif o == "appdbl":   # any double: the text of a large one is hundreds of characters long
                    t = ["s_appdbl", k, rng.choice((0.5, -12.125, 1e-6, 1e6, 1e24, 9.9e55, 1e57, -3.5e120, 1e300, 123456789.0))]
                elif o == "set" and n > 0:
                    t = ["s_set", k, rng.randint(0, n - 1), rng.choice(words)]
                elif o == "split":    # texts with leading/trailing/only white space, empty pieces, the empty text
                    t = ["s_split", k, rng.choice(("_", "__", "~", "_~_", "@", "_a;b_", "a;;b", ";", "__x__", "a_b", "_;_", "k9;Q;;_")), rng.choice((";", "_;", ";_", ",;"))]
                elif o == "extend" and em:
                    t = ["s_extend", k, rng.choice(lv), rng.choice(em)]
                elif o == "del" and rng.random() < 0.3:
                    t = ["s_del", k]
        if t is None:
            continue
        ops.append(t)
        sh.apply([str(x) for x in t])
    return ops


def fmt_op(t):
    out = []
    for x in t:
        if isinstance(x, float):
            out.append("nan" if x != x else ("inf" if x == float("inf") else repr(x)))
        else:
            out.append(str(x))
    return " ".join(out)


SAN_RE = re.compile(r"ERROR: AddressSanitizer: ([a-zA-Z\-]+)(?: on [^\n]*)?\n[^\n]*?(READ|WRITE)?", re.S)


def classify(err, rc):
    m = re.search(r"ERROR: AddressSanitizer: ([a-zA-Z\-]+)", err)
    if m:
        kind = m.group(1)
        rw = re.search(r"\n(READ|WRITE) of size", err)
        fn = re.search(r"#\d+ 0x[0-9a-f]+ in ([A-Za-z_0-9]+) [^\n]*/src/", err)
        return "asan_%s%s" % (kind.replace("-", "_"), "_" + rw.group(1).lower() if rw else ""), (fn.group(1) if fn else None)
    m = re.search(r"runtime error: ([^\n]*)", err)
    if m:
        return "ubsan", None
    if rc < 0 or rc in (139, 134, 135, 136):
        return "crash_rc%s" % rc, None
    return "exit_rc%s" % rc, None


def run_history(exe, ops):
    text = "\n".join(fmt_op(t) for t in ops) + "\n"
    e = dict(os.environ)
    e["ASAN_OPTIONS"] = "detect_leaks=0:abort_on_error=0:exitcode=77:allocator_may_return_null=1"
    e["UBSAN_OPTIONS"] = "print_stacktrace=1:halt_on_error=1:exitcode=78"
    try:
        p = subprocess.run(["timeout", "60", exe], input=text.encode(), stdout=subprocess.PIPE, stderr=subprocess.PIPE, env=e)
        return p.returncode, p.stdout.decode(errors="replace"), p.stderr.decode(errors="replace")
    except Exception as ex:  # noqa
        return -1, "", str(ex)


def judge(ck, hno, ops, rc, out, err, stats):
    """compare one executed history with the shadow model; returns the per-op trace for the Coq model"""
    res = parse_run(out)
    sh = Shadow()
    for i, t in enumerate(ops):
        ts = [fmt_op([x]) for x in t]
        opname = t[0]
        if i >= len(res):
            cls, fn = classify(err, rc)
            stats["sanitizer_reports"] += 1
            ck.fail(fn or opname, cls, "history %d: the process ended at operation %d `%s` (%s); previous operations: %s" % (hno, i, fmt_op(t), cls, "; ".join(fmt_op(x) for x in ops[max(0, i - 6):i])),
                    {"history": [fmt_op(x) for x in ops[:i + 1]], "stderr": err[-1500:]})
            return
        st, v = sh.apply(ts)
        _, rst, rv, rdump = res[i]
        if st != rst and not (st == "ok" and rst == "ok"):
            if not (st == "ret" and rst == "ret"):
                ck.fail(opname, "status_" + rst + "_expected_" + st, "history %d op %d `%s`: library %s, operation defines %s" % (hno, i, fmt_op(t), rst, st), {"history": [fmt_op(x) for x in ops[:i + 1]]})
                return
        if st == "ret" and not (v == rv or (v != v and rv != rv)):
            ck.fail(opname, "wrong_value", "history %d op %d `%s`: returned %r, expected %r" % (hno, i, fmt_op(t), rv, v), {"history": [fmt_op(x) for x in ops[:i + 1]]})
            return
        if not same(sh.dump(), rdump):
            exp, got = sh.dump(), rdump
            diff = [n for (n, a_) in exp if (n, a_) not in [(m_, b_) for (m_, b_) in got if same([(n, a_)], [(m_, b_)])]]
            ck.fail(opname, "wrong_contents", "history %d op %d `%s`: container(s) %s differ from what the operation defines" % (hno, i, fmt_op(t), ",".join(diff) or "?"),
                    {"history": [fmt_op(x) for x in ops[:i + 1]], "expected": [(n, a_[:12]) for n, a_ in exp], "got": [(n, a_[:12]) for n, a_ in got]})
            return
    if len(res) <= len(ops) or rc != 0:
        cls, fn = classify(err, rc)
        stats["sanitizer_reports"] += 1
        ck.fail(fn or "teardown", cls, "history %d: releasing all containers after the history failed (%s)" % (hno, cls), {"history": [fmt_op(x) for x in ops], "stderr": err[-1500:]})


IMPORTS = """From Coq Require Import Floats.
From mathcomp Require Import ssreflect ssrfun ssrbool eqtype ssrnat seq.
From LS Require Import NumOps F64Ops Containers Strings.
Local Open Scope float_scope.
"""
DEFS = """Definition T := true. Definition F := false.
Definition split_okb (sep s : seq nat) (got : seq (seq nat)) : bool := split_string sep s == got.
"""
MODELLED = {"new": "VNew", "init": "VInit", "del": "VDel", "resize": "VResize", "append": "VAppend", "remove": "VRemove",
            "extend": "VExtend", "set": "VSet", "get": "VGet", "fill": "VFill", "sort": "VSort"}


def coq_op(t):
    """-> Gallina term of the operation, or None when the operation is outside the Coq model"""
    op, a = t[0], t[1:]
    if any(str(x).isdigit() and int(x) > 100000 for x in a):
        return None          # indices beyond 2^32 are exercised on the implementation only (unary numerals in the model)
    n = lambda x: "%d%%N" % int(x)
    fl = lambda x: vf.coq_f(float(x))
    k, _, name = op.partition("_")
    if k in ("dv", "ui"):
        ui = "T" if k == "ui" else "F"
        if name == "copy":
            return "VCopy %s %s" % (n(a[0]), n(a[1]))
        if name not in MODELLED:
            return None
        c = MODELLED[name]
        if name in ("new", "resize", "remove", "get"):
            return "%s %s %s %s" % (c, ui, n(a[0]), n(a[1]))
        if name in ("init", "del", "sort"):
            return "%s %s %s" % (c, ui, n(a[0]))
        if name in ("append", "fill"):
            return "%s %s %s (%s)" % (c, ui, n(a[0]), fl(a[1]))
        if name == "extend":
            return "%s %s %s %s %s" % (c, ui, n(a[0]), n(a[1]), n(a[2]))
        if name == "set":
            return "%s %s %s %s (%s)" % (c, ui, n(a[0]), n(a[1]), fl(a[2]))
    if k == "m":
        if name == "new":
            return "MNew %s %s %s" % (n(a[0]), n(a[1]), n(a[2]))
        if name in ("init", "del"):
            return "%s %s" % ({"init": "MInit", "del": "MDel"}[name], n(a[0]))
        if name == "resize":
            return "MResize %s %s %s" % (n(a[0]), n(a[1]), n(a[2]))
        if name == "copy":
            return "MCopy %s %s" % (n(a[0]), n(a[1]))
        if name == "set":
            return "MSet %s %s %s (%s)" % (n(a[0]), n(a[1]), n(a[2]), fl(a[3]))
        if name == "get":
            return "MGet %s %s %s" % (n(a[0]), n(a[1]), n(a[2]))
        if name == "fill":
            return "MFill %s (%s)" % (n(a[0]), fl(a[1]))
        if name in ("approw", "appcol", "appuirow", "appuicol"):
            return "%s %s %s %s" % ("MAppRow" if "row" in name else "MAppCol", "T" if "ui" in name else "F", n(a[0]), n(a[1]))
        if name in ("delrow", "delcol"):
            return "%s %s %s" % ("MDelRow" if name == "delrow" else "MDelCol", n(a[0]), n(a[1]))
        if name in ("getrow", "getcol"):
            return "%s %s %s %s" % ("MGetRow" if name == "getrow" else "MGetCol", n(a[0]), n(a[1]), n(a[2]))
        if name in ("sort", "rsort"):
            return "MSort %s %s %s" % ("T" if name == "rsort" else "F", n(a[0]), n(a[1]))
    return None


def coq_trace(res):
    """driver trace -> Gallina list of (status, returned value, dump)"""
    out = []
    for (_, st, val, dump) in res:
        code = {"ok": 0, "abort": 1, "ret": 2}[st]
        r = "None" if (val is None or val != val) else "(Some (%s))" % vf.coq_f(val)
        ents = []
        for name, vals in dump:
            kind = {"D": 0, "U": 1, "M": 2}[name[0]]
            nd = 1 if kind < 2 else 2
            dims = "[:: " + "; ".join("%d%%N" % int(v) for v in vals[:nd]) + "]"
            cells = vf.coq_vec([float(v) for v in vals[nd:]])
            ents.append("(%d%%N, %d%%N, %s, %s)" % (kind, int(name[1]), dims, cells))
        snap = "(Some (" + ("[:: " + "; ".join(ents) + "]" if ents else "[::]") + " : snap))"
        out.append("(%d%%N, %s, %s)" % (code, r, snap))
    return "[:: " + "; ".join(out) + "]" if out else "[::]"


def run(ck, rng, tier):
    thorough = tier == "thorough"
    if os.path.exists(os.path.join(vf.COQ, "theories", "Props", "Properties_C14.v")):
        ck.prove("Properties_C14")
    exe = vf.build_driver("drv_cont", "asan")
    nh = 120 if not thorough else 1500
    hs = []
    for hno in range(nh):
        kinds = rng.choice((["dv", "m"], ["dv", "ui", "m"], ["dv", "m"], ["dv", "ui", "m"], ["dv", "m", "t"], ["dv", "ui", "iv"], ["dv", "l", "m"], ["s", "dv"], ["dv", "ui", "iv", "m", "t", "l", "s"]))
        weights = kinds + (["m"] * 2 if "m" in kinds else []) + (["t"] * 2 if "t" in kinds else [])
        hs.append(gen_history(rng, rng.randint(5, 40), weights))
    # every run: a matrix with rows but no columns gets columns shorter than / as long as / longer than its row count, and
    # string vectors get the text of very large doubles
    hs[0] = [["m_new", 0, 3, 0], ["dv_new", 1, 1], ["dv_set", 1, 0, 7.0], ["m_appcol", 0, 1], ["dv_new", 2, 0], ["m_new", 1, 3, 0], ["m_appcol", 1, 2],
             ["m_new", 2, 2, 0], ["dv_new", 3, 4], ["dv_set", 3, 3, 2.5], ["m_appcol", 2, 3], ["m_get", 0, 0, 0], ["m_resize", 1, 2, 2]]
    hs[2] = [["dv_new", 0, 0], ["dv_append", 0, 0.75], ["dv_append", 0, 0.5], ["dv_append", 0, 0.25], ["dv_append", 0, 0.0], ["dv_append", 0, -0.5],
             ["dv_append", 0, 0.625], ["dv_sort", 0], ["dv_get", 0, 0], ["dv_new", 1, 3], ["dv_set", 1, 0, 2.5], ["dv_set", 1, 1, 2.25], ["dv_set", 1, 2, 2.0], ["dv_sort", 1]]
    hs[3] = [["dv_new", 0, 3], ["dv_set", 0, 1, 2.5], ["dv_new", 1, 0], ["dv_copy", 1, 0], ["dv_append", 0, 1.0], ["dv_append", 1, 2.0], ["dv_del", 0], ["dv_del", 1],
             ["ui_new", 0, 5], ["ui_get", 0, 2 ** 32 + 2], ["ui_get", 0, 3 * 2 ** 32], ["ui_get", 0, 4]]
    hs[4] = [["t_init", 0], ["t_addmat", 0, 2, 2], ["t_set", 0, 0, 1, 1, 2.5], ["t_init", 1], ["t_addmat", 1, 1, 3], ["t_addmat", 1, 2, 1], ["t_addmat", 1, 3, 2],
             ["t_set", 1, 2, 1, 1, -1.0], ["t_copy", 1, 0], ["t_get", 0, 2, 1, 1], ["t_copy", 0, 1], ["t_init", 2], ["t_copy", 2, 1], ["t_addmat", 1, 1, 1]]
    hs[1] = [["s_init", 0], ["s_appdbl", 0, 1e57], ["s_appdbl", 0, -3.5e120], ["s_appdbl", 0, 1e300], ["s_appdbl", 0, 0.25], ["s_new", 1, 2], ["s_extend", 0, 1, 2]]
    if len(hs) > 6:
        # sorting the rows of a matrix by a key column whose distinct values are closer than single precision resolves
        # (pairs chosen so that the single-precision rounding of the FIRST key crosses the second one: 0.3 -> 0.3000000119 above
        # 0.30000001, 0.7 -> 0.6999999881 below 0.69999999, 0.1 -> 0.1000000015 above 0.100000001; no larger key follows that would
        # repair the order by a later exchange)
        sets_ = [([0.3, 0.30000001, 0.25, 0.125], "m_rsort"), ([0.7, 0.69999999, 0.9, 1.5], "m_sort"), ([0.1, 0.100000001], "m_rsort"),
                 ([1000000.02, 1000000.01, 2000000.0], "m_sort")]
        hs[6] = []
        for q_, (keys_, op_) in enumerate(sets_):
            hs[6] += [["m_new", q_, len(keys_), 2]] + [["m_set", q_, r_, 0, keys_[r_]] for r_ in range(len(keys_))] + \
                     [["m_set", q_, r_, 1, float(r_)] for r_ in range(len(keys_))] + [[op_, q_, 0], ["m_get", q_, 0, 1]]
    if len(hs) > 7:
        # lists created with a size that is not a power of two, then appended to
        hs[7] = [["dv_new", 0, 2], ["dv_set", 0, 1, 2.5], ["l_new", 0, 3], ["l_append", 0, 0], ["l_append", 0, 0], ["l_new", 1, 5], ["l_append", 1, 0],
                 ["l_new", 2, 6], ["l_append", 2, 0], ["l_append", 2, 0], ["l_append", 2, 0], ["l_del", 0], ["l_del", 1], ["l_del", 2]]
    if len(hs) > 5:
        # texts made of white space only (one blank, a tab, several), the empty text, padded text
        hs[5] = [["s_init", 0], ["s_split", 0, "_a;b_", ";"], ["s_split", 0, "_", ";"], ["s_split", 0, "~", "_;"], ["s_split", 0, "___", ";"], ["s_split", 0, "@", ";"],
                 ["s_split", 0, "x", ";"], ["s_new", 1, 1], ["s_split", 1, "_~_", ","]]
    with ThreadPoolExecutor(max_workers=14) as ex:
        results = list(ex.map(lambda o: run_history(exe, o), hs))
    stats = {"sanitizer_reports": 0}
    nops = 0
    nsplit = 0
    checks = vf.Checks()
    for hno, (ops, (rc, out, err)) in enumerate(zip(hs, results)):
        ck.case(("hist", hno, tuple(fmt_op(t) for t in ops)), sample={"history": hno, "length": len(ops), "first_ops": [fmt_op(t) for t in ops[:4]]} if hno % 25 == 0 else None)
        for t in ops:
            ck.count(t[0])
        nops += len(ops)
        judge(ck, hno, ops, rc, out, err, stats)
        # correspondence with the Coq model: histories made only of modelled operations
        terms = [coq_op([fmt_op([x]) for x in t]) for t in ops]
        res = parse_run(out)
        has_nan = any(isinstance(x, float) and x != x for t in ops if t[0].startswith("dv_") for x in t)
        if has_nan:
            ck.count("histories with NaN in a dvector (judged by the reference semantics only)")
        if not has_nan and all(x is not None for x in terms) and len(res) == len(ops) + 1 and len(ops) <= (60 if thorough else 45) and len(checks.items) < (60 if not thorough else 400):
            checks.add(hno, "history", "trace_ok (ops := F64Ops) [:: %s] %s" % ("; ".join(terms), coq_trace(res[:len(ops)])))
        # SplitString: the pieces the library appended against the Coq model Exec/Strings.v (characters as codes)
        for i, t in enumerate(ops):
            if t[0] != "s_split" or i >= len(res) or res[i][1] != "ok" or nsplit >= (40 if not thorough else 300):
                continue
            name = "S%d" % int(t[1])
            after = next((v for nm, v in res[i][3] if nm == name), None)
            before = next((v for nm, v in res[i - 1][3] if nm == name), None) if i > 0 else None
            if after is None:
                continue
            nb = int(before[0]) if before else 0
            toks = re.findall(r'"([^"]*)"', " ".join(str(x) for x in after[1:]))[nb:]
            dec = lambda t_: "" if t_ == "@" else str(t_).replace("_", " ").replace("~", "\t")
            cs = lambda w: "[:: " + "; ".join("%d%%N" % ord(ch) for ch in w) + "]" if w else "[::]"
            got = ("[:: " + "; ".join(cs(w) for w in toks) + "]") if toks else "[::]"
            checks.add(hno, "split", "split_okb %s %s %s" % (cs(dec(t[3])), cs(dec(t[2])), got))
            nsplit += 1
    if checks.items:
        failing, logs, cerr = vf.run_cases_v("c14", IMPORTS, DEFS, checks.items, shard=8, timeout=1200)
        if cerr:
            ck.broken("correspondence:coq-eval", cerr)
        for cid in sorted(set(failing)):
            case, label = checks.where[cid]
            ck.broken("correspondence:history %d" % case, "the bounds-checked model and the library disagree on a trace: " + "; ".join(fmt_op(t) for t in hs[case][:12]))
    ck.cov["model_checks_evaluated_in_coq"] = len(checks.items)
    ck.cov["histories"] = nh
    ck.cov["operations_executed"] = nops
    ck.cov["sanitizer_reports"] = stats["sanitizer_reports"]
    ck.cov["rule"] = "operation histories of length 5..40 (plus operand set-up) over pools of 4 containers per kind (dvector, uivector, ivector, matrix, tensor, dvectorlist, strvector); operand lengths around the current dimensions (shorter/equal/longer/zero); accessors at 0, last, size, size+1; library built with ASan+UBSan; every live container dumped and compared after every operation"
    ck.assumptions += ["out-of-range DELETE positions are not generated (precondition of MatrixDeleteRowAt/ColAt); strings of a strvector made by NewStrVector are set once by the harness (the constructor leaves 1 uninitialised byte)"]


def replay(ck, rp):
    return 1
