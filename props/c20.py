"""C20 — the Python bindings describe exactly the C structures and functions they call."""
import os, re, sys, json
import vf

EVAL_V = """From Coq Require Import String List.
From LS Require Import Properties_C20.
Open Scope string_scope.
Eval vm_compute in (ok, mismatches).
"""
LAY_IMPORTS = """From Coq Require Import String List Arith Bool.
Import ListNotations.
From mathcomp Require Import ssreflect ssrbool ssrnat seq.
From LS Require Import Abi Gen_Abi.
Open Scope string_scope.
"""
LAY_DEFS = """Definition pair_eqb (a b : nat * nat) := Nat.eqb (fst a) (fst b) && Nat.eqb (snd a) (snd b).
Fixpoint l_eqb (a b : list (nat * nat)) := match a, b with nil, nil => true | x :: a', y :: b' => pair_eqb x y && l_eqb a' b' | _, _ => false end.
Definition lay_chk (name : string) (expect : list (nat * nat)) (total : nat) : bool :=
  match lookup c_structs name with
  | None => false
  | Some fs => match layout (List.map snd fs), struct_size_from 0 0 (List.map snd fs) with
               | Some l, Some sz => l_eqb l expect && Nat.eqb sz total
               | _, _ => false end
  end.
"""


def classify(name, ps, pd, cs, cf, nm, cty, enums, called=()):
    """descriptive class of a mismatch (python re-implementation, for the report only)"""
    if name in ps:
        cn = nm.get(name)
        if cn is None or cn not in cs:
            return "no_c_struct", "python structure %s has no C counterpart" % name
        pf, cfl = ps[name][1], cs[cn]
        if [a for a, _ in pf] != [a for a, _ in cfl]:
            return "field_names", "fields %s vs C %s %s" % ([a for a, _ in pf], cn, [a for a, _ in cfl])
        return "field_types", "field types differ from C struct %s" % cn
    if name not in cf:
        return "missing_function", "lsci.%s is called/declared but the shared library exports no such function" % name
    cret, cargs = cf[name]

    def base(t):
        return re.sub(r"\(Ptr |\)", "", t).strip()

    def one(mod, d):
        if d.get("args") is None:
            return None if not cargs else ("undeclared_argtypes", "module %s calls it without argtypes (C function with %d parameters)" % (mod, len(cargs)))
        if len(d["args"]) != len(cargs):
            return "arity", "module %s: argtypes lists %d parameters, C prototype has %d" % (mod, len(d["args"]), len(cargs))
        for i, (p, c) in enumerate(zip(d["args"], cargs)):
            c2 = cty(c, enums)
            if p.count("Ptr") != c2.count("Ptr") or (p.count("Ptr") == 0 and (("Int" in p) != ("Int" in c2) or re.findall(r"Int (\d+)", p) != re.findall(r"Int (\d+)", c2))):
                return "param_kind", "module %s: parameter %d declared %s, C has %s (%s)" % (mod, i, p, c, c2)
            if p.count("Ptr") and not ("Named" in p or "Void" in p or "Named" in c2 or "Void" in c2) and re.findall(r"Int \d+|Double|Float|Char", base(p)) != re.findall(r"Int \d+|Double|Float|Char", base(c2)):
                return "pointee_kind", "module %s: parameter %d declared %s, the C parameter %s points to %s" % (mod, i, p, c, c2)
        return None
    mods = sorted({k[0] for k in pd if k[1] == name} | {k[0] for k in called if k[1] == name})
    for mod in mods:
        r_ = one(mod, pd.get((mod, name), {}))
        if r_:
            return r_
    d = next((pd[k] for k in pd if k[1] == name), {})
    return "return_kind", "restype %s vs C return %s" % (d.get("ret", "default c_int"), cret)


def run(ck, rng, tier):
    r = ck.prove("Properties_C20")
    gen = getattr(ck, "gen", {}).get("t_abi", {})
    ck.cov["tables"] = {k: gen.get(k) for k in ("c_structs", "c_protos", "py_structs", "py_decls", "py_called")}
    if gen.get("unknown_py_types"):
        ck.broken("translator:T-abi", "unparsed ctypes expressions: %s" % gen["unknown_py_types"][:5])
    sys.path.insert(0, os.path.join(vf.VERIF, "translators"))
    import t_abi
    cs, cf, enums = t_abi.c_side(vf.REPO)
    ps, pd, called, unknown = t_abi.py_side(vf.REPO)
    gtxt = open(os.path.join(vf.COQ, "theories", "Gen", "Gen_Abi.v")).read()
    nmtxt = gtxt[gtxt.index("Definition name_map"):]
    nm = dict(re.findall(r'\("([^"]+)", "([^"]+)"\)', nmtxt))
    # every declaration is one "program"
    for n in sorted(ps):
        ck.case(("struct", n, repr(ps[n][1])), sample={"python_struct": n, "fields": ps[n][1], "c": nm.get(n)} if n in ("PCAMODEL",) else None)
    for n in sorted(set(pd) | called):     # n = (module, function): every module declares for its own library handle
        ck.case(("fun", n, repr(pd.get(n))), nontrivial=bool(pd.get(n, {}).get("args")), sample={"module": n[0], "function": n[1], "decl": pd.get(n), "c": cf.get(n[1])} if n[1] in ("PCA", "NewMatrix") else None)
    # --- the decision, evaluated by the kernel
    d = os.path.join(vf.COQ, "cases")
    os.makedirs(d, exist_ok=True)
    open(os.path.join(d, "c20_eval.v"), "w").write(EVAL_V)
    rc, log = vf.coq_eval("cases/c20_eval.v")
    m = re.search(r"=\s*\((true|false),\s*(.*?)\)\s*:\s*bool", log, re.S)
    if rc != 0 or not m:
        ck.broken("C20 decision (Eval vm_compute in ok)", log[-1200:])
        mism = None
    else:
        okv = m.group(1) == "true"
        mism = re.findall(r'"([^"]+)"', m.group(2))
        ck.cov["abi_ok"] = okv
        ck.cov["abi_mismatches"] = mism
        for n in mism:
            cls, what = classify(n, ps, pd, cs, cf, nm, t_abi.cty, enums, called)
            ck.fail(n, cls, "binding declaration of %s disagrees with the C side: %s" % (n, what),
                    {"name": n, "python": ps.get(n) or {k[0]: v for k, v in pd.items() if k[1] == n}, "c": (nm.get(n), cs.get(nm.get(n))) if n in ps else cf.get(n)})
    # --- validate the layout function (and T-abi's struct tables) against the compiler
    prog = ['#include <stdio.h>', '#include <stddef.h>']
    hdrs = sorted(os.path.basename(h) for h in __import__("glob").glob(os.path.join(vf.SRC, "*.h")) if os.path.basename(h) != "scientific.h")
    prog += ['#include "%s"' % h for h in hdrs]
    prog.append("int main(void){")
    lay_structs = []
    for sn, fields in sorted(cs.items()):
        ref = sn if not sn.startswith("xorshift128") else "struct " + sn
        if sn in ("xorshift128_state",):
            continue
        lay_structs.append(sn)
        prog.append('printf("S %s %%zu", sizeof(%s));' % (sn, ref))
        for fn, ft in fields:
            prog.append('printf(" %%zu %%zu", offsetof(%s, %s), sizeof(((%s*)0)->%s));' % (ref, fn, ref, fn))
        prog.append('printf("\\n");')
    prog.append("return 0;}")
    L = vf.build_lib("plain")
    cfile = os.path.join(L["dir"], "abi_layout.c")
    open(cfile, "w").write("\n".join(prog))
    exe = os.path.join(L["dir"], "abi_layout")
    rc, out, err = vf.sh(["gcc", "-std=c99", "-D_GNU_SOURCE", "-w", "-I" + L["inc"], "-I" + vf.SRC, cfile, "-o", exe])
    checks = vf.Checks()
    if rc != 0:
        ck.broken("layout-validation: offsetof program does not compile", err[-800:])
    else:
        rc, out, err = vf.sh([exe])
        for line in out.splitlines():
            tk = line.split()
            name, total = tk[1], int(tk[2])
            vals = list(map(int, tk[3:]))
            pairs = list(zip(vals[0::2], vals[1::2]))
            checks.add(name, "layout", 'lay_chk "%s" [%s] %d' % (name, "; ".join("(%d, %d)" % p for p in pairs), total))
        failing, logs, cerr = vf.run_cases_v("c20", LAY_IMPORTS, LAY_DEFS, checks.items, shard=400)
        if cerr:
            ck.broken("layout-validation:coq-eval", cerr)
        for cid in failing:
            ck.broken("correspondence:layout of C struct %s" % checks.where[cid][0], "Abi.layout / T-abi table disagrees with the compiler's offsetof/sizeof")
        ck.cov["layout_structs_validated_against_compiler"] = len(checks.items)
    ck.cov["traces_validated_against_impl"] = len(checks.items)
    ck.cov["exhaustive"] = True
    ck.cov["rule"] = ("all ctypes.Structure classes and all lsci.<f> argtypes/restype declarations (and called functions) of the current tree, "
                      "re-derived from source; non-trivial = function with at least one parameter / any struct")
    ck.assumptions += ["LP64 System V data layout (validated against gcc's offsetof/sizeof on every C struct in this run)",
                       "T-abi transcribes clang's JSON AST and Python's ast faithfully",
                       "ctypes semantics: undeclared restype = c_int"]


def replay(ck, rp):
    print(json.dumps(rp["case"], indent=1))
    return 1
