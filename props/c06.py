"""C06 — validation results are deterministic under every thread schedule and count."""
import itertools, os, re, time
import numpy as np
import vf

IMPORTS = """From Coq Require Import ZArith List Floats Uint63.
From mathcomp Require Import ssreflect ssrfun ssrbool eqtype ssrnat seq.
From LS Require Import NumOps F64Ops Gen_Leaf Sched Properties_C06.
"""
DEFS = """Definition zl_eq (a b : seq Z) := (size a == size b) && all (fun p => Z.eqb p.1 p.2) (zip a b).
Fixpoint stream (n : nat) (st : Z) : seq Z := match n with O => [::] | S n' => draw_out st :: stream n' (generate_seed st) end.
Definition raw_stream n (seed : Z) := stream n (generate_seed seed).
Definition randInt_stream n seed low high := map (fun x => randInt_out x low high) (raw_stream n seed).
Definition randDouble_stream n seed (low high : float) : seq float :=
  map (fun x => (low + (of_uint63 (Uint63.of_Z x)) / (4294967296 / (high - low)))%float) (raw_stream n seed).
Definition mkscript (l : seq (Z * nat)) (w : nat) : list op :=
  match nth_error l w with Some (s, n) => Srand s :: List.repeat Draw n | None => nil end.
Definition worker_ok (l : seq (Z * nat)) (sched : seq nat) (w : nat) (obs : seq Z) : bool :=
  zl_eq (map (fun x => randInt_out x 0 1000000) (impl_outs (mkscript l) 0%Z sched w)) obs.
"""


def interleavings(counts):
    """all orders of the multiset {worker k repeated counts[k] times}"""
    items = []
    for k, c in enumerate(counts):
        items += [k] * c
    return sorted(set(itertools.permutations(items)))


def run(ck, rng, tier):
    thorough = tier == "thorough"
    ck.prove("Properties_C06")
    gen = getattr(ck, "gen", {}).get("t_leaf", {})
    if any(e.startswith("rng") for e in gen.get("errors", [])):
        ck.broken("translator:T-leaf(rng)", "; ".join(gen["errors"]))
    d = os.path.join(vf.COQ, "cases")
    os.makedirs(d, exist_ok=True)
    open(os.path.join(d, "c06_eval.v"), "w").write(
        "From Coq Require Import ZArith.\nFrom LS Require Import Gen_Leaf Properties_C06.\nEval vm_compute in (rng_state_thread_local, clock_reachable_after_seeding, Z.to_N zero_preimage).\n")
    rc, log = vf.coq_eval("cases/c06_eval.v")
    m = re.search(r"=\s*\((true|false),\s*(true|false),\s*(\d+)%?N?\)", log)
    tls = clock = None
    hint = 0
    if rc != 0 or not m:
        ck.broken("C06 decision (Eval vm_compute)", log[-800:])
    else:
        tls, clock, hint = m.group(1) == "true", m.group(2) == "true", int(m.group(3))
        ck.cov["rng_state_thread_local"] = tls
        ck.cov["clock_reachable_after_seeding"] = clock
        ck.cov["generate_seed_zero_preimage"] = hint
    exe = vf.build_driver("drv_c06")
    lines, meta = [], []
    # --- RNG correspondence: regenerated functions vs compiled functions
    for _ in range(60 if not thorough else 600):
        seed = rng.choice((rng.randrange(0, 2 ** 32), rng.randrange(0, 300), 2 ** 32 - 1 - rng.randrange(0, 5)))
        low = rng.choice((0, 0, -50, 7))
        high = low + rng.choice((1, 2, 10, 31, 1000, 2 ** 20))
        n = rng.randint(1, 25)
        if hint and generate_hits_zero(seed, n, hint):
            continue
        lines.append("rng %d %d %d %d" % (seed, n, low, high))
        meta.append(("rng", seed, n, low, high))
    # --- schedules: exhaustive interleavings of small worker sets
    sets = [[(1, 3), (2, 3)], [(7, 2), (7, 2)], [(3, 1), (4, 1), (5, 1)], [(100, 2), (200, 1)]]
    if thorough:
        sets += [[(1, 3), (2, 3), (3, 1)], [(9, 4), (10, 4)]]
    for ws in sets:
        ils = interleavings([1 + n for _, n in ws])
        if len(ils) > 400:
            ils = rng.sample(ils, 400)
        for il in ils:
            lines.append("sched %d %s %d %s" % (len(ws), " ".join("%d %d" % (s, n) for s, n in ws), len(il), " ".join(map(str, il))))
            meta.append(("sched", ws, list(il)))
    for _ in range(20 if not thorough else 200):
        K = rng.randint(2, 4)
        ws = [(rng.randrange(1, 1000), rng.randint(1, 6)) for _ in range(K)]
        il = []
        for k, (_, n) in enumerate(ws):
            il += [k] * (n + 1)
        rng.shuffle(il)
        lines.append("sched %d %s %d %s" % (K, " ".join("%d %d" % (s, n) for s, n in ws), len(il), " ".join(map(str, il))))
        meta.append(("sched", ws, il))
    # --- group generator through the public API under imposed schedules
    for _ in range(10 if not thorough else 60):
        K = rng.randint(2, 3)
        seeds = [rng.randrange(1, 255) for _ in range(K)]
        nobj, ngrp = rng.randint(5, 14), rng.randint(2, 4)
        il = [rng.randrange(K) for _ in range(600)]
        lines.append("gsched %d %s %d %d %d %s" % (K, " ".join(map(str, seeds)), nobj, ngrp, len(il), " ".join(map(str, il))))
        meta.append(("gsched", seeds, nobj, ngrp))
    # --- bootstrap CV under the OS scheduler: repeated runs and thread counts dividing the iterations
    X = [[rng.gauss(0, 1) for _ in range(3)] for _ in range(14)]
    Y = [[sum(r) + rng.gauss(0, 0.1)] for r in X]
    boots = []
    # a second data set with FEWER objects than the largest worker count (7 objects, 8 iterations, up to 8 workers)
    X7 = [[rng.gauss(0, 1) for _ in range(2)] for _ in range(7)]
    Y7 = [[r[0] - 0.5 * r[1] + rng.gauss(0, 0.1)] for r in X7]
    for algo in (4, 0):
        for nth in (1, 2, 4):
            lines.append("boot %d %s %s 3 4 %d %d" % (algo, vf.fmt_mat(X), vf.fmt_mat(Y), nth, 3 if not thorough else 8))
            meta.append(("boot", (algo, "14 objects, 3 groups, 4 iterations"), nth))
        for nth in (1, 2, 4, 8):
            lines.append("boot %d %s %s 2 8 %d %d" % (algo, vf.fmt_mat(X7), vf.fmt_mat(Y7), nth, 2 if not thorough else 5))
            meta.append(("boot", (algo, "7 objects, 2 groups, 8 iterations"), nth))
    # ... and the classifier (LDA, learner 5): three overlapping classes, so that the predicted class of an object differs between
    # iterations; 8 iterations in 8 / 4 / 2 batches
    XL = [[rng.gauss(0, 1) + 1.2 * (i % 3), rng.gauss(0, 1) - 0.8 * (i % 3)] for i in range(30)]
    YL = [[float(i % 3)] for i in range(30)]
    for nth in (1, 2, 4):
        lines.append("boot 5 %s %s 3 8 %d %d" % (vf.fmt_mat(XL), vf.fmt_mat(YL), nth, 2))
        meta.append(("boot", (5, "LDA, 30 objects in 3 overlapping classes, 3 groups, 8 iterations"), nth))
    # --- y-scrambling (bootstrap and leave-one-out validation inside): thread counts dividing the rounds
    for algo in (4, 0):
        for vtype, rounds, nths in ((1, 6, (1, 2, 3, 6)), (0, 4, (1, 2, 4))):
            for nth in nths:
                lines.append("yscr %d %s %s %d %d %d" % (algo, vf.fmt_mat(X), vf.fmt_mat(Y), vtype, rounds, nth))
                meta.append(("yscr", algo, (vtype, rounds), nth))
    # ... and with the discriminant learner (LDA, class labels as response), each thread count run twice
    Ycls = [[float(i % 2)] for i in range(len(X))]
    for vtype, rounds, nths in ((1, 4, (1, 1, 2, 2, 4)), (0, 2, (1, 2, 2))):
        for nth in nths:
            lines.append("yscr 5 %s %s %d %d %d" % (vf.fmt_mat(X), vf.fmt_mat(Ycls), vtype, rounds, nth))
            meta.append(("yscr", 5, (vtype, rounds), nth))
    # ... and the cross-validated k-means (it seeds its own stream): worker counts that do and do not divide the rows / the
    # training folds, each result also recomputed into the vector that already holds it
    Xk = [[(i % 3) * 4.0 + rng.gauss(0, 1), (i % 3) * -3.0 + rng.gauss(0, 1)] for i in range(24)]
    for init_ in (2, 3):
        for nth in (1, 2, 3, 5, 7):
            lines.append("kmcv %s 4 %d 3 2 %d" % (vf.fmt_mat(Xk), init_, nth))
            meta.append(("kmcv", init_, nth))
    rc, outs, err = vf.run_driver(exe, "\n".join(lines) + "\n", timeout=1200)
    if rc != 0 or len(outs) != len(meta):
        ck.broken("driver drv_c06", "rc=%s cases=%d/%d %s" % (rc, len(outs), len(meta), err[-800:]))
        return
    checks = vf.Checks()
    bootres = {}
    yscr = {}
    kmcv = {}
    for i, (mt, o) in enumerate(zip(meta, outs)):
        if mt[0] == "rng":
            _, seed, n, low, high = mt
            ck.case(mt, sample={"op": "rng", "seed": seed, "n": n, "randInt": o["randInt"][:4]} if i == 0 else None)
            checks.add(i, "randInt", "zl_eq (randInt_stream %d %d (%d) (%d)) %s" % (n, seed, low, high, vf.coq_zlist([int(x) for x in o["randInt"]])))
            checks.add(i, "rand_", "zl_eq (raw_stream %d %d) %s" % (n, seed, vf.coq_zlist([int(x) for x in o["rand"]])))
            checks.add(i, "randDouble", "v_agree 0x1p-50%%float 1%%float (randDouble_stream %d %d %s %s) %s" % (
                n, seed, vf.coq_f(float(low)), vf.coq_f(float(high)), "[:: " + "; ".join(vf.coq_f(x) + "%float" for x in o["randDouble"]) + "]"))
            if any(not (low <= x < high) for x in o["randInt"]):
                ck.fail("randInt", "out_of_range", "randInt(%d,%d) returned a value outside [low,high)" % (low, high), {"seed": seed})
        elif mt[0] == "sched":
            _, ws, il = mt
            ck.case(("sched", tuple(ws), tuple(il)), sample={"workers(seed,draws)": ws, "schedule": il} if i % 53 == 0 else None)
            ck.count("schedules with %d workers" % len(ws))
            script = "[:: " + "; ".join("(%d%%Z, %d%%N)" % (s, n) for s, n in ws) + "]"
            for k in range(len(ws)):
                obs = [int(x) for x in o["w%d" % k]]
                checks.add(i, "worker%d" % k, "worker_ok %s %s %d%%N %s" % (script, vf.coq_natlist(il).replace("; ", "%N; ").replace("]", "%N]") if il else "[::]", k, vf.coq_zlist(obs)))
                if o["w%d" % k] != o["seq%d" % k]:
                    ck.fail("XOR128_SEED", "stream_perturbed_by_other_worker",
                            "worker %d drew %s under schedule %s but %s when run alone" % (k, obs[:3], il, [int(x) for x in o["seq%d" % k]][:3]),
                            {"workers": ws, "schedule": il, "worker": k, "observed": obs, "alone": o["seq%d" % k],
                             "replay": "sched %d %s %d %s" % (len(ws), " ".join("%d %d" % w for w in ws), len(il), " ".join(map(str, il)))})
                    break
        elif mt[0] == "gsched":
            ck.case(mt)
            for k in range(len(mt[1])):
                if o["w%d" % k] != o["seq%d" % k]:
                    ck.fail("XOR128_SEED", "stream_perturbed_by_other_worker",
                            "random_kfold_group_generator (seed %d) returned different groups when another worker drew concurrently" % mt[1][k],
                            {"seeds": mt[1], "nobj": mt[2], "groups": mt[3], "worker": k})
                    break
        elif mt[0] == "kmcv":
            _, init_, nth = mt
            ck.case(mt)
            if repr(o["ssdist"]) != repr(o["ssdist_again"]):
                ck.fail("KMeansRandomGroupsCV", "run_to_run_nondeterminism", "a second run into the vector that holds the first result is not bit-identical (initializer %d, %d threads)" % (init_, nth), {"X": Xk, "initializer": init_, "threads": nth})
            kmcv.setdefault(init_, {})[nth] = o["ssdist"]
        elif mt[0] == "yscr":
            _, algo, cfg, nth = mt
            ck.case(mt)
            prev_ = yscr.setdefault((algo, cfg), {}).get(nth)
            if prev_ is not None and repr(prev_) != repr(o["cc"]):
                ck.fail("YScrambling", "run_to_run_nondeterminism", "two runs of y-scrambling (learner %d, %d threads) give different tables" % (algo, nth), {"algo": algo, "threads": nth, "validation": cfg})
            yscr[(algo, cfg)][nth] = o["cc"]
        else:
            _, algo, nth = mt
            ck.case(mt)
            if any(v for k_, v in o.items() if k_.startswith("caller_stream_perturbed")):
                ck.fail("BootstrapRandomGroupsCV", "caller_stream_perturbed", "after srand_(s) and a cross-validation call with %d threads the caller draws other numbers than after srand_(s) alone: the workers consumed the caller's stream (%s)" % (nth, algo[1]), {"algo": algo[0], "config": algo[1], "threads": nth})
            preds = [o[k] for k in sorted(o) if k.startswith("pred") and not k.endswith(".shape")]
            if any(p != preds[0] for p in preds):
                ck.fail("BootstrapRandomGroupsCV", "run_to_run_nondeterminism", "repeated runs with %d threads differ (%s)" % (nth, algo[1]), {"algo": algo[0], "config": algo[1], "threads": nth})
            bootres.setdefault(algo, {})[nth] = preds[0]
    for init_, byth in kmcv.items():
        for nth, v in byth.items():
            if not np.allclose(np.array(v), np.array(byth[1]), rtol=1e-9, atol=1e-12, equal_nan=True):
                ck.fail("KMeansRandomGroupsCV", "thread_count_dependence", "cross-validated k-means with %d threads differs from the sequential run (initializer %d)" % (nth, init_), {"X": Xk, "initializer": init_, "threads": nth})
    for (algo, cfg), byth in yscr.items():
        base = np.array(byth.get(1))
        for nth, p in byth.items():
            p = np.array(p)
            if p.shape != base.shape or not np.allclose(p, base, rtol=1e-9, atol=1e-12, equal_nan=True):
                ck.fail("YScrambling", "thread_count_dependence", "y-scrambling (%s validation, %d rounds) with %d threads differs from the sequential run by %.3g" % ("bootstrap" if cfg[0] == 1 else "leave-one-out", cfg[1], nth, np.nanmax(np.abs(p - base)) if p.shape == base.shape else float("nan")), {"algo": algo, "threads": nth, "validation": cfg})
    for algo, byth in bootres.items():
        base = byth.get(1)
        for nth, p in byth.items():
            if p != base:
                ck.fail("BootstrapRandomGroupsCV", "thread_count_dependence", "result with %d threads differs from the sequential run (%s)" % (nth, algo[1]), {"algo": algo[0], "config": algo[1], "threads": nth})
    # --- clock path: srand_(s0) makes the state 0, the next draw consults time()
    if clock and hint:
        r1 = vf.run_driver(exe, "rng %d 3 0 1000\n" % hint)[1]
        time.sleep(1.1)
        r2 = vf.run_driver(exe, "rng %d 3 0 1000\n" % hint)[1]
        ck.cov["clock_probe"] = {"seed": hint, "run1": r1[0]["rand"] if r1 else None, "run2": r2[0]["rand"] if r2 else None}
        if r1 and r2 and r1[0]["rand"] != r2[0]["rand"]:
            ck.fail("generate_seed", "state_zero_consults_clock", "srand_(%d) puts the generator in state 0; the following draws depend on time(NULL)" % hint,
                    {"seed": hint, "run1": r1[0]["rand"], "run2": r2[0]["rand"]})
    # --- ThreadSanitizer: the cross-validation and y-scrambling routines with 2 and 4 workers
    try:
        ets = vf.build_driver("drv_c06", "tsan")
        tl = []
        for algo in (4, 0):
            for nth in (2, 4):
                tl.append("boot %d %s %s 3 4 %d %d" % (algo, vf.fmt_mat(X), vf.fmt_mat(Y), nth, 2 if not thorough else 6))
        tl.append("yscr 4 %s %s 1 4 2" % (vf.fmt_mat(X), vf.fmt_mat(Y)))
        tl.append("yscr 0 %s %s 0 2 2" % (vf.fmt_mat(X), vf.fmt_mat(Y)))
        rct, outt, errt = vf.run_driver(ets, "\n".join(tl) + "\n", timeout=900, env={"TSAN_OPTIONS": "exitcode=66 halt_on_error=0 report_signal_unsafe=0"})
        ck.case(("tsan", len(tl)))
        ck.count("ThreadSanitizer runs", len(tl))
        ck.cov["tsan_runs"] = len(tl)
        if "ThreadSanitizer: data race" in errt:
            import re as _re
            loc = _re.search(r"#\d+ (\w+) /repo/src/(\w+\.c):(\d+)", errt)
            what = _re.search(r"Location is (global|heap block|stack)[^\n]*", errt)
            site = loc.group(1) if loc else "unknown"
            ck.fail(site, "data_race", "ThreadSanitizer reports a data race in %s (%s:%s); %s" % (site, loc.group(2) if loc else "?", loc.group(3) if loc else "?", what.group(0) if what else ""),
                    {"report": errt[:3000], "commands": [t[:60] for t in tl]})
        elif rct != 0 or len(outt) != len(tl):
            ck.broken("driver drv_c06 (tsan)", "rc=%s cases=%d/%d %s" % (rct, len(outt), len(tl), errt[-600:]))
    except vf.BuildError as e:
        ck.broken("build (tsan)", str(e))
    failing, logs, cerr = vf.run_cases_v("c06", IMPORTS, DEFS, checks.items, shard=150)
    if cerr:
        ck.broken("correspondence:coq-eval", cerr)
    for cid in sorted(set(failing)):
        case, label = checks.where[cid]
        ck.broken("correspondence:%s case %d %s" % (label, case, str(meta[case])[:120]), "regenerated RNG / schedule model and implementation disagree")
    ck.cov["model_checks_evaluated_in_coq"] = len(checks.items)
    ck.cov["traces_validated_against_impl"] = len(meta)
    ck.cov["rule"] = ("RNG: random and boundary seeds; schedules: ALL interleavings of 2-3 workers' calls on small scripts (imposed through the yield hook) "
                      "plus random ones; group generator under random imposed schedules; bootstrap CV under the OS scheduler with 1,2,4 threads (14 objects) and 1,2,4,8 threads (7 objects: fewer objects than workers); y-scrambling with thread counts dividing the rounds; distinct by full case")
    ck.assumptions += ["RNG calls are atomic steps at the granularity of one library call (the yield hook sits at call entry); word tearing / compiler reordering / C11 data-race UB are not modelled",
                       "T-leaf transcription of numeric.c (cross-checked here against the compiled functions)"]


def generate_hits_zero(seed, n, hint):
    a, c = 0x7AFB2C23, 0x894C3
    s = (a * seed + c) % 2 ** 32
    for _ in range(n + 1):
        if s == 0:
            return True
        s = (a * s + c) % 2 ** 32
    return False


def replay(ck, rp):
    exe = vf.build_driver("drv_c06")
    rc, outs, err = vf.run_driver(exe, rp["case"]["replay"] + "\n")
    print(outs)
    return 1
