#!/bin/bash
# Builds the Coq development from the files on disk (offline). Full .vo build.
set -e
cd "$(dirname "$0")"
python3 - <<'PY'
import sys; sys.path.insert(0, 'lib')
import vf
vf.coq_regen()
PY
cd coq
coq_makefile -f _CoqProject -o Makefile > /dev/null
timeout 3000 make -k -j16 > /tmp/verif_setup_coq.log 2>&1 || { grep -B5 -A15 "Error" /tmp/verif_setup_coq.log | head -80; echo "setup: coq build had errors (checks will report them)"; }
cd ..
python3 - <<'PY'
import sys; sys.path.insert(0, 'lib')
import vf
vf.build_lib("plain")
print("setup done")
PY
