/* drv_kernels.c — runs the dense kernels of matrix.c / vector.c / tensor.c on cases
 * read from stdin (C11, C13 values). */
#include "proto.h"

int main(void)
{
  char op[64];
  while(rd_tok(op, sizeof op)){
    if(!strcmp(op, "nproc")){ verif_nproc_override = rd_size(); continue; }
    if(!strcmp(op, "matmul")){
      matrix *a = rd_matrix(), *b = rd_matrix(), *r0 = rd_matrix(), *r;
      r = dup_matrix(r0);
      MatrixDotProduct(a, b, r); pr_matrix("r", r); DelMatrix(&r);
      if(a->col >= 3){ /* the unrolled variant is only defined for col >= 3 (size_t col-3) */
        r = dup_matrix(r0); MatrixDotProduct_LOOP_UNROLLING(a, b, r); pr_matrix("r_unrolled", r); DelMatrix(&r);
      }
      r = dup_matrix(r0); MatrixDotProduct_(a, b, r); pr_matrix("r_plain", r); DelMatrix(&r);
      DelMatrix(&a); DelMatrix(&b); DelMatrix(&r0);
    }
    else if(!strcmp(op, "matvec")){
      matrix *m = rd_matrix(); dvector *v = rd_dvector(), *p0 = rd_dvector(), *p;
      size_t np = rd_size();
      p = dup_dvector(p0);
      MatrixDVectorDotProduct(m, v, p); pr_dvector("p", p); DelDVector(&p);
      p = dup_dvector(p0);
      verif_nproc_override = np; MT_MatrixDVectorDotProduct(m, v, p); verif_nproc_override = 0;
      pr_dvector("p_mt", p);
      DelMatrix(&m); DelDVector(&v); DelDVector(&p); DelDVector(&p0);
    }
    else if(!strcmp(op, "vecmat")){
      matrix *m = rd_matrix(); dvector *v = rd_dvector(), *p0 = rd_dvector(), *p;
      size_t np = rd_size();
      p = dup_dvector(p0);
      DVectorMatrixDotProduct(m, v, p); pr_dvector("p", p); DelDVector(&p);
      p = dup_dvector(p0);
      verif_nproc_override = np; MT_DVectorMatrixDotProduct(m, v, p); verif_nproc_override = 0;
      pr_dvector("p_mt", p);
      DelMatrix(&m); DelDVector(&v); DelDVector(&p); DelDVector(&p0);
    }
    else if(!strcmp(op, "outer")){
      dvector *a = rd_dvector(), *b = rd_dvector(); matrix *m;
      NewMatrix(&m, a->size, b->size);
      RowColOuterProduct(a, b, m); pr_matrix("m", m);
      reuse_mask = 0;
      { matrix *k = dup_matrix(m); RowColOuterProduct(a, b, m); RB(0, same_m(m, k)); junk_m(m); RowColOuterProduct(a, b, m); RB(0, same_m(m, k)); DelMatrix(&k); }
      { matrix *m2, *k; NewMatrix(&m2, a->size, b->size);
        DVectorTrasposedDVectorDotProduct(a, b, m2); pr_matrix("m2", m2);
        k = dup_matrix(m2); junk_m(m2); DVectorTrasposedDVectorDotProduct(a, b, m2); RB(1, same_m(m2, k)); DelMatrix(&k); DelMatrix(&m2);
      }
      pr_long("reuse_bad", reuse_mask);
      DelMatrix(&m); DelDVector(&a); DelDVector(&b);
    }
    else if(!strcmp(op, "unary")){
      matrix *m = rd_matrix(), *t, *c, *nm; dvector *v;
      reuse_mask = 0;
      NewMatrix(&t, m->col, m->row); MatrixTranspose(m, t); pr_matrix("transpose", t);
      { matrix *k = dup_matrix(t); junk_m(t); MatrixTranspose(m, t); RB(0, same_m(t, k)); DelMatrix(&k); } DelMatrix(&t);
      pr_double("trace", MatrixTrace(m));
      pr_double("norm", Matrixnorm(m));
      NewMatrix(&nm, m->row, m->col); MatrixNorm(m, nm); pr_matrix("normalized", nm);
      { matrix *k = dup_matrix(nm); junk_m(nm); MatrixNorm(m, nm); RB(1, same_m(nm, k)); DelMatrix(&k); } DelMatrix(&nm);
      if(m->row > 0 && m->col > 0){
        size_t j;
        initMatrix(&c); MatrixCovariance(m, c); pr_matrix("cov", c);
        { matrix *k = dup_matrix(c); junk_m(c); MatrixCovariance(m, c); RB(2, same_m(c, k)); DelMatrix(&k); } DelMatrix(&c);
        /* the column/row statistics APPEND their values to the vector they are given: a second call leaves what was
           there and appends the same values again */
#define APPENDS(bit, CALL) { dvector *k = dup_dvector(v); size_t q_, n_ = k->size; int ok_ = 1; CALL; \
          if(v->size != 2*n_) ok_ = 0; else for(q_ = 0; q_ < n_; q_++) if(!same_d(v->data[q_], k->data[q_]) || !same_d(v->data[n_+q_], k->data[q_])) ok_ = 0; \
          RB(bit, ok_); DelDVector(&k); }
        initDVector(&v); MatrixColAverage(m, v); pr_dvector("colavg", v); APPENDS(3, MatrixColAverage(m, v)) DelDVector(&v);
        initDVector(&v); MatrixColVar(m, v); pr_dvector("colvar", v); APPENDS(4, MatrixColVar(m, v)) DelDVector(&v);
        initDVector(&v); MatrixColSDEV(m, v); pr_dvector("colsdev", v); APPENDS(5, MatrixColSDEV(m, v)) DelDVector(&v);
        initDVector(&v); MatrixColRMS(m, v); pr_dvector("colrms", v); APPENDS(6, MatrixColRMS(m, v)) DelDVector(&v);
        initDVector(&v); MatrixRowAverage(m, v); pr_dvector("rowavg", v); APPENDS(7, MatrixRowAverage(m, v)) DelDVector(&v);
#undef APPENDS
        NewMatrix(&t, m->col, 2);
        for(j = 0; j < m->col; j++) MatrixColumnMinMax(m, j, &t->data[j][0], &t->data[j][1]);
        pr_matrix("minmax", t); DelMatrix(&t);
        /* the descriptive-statistics table (one row per column: mean, median, harmonic mean, variances, standard deviations,
           coefficients of variation, min, max, number of zeros, number of missing cells) */
        initMatrix(&t); MatrixColDescStat(m, t); pr_matrix("descstat", t); DelMatrix(&t);
      }
      pr_long("reuse_bad", reuse_mask);
      DelMatrix(&m);
    }
    else if(!strcmp(op, "sort")){
      matrix *m = rd_matrix(), *c; size_t key = rd_size();
      c = dup_matrix(m); MatrixSort(c, key); pr_matrix("sorted", c); DelMatrix(&c);
      c = dup_matrix(m); MatrixReverseSort(c, key); pr_matrix("rsorted", c); DelMatrix(&c);
      { /* the key column as a vector: DVectorSort, and the median (sorts its argument) */
        dvector *v; size_t i; double med;
        NewDVector(&v, m->row); for(i = 0; i < m->row; i++) v->data[i] = m->data[i][key];
        DVectorSort(v); pr_dvector("vsorted", v);
        for(i = 0; i < m->row; i++) v->data[i] = m->data[i][key];
        DVectorMedian(v, &med); pr_double("median", med); DelDVector(&v); }
      DelMatrix(&m);
    }
    else if(!strcmp(op, "vec")){
      dvector *a = rd_dvector(), *b = rd_dvector(), *n;
      pr_double("dot", DVectorDVectorDotProd(a, b));
      pr_double("module", DvectorModule(a));
      NewDVector(&n, a->size);
      if(a->size > 0){ DVectNorm(a, n); pr_dvector("normalized", n); }
      DelDVector(&n); DelDVector(&a); DelDVector(&b);
    }
    else if(!strcmp(op, "tensor")){
      tensor *t = rd_tensor(); dvector *v = rd_dvector(), *w = rd_dvector(); matrix *pm = rd_matrix();
      /* all slices have the same shape r x c; v has size r, w has size c, pm is c x order */
      size_t r = t->m[0]->row, c = t->m[0]->col;
      matrix *m1, *m2; dvector *o;
      NewMatrix(&m1, c, t->order); DvectorTensorDotProduct(t, v, m1); pr_matrix("vT", m1); DelMatrix(&m1);
      NewMatrix(&m2, t->order, r); TransposedTensorDVectorProduct(t, w, m2); pr_matrix("Tw", m2); DelMatrix(&m2);
      NewDVector(&o, r); TensorMatrixDotProduct(t, pm, o); pr_dvector("TM", o); DelDVector(&o);
      DelTensor(&t); DelDVector(&v); DelDVector(&w); DelMatrix(&pm);
    }
    else{ fprintf(stderr, "unknown op %s\n", op); return 2; }
    pr_end();
  }
  return 0;
}
