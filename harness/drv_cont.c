/* drv_cont.c — C14: runs one operation history over pools of containers (4 slots per kind)
 * against the library (built with ASan+UBSan by the check) and dumps every live container
 * after every operation, so that aliasing between containers shows up as a divergence from
 * the by-value model.  One operation per input line; output per operation:
 *    "> <op index> <status>"   status: ok | abort (library called abort()) | ret <value>
 *    one line per live container: D<k> n v..  U<k> n v..  M<k> r c v..  T<k> o (r c v..)*
 *                                  L<k> n (s v..)*  S<k> n "str"..
 *    "."
 * A sanitizer report ends the process (exit code 77) and with it the history. */
#include <stdio.h>
#include <stdlib.h>
#include <string.h>
#include <math.h>
#define ssignal libc_ssignal   /* scientificinfo.h typedefs a type of this name */
#include <signal.h>
#undef ssignal
#include <setjmp.h>
#include <scientific.h>
#include <memwrapper.h>

#define NS 4
static dvector *D[NS]; static uivector *U[NS]; static ivector *I[NS]; static matrix *M[NS]; static tensor *T[NS];
static dvectorlist *L[NS]; static strvector *S[NS];
static sigjmp_buf jb;
static void on_abort(int sig){ (void)sig; siglongjmp(jb, 1); }

static void pr_d(double x){ if(x != x) printf(" nan"); else if(isinf(x)) printf(x > 0 ? " inf" : " -inf"); else printf(" %.17g", x); }
static void dump(void)
{
  size_t k, i, j, o;
  for(k = 0; k < NS; k++) if(D[k]){ printf("D%zu %zu", k, D[k]->size); for(i = 0; i < D[k]->size; i++) pr_d(D[k]->data[i]); printf("\n"); }
  for(k = 0; k < NS; k++) if(U[k]){ printf("U%zu %zu", k, U[k]->size); for(i = 0; i < U[k]->size; i++) printf(" %zu", U[k]->data[i]); printf("\n"); }
  for(k = 0; k < NS; k++) if(I[k]){ printf("I%zu %zu", k, I[k]->size); for(i = 0; i < I[k]->size; i++) printf(" %d", I[k]->data[i]); printf("\n"); }
  for(k = 0; k < NS; k++) if(M[k]){ printf("M%zu %zu %zu", k, M[k]->row, M[k]->col); for(i = 0; i < M[k]->row; i++) for(j = 0; j < M[k]->col; j++) pr_d(M[k]->data[i][j]); printf("\n"); }
  for(k = 0; k < NS; k++) if(T[k]){ printf("T%zu %zu", k, T[k]->order);
    for(o = 0; o < T[k]->order; o++){ matrix *m = T[k]->m[o]; if(m == NULL){ printf(" null"); continue; } printf(" %zu %zu", m->row, m->col); for(i = 0; i < m->row; i++) for(j = 0; j < m->col; j++) pr_d(m->data[i][j]); }
    printf("\n"); }
  for(k = 0; k < NS; k++) if(L[k]){ printf("L%zu %zu", k, L[k]->size); for(o = 0; o < L[k]->size; o++){ printf(" %zu", L[k]->d[o]->size); for(i = 0; i < L[k]->d[o]->size; i++) pr_d(L[k]->d[o]->data[i]); } printf("\n"); }
  for(k = 0; k < NS; k++) if(S[k]){ printf("S%zu %zu", k, S[k]->size); for(i = 0; i < S[k]->size; i++) printf(" \"%s\"", S[k]->data[i]); printf("\n"); }
}

/* text operands: '_' stands for a space, '~' for a tab, "@" for the empty string; the text is handed over in a heap block of exactly
   its size */
static char *dec_text(const char *t)
{
  size_t n = strcmp(t, "@") == 0 ? 0 : strlen(t), i; char *r = malloc(n + 1);
  for(i = 0; i < n; i++) r[i] = t[i] == '_' ? ' ' : (t[i] == '~' ? '\t' : t[i]);
  r[n] = 0; return r;
}
static char *tok[64]; static int ntok;
static size_t z(int i){ return (size_t)strtoull(tok[i], NULL, 10); }
static double f(int i){ return strtod(tok[i], NULL); }
#define IS(s) (strcmp(tok[0], s) == 0)

int main(void)
{
  char line[4096]; long opno = 0;
  struct sigaction sa; memset(&sa, 0, sizeof sa); sa.sa_handler = on_abort; sa.sa_flags = SA_NODEFER; sigaction(SIGABRT, &sa, NULL);
  setvbuf(stdout, NULL, _IOLBF, 0);
  while(fgets(line, sizeof line, stdin)){
    char *p; ntok = 0;
    for(p = strtok(line, " \n"); p && ntok < 64; p = strtok(NULL, " \n")) tok[ntok++] = p;
    if(ntok == 0) continue;
    int have_ret = 0; double ret = 0; int aborted = 0;
    /* the library prints its error messages on stdout/stderr: keep them out of the protocol */
    fflush(stdout);
    if(sigsetjmp(jb, 1) == 0){
      FILE *saved = stdout; (void)saved;
      if(IS("dv_new")){ NewDVector(&D[z(1)], z(2)); }
      else if(IS("dv_init")){ initDVector(&D[z(1)]); }
      else if(IS("dv_del")){ DelDVector(&D[z(1)]); D[z(1)] = NULL; }
      else if(IS("dv_resize")){ DVectorResize(D[z(1)], z(2)); }
      else if(IS("dv_append")){ DVectorAppend(D[z(1)], f(2)); }
      else if(IS("dv_remove")){ DVectorRemoveAt(D[z(1)], z(2)); }
      else if(IS("dv_copy")){ DVectorCopy(D[z(1)], D[z(2)]); }
      else if(IS("dv_extend")){ D[z(3)] = DVectorExtend(D[z(1)], D[z(2)]); }
      else if(IS("dv_set")){ setDVectorValue(D[z(1)], z(2), f(3)); }
      else if(IS("dv_get")){ ret = getDVectorValue(D[z(1)], z(2)); have_ret = 1; }
      else if(IS("dv_fill")){ DVectorSet(D[z(1)], f(2)); }
      else if(IS("dv_sort")){ DVectorSort(D[z(1)]); }
      else if(IS("ui_new")){ NewUIVector(&U[z(1)], z(2)); }
      else if(IS("ui_init")){ initUIVector(&U[z(1)]); }
      else if(IS("ui_del")){ DelUIVector(&U[z(1)]); U[z(1)] = NULL; }
      else if(IS("ui_resize")){ UIVectorResize(U[z(1)], z(2)); }
      else if(IS("ui_append")){ UIVectorAppend(U[z(1)], z(2)); }
      else if(IS("ui_remove")){ UIVectorRemoveAt(U[z(1)], z(2)); }
      else if(IS("ui_extend")){ U[z(3)] = UIVectorExtend(U[z(1)], U[z(2)]); }
      else if(IS("ui_set")){ setUIVectorValue(U[z(1)], z(2), z(3)); }
      else if(IS("ui_get")){ ret = (double)getUIVectorValue(U[z(1)], z(2)); have_ret = 1; }
      else if(IS("ui_fill")){ UIVectorSet(U[z(1)], z(2)); }
      else if(IS("ui_sort")){ SortUIVector(U[z(1)]); }
      else if(IS("iv_new")){ NewIVector(&I[z(1)], z(2)); }
      else if(IS("iv_init")){ initIVector(&I[z(1)]); }
      else if(IS("iv_del")){ DelIVector(&I[z(1)]); I[z(1)] = NULL; }
      else if(IS("iv_append")){ IVectorAppend(I[z(1)], (int)strtol(tok[2], NULL, 10)); }
      else if(IS("iv_remove")){ IVectorRemoveAt(I[z(1)], z(2)); }
      else if(IS("iv_extend")){ I[z(3)] = IVectorExtend(I[z(1)], I[z(2)]); }
      else if(IS("iv_set")){ setIVectorValue(I[z(1)], z(2), (int)strtol(tok[3], NULL, 10)); }
      else if(IS("iv_get")){ ret = (double)getIVectorValue(I[z(1)], z(2)); have_ret = 1; }
      else if(IS("m_new")){ NewMatrix(&M[z(1)], z(2), z(3)); }
      else if(IS("m_init")){ initMatrix(&M[z(1)]); }
      else if(IS("m_del")){ DelMatrix(&M[z(1)]); M[z(1)] = NULL; }
      else if(IS("m_resize")){ ResizeMatrix(M[z(1)], z(2), z(3)); }
      else if(IS("m_copy")){ MatrixCopy(M[z(1)], &M[z(2)]); }
      else if(IS("m_set")){ setMatrixValue(M[z(1)], z(2), z(3), f(4)); }
      else if(IS("m_get")){ ret = getMatrixValue(M[z(1)], z(2), z(3)); have_ret = 1; }
      else if(IS("m_fill")){ MatrixSet(M[z(1)], f(2)); }
      else if(IS("m_approw")){ MatrixAppendRow(M[z(1)], D[z(2)]); }
      else if(IS("m_appcol")){ MatrixAppendCol(M[z(1)], D[z(2)]); }
      else if(IS("m_appuirow")){ MatrixAppendUIRow(M[z(1)], U[z(2)]); }
      else if(IS("m_appuicol")){ MatrixAppendUICol(M[z(1)], U[z(2)]); }
      else if(IS("m_delrow")){ MatrixDeleteRowAt(M[z(1)], z(2)); }
      else if(IS("m_delcol")){ MatrixDeleteColAt(M[z(1)], z(2)); }
      else if(IS("m_getrow")){ D[z(3)] = getMatrixRow(M[z(1)], z(2)); }
      else if(IS("m_getcol")){ D[z(3)] = getMatrixColumn(M[z(1)], z(2)); }
      else if(IS("m_transpose")){ MatrixTranspose(M[z(1)], M[z(2)]); }
      else if(IS("m_sort")){ MatrixSort(M[z(1)], z(2)); }
      else if(IS("m_rsort")){ MatrixReverseSort(M[z(1)], z(2)); }
      else if(IS("t_init")){ initTensor(&T[z(1)]); }
      else if(IS("t_new")){ NewTensor(&T[z(1)], z(2)); }
      else if(IS("t_del")){ DelTensor(&T[z(1)]); T[z(1)] = NULL; }
      else if(IS("t_newmat")){ NewTensorMatrix(T[z(1)], z(2), z(3), z(4)); }
      else if(IS("t_addmat")){ AddTensorMatrix(T[z(1)], z(2), z(3)); }
      else if(IS("t_appmat")){ TensorAppendMatrix(T[z(1)], M[z(2)]); }
      else if(IS("t_approw")){ TensorAppendRow(T[z(1)], z(2), D[z(3)]); }
      else if(IS("t_appcol")){ TensorAppendColumn(T[z(1)], z(2), D[z(3)]); }
      else if(IS("t_copy")){ TensorCopy(T[z(1)], &T[z(2)]); }
      else if(IS("t_set")){ setTensorValue(T[z(1)], z(2), z(3), z(4), f(5)); }
      else if(IS("t_get")){ ret = getTensorValue(T[z(1)], z(2), z(3), z(4)); have_ret = 1; }
      else if(IS("t_fill")){ TensorSet(T[z(1)], f(2)); }
      else if(IS("l_init")){ initDVectorList(&L[z(1)]); }
      else if(IS("l_new")){ /* a list created with its size: the slots are filled by the caller with empty vectors (NewDVector(.., 0)), the valid use */
        size_t q; NewDVectorList(&L[z(1)], z(2)); for(q = 0; q < z(2); q++) NewDVector(&L[z(1)]->d[q], 0); }
      else if(IS("l_del")){ DelDVectorList(&L[z(1)]); L[z(1)] = NULL; }
      else if(IS("l_append")){ DVectorListAppend(L[z(1)], D[z(2)]); }
      else if(IS("s_new")){ NewStrVector(&S[z(1)], z(2)); { size_t i; for(i = 0; i < S[z(1)]->size; i++) setStr(S[z(1)], i, ""); } }
      else if(IS("s_init")){ initStrVector(&S[z(1)]); }
      else if(IS("s_del")){ DelStrVector(&S[z(1)]); S[z(1)] = NULL; }
      else if(IS("s_append")){ StrVectorAppend(S[z(1)], tok[2]); }
      else if(IS("s_appint")){ StrVectorAppendInt(S[z(1)], (int)strtol(tok[2], NULL, 10)); }
      else if(IS("s_appdbl")){ StrVectorAppendDouble(S[z(1)], strtod(tok[2], NULL)); }
      else if(IS("s_set")){ setStr(S[z(1)], z(2), tok[3]); }
      else if(IS("s_split")){ char *a = dec_text(tok[2]), *b = dec_text(tok[3]); SplitString(a, b, S[z(1)]); free(a); free(b); }
      else if(IS("s_extend")){ S[z(3)] = StrVectorExtend(S[z(1)], S[z(2)]); }
      else { fprintf(stderr, "drv_cont: unknown op %s\n", tok[0]); return 3; }
    }
    else aborted = 1;
    fflush(stdout);
    if(aborted) printf("\n> %ld abort\n", opno);
    else if(have_ret){ printf("\n> %ld ret", opno); pr_d(ret); printf("\n"); }
    else printf("\n> %ld ok\n", opno);
    dump();
    printf("$\n");
    fflush(stdout);
    opno++;
  }
  /* release everything: a double free or a free of foreign memory shows up here */
  { size_t k; for(k = 0; k < NS; k++){
      if(D[k]) DelDVector(&D[k]); if(U[k]) DelUIVector(&U[k]); if(I[k]) DelIVector(&I[k]); if(M[k]) DelMatrix(&M[k]);
      if(T[k]) DelTensor(&T[k]); if(L[k]) DelDVectorList(&L[k]); if(S[k]) DelStrVector(&S[k]); } }
  printf("\n> end ok\n$\n");
  return 0;
}
