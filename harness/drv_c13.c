/* drv_c13.c — multithreaded kernels vs their sequential definition (C13).
 *  sweep R T      : run every slicing kernel on an R-row problem with T threads and compare
 *                   with a reference computed here by the plain definition
 *  cidx N         : print square_to_condensed_index(i,j,N) for all i<j
 *  dist           : distance matrices (square + condensed) of given matrices
 */
#include "proto.h"
void getLabels(matrix *m, matrix *centroids, uivector *labels);
void getLabels_(matrix *m, matrix *centroids, uivector *labels, int nthreads);

static double val(size_t i, size_t j){ return (double)((i*7 + j*3) % 11) - 4.0 + 0.125*(double)((i*i + j) % 5); }

static double dref(matrix *a, size_t i, matrix *b, size_t k, int me)
{
  size_t j; double d = 0.0, n = 0.0, da = 0.0, db = 0.0;
  for(j = 0; j < a->col; j++){
    double x = a->data[i][j], y = b->data[k][j];
    if(me == 0 || me == 1) d += (x-y)*(x-y);
    else if(me == 2) d += fabs(x-y);
    else { n += x*y; da += x*x; db += y*y; }
  }
  if(me == 0) return sqrt(d);
  if(me == 3) return n/(sqrt(da)*sqrt(db));
  return d;
}

static int same(double a, double b){ return (a == b) || (a != a && b != b); }

int main(void)
{
  char op[64];
  while(rd_tok(op, sizeof op)){
    if(!strcmp(op, "sweep")){
      size_t R = rd_size(), T = rd_size(), i, j, k;
      matrix *m, *mt, *m2, *D; dvector *v, *w, *p, *cd; int me;
      long bad;
      NewMatrix(&m, R, 3); NewMatrix(&mt, 3, R); NewMatrix(&m2, 4, 3);
      for(i = 0; i < R; i++) for(j = 0; j < 3; j++){ m->data[i][j] = val(i, j); mt->data[j][i] = val(i, j); }
      for(i = 0; i < 4; i++) for(j = 0; j < 3; j++) m2->data[i][j] = val(i + 50, j);
      NewDVector(&v, 3); v->data[0] = 1.5; v->data[1] = -2.0; v->data[2] = 0.25;
      /* matvec: output poisoned with NaN: a row never written stays NaN */
      NewDVector(&p, R); for(i = 0; i < R; i++) p->data[i] = NAN;
      verif_nproc_override = T; MT_MatrixDVectorDotProduct(m, v, p); verif_nproc_override = 0;
      bad = -1;
      for(i = 0; i < R; i++){
        double r = 0.0; for(j = 0; j < 3; j++) r += m->data[i][j]*v->data[j];
        if(T == 1) { /* single thread: accumulates into the (NaN) output */ if(p->data[i] == p->data[i]) bad = (long)i; }
        else if(!same(p->data[i], r) && bad < 0) bad = (long)i;
      }
      pr_long("matvec_bad_row", bad);
      DelDVector(&p);
      /* vecmat: slices the columns; zero-initialised output; a column done twice doubles */
      NewDVector(&p, R);
      verif_nproc_override = T; MT_DVectorMatrixDotProduct(mt, v, p); verif_nproc_override = 0;
      bad = -1;
      for(i = 0; i < R; i++){
        double r = 0.0; for(j = 0; j < 3; j++) r += v->data[j]*mt->data[j][i];
        if(!same(p->data[i], r) && bad < 0) bad = (long)i;
      }
      pr_long("vecmat_bad_col", bad);
      DelDVector(&p);
      /* the same two kernels on data with missing-coded cells: the threaded kernel must equal the
       * sequential one (which leaves out every product with a missing operand) */
      { matrix *mm, *mmt; dvector *pr, *pm;
        NewMatrix(&mm, R, 3); NewMatrix(&mmt, 3, R);
        for(i = 0; i < R; i++) for(j = 0; j < 3; j++){ double x = (i % 3 == 1 && j == 1) ? MISSING + ((i % 4 == 1) ? 0.05 : ((i % 4 == 2) ? -0.09 : 0.0)) : ((i % 5 == 3 && j == 2) ? MISSING + ((i % 2) ? 0.5 : -0.7) /* next to the code, outside its window: ordinary numbers */ : val(i, j)); mm->data[i][j] = x; mmt->data[j][i] = x; }
        NewDVector(&pr, R); NewDVector(&pm, R);
        MatrixDVectorDotProduct(mm, v, pr);
        verif_nproc_override = T; MT_MatrixDVectorDotProduct(mm, v, pm); verif_nproc_override = 0;
        bad = -1; for(i = 0; i < R; i++) if(!same(pr->data[i], pm->data[i]) && bad < 0) bad = (long)i;
        pr_long("matvecmissing_bad_row", bad);
        DelDVector(&pr); DelDVector(&pm); NewDVector(&pr, R); NewDVector(&pm, R);
        DVectorMatrixDotProduct(mmt, v, pr);
        verif_nproc_override = T; MT_DVectorMatrixDotProduct(mmt, v, pm); verif_nproc_override = 0;
        bad = -1; for(i = 0; i < R; i++) if(!same(pr->data[i], pm->data[i]) && bad < 0) bad = (long)i;
        pr_long("vecmatmissing_bad_col", bad);
        /* and with a vector entry inside the window around the code (not exactly the code) */
        { dvector *vv; long bad2 = -1; NewDVector(&vv, 3); vv->data[0] = v->data[0]; vv->data[1] = MISSING + 0.05; vv->data[2] = v->data[2];
          DelDVector(&pr); DelDVector(&pm); NewDVector(&pr, R); NewDVector(&pm, R);
          MatrixDVectorDotProduct(mm, vv, pr);
          verif_nproc_override = T; MT_MatrixDVectorDotProduct(mm, vv, pm); verif_nproc_override = 0;
          for(i = 0; i < R; i++) if(!same(pr->data[i], pm->data[i]) && bad2 < 0) bad2 = (long)i;
          if(bad < 0) bad = bad2;
          DelDVector(&pr); DelDVector(&pm); NewDVector(&pr, R); NewDVector(&pm, R);
          DVectorMatrixDotProduct(mmt, vv, pr);
          verif_nproc_override = T; MT_DVectorMatrixDotProduct(mmt, vv, pm); verif_nproc_override = 0;
          for(i = 0; i < R; i++) if(!same(pr->data[i], pm->data[i]) && bad < 0) bad = (long)i;
          pr_long("vecmissing_window_bad", bad);
          DelDVector(&vv); }
        DelDVector(&pr); DelDVector(&pm); DelMatrix(&mm); DelMatrix(&mmt); }
      /* nearest-centroid labelling on a grid with exact ties and near-ties: the threaded labelling must equal the
       * sequential one (first nearest centroid) */
      if(R >= 1){
        matrix *g, *cn; uivector *l1, *lT; long badl = -1;
        NewMatrix(&g, R, 2); NewMatrix(&cn, 4, 2);
        for(i = 0; i < R; i++){ g->data[i][0] = (double)(i % 5); g->data[i][1] = (double)((i / 5) % 5) + ((i % 7 == 6) ? 1e-9 : 0.0); }
        cn->data[0][0] = 2; cn->data[0][1] = 1; cn->data[1][0] = 1; cn->data[1][1] = 2; cn->data[2][0] = 3; cn->data[2][1] = 3; cn->data[3][0] = 0; cn->data[3][1] = 4;
        NewUIVector(&l1, R); NewUIVector(&lT, R);
        getLabels(g, cn, l1); getLabels_(g, cn, lT, (int)T);
        for(i = 0; i < R; i++) if(l1->data[i] != lT->data[i] && badl < 0) badl = (long)i;
        pr_long("labels_bad_row", badl);
        DelUIVector(&l1); DelUIVector(&lT); DelMatrix(&g); DelMatrix(&cn); }
      /* square distance matrices */
      for(me = 0; me < 4; me++){
        char nm[64];
        initMatrix(&D);
        CalculateDistance(m, m2, D, T, (enum cmethod)me);
        bad = -1;
        if(D->row != 4 || D->col != R) bad = -2;
        else for(i = 0; i < R; i++) for(k = 0; k < 4; k++) if(!same(D->data[k][i], dref(m, i, m2, k, me)) && bad < 0) bad = (long)i;
        snprintf(nm, sizeof nm, "dist%d_bad_row", me); pr_long(nm, bad);
        DelMatrix(&D);
      }
      /* condensed distances */
      for(me = 0; me < 4; me++){
        char nm[64]; size_t idx = 0;
        initDVector(&cd);
        if(me == 0) EuclideanDistanceCondensed(m, cd, T);
        else if(me == 1) SquaredEuclideanDistanceCondensed(m, cd, T);
        else if(me == 2) ManhattanDistanceCondensed(m, cd, T);
        else CosineDistanceCondensed(m, cd, T);
        bad = -1;
        if(cd->size != (R*R - R)/2) bad = -2;
        else for(i = 0; i < R; i++) for(k = i+1; k < R; k++){ if(!same(cd->data[idx], dref(m, i, m, k, me)) && bad < 0) bad = (long)i; idx++; }
        snprintf(nm, sizeof nm, "cond%d_bad_row", me); pr_long(nm, bad);
        DelDVector(&cd);
      }
      /* MDC and k-means (MDC initialiser): result must not depend on the thread count */
      if(R >= 4){
        uivector *s1, *sT, *l1, *lT; matrix *c1, *cT;
        size_t nsel = R < 6 ? R - 1 : 5;
        initUIVector(&s1); initUIVector(&sT);
        MDC(m, nsel, 0, s1, 1); MDC(m, nsel, 0, sT, T);
        bad = -1;
        if(s1->size != sT->size) bad = -2; else for(i = 0; i < s1->size; i++) if(s1->data[i] != sT->data[i] && bad < 0) bad = (long)i;
        DelUIVector(&s1); DelUIVector(&sT);
        for(me = 1; me <= 2 && bad == -1; me++){   /* the same with the Manhattan and the cosine metric */
          initUIVector(&s1); initUIVector(&sT);
          MDC(m, nsel, me, s1, 1); MDC(m, nsel, me, sT, T);
          if(s1->size != sT->size) bad = -2; else for(i = 0; i < s1->size; i++) if(s1->data[i] != sT->data[i] && bad < 0) bad = (long)(100*me + i);
          DelUIVector(&s1); DelUIVector(&sT);
        }
        pr_long("mdc_bad", bad);
        initUIVector(&l1); initUIVector(&lT); initMatrix(&c1); initMatrix(&cT);
        KMeans(m, 3, 2, l1, c1, 1); KMeans(m, 3, 2, lT, cT, T);
        bad = -1;
        if(l1->size != R || lT->size != R) bad = -2; else for(i = 0; i < R; i++) if(l1->data[i] != lT->data[i] && bad < 0) bad = (long)i;
        if(bad == -1){ if(c1->row != cT->row || c1->col != cT->col) bad = -3; else for(i = 0; i < c1->row; i++) for(j = 0; j < c1->col; j++) if(!same(c1->data[i][j], cT->data[i][j]) && bad < 0) bad = (long)i; }
        pr_long("kmeans_bad", bad);
        DelUIVector(&l1); DelUIVector(&lT); DelMatrix(&c1); DelMatrix(&cT);
      }
      DelMatrix(&m); DelMatrix(&mt); DelMatrix(&m2); DelDVector(&v);
    }
    else if(!strcmp(op, "cidx")){
      size_t n = rd_size(), i, j; uivector *u;
      initUIVector(&u);
      for(i = 0; i < n; i++) for(j = i+1; j < n; j++) UIVectorAppend(u, square_to_condensed_index(i, j, n));
      pr_uivector("cidx", u);
      initUIVector(&u);   /* (leak of the previous vector is irrelevant here) */
      for(i = 0; i < n; i++) for(j = i+1; j < n; j++) UIVectorAppend(u, square_to_condensed_index(j, i, n));
      pr_uivector("cidx_swapped", u);
    }
    else if(!strcmp(op, "dist")){
      matrix *m1 = rd_matrix(), *m2 = rd_matrix(), *D; dvector *cd; size_t T = rd_size(); int me;
      for(me = 0; me < 4; me++){
        char nm[64];
        initMatrix(&D); CalculateDistance(m1, m2, D, T, (enum cmethod)me);
        snprintf(nm, sizeof nm, "square%d", me); pr_matrix(nm, D); DelMatrix(&D);
        initMatrix(&D); CalculateDistance(m1, m1, D, T, (enum cmethod)me);
        snprintf(nm, sizeof nm, "self%d", me); pr_matrix(nm, D); DelMatrix(&D);
        /* the single-threaded definitions of the same tables */
        initMatrix(&D);
        if(me == 0) EuclideanDistance_ST(m1, m2, D); else if(me == 1) SquaredEuclideanDistance_ST(m1, m2, D);
        else if(me == 2) ManhattanDistance_ST(m1, m2, D); else CosineDistance_ST(m1, m2, D);
        snprintf(nm, sizeof nm, "st%d", me); pr_matrix(nm, D); DelMatrix(&D);
        { /* the same table against a distinct copy of m1: the result may not depend on the two arguments being one object */
          matrix *cp; size_t a, b; NewMatrix(&cp, m1->row, m1->col);
          for(a = 0; a < m1->row; a++) for(b = 0; b < m1->col; b++) cp->data[a][b] = m1->data[a][b];
          initMatrix(&D); CalculateDistance(m1, cp, D, T, (enum cmethod)me);
          snprintf(nm, sizeof nm, "selfcopy%d", me); pr_matrix(nm, D); DelMatrix(&D); DelMatrix(&cp);
        }
        initDVector(&cd);
        if(me == 0) EuclideanDistanceCondensed(m1, cd, T);
        else if(me == 1) SquaredEuclideanDistanceCondensed(m1, cd, T);
        else if(me == 2) ManhattanDistanceCondensed(m1, cd, T);
        else CosineDistanceCondensed(m1, cd, T);
        snprintf(nm, sizeof nm, "cond%d", me); pr_dvector(nm, cd); DelDVector(&cd);
      }
      DelMatrix(&m1); DelMatrix(&m2);
    }
    else{ fprintf(stderr, "unknown op %s\n", op); return 2; }
    pr_end();
  }
  return 0;
}
