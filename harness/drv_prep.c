/* drv_prep.c — MatrixPreprocess fit / apply, TensorPreprocess (C10) */
#include "proto.h"
static int same_obs(matrix *a, matrix *b, matrix *orig){ size_t i, j; if(a->row != b->row || a->col != b->col) return 0; for(i = 0; i < a->row; i++) for(j = 0; j < a->col; j++){ double x = orig->data[i][j]; if(x > MISSING - 0.1 && x < MISSING + 0.1) continue; if(!same_d(a->data[i][j], b->data[i][j])) return 0; } return 1; }
int main(void)
{
  char op[64];
  while(rd_tok(op, sizeof op)){
    if(!strcmp(op, "prep")){
      matrix *m = rd_matrix(), *newrows = rd_matrix(), *tr, *ap, *ap2; long ty = rd_long();
      dvector *avg, *sc;
      initDVector(&avg); initDVector(&sc);
      NewMatrix(&tr, m->row, m->col);
      MatrixPreprocess(m, (int)ty, avg, sc, tr);
      pr_matrix("trans", tr); pr_dvector("avg", avg); pr_dvector("scale", sc);
      reuse_mask = 0;
      { /* the same fit into an output matrix that already holds numbers (the previous result; junk); cells whose input
           carries the missing-value code are not written by the routine and are left out of the comparison */
#define SAME_OBS(a, b) same_obs(a, b, m)
        matrix *k = dup_matrix(tr); dvector *a2, *s2;
        initDVector(&a2); initDVector(&s2); MatrixPreprocess(m, (int)ty, a2, s2, tr);
        RB(0, SAME_OBS(tr, k)); RB(1, same_v(a2, avg) && same_v(s2, sc)); DelDVector(&a2); DelDVector(&s2);
        initDVector(&a2); initDVector(&s2); junk_m(tr); MatrixPreprocess(m, (int)ty, a2, s2, tr);
        RB(0, SAME_OBS(tr, k)); RB(1, same_v(a2, avg) && same_v(s2, sc)); DelDVector(&a2); DelDVector(&s2);
        DelMatrix(&k); }
      /* apply the stored statistics to the same matrix and to new rows */
      if(ty >= 0){
        NewMatrix(&ap, m->row, m->col); MatrixPreprocess(m, (int)ty, avg, sc, ap); pr_matrix("apply_same", ap);
        { matrix *k = dup_matrix(ap), *e0; junk_m(ap); MatrixPreprocess(m, (int)ty, avg, sc, ap); RB(2, same_m(ap, k));
          /* ... and into an empty (never sized) output, which the apply path sizes itself */
          initMatrix(&e0); MatrixPreprocess(m, (int)ty, avg, sc, e0); RB(3, same_m(e0, k)); DelMatrix(&e0);
          /* ... and with every other value of the option argument: with stored statistics the routine applies THEM (the predictors
             of the library pass -1), the option of the fit is not needed again */
          { int t2; for(t2 = -1; t2 <= 5; t2++){ NewMatrix(&e0, m->row, m->col); MatrixPreprocess(m, t2, avg, sc, e0); RB(4, same_m(e0, k)); DelMatrix(&e0); } }
          DelMatrix(&k); }
        DelMatrix(&ap);
        NewMatrix(&ap2, newrows->row, newrows->col); MatrixPreprocess(newrows, (int)ty, avg, sc, ap2); pr_matrix("apply_new", ap2); DelMatrix(&ap2);
      }
      pr_long("reuse_bad", reuse_mask);
      DelMatrix(&tr); DelDVector(&avg); DelDVector(&sc); DelMatrix(&m); DelMatrix(&newrows);
    }
    else if(!strcmp(op, "tprep")){
      tensor *t = rd_tensor(), *tt; long ty = rd_long(); dvectorlist *a, *s; size_t k; char nm[64];
      initDVectorList(&a); initDVectorList(&s);
      initTensor(&tt);
      for(k = 0; k < t->order; k++){ matrix *z; NewMatrix(&z, t->m[k]->row, t->m[k]->col); TensorAppendMatrix(tt, z); DelMatrix(&z); }
      TensorPreprocess(t, (int)ty, a, s, tt);
      pr_tensor("trans", tt);
      pr_long("navg", (long)a->size);
      for(k = 0; k < a->size; k++){ snprintf(nm, sizeof nm, "avg.%lu", (unsigned long)k); pr_dvector(nm, a->d[k]); snprintf(nm, sizeof nm, "scale.%lu", (unsigned long)k); pr_dvector(nm, s->d[k]); }
      DelTensor(&t); DelTensor(&tt); DelDVectorList(&a); DelDVectorList(&s);
    }
    else{ fprintf(stderr, "unknown op %s\n", op); return 2; }
    pr_end();
  }
  return 0;
}
