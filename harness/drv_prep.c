/* drv_prep.c — MatrixPreprocess fit / apply, TensorPreprocess (C10) */
#include "proto.h"
int main(void)
{
  char op[64];
  while(rd_tok(op, sizeof op)){
    if(!strcmp(op, "prep")){
      matrix *m = rd_matrix(), *newrows = rd_matrix(), *tr, *ap, *ap2; long ty = rd_long();
      dvector *avg, *sc;
      initDVector(&avg); initDVector(&sc);
      NewMatrix(&tr, m->row, m->col);
      MatrixPreprocess(m, (int)ty, avg, sc, tr);
      pr_matrix("trans", tr); pr_dvector("avg", avg); pr_dvector("scale", sc);
      /* apply the stored statistics to the same matrix and to new rows */
      if(ty >= 0){
        NewMatrix(&ap, m->row, m->col); MatrixPreprocess(m, (int)ty, avg, sc, ap); pr_matrix("apply_same", ap); DelMatrix(&ap);
        NewMatrix(&ap2, newrows->row, newrows->col); MatrixPreprocess(newrows, (int)ty, avg, sc, ap2); pr_matrix("apply_new", ap2); DelMatrix(&ap2);
      }
      DelMatrix(&tr); DelDVector(&avg); DelDVector(&sc); DelMatrix(&m); DelMatrix(&newrows);
    }
    else if(!strcmp(op, "tprep")){
      tensor *t = rd_tensor(), *tt; long ty = rd_long(); dvectorlist *a, *s; size_t k; char nm[64];
      initDVectorList(&a); initDVectorList(&s);
      initTensor(&tt);
      for(k = 0; k < t->order; k++){ matrix *z; NewMatrix(&z, t->m[k]->row, t->m[k]->col); TensorAppendMatrix(tt, z); DelMatrix(&z); }
      TensorPreprocess(t, (int)ty, a, s, tt);
      pr_tensor("trans", tt);
      pr_long("navg", (long)a->size);
      for(k = 0; k < a->size; k++){ snprintf(nm, sizeof nm, "avg.%lu", (unsigned long)k); pr_dvector(nm, a->d[k]); snprintf(nm, sizeof nm, "scale.%lu", (unsigned long)k); pr_dvector(nm, s->d[k]); }
      DelTensor(&t); DelTensor(&tt); DelDVectorList(&a); DelDVectorList(&s);
    }
    else{ fprintf(stderr, "unknown op %s\n", op); return 2; }
    pr_end();
  }
  return 0;
}
