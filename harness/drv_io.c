/* drv_io.c — write / read histories of PCA, PLS and CPCA models (C16) */
#include "proto.h"
#include <setjmp.h>
static jmp_buf jb; static long ticks;
static void tick(int site){ (void)site; if(++ticks > 200000) longjmp(jb, 1); }
static void pr_pca(const char *pre, PCAMODEL *m)
{
  char b[96];
  snprintf(b, sizeof b, "%s.scores", pre); pr_matrix(b, m->scores);
  snprintf(b, sizeof b, "%s.loadings", pre); pr_matrix(b, m->loadings);
  snprintf(b, sizeof b, "%s.dmodx", pre); pr_matrix(b, m->dmodx);
  snprintf(b, sizeof b, "%s.varexp", pre); pr_dvector(b, m->varexp);
  snprintf(b, sizeof b, "%s.colaverage", pre); pr_dvector(b, m->colaverage);
  snprintf(b, sizeof b, "%s.colscaling", pre); pr_dvector(b, m->colscaling);
}
static void pr_pls(const char *pre, PLSMODEL *m)
{
  char b[96];
#define PM(f) snprintf(b, sizeof b, "%s." #f, pre); pr_matrix(b, m->f);
#define PV(f) snprintf(b, sizeof b, "%s." #f, pre); pr_dvector(b, m->f);
  PM(xscores) PM(xloadings) PM(xweights) PM(yscores) PM(yloadings) PV(b) PV(xvarexp) PV(xcolaverage) PV(xcolscaling) PV(ycolaverage) PV(ycolscaling)
  PM(recalculated_y) PM(recalc_residuals) PM(predicted_y) PM(pred_residuals) PM(r2y_recalculated) PM(r2y_validation) PM(q2y) PM(sdep) PM(sdec) PM(bias)
  PM(yscrambling)
  PM(roc_auc_recalculated) PM(roc_auc_validation) PM(precision_recall_ap_recalculated) PM(precision_recall_ap_validation)
#define PT(f) snprintf(b, sizeof b, "%s." #f, pre); pr_tensor(b, m->f);
  PT(roc_recalculated) PT(roc_validation) PT(precision_recall_recalculated) PT(precision_recall_validation)
#undef PT
#undef PM
#undef PV
}
/* validation statistics of a PLS model are filled by other routines (cross validation, y-scrambling):
 * give every such field its own shape and contents so that a table written from, or read into,
 * the wrong field cannot go unnoticed */
static void fillm(matrix *m, size_t r, size_t c, double base)
{
  size_t i, j; ResizeMatrix(m, r, c);
  for(i = 0; i < r; i++) for(j = 0; j < c; j++) m->data[i][j] = base + 0.125*(double)i + 0.0078125*(double)j;
}
static void fillt(tensor *t, size_t o, size_t r, size_t c, double base)
{
  size_t k, i, j;
  for(k = 0; k < o; k++){
    AddTensorMatrix(t, r+k, c);
    for(i = 0; i < r+k; i++) for(j = 0; j < c; j++) t->m[t->order-1]->data[i][j] = base + (double)k + 0.125*(double)i + 0.0078125*(double)j;
  }
}
/* each validation field is filled or left empty on its own (which ones depends on the case), so that a reader or
 * writer that stops early, or makes one field depend on another being present, shows */
static void fill_pls_stats(PLSMODEL *m, size_t k, size_t sel)
{
  size_t f = 0;
#define ON ((sel*7 + 3*(f++)) % 5 >= 2)
  if(ON) fillm(m->predicted_y, 3+k, 2, 10.0);
  if(ON) fillm(m->pred_residuals, 3+k, 2, -20.0);
  if(ON) fillm(m->r2y_recalculated, 2+k, 1, 0.5);
  if(ON) fillm(m->r2y_validation, 2+k, 1, 0.25);
  if(ON) fillm(m->q2y, 2+k, 2, 0.75);
  if(ON) fillm(m->sdep, 2+k, 1, 538.0);
  if(ON) fillm(m->sdec, 2+k, 1, 441.0);
  if(ON) fillm(m->bias, 1+k, 1, 3.0);
  if(ON) fillm(m->yscrambling, 4+k, 3, 7.0);
  /* the discriminant-analysis tables and curves (filled by PLSDiscriminantAnalysisStatistics in the library) */
  if(ON) fillm(m->roc_auc_recalculated, 2+k, 1, 0.9);
  if(ON) fillm(m->roc_auc_validation, 2+k, 1, 0.8);
  if(ON) fillm(m->precision_recall_ap_recalculated, 2+k, 1, 0.7);
  if(ON) fillm(m->precision_recall_ap_validation, 2+k, 1, 0.6);
  if(ON) fillt(m->roc_recalculated, 1+k, 3, 2, 100.0);
  if(ON) fillt(m->roc_validation, 1+k, 4, 4, 200.0);           /* column counts 2, 4, 8, 3 */
  if(ON) fillt(m->precision_recall_recalculated, 1+k, 5, 8, 300.0);
  if(ON) fillt(m->precision_recall_validation, 1+k, 6, 3, 400.0);
#undef ON
}
static void pr_cpca(const char *pre, CPCAMODEL *m)
{
  char b[96]; size_t k;
  snprintf(b, sizeof b, "%s.block_scores", pre); pr_tensor(b, m->block_scores);
  snprintf(b, sizeof b, "%s.block_loadings", pre); pr_tensor(b, m->block_loadings);
  snprintf(b, sizeof b, "%s.super_scores", pre); pr_matrix(b, m->super_scores);
  snprintf(b, sizeof b, "%s.super_weights", pre); pr_matrix(b, m->super_weights);
  snprintf(b, sizeof b, "%s.scaling_factor", pre); pr_dvector(b, m->scaling_factor);
  snprintf(b, sizeof b, "%s.total_expvar", pre); pr_dvector(b, m->total_expvar);
  snprintf(b, sizeof b, "%s.n_block_expvar", pre); pr_long(b, (long)m->block_expvar->size);
  for(k = 0; k < m->block_expvar->size; k++){ snprintf(b, sizeof b, "%s.block_expvar.%lu", pre, (unsigned long)k); pr_dvector(b, m->block_expvar->d[k]); }
  snprintf(b, sizeof b, "%s.n_colaverage", pre); pr_long(b, (long)m->colaverage->size);
  for(k = 0; k < m->colaverage->size; k++){ snprintf(b, sizeof b, "%s.colaverage.%lu", pre, (unsigned long)k); pr_dvector(b, m->colaverage->d[k]); snprintf(b, sizeof b, "%s.colscaling.%lu", pre, (unsigned long)k); pr_dvector(b, m->colscaling->d[k]); }
}
int main(void)
{
  char op[64], kind[32], path[512];
  verif_nipals_tick = tick;
  while(rd_tok(op, sizeof op)){
    rd_tok(kind, sizeof kind); rd_tok(path, sizeof path);
    ticks = 0;
    if(setjmp(jb)){ fprintf(stderr, "nonterminating fit in the io driver\n"); return 9; }
    if(!strcmp(op, "write")){
      if(!strcmp(kind, "pca")){
        matrix *x = rd_matrix(), *xn = rd_matrix(), *s1, *s2; long sc = rd_long(); size_t npc = rd_size(); PCAMODEL *m, *r; NewPCAModel(&m);
        PCA(x, (int)sc, npc, m, NULL); pr_pca("w", m); WritePCA(path, m); pr_pca("w2", m);
        initMatrix(&s1); PCAScorePredictor(xn, m, npc, s1); pr_matrix("pred_w", s1); DelMatrix(&s1);
        NewPCAModel(&r); ReadPCA(path, r); initMatrix(&s2);
        if(r->loadings->row == xn->col && r->colaverage->size == xn->col){ PCAScorePredictor(xn, r, npc, s2); pr_matrix("pred_r", s2); }
        DelMatrix(&s2); DelPCAModel(&r);
        DelPCAModel(&m); DelMatrix(&x); DelMatrix(&xn);
      }
      else if(!strcmp(kind, "pls")){
        matrix *x = rd_matrix(), *y = rd_matrix(); long xs = rd_long(), ys = rd_long(); size_t nlv = rd_size(); PLSMODEL *m; NewPLSModel(&m);
        PLS(x, y, nlv, (int)xs, (int)ys, m, NULL);
        fill_pls_stats(m, nlv % 3, x->row + 2*nlv + x->col);
        pr_pls("w", m); WritePLS(path, m); pr_pls("w2", m);
        DelPLSModel(&m); DelMatrix(&x); DelMatrix(&y);
      }
      else{
        tensor *t = rd_tensor(); long sc = rd_long(); size_t npc = rd_size(); CPCAMODEL *m; NewCPCAModel(&m);
        CPCA(t, (int)sc, npc, m); pr_cpca("w", m); WriteCPCA(path, m); pr_cpca("w2", m);
        DelCPCAModel(&m); DelTensor(&t);
      }
    }
    else if(!strcmp(op, "read")){
      if(!strcmp(kind, "pca")){ PCAMODEL *m; NewPCAModel(&m); ReadPCA(path, m); pr_pca("r", m); DelPCAModel(&m); }
      else if(!strcmp(kind, "pls")){ PLSMODEL *m; NewPLSModel(&m); ReadPLS(path, m); pr_pls("r", m); DelPLSModel(&m); }
      else{ CPCAMODEL *m; NewCPCAModel(&m); ReadCPCA(path, m); pr_cpca("r", m); DelCPCAModel(&m); }
    }
    else{ fprintf(stderr, "unknown op %s\n", op); return 2; }
    pr_end();
  }
  return 0;
}
