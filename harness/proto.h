/* proto.h — tiny text protocol shared by all drivers.
 * input  (stdin): whitespace separated tokens; numbers as C99 hex floats / decimals
 * output (stdout): one line per result "= <name> <kind> <dims...> <values...>", a case
 *                  ends with a line "."; hex floats (%a) so nothing is lost in printing */
#ifndef VERIF_PROTO_H
#define VERIF_PROTO_H
#include <stdio.h>
#include <stdlib.h>
#include <string.h>
#include <math.h>
#include <scientific.h>
#include <memwrapper.h>

/* every case starts with a stale error number on the calling thread, as after an unrelated libm domain error earlier in the
   caller's program (sqrt of a negative number): no result of the library may depend on it */
#include <errno.h>
static int rd_tok(char *buf, size_t n)
{
  int c; size_t k = 0;
  errno = EDOM;
  while((c = getchar()) != EOF && (c == ' ' || c == '\n' || c == '\t' || c == '\r'));
  if(c == EOF) return 0;
  do{ if(k+1 < n) buf[k++] = (char)c; c = getchar(); }while(c != EOF && c != ' ' && c != '\n' && c != '\t' && c != '\r');
  buf[k] = 0;
  return 1;
}
static double rd_double(void){ char b[128]; if(!rd_tok(b, sizeof b)){ fprintf(stderr,"proto: eof\n"); exit(3);} return strtod(b, NULL); }
static long rd_long(void){ char b[128]; if(!rd_tok(b, sizeof b)){ fprintf(stderr,"proto: eof\n"); exit(3);} return strtol(b, NULL, 10); }
static size_t rd_size(void){ return (size_t)rd_long(); }
static matrix *rd_matrix(void)
{
  size_t r = rd_size(), c = rd_size(), i, j; matrix *m;
  NewMatrix(&m, r, c);
  for(i = 0; i < r; i++) for(j = 0; j < c; j++) m->data[i][j] = rd_double();
  return m;
}
static dvector *rd_dvector(void)
{
  size_t n = rd_size(), i; dvector *v;
  NewDVector(&v, n);
  for(i = 0; i < n; i++) v->data[i] = rd_double();
  return v;
}
static uivector *rd_uivector(void)
{
  size_t n = rd_size(), i; uivector *v;
  NewUIVector(&v, n);
  for(i = 0; i < n; i++) v->data[i] = rd_size();
  return v;
}
static tensor *rd_tensor(void)
{
  size_t o = rd_size(), k; tensor *t;
  initTensor(&t);
  for(k = 0; k < o; k++){ matrix *m = rd_matrix(); TensorAppendMatrix(t, m); DelMatrix(&m); }
  return t;
}
static matrix *dup_matrix(matrix *a){ matrix *m; size_t i, j; NewMatrix(&m, a->row, a->col); for(i = 0; i < a->row; i++) for(j = 0; j < a->col; j++) m->data[i][j] = a->data[i][j]; return m; }
static dvector *dup_dvector(dvector *a){ dvector *v; size_t i; NewDVector(&v, a->size); for(i = 0; i < a->size; i++) v->data[i] = a->data[i]; return v; }
/* ---- output objects that already hold something: a routine that RETURNS a result in an output object must give the
 * same result whatever the object held before (same call repeated into the object, or the object filled with junk) */
static int same_d(double a, double b){ return (a == b) || (a != a && b != b); }
static int same_m(matrix *a, matrix *b){ size_t i, j; if(a->row != b->row || a->col != b->col) return 0; for(i = 0; i < a->row; i++) for(j = 0; j < a->col; j++) if(!same_d(a->data[i][j], b->data[i][j])) return 0; return 1; }
static int same_v(dvector *a, dvector *b){ size_t i; if(a->size != b->size) return 0; for(i = 0; i < a->size; i++) if(!same_d(a->data[i], b->data[i])) return 0; return 1; }
static int same_u(uivector *a, uivector *b){ size_t i; if(a->size != b->size) return 0; for(i = 0; i < a->size; i++) if(a->data[i] != b->data[i]) return 0; return 1; }
static void junk_m(matrix *m){ size_t i, j; for(i = 0; i < m->row; i++) for(j = 0; j < m->col; j++) m->data[i][j] = 1000.0 + 7.0*(double)i - 3.0*(double)j; }
/* an output object that held a table of ANOTHER shape before (r x c, filled with numbers) */
static void other_m(matrix **m, size_t r, size_t c){ DelMatrix(m); NewMatrix(m, r, c); junk_m(*m); }
static void junk_v(dvector *v){ size_t i; for(i = 0; i < v->size; i++) v->data[i] = -500.0 + 11.0*(double)i; }
static long reuse_mask;
#define RB(bit, ok) do{ if(!(ok)) reuse_mask |= (1L << (bit)); }while(0)
static void pr_f(double x){ if(x != x) printf(" nan"); else if(isinf(x)) printf(x > 0 ? " inf" : " -inf"); else printf(" %a", x); }
static void pr_double(const char *name, double x){ printf("= %s D", name); pr_f(x); printf("\n"); }
static void pr_long(const char *name, long x){ printf("= %s I %ld\n", name, x); }
static void pr_matrix(const char *name, matrix *m)
{
  size_t i, j;
  if(m == NULL){ printf("= %s M 0 0\n", name); return; }
  printf("= %s M %lu %lu", name, (unsigned long)m->row, (unsigned long)m->col);
  for(i = 0; i < m->row; i++) for(j = 0; j < m->col; j++) pr_f(m->data[i][j]);
  printf("\n");
}
static void pr_dvector(const char *name, dvector *v)
{
  size_t i;
  if(v == NULL){ printf("= %s V 0\n", name); return; }
  printf("= %s V %lu", name, (unsigned long)v->size);
  for(i = 0; i < v->size; i++) pr_f(v->data[i]);
  printf("\n");
}
static void pr_uivector(const char *name, uivector *v)
{
  size_t i;
  if(v == NULL){ printf("= %s U 0\n", name); return; }
  printf("= %s U %lu", name, (unsigned long)v->size);
  for(i = 0; i < v->size; i++) printf(" %lu", (unsigned long)v->data[i]);
  printf("\n");
}
static void pr_tensor(const char *name, tensor *t)
{
  size_t k; char b[160];
  if(t == NULL){ printf("= %s.order I 0\n", name); return; }
  printf("= %s.order I %lu\n", name, (unsigned long)t->order);
  for(k = 0; k < t->order; k++){ snprintf(b, sizeof b, "%s.%lu", name, (unsigned long)k); pr_matrix(b, t->m[k]); }
}
static void pr_end(void){ printf(".\n"); fflush(stdout); }
#endif
