/* drv_interp.c — natural cubic spline, Nelder–Mead simplex on quadratics (C19, C18) */
#include "proto.h"
static matrix *QA = NULL; static dvector *Qb = NULL; static long nevals = 0;
/* f(x) = sum_i x_i * (sum_j A_ij x_j) + sum_i b_i x_i, accumulated left to right */
static double quad(dvector *x)
{
  size_t i, j; double f = 0.0;
  nevals++;
  for(i = 0; i < x->size; i++){
    double r = 0.0;
    for(j = 0; j < x->size; j++) r += QA->data[i][j]*x->data[j];
    f += x->data[i]*r;
  }
  for(i = 0; i < x->size; i++) f += Qb->data[i]*x->data[i];
  return f;
}
int main(void)
{
  char op[64];
  while(rd_tok(op, sizeof op)){
    if(!strcmp(op, "spline")){
      matrix *xy = rd_matrix(), *S; dvector *xs = rd_dvector(), *yp;
      initMatrix(&S); cubic_spline_interpolation(xy, S); pr_matrix("S", S);
      initDVector(&yp); cubic_spline_predict(xs, S, yp); pr_dvector("pred", yp);
      reuse_mask = 0;
      { /* the same fit into a coefficient table that held the spline of a LARGER data set before (three more knots),
           and the same prediction into a vector that already holds numbers */
        matrix *big, *S2; dvector *y2; size_t i_, n_ = xy->row; double h_ = (n_ > 1) ? (xy->data[n_-1][0] - xy->data[n_-2][0]) : 1.0;
        NewMatrix(&big, n_ + 3, 2);
        for(i_ = 0; i_ < n_; i_++){ big->data[i_][0] = xy->data[i_][0]; big->data[i_][1] = xy->data[i_][1] + 1.0; }
        for(i_ = 0; i_ < 3; i_++){ big->data[n_+i_][0] = xy->data[n_-1][0] + h_*(double)(i_+1); big->data[n_+i_][1] = 2.0 - (double)i_; }
        initMatrix(&S2); cubic_spline_interpolation(big, S2); cubic_spline_interpolation(xy, S2); RB(0, same_m(S2, S));
        y2 = dup_dvector(yp); junk_v(y2); cubic_spline_predict(xs, S2, y2); RB(1, same_v(y2, yp));
        DelDVector(&y2); DelMatrix(&S2); DelMatrix(&big); }
      pr_long("reuse_bad", reuse_mask);
      DelDVector(&yp); DelMatrix(&S); DelMatrix(&xy); DelDVector(&xs);
    }
    else if(!strcmp(op, "nm")){
      dvector *x0, *step, *best; double xtol, res; size_t iter;
      QA = rd_matrix(); Qb = rd_dvector(); x0 = rd_dvector(); step = rd_dvector(); xtol = rd_double(); iter = rd_size();
      initDVector(&best); nevals = 0;
      res = NelderMeadSimplex(&quad, x0, step, xtol, iter, best);
      pr_double("res", res); pr_dvector("best", best); pr_double("f_best", quad(best)); pr_long("evals", nevals);
      reuse_mask = 0;
      { /* the result vector already holding numbers (right size / wrong size), and the start point used as result vector */
        dvector *b2, *xa; double r2;
        b2 = dup_dvector(best); junk_v(b2); r2 = NelderMeadSimplex(&quad, x0, step, xtol, iter, b2); RB(0, same_d(r2, res) && same_v(b2, best)); DelDVector(&b2);
        NewDVector(&b2, x0->size + 2); junk_v(b2); r2 = NelderMeadSimplex(&quad, x0, step, xtol, iter, b2); RB(0, same_d(r2, res) && same_v(b2, best)); DelDVector(&b2);
        xa = dup_dvector(x0); r2 = NelderMeadSimplex(&quad, xa, step, xtol, iter, xa); RB(1, same_d(r2, res) && same_v(xa, best)); DelDVector(&xa); }
      pr_long("reuse_bad", reuse_mask);
      DelDVector(&best); DelDVector(&x0); DelDVector(&step); DelMatrix(&QA); DelDVector(&Qb);
    }
    else{ fprintf(stderr, "unknown op %s\n", op); return 2; }
    pr_end();
  }
  return 0;
}
