/* drv_interp.c — natural cubic spline, Nelder–Mead simplex on quadratics (C19, C18) */
#include "proto.h"
static matrix *QA = NULL; static dvector *Qb = NULL; static long nevals = 0;
/* f(x) = sum_i x_i * (sum_j A_ij x_j) + sum_i b_i x_i, accumulated left to right */
static double quad(dvector *x)
{
  size_t i, j; double f = 0.0;
  nevals++;
  for(i = 0; i < x->size; i++){
    double r = 0.0;
    for(j = 0; j < x->size; j++) r += QA->data[i][j]*x->data[j];
    f += x->data[i]*r;
  }
  for(i = 0; i < x->size; i++) f += Qb->data[i]*x->data[i];
  return f;
}
int main(void)
{
  char op[64];
  while(rd_tok(op, sizeof op)){
    if(!strcmp(op, "spline")){
      matrix *xy = rd_matrix(), *S; dvector *xs = rd_dvector(), *yp;
      initMatrix(&S); cubic_spline_interpolation(xy, S); pr_matrix("S", S);
      initDVector(&yp); cubic_spline_predict(xs, S, yp); pr_dvector("pred", yp);
      DelDVector(&yp); DelMatrix(&S); DelMatrix(&xy); DelDVector(&xs);
    }
    else if(!strcmp(op, "nm")){
      dvector *x0, *step, *best; double xtol, res; size_t iter;
      QA = rd_matrix(); Qb = rd_dvector(); x0 = rd_dvector(); step = rd_dvector(); xtol = rd_double(); iter = rd_size();
      initDVector(&best); nevals = 0;
      res = NelderMeadSimplex(&quad, x0, step, xtol, iter, best);
      pr_double("res", res); pr_dvector("best", best); pr_double("f_best", quad(best)); pr_long("evals", nevals);
      DelDVector(&best); DelDVector(&x0); DelDVector(&step); DelMatrix(&QA); DelDVector(&Qb);
    }
    else{ fprintf(stderr, "unknown op %s\n", op); return 2; }
    pr_end();
  }
  return 0;
}
