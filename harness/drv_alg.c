/* drv_alg.c — MLR, OLS, inverses, determinant, linear systems, eigen / singular value
 * decompositions (C07, C12) */
#include "proto.h"
int main(void)
{
  char op[64];
  while(rd_tok(op, sizeof op)){
    if(!strcmp(op, "mlr")){
      matrix *x = rd_matrix(), *y = rd_matrix(), *xnew = rd_matrix(), *py; MLRMODEL *m;
      NewMLRModel(&m);
      MLR(x, y, m, NULL);
      pr_matrix("b", m->b); pr_dvector("ymean", m->ymean); pr_matrix("recalc", m->recalculated_y); pr_matrix("resid", m->recalc_residuals);
      pr_dvector("r2", m->r2y_model); pr_dvector("sdec", m->sdec);
      initMatrix(&py); MLRPredictY(xnew, NULL, m, py, NULL, NULL, NULL); pr_matrix("pred_new", py); DelMatrix(&py);
      DelMLRModel(&m); DelMatrix(&x); DelMatrix(&y); DelMatrix(&xnew);
    }
    else if(!strcmp(op, "square")){
      matrix *a = rd_matrix(), *inv, *lu, *pinv;
      initMatrix(&inv); MatrixInversion(a, inv); pr_matrix("gj_inverse", inv); DelMatrix(&inv);
      initMatrix(&lu); MatrixLUInversion(a, lu); pr_matrix("lu_inverse", lu); DelMatrix(&lu);
      if(a->row <= 8) pr_double("det", MatrixDeterminant(a));
      DelMatrix(&a);
    }
    else if(!strcmp(op, "lse")){
      matrix *ab = rd_matrix(); dvector *s, *s2, *s3; size_t q; initDVector(&s);
      SolveLSE(ab, s); pr_dvector("solution", s);
      /* the same system with a solution vector that already holds numbers (right size / wrong size) */
      NewDVector(&s2, ab->row); for(q = 0; q < s2->size; q++) s2->data[q] = 7.5*(double)(q+1) - 3.25;
      SolveLSE(ab, s2); pr_dvector("solution_reused", s2);
      NewDVector(&s3, ab->row+2); for(q = 0; q < s3->size; q++) s3->data[q] = -11.0 + (double)q;
      SolveLSE(ab, s3); pr_dvector("solution_resized", s3);
      DelDVector(&s3); DelDVector(&s2);
      DelDVector(&s); DelMatrix(&ab);
    }
    else if(!strcmp(op, "ols")){
      matrix *z = rd_matrix(); dvector *y = rd_dvector(), *c; initDVector(&c);
      OrdinaryLeastSquares(z, y, c); pr_dvector("coef", c);
      DelDVector(&c); DelDVector(&y); DelMatrix(&z);
    }
    else if(!strcmp(op, "pinv")){
      matrix *a = rd_matrix(), *p; initMatrix(&p);
      MatrixMoorePenrosePseudoinverse(a, p); pr_matrix("pinv", p);
      DelMatrix(&p); DelMatrix(&a);
    }
    else if(!strcmp(op, "eig")){
      matrix *a = rd_matrix(), *v; dvector *e; initMatrix(&v); initDVector(&e);
      EVectEval(a, e, v); pr_dvector("eval", e); pr_matrix("evect", v);
      DelMatrix(&v); DelDVector(&e); DelMatrix(&a);
    }
    else if(!strcmp(op, "svd")){
      matrix *a = rd_matrix(), *u, *s, *vt;
      initMatrix(&u); initMatrix(&s); initMatrix(&vt);
      SVDlapack(a, u, s, vt); pr_matrix("u", u); pr_matrix("s", s); pr_matrix("vt", vt);
      DelMatrix(&u); DelMatrix(&s); DelMatrix(&vt); DelMatrix(&a);
    }
    else{ fprintf(stderr, "unknown op %s\n", op); return 2; }
    pr_end();
  }
  return 0;
}
