/* drv_alg.c — MLR, OLS, inverses, determinant, linear systems, eigen / singular value
 * decompositions (C07, C12) */
#include "proto.h"
int main(void)
{
  char op[64];
  while(rd_tok(op, sizeof op)){
    if(!strcmp(op, "mlr")){
      matrix *x = rd_matrix(), *y = rd_matrix(), *xnew = rd_matrix(), *py; MLRMODEL *m;
      NewMLRModel(&m);
      MLR(x, y, m, NULL);
      pr_matrix("b", m->b); pr_dvector("ymean", m->ymean); pr_matrix("recalc", m->recalculated_y); pr_matrix("resid", m->recalc_residuals);
      pr_dvector("r2", m->r2y_model); pr_dvector("sdec", m->sdec);
      reuse_mask = 0;
      initMatrix(&py); MLRPredictY(xnew, NULL, m, py, NULL, NULL, NULL); pr_matrix("pred_new", py);
      { matrix *c = dup_matrix(py); MLRPredictY(xnew, NULL, m, py, NULL, NULL, NULL); RB(0, same_m(py, c));
        junk_m(py); MLRPredictY(xnew, NULL, m, py, NULL, NULL, NULL); RB(0, same_m(py, c)); DelMatrix(&c); }
      DelMatrix(&py);
      { /* the statistics of the training data asked for WITHOUT the (optional) residual matrix: the same R2 and SDEC the fit stored */
        dvector *r2b, *sdb; initMatrix(&py); initDVector(&r2b); initDVector(&sdb);
        MLRPredictY(x, y, m, py, NULL, r2b, sdb);
        RB(1, same_v(r2b, m->r2y_model) && same_v(sdb, m->sdec));
        DelDVector(&r2b); DelDVector(&sdb); DelMatrix(&py); }
      pr_long("reuse_bad", reuse_mask);
      DelMLRModel(&m); DelMatrix(&x); DelMatrix(&y); DelMatrix(&xnew);
    }
    else if(!strcmp(op, "square")){
      matrix *a = rd_matrix(), *inv, *lu, *pinv;
      reuse_mask = 0;
      initMatrix(&inv); MatrixInversion(a, inv); pr_matrix("gj_inverse", inv);
      initMatrix(&lu); MatrixLUInversion(a, lu); pr_matrix("lu_inverse", lu);
      { /* the same inversions into outputs that hold a result / junk, and in place (input and output the same object) */
        matrix *c = dup_matrix(inv), *a2;
        MatrixInversion(a, inv); RB(0, same_m(inv, c)); junk_m(inv); MatrixInversion(a, inv); RB(0, same_m(inv, c));
        /* ... and into outputs that held a table agreeing with the input in one dimension only, or in none */
        other_m(&inv, a->row, a->col + 2); MatrixInversion(a, inv); RB(0, same_m(inv, c));
        other_m(&inv, a->row + 1, a->col); MatrixInversion(a, inv); RB(0, same_m(inv, c));
        other_m(&inv, a->row + 2, a->col + 3); MatrixInversion(a, inv); RB(0, same_m(inv, c));
        a2 = dup_matrix(a); MatrixInversion(a2, a2); RB(1, same_m(a2, c)); DelMatrix(&a2); DelMatrix(&c);
        c = dup_matrix(lu);
        MatrixLUInversion(a, lu); RB(2, same_m(lu, c)); junk_m(lu); MatrixLUInversion(a, lu); RB(2, same_m(lu, c));
        other_m(&lu, a->row, a->col + 2); MatrixLUInversion(a, lu); RB(2, same_m(lu, c));
        other_m(&lu, a->row + 1, a->col); MatrixLUInversion(a, lu); RB(2, same_m(lu, c));
        a2 = dup_matrix(a); MatrixLUInversion(a2, a2); RB(3, same_m(a2, c)); DelMatrix(&a2); DelMatrix(&c); }
      DelMatrix(&inv); DelMatrix(&lu);
      pr_long("reuse_bad", reuse_mask);
      if(a->row <= 8) pr_double("det", MatrixDeterminant(a));
      DelMatrix(&a);
    }
    else if(!strcmp(op, "lse")){
      matrix *ab = rd_matrix(); dvector *s, *s2, *s3; size_t q; initDVector(&s);
      SolveLSE(ab, s); pr_dvector("solution", s);
      /* the same system with a solution vector that already holds numbers (right size / wrong size) */
      NewDVector(&s2, ab->row); for(q = 0; q < s2->size; q++) s2->data[q] = 7.5*(double)(q+1) - 3.25;
      SolveLSE(ab, s2); pr_dvector("solution_reused", s2);
      NewDVector(&s3, ab->row+2); for(q = 0; q < s3->size; q++) s3->data[q] = -11.0 + (double)q;
      SolveLSE(ab, s3); pr_dvector("solution_resized", s3);
      DelDVector(&s3); DelDVector(&s2);
      DelDVector(&s); DelMatrix(&ab);
    }
    else if(!strcmp(op, "ols")){
      matrix *z = rd_matrix(); dvector *y = rd_dvector(), *c; initDVector(&c);
      OrdinaryLeastSquares(z, y, c); pr_dvector("coef", c);
      reuse_mask = 0;
      { dvector *k = dup_dvector(c); OrdinaryLeastSquares(z, y, c); RB(0, same_v(c, k));
        junk_v(c); OrdinaryLeastSquares(z, y, c); RB(0, same_v(c, k)); DelDVector(&k); }
      pr_long("reuse_bad", reuse_mask);
      DelDVector(&c); DelDVector(&y); DelMatrix(&z);
    }
    else if(!strcmp(op, "pinv")){
      matrix *a = rd_matrix(), *p; initMatrix(&p);
      MatrixMoorePenrosePseudoinverse(a, p); pr_matrix("pinv", p);
      reuse_mask = 0;
      { matrix *k = dup_matrix(p); junk_m(p); MatrixMoorePenrosePseudoinverse(a, p); RB(0, same_m(p, k));
        other_m(&p, k->row, k->col + 1); MatrixMoorePenrosePseudoinverse(a, p); RB(0, same_m(p, k));
        other_m(&p, k->row + 2, k->col); MatrixMoorePenrosePseudoinverse(a, p); RB(0, same_m(p, k)); DelMatrix(&k); }
      pr_long("reuse_bad", reuse_mask);
      DelMatrix(&p); DelMatrix(&a);
    }
    else if(!strcmp(op, "eig")){
      matrix *a = rd_matrix(), *v; dvector *e; initMatrix(&v); initDVector(&e);
      EVectEval(a, e, v); pr_dvector("eval", e); pr_matrix("evect", v);
      reuse_mask = 0;
      { dvector *ke = dup_dvector(e); matrix *kv = dup_matrix(v); junk_v(e); junk_m(v); EVectEval(a, e, v); RB(0, same_v(e, ke)); RB(1, same_m(v, kv)); DelDVector(&ke); DelMatrix(&kv); }
      pr_long("reuse_bad", reuse_mask);
      DelMatrix(&v); DelDVector(&e); DelMatrix(&a);
    }
    else if(!strcmp(op, "svd")){
      matrix *a = rd_matrix(), *u, *s, *vt;
      initMatrix(&u); initMatrix(&s); initMatrix(&vt);
      SVDlapack(a, u, s, vt); pr_matrix("u", u); pr_matrix("s", s); pr_matrix("vt", vt);
      reuse_mask = 0;
      { matrix *ku = dup_matrix(u), *ks = dup_matrix(s), *kv = dup_matrix(vt); junk_m(u); junk_m(s); junk_m(vt);
        SVDlapack(a, u, s, vt); RB(0, same_m(u, ku)); RB(1, same_m(s, ks)); RB(2, same_m(vt, kv));
        /* ... outputs that held tables of other shapes, and the input object itself used as the U output or as the S output (the
           routine copies its input first) */
        other_m(&u, a->row + 1, 2); other_m(&s, 1, a->col + 2); other_m(&vt, a->col, 1);
        SVDlapack(a, u, s, vt); RB(0, same_m(u, ku)); RB(1, same_m(s, ks)); RB(2, same_m(vt, kv));
        { matrix *a2 = dup_matrix(a); SVDlapack(a2, a2, s, vt); RB(3, same_m(a2, ku) && same_m(s, ks) && same_m(vt, kv)); DelMatrix(&a2);
          a2 = dup_matrix(a); SVDlapack(a2, u, a2, vt); RB(3, same_m(u, ku) && same_m(a2, ks) && same_m(vt, kv)); DelMatrix(&a2); }
        DelMatrix(&ku); DelMatrix(&ks); DelMatrix(&kv); }
      pr_long("reuse_bad", reuse_mask);
      DelMatrix(&u); DelMatrix(&s); DelMatrix(&vt); DelMatrix(&a);
    }
    else{ fprintf(stderr, "unknown op %s\n", op); return 2; }
    pr_end();
  }
  return 0;
}
