/* drv_pca.c — PCA fit / score prediction / back-transformation (C01, C02, C18) */
#include "proto.h"
#include <setjmp.h>
static jmp_buf jb; static long ticks, tick_cap = 2000000, tick_total;
static void tick(int site){ (void)site; tick_total++; if(++ticks > tick_cap) longjmp(jb, 1); }

int main(void)
{
  char op[64];
  verif_nipals_tick = tick;
  while(rd_tok(op, sizeof op)){
    if(!strcmp(op, "cap")){ tick_cap = rd_long(); continue; }
    if(!strcmp(op, "pca")){
      matrix *x = rd_matrix(), *xnew = rd_matrix(); long scaling = rd_long(); size_t npc = rd_size(), nproc = rd_size();
      PCAMODEL *m; matrix *ps, *pn, *bt;
      NewPCAModel(&m);
      verif_nproc_override = nproc;
      ticks = 0; tick_total = 0;
      if(setjmp(jb)){
        pr_long("nonterminating", 1); pr_long("ticks", tick_total);
        verif_nproc_override = 0; pr_end(); continue;   /* model memory is abandoned */
      }
      PCA(x, (int)scaling, npc, m, NULL);
      pr_long("nonterminating", 0); pr_long("ticks", tick_total);
      pr_matrix("scores", m->scores); pr_matrix("loadings", m->loadings); pr_matrix("dmodx", m->dmodx);
      pr_dvector("varexp", m->varexp); pr_dvector("avg", m->colaverage); pr_dvector("scale", m->colscaling);
      reuse_mask = 0;
      initMatrix(&ps); PCAScorePredictor(x, m, npc, ps); pr_matrix("pred_same", ps);
      initMatrix(&pn); PCAScorePredictor(xnew, m, npc, pn); pr_matrix("pred_new", pn);
      { /* the same predictions into objects that already hold a result / junk of the right shape / another shape */
        matrix *c = dup_matrix(ps); PCAScorePredictor(x, m, npc, ps); RB(0, same_m(ps, c));
        junk_m(ps); PCAScorePredictor(x, m, npc, ps); RB(0, same_m(ps, c));
        PCAScorePredictor(x, m, npc, pn); RB(1, same_m(pn, c)); DelMatrix(&c); }
      DelMatrix(&ps); DelMatrix(&pn);
      initMatrix(&bt); PCAIndVarPredictor(m->scores, m->loadings, m->colaverage, m->colscaling, npc, bt); pr_matrix("back", bt);
      { matrix *c = dup_matrix(bt); PCAIndVarPredictor(m->scores, m->loadings, m->colaverage, m->colscaling, npc, bt); RB(2, same_m(bt, c));
        junk_m(bt); PCAIndVarPredictor(m->scores, m->loadings, m->colaverage, m->colscaling, npc, bt); RB(2, same_m(bt, c)); DelMatrix(&c); }
      DelMatrix(&bt);
      { matrix *rm, *c; size_t kh = (m->scores->col + 1) / 2;   /* residuals after all and after half of the components */
        initMatrix(&rm); GetResidualMatrix(x, m, m->scores->col, rm); pr_matrix("resid_all", rm); c = dup_matrix(rm);
        junk_m(rm); GetResidualMatrix(x, m, m->scores->col, rm); RB(3, same_m(rm, c)); DelMatrix(&c); DelMatrix(&rm);
        initMatrix(&rm); GetResidualMatrix(x, m, kh, rm); pr_matrix("resid_half", rm); DelMatrix(&rm); }
      pr_long("reuse_bad", reuse_mask);
      verif_nproc_override = 0;
      DelPCAModel(&m); DelMatrix(&x); DelMatrix(&xnew);
    }
    else{ fprintf(stderr, "unknown op %s\n", op); return 2; }
    pr_end();
  }
  return 0;
}
