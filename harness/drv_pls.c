/* drv_pls.c — PLS fit, score / response prediction, regression coefficients (C03, C04, C18) */
#include "proto.h"
#include <setjmp.h>
static jmp_buf jb; static long ticks, tick_cap = 2000000, tick_total;
static void tick(int site){ (void)site; tick_total++; if(++ticks > tick_cap) longjmp(jb, 1); }

int main(void)
{
  char op[64];
  verif_nipals_tick = tick;
  while(rd_tok(op, sizeof op)){
    if(!strcmp(op, "cap")){ tick_cap = rd_long(); continue; }
    if(!strcmp(op, "pls")){
      matrix *x = rd_matrix(), *y = rd_matrix(), *xnew = rd_matrix(); long xs = rd_long(), ys = rd_long(); size_t nlv = rd_size(), a;
      PLSMODEL *m; matrix *ps, *pn, *yall; char nm[64];
      NewPLSModel(&m);
      ticks = 0; tick_total = 0;
      if(setjmp(jb)){ pr_long("nonterminating", 1); pr_long("ticks", tick_total); pr_end(); continue; }
      PLS(x, y, nlv, (int)xs, (int)ys, m, NULL);
      pr_long("nonterminating", 0); pr_long("ticks", tick_total);
      pr_matrix("T", m->xscores); pr_matrix("U", m->yscores); pr_matrix("P", m->xloadings); pr_matrix("W", m->xweights); pr_matrix("Q", m->yloadings);
      pr_dvector("b", m->b); pr_dvector("xvarexp", m->xvarexp);
      pr_dvector("xavg", m->xcolaverage); pr_dvector("xsc", m->xcolscaling); pr_dvector("yavg", m->ycolaverage); pr_dvector("ysc", m->ycolscaling);
      pr_matrix("recalc", m->recalculated_y); pr_matrix("resid", m->recalc_residuals);
      initMatrix(&ps); PLSScorePredictor(x, m, m->b->size, ps); pr_matrix("pred_same", ps); DelMatrix(&ps);
      initMatrix(&pn); initMatrix(&yall); PLSYPredictorAllLV(xnew, m, pn, yall); pr_matrix("pred_new", pn); pr_matrix("ynew_all", yall); DelMatrix(&pn); DelMatrix(&yall);
      if(y->col == 1){
        for(a = 1; a <= m->b->size; a++){
          dvector *bt; initDVector(&bt); PLSBetasCoeff(m, a, bt);
          snprintf(nm, sizeof nm, "betas%lu", (unsigned long)a); pr_dvector(nm, bt); DelDVector(&bt);
        }
      }
      DelPLSModel(&m); DelMatrix(&x); DelMatrix(&y); DelMatrix(&xnew);
    }
    else{ fprintf(stderr, "unknown op %s\n", op); return 2; }
    pr_end();
  }
  return 0;
}
