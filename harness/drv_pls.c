/* drv_pls.c — PLS fit, score / response prediction, regression coefficients (C03, C04, C18) */
#include "proto.h"
#include <setjmp.h>
static jmp_buf jb; static long ticks, tick_cap = 2000000, tick_total;
static void tick(int site){ (void)site; tick_total++; if(++ticks > tick_cap) longjmp(jb, 1); }

int main(void)
{
  char op[64];
  verif_nipals_tick = tick;
  while(rd_tok(op, sizeof op)){
    if(!strcmp(op, "cap")){ tick_cap = rd_long(); continue; }
    if(!strcmp(op, "pls")){
      matrix *x = rd_matrix(), *y = rd_matrix(), *xnew = rd_matrix(); long xs = rd_long(), ys = rd_long(); size_t nlv = rd_size(), a;
      PLSMODEL *m; matrix *ps, *pn, *yall; char nm[64];
      NewPLSModel(&m);
      ticks = 0; tick_total = 0;
      if(setjmp(jb)){ pr_long("nonterminating", 1); pr_long("ticks", tick_total); pr_end(); continue; }
      PLS(x, y, nlv, (int)xs, (int)ys, m, NULL);
      pr_long("nonterminating", 0); pr_long("ticks", tick_total);
      pr_matrix("T", m->xscores); pr_matrix("U", m->yscores); pr_matrix("P", m->xloadings); pr_matrix("W", m->xweights); pr_matrix("Q", m->yloadings);
      pr_dvector("b", m->b); pr_dvector("xvarexp", m->xvarexp);
      pr_dvector("xavg", m->xcolaverage); pr_dvector("xsc", m->xcolscaling); pr_dvector("yavg", m->ycolaverage); pr_dvector("ysc", m->ycolscaling);
      pr_matrix("recalc", m->recalculated_y); pr_matrix("resid", m->recalc_residuals);
      reuse_mask = 0;
      initMatrix(&ps); PLSScorePredictor(x, m, m->b->size, ps); pr_matrix("pred_same", ps);
      { matrix *c = dup_matrix(ps); PLSScorePredictor(x, m, m->b->size, ps); RB(0, same_m(ps, c));
        junk_m(ps); PLSScorePredictor(x, m, m->b->size, ps); RB(0, same_m(ps, c)); DelMatrix(&c); }
      DelMatrix(&ps);
      initMatrix(&pn); initMatrix(&yall); PLSYPredictorAllLV(xnew, m, pn, yall); pr_matrix("pred_new", pn); pr_matrix("ynew_all", yall);
      { /* the same prediction into the same (now filled) score and response matrices; then after they held the scores and
           predictions of ANOTHER block with the same number of rows; then with no score matrix at all */
        matrix *cs = dup_matrix(pn), *cy = dup_matrix(yall), *other = dup_matrix(xnew), *yy; size_t i_, j_;
        PLSYPredictorAllLV(xnew, m, pn, yall); RB(1, same_m(pn, cs)); RB(2, same_m(yall, cy));
        for(i_ = 0; i_ < other->row; i_++) for(j_ = 0; j_ < other->col; j_++) other->data[i_][j_] = 0.5*other->data[i_][j_] + 1.0 + (double)j_;
        PLSYPredictorAllLV(other, m, pn, yall); PLSYPredictorAllLV(xnew, m, pn, yall); RB(1, same_m(pn, cs)); RB(2, same_m(yall, cy));
        junk_m(pn); junk_m(yall); PLSYPredictorAllLV(xnew, m, pn, yall); RB(1, same_m(pn, cs)); RB(2, same_m(yall, cy));
        initMatrix(&yy); PLSYPredictorAllLV(xnew, m, NULL, yy); RB(3, same_m(yy, cy)); DelMatrix(&yy);
        /* PLSYPredictor (one model size) into a reused output: predictions for 1..A latent variables in turn */
        { matrix *yp, *c1; size_t a_, A_ = m->b->size; initMatrix(&yp);
          for(a_ = 1; a_ <= A_; a_++){
            PLSYPredictor(cs, m, a_, yp);
            initMatrix(&c1); PLSYPredictor(cs, m, a_, c1); RB(4, same_m(yp, c1)); DelMatrix(&c1);
          }
          DelMatrix(&yp); }
        DelMatrix(&cs); DelMatrix(&cy); DelMatrix(&other); }
      DelMatrix(&pn); DelMatrix(&yall);
      pr_long("reuse_bad", reuse_mask);
      if(y->col == 1){
        for(a = 1; a <= m->b->size; a++){
          dvector *bt; initDVector(&bt); PLSBetasCoeff(m, a, bt);
          snprintf(nm, sizeof nm, "betas%lu", (unsigned long)a); pr_dvector(nm, bt); DelDVector(&bt);
        }
      }
      DelPLSModel(&m); DelMatrix(&x); DelMatrix(&y); DelMatrix(&xnew);
    }
    else{ fprintf(stderr, "unknown op %s\n", op); return 2; }
    pr_end();
  }
  return 0;
}
