/* drv_cpca.c — CPCA fit and projection (C09, C18) */
#include "proto.h"
#include <setjmp.h>
static jmp_buf jb; static long ticks, tick_cap = 2000000, tick_total;
static void tick(int site){ (void)site; tick_total++; if(++ticks > tick_cap) longjmp(jb, 1); }
int main(void)
{
  char op[64];
  verif_nipals_tick = tick;
  while(rd_tok(op, sizeof op)){
    if(!strcmp(op, "cap")){ tick_cap = rd_long(); continue; }
    if(!strcmp(op, "cpca")){
      tensor *x = rd_tensor(); long scaling = rd_long(); size_t npc = rd_size(), nproc = rd_size(), k; char nm[64];
      CPCAMODEL *m; matrix *ps; tensor *pb;
      NewCPCAModel(&m);
      verif_nproc_override = nproc; ticks = 0; tick_total = 0;
      if(setjmp(jb)){ pr_long("nonterminating", 1); pr_long("ticks", tick_total); verif_nproc_override = 0; pr_end(); continue; }
      CPCA(x, (int)scaling, npc, m);
      pr_long("nonterminating", 0); pr_long("ticks", tick_total);
      pr_matrix("super_scores", m->super_scores); pr_matrix("super_weights", m->super_weights);
      pr_tensor("block_scores", m->block_scores); pr_tensor("block_loadings", m->block_loadings);
      pr_dvector("scaling_factor", m->scaling_factor); pr_dvector("total_expvar", m->total_expvar);
      pr_long("n_bev", (long)m->block_expvar->size);
      for(k = 0; k < m->block_expvar->size; k++){ snprintf(nm, sizeof nm, "bev.%lu", (unsigned long)k); pr_dvector(nm, m->block_expvar->d[k]); }
      for(k = 0; k < m->colaverage->size; k++){ snprintf(nm, sizeof nm, "avg.%lu", (unsigned long)k); pr_dvector(nm, m->colaverage->d[k]); snprintf(nm, sizeof nm, "sc.%lu", (unsigned long)k); pr_dvector(nm, m->colscaling->d[k]); }
      initMatrix(&ps); initTensor(&pb);
      CPCAScorePredictor(x, m, npc, ps, pb); pr_matrix("pred_super", ps);
      DelMatrix(&ps); DelTensor(&pb);
      verif_nproc_override = 0;
      DelCPCAModel(&m); DelTensor(&x);
    }
    else{ fprintf(stderr, "unknown op %s\n", op); return 2; }
    pr_end();
  }
  return 0;
}
