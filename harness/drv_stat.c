/* drv_stat.c — figures of merit, ROC / precision-recall, trapezoid area (C15, C19) */
#include "proto.h"
int main(void)
{
  char op[64];
  while(rd_tok(op, sizeof op)){
    if(!strcmp(op, "reg")){
      dvector *yt = rd_dvector(), *yp = rd_dvector();
      pr_double("r2", R2(yt, yp)); pr_double("mse", MSE(yt, yp)); pr_double("rmse", RMSE(yt, yp));
      pr_double("mae", MAE(yt, yp)); pr_double("bias", BIAS(yt, yp));
      DelDVector(&yt); DelDVector(&yp);
    }
    else if(!strcmp(op, "roc")){
      dvector *yt = rd_dvector(), *ys = rd_dvector(); matrix *roc, *pr; double auc = 0, ap = 0;
      initMatrix(&roc); initMatrix(&pr);
      ROC(yt, ys, roc, &auc); PrecisionRecall(yt, ys, pr, &ap);
      pr_matrix("roc", roc); pr_double("auc", auc); pr_matrix("pr", pr); pr_double("ap", ap);
      /* ROC and PrecisionRecall APPEND the points of the curve to the matrix they are given (an empty matrix is expected) */
      DelMatrix(&roc); DelMatrix(&pr); DelDVector(&yt); DelDVector(&ys);
    }
    else if(!strcmp(op, "area")){
      matrix *xy = rd_matrix(); pr_double("area", curve_area(xy, 0)); DelMatrix(&xy);
    }
    else if(!strcmp(op, "plsstat")){
      matrix *yt = rd_matrix(), *yp = rd_matrix(), *cc, *rm, *bi;
      initMatrix(&cc); initMatrix(&rm); initMatrix(&bi);
      PLSRegressionStatistics(yt, yp, cc, rm, bi);
      pr_matrix("r2", cc); pr_matrix("rmse", rm); pr_matrix("bias", bi);
      reuse_mask = 0;
      { matrix *k1 = dup_matrix(cc), *k2 = dup_matrix(rm), *k3 = dup_matrix(bi); junk_m(cc); junk_m(rm); junk_m(bi);
        PLSRegressionStatistics(yt, yp, cc, rm, bi); RB(0, same_m(cc, k1) && same_m(rm, k2) && same_m(bi, k3)); DelMatrix(&k1); DelMatrix(&k2); DelMatrix(&k3); }
      pr_long("reuse_bad", reuse_mask);
      DelMatrix(&cc); DelMatrix(&rm); DelMatrix(&bi);
      /* every table requested on its own (the other two arguments NULL) */
      initMatrix(&cc); PLSRegressionStatistics(yt, yp, cc, NULL, NULL); pr_matrix("r2_alone", cc); DelMatrix(&cc);
      initMatrix(&rm); PLSRegressionStatistics(yt, yp, NULL, rm, NULL); pr_matrix("rmse_alone", rm); DelMatrix(&rm);
      initMatrix(&bi); PLSRegressionStatistics(yt, yp, NULL, NULL, bi); pr_matrix("bias_alone", bi); DelMatrix(&bi);
      DelMatrix(&yt); DelMatrix(&yp);
    }
    else if(!strcmp(op, "mlrstat")){
      matrix *yt = rd_matrix(), *yp = rd_matrix(); dvector *cc, *rm, *bi;
      initDVector(&cc); initDVector(&rm); initDVector(&bi);
      MLRRegressionStatistics(yt, yp, cc, rm, bi);
      pr_dvector("r2", cc); pr_dvector("rmse", rm); pr_dvector("bias", bi);
      DelDVector(&cc); DelDVector(&rm); DelDVector(&bi);
      initDVector(&cc); MLRRegressionStatistics(yt, yp, cc, NULL, NULL); pr_dvector("r2_alone", cc); DelDVector(&cc);
      initDVector(&rm); MLRRegressionStatistics(yt, yp, NULL, rm, NULL); pr_dvector("rmse_alone", rm); DelDVector(&rm);
      initDVector(&bi); MLRRegressionStatistics(yt, yp, NULL, NULL, bi); pr_dvector("bias_alone", bi); DelDVector(&bi);
      DelMatrix(&yt); DelMatrix(&yp);
    }
    else{ fprintf(stderr, "unknown op %s\n", op); return 2; }
    pr_end();
  }
  return 0;
}
