/* drv_sel.c — object selection (MDC, MaxDis, MaxDis_Fast, k-means++ seeding) and k-means (C17, C18) */
#include "proto.h"
int main(void)
{
  char op[64];
  while(rd_tok(op, sizeof op)){
    if(!strcmp(op, "select")){
      matrix *m = rd_matrix(); size_t n = rd_size(); long metric = rd_long(); size_t nth = rd_size(); unsigned seed = (unsigned)rd_long();
      uivector *s;
      initUIVector(&s); MDC(m, n, (int)metric, s, nth); pr_uivector("mdc", s); DelUIVector(&s);
      initUIVector(&s); MaxDis(m, n, (int)metric, s, nth); pr_uivector("maxdis", s); DelUIVector(&s);
      initUIVector(&s); MaxDis_Fast(m, n, (int)metric, s, nth); pr_uivector("maxdis_fast", s); DelUIVector(&s);
      initUIVector(&s); srand_(seed); KMeansppCenters(m, n, s, (int)nth); pr_uivector("kmeanspp", s); DelUIVector(&s);
      DelMatrix(&m);
    }
    else if(!strcmp(op, "kmeans")){
      matrix *m = rd_matrix(), *c; size_t ncl = rd_size(); long init = rd_long(); size_t nth = rd_size(); unsigned seed = (unsigned)rd_long();
      uivector *l; initUIVector(&l); initMatrix(&c);
      srand_(seed);
      KMeans(m, ncl, (int)init, l, c, nth);
      pr_uivector("labels", l); pr_matrix("centroids", c);
      reuse_mask = 0;
      if(init == 2 || init == 3){ /* deterministic initialisers: the same call into labels/centroids that already hold a result */
        uivector *kl; matrix *kc = dup_matrix(c); size_t q_; NewUIVector(&kl, l->size); for(q_ = 0; q_ < l->size; q_++) kl->data[q_] = l->data[q_];
        KMeans(m, ncl, (int)init, l, c, nth); RB(0, same_u(l, kl) && same_m(c, kc)); DelUIVector(&kl); DelMatrix(&kc); }
      pr_long("reuse_bad", reuse_mask);
      DelUIVector(&l); DelMatrix(&c); DelMatrix(&m);
    }
    else{ fprintf(stderr, "unknown op %s\n", op); return 2; }
    pr_end();
  }
  return 0;
}
