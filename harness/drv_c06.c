/* drv_c06.c — pseudo-random streams under imposed thread schedules (C06).
 *  rng SEED N LOW HIGH           : srand_(SEED) then N draws of randInt / rand_ / randDouble
 *  sched K (SEED_k N_k)* L s_0.. : K worker threads, worker k calls srand_(SEED_k) then N_k
 *                                  randInt(0,1000000); the RNG-yield hook serialises the calls
 *                                  in the order s_0 s_1 ... (worker ids); prints every worker's
 *                                  draws and the draws of the same script run alone
 *  gsched K (SEED_k)* NOBJ NGRP L s_0.. : same, each worker runs random_kfold_group_generator
 *  boot ALGO X Y GROUP ITER NTH REPS : BootstrapRandomGroupsCV under the OS scheduler
 */
#include "proto.h"
#include <pthread.h>

#define MAXW 8
static pthread_mutex_t mu = PTHREAD_MUTEX_INITIALIZER;
static pthread_cond_t cv = PTHREAD_COND_INITIALIZER;
static int *schedule = NULL; static long sched_len = 0, sched_pos = 0;
static int inflight = -1;
static __thread int my_id = -1;

static int finished[MAXW];
static void release_locked(int me)
{
  if(inflight == me){
    inflight = -1; sched_pos++;
    while(sched_pos < sched_len && finished[schedule[sched_pos]]) sched_pos++;
    pthread_cond_broadcast(&cv);
  }
}
static void yield_hook(int kind)
{
  (void)kind;
  if(my_id < 0) return;               /* main thread: not scheduled */
  pthread_mutex_lock(&mu);
  release_locked(my_id);               /* my previous call has completed */
  while(!(inflight == -1 && (sched_pos >= sched_len || schedule[sched_pos] == my_id)))
    pthread_cond_wait(&cv, &mu);
  inflight = my_id;
  pthread_mutex_unlock(&mu);
}
static void worker_done(void)
{
  pthread_mutex_lock(&mu); release_locked(my_id);
  /* skip schedule entries of workers that have nothing left: the model does the same */
  pthread_mutex_unlock(&mu);
}

typedef struct { int id; unsigned seed; long n; long *out; size_t nobj, ngrp; matrix *gid; int mode; } warg;
static void *worker(void *a_)
{
  warg *a = (warg*)a_; long i;
  my_id = a->id;
  if(a->mode == 0){
    srand_(a->seed);
    for(i = 0; i < a->n; i++) a->out[i] = randInt(0, 1000000);
  }
  else{
    unsigned int s = a->seed;
    random_kfold_group_generator(a->gid, a->ngrp, a->nobj, &s);
  }
  pthread_mutex_lock(&mu);
  release_locked(my_id);
  finished[a->id] = 1;
  /* drop the remaining schedule slots of this worker so the others are not stuck */
  while(sched_pos < sched_len && finished[schedule[sched_pos]]){ sched_pos++; }
  pthread_cond_broadcast(&cv);
  pthread_mutex_unlock(&mu);
  return NULL;
}
/* when the slot belongs to a finished worker, advance (checked by waiters too) */
static void run_workers(warg *w, int K)
{
  pthread_t th[MAXW]; int k;
  for(k = 0; k < K; k++) finished[k] = 0;
  sched_pos = 0; inflight = -1;
  verif_rng_yield = yield_hook;
  for(k = 0; k < K; k++) pthread_create(&th[k], NULL, worker, &w[k]);
  for(k = 0; k < K; k++) pthread_join(th[k], NULL);
  verif_rng_yield = NULL;
}

int main(void)
{
  char op[64];
  while(rd_tok(op, sizeof op)){
    if(!strcmp(op, "rng")){
      unsigned seed = (unsigned)rd_long(); long n = rd_long(), low = rd_long(), high = rd_long(), i;
      dvector *a, *b, *c;
      NewDVector(&a, n); NewDVector(&b, n); NewDVector(&c, n);
      srand_(seed); for(i = 0; i < n; i++) a->data[i] = (double)randInt((int)low, (int)high);
      srand_(seed); for(i = 0; i < n; i++) b->data[i] = rand_();
      srand_(seed); for(i = 0; i < n; i++) c->data[i] = randDouble((double)low, (double)high);
      pr_dvector("randInt", a); pr_dvector("rand", b); pr_dvector("randDouble", c);
      DelDVector(&a); DelDVector(&b); DelDVector(&c);
    }
    else if(!strcmp(op, "sched") || !strcmp(op, "gsched")){
      int g = !strcmp(op, "gsched");
      int K = (int)rd_long(), k; warg w[MAXW]; long i; size_t nobj = 0, ngrp = 0;
      for(k = 0; k < K; k++){
        w[k].id = k; w[k].seed = (unsigned)rd_long(); w[k].mode = g;
        if(!g){ w[k].n = rd_long(); w[k].out = malloc(sizeof(long)*(w[k].n+1)); }
      }
      if(g){ nobj = rd_size(); ngrp = rd_size(); for(k = 0; k < K; k++){ w[k].nobj = nobj; w[k].ngrp = ngrp; initMatrix(&w[k].gid); } }
      sched_len = rd_long(); schedule = malloc(sizeof(int)*(sched_len+1));
      for(i = 0; i < sched_len; i++) schedule[i] = (int)rd_long();
      run_workers(w, K);
      for(k = 0; k < K; k++){
        char nm[64];
        if(!g){
          dvector *d; NewDVector(&d, w[k].n);
          for(i = 0; i < w[k].n; i++) d->data[i] = (double)w[k].out[i];
          snprintf(nm, sizeof nm, "w%d", k); pr_dvector(nm, d);
          /* the same script alone */
          srand_(w[k].seed); for(i = 0; i < w[k].n; i++) d->data[i] = (double)randInt(0, 1000000);
          snprintf(nm, sizeof nm, "seq%d", k); pr_dvector(nm, d);
          DelDVector(&d); free(w[k].out);
        }
        else{
          matrix *alone; unsigned int s = w[k].seed;
          snprintf(nm, sizeof nm, "w%d", k); pr_matrix(nm, w[k].gid);
          initMatrix(&alone); random_kfold_group_generator(alone, ngrp, nobj, &s);
          snprintf(nm, sizeof nm, "seq%d", k); pr_matrix(nm, alone);
          DelMatrix(&alone); DelMatrix(&w[k].gid);
        }
      }
      free(schedule); schedule = NULL; sched_len = 0;
    }
    else if(!strcmp(op, "boot")){
      long algo = rd_long(); matrix *x = rd_matrix(), *y = rd_matrix();
      size_t group = rd_size(), iter = rd_size(), nth = rd_size(), reps = rd_size(), r;
      MODELINPUT in = initModelInput();
      in.mx = x; in.my = y; in.nlv = (algo == 0) ? 2 : 0; in.xautoscaling = 1; in.yautoscaling = 0;
      for(r = 0; r < reps; r++){
        matrix *py, *pr; char nm[64];
        initMatrix(&py); initMatrix(&pr);
        /* the caller's own seeded stream: what it draws after the call may not depend on the call having happened */
        { int ref0, ref1, got0, got1;
          srand_(777u + (unsigned)r); ref0 = randInt(0, 1000000); ref1 = randInt(0, 1000000);
          srand_(777u + (unsigned)r);
          BootstrapRandomGroupsCV(&in, group, iter, (AlgorithmType)algo, py, pr, nth, NULL, 0);
          got0 = randInt(0, 1000000); got1 = randInt(0, 1000000);
          snprintf(nm, sizeof nm, "caller_stream_perturbed%lu", (unsigned long)r); pr_long(nm, (ref0 != got0 || ref1 != got1) ? 1 : 0); }
        snprintf(nm, sizeof nm, "pred%lu", (unsigned long)r); pr_matrix(nm, py);
        DelMatrix(&py); DelMatrix(&pr);
      }
      DelMatrix(&x); DelMatrix(&y);
    }
    else if(!strcmp(op, "yscr")){
      /* yscr ALGO X Y VTYPE ROUNDS NTH : YScrambling with the given validation type and thread count */
      long algo = rd_long(); matrix *x = rd_matrix(), *y = rd_matrix();
      long vtype = rd_long(); size_t rounds = rd_size(), nth = rd_size();
      MODELINPUT in = initModelInput(); ValidationArg va = initValidationArg(); matrix *cc;
      in.mx = x; in.my = y; in.nlv = (algo == 0) ? 2 : 0; in.xautoscaling = 1; in.yautoscaling = 0;
      va.vtype = (ValidationType)vtype; va.rgcv_group = 3; va.rgcv_iterations = 4;
      initMatrix(&cc);
      YScrambling(&in, (AlgorithmType)algo, va, rounds, cc, nth, NULL);
      pr_matrix("cc", cc);
      DelMatrix(&cc); DelMatrix(&x); DelMatrix(&y);
    }
    else if(!strcmp(op, "kmcv")){
      /* kmcv M MAXCL INIT GROUPS ITERS NTH : cross-validated k-means (seeds its own stream); the second call goes into the
       * vector that already holds the first result */
      matrix *x = rd_matrix(); size_t maxcl = rd_size(); long init = rd_long(); size_t groups = rd_size(), iters = rd_size(), nth = rd_size();
      dvector *ss; initDVector(&ss);
      KMeansRandomGroupsCV(x, maxcl, (int)init, groups, iters, ss, nth); pr_dvector("ssdist", ss);
      KMeansRandomGroupsCV(x, maxcl, (int)init, groups, iters, ss, nth); pr_dvector("ssdist_again", ss);
      DelDVector(&ss); DelMatrix(&x);
    }
    else{ fprintf(stderr, "unknown op %s\n", op); return 2; }
    pr_end();
  }
  return 0;
}
