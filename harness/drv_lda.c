/* drv_lda.c — LDA fit, prediction, multiclass statistics (C08) */
#include "proto.h"
int main(void)
{
  char op[64];
  while(rd_tok(op, sizeof op)){
    if(!strcmp(op, "lda")){
      matrix *x = rd_matrix(), *y = rd_matrix(), *xt = rd_matrix(), *pf, *pr, *pdf, *pred; LDAMODEL *m;
      NewLDAModel(&m); LDA(x, y, m);
      pr_long("nclass", (long)m->nclass); pr_long("class_start", (long)m->class_start);
      pr_dvector("pprob", m->pprob); pr_matrix("mu", m->mu); pr_matrix("inv_cov", m->inv_cov);
      initMatrix(&pf); initMatrix(&pr); initMatrix(&pdf); initMatrix(&pred);
      LDAPrediction(x, m, pf, pr, pdf, pred); pr_matrix("pred_train", pred); pr_matrix("score_train", pr);
      DelMatrix(&pf); DelMatrix(&pr); DelMatrix(&pdf); DelMatrix(&pred);
      initMatrix(&pf); initMatrix(&pr); initMatrix(&pdf); initMatrix(&pred);
      LDAPrediction(xt, m, pf, pr, pdf, pred); pr_matrix("pred_test", pred); pr_matrix("score_test", pr);
      reuse_mask = 0;
      { /* the same prediction into outputs that already hold the results of the training objects / junk */
        matrix *k1 = dup_matrix(pr), *k2 = dup_matrix(pred);
        LDAPrediction(x, m, pf, pr, pdf, pred); LDAPrediction(xt, m, pf, pr, pdf, pred); RB(0, same_m(pr, k1) && same_m(pred, k2));
        junk_m(pf); junk_m(pr); junk_m(pdf); junk_m(pred); LDAPrediction(xt, m, pf, pr, pdf, pred); RB(0, same_m(pr, k1) && same_m(pred, k2));
        DelMatrix(&k1); DelMatrix(&k2); }
      pr_long("reuse_bad", reuse_mask);
      DelMatrix(&pf); DelMatrix(&pr); DelMatrix(&pdf); DelMatrix(&pred);
      DelLDAModel(&m); DelMatrix(&x); DelMatrix(&y); DelMatrix(&xt);
    }
    else if(!strcmp(op, "ldastat")){
      matrix *yt = rd_matrix(), *yp = rd_matrix(); dvector *ra, *pa;
      initDVector(&ra); initDVector(&pa);
      LDAMulticlassStatistics(yt, yp, NULL, ra, NULL, pa);
      pr_dvector("roc_aucs", ra); pr_dvector("pr_aucs", pa);
      DelDVector(&ra); DelDVector(&pa); DelMatrix(&yt); DelMatrix(&yp);
    }
    else{ fprintf(stderr, "unknown op %s\n", op); return 2; }
    pr_end();
  }
  return 0;
}
