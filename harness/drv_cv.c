/* drv_cv.c — cross-validation bookkeeping and out-of-sample predictions (C05)
 * algo: 0 PLS (nlv given), 4 MLR, 5 LDA */
#include "proto.h"
/* scaling options of the learner (x, y), set by the line `opts xs ys`; used by the validation calls and by the refit alike */
static int g_xs = 1, g_ys = 0;
static void refit_predict(long algo, size_t nlv, matrix *xtr, matrix *ytr, matrix *xte, matrix *out)
{
  if(algo == 0){
    PLSMODEL *m; NewPLSModel(&m); PLS(xtr, ytr, nlv, g_xs, g_ys, m, NULL);
    PLSYPredictorAllLV(xte, m, NULL, out); DelPLSModel(&m);
  }
  else if(algo == 4){
    MLRMODEL *m; NewMLRModel(&m); MLR(xtr, ytr, m, NULL);
    MLRPredictY(xte, NULL, m, out, NULL, NULL, NULL); DelMLRModel(&m);
  }
  else{
    LDAMODEL *m; matrix *pf, *pr, *pdf; NewLDAModel(&m); LDA(xtr, ytr, m);
    initMatrix(&pf); initMatrix(&pr); initMatrix(&pdf);
    LDAPrediction(xte, m, pf, pr, pdf, out);
    DelMatrix(&pf); DelMatrix(&pr); DelMatrix(&pdf); DelLDAModel(&m);
  }
}
int main(void)
{
  char op[64];
  while(rd_tok(op, sizeof op)){
    if(!strcmp(op, "opts")){ g_xs = (int)rd_long(); g_ys = (int)rd_long(); continue; }
    if(!strcmp(op, "groups")){
      unsigned int seed = (unsigned int)rd_long(); size_t ng = rd_size(), nobj = rd_size(); matrix *gid; initMatrix(&gid);
      random_kfold_group_generator(gid, ng, nobj, &seed); pr_matrix("gid", gid); DelMatrix(&gid);
    }
    else if(!strcmp(op, "split")){
      matrix *x = rd_matrix(), *y = rd_matrix(), *gid = rd_matrix(); size_t g = rd_size();
      matrix *xa, *ya, *xb, *yb; initMatrix(&xa); initMatrix(&ya); initMatrix(&xb); initMatrix(&yb);
      kfold_group_train_test_split(x, y, gid, g, xa, ya, xb, yb);
      pr_matrix("x_train", xa); pr_matrix("y_train", ya); pr_matrix("x_test", xb); pr_matrix("y_test", yb);
      DelMatrix(&xa); DelMatrix(&ya); DelMatrix(&xb); DelMatrix(&yb); DelMatrix(&x); DelMatrix(&y); DelMatrix(&gid);
    }
    else if(!strcmp(op, "refit")){
      long algo = rd_long(); size_t nlv = rd_size(); matrix *xtr = rd_matrix(), *ytr = rd_matrix(), *xte = rd_matrix(), *out;
      initMatrix(&out); refit_predict(algo, nlv, xtr, ytr, xte, out); pr_matrix("pred", out);
      DelMatrix(&out); DelMatrix(&xtr); DelMatrix(&ytr); DelMatrix(&xte);
    }
    else if(!strcmp(op, "loo") || !strcmp(op, "kfold") || !strcmp(op, "boot")){
      long algo = rd_long(); size_t nlv = rd_size(); matrix *x = rd_matrix(), *y = rd_matrix(), *py, *pr; size_t nth;
      MODELINPUT in = initModelInput(); size_t cv_grp = 0, cv_it = 0;
      in.mx = x; in.my = y; in.nlv = nlv; in.xautoscaling = g_xs; in.yautoscaling = g_ys;
      initMatrix(&py); initMatrix(&pr);
      if(!strcmp(op, "loo")){ nth = rd_size(); LeaveOneOut(&in, (AlgorithmType)algo, py, pr, nth, NULL, 0); }
      else if(!strcmp(op, "kfold")){ uivector *g = rd_uivector(); nth = rd_size(); KFoldCV(&in, g, (AlgorithmType)algo, py, pr, nth, NULL, 0); DelUIVector(&g); }
      else { size_t grp = rd_size(), it = rd_size(); nth = rd_size(); cv_grp = grp; cv_it = it; BootstrapRandomGroupsCV(&in, grp, it, (AlgorithmType)algo, py, pr, nth, NULL, 0); }
      pr_matrix("pred", py); pr_matrix("resid", pr);
      { /* the same call asking for the residuals only (no prediction matrix): same residuals */
        matrix *pr2; initMatrix(&pr2);
        if(!strcmp(op, "loo")) LeaveOneOut(&in, (AlgorithmType)algo, NULL, pr2, nth, NULL, 0);
        else if(!strcmp(op, "boot")) BootstrapRandomGroupsCV(&in, cv_grp, cv_it, (AlgorithmType)algo, NULL, pr2, nth, NULL, 0);
        if(strcmp(op, "kfold")) pr_matrix("resid_only", pr2);
        DelMatrix(&pr2); }
      DelMatrix(&py); DelMatrix(&pr); DelMatrix(&x); DelMatrix(&y);
    }
    else{ fprintf(stderr, "unknown op %s\n", op); return 2; }
    pr_end();
  }
  return 0;
}
