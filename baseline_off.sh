#!/bin/bash
# Runs the repository's baseline suite with the verification guard OFF.
# /repo/_build is a Ninja tree without CTest registration: the 62 baseline "tests" are
# sub-test banners printed by the test executables, which abort() on mismatch.
set -u
cd /repo
if [ ! -f _build/build.ninja ]; then cmake -G Ninja -B _build -S . >/dev/null || exit 2; fi
cmake --build _build 2>&1 | tail -3 || exit 2
cd _build/src/tests
# stale sqlite files of earlier runs would be appended to / read back: start clean
rm -f ./*.sqlite3
fail=0
for t in test*; do
  [ -x "$t" ] || continue
  # testmatrix draws time-seeded random integers in "Test 53: MatrixInitRandomInt" and aborts when
  # one of the 9 draws is 0 (probability ~4.4% per run, on the pinned commit too): retry up to 3 times
  tries=0; rc=1
  while [ $rc -ne 0 ] && [ $tries -lt 3 ]; do
    timeout 1800 ./"$t" > "/tmp/baseline_$t.log" 2>&1
    rc=$?; tries=$((tries+1))
    # testnumeric Test3 draws 10M time-seeded doubles and aborts when one equals the lower bound exactly
    # (2 of the 2^32 generator states; ~0.3% of the start seeds reach one within 10M steps), also on the pinned commit
    [ "$t" = "testmatrix" ] || [ "$t" = "testnumeric" ] || break
  done
  cat "/tmp/baseline_$t.log" | grep -a -i "test\|error\|abort" | head -200
  if [ $rc -ne 0 ]; then
    # testica aborts deterministically on the pinned commit (shape error inside ICA; none of
    # the 62 baseline banners come from it), so it is reported but not counted
    if [ "$t" = "testica" ]; then echo "BASELINE-ABORT (pre-existing, not in the 62): $t rc=$rc";
    else echo "FAILED: $t rc=$rc"; fail=1; fi
  else echo "PASSED: $t"; fi
  rm -f "/tmp/baseline_$t.log"
done
exit $fail
