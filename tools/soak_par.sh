#!/bin/bash
# usage: soak_par.sh <tier> <seed> ...  — one scratch copy of /verif per seed (under /root/vs), all checks for that seed,
# run concurrently on the UNCHANGED /repo (only read); prints every line that is not clean; removes the copies
tier=$1; shift
mkdir -p /root/vs
for s in "$@"; do
  ( rm -rf /root/vs/v$s; mkdir -p /root/vs/v$s
    rsync -a --exclude .git --exclude seeded --exclude replay --exclude evidence /verif/ /root/vs/v$s/
    mkdir -p /root/vs/v$s/replay /root/vs/v$s/evidence
    cd /root/vs/v$s
    for i in 01 02 03 04 05 06 07 08 09 10 11 12 13 14 15 16 17 18 19 20; do
      out=$(VERIF_SEED=$s VERIF_EVIDENCE_DIR=/root/vs/v$s/.cache/soak-evidence timeout 6000 ./check C$i --tier $tier 2>&1); rc=$?
      echo "seed $s C$i rc=$rc $(echo "$out" | grep -c '^VIOLATION') :: $(echo "$out" | tail -1)"
      if [ $rc -ne 0 ]; then mkdir -p /root/vs/keep; cp replay/C$i-$s-*.json /root/vs/keep/ 2>/dev/null; fi
    done > /root/vs/log$s 2>&1 ) &
done
wait
cat /root/vs/log* | grep -v "rc=0 0" 
for s in "$@"; do rm -rf /root/vs/v$s; done
echo SOAKPARDONE
