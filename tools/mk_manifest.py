#!/usr/bin/env python3
"""regenerates /verif/MANIFEST.json from the table below"""
import json, os, subprocess
V = os.path.dirname(os.path.dirname(os.path.abspath(__file__)))
TB = "Trusted: Coq 8.16.1 kernel + vm_compute (no native_compute); no axioms declared (Print Assumptions reports only the kernel's primitive float/int63 types where the F64 instance is mentioned); "
E = {
 "C10": ("Theorems about the executable model of MatrixPreprocess/TensorPreprocess: columns whose scale is inside the zero guard become exactly 0 in EVERY number system (binary64 included: no NaN/Inf); stored vectors are the column statistics; cell-wise fit formula, zero column sums, apply = affine map, apply(fit stats) reproduces the fit on complete data (no band hypothesis since both guards agree), MISSING cells do not enter mean/variance/rms, tensor = blockwise, option -1 copies; the model's literals are proved equal to the constants regenerated from the source (T-params). Model run on binary64 against the library, plus an independent statistics oracle.",
         TB + "hand transcription of preprocessing.c / column statistics of matrix.c (validated per run), T-params (regex over the source), unit-sd / Pareto / range statistics checked by the oracle rather than proved.",
         "Coq theorems over a list model generic in the number system + source-regenerated constants + binary64 correspondence"),
 "C11": ("Refinement theorems (Coq/MathComp, any real closed field, all shapes): the executable list kernels — matmul in both dispatch branches incl. the k+=4 unrolled loop and tails, mat-vec, vec-mat (accumulating), outer, transpose, trace, inner product, exchange sort — equal their bigop/matrix definitions; (AB)^T=B^T A^T and transpose involution on the kernels themselves. The same Gallina definitions run on binary64 inside coqc and are compared with the compiled library.",
         TB + "hand transcription of matrix.c/vector.c/tensor.c kernels (validated by the per-run correspondence), gcc -O1 -ffp-contract=off, rounding compared (2^-44 relative) not bounded; covariance/col-stats/tensor contractions are correspondence+oracle only.",
         "Coq/MathComp refinement proofs over a list-matrix model + binary64 model-vs-library correspondence by vm_compute"),
 "C13": ("Partition theorem for every thread-slicing loop of the library, for all row and thread counts, proved over loops REGENERATED from the C source on each run (T-leaf) via per-site equivalence lemmas to two canonical forms; disjoint per-row writes commute (any interleaving at row granularity = sequential); the regenerated condensed index (size_t wrap explicit) is injective, in range and symmetric for n < 2^32. Exhaustive sweep rows 0..40 x threads 1..24 on implementation and model.",
         TB + "T-leaf translator (clang JSON AST -> Gallina; ceil((double)a/(double)b) read as ceiling division), pthread fork/join modelled at row-step granularity; metric axioms (triangle inequality etc.) checked numerically, not yet proved.",
         "Coq proofs over source-regenerated integer model (translator) + exhaustive implementation sweep + binary64 distance correspondence"),
 "C01": ("Theorems over any real closed field for NIPALS deflation sequences, valid after ANY number of inner iterations: loadings orthonormal, scores = successive projections, E0 = T P' + E_a, E_a P = 0, Pythagoras (sums of squares add up; explained sum <= total; = total and E_a = 0 when all components are taken). The EXECUTABLE inner step of the model (same Gallina code that runs on binary64 against the library) is proved to return a unit loading in the row space of the residual and t = E p, which are exactly the hypotheses of the sequence theorems. Convergence threshold tied to the source (T-params). Model vs library: scores, loadings, dmodx, variances, statistics, predicted scores, back-transformation and iteration counts, for 7 scalings and 1..16 threads; theorem statements evaluated on the library output by an independent numpy oracle.",
         TB + "hand transcription of pca.c (validated per run incl. inner iteration counts); PARTIAL: the induction over components chaining the step refinement into the sequence theorems for the whole pca_fit, and monotonicity of explained variances (spectral; validated numerically) are not proved; rounding compared not bounded.",
         "Coq/MathComp theorems on deflation sequences + refinement proof of the executable NIPALS step + binary64 model-vs-library correspondence"),
 "C02": ("Proved: a fixed point of the documented NIPALS step is an eigenpair of E'E; a-posteriori eigen-residual bound from the documented criterion (Cauchy–Schwarz); the inner loop is a power iteration on E'E when p is cleared and on I+E'E when it is not, whose contraction is >= 1 - lambda1 whatever the spectral gap (the formal content of the defect found and fixed); the executable step is the documented step; the compiled criterion is 1e-10. Validated against an independent eigen-solver on U diag(s) V' + offsets with separated spectra, all scalings, magnitudes 1e-3..30, and under row/column permutations and rotations.",
         TB + "PARTIAL: global convergence to the k-th largest eigenvector and permutation/rotation equivariance are not theorems (validated with numpy.linalg.eigh as oracle); model correspondence is exercised in C01.",
         "Coq/MathComp spectral lemmas (fixed point, residual bound, power-iteration matrix) + independent eigen-solver oracle on the library"),
 "C03": ("Theorems over any real closed field for PLS-NIPALS deflation sequences, for ANY number of inner iterations, any Y and any unit weight vector of the row space of the current residual: x-scores mutually orthogonal, weights mutually orthogonal, p_k'w_k = 1 and p_k'w_j = 0 (j<k) (the facts behind the score round trip), X = T P' + X_a; b t q' is exactly the orthogonal projection of Y on t; residual column c of the LV-major layout subtracts response c mod ny (model theorem in every number system). Executable model of LVCalc/PLS/predictors run on binary64 against the library (all fields, recalculated y, residuals, predicted scores, betas, iteration counts).",
         TB + "hand transcription of pls.c (validated per run); PARTIAL: refinement of lv_calc to the sequence hypotheses, score round trip and recalculated-y layout are validated (correspondence + numpy oracle), not proved.",
         "Coq/MathComp theorems on PLS deflation sequences + binary64 model-vs-library correspondence"),
 "C04": ("Proved: |Y - proj_t Y|^2 = |Y|^2 - |t'Y|^2/t't, hence training RSS never increases with a latent variable; OLS limit by rank counting (a = rank X non-zero orthogonal scores in the column space of X and a residual orthogonal to them give the normal equations); x W = t (P'W) for every row x, with P'W upper unitriangular (betas predict what scores predict). Library checked against an independent least-squares solver (OLS limit), betas vs score predictor on unseen objects, RSS monotonicity, affine equivariance of a centred response.",
         TB + "PARTIAL: affine equivariance and the glue from the executable model to these matrix statements are validated numerically (numpy lstsq oracle; model correspondence is exercised in C03).",
         "Coq/MathComp least-squares lemmas + independent OLS oracle on the library"),
 "C06": ("For ALL worker scripts, worker counts and interleavings of their random-number calls: with thread-local generator state every finished worker has drawn exactly its sequential stream (theorem, by an invariant over schedule steps); with shared state a concrete schedule refutes it (theorem by vm_compute). Decision form over the STORAGE CLASS and the generator functions regenerated from numeric.c each run; the schedule model is replayed on the library through the RNG yield hook for every interleaving of 2-3 small workers, and the group generator / bootstrap CV are run under imposed and OS schedules.",
         TB + "T-leaf translator (RNG functions, storage class from clang's VarDecl.tls), atomicity of one RNG call (hook at call entry); word tearing, compiler reordering and C11 data-race UB not modelled (partial: hardware-level races).",
         "Coq invariant proof over all schedules on a source-regenerated RNG model + exhaustive small-schedule replay through a yield hook"),
 "C20": ("Decision procedure over struct/prototype tables REGENERATED from src/*.h (clang AST) and the ctypes declarations (Python ast) on each run; proved sound (ok=true -> same field names/order/types, same LP64 layout, same arity/parameter kinds/return kind for every declaration) and complete (ok=false -> listed declarations really disagree); the kernel evaluates ok on the current tree. Layout function validated against gcc offsetof/sizeof for every C struct.",
         TB + "T-abi translator, LP64 System V layout model (validated per run against the compiler), ctypes default restype=c_int.",
         "Coq-verified decision procedure over source-regenerated ABI tables (translator), evaluated by vm_compute"),
}
REF = {k: "DESIGN.md §5 " + k for k in ["C%02d" % i for i in range(1, 21)]}
def main():
    props = [json.loads(l) for l in open(os.path.join(V, "properties.jsonl"))]
    checks = []
    for p in props:
        pid = p["id"]
        if pid not in E:
            continue
        text, note, tech = E[pid]
        checks.append({"property_id": pid, "quick_cmd": "./check %s --tier quick" % pid, "thorough_cmd": "./check %s --tier thorough" % pid,
                       "evidence_file": "/verif/evidence/%s.json" % pid, "replay_cmd_template": "./check %s --replay {path}" % pid,
                       "engine": "coq-model+correspondence", "level_claimed": {"category": "proof", "text": text, "design_ref": REF[pid]},
                       "level_note": note, "technique": tech})
    hooks = subprocess.run(["git", "-C", "/repo", "log", "--format=%h", "--grep=^verif hooks"], stdout=subprocess.PIPE).stdout.decode().split()
    m = {"version": 1, "setup_cmd": "./setup.sh",
         "hooks": {"guard": "LIBSCIENTIFIC_VERIF", "enable": "checks compile /repo/src/*.c directly with gcc -DLIBSCIENTIFIC_VERIF (lib/vf.py build_lib)",
                   "baseline_off_cmd": "/verif/baseline_off.sh", "source_commits": hooks, "add_only": True},
         "engines": [{"name": "coq-model+correspondence", "path": "/verif/check", "serves_properties": [c["property_id"] for c in checks],
                      "kind_free_text": "Coq 8.16 theorems over an executable model; model tied to /repo by translators (coq/theories/Gen, regenerated each run) and by running the model (vm_compute in coqc) against the library compiled from the working tree"}],
         "checks": checks,
         "not_applicable": [{"property_id": p["id"], "reason": "not claimed yet: check under construction in this session (planned proof: DESIGN.md §5 %s)" % p["id"]} for p in props if p["id"] not in E],
         "notes": "All checks: ./check <id> --tier quick|thorough from /verif; they rebuild the library from /repo's working tree (cache keyed by source hash), regenerate coq/theories/Gen/*.v and re-check the property's .vo."}
    json.dump(m, open(os.path.join(V, "MANIFEST.json"), "w"), indent=1)
if __name__ == "__main__":
    main()
