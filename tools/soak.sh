#!/bin/bash
# usage: soak.sh <tier> <seed>...  — runs every check on the unchanged tree for several seeds, evidence written elsewhere
cd /verif
tier=$1; shift
for s in "$@"; do for i in 01 02 03 04 05 06 07 08 09 10 11 12 13 14 15 16 17 18 19 20; do
  out=$(VERIF_SEED=$s VERIF_EVIDENCE_DIR=/verif/.cache/soak-evidence timeout 6000 ./check C$i --tier $tier 2>&1); rc=$?
  echo "seed $s C$i rc=$rc $(echo "$out" | grep -c '^VIOLATION') :: $(echo "$out" | tail -1)"
done; done
