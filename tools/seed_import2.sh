#!/bin/bash
# usage: seed_import2.sh ID  — renames the round-2 deliverables of /tmp/seed/out2-<ID> to change3/4 etc. inside out-<ID>
ID=$1; S=/tmp/seed/out2-$ID; D=/tmp/seed/out-$ID
for k in 1 2; do n=$((k+2))
  [ -f $S/change$k.diff ] || continue
  cp $S/change$k.diff $D/change$n.diff
  for e in c py txt; do [ -f $S/demo$k.$e ] && sed "s#out2-$ID#out-$ID#g; s#demo$k#demo$n#g; s#change$k#change$n#g" $S/demo$k.$e > $D/demo$n.$e; done
  [ -f $S/meta$k.json ] && cp $S/meta$k.json $D/meta$n.json
done
