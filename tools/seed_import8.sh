#!/bin/bash
# usage: seed_import7.sh ID — round 7 (one change per property): copies change1 of /tmp/seed8/out-<ID> to change13 with its
# demonstration, meta file and confirmation logs
ID=$1; D=/tmp/seed8/out-$ID
k=1; n=13
[ -f $D/change$k.diff ] || exit 0
cp $D/change$k.diff $D/change$n.diff
for e in c py txt; do [ -f $D/demo$k.$e ] && sed "s#demo$k#demo$n#g; s#change$k#change$n#g" $D/demo$k.$e > $D/demo$n.$e; done
[ -f $D/meta$k.json ] && cp $D/meta$k.json $D/meta$n.json
for f in confirm confirm_after confirm_before; do for e in log out; do [ -f $D/$f$k.$e ] && cp $D/$f$k.$e $D/$f$n.$e; done; done
