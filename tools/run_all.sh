#!/bin/bash
# runs every claimed check (quick tier) and prints one status line each
cd "$(dirname "$0")/.."
for id in $(python3 -c "import json;print(' '.join(c['property_id'] for c in json.load(open('MANIFEST.json'))['checks']))"); do
  out=$(./check $id --tier ${1:-quick} 2>&1); rc=$?
  echo "$id rc=$rc $(echo "$out" | tail -1)"
  echo "$out" | grep -a "VIOLATION\|KNOWN-FINDING" | head -5
done
