#!/bin/bash
# usage: seed_reeval.sh [ID-K ...] — re-runs the stored seeded changes (all of /verif/seeded when none given) against the current checks
cd /verif
L="$@"; [ -z "$L" ] && L=$(ls seeded | sort -V)
for d in $L; do
  id=${d%-*}; k=${d#*-}
  echo "=== $d"; SEEDROOT=/nonexistent python3 tools/seed_eval.py $id $k 2>&1 | tail -2
done
