#!/usr/bin/env python3
"""inserts tools/design_status.md (with the seeded-change table) as section 0 of DESIGN.md"""
import subprocess, re
V = "/verif"
st = open(V + "/tools/design_status.md").read()
tab = subprocess.run(["python3", V + "/tools/seed_table.py"], stdout=subprocess.PIPE).stdout.decode()
st = st.replace("@@SEED_TABLE@@", tab.strip())
d = open(V + "/DESIGN.md").read()
a = d.find("## 0. Status after the build")
b = d.find("## 1. Why proof")
if a == -1:
    # first insertion: right before section 1 (after the summary table and its rule)
    d = d[:b] + st.rstrip() + "\n\n---------------------------------------------------------------------------------------\n\n" + d[b:]
else:
    d = d[:a] + st.rstrip() + "\n\n---------------------------------------------------------------------------------------\n\n" + d[b:]
open(V + "/DESIGN.md", "w").write(d)
