#!/bin/bash
# usage: seed_eval_all.sh ID...  — evaluates both changes of each id against the check of the same id
cd /verif
for id in "$@"; do for k in ${KS:-1 2}; do
  [ -f ${SEEDROOT:-/tmp/seed}/out-$id/change$k.diff ] || continue
  echo "=== $id-$k"; python3 tools/seed_eval.py $id $k 2>&1 | tail -4
done; done
