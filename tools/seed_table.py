#!/usr/bin/env python3
"""prints the markdown table of seeded changes from /verif/seeded/*/meta.json"""
import glob, json, os
rows = []
for d in sorted(glob.glob("/verif/seeded/*/")):
    m = json.load(open(os.path.join(d, "meta.json")))
    name = os.path.basename(d.rstrip("/"))
    files = ", ".join(os.path.basename(f) for f in m.get("files", []))
    summ = " ".join(str(m.get("summary", "")).split())
    summ = summ[:150] + ("…" if len(summ) > 150 else "")
    caught = m.get("caught_by") or []
    first = ""
    tierseed = ""
    for k, v in m.get("checks", {}).items():
        if v.get("rc") == 1 and v.get("violations"):
            first = (v.get("first") or [""])[0]
            tierseed = k.split(" ", 1)[1]
            break
    first = " ".join(first.split())[:110].replace("|", "/")
    rows.append("| %s | %s | %s | %s | %s |" % (name, files, summ.replace("|", "/"), (", ".join(caught) + " (" + tierseed + ")") if caught else "**not caught**", first))
print("| change | file | what was changed | caught by | first report |")
print("|---|---|---|---|---|")
print("\n".join(rows))
