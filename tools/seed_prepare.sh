#!/bin/bash
# usage: seed_prepare.sh <root> <first-k> — prepares a round of seeded-change agents under <root>:
# one scratch worktree of /repo's HEAD and one output directory per property, with the property record and a summary of the
# changes already stored under /verif/seeded/<id>-*/ (so that the agents look elsewhere).  Nothing from /verif is copied
# except those two texts.
R=$1
mkdir -p $R
cp /verif/tools/seed_run_tests.sh $R/run_tests.sh
for i in 01 02 03 04 05 06 07 08 09 10 11 12 13 14 15 16 17 18 19 20; do
  id=C$i
  git -C /repo worktree add -q --detach $R/wt-$id HEAD || exit 1
  mkdir -p $R/out-$id
  python3 - "$id" "$R" <<'PY'
import json, sys, glob, os
pid, R = sys.argv[1], sys.argv[2]
for l in open('/verif/properties.jsonl'):
    d = json.loads(l)
    if d['id'] == pid:
        json.dump(d, open('%s/out-%s/property.json' % (R, pid), 'w'), indent=1)
out = []
for mf in sorted(glob.glob('/verif/seeded/%s-*/meta.json' % pid)):
    m = json.load(open(mf))
    files = ", ".join(m.get('files', [])) or '?'
    out.append("- %s: %s" % (files, (m.get('summary') or '')[:420].replace("\n", " ")))
open('%s/out-%s/already_used.txt' % (R, pid), 'w').write("\n".join(out) + "\n")
PY
done
# configure + build every worktree once (so the agents start from a built tree)
for i in 01 02 03 04 05 06 07 08 09 10 11 12 13 14 15 16 17 18 19 20; do
  ( cd $R/wt-C$i && cmake -G Ninja -B _build -S . -DCMAKE_BUILD_TYPE=RelWithDebInfo -DCMAKE_C_FLAGS=-Wno-error >/dev/null 2>&1 && cmake --build _build >/dev/null 2>&1 ) &
  [ $((10#$i % 5)) -eq 0 ] && wait
done
wait
echo prepared
