#!/bin/bash
# usage: soak_ids.sh <tier> "<seeds>" ID...  — like soak.sh for a subset of the checks
cd /verif
tier=$1; seeds=$2; shift 2
for s in $seeds; do for id in "$@"; do
  out=$(VERIF_SEED=$s VERIF_EVIDENCE_DIR=/verif/.cache/soak-evidence timeout 6000 ./check $id --tier $tier 2>&1); rc=$?
  echo "seed $s $id rc=$rc $(echo "$out" | grep -c '^VIOLATION') :: $(echo "$out" | grep -E '^(VIOLATION|KNOWN)' | head -3 | tr '\n' '|') $(echo "$out" | tail -1)"
done; done
