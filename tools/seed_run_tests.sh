#!/bin/bash
# usage: run_tests.sh <worktree>   — builds the tree and runs its whole test suite; exit 0 = all pass
set -u
W="$1"
cd "$W" || exit 2
if [ ! -f _build/build.ninja ]; then cmake -G Ninja -B _build -S . -DCMAKE_BUILD_TYPE=RelWithDebInfo -DCMAKE_C_FLAGS=-Wno-error >/dev/null || exit 2; fi
cmake --build _build 2>&1 | tail -3
[ ${PIPESTATUS[0]} -eq 0 ] || { echo "BUILD FAILED"; exit 2; }
cd _build/src/tests
rm -f ./*.sqlite3
fail=0
for t in test*; do
  [ -x "$t" ] || continue
  tries=0; rc=1
  while [ $rc -ne 0 ] && [ $tries -lt 3 ]; do
    timeout 1800 ./"$t" > "$W/_build/log_$t.txt" 2>&1
    rc=$?; tries=$((tries+1))
    [ "$t" = "testmatrix" ] || [ "$t" = "testnumeric" ] || break   # both have a rare time-seeded failure on the unchanged tree
  done
  if [ $rc -ne 0 ]; then
    if [ "$t" = "testica" ]; then echo "ABORT (pre-existing on the unchanged tree, ignore): $t rc=$rc";
    else echo "FAILED: $t rc=$rc (log $W/_build/log_$t.txt)"; fail=1; fi
  else echo "PASSED: $t"; fi
done
exit $fail
