#!/bin/bash
# usage: seed_reeval_par.sh <nworkers> [ID-K ...] — re-runs the stored seeded changes in parallel: every worker has its own
# scratch copy of /verif (checks, Coq build) and its own scratch worktree of /repo under /root/ve; results go to
# /verif/seeded/<id>-<k>/meta.json.  The scratch copies are removed at the end.
N=$1; shift
L="$@"; [ -z "$L" ] && L=$(ls /verif/seeded | sort -V)
mkdir -p /root/ve
for w in $(seq 1 $N); do
  rm -rf /root/ve/v$w; mkdir -p /root/ve/v$w
  rsync -a --exclude .git --exclude seeded --exclude replay --exclude evidence /verif/ /root/ve/v$w/
  mkdir -p /root/ve/v$w/replay /root/ve/v$w/evidence
  git -C /repo worktree remove --force /root/ve/r$w 2>/dev/null; rm -rf /root/ve/r$w
  git -C /repo worktree add -q --detach /root/ve/r$w HEAD
done
i=0
for d in $L; do i=$((i+1)); w=$(( (i % N) + 1 )); echo $d >> /root/ve/list$w; done
for w in $(seq 1 $N); do
  ( for d in $(cat /root/ve/list$w); do id=${d%-*}; k=${d#*-}
      echo "=== $d"; SEEDROOT=/nonexistent SEED_VERIF=/root/ve/v$w VERIF_REPO=/root/ve/r$w python3 /verif/tools/seed_eval.py $id $k 2>&1 | tail -2
    done > /root/ve/log$w 2>&1 ) &
done
wait
cat /root/ve/log* > /root/seed_reeval_par.log
for w in $(seq 1 $N); do git -C /repo worktree remove --force /root/ve/r$w; done
git -C /repo worktree prune
rm -rf /root/ve
echo PARDONE
