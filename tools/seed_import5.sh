#!/bin/bash
# usage: seed_import4.sh ID — round 5: copies change1/2 of /tmp/seed5/out-<ID> to change9/10 (same directory), with their
# demonstrations, meta files and confirmation logs
ID=$1; D=/tmp/seed5/out-$ID
for k in 1 2; do n=$((k+8))
  [ -f $D/change$k.diff ] || continue
  cp $D/change$k.diff $D/change$n.diff
  for e in c py txt; do [ -f $D/demo$k.$e ] && sed "s#demo$k#demo$n#g; s#change$k#change$n#g" $D/demo$k.$e > $D/demo$n.$e; done
  [ -f $D/meta$k.json ] && cp $D/meta$k.json $D/meta$n.json
  for f in confirm confirm_after confirm_before; do for e in log out; do [ -f $D/$f$k.$e ] && cp $D/$f$k.$e $D/$f$n.$e; done; done
done
