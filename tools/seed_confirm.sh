#!/bin/bash
# usage: seed_confirm.sh <ID>   — confirms the changes a sub-agent left in ${SEEDROOT:-/tmp/seed}/out-<ID> in its scratch worktree:
# each patch applies alone to a clean tree, the library builds, the whole test suite passes, and the demonstration
# (built with the command recorded in demoK.txt) shows the violation.  Results: ${SEEDROOT:-/tmp/seed}/out-<ID>/confirmK.log
ID="$1"; W=${SEEDROOT:-/tmp/seed}/wt-$ID; O=${SEEDROOT:-/tmp/seed}/out-$ID
for K in ${KS:-1 2}; do
  [ -f $O/change$K.diff ] || continue
  L=$O/confirm$K.log; : > $L
  git -C $W checkout -- . ; git -C $W clean -fdq -e _build
  if ! git -C $W apply $O/change$K.diff >>$L 2>&1; then echo "APPLY-FAILED" >> $L; continue; fi
  echo "APPLIED" >> $L
  ${SEEDROOT:-/tmp/seed}/run_tests.sh $W > $O/confirm_tests$K.log 2>&1; echo "TESTS rc=$?" >> $L
  # demonstration: run the recorded build command(s)
  cd $O
  D=$(ls demo$K.c demo$K.py 2>/dev/null | head -1)
  if [ "${D##*.}" = "c" ]; then
    CMD=$(grep -m1 -E '^\s*(\$ )?(timeout [0-9]+ )?(gcc|cc) ' demo$K.txt | sed -E 's/^\s*\$ //')
    [ -z "$CMD" ] && CMD="gcc -O1 -o demo$K demo$K.c -I$W/src -I$W/_build -L$W/_build/src -Wl,-rpath,$W/_build/src -lscientific -lm -ldl -lpthread"
    echo "BUILD: $CMD" >> $L
    ( export W=$W O=$O; eval "$CMD" ) >> $L 2>&1; echo "BUILD rc=$?" >> $L
    EXE=$(echo "$CMD" | grep -oE '\-o +[^ ]+' | head -1 | awk '{print $2}'); [ -z "$EXE" ] && EXE=demo$K
    case "$EXE" in /*) ;; *) EXE=./$EXE;; esac
    ( export W=$W LD_LIBRARY_PATH=$W/_build/src; timeout 600 $EXE ) > $O/confirm_after$K.out 2>&1; echo "DEMO-AFTER rc=$?" >> $L
  else
    ( export W=$W LD_LIBRARY_PATH=$W/_build/src; timeout 600 python3 $D ) > $O/confirm_after$K.out 2>&1; echo "DEMO-AFTER rc=$?" >> $L
  fi
  tail -5 $O/confirm_after$K.out >> $L
  git -C $W checkout -- .
done
# before: clean tree
cmake --build $W/_build >/dev/null 2>&1
for K in ${KS:-1 2}; do
  [ -f $O/change$K.diff ] || continue
  L=$O/confirm$K.log; cd $O
  D=$(ls demo$K.c demo$K.py 2>/dev/null | head -1)
  if [ "${D##*.}" = "c" ]; then
    EXE=$(grep -m1 -E '^BUILD: ' $L | grep -oE '\-o +[^ ]+' | head -1 | awk '{print $2}'); [ -z "$EXE" ] && EXE=demo$K
    case "$EXE" in /*) ;; *) EXE=./$EXE;; esac
    ( export W=$W LD_LIBRARY_PATH=$W/_build/src; timeout 600 $EXE ) > $O/confirm_before$K.out 2>&1; echo "DEMO-BEFORE rc=$?" >> $L
  else
    ( export W=$W LD_LIBRARY_PATH=$W/_build/src; timeout 600 python3 $D ) > $O/confirm_before$K.out 2>&1; echo "DEMO-BEFORE rc=$?" >> $L
  fi
  tail -3 $O/confirm_before$K.out >> $L
done
echo done-$ID
