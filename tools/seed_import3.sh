#!/bin/bash
# usage: seed_import3.sh ID — round 3: renames change1/2 of /tmp/seed3/out-<ID> to change5/6 (same directory)
ID=$1; D=/tmp/seed3/out-$ID
for k in 1 2; do n=$((k+4))
  [ -f $D/change$k.diff ] || continue
  cp $D/change$k.diff $D/change$n.diff
  for e in c py txt; do [ -f $D/demo$k.$e ] && sed "s#demo$k#demo$n#g; s#change$k#change$n#g" $D/demo$k.$e > $D/demo$n.$e; done
  [ -f $D/meta$k.json ] && cp $D/meta$k.json $D/meta$n.json
done
