#!/usr/bin/env python3
"""usage: seed_eval.py <ID> <K> [check ids...]
Stores the confirmed seeded change /tmp/seed/out-<ID>/change<K>.diff under /verif/seeded/<ID>-<K>/, applies it to
/repo, runs the registered check(s), records which fired, and restores /repo (git checkout -- .)."""
import json, os, re, shutil, subprocess, sys, time
V = "/verif"                                   # where the seeded changes are stored
W = os.environ.get("SEED_VERIF", V)            # where the checks are run (a scratch copy of /verif for parallel evaluation)
R = os.environ.get("VERIF_REPO", "/repo")      # the tree the change is applied to (a scratch worktree for parallel evaluation)
pid, k = sys.argv[1], sys.argv[2]
checks = sys.argv[3:] or [pid]
O = os.path.join(os.environ.get("SEEDROOT", "/tmp/seed"), "out-%s" % pid)
D = os.path.join(V, "seeded", "%s-%s" % (pid, k))
os.makedirs(D, exist_ok=True)
if os.path.exists(os.path.join(O, "change%s.diff" % k)):
    shutil.copy(os.path.join(O, "change%s.diff" % k), os.path.join(D, "patch.diff"))
    for ext in ("c", "py", "txt"):
        f = os.path.join(O, "demo%s.%s" % (k, ext))
        if os.path.exists(f):
            shutil.copy(f, os.path.join(D, "demonstration.%s" % ext))
    for nm in ("confirm%s.log" % k, "confirm_after%s.out" % k, "confirm_before%s.out" % k):
        f = os.path.join(O, nm)
        if os.path.exists(f):
            shutil.copy(f, os.path.join(D, nm.replace(k + ".", ".")))
meta = {}
mf = os.path.join(D, "meta.json")
if os.path.exists(mf):
    meta = json.load(open(mf))
elif os.path.exists(os.path.join(O, "meta%s.json" % k)):
    meta = json.load(open(os.path.join(O, "meta%s.json" % k)))
if os.environ.get("SEED_IMPORT_ONLY"):
    json.dump(meta, open(mf, "w"), indent=1)
    print("imported", D); sys.exit(0)
st = subprocess.run(["git", "-C", R, "status", "--short", "--untracked-files=no"], stdout=subprocess.PIPE).stdout.decode().strip()
if st:
    print(R, "is not clean:", st); sys.exit(2)
r = subprocess.run(["git", "-C", R, "apply", "--3way", os.path.join(D, "patch.diff")], stdout=subprocess.PIPE, stderr=subprocess.STDOUT)
if r.returncode != 0:
    subprocess.run(["git", "-C", R, "reset", "-q"]); subprocess.run(["git", "-C", R, "checkout", "--", "."])
    r = subprocess.run(["git", "-C", R, "apply", os.path.join(D, "patch.diff")], stdout=subprocess.PIPE, stderr=subprocess.STDOUT)
if r.returncode != 0:
    subprocess.run(["git", "-C", R, "reset", "-q"]); subprocess.run(["git", "-C", R, "checkout", "--", "."])
    print("patch does not apply:", r.stdout.decode()); sys.exit(2)
results = meta.setdefault("checks", {})
env = dict(os.environ); env["VERIF_EVIDENCE_DIR"] = os.path.join(W, ".cache", "seed-evidence"); env["VERIF_REPO"] = R
try:
    for c in checks:
        for tier, seed in (("quick", "1"), ("quick", "2"), ("thorough", "1")):
            env["VERIF_SEED"] = seed
            t0 = time.time()
            p = subprocess.run(["timeout", "3000", "./check", c, "--tier", tier], cwd=W, stdout=subprocess.PIPE, stderr=subprocess.STDOUT, env=env)
            out = p.stdout.decode(errors="replace")
            viol = [l for l in out.splitlines() if l.startswith("VIOLATION")]
            what = []
            for l in viol[:3]:
                m = re.search(r"replay=(\S+)", l)
                if m and os.path.exists(m.group(1)):
                    try:
                        rp = json.load(open(m.group(1)))
                        what.append(("%s/%s: %s" % (rp.get("site"), rp.get("class"), rp.get("what", "")))[:300] if "site" in rp else json.dumps(rp.get("broken", ""))[:300])
                    except Exception as ex:
                        what.append(str(ex))
            results["%s %s seed %s" % (c, tier, seed)] = {"rc": p.returncode, "violations": len(viol), "first": what, "seconds": round(time.time() - t0, 1), "summary": out.strip().splitlines()[-1] if out.strip() else ""}
            print(c, tier, seed, "rc", p.returncode, "violations", len(viol), what[:1])
            if p.returncode == 1 and viol:
                break
finally:
    subprocess.run(["git", "-C", R, "reset", "-q"])
    subprocess.run(["git", "-C", R, "checkout", "--", "."])
meta["caught_by"] = sorted({k_.split()[0] for k_, v in results.items() if v["rc"] == 1 and v["violations"]})
json.dump(meta, open(mf, "w"), indent=1)
print("caught_by", meta["caught_by"])
