(* F64Ops.v — IEEE binary64 instance (Coq primitive floats = hardware doubles, RNE). *)
From mathcomp Require Import ssreflect ssrfun ssrbool eqtype ssrnat seq.
From Coq Require Import ZArith Uint63 Floats.
From LS Require Import NumOps.
Local Open Scope float_scope.

Definition f64_isinf (x : float) : bool := (x =? infinity) || (x =? neg_infinity).
Definition f64_ofnat (n : nat) : float := of_uint63 (Uint63.of_Z (Z.of_nat n)).

Global Instance F64Ops : NumOps float := {|
  k0 := 0; k1 := 1; kadd := PrimFloat.add; ksub := PrimFloat.sub; kmul := PrimFloat.mul; kdiv := PrimFloat.div;
  kopp := PrimFloat.opp; ksqrt := PrimFloat.sqrt; kabs := PrimFloat.abs;
  keqb := PrimFloat.eqb; kltb := PrimFloat.ltb; kleb := PrimFloat.leb;
  kisnan := PrimFloat.is_nan; kisinf := f64_isinf;
  kofnat := f64_ofnat; klit := lf |}.

(* comparison of a model value with an implementation value (correspondence):
   bit-equal, both NaN, or within rel*max(scale,|a|,|b|) *)
Definition f_agree (rel scale a b : float) : bool :=
  if is_nan a then is_nan b else
  if is_nan b then false else
  if a =? b then true else
  let m := (let x := abs a in let y := abs b in if x <? y then y else x) in
  let m := if m <? scale then scale else m in
  abs (a - b) <=? rel * m.
Fixpoint v_agree (rel scale : float) (u v : list float) : bool :=
  match u, v with
  | nil, nil => true
  | a :: u', b :: v' => f_agree rel scale a b && v_agree rel scale u' v'
  | _, _ => false
  end.
Fixpoint m_agree (rel scale : float) (u v : list (list float)) : bool :=
  match u, v with
  | nil, nil => true
  | a :: u', b :: v' => v_agree rel scale a b && m_agree rel scale u' v'
  | _, _ => false
  end.
Definition vmax (v : list float) : float := foldl (fun m x => let a := abs x in if m <? a then a else m) 0 v.
Definition mmax (m : list (list float)) : float := foldl (fun a r => let b := vmax r in if a <? b then b else a) 0 m.
