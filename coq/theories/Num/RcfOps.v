(* RcfOps.v — exact instance over an arbitrary real closed field, and the bridge from
   list vectors/matrices to MathComp matrices. *)
From mathcomp Require Import all_ssreflect all_algebra.
From Coq Require Import QArith.
From LS Require Import NumOps.
Close Scope Q_scope.
Set Implicit Arguments. Unset Strict Implicit. Unset Printing Implicit Defensive.
Import Order.TTheory GRing.Theory Num.Theory.
Local Open Scope ring_scope.

Section S.
Variable R : rcfType.
Definition rcf_of_Q (q : Q) : R :=
  (match Qnum q with Z0 => 0 | Zpos p => (Pos.to_nat p)%:R | Zneg p => - (Pos.to_nat p)%:R end)
  / (Pos.to_nat (Qden q))%:R.
Global Instance RcfOps : NumOps R := {|
  k0 := 0; k1 := 1; kadd := +%R; ksub := fun x y => x - y; kmul := *%R; kdiv := fun x y => x / y;
  kopp := -%R; ksqrt := Num.sqrt; kabs := Num.norm;
  keqb := fun x y => x == y; kltb := fun x y => x < y; kleb := fun x y => x <= y;
  kisnan := fun _ => false; kisinf := fun _ => false;
  kofnat := fun n => n%:R; klit := fun l => rcf_of_Q (lq l) |}.

Definition mx_of m n (l : seq (seq R)) : 'M[R]_(m,n) := \matrix_(i,j) (nth [::] l i)`_j.
Definition cv_of n (l : seq R) : 'cV[R]_n := \col_i l`_i.
Definition rv_of n (l : seq R) : 'rV[R]_n := \row_i l`_i.
Definition wf m n (l : seq (seq R)) := (size l == m) && all (fun r => size r == n) l.
(* no entry inside the MISSING window (99999998.9, 99999999.1) *)
Definition cleanx (x : R) := ~~ is_missing x.
Definition cleanv (v : seq R) := all cleanx v.
Definition cleanm (l : seq (seq R)) := all cleanv l.
End S.

(* values far below the MISSING code are never mistaken for it (non-vacuity of `clean`) *)
Section Clean.
Variable R : rcfType.
Local Existing Instance RcfOps.
Lemma missing_big : (2%:R : R) <= MISSINGk - klit lit_1em1.
Proof.
rewrite /MISSINGk /= /rcf_of_Q /=.
have h : leq 12 (Pos.to_nat 99999999).
  apply/ssrnat.leP; rewrite -[12%nat]/(Pos.to_nat 12); apply/Pos2Nat.inj_le.
  by rewrite /Pos.le.
move: h; set N := Pos.to_nat 99999999 => h.
rewrite invr1 mulr1 lter_sub_addr.
have -> : Pos.to_nat 10 = 10%nat by [].
apply: (@le_trans _ _ (12%:R)); last by rewrite ler_nat.
rewrite -[12%:R]/((2 + 10)%:R) natrD ler_add2l.
have -> : Pos.to_nat 1 = 1%nat by [].
by rewrite ler_pdivr_mulr ?ltr0n // -natrM ler_nat.
Qed.
Lemma cleanx_small (x : R) : x <= 2%:R -> cleanx x.
Proof.
move=> x2; rewrite /cleanx /is_missing /float_eq negb_and -leNgt.
by rewrite (le_trans x2 missing_big).
Qed.
End Clean.
