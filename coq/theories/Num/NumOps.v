(* NumOps.v — the record of scalar operations every executable model is generic over.
   Instances: F64Ops (PrimFloat; what the C code computes), RcfOps (any real closed
   field; what the theorems are about). No proofs here. *)
From mathcomp Require Import ssreflect ssrfun ssrbool eqtype ssrnat seq.
From Coq Require Import ZArith QArith Floats.
Set Implicit Arguments. Unset Strict Implicit. Unset Printing Implicit Defensive.

(* A C floating literal: the exact decimal the source says and the binary64 the
   compiler produced. *)
Record lit := Lit { lq : Q; lf : float }.

Class NumOps (K : Type) := {
  k0 : K; k1 : K;
  kadd : K -> K -> K; ksub : K -> K -> K; kmul : K -> K -> K; kdiv : K -> K -> K;
  kopp : K -> K; ksqrt : K -> K; kabs : K -> K;
  keqb : K -> K -> bool; kltb : K -> K -> bool; kleb : K -> K -> bool;
  kisnan : K -> bool; kisinf : K -> bool;
  kofnat : nat -> K;            (* (double)n for a size_t n *)
  klit : lit -> K }.

(* run-time errors of the models: where C would divide by zero, run out of the
   iteration budget, index out of range or hit a shape mismatch (abort()) *)
Inductive err := DivZero | Fuel | OOB | Shape | Missing | NotFinite.
Inductive result (A : Type) := Ok of A | Err of err.
Arguments Err {A} _.
Definition rbind A B (x : result A) (f : A -> result B) : result B :=
  match x with Ok a => f a | Err e => Err e end.
Notation "'do' x <- a ; b" := (rbind a (fun x => b)) (at level 200, x name, a at level 100, b at level 200).
Notation "'do' ' p <- a ; b" := (rbind a (fun x => let p := x in b)) (at level 200, p pattern, a at level 100, b at level 200).

(* literals shared by all models; T-params (Gen_Params.v) re-derives them from the
   source and Properties files prove the two agree *)
Definition lit_MISSING := Lit (99999999#1) 99999999%float.
Definition lit_1em1 := Lit (1#10) 0.1%float.
Definition lit_1em2 := Lit (1#100) 0.01%float.
Definition lit_1em3 := Lit (1#1000) 0.001%float.
Definition lit_1em4 := Lit (1#10000) 0.0001%float.
Definition lit_1em6 := Lit (1#1000000) 1e-6%float.
Definition lit_1em7 := Lit (1#10000000) 1e-7%float.
Definition lit_1em8 := Lit (1#100000000) 1e-8%float.
Definition lit_1em10 := Lit (1#10000000000) 1e-10%float.
Definition lit_1em18 := Lit (1#1000000000000000000) 1e-18%float.
Definition lit_half := Lit (1#2) 0.5%float.
Definition lit_075 := Lit (3#4) 0.75%float.
Definition lit_2 := Lit (2#1) 2%float.
Definition lit_3 := Lit (3#1) 3%float.
Definition lit_100 := Lit (100#1) 100%float.

Section Generic.
Context {K : Type} {ops : NumOps K}.
Definition MISSINGk : K := klit lit_MISSING.
(* FLOAT_EQ(x, v, eps) = ((v - eps) < x) && (x < (v + eps)) *)
Definition float_eq (x v eps : K) : bool := kltb (ksub v eps) x && kltb x (kadd v eps).
Definition is_missing (x : K) : bool := float_eq x MISSINGk (klit lit_1em1).
Definition kbad (x : K) : bool := kisnan x || kisinf x.
End Generic.
