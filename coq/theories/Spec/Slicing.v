(* Slicing.v — canonical forms of the thread-slicing loops and the partition theorem:
   for every row count and every positive thread count the slices, read in order, are
   exactly 0,1,...,rows-1 (coverage, disjointness and order in one equation).
   The loops themselves are regenerated from the C source into Gen_Leaf.v; the generated
   file Gen_LeafProofs.v shows each of them equal to one of the two canonical forms. *)
From Coq Require Import List Arith Lia PeanoNat.
Import ListNotations.
From LS Require Import Gen_Leaf.

(* form A (matrix.c, metricspace.c, MDC): state (from,to); emit, then from=to, to=min *)
Definition bodyA (rows step : nat) (st : nat * nat) : (nat * nat) * (nat * nat) :=
  let '(from, to) := st in
  ((from, to), (to, if Nat.ltb rows (to + step) then rows else to + step)).
Definition slicesA (rows nth : nat) : list (nat * nat) :=
  let step := cdivn rows nth in iter_slices (bodyA rows step) nth (0, step).
(* form B (k-means++ distances, k-means labelling): state from; to = min(rows, from+step) *)
Definition bodyB (rows step : nat) (from : nat) : (nat * nat) * nat :=
  let from' := if Nat.ltb rows (from + step) then rows else from + step in ((from, from'), from').
Definition slicesB (rows nth : nat) : list (nat * nat) :=
  let step := cdivn rows nth in iter_slices (bodyB rows step) nth 0.

Definition cover (l : list (nat * nat)) := flat_map (fun '(a, b) => seq a (b - a)) l.

Lemma iter_slices_ext {S : Type} (f g : S -> (nat * nat) * S) n st :
  (forall st, f st = g st) -> iter_slices f n st = iter_slices g n st.
Proof.
intros H; revert st; induction n as [|n IH]; intros st; cbn [iter_slices]; [reflexivity|].
rewrite H; destruct (g st) as [e st']; rewrite IH; reflexivity.
Qed.
Ltac destruct_st st := try (destruct st as [? ?]).

Lemma cover_A rows step a n : a <= rows ->
  cover (iter_slices (bodyA rows step) n (a, Nat.min rows (a + step))) = seq a (Nat.min rows (a + n * step) - a).
Proof.
revert a. induction n as [|n IH]; intros a Ha; cbn [iter_slices bodyA cover flat_map].
- replace (Nat.min rows (a + 0 * step) - a) with 0 by lia. reflexivity.
- set (to := Nat.min rows (a + step)).
  fold (cover (iter_slices (bodyA rows step) n (to, if Nat.ltb rows (to + step) then rows else to + step))).
  assert (Hto : a <= to <= rows) by (unfold to; lia).
  replace (if Nat.ltb rows (to + step) then rows else to + step) with (Nat.min rows (to + step))
    by (destruct (Nat.ltb_spec rows (to + step)); lia).
  rewrite IH by lia.
  replace (Nat.min rows (a + S n * step) - a) with ((to - a) + (Nat.min rows (to + n * step) - to)).
  + rewrite seq_app. f_equal. f_equal. lia.
  + unfold to in *. nia.
Qed.

Lemma cdiv_cover rows nth : 0 < nth -> rows <= nth * cdivn rows nth.
Proof.
intros H. unfold cdivn.
pose proof (Nat.div_mod (rows + nth - 1) nth ltac:(lia)).
pose proof (Nat.mod_upper_bound (rows + nth - 1) nth ltac:(lia)). nia.
Qed.

Lemma step_le rows nth : 0 < nth -> cdivn rows nth <= rows \/ rows = 0.
Proof.
intros H. unfold cdivn. destruct rows; [right; reflexivity|left].
apply Nat.div_le_upper_bound; [lia|]. nia.
Qed.

Theorem slicesA_partition rows nth : 0 < nth -> cover (slicesA rows nth) = seq 0 rows.
Proof.
intros H. unfold slicesA. set (step := cdivn rows nth).
destruct (step_le rows nth H) as [Hs|Hs]; fold step in Hs.
- replace (0, step) with (0, Nat.min rows (0 + step)) by (f_equal; lia).
  rewrite cover_A by lia.
  pose proof (cdiv_cover rows nth H) as H0. fold step in H0.
  replace (Nat.min rows (0 + nth * step) - 0) with rows by nia. reflexivity.
- assert (step = 0) as -> by (unfold step, cdivn; subst rows; cbn; rewrite Nat.div_small; lia).
  subst rows. replace (0, 0) with (0, Nat.min 0 (0 + 0)) by reflexivity.
  rewrite cover_A by lia. reflexivity.
Qed.

Lemma B_is_A rows step n a : a <= rows ->
  iter_slices (bodyB rows step) n a = iter_slices (bodyA rows step) n (a, Nat.min rows (a + step)).
Proof.
revert a; induction n as [|n IH]; intros a Ha; cbn [iter_slices bodyA bodyB]; [reflexivity|].
replace (if Nat.ltb rows (a + step) then rows else a + step) with (Nat.min rows (a + step))
  by (destruct (Nat.ltb_spec rows (a + step)); lia).
set (to := Nat.min rows (a + step)).
replace (if Nat.ltb rows (to + step) then rows else to + step) with (Nat.min rows (to + step))
  by (destruct (Nat.ltb_spec rows (to + step)); lia).
rewrite IH by (unfold to; lia). reflexivity.
Qed.

Theorem slicesB_partition rows nth : 0 < nth -> cover (slicesB rows nth) = seq 0 rows.
Proof.
intros H. unfold slicesB. set (step := cdivn rows nth).
rewrite B_is_A by lia. rewrite cover_A by lia.
pose proof (cdiv_cover rows nth H) as H0. fold step in H0.
replace (Nat.min rows (0 + nth * step) - 0) with rows by nia. reflexivity.
Qed.
