(* CpcaRefine.v — C09: refinement of the executable CPCA block step (Exec/Cpca.v: block_loadings,
   block_scores) to the matrix-level objects of Spec/CpcaSpec.v, over any real closed field:
   for one block E (n x m, no missing-coded cell) and a score vector t with t't > 0, the list program
   computes  p = E't / t't,  phat = p/|p|  and the block score  t_b = E phat / sf  — and phat is
   the normalised E't itself (the positive factor 1/t't cancels), which is CpcaSpec.phat / tb. *)
From mathcomp Require Import all_ssreflect all_algebra.
From LS Require Import NumOps RcfOps Kernels KernelsSpec Pca PcaRefine NipalsSpec Cpca CpcaSpec.
Set Implicit Arguments. Unset Strict Implicit. Unset Printing Implicit Defensive.
Import Order.TTheory GRing.Theory Num.Theory.
Local Open Scope ring_scope.

Section CpcaRefine.
Variable R : rcfType.
Local Existing Instance RcfOps.
Local Notation vec := (seq R).
Local Notation mat := (seq (seq R)).

Lemma cleanm_transpose n m (E : mat) : wf n m E -> cleanm E -> cleanm (transpose m E).
Proof.
move=> wE cE; apply/(all_nthP [::]) => j; rewrite /transpose size_mkseq => lj.
rewrite nth_mkseq //; apply: cleanm_col => // r rE.
by case/andP: wE => _ /allP h; rewrite (eqP (h _ rE)).
Qed.

(* normalising a positive multiple of a vector gives the normalised vector *)
Lemma normalize_scale k (c : R) (v : 'cV[R]_k) : 0 < c -> normalize (c *: v) = normalize v.
Proof.
move=> c0; rewrite /normalize dotZZ sqrtrM ?sqr_ge0 // sqrtr_sqr gtr0_norm // scalerA.
case: (altP (Num.sqrt (dot v v) =P 0)) => [->|nz]; first by rewrite mulr0 invr0 mul0r.
by rewrite invfM mulrAC mulVf ?gt_eqF // mul1r.
Qed.

Lemma zeros_cv k : cv_of k (zeros k : vec) = 0.
Proof. by apply/colP => i; rewrite !mxE nth_nseq if_same. Qed.

Theorem block_scoreE n m (E : mat) (t : vec) (sf : R) :
  wf n m E -> (0 < n)%N -> size t = n -> cleanm E -> cleanv t -> 0 < dot (cv_of n t) (cv_of n t) ->
  let pl := block_loadings E t in
  let pb := vnormalize pl in
  let tb := map (fun x => x / sf) (matvec_into E pb (zeros (size E))) in
  cleanv (matvec_into (transpose (ncols E) E) t (zeros (ncols E))) -> cleanv pl -> cleanv pb ->
  [/\ cv_of m pl = (dot (cv_of n t) (cv_of n t))^-1 *: ((mx_of n m E)^T *m cv_of n t),
      cv_of m pb = normalize ((mx_of n m E)^T *m cv_of n t) &
      cv_of n tb = sf^-1 *: (mx_of n m E *m normalize ((mx_of n m E)^T *m cv_of n t))].
Proof.
move=> wE n0 st cE ct tpos pl pb tb c0 cpl cpb.
have nc : ncols E = m := wf_ncols wE n0.
have sE : size E = n := wf_size wE.
have wT : wf m n (transpose m E) := wf_transpose wE.
have e0 : cv_of m (matvec_into (transpose m E) t (zeros m)) = (mx_of n m E)^T *m cv_of n t.
  rewrite (matvec_intoE wT st) ?size_nseq //; last exact: (cleanm_transpose wE cE).
  by rewrite zeros_cv add0r (transposeE wE).
have spl : size pl = m by rewrite /pl /block_loadings size_map size_matvec_into size_nseq.
have e1 : cv_of m pl = (dot (cv_of n t) (cv_of n t))^-1 *: ((mx_of n m E)^T *m cv_of n t).
  by rewrite /pl /block_loadings nc cv_of_scale e0 (vdot_dot ct ct st st).
have e2 : cv_of m pb = normalize ((mx_of n m E)^T *m cv_of n t).
  by rewrite /pb (vnormalizeE cpl spl) e1 normalize_scale // invr_gt0.
split=> //.
have spb : size pb = m by rewrite /pb /vnormalize size_map.
by rewrite /tb cv_of_scale sE (matvec_intoE wE spb) ?size_nseq // zeros_cv add0r e2.
Qed.
(* the rest of one pass, given the block scores TT (one row per block): super weights w = normalised TT t (the factor
   1/t't cancels), new super score t_new = TT' w = sum_b w_b t_b *)
Theorem cpca_pass_from_block_scores B n (Eb : seq mat) (sf t : vec) :
  let TT := block_scores Eb sf t in
  wf B n TT -> (0 < B)%N -> size t = n -> cleanm TT -> cleanv t -> 0 < dot (cv_of n t) (cv_of n t) ->
  let: (TT', w, t_new, mod_t) := cpca_pass Eb sf t in
  cleanv (map (fun x => x / vdot t t) (matvec_into TT t (zeros (size TT)))) -> cleanv w ->
  [/\ TT' = TT, mod_t = dot (cv_of n t) (cv_of n t),
      cv_of B w = normalize (mx_of B n TT *m cv_of n t) &
      cv_of n t_new = (mx_of B n TT)^T *m normalize (mx_of B n TT *m cv_of n t)].
Proof.
move=> TT wT B0 st cT ct tpos; rewrite /cpca_pass -/TT /= => cw0 cw.
have sT : size TT = B := wf_size wT.
have e0 : cv_of B (matvec_into TT t (zeros (size TT))) = mx_of B n TT *m cv_of n t.
  by rewrite sT (matvec_intoE wT st) ?size_nseq // zeros_cv add0r.
set w0 := map _ _ in cw0 cw *.
have sw0 : size w0 = B by rewrite /w0 size_map size_matvec_into size_nseq.
have ew : cv_of B (vnormalize w0) = normalize (mx_of B n TT *m cv_of n t).
  by rewrite (vnormalizeE cw0 sw0) /w0 cv_of_scale e0 (vdot_dot ct ct st st) normalize_scale // invr_gt0.
split=> //; first exact: (vdot_dot ct ct st st).
have wTt : wf n B (transpose (size t) TT) by rewrite st; apply: wf_transpose.
have sw : size (vnormalize w0) = B by rewrite /vnormalize size_map.
rewrite (matvec_intoE wTt sw) ?size_nseq ?st //; last by rewrite -st; apply: (cleanm_transpose (n := B)); rewrite ?st.
by rewrite zeros_cv add0r (transposeE wT) ew.
Qed.
End CpcaRefine.

(* the matrix form of the pass (B x n matrix of block scores) IS the sum over blocks of Spec/CpcaSpec.v *)
Section Identify.
Variable R : rcfType.
Variables (n B : nat) (mb : 'I_B -> nat).
Variable X : forall b : 'I_B, 'M[R]_(n, mb b).
Variable sf : 'I_B -> R.
Variable t : 'cV[R]_n.
Hypothesis t_pos : 0 < CpcaSpec.dot t t.
Definition tbm : 'M[R]_(B, n) := \matrix_(b, i) (CpcaSpec.tb X sf t b) i 0.
Lemma tbm_t b : (tbm *m t) b 0 = CpcaSpec.dot (CpcaSpec.tb X sf t b) t.
Proof. by rewrite /CpcaSpec.dot !mxE; apply: eq_bigr => i _; rewrite !mxE. Qed.
Lemma dot_uu : NipalsSpec.dot (tbm *m t) (tbm *m t) = \sum_b (CpcaSpec.dot (CpcaSpec.tb X sf t b) t) ^+ 2.
Proof. by rewrite /NipalsSpec.dot mxE; apply: eq_bigr => b _; rewrite mxE tbm_t expr2. Qed.
Theorem pass_is_spec_step : CpcaSpec.t_new X sf t = tbm^T *m NipalsSpec.normalize (tbm *m t).
Proof.
have tt0 : CpcaSpec.dot t t != 0 by rewrite gt_eqF.
apply/colP => i; rewrite /CpcaSpec.t_new summxE [RHS]mxE; apply: eq_bigr => b _.
rewrite [LHS]mxE [tbm^T _ _]mxE [tbm _ _]mxE /NipalsSpec.normalize [X in _ = _ * X]mxE tbm_t dot_uu.
rewrite mulrC; congr (_ * _).
rewrite /CpcaSpec.w /CpcaSpec.vnorm /CpcaSpec.v.
rewrite (eq_bigr (fun b => (CpcaSpec.dot (CpcaSpec.tb X sf t b) t) ^+ 2 / (CpcaSpec.dot t t) ^+ 2)); last first.
  by move=> c _; rewrite exprMn exprVn.
rewrite -mulr_suml sqrtrM ?sumr_ge0 // => [|c _]; last by rewrite sqr_ge0.
rewrite sqrtrV ?sqr_ge0 // sqrtr_sqr gtr0_norm //.
by rewrite invfM invrK mulrACA mulVf // mulr1 mulrC.
Qed.
End Identify.
