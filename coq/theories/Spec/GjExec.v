(* GjExec.v — C12 / C07: the EXECUTABLE Gauss–Jordan inversion (Exec/Algebra.v: gj_pivot, swap_rows,
   gj_step, gj_eliminate, gj_inverse — the model run against MatrixInversion) over any real closed
   field, every size: whenever no pivot vanishes, the matrix it returns is a left inverse of the
   input,  gj_inverse M * M = 1  (hence a two-sided inverse, Properties_C12.C12_inverse_two_sided).
   This closes the gap between the list-level code and the matrix-level statement of Spec/GJ.v. *)
From mathcomp Require Import all_ssreflect all_algebra.
From mathcomp Require Import zify.
From LS Require Import NumOps RcfOps Kernels Algebra.
Set Implicit Arguments. Unset Strict Implicit. Unset Printing Implicit Defensive.
Import Order.TTheory GRing.Theory Num.Theory.
Local Open Scope ring_scope.

Section GjExec.
Variable R : rcfType.
Local Existing Instance RcfOps.
Local Notation vec := (seq R).
Local Notation mat := (seq (seq R)).
Variable n : nat.
Variable M : mat.
Hypothesis wM : wf n n M.

(* an augmented row (a_0..a_{n-1} | b_0..b_{n-1}) keeps the relation  a = b * M *)
Definition rrel (r : vec) : Prop := forall c, (c < n)%N -> r`_c = \sum_(j < n) r`_(n + j) * (nth [::] M j)`_c.
Definition wfa2 (AI : mat) : Prop := size AI = n /\ forall i, (i < n)%N -> size (nth [::] AI i) = (n + n)%N.
Definition mrel (AI : mat) : Prop := forall i, (i < n)%N -> rrel (nth [::] AI i).

Lemma sizeM : size M = n. Proof. by case/andP: wM => /eqP. Qed.
Lemma rowM i : (i < n)%N -> size (nth [::] M i) = n.
Proof. by move=> li; case/andP: wM => /eqP s /all_nthP H; apply/eqP/H; rewrite s. Qed.

Lemma augment_ok : wfa2 (gj_augment M) /\ mrel (gj_augment M).
Proof.
rewrite /gj_augment sizeM; split.
  split; first by rewrite size_mkseq.
  by move=> i li; rewrite nth_mkseq // size_cat size_take rowM // ltnn size_mkseq.
move=> i li c lc; rewrite nth_mkseq // nth_cat size_take rowM // ltnn lc nth_take //.
rewrite (bigD1 (Ordinal li)) //= nth_cat size_take rowM // ltnn ltnNge leq_addr /= addKn nth_mkseq // eqxx mul1r.
rewrite big1 ?addr0 // => j; rewrite -val_eqE /= => ji.
by rewrite nth_cat size_take rowM // ltnn ltnNge leq_addr /= addKn nth_mkseq // eq_sym (negbTE ji) mul0r.
Qed.

(* ---- row exchange ---- *)
Lemma swap_rows_nth (AI : mat) a b i : size AI = n -> (i < n)%N ->
  nth [::] (swap_rows AI a b) i = nth [::] AI (if i == a then b else if i == b then a else i).
Proof.
move=> sA li; rewrite /swap_rows; case: (altP (a =P b)) => [->|_]; first by case: (altP (i =P b)) => [->|].
by rewrite nth_mkseq ?sA.
Qed.
Lemma size_swap_rows (AI : mat) a b : size (swap_rows AI a b) = size AI.
Proof. by rewrite /swap_rows; case: ifP => // _; rewrite size_mkseq. Qed.
Lemma swap_ok (AI : mat) a b : wfa2 AI -> mrel AI -> (a < n)%N -> (b < n)%N ->
  wfa2 (swap_rows AI a b) /\ mrel (swap_rows AI a b).
Proof.
move=> [sA rA] mA la lb.
have idx i : (i < n)%N -> ((if i == a then b else if i == b then a else i) < n)%N by move=> li; case: ifP => // _; case: ifP.
split; first split; first by rewrite size_swap_rows.
  by move=> i li; rewrite swap_rows_nth //; apply: rA; apply: idx.
by move=> i li; rewrite swap_rows_nth //; apply: mA; apply: idx.
Qed.

(* ---- pivot search ---- *)
Lemma gj_pivot_spec (AI : mat) k : (k < n)%N ->
  let l := gj_pivot n AI k in [/\ (k <= l)%N & (l < n)%N].
Proof.
move=> lk; rewrite /gj_pivot; set f := (fun piv j => _).
have H : forall s l0, (k <= l0)%N -> (l0 < n)%N -> (forall i, i \in s -> (k <= i < n)%N) ->
   (k <= foldl f l0 s)%N /\ (foldl f l0 s < n)%N.
  elim=> [|i s IH] l0 kl ln hs //=.
  have /andP[ki iN] : (k <= i < n)%N by apply: hs; rewrite inE eqxx.
  have hs' : forall j, j \in s -> (k <= j < n)%N by move=> j hj; apply: hs; rewrite inE hj orbT.
  have -> : f l0 i = if `|mget AI l0 k| < `|mget AI i k| then i else l0 by [].
  by case: ifP => _; apply: IH.
have hs : forall i, i \in iota k.+1 (n - k.+1) -> (k <= i < n)%N.
  by move=> i; rewrite mem_iota => /andP[ki]; rewrite subnKC // => ->; rewrite (ltnW ki).
by have [a b] := H _ k (leqnn k) lk hs.
Qed.

(* ---- one Gauss–Jordan step ---- *)
(* columns before k are cleared off the diagonal *)
Definition cleared (AI : mat) (k : nat) : Prop :=
  forall i j, (i < k)%N -> (j < n)%N -> j != i -> mget AI j i = 0.
Definition pivot_of (AI : mat) (k : nat) : R := mget (gj_step n AI k) k k.

Lemma gj_step_ok (AI : mat) k : wfa2 AI -> mrel AI -> cleared AI k -> (k < n)%N -> pivot_of AI k != 0 ->
  [/\ wfa2 (gj_step n AI k), mrel (gj_step n AI k) & cleared (gj_step n AI k) k.+1].
Proof.
move=> wA mA cA lk; rewrite /pivot_of /gj_step.
have [kl lN] := gj_pivot_spec AI lk.
set l := gj_pivot n AI k in kl lN *.
have [w1 m1] := swap_ok wA mA lk lN.
set A1 := swap_rows AI k l in w1 m1 *.
have [s1 r1] := w1; have [sA rA] := wA.
(* columns before k stay cleared after the exchange of two rows >= k *)
have c1 : cleared A1 k.
  move=> i j ik lj ji; rewrite /mget /A1 swap_rows_nth //.
  have ne x : (k <= x)%N -> x != i by move=> kx; apply/eqP => e; move: kx; rewrite e leqNgt ik.
  case: (altP (j =P k)) => [_|jk]; first by apply: cA => //; apply: ne.
  case: (altP (j =P l)) => [_|jl]; first by apply: cA => //; apply: ne.
  exact: cA.
set rk := nth [::] A1 k; set akk := rk`_k.
have nthE j : (j < n)%N -> nth [::] (mkseq (fun j0 => if j0 == k then nth [::] A1 j0 else
      [seq ksub ab.1 (kmul ab.2 (kdiv (nth k0 (nth [::] A1 j0) k) (nth k0 rk k))) | ab <- zip (nth [::] A1 j0) rk]) n) j =
    if j == k then nth [::] A1 j else [seq ab.1 - ab.2 * ((nth [::] A1 j)`_k / akk) | ab <- zip (nth [::] A1 j) rk].
  by move=> lj; rewrite nth_mkseq.
rewrite /mget nthE // eqxx -/rk -/akk => akk0.
have szrow j : (j < n)%N -> size [seq ab.1 - ab.2 * ((nth [::] A1 j)`_k / akk) | ab <- zip (nth [::] A1 j) rk] = (n + n)%N.
  by move=> lj; rewrite size_map size_zip /rk !r1 // minnn.
have entry j c : (j < n)%N -> (c < n + n)%N ->
   [seq ab.1 - ab.2 * ((nth [::] A1 j)`_k / akk) | ab <- zip (nth [::] A1 j) rk]`_c = (nth [::] A1 j)`_c - rk`_c * ((nth [::] A1 j)`_k / akk).
  by move=> lj lc; rewrite (nth_map (0, 0)) ?size_zip /rk ?r1 ?minnn // nth_zip ?r1.
split.
- split; first by rewrite size_mkseq.
  by move=> j lj; rewrite nthE //; case: ifP => _; [apply: r1 | apply: szrow].
- move=> j lj c lc; rewrite nthE //; case: ifP => _; first exact: m1.
  have lcn : (c < n + n)%N by apply: leq_trans lc (leq_addr _ _).
  rewrite entry // (m1 j lj c lc) (m1 k lk c lc) mulr_suml -sumrB.
  apply: eq_bigr => q _; rewrite entry ?ltn_add2l //.
  by rewrite mulrBl; congr (_ - _); rewrite mulrAC.
- move=> i j; rewrite ltnS leq_eqVlt => /orP[/eqP ->|ik] lj ji.
    rewrite /mget nthE // (negbTE ji) entry //; last by apply: leq_trans lk (leq_addr _ _).
    by rewrite -/akk mulrC divfK // subrr.
  rewrite /mget nthE //; case: ifP => [/eqP ejk|_]; first by apply: c1.
  rewrite entry //; last by apply: leq_trans (ltn_trans ik lk) (leq_addr _ _).
  have -> : (nth [::] A1 j)`_i = 0 by apply: c1.
  have -> : rk`_i = 0 by apply: (c1 i k) => //; apply/eqP => e; move: ik; rewrite e ltnn.
  by rewrite mul0r subr0.
Qed.

(* state after the first k steps *)
Definition state (k : nat) : mat := foldl (gj_step n) (gj_augment M) (iota 0 k).
Lemma stateS k : state k.+1 = gj_step n (state k) k.
Proof. by rewrite /state -addn1 iotaD add0n foldl_cat. Qed.

Lemma state_ok k : (k <= n)%N -> (forall i, (i < k)%N -> pivot_of (state i) i != 0) ->
  [/\ wfa2 (state k), mrel (state k) & cleared (state k) k].
Proof.
elim: k => [|k IH] lk piv.
  by have [a b] := augment_ok; split.
have [w m c] := IH (ltnW lk) (fun i li => piv i (ltnW li)).
by rewrite stateS; apply: gj_step_ok => //; apply: piv.
Qed.

(* the rows of the returned matrix, multiplied with M, are the unit vectors *)
Theorem gj_inverse_left : (forall i, (i < n)%N -> pivot_of (state i) i != 0) ->
  forall i c, (i < n)%N -> (c < n)%N ->
  \sum_(j < n) (nth [::] (gj_inverse M) i)`_j * (nth [::] M j)`_c = (i == c)%:R.
Proof.
move=> piv i c li lc.
have [[sS rS] mS cS] := state_ok (leqnn n) piv.
rewrite /gj_inverse /gj_eliminate sizeM -/(state n) nth_mkseq //.
set r := nth [::] (state n) i; set a := r`_i.
(* the diagonal entry is the pivot of step i: it is not touched by the later steps *)
have a0 : a != 0.
  have H : forall k, (i < k)%N -> (k <= n)%N -> mget (state k) i i = pivot_of (state i) i.
    elim=> [|k IH] // ik lk.
    move: ik; rewrite ltnS leq_eqVlt => /orP[/eqP <-|ik]; first by rewrite stateS.
    rewrite -(IH ik (ltnW lk)) stateS.
    have [[sk rk] mk ck] := state_ok (ltnW lk) (fun q lq => piv q (ltn_trans lq lk)).
    rewrite /gj_step /mget nth_mkseq //.
    have ne : (i == k) = false by apply/eqP => e; move: ik; rewrite e ltnn.
    rewrite ne.
    have [kl lN] := gj_pivot_spec (state k) lk.
    set l := gj_pivot n (state k) k in kl lN *.
    have rowi : nth [::] (swap_rows (state k) k l) i = nth [::] (state k) i.
      rewrite swap_rows_nth // ne; case: ifP => // /eqP e.
      by move: kl; rewrite -e leqNgt ik.
    have rowk_i : (nth [::] (swap_rows (state k) k l) k)`_i = 0.
      rewrite swap_rows_nth // eqxx; apply: (ck i l ik lN).
      by apply/eqP => e; move: kl; rewrite e leqNgt ik.
    rewrite (nth_map (0, 0)); last first.
      have [[s2 r2] _] := swap_ok (conj sk rk) mk lk lN.
      by rewrite size_zip !r2 // minnn; apply: leq_trans li (leq_addr _ _).
    have [[s2 r2] _] := swap_ok (conj sk rk) mk lk lN.
    by rewrite nth_zip ?r2 //= rowi rowk_i mul0r subr0.
  have e : a = pivot_of (state i) i by exact: (H n li (leqnn n)).
  by rewrite e; apply: piv.
have sr : size r = (n + n)%N by apply: rS.
have dropE j : (j < n)%N -> (drop n [seq kdiv x a | x <- r])`_j = r`_(n + j) / a.
  by move=> lj; rewrite nth_drop (nth_map 0) ?sr ?ltn_add2l.
rewrite (eq_bigr (fun j : 'I_n => (r`_(n + j) * (nth [::] M j)`_c) / a)); last first.
  by move=> j _; rewrite dropE // mulrAC.
rewrite -mulr_suml -(mS i li c lc).
case: (altP (i =P c)) => [<-|ic]; first by rewrite divff.
by have := cS c i lc li ic; rewrite /mget -/r => ->; rewrite mul0r.
Qed.

(* matrix form: gj_inverse M is a left inverse of M *)
Theorem gj_inverse_mx : (forall i, (i < n)%N -> pivot_of (state i) i != 0) ->
  mx_of n n (gj_inverse M) *m mx_of n n M = 1%:M.
Proof.
move=> piv; apply/matrixP => i c; rewrite !mxE.
rewrite (eq_bigr (fun j : 'I_n => (nth [::] (gj_inverse M) i)`_j * (nth [::] M j)`_c)); last by move=> j _; rewrite !mxE.
by rewrite gj_inverse_left // -val_eqE.
Qed.
End GjExec.
