(* GJ.v — Gauss–Jordan elimination without row exchange (matrix.c MatrixInversion) is sound
   whenever no pivot vanishes: the normalised right half N satisfies N *m M = 1. *)
From mathcomp Require Import all_ssreflect all_algebra.
From mathcomp Require Import ring.
Set Implicit Arguments. Unset Strict Implicit. Unset Printing Implicit Defensive.
Import Order.TTheory GRing.Theory Num.Theory.
Local Open Scope ring_scope.
Section GJ.
Variable F : fieldType.
Variable n : nat.
Implicit Types A B C M : 'M[F]_n.
(* one column step of matrix.c:1070-1079 (all rows r <> i at once; row i is not modified during
   the step, so the sequential j-loop computes exactly this) applied to either half of [A|B] *)
Definition cstep A (i : 'I_n) C : 'M[F]_n :=
  \matrix_(r, c) if r == i then C r c else C r c - (A r i / A i i) * C i c.
Definition gtail A (i : 'I_n) : 'M[F]_n :=
  \matrix_(r, s) (if (s == i) && (r != i) then A r i / A i i else 0).
Definition gauss A (i : 'I_n) : 'M[F]_n := 1%:M - gtail A i.
Lemma cstepE A i C : cstep A i C = gauss A i *m C.
Proof.
rewrite /gauss mulmxBl mul1mx; apply/matrixP => r c; rewrite !mxE.
rewrite (bigD1 i) //= big1 ?addr0; last first.
  by move=> s si; rewrite !mxE (negbTE si) mul0r.
rewrite !mxE eqxx /=.
by case: (altP (r =P i)) => [->|ri]; rewrite ?mul0r ?subr0.
Qed.
Definition step (st : option ('M[F]_n * 'M[F]_n)) (i : 'I_n) :=
  if st is Some (A, B) then (if A i i == 0 then None else Some (cstep A i A, cstep A i B)) else None.
Definition Inv M (s : seq 'I_n) (st : 'M[F]_n * 'M[F]_n) :=
  let (A, B) := st in
  [/\ B *m M = A, forall r c, c \in s -> r != c -> A r c = 0 & forall c, c \in s -> A c c != 0].
Lemma step_inv M s A B i A' B' : Inv M s (A, B) -> step (Some (A, B)) i = Some (A', B') ->
  Inv M (i :: s) (A', B').
Proof.
case=> BM clr dg; rewrite /step; case: ifP => // /negbT aii [<- <-]; split.
- by rewrite !cstepE -mulmxA BM.
- move=> r c; rewrite inE => /orP[/eqP->|cs] rc; rewrite !mxE.
    by rewrite (negbTE rc) divfK // subrr.
  move: rc; case: (altP (r =P i)) => [->|ri] rc; first by rewrite clr.
  rewrite (clr r c) // sub0r; case: (altP (i =P c)) => [ic|ic].
    by rewrite -ic in cs rc *; rewrite (clr r i) // mul0r mul0r oppr0.
  by rewrite (clr i c) // mulr0 oppr0.
- move=> c; rewrite inE => /orP[/eqP->|cs]; rewrite !mxE ?eqxx //.
  case: (altP (c =P i)) => [->|ci] //.
  have ic : i != c by rewrite eq_sym.
  by rewrite (clr i c cs ic) mulr0 subr0; exact: dg.
Qed.

(* the whole elimination over any list of pivots, then the row normalisation of matrix.c:1081-1086 *)
Definition gj_run M (s : seq 'I_n) := foldl (@step) (Some (M, 1%:M)) s.
Lemma foldl_none (s : seq 'I_n) : foldl (@step) None s = None.
Proof. by elim: s. Qed.
Lemma run_inv M (s s0 : seq 'I_n) A B A' B' : Inv M s0 (A, B) ->
  foldl (@step) (Some (A, B)) s = Some (A', B') -> Inv M (rev s ++ s0) (A', B').
Proof.
elim: s s0 A B => [|i s IH] s0 A B HI; first by case=> <- <-.
have -> : foldl (@step) (Some (A, B)) (i :: s) = foldl (@step) (step (Some (A, B)) i) s by [].
case st1: (step (Some (A, B)) i) => [[A1 B1]|]; last by rewrite foldl_none.
by move=> H; rewrite rev_cons cat_rcons; exact: (IH _ _ _ (step_inv HI st1) H).
Qed.
Definition normalise (A B : 'M[F]_n) : 'M[F]_n := \matrix_(r, c) (B r c / A r r).
Theorem gj_sound M A B : gj_run M (enum 'I_n) = Some (A, B) -> normalise A B *m M = 1%:M.
Proof.
move=> run.
have HI0 : Inv M [::] (M, 1%:M) by split=> //; rewrite mul1mx.
have [BM clr dg] := run_inv HI0 run.
apply/matrixP => r c; rewrite !mxE.
rewrite (eq_bigr (fun k => (A r r)^-1 * (B r k * M k c))); last first.
  by move=> k _; rewrite !mxE mulrAC mulrC mulrA.
rewrite -big_distrr /=.
have -> : \sum_k B r k * M k c = A r c by rewrite -BM mxE.
have allin (x : 'I_n) : x \in rev (enum 'I_n) ++ [::] by rewrite cats0 mem_rev mem_enum.
case: (altP (r =P c)) => [<-|rc]; first by rewrite mulVf // dg.
by rewrite (clr r c (allin c) rc) mulr0.
Qed.
End GJ.

