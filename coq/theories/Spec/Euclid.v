(* Euclid.v — inner products of column vectors over a real closed field: bilinearity,
   positivity, Cauchy–Schwarz. *)
From mathcomp Require Import all_ssreflect all_algebra.
From mathcomp Require Import ring.
Set Implicit Arguments. Unset Strict Implicit. Unset Printing Implicit Defensive.
Import Order.TTheory GRing.Theory Num.Theory.
Local Open Scope ring_scope.

(* ---------- Euclid: dot product and Cauchy-Schwarz ---------- *)
Section Euclid.
Variable R : rcfType.
Variable n : nat.
Implicit Types a b c : 'cV[R]_n.
Definition dot a b : R := \sum_i a i 0 * b i 0.
Lemma dotE a b : (a^T *m b) 0 0 = dot a b.
Proof. by rewrite mxE; apply: eq_bigr => i _; rewrite mxE. Qed.
Lemma dotM a b : a^T *m b = (dot a b)%:M.
Proof. by apply/matrixP=> i j; rewrite !ord1 [in RHS]mxE eqxx mulr1n dotE. Qed.
Lemma dotC a b : dot a b = dot b a.
Proof. by apply: eq_bigr => i _; rewrite mulrC. Qed.
Lemma dotDl a b c : dot (a + b) c = dot a c + dot b c.
Proof. by rewrite /dot -big_split /=; apply: eq_bigr => i _; rewrite mxE mulrDl. Qed.
Lemma dotZl x a b : dot (x *: a) b = x * dot a b.
Proof. by rewrite /dot big_distrr /=; apply: eq_bigr => i _; rewrite mxE mulrA. Qed.
Lemma dotNl a b : dot (- a) b = - dot a b.
Proof. by rewrite -scaleN1r dotZl mulN1r. Qed.
Lemma dot_ge0 a : 0 <= dot a a.
Proof. by apply: sumr_ge0 => i _; rewrite -expr2 sqr_ge0. Qed.
Lemma dot_eq0 a : (dot a a == 0) = (a == 0).
Proof.
apply/idP/idP; last by move/eqP->; rewrite /dot big1 // => i _; rewrite mxE mul0r.
rewrite psumr_eq0 => [/allP h|i _]; last by rewrite -expr2 sqr_ge0.
apply/eqP/colP => i; rewrite mxE; apply/eqP.
by have := h i (mem_index_enum _); rewrite -expr2 sqrf_eq0.
Qed.
Lemma dot0r a : dot a 0 = 0.
Proof. by rewrite /dot big1 // => i _; rewrite mxE mulr0. Qed.
Theorem cauchy_schwarz a b : (dot a b) ^+ 2 <= dot a a * dot b b.
Proof.
have [/eqP b0|bn0] := boolP (dot b b == 0).
  have -> : b = 0 by apply/eqP; rewrite -dot_eq0 b0.
  by rewrite !dot0r expr0n mulr0.
have bb : 0 < dot b b by rewrite lt0r bn0 dot_ge0.
pose x := dot a b / dot b b.
have := dot_ge0 (a - x *: b).
rewrite dotDl dotNl dotZl [dot a (a - _)]dotC [dot b (a - _)]dotC !dotDl !dotNl !dotZl.
rewrite [dot b a]dotC /x => h.
move: h; rewrite divfK // subrr mulr0 subr0 => h.
have -> : dot a a * dot b b = (dot a a - dot a b / dot b b * dot a b) * dot b b + dot a b ^+ 2.
  by field; rewrite lt0r_neq0.
by rewrite ler_addr mulr_ge0 // ltW.
Qed.
End Euclid.

(* ---------- PCA: decomposition theorems parametric in the inner loop ---------- *)
