(* SelectSpec.v — C17: the max-min selection returns the requested number of distinct, in-range
   object indices, whatever the distance function; two distance functions that agree give the
   same sequence (MaxDis vs MaxDis_Fast); every further element maximises the minimum distance
   to those already chosen. *)
From mathcomp Require Import all_ssreflect all_algebra.
From mathcomp Require Import zify.
From LS Require Import NumOps RcfOps Kernels Pca Select LdaSpec.
Set Implicit Arguments. Unset Strict Implicit. Unset Printing Implicit Defensive.
Import Order.TTheory GRing.Theory Num.Theory.

Section Generic.
Context {K : Type} {ops : NumOps K}.
Lemma size_remove_at (T : Type) j (l : seq T) : (j < size l)%N -> size (remove_at j l) = (size l).-1.
Proof.
by move=> jl; rewrite /remove_at size_cat size_take size_drop jl; lia.
Qed.
Lemma mem_remove_at (j : nat) (l : seq nat) x : x \in remove_at j l -> x \in l.
Proof. by rewrite /remove_at mem_cat => /orP[/mem_take|/mem_drop]. Qed.
Lemma remove_at_perm (j : nat) (l : seq nat) : (j < size l)%N ->
  perm_eq (nth 0%N l j :: remove_at j l) l.
Proof.
move=> jl; rewrite /remove_at -[X in perm_eq _ X](cat_take_drop j) (drop_nth 0%N jl).
by rewrite perm_sym -cat1s perm_catCA.
Qed.
Lemma argmax_lt (v : seq K) : (0 < size v)%N -> (argmax_first v < size v)%N.
Proof.
case: v => [|x v] // _; rewrite /argmax_first /=.
set st := (if _ then _ else _).
have : forall (l : seq K) b bj i, (bj < i)%N ->
   ((foldl (fun bi y => let: (b0, bj0, i0) := bi in if kltb b0 y then (y, i0, i0.+1) else (b0, bj0, i0.+1)) (b, bj, i) l).1.2 < i + size l)%N.
  elim=> [|y l IH] b bj i lt /=; first by rewrite addn0.
  by case: (kltb b y); rewrite -addSnnS; apply: IH => //; apply: ltnW.
move=> H; have -> : st = (x, 0%N, 1%N) by rewrite /st; case: (kltb x x).
by have := H v x 0%N 1%N isT; rewrite add1n.
Qed.

(* the selection: distinct, in range, of the requested length — for EVERY distance function *)
Theorem greedy_valid steps (d : nat -> nat -> K) (rem sel : seq nat) :
  uniq (rem ++ sel) ->
  let r := greedy steps d rem sel in
  [/\ uniq r, {subset r <= rem ++ sel} & size r = (size sel + minn steps (size rem))%N].
Proof.
elim: steps rem sel => [|steps IH] rem sel u /=.
  rewrite min0n addn0; split=> //.
  - by move: u; rewrite cat_uniq => /and3P[].
  - by move=> x xs; rewrite mem_cat xs orbT.
case: rem u => [|a rem] u.
  by rewrite minn0 addn0; split=> //; move=> x.
set rem0 := a :: rem; set j := argmax_first _.
have jl : (j < size rem0)%N by rewrite /j -[size rem0](size_map (fun i => min_over d i sel)); apply: argmax_lt; rewrite size_map.
have pm := remove_at_perm jl.
have pe : perm_eq (remove_at j rem0 ++ rcons sel (nth 0%N rem0 j)) (rem0 ++ sel).
  by rewrite -cats1 catA perm_catC cat1s -cat_cons perm_cat2r.
have u' : uniq (remove_at j rem0 ++ rcons sel (nth 0%N rem0 j)) by rewrite (perm_uniq pe).
have [ur sub sz] := IH _ _ u'; split=> //.
- by move=> x /sub; rewrite (perm_mem pe).
- by rewrite sz size_rcons size_remove_at // addSn -addnS /= minnSS.
Qed.

Lemma greedy_ext steps (d d' : nat -> nat -> K) rem sel : (forall i s, d i s = d' i s) ->
  greedy steps d rem sel = greedy steps d' rem sel.
Proof.
move=> e; elim: steps rem sel => [|steps IH] rem sel //=; case: rem => [|a rem] //.
have -> : map (fun i => min_over d i sel) (a :: rem) = map (fun i => min_over d' i sel) (a :: rem).
  apply: eq_map => i; rewrite /min_over; case: sel => [|s0 rest] //; rewrite e.
  by elim: rest (d' i s0) => [|s rest IHr] m //=; rewrite e IHr.
exact: IH.
Qed.
(* two implementations whose distance look-ups agree return the same sequence *)
Theorem select_maxmin_ext (d d' : nat -> nat -> K) X n : (forall i s, d i s = d' i s) ->
  select_maxmin d X n = select_maxmin d' X n.
Proof. by move=> e; rewrite /select_maxmin (greedy_ext _ _ _ e). Qed.

(* ---- k-means: structural facts valid in every number system (binary64 included) ------- *)
Local Notation ed := (fun (x c : seq K) => ksqrt (foldl (fun s xc => let e := ksub xc.1 xc.2 in kadd s (kmul e e)) k0 (zip x c))).
Local Notation nstep x := (fun (bk : K * nat * nat) (c : seq K) => let: (b, bi, k) := bk in
            let d := ed x c in
            if (k == 0)%N then (d, 0%N, 1%N) else if kltb d b then (d, k, k.+1) else (b, bi, k.+1)).
Lemma nearest_scan_lt x (l : seq (seq K)) b bi k : (bi < k)%N ->
  ((foldl (nstep x) (b, bi, k) l).1.2 < k + size l)%N.
Proof.
elim: l b bi k => [|c l IH] b bi k lt /=; first by rewrite addn0.
have k0' : (k == 0)%N = false by case: k lt.
by rewrite k0'; case: (kltb _ b); rewrite -addSnnS; apply: IH => //; apply: ltnW.
Qed.
(* every label produced by the labelling step is the index of a centroid *)
Lemma nearest_lt (cents : seq (seq K)) x : (0 < size cents)%N -> (nearest cents x < size cents)%N.
Proof.
case: cents => [|c l] // _; rewrite /nearest /=.
by have := @nearest_scan_lt x l (ed x c) 0%N 1%N isT; rewrite add1n.
Qed.
Lemma size_centroids_of X labels ncl C : centroids_of X labels ncl = Some C -> size C = ncl.
Proof. by rewrite /centroids_of; case: ifP => // _ [<-]; rewrite size_map size_mkseq. Qed.
(* each centroid returned by getCentroids is the mean of the objects carrying its label *)
Definition members (X : seq (seq K)) (labels : seq nat) (c : nat) : seq (seq K) :=
  map fst (filter (fun xl => xl.2 == c) (zip X labels)).
Definition mean_of (m : nat) (r : seq (seq K)) : seq K :=
  map (fun x => kdiv x (kofnat (size r))) (foldl (fun s x => map (fun sx => kadd sx.1 sx.2) (zip s x)) (zeros m) r).
Lemma centroids_of_mean X labels ncl C c : centroids_of X labels ncl = Some C -> (c < ncl)%N ->
  (0 < size (members X labels c))%N /\ nth [::] C c = mean_of (ncols X) (members X labels c).
Proof.
rewrite /centroids_of; case: ifP => // /negbT nh [<-] lt.
rewrite (nth_map [::]) ?size_mkseq // nth_mkseq //; split=> //.
move: nh; rewrite -all_predC => nh.
have := all_nthP [::] nh c; rewrite size_mkseq nth_mkseq // => /(_ lt) /=.
by rewrite -lt0n.
Qed.
(* what KMeans returns: either nothing was iterated, or the returned centroids are the means of
   the returned labelling and every label is the index of the nearest of the previous centroids,
   which the stopping rule compared with the returned ones *)
Definition kmeans_post (X : seq (seq K)) (ncl : nat) (l : seq nat) (c : seq (seq K)) : Prop :=
  exists old, [/\ centroids_of X l ncl = Some c, size old = ncl & l = map (nearest old) X].
Theorem kmeans_loop_post fuel it X cents old labels l c n :
  kmeans_loop fuel it X cents old labels = Some (l, c, n) ->
  (l = labels /\ c = cents /\ n = it) \/ kmeans_post X (size cents) l c.
Proof.
elim: fuel it cents old labels => [|fuel IH] it cents old labels /=.
  by case=> <- <- <-; left.
case: ifP => _; first by case=> <- <- <-; left.
case e: (centroids_of _ _ _) => [c'|] // /IH[[-> [-> _]]|].
  by right; exists cents; split.
by rewrite (size_centroids_of e); right.
Qed.
(* a run that starts at pass 0 (as KMeans does) always iterates at least once: whatever the start
   centroids and the scale of the data, what it returns is a labelling by nearest (previous)
   centroid together with the means of that labelling *)
Theorem kmeans_run_post fuel X cents old labels l c n :
  kmeans_loop fuel.+1 0 X cents old labels = Some (l, c, n) -> kmeans_post X (size cents) l c.
Proof.
rewrite /=.
case e: (centroids_of _ _ _) => [c'|] // /kmeans_loop_post[[-> [-> _]]|].
  by exists cents; split.
by rewrite (size_centroids_of e).
Qed.
Theorem kmeans_labels_in_range X ncl l c : (0 < ncl)%N -> kmeans_post X ncl l c ->
  size l = size X /\ all (fun k => (k < ncl)%N) l.
Proof.
move=> n0 [old [_ so ->]]; rewrite size_map; split=> //.
by rewrite all_map; apply/(all_nthP [::]) => i _ /=; rewrite -so; apply: nearest_lt; rewrite so.
Qed.
End Generic.

Section Optimal.
Local Open Scope ring_scope.
Variable R : rcfType.
Local Existing Instance RcfOps.
(* each step takes an object whose minimum distance to the already selected ones is maximal *)
Theorem greedy_step_optimal (d : nat -> nat -> R) (rem sel : seq nat) : (0 < size rem)%N ->
  let md := map (fun i => min_over d i sel) rem in
  let j := argmax_first md in
  (j < size rem)%N /\ all (fun y => y <= nth 0 md j) md.
Proof. by move=> r0 md j; have := @argmax_first_spec R md; rewrite size_map => /(_ r0). Qed.

(* min_over is the minimum of the distances to the selected objects *)
Lemma min_over_spec (d : nat -> nat -> R) i s0 (sel : seq nat) :
  all (fun s => min_over d i (s0 :: sel) <= d i s) (s0 :: sel) /\
  has (fun s => min_over d i (s0 :: sel) == d i s) (s0 :: sel).
Proof.
rewrite /min_over.
have H : forall (l p : seq nat) m, all (fun s => m <= d i s) p -> has (fun s => m == d i s) p ->
   let m' := foldl (fun m s => if kltb (d i s) m then d i s else m) m l in
   all (fun s => m' <= d i s) (p ++ l) /\ has (fun s => m' == d i s) (p ++ l).
  elim=> [|s l IH] p m ap hp /=; first by rewrite cats0.
  rewrite -cat_rcons; case: ltP => lt; apply: IH.
  - rewrite all_rcons lexx /=; apply/allP => y yp; apply: le_trans (ltW lt) _; exact: (allP ap).
  - by rewrite has_rcons eqxx.
  - by rewrite all_rcons lt.
  - by rewrite has_rcons hp orbT.
by have := H sel [:: s0] (d i s0); rewrite /= lexx eqxx; apply.
Qed.
(* the chosen object maximises, over the remaining ones, the minimum distance to the selected *)
Theorem maxmin_choice (d : nat -> nat -> R) (rem : seq nat) s0 (sel : seq nat) : (0 < size rem)%N ->
  let c := nth 0%N rem (argmax_first (map (fun i => min_over d i (s0 :: sel)) rem)) in
  c \in rem /\ forall i, i \in rem ->
     exists2 s, s \in s0 :: sel & forall s', s' \in s0 :: sel -> d i s <= d c s'.
Proof.
move=> r0 c; have [jl /allP mx] := greedy_step_optimal d (s0 :: sel) r0.
split; first exact: mem_nth.
move=> i ir; have [_ /hasP[s ss /eqP es]] := min_over_spec d i s0 sel.
exists s => // s' s's; rewrite -es.
have [/allP/(_ _ s's) le _] := min_over_spec d c s0 sel; apply: le_trans le.
have := mx (min_over d i (s0 :: sel)); rewrite (nth_map 0%N) //; apply.
by apply/mapP; exists i.
Qed.
(* the first object is one farthest from the centroid *)
Theorem far_away_spec (X : seq (seq R)) : (0 < size X)%N ->
  let dc := (fun r => ksqrt (foldl (fun s cx => let e := ksub cx.1 cx.2 in kadd s (kmul e e)) k0 (zip (centroid_of X) r))) in
  (far_away X < size X)%N /\ all (fun r => dc r <= dc (nth [::] X (far_away X))) X.
Proof.
move=> x0 dc; have := @argmax_first_spec R (map dc X); rewrite size_map => /(_ x0) [lt /allP mx].
split=> //; apply/allP => r rX; have := mx (dc r) (map_f _ rX).
by rewrite (nth_map [::]).
Qed.
(* the labelling step gives each object the index of a nearest centroid *)
Local Notation edR := (fun (x c : seq R) => ksqrt (foldl (fun s xc => let e := ksub xc.1 xc.2 in kadd s (kmul e e)) k0 (zip x c))).
Lemma nearest_scan x (p v : seq (seq R)) (b : R) (bi : nat) :
  (bi < size p)%N -> edR x (nth [::] p bi) = b -> all (fun c => b <= edR x c) p ->
  let: (b', bi', k') := foldl (fun (bk : R * nat * nat) (c : seq R) => let: (b, bi, k) := bk in
            let d := edR x c in
            if (k == 0)%N then (d, 0%N, 1%N) else if kltb d b then (d, k, k.+1) else (b, bi, k.+1)) (b, bi, size p) v in
  [/\ (bi' < size (p ++ v))%N, edR x (nth [::] (p ++ v) bi') = b' & all (fun c => b' <= edR x c) (p ++ v)].
Proof.
elim: v p b bi => [|c v IH] p b bi lt nb ab /=; first by rewrite cats0.
have -> : (size p == 0)%N = false by case: (size p) lt.
rewrite -cat_rcons; case: ltP => bx.
  have := IH (rcons p c) (edR x c) (size p); rewrite size_rcons; apply.
  - by [].
  - by rewrite nth_rcons ltnn eqxx.
  - rewrite all_rcons lexx /=; apply/allP => y yp; apply: le_trans (ltW bx) _; exact: (allP ab).
have := IH (rcons p c) b bi; rewrite size_rcons; apply.
- exact: ltnW.
- by rewrite nth_rcons lt.
- by rewrite all_rcons bx.
Qed.
Theorem nearest_spec (cents : seq (seq R)) x : (0 < size cents)%N ->
  (nearest cents x < size cents)%N /\ all (fun c => edR x (nth [::] cents (nearest cents x)) <= edR x c) cents.
Proof.
case: cents => [|c v] // _; rewrite /nearest [foldl _ _ _]/=.
have := @nearest_scan x [:: c] v _ 0%N isT erefl; rewrite /= lexx => /(_ isT).
by case: (foldl _ _ _) => [[b' bi'] k'] /= [lt nb ab]; rewrite nb.
Qed.
End Optimal.
