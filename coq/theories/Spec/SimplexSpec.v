(* SimplexSpec.v — C19: invariants of the executable Nelder–Mead model (Simplex.v), for EVERY
   objective function:
   (A) in every number system (binary64 included) each row of the simplex carries the objective
       value of its own point, so the optimiser reports exactly the objective at the point it
       returns;
   (B) over any real closed field the best value never increases: the returned value is not worse
       than the objective at any vertex of the initial simplex. *)
From mathcomp Require Import all_ssreflect all_algebra.
From LS Require Import NumOps RcfOps Kernels Simplex XSortSpec.
Set Implicit Arguments. Unset Strict Implicit. Unset Printing Implicit Defensive.

Section Generic.
Context {K : Type} {ops : NumOps K}.
Variable func : seq K -> K.
Local Notation row := (seq K * K)%type.
Definition allp (T : Type) (P : T -> Prop) (s : seq T) : Prop := foldr (fun r acc => P r /\ acc) True s.
Lemma allp_cat T (P : T -> Prop) s1 s2 : allp P (s1 ++ s2) <-> allp P s1 /\ allp P s2.
Proof. by elim: s1 => [|x s IH] /=; [tauto | rewrite IH; tauto]. Qed.
Lemma allp_take T (P : T -> Prop) n s : allp P s -> allp P (take n s).
Proof. by elim: s n => [|x s IH] [|n] //= [px ps]; split=> //; apply: IH. Qed.
Lemma allp_rcons T (P : T -> Prop) s x : allp P (rcons s x) <-> allp P s /\ P x.
Proof. by rewrite -cats1 allp_cat /=; tauto. Qed.
Lemma allp_nth T (P : T -> Prop) d s i : allp P s -> i < size s -> P (nth d s i).
Proof. by elim: s i => [|x s IH] [|i] //=; [case | case=> px ps lt; apply: IH]. Qed.
(* the exchange sort only rearranges: whatever holds of every element still does, sizes are kept *)
Lemma xs_inner_allp T (sw : T -> T -> bool) (P : T -> Prop) x rest : P x -> allp P rest ->
  let: (m, r') := xs_inner sw x rest in [/\ P m, allp P r' & size r' = size rest].
Proof.
elim: rest x => [|y r IH] x px //= [py pr].
case: (sw x y).
  by case: (xs_inner sw y r) (IH y py pr) => m r' [pm pr' sz]; split=> //=; rewrite sz.
by case: (xs_inner sw x r) (IH x px pr) => m r' [pm pr' sz]; split=> //=; rewrite sz.
Qed.
Lemma xsort_allp T (sw : T -> T -> bool) (P : T -> Prop) n l : allp P l -> allp P (xsort sw n l) /\ size (xsort sw n l) = size l.
Proof.
elim: n l => [|n IH] [|x rest] //= [px pr].
case: (xs_inner sw x rest) (xs_inner_allp sw px pr) => m r' [pm pr' sz].
by have [a b] := IH r' pr'; split=> /=; rewrite ?b ?sz.
Qed.

Definition good (r : row) : Prop := r.2 = func r.1.
Lemma sort_rows_good s : allp good s -> allp good (sort_rows s) /\ size (sort_rows s) = size s.
Proof. exact: xsort_allp. Qed.
Lemma replace_last_good s r : allp good s -> good r -> allp good (replace_last s r).
Proof. by move=> gs gr; rewrite /replace_last allp_rcons; split=> //; apply: allp_take. Qed.
Lemma size_replace_last s (r : row) : 0 < size s -> size (replace_last s r) = size s.
Proof. by case: s => // x s _; rewrite /replace_last size_rcons size_take /= ltnSn. Qed.
Lemma shrink_good s delta : allp good (shrink func s delta) /\ size (shrink func s delta) = size s.
Proof.
case: s => [|r0 rest] //=; split; last by rewrite !size_map.
by split=> //; elim: rest => [|r rest IH].
Qed.
Lemma nm_step_good dim beta gamma delta s : allp good s -> 0 < size s ->
  allp good (nm_step func dim beta gamma delta s) /\ size (nm_step func dim beta gamma delta s) = size s.
Proof.
move=> gs s0; rewrite /nm_step.
set c := centroid _ _; set xr := vmap2 _ c _; set xe := vmap2 _ c xr; set xoc := vmap2 _ c xr; set xic := vmap2 _ c xr.
have rl r : good r -> allp good (replace_last s r) /\ size (replace_last s r) = size s.
  by move=> gr; split; [exact: replace_last_good | exact: size_replace_last].
have sh := shrink_good s delta.
set s' := (if _ then _ else _).
suff [gs' ss'] : allp good s' /\ size s' = size s by have [a b] := sort_rows_good gs'; rewrite b.
rewrite /s'; do ![case: ifP => _]; try exact: rl; try exact: sh; by [].
Qed.
Lemma nm_loop_good iter dim beta gamma delta xtol s : allp good s -> 0 < size s ->
  allp good (nm_loop func iter dim beta gamma delta xtol s) /\ 0 < size (nm_loop func iter dim beta gamma delta xtol s).
Proof.
elim: iter s => [|iter IH] s gs s0 //=.
have [g1 sz1] := nm_step_good dim beta gamma delta gs s0.
by case: ifP => _; [rewrite sz1 | apply: IH; rewrite ?sz1].
Qed.
Lemma nm_init_good x0 step : allp good (nm_init func x0 step) /\ size (nm_init func x0 step) = (size x0).+1.
Proof.
rewrite /nm_init; set pts := mkseq _ _.
have g : allp good [seq (p, func p) | p <- pts] by elim: pts => [|p l IH].
by have [a b] := sort_rows_good g; rewrite b size_map size_mkseq.
Qed.
(* (A) the optimiser reports the objective value of the point it returns *)
Theorem nm_reports_its_value x0 step xtol iter :
  (nelder_mead func x0 step xtol iter).2 = func (nelder_mead func x0 step xtol iter).1.
Proof.
rewrite /nelder_mead; set s := nm_loop _ _ _ _ _ _ _ _.
have [gi si] := nm_init_good x0 step.
have [gs ss] : allp good s /\ 0 < size s by apply: nm_loop_good => //; rewrite si.
by rewrite -nth0; apply: (allp_nth _ gs).
Qed.
End Generic.

Section Monotone.
Import Order.TTheory GRing.Theory Num.Theory.
Local Open Scope ring_scope.
Variable R : rcfType.
Local Existing Instance RcfOps.
Variable func : seq R -> R.
Local Notation row := (seq R * R)%type.
Local Notation le2 := (fun a b : row => a.2 <= b.2).
Local Notation d0 := (([::], 0) : row).

Lemma sort_rows_perm (s : seq row) : perm_eq (sort_rows s) s.
Proof. exact: (@xsort_perm R [eqType of row] snd). Qed.
Lemma sort_rows_sorted (s : seq row) : sorted le2 (sort_rows s).
Proof. exact: (@xsort_sorted R [eqType of row] snd). Qed.
Lemma head_min (s : seq row) r : sorted le2 s -> r \in s -> (head d0 s).2 <= r.2.
Proof.
case: s => [|x s] //= pth; rewrite inE => /orP[/eqP -> //|rs].
have tr : transitive le2 by move=> a b c /=; apply: le_trans.
by have /allP := order_path_min tr pth; apply.
Qed.
Lemma head_sorted_le (s' : seq row) r : r \in s' -> (head d0 (sort_rows s')).2 <= r.2.
Proof. by move=> rs; apply: head_min (sort_rows_sorted s') _; rewrite (perm_mem (sort_rows_perm s')). Qed.

(* one step keeps the best row in the simplex, so the best value cannot increase *)
Lemma nm_step_best dim beta gamma delta (s : seq row) : allp (good func) s -> (1 < size s)%N ->
  (head d0 (nm_step func dim beta gamma delta s)).2 <= (head d0 s).2.
Proof.
move=> gs s2; rewrite /nm_step.
set s' := (if _ then _ else _).
apply: head_sorted_le.
case: s gs s2 @s' => [|r0 [|r1 rest]] //= [g0 _] _.
have inrl r : r0 \in replace_last [:: r0, r1 & rest] r by rewrite /replace_last /= inE eqxx.
have insh : r0 \in shrink func [:: r0, r1 & rest] delta.
  by rewrite /shrink inE; apply/orP; left; rewrite -g0; case: (r0).
by do ![case: ifP => _] => //; rewrite inE eqxx.
Qed.
Lemma nm_loop_best iter dim beta gamma delta xtol (s : seq row) : allp (good func) s -> (1 < size s)%N ->
  (head d0 (nm_loop func iter dim beta gamma delta xtol s)).2 <= (head d0 s).2.
Proof.
elim: iter s => [|iter IH] s gs s2 //=.
have s0 : (0 < size s)%N by apply: ltn_trans s2.
have [g1 sz1] := nm_step_good dim beta gamma delta gs s0.
have b1 := nm_step_best dim beta gamma delta gs s2.
case: ifP => _ //; apply: le_trans b1; apply: IH => //; by rewrite sz1.
Qed.
(* (B) the value returned is not worse than the objective at any vertex of the initial simplex *)
Theorem nm_not_worse_than_start x0 step xtol iter j : (0 < size x0)%N -> (j <= size x0)%N ->
  let p := mkseq (fun k => if j == k.+1 then (x0`_k + step`_k) else x0`_k) (size x0) in
  (nelder_mead func x0 step xtol iter).2 <= func p.
Proof.
move=> x00 jle; set p := mkseq _ _; rewrite /= /nelder_mead.
have [gi si] := nm_init_good func x0 step.
apply: le_trans (nm_loop_best _ _ _ _ _ _ gi _) _; first by rewrite si.
rewrite /nm_init; set pts := mkseq _ _.
have -> : func p = ((p, func p) : row).2 by [].
apply: head_sorted_le; apply/mapP; exists p => //.
by apply/mapP; exists j => //; rewrite mem_iota add0n ltnS.
Qed.
End Monotone.
