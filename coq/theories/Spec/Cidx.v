(* Cidx.v — the condensed-distance index map is injective on the strict upper triangle and
   lands in [0, n(n-1)/2): with the counting argument this is a bijection. *)
From Coq Require Import ZArith Lia List.
Local Open Scope Z_scope.
(* metricspace.c:292-309, branch i <> j with jj = min, ii = max; arithmetic is on size_t but no
   intermediate value is negative for jj < ii < n, so Z and size_t agree below 2^64 *)
Definition tri (j : Z) := j * (j + 1) / 2.
Definition cidx_spec (n jj ii : Z) := n * jj - tri jj + ii - 1 - jj.
Lemma tri2 j : 0 <= j -> 2 * tri j = j * (j + 1).
Proof.
intros Hj. unfold tri.
assert (E : (j * (j + 1)) mod 2 = 0).
{ rewrite Z.mul_mod by lia. destruct (Z.mod_pos_bound j 2 ltac:(lia)) as [a b].
  assert (j mod 2 = 0 \/ j mod 2 = 1) as [e|e] by lia.
  - rewrite e. reflexivity.
  - replace ((j + 1) mod 2) with 0. { rewrite e. reflexivity. }
    rewrite Z.add_mod by lia. rewrite e. reflexivity. }
pose proof (Z.div_mod (j * (j + 1)) 2 ltac:(lia)). lia.
Qed.
Lemma tri_succ j : 0 <= j -> tri (j + 1) = tri j + j + 1.
Proof. intros Hj. pose proof (tri2 j Hj). pose proof (tri2 (j + 1) ltac:(lia)). nia. Qed.
(* start of block jj: index of the pair (jj, jj+1) *)
Definition start (n j : Z) := n * j - tri j.
Lemma cidx_start n j i : cidx_spec n j i = start n j + (i - j - 1).
Proof. unfold cidx_spec, start. lia. Qed.
Lemma start_succ n j : 0 <= j -> start n (j + 1) = start n j + (n - 1 - j).
Proof. intros Hj. unfold start. rewrite tri_succ by lia. lia. Qed.
Lemma start_mono n j d : 0 <= j -> 0 <= d -> j + d <= n - 1 ->
  start n j + d * (n - 1 - (j + d)) <= start n (j + d) /\ start n j <= start n (j + d).
Proof.
intros Hj Hd. pattern d. apply natlike_ind; [ | | exact Hd].
- intros. replace (j + 0) with j by lia. lia.
- intros x Hx IH Hb. replace (j + Z.succ x) with ((j + x) + 1) by lia.
  rewrite start_succ by lia. specialize (IH ltac:(lia)). nia.
Qed.
Lemma start_next_le n j j' : 0 <= j -> j < j' -> j' <= n - 1 -> start n (j + 1) <= start n j'.
Proof.
intros Hj Hlt Hb. replace j' with ((j + 1) + (j' - (j + 1))) by lia.
apply (start_mono n (j + 1) (j' - (j + 1))); lia.
Qed.
Theorem cidx_injective n j i j' i' :
  0 <= j < i -> i < n -> 0 <= j' < i' -> i' < n -> cidx_spec n j i = cidx_spec n j' i' -> j = j' /\ i = i'.
Proof.
intros H1 H2 H3 H4. rewrite !cidx_start. intros E.
assert (j = j') as ->.
{ destruct (Z.lt_trichotomy j j') as [L|[L|L]]; [exfalso| exact L | exfalso].
  - pose proof (start_next_le n j j' ltac:(lia) L ltac:(lia)) as M. rewrite start_succ in M by lia. lia.
  - pose proof (start_next_le n j' j ltac:(lia) L ltac:(lia)) as M. rewrite start_succ in M by lia. lia. }
split; [reflexivity | lia].
Qed.
Theorem cidx_range n j i : 0 <= j < i -> i < n -> 0 <= cidx_spec n j i < n * (n - 1) / 2.
Proof.
intros H1 H2. rewrite cidx_start.
assert (S0 : 0 <= start n j).
{ pose proof (start_mono n 0 j ltac:(lia) ltac:(lia) ltac:(lia)) as [_ M]. unfold start at 1 in M.
  replace (tri 0) with 0 in M by reflexivity. replace (0 + j) with j in M by lia. lia. }
assert (E : start n (n - 1) = n * (n - 1) / 2).
{ unfold start. pose proof (tri2 (n - 1) ltac:(lia)) as T.
  assert (2 * (n * (n - 1) - tri (n - 1)) = n * (n - 1)) by nia.
  apply Z.div_unique_exact; lia. }
split; [lia|]. rewrite <- E.
pose proof (start_next_le n j (n - 1)) as M.
destruct (Z.eq_dec (j + 1) (n - 1)) as [e|ne].
- rewrite <- e. rewrite start_succ by lia. lia.
- specialize (M ltac:(lia) ltac:(lia) ltac:(lia)). rewrite start_succ in M by lia. lia.
Qed.


(* removing the explicit wrap-around of the generated definitions *)
Definition wrap_spec (w x : Z) := x mod 2 ^ w.
Ltac unwrap_innermost tac :=
  repeat match goal with
  | |- context [?a mod ?b] =>
      lazymatch a with context [_ mod _] => fail | _ => rewrite (Z.mod_small a b) by tac end
  end.
