(* DetLink.v — C12: the EXECUTABLE determinant of the model (Algebra.mdet: the transcription
   of MatrixDeterminant with its 1x1 and 2x2 shortcuts and explicit fuel, the code that is run
   against the library) equals, over any real closed field and for every size n >= 1, the
   Laplace recursion Det.mdet — hence \det. *)
From mathcomp Require Import all_ssreflect all_algebra.
From mathcomp Require Import ring.
From LS Require Import NumOps RcfOps Kernels Algebra Det.
Set Implicit Arguments. Unset Strict Implicit. Unset Printing Implicit Defensive.
Import Order.TTheory GRing.Theory Num.Theory.
Local Open Scope ring_scope.

Section Link.
Variable R : rcfType.
Local Existing Instance RcfOps.
Implicit Types M : seq (seq R).

Lemma minor0E M k : minor0 M k = Det.minor M k. Proof. by []. Qed.
Lemma mgetE M i j : mget M i j = (nth [::] M i)`_j. Proof. by []. Qed.
Lemma foldl_sum (f : nat -> R) n a : foldl (fun d k => d + f k) a (iota 0 n) = a + \sum_(0 <= k < n) f k.
Proof.
rewrite /index_iota subn0; elim: (iota 0 n) a => [|k l IH] a /=; first by rewrite big_nil addr0.
by rewrite IH big_cons addrA.
Qed.
Lemma size_minor n M k : Det.wf n.+1 n.+1 M -> size (Det.minor M k) = n.
Proof. by case/andP => /eqP sz _; rewrite /Det.minor size_map size_behead sz. Qed.

Theorem mdet_fE fuel n M : Det.wf n.+1 n.+1 M -> (n < fuel)%N -> mdet_f fuel M = Det.mdet n.+1 M.
Proof.
elim: fuel n M => [|fuel IH] n M wfM lt //.
have sz : size M = n.+1 by case/andP: wfM => /eqP.
case: n wfM lt sz => [|[|n]] wfM lt sz.
- by rewrite /= sz /= big_nat1 expr0 mul1r mulr1 mgetE.
- rewrite /= sz [RHS]big_nat_recl // !big_nat1 /= expr0 expr1 !mul1r !mulr1 !mgetE.
  have [r0 [r1 ->]] : exists r0 r1, M = [:: r0; r1] by case: M sz {wfM} => [|a [|b [|? ?]]] //; exists a, b.
  rewrite /Det.minor /Det.del /= !nth_cat /=.
  by case: r1 => [|a [|b r]] /=; rewrite mulN1r mulNr [_ * r0`_1]mulrC.
- rewrite [LHS]/mdet_f -/mdet_f sz foldl_sum add0r [RHS]/=; apply: eq_big_nat => k /andP[_ kn].
  rewrite minor0E (IH n.+1) //; last exact: wf_minor.
  by rewrite mgetE; case: (odd k) (signr_odd R k) => /= <-; rewrite ?expr1 ?expr0.
Qed.
Theorem exec_mdetE n M : Det.wf n.+1 n.+1 M -> Algebra.mdet M = \det (Det.mx_of n.+1 n.+1 M).
Proof.
move=> wfM; rewrite /Algebra.mdet -mdetE //; apply: mdet_fE => //.
by case/andP: wfM => /eqP ->.
Qed.
End Link.
