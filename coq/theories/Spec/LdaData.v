(* LdaData.v — C08: the chain from the DATA to the invariance of the discriminant-score differences, at matrix level over any
   real closed field.  With the grand mean and the scatter about it as lda.c forms them (Sw = (1/n) sum_i (x_i - mean)(x_i - mean)',
   see Exec/Lda.v), an invertible affine map x -> A x + c of all objects maps the grand mean and every class mean the same way
   and the scatter to A S A', hence its inverse to A^-T S^-1 A^-1 — which is exactly the hypothesis of
   LdaSpec.affine_invariance.  So the score differences computed from transformed training and test data equal those computed
   from the original data. *)
From mathcomp Require Import all_ssreflect all_algebra.
From LS Require Import NumOps RcfOps Kernels LdaSpec.
Set Implicit Arguments. Unset Strict Implicit. Unset Printing Implicit Defensive.
Import Order.TTheory GRing.Theory Num.Theory.
Local Open Scope ring_scope.

Section LdaData.
Variable R : rcfType.
Variables n m : nat.
Hypothesis n_pos : (0 < n)%N.
Implicit Types (X : 'M[R]_(n, m)) (A : 'M[R]_m) (c x : 'cV[R]_m) (w : 'cV[R]_n).

Definition ones : 'cV[R]_n := const_mx 1.
(* weighted mean of the rows (as a column): class means use the 0/1 indicator of the class, the grand mean uses all ones *)
Definition wsum w : R := (w^T *m ones) 0 0.
Definition wmean w X : 'cV[R]_m := (wsum w)^-1 *: (X^T *m w).
Definition gmean X : 'cV[R]_m := wmean ones X.
Definition centred X : 'M[R]_(n, m) := X - ones *m (gmean X)^T.
Definition scatter X : 'M[R]_m := n%:R^-1 *: ((centred X)^T *m centred X).
(* every object x_i replaced by A x_i + c *)
Definition amap A c X : 'M[R]_(n, m) := X *m A^T + ones *m c^T.

Lemma onesT_w w : ones^T *m w = (wsum w)%:M.
Proof.
apply/matrixP => i j; rewrite !ord1 /wsum !mxE eqxx mulr1n; apply: eq_bigr => k _.
by rewrite !mxE mulrC.
Qed.

Lemma wmean_amap A c w X : wsum w != 0 -> wmean w (amap A c X) = A *m wmean w X + c.
Proof.
move=> w0; rewrite /wmean /amap linearD /= !trmx_mul !trmxK mulmxDl -!mulmxA onesT_w.
rewrite scalerDr -scalemxAr; congr (_ + _).
by rewrite mul_mx_scalar scalerA mulVf // scale1r.
Qed.

Lemma wsum_ones : wsum ones = n%:R.
Proof. by rewrite /wsum !mxE (eq_bigr (fun _ => 1)) ?sumr_const ?card_ord // => i _; rewrite !mxE mulr1. Qed.
Lemma nR0 : n%:R != 0 :> R. Proof. by rewrite pnatr_eq0 -lt0n. Qed.

Lemma gmean_amap A c X : gmean (amap A c X) = A *m gmean X + c.
Proof. by apply: wmean_amap; rewrite wsum_ones nR0. Qed.

Lemma centred_amap A c X : centred (amap A c X) = centred X *m A^T.
Proof.
rewrite /centred gmean_amap /amap linearD /= trmx_mul mulmxDr mulmxBl -mulmxA.
by rewrite opprD addrACA subrr addr0.
Qed.

Theorem scatter_amap A c X : scatter (amap A c X) = A *m scatter X *m A^T.
Proof. by rewrite /scatter centred_amap trmx_mul trmxK -!scalemxAr -scalemxAl !mulmxA. Qed.

Lemma scatter_sym X : (scatter X)^T = scatter X.
Proof. by rewrite /scatter linearZ /= trmx_mul trmxK. Qed.

(* the inverse scatter of the transformed data is the contragredient image of the inverse scatter *)
Lemma inv_scatter_amap A c X : A \in unitmx -> scatter X \in unitmx ->
  invmx (scatter (amap A c X)) = (invmx A)^T *m invmx (scatter X) *m invmx A.
Proof.
move=> uA uS; rewrite scatter_amap; set S := scatter X.
have e : ((invmx A)^T *m invmx S *m invmx A) *m (A *m S *m A^T) = 1%:M.
  rewrite !mulmxA -[_ *m invmx A *m A]mulmxA mulVmx // mulmx1 -[_ *m invmx S *m S]mulmxA mulVmx // mulmx1.
  by rewrite -trmx_mul mulmxV // trmx1.
have [_ uB] := mulmx1_unit e.
by rewrite -[LHS]mul1mx -e -mulmxA mulmxV // mulmx1.
Qed.

(* from the data to the score differences: classes k and j given by their indicator (weight) vectors *)
Theorem lda_data_invariance A c X (wk wj : 'cV[R]_n) x : A \in unitmx -> scatter X \in unitmx ->
  wsum wk != 0 -> wsum wj != 0 ->
  let X' := amap A c X in let x' := A *m x + c in
  let C := invmx (scatter X) in let C' := invmx (scatter X') in
  score C' (wmean wk X') x' - score C' (wmean wj X') x' = score C (wmean wk X) x - score C (wmean wj X) x.
Proof.
move=> uA uS k0 j0 X' x' C C'.
rewrite /C' /X' inv_scatter_amap // !wmean_amap //.
by apply: affine_invariance => //; rewrite trmx_inv scatter_sym.
Qed.
End LdaData.
