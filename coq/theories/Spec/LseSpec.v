(* LseSpec.v — C12: theorems about the executable model of SolveLSE (Exec/Lse.v) over any real
   closed field, for every size:
   (A) the pre-pass and every elimination step keep the solution set of the augmented system;
   (B) after the elimination the coefficient part is upper triangular (whatever the matrix: a zero
       pivot under partial pivoting means the whole remaining column is zero);
   (C) back substitution on an upper triangular system with non-zero diagonal returns a solution,
       whatever the solution vector held before;
   so: when no pivot of the eliminated system is zero, solve_lse returns THE solution of A x = b. *)
From mathcomp Require Import all_ssreflect all_algebra.
From mathcomp Require Import zify.
From LS Require Import NumOps RcfOps Kernels Lse.
Set Implicit Arguments. Unset Strict Implicit. Unset Printing Implicit Defensive.
Import Order.TTheory GRing.Theory Num.Theory.
Local Open Scope ring_scope.

Section LseSpec.
Variable R : rcfType.
Local Existing Instance RcfOps.
Local Notation vec := (seq R).
Local Notation mat := (seq (seq R)).
Variable n : nat.

(* a row (a_0 .. a_{n-1} | c) is satisfied by x *)
Definition rsat (x r : vec) : Prop := \sum_(j < n) r`_j * x`_j = r`_n.
Definition msat (X : mat) (x : vec) : Prop := forall i, (i < size X)%N -> rsat x (nth [::] X i).
Definition wfa (X : mat) : Prop := size X = n /\ forall i, (i < n)%N -> size (nth [::] X i) = n.+1.

(* ---- row exchange ---- *)
Lemma size_swap2 (X : mat) a b : size (swap2 X a b) = size X.
Proof. by rewrite /swap2 size_mkseq. Qed.
Lemma nth_swap2 (X : mat) a b i : (i < size X)%N ->
  nth [::] (swap2 X a b) i = nth [::] X (if i == a then b else if i == b then a else i).
Proof. by move=> lt; rewrite /swap2 nth_mkseq. Qed.
Lemma msat_swap2 (X : mat) a b x : (a < size X)%N -> (b < size X)%N -> msat (swap2 X a b) x <-> msat X x.
Proof.
move=> la lb; split=> H i; rewrite ?size_swap2 => li.
- have := H (if i == a then b else if i == b then a else i).
  rewrite size_swap2 nth_swap2; last by case: ifP => // _; case: ifP.
  have -> : (if (if i == a then b else if i == b then a else i) == a then b
             else if (if i == a then b else if i == b then a else i) == b then a
             else (if i == a then b else if i == b then a else i)) = i.
    case: (altP (i =P a)) => [->|ia]; first by case: (altP (b =P a)) => [->|_] //; rewrite eqxx.
    case: (altP (i =P b)) => [->|ib]; first by rewrite eqxx.
    by rewrite (negbTE ia) (negbTE ib).
  by apply; case: ifP => // _; case: ifP.
- by rewrite nth_swap2 //; apply: H; case: ifP => // _; case: ifP.
Qed.
Lemma wfa_swap2 (X : mat) a b : wfa X -> (a < n)%N -> (b < n)%N -> wfa (swap2 X a b).
Proof.
move=> [sX rX] la lb; split; first by rewrite size_swap2.
by move=> i li; rewrite nth_swap2 ?sX //; apply: rX; case: ifP => // _; case: ifP.
Qed.

(* ---- pre-pass ---- *)
Lemma lse_pre_k_ok (X : mat) k x : wfa X -> (k < n)%N ->
  wfa (lse_pre_k X k) /\ (msat (lse_pre_k X k) x <-> msat X x).
Proof.
move=> wX lk; rewrite /lse_pre_k; case: ifP => // _.
case e: [seq _ <- _ | _] => [|i s] //.
have : i \in [seq i <- iota 0 (size X) | ~~ near0 (mget X i k)] by rewrite e inE eqxx.
rewrite mem_filter mem_iota add0n => /andP[_ /andP[_ li]].
have [sX _] := wX; rewrite sX in li.
by split; [apply: wfa_swap2 | apply: msat_swap2; rewrite sX].
Qed.
Lemma lse_pre_ok (X : mat) x : wfa X -> wfa (lse_pre X) /\ (msat (lse_pre X) x <-> msat X x).
Proof.
move=> wX; rewrite /lse_pre; have [sX _] := wX; rewrite sX.
have : forall k, k \in iota 0 n -> (k < n)%N by move=> k; rewrite mem_iota add0n => /andP[].
elim: (iota 0 n) X wX {sX} => [|k s IH] X wX hk //=.
have lk : (k < n)%N by apply: hk; rewrite inE eqxx.
have [w1 e1] := lse_pre_k_ok x wX lk.
have [w2 e2] := IH _ w1 (fun j hj => hk j (mem_behead (s := k :: s) hj)).
by split=> //; rewrite e2.
Qed.

(* ---- one elimination of a row ---- *)
Lemma lse_elim_row_sat (rk ri : vec) k x : size rk = n.+1 -> size ri = n.+1 -> rsat x rk ->
  size (lse_elim_row rk ri k) = n.+1 /\ (rsat x (lse_elim_row rk ri k) <-> rsat x ri).
Proof.
move=> sk si satk; rewrite /lse_elim_row; case: ifP => // _.
set t := (if _ then _ else _).
have sz : size [seq kadd (kmul ab.1 (kopp t)) ab.2 | ab <- zip rk ri] = n.+1 by rewrite size_map size_zip sk si minnn.
split=> //.
have nthE j : (j < n.+1)%N -> [seq kadd (kmul ab.1 (kopp t)) ab.2 | ab <- zip rk ri]`_j = rk`_j * (- t) + ri`_j.
  move=> lj; rewrite (nth_map (0, 0)) ?size_zip ?sk ?si ?minnn // nth_zip ?sk ?si //=.
rewrite /rsat nthE // (eq_bigr (fun j : 'I_n => - t * (rk`_j * x`_j) + ri`_j * x`_j)); last first.
  by move=> j _; rewrite nthE ?(ltn_trans (ltn_ord j)) // mulrDl mulrAC [X in X + _]mulrC.
rewrite big_split /= -mulr_sumr satk [rk`_n * - t]mulrC.
by split=> [/addrI|->].
Qed.

(* ---- partial pivoting: the selected row is in range and carries the largest magnitude ---- *)
Lemma lse_pivot_spec (X : mat) k : size X = n -> (k < n)%N ->
  let l := lse_pivot X k in
  [/\ (k <= l)%N, (l < n)%N & forall i, (k <= i < n)%N -> `|mget X i k| <= `|mget X l k|].
Proof.
move=> sX lk; rewrite /lse_pivot sX.
set f := (fun l i => _).
have H : forall s l0, (k <= l0)%N -> (l0 < n)%N -> (forall i, i \in s -> (k <= i < n)%N) ->
   let l := foldl f l0 s in
   [/\ (k <= l)%N, (l < n)%N, `|mget X l0 k| <= `|mget X l k| & forall i, i \in s -> `|mget X i k| <= `|mget X l k|].
  elim=> [|i s IH] l0 kl ln hs /=; first by split.
  have hi : (k <= i < n)%N by apply: hs; rewrite inE eqxx.
  have hs' : forall j, j \in s -> (k <= j < n)%N by move=> j hj; apply: hs; rewrite inE hj orbT.
  have -> : f l0 i = if `|mget X l0 k| < `|mget X i k| then i else l0 by [].
  case: ifP => [lt|ge].
    have /andP[ki iN] := hi.
    have [a b c d] := IH i ki iN hs'; split=> //; first by apply: le_trans c; apply: ltW.
    by move=> j; rewrite inE => /orP[/eqP ->|/d].
  have [a b c d] := IH l0 kl ln hs'; split=> //.
  move=> j; rewrite inE => /orP[/eqP ->|/d] //.
  by apply: le_trans c; rewrite leNgt; apply/negbT.
have hs : forall i, i \in iota k.+1 (n - k.+1) -> (k <= i < n)%N.
  move=> i; rewrite mem_iota => /andP[ki]; rewrite subnKC // => ->; by rewrite (ltnW ki).
have [a b c d] := H _ k (leqnn k) lk hs; split=> // i /andP[ki iN].
move: ki; rewrite leq_eqVlt => /orP[/eqP <- //|ki].
by apply: d; rewrite mem_iota ki subnKC.
Qed.

(* ---- one elimination step ---- *)
Definition tri_upto (X : mat) (k : nat) : Prop :=
  forall i j, (j < k)%N -> (j < i)%N -> (i < n)%N -> mget X i j = 0.

Lemma lse_elim_k_ok (X : mat) k x : wfa X -> (k < n)%N ->
  wfa (lse_elim_k X k) /\ (msat (lse_elim_k X k) x <-> msat X x).
Proof.
move=> wX lk; rewrite /lse_elim_k.
have [sX rX] := wX.
have [kl lN _] := lse_pivot_spec sX lk.
set l := lse_pivot X k in kl lN *.
set X1 := (if _ then _ else _).
have [w1 e1] : wfa X1 /\ (msat X1 x <-> msat X x).
  by rewrite /X1; case: ifP => // _; split; [apply: wfa_swap2 | apply: msat_swap2; rewrite sX].
have [s1 r1] := w1.
split.
  split; first by rewrite size_mkseq.
  move=> i li; rewrite nth_mkseq ?s1 //; case: ifP => _; last exact: r1.
  rewrite /lse_elim_row; case: ifP => _; first exact: r1.
  by rewrite size_map size_zip !r1 // minnn.
rewrite -e1; split=> H i; rewrite ?size_mkseq => li.
- have satk : rsat x (nth [::] X1 k).
    by have := H k; rewrite size_mkseq s1 nth_mkseq ?s1 // ltnn; apply.
  have := H i; rewrite size_mkseq nth_mkseq // => /(_ li); case: ifP => // _.
  rewrite s1 in li.
  by have [_ ->] := lse_elim_row_sat k (r1 _ lk) (r1 _ li) satk.
- rewrite nth_mkseq //; case: ifP => _; last exact: H.
  rewrite s1 in li.
  have satk : rsat x (nth [::] X1 k) by apply: H; rewrite s1.
  have [_ ->] := lse_elim_row_sat k (r1 _ lk) (r1 _ li) satk.
  by apply: H; rewrite s1.
Qed.

(* (A) the whole elimination keeps the solution set *)
Theorem lse_eliminate_ok (X : mat) x : wfa X ->
  wfa (lse_eliminate X) /\ (msat (lse_eliminate X) x <-> msat X x).
Proof.
move=> wX; rewrite /lse_eliminate; have [sX _] := wX; rewrite sX.
have : forall k, k \in iota 0 n -> (k < n)%N by move=> k; rewrite mem_iota add0n => /andP[].
elim: (iota 0 n) X wX {sX} => [|k s IH] X wX hk //=.
have lk : (k < n)%N by apply: hk; rewrite inE eqxx.
have [w1 e1] := lse_elim_k_ok x wX lk.
have [w2 e2] := IH _ w1 (fun j hj => hk j (mem_behead (s := k :: s) hj)).
by split=> //; rewrite e2.
Qed.

(* ---- (B) triangular form ---- *)
Lemma mget_mkseq (f : nat -> vec) m i j : (i < m)%N -> mget (mkseq f m) i j = (f i)`_j.
Proof. by move=> li; rewrite /mget nth_mkseq. Qed.
Lemma lse_elim_k_tri (X : mat) k : wfa X -> (k < n)%N -> tri_upto X k -> tri_upto (lse_elim_k X k) k.+1.
Proof.
move=> wX lk tX; have [sX rX] := wX.
have [kl lN dom] := lse_pivot_spec sX lk.
rewrite /lse_elim_k; set l := lse_pivot X k in kl lN dom *.
set X1 := (if _ then _ else _).
have s1 : size X1 = n by rewrite /X1; case: ifP => _ //; rewrite size_swap2.
(* rows of X1 are rows of X; rows k.. stay among rows k.. *)
have rowX1 i : (i < n)%N -> exists2 i', nth [::] X1 i = nth [::] X i' & ((i' < n)%N /\ ((k <= i)%N -> (k <= i')%N)) /\ ((i < k)%N -> i' = i).
  move=> li; rewrite /X1; case: ifP => [_|_]; first by exists i.
  rewrite nth_swap2 ?sX //.
  case: (altP (i =P l)) => [->|il]; first by exists k => //; split=> // kl'; move: kl; rewrite leqNgt kl'.
  case: (altP (i =P k)) => [->|ik]; first by exists l => //; split=> //; rewrite ltnn.
  by exists i.
have rowk : nth [::] X1 k = nth [::] X l.
  by rewrite /X1; case: ifP => [/eqP -> //|nlk]; rewrite nth_swap2 ?sX // eq_sym nlk eqxx.
have t1 : tri_upto X1 k.
  move=> i j jk ji li; have [i' e [[li' ki'] ilt]] := rowX1 i li.
  rewrite /mget e; case: (leqP k i) => [ki|ik]; first by apply: tX => //; apply: leq_trans jk (ki' ki).
  by rewrite (ilt ik); apply: tX.
have dom1 i : (k <= i)%N -> (i < n)%N -> `|mget X1 i k| <= `|mget X1 k k|.
  move=> ki li; have [i' e [[li' ki'] _]] := rowX1 i li.
  by rewrite /mget e rowk; apply: dom; rewrite ki'.
move=> i j; rewrite ltnS => jk ji li.
rewrite mget_mkseq ?s1 //.
case: (ltnP k i) => [ki|ik]; last first.
  by have := t1 i j (leq_trans ji ik) ji li; rewrite /mget.
rewrite /lse_elim_row.
have rij0 : (j < k)%N -> (nth [::] X1 i)`_j = 0 by move=> jk'; have := t1 i j jk' ji li.
have rkj0 : (j < k)%N -> (nth [::] X1 k)`_j = 0 by move=> jk'; have := t1 k j jk' jk' lk.
move: jk; rewrite leq_eqVlt => /orP[/eqP ejk|jk']; last first.
  case: ifP => _; first exact: rij0.
  have w1 : wfa X1 by rewrite /X1; case: ifP => // _; apply: wfa_swap2.
  have [_ r1] := w1.
  have jn1 : (j < n.+1)%N by rewrite ltnS ltnW // (ltn_trans ji).
  rewrite (nth_map (0, 0)) ?size_zip ?r1 ?minnn // nth_zip ?r1 //=.
  by rewrite rkj0 // rij0 // mul0r addr0.
subst j.
case: ifP => [/eqP -> //|nz].
have w1 : wfa X1 by rewrite /X1; case: ifP => // _; apply: wfa_swap2.
have [_ r1] := w1.
rewrite (nth_map (0, 0)) ?size_zip ?r1 ?minnn ?ltnS ?(ltnW lk) // nth_zip ?r1 //=.
case: ifP => [/eqP z|nzk].
  have := dom1 i (ltnW ki) li; rewrite /mget z normr0 normr_le0 => /eqP e.
  by move: nz; rewrite /= e eqxx.
by rewrite /= mulrN mulrC divfK ?addNr //; apply/negbT.
Qed.
Theorem lse_eliminate_tri (X : mat) : wfa X -> tri_upto (lse_eliminate X) n.
Proof.
move=> wX; rewrite /lse_eliminate; have [sX _] := wX; rewrite sX.
have H : forall m k0 (Y : mat), (k0 + m = n)%N -> wfa Y -> tri_upto Y k0 -> tri_upto (foldl lse_elim_k Y (iota k0 m)) n.
  elim=> [|m IH] k0 Y e wY tY /=; first by rewrite -e addn0.
  have lk : (k0 < n)%N by rewrite -e -addSnnS leq_addr.
  apply: (IH k0.+1); first by rewrite addSnnS.
    by have [] := lse_elim_k_ok [::] wY lk.
  exact: lse_elim_k_tri.
have t0 : tri_upto X 0%N by move=> i j.
exact: (H n 0%N X (add0n n) wX t0).
Qed.

(* ---- (C) back substitution ---- *)
Lemma foldl_skip_sum (g : nat -> R) m a (s : seq nat) :
  foldl (fun acc i => if i == m then acc else kadd acc (g i)) a s = a + \sum_(i <- s | i != m) g i.
Proof.
elim: s a => [|i s IH] a /=; first by rewrite big_nil addr0.
by rewrite IH big_cons; case: (i == m) => //=; rewrite addrA.
Qed.
Lemma lse_back_l_ok (Y : mat) (sol : vec) m : wfa Y -> tri_upto Y n -> (m < n)%N -> mget Y m m != 0 ->
  size sol = n -> (forall q, (m < q < n)%N -> rsat sol (nth [::] Y q)) ->
  size (lse_back_l Y sol m) = n /\ (forall q, (m <= q < n)%N -> rsat (lse_back_l Y sol m) (nth [::] Y q)).
Proof.
move=> [sY rY] tY lm nz ssol H; rewrite /lse_back_l rY //= foldl_skip_sum add0r.
set r := nth [::] Y m; set b := \sum_(i <- _ | _) _.
have -> : (r`_m == 0) = false by apply/negbTE; exact: nz.
set v := (_ / _).
have ssol' : size (set_nth 0 sol m v) = n by rewrite size_set_nth ssol; apply/maxn_idPr.
split=> // q /andP[mq qn].
have bE : b = \sum_(j < n | j != m :> nat) r`_j * sol`_j.
  by rewrite -(big_mkord (fun j => j != m) (fun j => r`_j * sol`_j)) /index_iota subn0.
move: mq; rewrite leq_eqVlt => /orP[/eqP <-|mq].
  rewrite /rsat -/r (bigD1 (Ordinal lm)) //= nth_set_nth /= eqxx.
  rewrite (eq_bigr (fun j : 'I_n => r`_j * sol`_j)); last first.
    by move=> j; rewrite -val_eqE /= => jm; rewrite nth_set_nth /= (negbTE jm).
  by rewrite -bE /v /= mulrC divfK // subrK.
have := H q; rewrite mq qn => /(_ isT); rewrite /rsat => <-.
apply: eq_bigr => j _; rewrite nth_set_nth /=; case: (altP (j =P m :> nat)) => [e|//].
by have := tY q m lm mq qn; rewrite /mget e => ->; rewrite !mul0r.
Qed.
Theorem lse_back_ok (Y : mat) (sol0 : vec) : wfa Y -> tri_upto Y n -> (forall i, (i < n)%N -> mget Y i i != 0) ->
  size sol0 = n -> size (lse_back Y sol0) = n /\ msat Y (lse_back Y sol0).
Proof.
move=> wY tY nz s0; have [sY _] := wY; rewrite /lse_back sY.
have H : forall m (sol : vec), (m <= n)%N -> size sol = n -> (forall q, (m <= q < n)%N -> rsat sol (nth [::] Y q)) ->
    let x := foldl (lse_back_l Y) sol (rev (iota 0 m)) in size x = n /\ forall q, (q < n)%N -> rsat x (nth [::] Y q).
  elim=> [|m IH] sol lm ssol Hs; first by split=> // q qn; apply: Hs.
  rewrite -[in iota _ _]addn1 iotaD add0n rev_cat /=.
  have [s1 H1] := lse_back_l_ok wY tY lm (nz _ lm) ssol Hs.
  by apply: IH => //; apply: ltnW.
have Hn : forall q, (n <= q < n)%N -> rsat sol0 (nth [::] Y q).
  by move=> q /andP[a b]; move: (leq_ltn_trans a b); rewrite ltnn.
have [sx Hx] := H n sol0 (leqnn n) s0 Hn.
by split=> // q; rewrite sY; apply: Hx.
Qed.

(* ---- SolveLSE ---- *)
Theorem solve_lse_correct (M : mat) (s0 : vec) : wfa M ->
  (forall i, (i < n)%N -> mget (lse_eliminate (lse_pre M)) i i != 0) ->
  msat M (solve_lse M s0).
Proof.
move=> wM nz; rewrite /solve_lse.
set sol := (if _ then _ else _).
have ssol : size sol = n.
  by have [sM _] := wM; rewrite /sol; case: ifP => [/eqP ->|_] //; rewrite /zeros size_nseq.
have [wP eP] := lse_pre_ok (lse_back (lse_eliminate (lse_pre M)) sol) wM.
have [wE eE] := lse_eliminate_ok (lse_back (lse_eliminate (lse_pre M)) sol) wP.
by apply/eP/eE; have [] := lse_back_ok wE (lse_eliminate_tri wP) nz ssol.
Qed.
(* an upper triangular system with non-zero diagonal has at most one solution *)
Lemma tri_unique (Y : mat) (x y : vec) : wfa Y -> tri_upto Y n -> (forall i, (i < n)%N -> mget Y i i != 0) ->
  size x = n -> size y = n -> msat Y x -> msat Y y -> x = y.
Proof.
move=> [sY rY] tY nz sx sy mx my.
have H : forall d j, (j < n)%N -> (n - j <= d)%N -> x`_j = y`_j.
  elim=> [|d IH] j0 j0n; first by rewrite leqn0 subn_eq0 leqNgt j0n.
  move=> hd.
  have ex := mx j0; have ey := my j0; rewrite sY in ex ey.
  move: (ex j0n) (ey j0n); rewrite /rsat => {}ex {}ey.
  have := ex; rewrite -ey (bigD1 (Ordinal j0n)) //= [in X in _ = X -> _](bigD1 (Ordinal j0n)) //=.
  rewrite (eq_bigr (fun i : 'I_n => (nth [::] Y j0)`_i * y`_i)); last first.
    move=> i; rewrite -val_eqE /= => ij.
    case: (ltnP i j0) => [lt|ge].
      by have := tY j0 i (ltn_ord i) lt j0n; rewrite /mget => ->; rewrite !mul0r.
    have gt : (j0 < i)%N by rewrite ltn_neqAle eq_sym ij ge.
    congr (_ * _); apply: IH => //.
    by have := ltn_ord i; lia.
  by move/addIr => /(mulfI (nz _ j0n)).
apply: (@eq_from_nth _ 0); first by rewrite sx sy.
by rewrite sx => j jn; apply: (H n) => //; apply: leq_subr.
Qed.
(* the result does not depend on what the solution vector held before the call *)
Theorem solve_lse_independent_of_previous_contents (M : mat) (s0 s1 : vec) : wfa M ->
  (forall i, (i < n)%N -> mget (lse_eliminate (lse_pre M)) i i != 0) ->
  solve_lse M s0 = solve_lse M s1.
Proof.
move=> wM nz.
have [wP _] := lse_pre_ok [::] wM.
have [wE _] := lse_eliminate_ok [::] wP.
have tE := lse_eliminate_tri wP.
have sz (s : vec) : size (if size s == size M then s else zeros (size M)) = n.
  by have [sM _] := wM; case: ifP => [/eqP ->|_] //; rewrite /zeros size_nseq.
have [z0 m0] := lse_back_ok wE tE nz (sz s0).
have [z1 m1] := lse_back_ok wE tE nz (sz s1).
exact: (tri_unique wE tE nz z0 z1 m0 m1).
Qed.
End LseSpec.
