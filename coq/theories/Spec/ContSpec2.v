(* ContSpec2.v — C14, continued: fill, resize and copy of matrices in the bounds-checked model. *)
From mathcomp Require Import all_ssreflect.
From mathcomp Require Import zify.
From LS Require Import NumOps Containers ContSpec.
Set Implicit Arguments. Unset Strict Implicit. Unset Printing Implicit Defensive.

Section More.
Context {K : Type} {ops : NumOps K}.
Local Notation buf := (seq (option K)).
Local Notation parr := (seq (option buf)).

Lemma loop_ext_in (S : Type) n lo (f g : nat -> S -> res S) s :
  (forall i s, lo <= i < lo + n -> f i s = g i s) -> loop n lo f s = loop n lo g s.
Proof.
elim: n lo s => [|n IH] lo s e //=; rewrite e; last by rewrite leqnn /=; lia.
by case: (g lo s) => // s'; apply: IH => i s'' h; apply: e; lia.
Qed.

(* MatrixSet: every cell of the shape is overwritten, nothing else is touched *)
Theorem m_fill_ok m r c A x : mrep m r c A ->
  exists2 m', m_fill m x = ROk m' & mrep m' r c (nseq r (nseq c x)).
Proof.
move=> mr; case: (mr) => er ec sA cA dm; rewrite /m_fill er ec.
case e: (mdata m) dm => [p|] dm /=; last first.
  rewrite dm /=; eexists; first by []. by split=> //=; rewrite dm.
case: dm => sp rp; rewrite sA in sp rp.
have [||p' -> [sp' lo hi]] := @loop_rows_at K r 0 (fun i b => loop c 0 (fun j b => wr b j x) b)
     (fun i b' => cells_ok b' (nseq c x)) p; rewrite ?add0n //.
  move=> i /= ir; have [b nb cb] := rp i ir.
  have [||b' e' [sb' cb']] := @loop_write K c 0 (fun _ => ROk x) (fun _ => x) b; rewrite ?add0n //.
    by case: cb; rewrite cA.
  exists b, b'; split=> //; split; first by rewrite size_nseq sb'; case: cb; rewrite cA.
  by move=> j; rewrite size_nseq => jc; rewrite cb' add0n jc nth_nseq jc.
rewrite /=; eexists; first by []. split=> //=; rewrite ?size_nseq //.
  by move=> i ir; rewrite nth_nseq ir size_nseq.
split; rewrite size_nseq ?sp' // => i ir; have [|b' nb' cb'] := lo i; first by rewrite add0n.
by exists b' => //; rewrite nth_nseq ir.
Qed.

(* ResizeMatrix: a zero matrix of the requested shape, whatever the matrix held *)
Theorem m_resize_ok m r c A r' c' : mrep m r c A ->
  exists2 m', m_resize m r' c' = ROk m' & mrep m' r' c' (nseq r' (nseq c' k0)).
Proof.
move=> mr; case: (mr) => er ec _ _ _; rewrite /m_resize er ec.
case: ifP => [/andP[/eqP <- /eqP <-]|_]; first exact: (m_fill_ok _ mr).
exact: m_new_ok.
Qed.

(* MatrixCopy: the destination becomes a deep copy of the source, whatever it held *)
Theorem m_copy_ok s rs cs As d rd cd Ad : mrep s rs cs As -> mrep d rd cd Ad ->
  exists2 m', m_copy s d = ROk m' & mrep m' rs cs As.
Proof.
move=> ms md; case: (ms) => ers ecs sAs cAs dms; case: (md) => erd ecd sAd cAd dmd.
rewrite /m_copy ers ecs erd ecd.
(* the row array written into: enough rows, each with at least cs cells *)
have [p0 -> [sp0 rp0]] : exists2 p0, (match mdata d with
        | None => let* p := alloc_rows rs cs in ROk p
        | Some p => if (rd != rs) || (cd != cs) then let* p := alloc_rows rs cs in ROk p else ROk p
        end) = ROk p0 & rs <= size p0 /\ forall i, i < rs -> exists2 b, nth None p0 i = Some b & cs <= size b.
  have fresh : exists2 p0, (let* p := alloc_rows rs cs in ROk p) = ROk p0 &
       rs <= size p0 /\ forall i, i < rs -> exists2 b, nth None p0 i = Some b & cs <= size b.
    have [m0] := @m_new_ok K ops rs cs; rewrite /m_new; case: (alloc_rows rs cs) => //= p [<-] [_ _ _ _ /= [sp rp]].
    rewrite size_nseq in sp rp; exists p => //; split=> // i ir; have [b nb [sb _]] := rp i ir.
    by exists b => //; rewrite nth_nseq ir size_nseq in sb.
  case e: (mdata d) dmd => [p|] dmd //; case: ifP => // /negbT; rewrite negb_or !negbK => /andP[/eqP er /eqP ec].
  case: dmd => sp rp; rewrite sAd er in sp rp; exists p => //; split=> // i ir; have [b nb [sb _]] := rp i ir.
  by exists b => //; rewrite cAd ?er // ec in sb.
rewrite /= /copy_cells ers ecs.
case es: (mdata s) dms => [ps|] dms; last first.
  rewrite dms /=; eexists; first by []. rewrite dms in sAs; split=> //=.
  by split=> //; rewrite sAs.
case: dms => sps rps; rewrite sAs in sps rps.
have -> : deref (Some ps) (0 < rs) = ROk ps by [].
rewrite /= (@loop_ext_in _ rs 0 _ (fun i p => let* b := rdp p i in
     let* b' := (fun i b => let* sb := rdp ps i in copy_into cs sb 0 b) i b in wrp p i b')); last first.
  move=> i p; rewrite add0n => /= ir; have [sb nsb csb] := rps i ir.
  by rewrite (@rdp_ok K ps i sb) //=; apply: leq_trans sps.
have [||p' -> [sp' lo hi]] := @loop_rows_at K rs 0 (fun i b => let* sb := rdp ps i in copy_into cs sb 0 b)
     (fun i b' => cells_ok b' (nth [::] As i)) p0; rewrite ?add0n //.
  move=> i /= ir; have [b nb sb] := rp0 i ir; have [sbuf nsb csb] := rps i ir.
  rewrite (@rdp_ok K ps i sbuf) //=; last exact: leq_trans sps.
  have [||b' e' [sb' cb']] := @copy_into_ok K ops cs sbuf (nth [::] As i) 0 b csb; rewrite ?cAs ?add0n //.
  exists b, b'; split=> //; split; first by rewrite cAs // sb'.
  by move=> j; rewrite cAs // => jc; rewrite cb' add0n jc subn0.
rewrite /=; eexists; first by []. split=> //=; split; first by rewrite sAs sp'.
by rewrite sAs => i ir; apply: lo; rewrite add0n.
Qed.

(* MatrixDeleteRowAt (position in range): the other rows, in order *)
Theorem m_delrow_ok m r c A row : mrep m r c A -> row < r ->
  exists2 m', m_delrow m row = ROk m' & mrep m' r.-1 c (take row A ++ drop row.+1 A).
Proof.
move=> mr rr; case: (mr) => er ec sA cA dm; rewrite /m_delrow er ec.
have [c0 -> r0] := @m_new_ok K ops r c; rewrite /=.
have [cc -> rc] := m_copy_ok mr r0; rewrite /=.
case: (rc) => erc ecc _ _ dmc; rewrite erc ecc.
have [m1 -> r1] := @m_resize_ok m r c A r.-1 c mr; rewrite /=.
case: (r1) => er1 ec1 _ _ dm1; rewrite er1 ec1.
case epc: (mdata cc) dmc => [pc|] dmc; last by rewrite dmc in rr.
case: dmc => spc rpc; rewrite sA in spc rpc.
have -> : deref (Some pc) (0 < r) = ROk pc by [].
set A' := take row A ++ drop row.+1 A.
have sA' : size A' = r.-1 by rewrite /A' size_cat size_take size_drop sA rr; lia.
have nA' t : nth [::] A' t = nth [::] A (if t < row then t else t.+1).
  rewrite /A' nth_cat size_take sA rr; case: ltnP => h; first by rewrite nth_take.
  by rewrite nth_drop; congr (nth _ _ _); lia.
have cA' t : t < r.-1 -> size (nth [::] A' t) = c by move=> h; rewrite nA' cA //; case: ifP; lia.
(* the rows being written: r-1 allocated rows of at least c cells *)
have [pm -> [spm rpm]] : exists2 pm, deref (mdata m1) (0 < r.-1) = ROk pm &
    r.-1 <= size pm /\ forall t, t < r.-1 -> exists2 b, nth None pm t = Some b & c <= size b.
  case e1: (mdata m1) dm1 => [p|] dm1 /=.
    case: dm1; rewrite size_nseq => sp rp; exists p => //; split=> // t tr; have [b nb [sb _]] := rp t tr.
    by exists b => //; rewrite nth_nseq tr size_nseq in sb.
  by rewrite dm1 /=; exists [::] => //; split=> // t; rewrite dm1.
rewrite /=.
have [|i [p k] /andP[_ hi] [sp ek lo hi']|[p k] -> [sp ek lo hi']] := @loop_inv (parr * nat)
  (fun i pk => [/\ size pk.1 = size pm, pk.2 = (if i <= row then i else i.-1),
       (forall t, t < pk.2 -> exists2 b, nth None pk.1 t = Some b & cells_ok b (nth [::] A' t)) &
       forall t, pk.2 <= t < r.-1 -> exists2 b, nth None pk.1 t = Some b & c <= size b]) r 0
  (fun i (pk : parr * nat) => if i == row then ROk pk
       else let* sb := rdp pc i in let* b := rdp pk.1 pk.2 in
            let* b' := copy_into c sb 0 b in let* p' := wrp pk.1 pk.2 b' in ROk (p', pk.2.+1)) (pm, 0).
- by split=> //= t /andP[_ h]; apply: rpm.
- rewrite add0n in hi; rewrite /= in sp ek lo hi' *.
  case: eqP => [ei|ne].
    eexists; first by []. split=> //=; first by rewrite ek ei leqnn ltnn.
  have kr : k < r.-1 by rewrite ek; case: (leqP i row) => h; lia.
  have [sb nsb csb] := rpc i hi; rewrite (@rdp_ok K pc i sb) //=; last exact: leq_trans spc.
  have [|b nb sbb] := hi' k; first by rewrite leqnn.
  have kp : k < size p by rewrite sp; apply: leq_trans spm.
  rewrite (@rdp_ok K p k b) //=.
  have [||b' -> [sb' cb']] := @copy_into_ok K ops c sb (nth [::] A i) 0 b csb; rewrite ?cA ?add0n //=.
  rewrite wrp_ok //=; eexists; first by []. split=> /=.
  + by rewrite size_setp.
  + by rewrite ek; case: (leqP i row) => h; case: (leqP i.+1 row) => h'; lia.
  + move=> t; rewrite ltnS leq_eqVlt nth_set_nth /=; case: eqP => [-> _|_ /= lt]; last exact: lo.
    exists b' => //; have -> : nth [::] A' k = nth [::] A i.
      by rewrite nA' ek; congr (nth _ _ _); case: (leqP i row) => h; case: ltnP => h'; lia.
    split; first by rewrite cA // sb'.
    by move=> j; rewrite cA // => jc; rewrite cb' add0n jc subn0.
  + move=> t /andP[kt tr]; rewrite nth_set_nth /=; case: eqP => [e|_]; first by lia.
    by apply: hi'; rewrite tr andbT; lia.
rewrite /= in sp ek lo hi' *; eexists; first by [].
have ke : k = r.-1 by rewrite ek add0n; case: (leqP r row) => h; lia.
split=> //=; split; first by rewrite sA' sp.
by rewrite sA' => t tr; apply: lo; rewrite ke.
Qed.

(* MatrixDeleteColAt (position in range): the other columns of every row, in order *)
Theorem m_delcol_ok m r c A col : mrep m r c A -> col < c ->
  exists2 m', m_delcol m col = ROk m' & mrep m' r c.-1 (map (fun row => take col row ++ drop col.+1 row) A).
Proof.
move=> mr cc; case: (mr) => er ec sA cA dm; rewrite /m_delcol er ec.
have [c0 -> r0] := @m_new_ok K ops r c; rewrite /=.
have [cm -> rc] := m_copy_ok mr r0; rewrite /=.
case: (rc) => erc ecc _ _ dmc; rewrite erc ecc.
have [m1 -> r1] := @m_resize_ok m r c A r c.-1 mr; rewrite /=.
case: (r1) => er1 ec1 _ _ dm1; rewrite er1 ec1.
set A' := map _ A.
have sA' : size A' = r by rewrite size_map.
have nA' i t : i < r -> nth k0 (nth [::] A' i) t = nth k0 (nth [::] A i) (if t < col then t else t.+1).
  move=> ir; rewrite (nth_map [::]) ?sA // nth_cat size_take cA // cc; case: ltnP => h; first by rewrite nth_take.
  by rewrite nth_drop; congr (nth _ _ _); lia.
have cA' i : i < r -> size (nth [::] A' i) = c.-1.
  by move=> ir; rewrite (nth_map [::]) ?sA // size_cat size_take size_drop cA // cc; lia.
(* source rows *)
have [pc -> [spc rpc]] : exists2 pc, deref (mdata cm) (0 < r) = ROk pc &
    r <= size pc /\ forall i, i < r -> exists2 b, nth None pc i = Some b & cells_ok b (nth [::] A i).
  case e1: (mdata cm) dmc => [p|] dmc /=; first by case: dmc; rewrite sA => sp rp; exists p.
  by rewrite dmc /=; exists [::] => //; split=> // t; rewrite dmc.
have [pm -> [spm rpm]] : exists2 pm, deref (mdata m1) (0 < r) = ROk pm &
    r <= size pm /\ forall t, t < r -> exists2 b, nth None pm t = Some b & c.-1 <= size b.
  case e1: (mdata m1) dm1 => [p|] dm1 /=.
    case: dm1; rewrite size_nseq => sp rp; exists p => //; split=> // t tr; have [b nb [sb _]] := rp t tr.
    by exists b => //; rewrite nth_nseq tr size_nseq in sb.
  by rewrite dm1 /=; exists [::] => //; split=> // t; rewrite dm1.
rewrite /=.
have [|j [p k] /andP[_ hj] [sp ek lo]|[p k] -> [sp ek lo]] := @loop_inv (parr * nat)
  (fun j pk => [/\ size pk.1 = size pm, pk.2 = (if j <= col then j else j.-1) &
       forall i, i < r -> exists2 b, nth None pk.1 i = Some b &
           c.-1 <= size b /\ forall t, t < pk.2 -> nth None b t = Some (nth k0 (nth [::] A' i) t)]) c 0
  (fun j (pk : parr * nat) => if j == col then ROk pk
       else let* p' := loop r 0 (fun i p => let* sb := rdp pc i in let* x := rd sb j in
                                   let* b := rdp p i in let* b' := wr b pk.2 x in wrp p i b') pk.1 in
            ROk (p', pk.2.+1)) (pm, 0).
- by split=> //= i ir; have [b nb sb] := rpm i ir; exists b.
- rewrite add0n in hj; rewrite /= in sp ek lo *.
  case: eqP => [ej|ne].
    by eexists; first by []; split=> //=; rewrite ek ej leqnn ltnn.
  have kc : k < c.-1 by rewrite ek; case: (leqP j col) => h; lia.
  rewrite (@loop_ext_in _ r 0 _ (fun i p => let* b := rdp p i in
       let* b' := (fun i b => let* sb := rdp pc i in let* x := rd sb j in wr b k x) i b in wrp p i b')); last first.
    move=> i q; rewrite add0n => /= ir; have [sb nsb csb] := rpc i ir.
    rewrite (@rdp_ok K pc i sb) //=; last exact: leq_trans spc.
    by rewrite (rd_ok csb) ?cA.
  have [||p' -> [sp' lo' hi']] := @loop_rows_at K r 0 (fun i b => let* sb := rdp pc i in let* x := rd sb j in wr b k x)
      (fun i b' => c.-1 <= size b' /\ forall t, t < k.+1 -> nth None b' t = Some (nth k0 (nth [::] A' i) t)) p.
  + by rewrite add0n sp.
  + move=> i; rewrite add0n => /= ir; have [sb nsb csb] := rpc i ir; have [b nb [sbb ob]] := lo i ir.
    rewrite (@rdp_ok K pc i sb) //=; last exact: leq_trans spc.
    rewrite (rd_ok csb) ?cA //=; exists b; rewrite wr_ok; last exact: leq_trans sbb.
    eexists; split=> //; split; first by rewrite size_set //; apply: leq_trans sbb.
    move=> t; rewrite ltnS leq_eqVlt nth_set_nth /=; case: eqP => [-> _|_ /= lt]; last exact: ob.
    by rewrite nA' // ek; congr (Some (nth _ _ _)); case: (leqP j col) => h; case: ltnP => h'; lia.
  rewrite /=; eexists; first by []. split=> /=.
  + by rewrite sp'.
  + by rewrite ek; case: (leqP j col) => h; case: (leqP j.+1 col) => h'; lia.
  + by move=> i ir; apply: lo'; rewrite add0n.
rewrite /= in sp ek lo *; eexists; first by [].
have ke : k = c.-1 by rewrite ek add0n; case: (leqP c col) => h; lia.
split=> //=.
split; first by rewrite sA' sp.
rewrite sA' => i ir; have [b nb [sb ob]] := lo i ir; exists b => //; split; first by rewrite cA'.
by move=> t; rewrite cA' // => tc; apply: ob; rewrite ke.
Qed.

(* ---- histories with every single-matrix operation ---------------------------------------- *)
Inductive mop2 := QBase of @mop K | QFill of K | QResize of nat & nat | QDelRow of nat | QDelCol of nat.
Definition mop2_spec (s : nat * nat * seq (seq K)) (o : mop2) : nat * nat * seq (seq K) :=
  let: (r, c, A) := s in
  match o with
  | QBase b => mop_spec s b
  | QFill x => (r, c, nseq r (nseq c x))
  | QResize r' c' => (r', c', nseq r' (nseq c' k0))
  | QDelRow i => (r.-1, c, take i A ++ drop i.+1 A)
  | QDelCol j => (r, c.-1, map (fun row => take j row ++ drop j.+1 row) A)
  end.
Arguments mop2_spec : simpl never.
(* validity: appended vectors are represented vectors; delete positions are in range *)
Definition mop2_valid (s : nat * nat * seq (seq K)) (o : mop2) : Prop :=
  match o with QBase b => mop_wf b | QDelRow i => i < s.1.1 | QDelCol j => j < s.1.2 | _ => True end.
Definition mop2_exec (m : @mat K) (o : mop2) : res mat :=
  match o with
  | QBase b => mop_exec m b | QFill x => m_fill m x | QResize r c => m_resize m r c
  | QDelRow i => m_delrow m i | QDelCol j => m_delcol m j
  end.
Fixpoint mrun2 (m : mat) (h : seq mop2) : res mat :=
  match h with [::] => ROk m | o :: h' => let* m' := mop2_exec m o in mrun2 m' h' end.
Fixpoint valid_from (s : nat * nat * seq (seq K)) (h : seq mop2) : Prop :=
  match h with [::] => True | o :: h' => mop2_valid s o /\ valid_from (mop2_spec s o) h' end.
Theorem matrix_histories2 (h : seq mop2) m r c A : valid_from (r, c, A) h -> mrep m r c A ->
  exists2 m', mrun2 m h = ROk m' & let: (r', c', A') := foldl mop2_spec (r, c, A) h in mrep m' r' c' A'.
Proof.
elim: h m r c A => [|o h IH] m r c A /= vh mr; first by exists m.
case: vh => vo vh.
have [m1 e1 r1] : exists2 m1, mop2_exec m o = ROk m1 & let: (r', c', A') := mop2_spec (r, c, A) o in mrep m1 r' c' A'.
  case: o vo {vh} => [b|x|r' c'|i|j] /= vo; rewrite /mop2_spec.
  - have [|m' e' r'] := @matrix_histories K ops [:: b] m r c A _ mr; first by move=> o [<-|[]].
    by move: e' => /=; case: (mop_exec m b) => //= m2 [->]; exists m' => //; move: r'; rewrite /=.
  - exact: (m_fill_ok _ mr).
  - exact: (m_resize_ok _ _ mr).
  - exact: (m_delrow_ok mr vo).
  - exact: (m_delcol_ok mr vo).
rewrite e1 /=; case e: (mop2_spec (r, c, A) o) r1 vh => [[r' c'] A'] r1 vh.
exact: IH.
Qed.
End More.
