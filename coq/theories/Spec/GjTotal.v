(* GjTotal.v — C12 / C07: totality of the EXECUTABLE Gauss–Jordan inversion (Exec/Algebra.v) over any real closed field:
   for every invertible matrix of every size no pivot vanishes — the pivot search returns a row of maximal modulus, so a zero
   pivot at step i means that column i of the current matrix is zero from row i on, which (the columns before it being cleared
   with non-zero diagonal) makes the current matrix, and with it the input, annihilate a non-zero vector.  Hence
   gj_inverse M = M^-1 for every invertible M (GjExec.gj_inverse_mx needed the pivots as a hypothesis). *)
From mathcomp Require Import all_ssreflect all_algebra.
From LS Require Import NumOps RcfOps Kernels Algebra GjExec.
Set Implicit Arguments. Unset Strict Implicit. Unset Printing Implicit Defensive.
Import Order.TTheory GRing.Theory Num.Theory.
Local Open Scope ring_scope.

Section GjTotal.
Variable R : rcfType.
Local Existing Instance RcfOps.
Local Notation vec := (seq R).
Local Notation mat := (seq (seq R)).
Variable n : nat.
Variable M : mat.
Hypothesis wM : wf n n M.

(* the pivot search returns a row whose entry in the pivot column has the largest modulus among the rows k..n-1 *)
Lemma gj_pivot_max (AI : mat) k r : (k < n)%N -> (k <= r < n)%N ->
  `|mget AI r k| <= `|mget AI (gj_pivot n AI k) k|.
Proof.
move=> lk /andP[kr rn]; rewrite /gj_pivot; set f := (fun piv j => _).
have H : forall s l0, `|mget AI l0 k| <= `|mget AI (foldl f l0 s) k| /\
                      forall i, i \in s -> `|mget AI i k| <= `|mget AI (foldl f l0 s) k|.
  elim=> [|i s IH] l0 //=.
  have fE : f l0 i = if `|mget AI l0 k| < `|mget AI i k| then i else l0 by [].
  have [a b] := IH (f l0 i).
  have [c d] : `|mget AI l0 k| <= `|mget AI (f l0 i) k| /\ `|mget AI i k| <= `|mget AI (f l0 i) k|.
    by rewrite fE; case: ltP => h; split=> //; apply: ltW.
  split; first exact: le_trans c a.
  by move=> j; rewrite inE => /orP[/eqP ->|hj]; [apply: le_trans d a | apply: b].
have [a b] := H (iota k.+1 (n - k.+1)) k.
move: kr; rewrite leq_eqVlt => /orP[/eqP <- //|kr].
by apply: b; rewrite mem_iota kr subnKC.
Qed.

Lemma pivot_ofE (AI : mat) k : size AI = n -> (k < n)%N -> pivot_of n AI k = mget AI (gj_pivot n AI k) k.
Proof. by move=> sA lk; rewrite /pivot_of /gj_step /mget nth_mkseq // eqxx (swap_rows_nth _ _ sA) // eqxx. Qed.

(* vectors annihilated by the left half of the working matrix are annihilated by M: row exchanges and row subtractions can be undone *)
Definition lker (AI : mat) (x : nat -> R) : Prop := forall r, (r < n)%N -> \sum_(c < n) (nth [::] AI r)`_c * x c = 0.
Definition kerinc (AI : mat) : Prop := forall x, lker AI x -> lker M x.

Lemma kerinc_augment : kerinc (gj_augment M).
Proof.
move=> x h q lq; rewrite -[RHS](h q lq); apply: eq_bigr => c _.
by rewrite /gj_augment (sizeM wM) nth_mkseq // nth_cat size_take (rowM wM) // ltnn ltn_ord nth_take.
Qed.

Lemma kerinc_step (AI : mat) k : wfa2 n AI -> (k < n)%N -> kerinc AI -> kerinc (gj_step n AI k).
Proof.
move=> wA lk kA x hx; apply: kA.
have [kl lN] := gj_pivot_spec AI lk.
set l := gj_pivot n AI k in kl lN *.
have [sA rA] := wA.
pose sg i := if i == k then l else if i == l then k else i.
have sgn i : (i < n)%N -> (sg i < n)%N by move=> li; rewrite /sg; case: ifP => // _; case: ifP.
have sgK i : sg (sg i) = i.
  rewrite /sg; case: (altP (i =P k)) => [->|ik].
    by rewrite eqxx; case: (altP (l =P k)) => [->|].
  case: (altP (i =P l)) => [->|il]; first by rewrite eqxx.
  by rewrite (negbTE ik) (negbTE il).
set A1 := swap_rows AI k l.
have rowA1 i : (i < n)%N -> nth [::] A1 i = nth [::] AI (sg i) by move=> li; rewrite /A1 (swap_rows_nth _ _ sA).
have szA1 i : (i < n)%N -> size (nth [::] A1 i) = (n + n)%N by move=> li; rewrite rowA1 //; apply: rA; apply: sgn.
have rowS j : (j < n)%N -> nth [::] (gj_step n AI k) j =
    if j == k then nth [::] A1 j else [seq ab.1 - ab.2 * ((nth [::] A1 j)`_k / (nth [::] A1 k)`_k) | ab <- zip (nth [::] A1 j) (nth [::] A1 k)].
  by move=> lj; rewrite /gj_step nth_mkseq.
have A1x j : (j < n)%N -> \sum_(c < n) (nth [::] A1 j)`_c * x c = 0.
  move=> lj; have hk := hx k lk; rewrite rowS // eqxx in hk.
  case: (altP (j =P k)) => [-> //|jk].
  have := hx j lj; rewrite rowS // (negbTE jk).
  set rho := _ / _.
  rewrite (eq_bigr (fun c : 'I_n => (nth [::] A1 j)`_c * x c - rho * ((nth [::] A1 k)`_c * x c))); last first.
    move=> c _; have lc : (c < n + n)%N by apply: leq_trans (ltn_ord c) (leq_addr _ _).
    rewrite (nth_map (0, 0)) ?size_zip ?szA1 ?minnn // nth_zip ?szA1 //=.
    by rewrite mulrBl; congr (_ - _); rewrite mulrAC mulrC mulrA.
  by rewrite sumrB -mulr_sumr hk mulr0 subr0.
by move=> r lr; rewrite -(sgK r) -rowA1 ?sgn //; apply: A1x; apply: sgn.
Qed.

Lemma kerinc_state k : (k <= n)%N -> (forall i, (i < k)%N -> pivot_of n (state n M i) i != 0) -> kerinc (state n M k).
Proof.
elim: k => [|k IH] lk piv; first exact: kerinc_augment.
have pk : forall i, (i < k)%N -> pivot_of n (state n M i) i != 0 by move=> i li; apply: piv; apply: ltnW.
have [w _ _] := state_ok wM (ltnW lk) pk.
by rewrite stateS; apply: kerinc_step => //; apply: IH => //; apply: ltnW.
Qed.

(* the diagonal entry of a cleared column is the pivot of its step: later steps do not touch it *)
Lemma diag_kept i k : (forall q, (q < k)%N -> pivot_of n (state n M q) q != 0) -> (i < k)%N -> (k <= n)%N ->
  mget (state n M k) i i = pivot_of n (state n M i) i.
Proof.
elim: k => [|k IH] // piv; rewrite ltnS leq_eqVlt => /orP[/eqP <-|ik] lk; first by rewrite stateS.
have pk : forall q, (q < k)%N -> pivot_of n (state n M q) q != 0 by move=> q lq; apply: piv; apply: ltnW.
rewrite -(IH pk ik (ltnW lk)) stateS.
have [[sk rk] mk ck] := state_ok wM (ltnW lk) pk.
have li : (i < n)%N by apply: ltn_trans ik lk.
rewrite /gj_step /mget nth_mkseq //.
have ne : (i == k) = false by apply/eqP => e; move: ik; rewrite e ltnn.
rewrite ne.
have [kl lN] := gj_pivot_spec (state n M k) lk.
set l := gj_pivot n (state n M k) k in kl lN *.
have rowi : nth [::] (swap_rows (state n M k) k l) i = nth [::] (state n M k) i.
  rewrite (swap_rows_nth _ _ sk) // ne; case: ifP => // /eqP e.
  by move: kl; rewrite -e leqNgt ik.
have rowk_i : (nth [::] (swap_rows (state n M k) k l) k)`_i = 0.
  rewrite (swap_rows_nth _ _ sk) // eqxx; apply: (ck i l ik lN).
  by apply/eqP => e; move: kl; rewrite e leqNgt ik.
have [[s2 r2] _] := swap_ok (conj sk rk) mk lk lN.
rewrite (nth_map (0, 0)); last by rewrite size_zip !r2 // minnn; apply: leq_trans li (leq_addr _ _).
by rewrite nth_zip ?r2 //= rowi rowk_i mul0r subr0.
Qed.

Lemma pivot_nonzero i : mx_of n n M \in unitmx -> (i < n)%N ->
  (forall q, (q < i)%N -> pivot_of n (state n M q) q != 0) -> pivot_of n (state n M i) i != 0.
Proof.
move=> uM li piv; apply/negP => /eqP p0.
have [[sS rS] mS cS] := state_ok wM (ltnW li) piv.
set A := state n M i in sS rS mS cS p0.
have col0 r : (i <= r < n)%N -> mget A r i = 0.
  move=> hr; have := gj_pivot_max A li hr.
  by rewrite -(pivot_ofE sS li) p0 normr0 normr_le0 => /eqP.
have kA : kerinc A by apply: kerinc_state => //; apply: ltnW.
pose d := fun c : nat => (nth [::] A c)`_c.
have d0 c : (c < i)%N -> d c != 0.
  by move=> lc; have -> : d c = mget A c c by []; rewrite (diag_kept piv lc (ltnW li)); apply: piv.
pose x := fun c : nat => if (c < i)%N then - ((nth [::] A c)`_i / d c) else if c == i then 1 else 0.
have Ax : lker A x.
  move=> r lr; case: (ltnP r i) => ri; last first.
    apply: big1 => c _; rewrite /x; case: (ltnP c i) => ci.
      have -> : (nth [::] A r)`_c = 0; last by rewrite mul0r.
      by apply: (cS c r ci lr); apply/eqP => e; move: ri; rewrite e leqNgt ci.
    case: (altP (nat_of_ord c =P i)) => [->|_]; last by rewrite mulr0.
    by have := col0 r; rewrite ri lr /mget => ->; rewrite ?mul0r.
  rewrite (bigD1 (Ordinal lr)) //= (bigD1 (Ordinal li)) /=; last by rewrite -val_eqE /= neq_ltn ri orbT.
  rewrite big1 ?addr0; last first.
    move=> c /andP[]; rewrite -!val_eqE /= => cr ci; rewrite /x; case: (ltnP c i) => lci.
      have -> : (nth [::] A r)`_c = 0; last by rewrite mul0r.
      by apply: (cS c r lci lr); rewrite eq_sym.
    by rewrite (negbTE ci) mulr0.
  rewrite /x ri ltnn eqxx mulr1; have -> : (nth [::] A r)`_r = d r by [].
  by rewrite mulrN mulrC divfK ?d0 // addNr.
have Mx := kA x Ax.
have : mx_of n n M *m (\col_(c < n) x c) = 0.
  apply/colP => q; rewrite !mxE -[RHS](Mx q (ltn_ord q)); apply: eq_bigr => c _; by rewrite !mxE.
move/(congr1 (mulmx (invmx (mx_of n n M)))); rewrite mulmxA mulVmx // mul1mx mulmx0 => /colP /(_ (Ordinal li)).
by rewrite !mxE /x /= ltnn eqxx => /eqP; rewrite oner_eq0.
Qed.

(* every invertible matrix: no pivot vanishes *)
Theorem gj_pivots_nonzero : mx_of n n M \in unitmx -> forall i, (i < n)%N -> pivot_of n (state n M i) i != 0.
Proof.
move=> uM i; elim/ltn_ind: i => i IH li; apply: pivot_nonzero => // q lq.
by apply: IH => //; apply: ltn_trans lq li.
Qed.

(* ... and the executable inversion returns the inverse *)
Theorem gj_inverse_total : mx_of n n M \in unitmx -> mx_of n n (gj_inverse M) = invmx (mx_of n n M).
Proof.
move=> uM; have h := gj_inverse_mx wM (gj_pivots_nonzero uM).
by rewrite -[LHS]mulmx1 -(mulmxV uM) mulmxA h mul1mx.
Qed.
End GjTotal.
