(* MinMaxSpec.v — C10 (range scaling): the executable column minimum / maximum (Kernels.col_minmax,
   the model of MatrixColumnMinMax: seeded with the first observed cell, missing-coded cells skipped)
   returns, over any real closed field and for every column with at least one observed cell, two
   OBSERVED cells that bound every observed cell — wherever the column lies (also entirely above
   the missing-value code or entirely negative). *)
From mathcomp Require Import all_ssreflect all_algebra.
From LS Require Import NumOps RcfOps Kernels.
Set Implicit Arguments. Unset Strict Implicit. Unset Printing Implicit Defensive.
Import Order.TTheory GRing.Theory Num.Theory.
Local Open Scope ring_scope.

Section MinMax.
Variable R : rcfType.
Local Existing Instance RcfOps.
Local Notation vec := (seq R).
Definition obs (c : vec) : vec := [seq x <- c | ~~ is_missing x].

Lemma dmp_obs (c : vec) : obs c != [::] ->
  exists x c', [/\ drop_missing_prefix c = x :: c', ~~ is_missing x & obs c = x :: obs c'].
Proof.
elim: c => [|x [|y c] IH] //=.
  by rewrite /obs /=; case: ifP => // nx _; exists x, [::]; split=> //; rewrite nx.
rewrite /obs /=; case mx: (is_missing x) => /=.
  move=> h; have [x' [c' [e nx' eo]]] := IH h.
  by exists x', c'; split.
by move=> _; exists x, (y :: c); split=> //; rewrite mx.
Qed.

Lemma fold_minmax (c : vec) (lo hi : R) (seen : vec) :
  lo \in seen -> hi \in seen -> all (fun y => lo <= y <= hi) seen ->
  let mm := foldl (fun mm a => if is_missing a then mm else
                 (if kltb a mm.1 then a else mm.1, if kltb mm.2 a then a else mm.2)) (lo, hi) c in
  [/\ mm.1 \in seen ++ obs c, mm.2 \in seen ++ obs c & all (fun y => mm.1 <= y <= mm.2) (seen ++ obs c)].
Proof.
elim: c lo hi seen => [|a c IH] lo hi seen lin hin bnd /=; first by rewrite /obs /= cats0.
rewrite {2 4 6}/obs /=; case ma: (is_missing a) => /=; first exact: IH.
set lo' := (if _ then a else lo); set hi' := (if _ then a else hi).
have := IH lo' hi' (rcons seen a).
rewrite -!cats1 -!catA /=; apply.
- by rewrite /lo' mem_cat inE; case: ifP => _; rewrite ?eqxx ?orbT // lin.
- by rewrite /hi' mem_cat inE; case: ifP => _; rewrite ?eqxx ?orbT // hin.
- rewrite all_cat /= andbT; apply/andP; split.
    apply/allP => y ys; have /andP[l h] := allP bnd y ys.
    rewrite /lo' /hi'; apply/andP; split.
      by case: ifP => // lt; apply: le_trans l; apply: ltW.
    by case: ifP => // lt; apply: le_trans h _; apply: ltW.
  rewrite /lo' /hi' /=; apply/andP; split.
    by case: ifP => // /negbT; rewrite -leNgt.
  by case: ifP => // /negbT; rewrite -leNgt.
Qed.

Theorem col_minmax_spec (c : vec) : obs c != [::] ->
  let mm := col_minmax c in
  [/\ mm.1 \in obs c, mm.2 \in obs c & all (fun y => mm.1 <= y <= mm.2) (obs c)].
Proof.
move=> h; have [x [c' [e nx eo]]] := dmp_obs h.
rewrite /col_minmax e eo.
have := @fold_minmax c' x x [:: x]; rewrite /= !inE eqxx lexx /=; exact.
Qed.
(* the range used by range scaling is the largest difference of two observed cells *)
Corollary col_range_spec (c : vec) : obs c != [::] ->
  let mm := col_minmax c in forall y z, y \in obs c -> z \in obs c -> y - z <= mm.2 - mm.1.
Proof.
move=> h mm y z yo zo; have [_ _ /allP b] := col_minmax_spec h.
have /andP[_ yh] := b y yo; have /andP[zl _] := b z zo.
by apply: ler_sub.
Qed.
End MinMax.
