(* PreprocessSpec2.v — C10, continued: the promised statistic of the transformed column.
   For complete data (no cell inside the MISSING window, before and after the transformation) over
   any real closed field: the column statistics of the model (the code of MatrixColVar /
   MatrixColSDEV) are the textbook sample statistics, they are equivariant under x -> (x - a) / s,
   and therefore autoscaling (s = the column's own standard deviation) yields a column of unit
   standard deviation, Pareto scaling (s = sqrt sd) one of standard deviation sqrt sd. *)
From mathcomp Require Import all_ssreflect all_algebra.
From LS Require Import NumOps RcfOps Kernels PreprocessSpec.
Set Implicit Arguments. Unset Strict Implicit. Unset Printing Implicit Defensive.
Import Order.TTheory GRing.Theory Num.Theory.
Local Open Scope ring_scope.

Section Stats.
Variable R : rcfType.
Local Existing Instance RcfOps.
Local Notation vec := (seq R).

Lemma col_mean_clean (c : vec) : cleanv c -> col_mean c = (\sum_(x <- c) x) / (size c)%:R.
Proof. by move=> cc; rewrite /col_mean /fsum_cnt (fsum_cnt_clean id) //= add0r add0n. Qed.
Lemma col_var_clean (c : vec) : cleanv c ->
  col_var c = (\sum_(x <- c) (x - col_mean c) ^+ 2) / ((size c).-1)%:R.
Proof.
move=> cc; rewrite /col_var /fsum_cnt (fsum_cnt_clean (fun x => (x - col_mean c) * (x - col_mean c))) //= add0r add0n.
by congr (_ / _); apply: eq_bigr => x _; rewrite expr2.
Qed.
(* equivariance of mean and variance under the affine map of the preprocessing *)
Lemma col_mean_affine (c : vec) a s : cleanv c -> cleanv [seq (x - a) / s | x <- c] -> (0 < size c)%N ->
  col_mean [seq (x - a) / s | x <- c] = (col_mean c - a) / s.
Proof.
move=> cc cz c0; rewrite !col_mean_clean // size_map big_map.
have n0 : (size c)%:R != 0 :> R by rewrite pnatr_eq0 -lt0n.
rewrite -mulr_suml sumrB big_const_seq count_predT iter_addr addr0 -[a *+ _]mulr_natr.
by rewrite [LHS]mulrAC; congr (_ / s); rewrite mulrBl mulfK.
Qed.
Lemma col_var_affine (c : vec) a s : cleanv c -> cleanv [seq (x - a) / s | x <- c] -> (0 < size c)%N ->
  col_var [seq (x - a) / s | x <- c] = col_var c / s ^+ 2.
Proof.
move=> cc cz c0; rewrite !col_var_clean // size_map big_map col_mean_affine //.
rewrite [RHS]mulrAC; congr (_ / _); rewrite mulr_suml; apply: eq_bigr => x _.
by rewrite -mulrBl opprB addrA subrK exprMn exprVn.
Qed.
Theorem col_sdev_affine (c : vec) a s : cleanv c -> cleanv [seq (x - a) / s | x <- c] -> (0 < size c)%N ->
  col_sdev [seq (x - a) / s | x <- c] = col_sdev c / `|s|.
Proof.
move=> cc cz c0; rewrite /col_sdev col_var_affine // [ksqrt _]/= sqrtrM; last first.
  rewrite col_var_clean // mulr_ge0 ?invr_ge0 ?ler0n //; apply: sumr_ge0 => x _; exact: sqr_ge0.
by rewrite -exprVn sqrtr_sqr normfV.
Qed.
(* autoscaling: unit standard deviation *)
Theorem autoscaled_unit_sdev (c : vec) a : cleanv c -> (0 < size c)%N -> 0 < col_sdev c ->
  cleanv [seq (x - a) / col_sdev c | x <- c] ->
  col_sdev [seq (x - a) / col_sdev c | x <- c] = 1.
Proof. by move=> cc c0 sp cz; rewrite col_sdev_affine // gtr0_norm // divff // gt_eqF. Qed.
(* Pareto scaling: standard deviation sqrt(sd) *)
Theorem pareto_sdev (c : vec) a : cleanv c -> (0 < size c)%N -> 0 < col_sdev c ->
  cleanv [seq (x - a) / Num.sqrt (col_sdev c) | x <- c] ->
  col_sdev [seq (x - a) / Num.sqrt (col_sdev c) | x <- c] = Num.sqrt (col_sdev c).
Proof.
move=> cc c0 sp cz; rewrite col_sdev_affine // ger0_norm ?sqrtr_ge0 //.
rewrite -{1}[col_sdev c]sqr_sqrtr ?ltW // expr2 mulfK // gt_eqF // sqrtr_gt0.
by [].
Qed.
(* root-mean-square scaling (option 2): the stored scaling of a complete column is the textbook root mean square *)
Theorem col_rms_clean (c : vec) : cleanv c -> col_rms c = Num.sqrt ((\sum_(x <- c) x ^+ 2) / (size c)%:R).
Proof.
move=> cc; rewrite /col_rms /fsum_cnt (fsum_cnt_clean (fun x => x * x)) //= add0r add0n.
by congr (Num.sqrt (_ / _)); apply: eq_bigr => x _; rewrite expr2.
Qed.
End Stats.
