(* ContSpec3.v — C14, continued: getMatrixRow / getMatrixColumn return a fresh vector holding the
   row / column (nothing out of range), and sorting a vector keeps its size and yields the
   insertion-sorted contents, without any memory error. *)
From mathcomp Require Import all_ssreflect.
From mathcomp Require Import zify.
From LS Require Import NumOps Containers ContSpec ContSpec2.
Set Implicit Arguments. Unset Strict Implicit. Unset Printing Implicit Defensive.

Section More3.
Context {K : Type} {ops : NumOps K}.
Local Notation buf := (seq (option K)).
Local Notation parr := (seq (option buf)).

Theorem m_getrow_ok m r c A row : mrep m r c A ->
  if row < r then exists2 v, m_getrow m row = ROk (Some v) & vrep v (nth [::] A row)
  else m_getrow m row = ROk None.
Proof.
move=> mr; case: (mr) => er ec sA cA dm; case rr: (row < r); rewrite /m_getrow er ec rr //.
case e: (mdata m) dm => [p|] dm; last by rewrite dm in rr.
case: dm => sp rp; rewrite sA in sp rp; have [sb nsb csb] := rp row rr.
rewrite /= (@rdp_ok K p row sb) //=; last exact: leq_trans sp.
have [v -> [[sv cv] sd]] := @v_new_ok K ops c; rewrite /=.
have [||b -> [sb' cb']] := @copy_into_ok K ops c sb (nth [::] A row) 0 (vdata v) csb; rewrite ?cA ?add0n ?sd //=.
eexists; first by []. split; rewrite /= ?cA //; split; first by rewrite cA // sb' sd.
by move=> j; rewrite cA // => jc; rewrite cb' add0n jc subn0.
Qed.
Theorem m_getcol_ok m r c A col : mrep m r c A ->
  if col < c then exists2 v, m_getcol m col = ROk (Some v) & vrep v [seq nth k0 row col | row <- A]
  else m_getcol m col = ROk None.
Proof.
move=> mr; case: (mr) => er ec sA cA dm; case cc: (col < c); rewrite /m_getcol er ec cc //.
have [p -> [sp rp]] : exists2 p, deref (mdata m) (0 < r) = ROk p &
    r <= size p /\ forall i, i < r -> exists2 b, nth None p i = Some b & cells_ok b (nth [::] A i).
  case e1: (mdata m) dm => [p|] dm /=; first by case: dm; rewrite sA => sp rp; exists p.
  by rewrite dm /=; exists [::] => //; split=> // t; rewrite dm.
have [v -> [[sv cv] sd]] := @v_new_ok K ops r; rewrite /=.
have [||b e [sb' cb']] := @loop_write K r 0 (fun i => let* sb := rdp p i in rd sb col)
     (fun i => nth k0 (nth [::] A i) col) (vdata v); rewrite ?add0n ?sd //.
  move=> i ir; have [sb nsb csb] := rp i ir.
  by rewrite (@rdp_ok K p i sb) //=; [rewrite (rd_ok csb) ?cA | apply: leq_trans sp].
have -> : loop r 0 (fun i b0 => let* sb := rdp p i in let* x := rd sb col in wr b0 i x) (vdata v) = ROk b.
  by rewrite -e; apply: loop_ext => i s /=; rewrite add0n; case: (rdp p i).
rewrite /=; eexists; first by []. split; first by rewrite /= size_map sA.
split; first by rewrite size_map sA sb' sd.
by move=> j; rewrite size_map sA => jr; rewrite cb' add0n jr subn0 (nth_map [::]) ?sA.
Qed.
(* qsort of a vector: same size, contents insertion-sorted, buffer untouched beyond the size *)
Theorem v_sort_ok v l : vrep v l -> exists2 v', v_sort v = ROk v' & vrep v' (foldr ins [::] l).
Proof.
case=> sv [sl c]; rewrite /v_sort /v_abs sv sl.
have tk : take (size l) (vdata v) = map Some l.
  apply: (@eq_from_nth _ None); first by rewrite size_take size_map; case: (ltnP (size l) (size (vdata v))) => h //; lia.
  move=> j; rewrite size_take => jl; have jl' : j < size l by move: jl; case: (ltnP (size l) (size (vdata v))) => h jl //; lia.
  by rewrite nth_take // c // (nth_map k0).
have alls : all isSome (map Some l) by elim: (l).
have pm : pmap id (map Some l) = l by elim: (l) => [|x s IH] //=; rewrite IH.
rewrite tk alls pm; eexists; first by [].
have ssz : size (foldr ins [::] l) = size l.
  have si x s : size (ins x s) = (size s).+1 by elim: s => [|y s IH] //=; case: ifP => _ //=; rewrite IH.
  by elim: (l) => [|x s IH] //=; rewrite si IH.
split; rewrite /= ?ssz //; split; first by rewrite size_cat size_map size_drop ssz; lia.
by move=> j; rewrite ssz => jl; rewrite nth_cat size_map ssz jl (nth_map k0) ?ssz.
Qed.
End More3.
