(* NipalsSpec.v — algebra of NIPALS deflation sequences (C01, C02, C09): whatever unit vector
   in the row space of the current residual the inner loop returns, after ANY number of inner
   iterations, loadings are orthonormal, the residual is orthogonal to every extracted loading,
   the data decompose exactly, sums of squares add up (Pythagoras), and with as many components
   as variables nothing is left. *)
From mathcomp Require Import all_ssreflect all_algebra.
Set Implicit Arguments. Unset Strict Implicit. Unset Printing Implicit Defensive.
Import Order.TTheory GRing.Theory Num.Theory.
Local Open Scope ring_scope.

Section Norm.
Variable R : rcfType.
Definition dot k (a b : 'cV[R]_k) : R := (a^T *m b) 0 0.
Lemma dotM k (a b : 'cV[R]_k) : a^T *m b = (dot a b)%:M.
Proof. by apply/matrixP=> i j; rewrite !ord1 [in RHS]mxE eqxx mulr1n. Qed.
Lemma dot_ge0 k (a : 'cV[R]_k) : 0 <= dot a a.
Proof. by rewrite /dot mxE; apply: sumr_ge0 => i _; rewrite mxE -expr2 sqr_ge0. Qed.
Lemma dotZZ k c (a : 'cV[R]_k) : dot (c *: a) (c *: a) = c ^+ 2 * dot a a.
Proof. by rewrite /dot linearZ /= linearZ /= -scalemxAl scalerA [LHS]mxE expr2. Qed.
(* DVectNorm: v / |v| *)
Definition normalize k (v : 'cV[R]_k) := (Num.sqrt (dot v v))^-1 *: v.
Lemma normalize_unit k (v : 'cV[R]_k) : dot v v != 0 -> (normalize v)^T *m normalize v = 1%:M.
Proof. by move=> v0; rewrite dotM /normalize dotZZ exprVn sqr_sqrtr ?dot_ge0 // mulVf. Qed.
Variables n m : nat.
Variable E : 'M[R]_(n,m).
(* the inner step of PCA as the code has it (p accumulates across inner iterations) and as
   documented; both stay in the row space of the residual *)
Definition step_asis (p : 'cV[R]_m) (t : 'cV[R]_n) := normalize ((dot t t)^-1 *: (p + E^T *m t)).
Definition step_doc (t : 'cV[R]_n) := normalize ((dot t t)^-1 *: (E^T *m t)).
Lemma step_asis_row p t : (exists c, p = E^T *m c) -> exists c, step_asis p t = E^T *m c.
Proof.
case=> c ->; exists ((Num.sqrt (dot ((dot t t)^-1 *: (E^T *m c + E^T *m t)) ((dot t t)^-1 *: (E^T *m c + E^T *m t))))^-1 *: ((dot t t)^-1 *: (c + t))).
by rewrite /step_asis /normalize -!scalemxAr mulmxDr.
Qed.
Lemma step_doc_row t : exists c, step_doc t = E^T *m c.
Proof.
exists ((Num.sqrt (dot ((dot t t)^-1 *: (E^T *m t)) ((dot t t)^-1 *: (E^T *m t))))^-1 *: ((dot t t)^-1 *: t)).
by rewrite /step_doc /normalize -!scalemxAr.
Qed.
End Norm.

Section Pyth.
Variable R : rcfType.
Variables n m : nat.
Definition fro2 k l (A : 'M[R]_(k,l)) : R := \tr (A^T *m A).
Lemma pyth_gen (E : 'M[R]_(n,m)) (p : 'cV[R]_m) (t : 'cV[R]_n) :
  p^T *m p = 1%:M -> E *m p = t -> fro2 (E - t *m p^T) = fro2 E - fro2 t.
Proof.
move=> pp Ep; have tE : p^T *m E^T = t^T by rewrite -Ep trmx_mul.
rewrite /fro2.
have -> : (E - t *m p^T)^T = E^T - p *m t^T by rewrite linearB /= trmx_mul trmxK.
rewrite /fro2 mulmxBr !mulmxBl !raddfB /=.
have -> : \tr (p *m t^T *m E) = \tr (t^T *m t) by rewrite -mulmxA mxtrace_mulC -mulmxA Ep.
have -> : \tr (E^T *m (t *m p^T)) = \tr (t^T *m t).
  by rewrite mxtrace_mulC -mulmxA tE mxtrace_mulC.
have -> : \tr (p *m t^T *m (t *m p^T)) = \tr (t^T *m t).
  by rewrite -mulmxA mxtrace_mulC -!mulmxA pp mulmx1.
by rewrite opprK addNr addr0.
Qed.
Lemma fro2_ge0 k l (A : 'M[R]_(k,l)) : 0 <= fro2 A.
Proof.
rewrite /fro2 /mxtrace; apply: sumr_ge0 => i _; rewrite mxE; apply: sumr_ge0 => j _.
by rewrite mxE -expr2 sqr_ge0.
Qed.
End Pyth.

Section NipalsSeq.
Variable R : rcfType.
Variables n m : nat.
Variable Es : nat -> 'M[R]_(n,m).      (* residual before component k *)
Variable ps : nat -> 'cV[R]_m.         (* loading of component k *)
Variable a : nat.                       (* number of components extracted *)
Hypothesis Es_step : forall k, (k < a)%N -> Es k.+1 = Es k - (Es k *m ps k) *m (ps k)^T.
Hypothesis ps_unit : forall k, (k < a)%N -> (ps k)^T *m ps k = 1%:M.
Hypothesis ps_row : forall k, (k < a)%N -> exists c : 'cV[R]_n, ps k = (Es k)^T *m c.
Definition ts k : 'cV[R]_n := Es k *m ps k.   (* score of component k *)

Lemma Es_next k : (k < a)%N -> Es k.+1 *m ps k = 0.
Proof. by move=> ka; rewrite Es_step // mulmxBl -mulmxA ps_unit // mulmx1 subrr. Qed.

Lemma Es_kills j k : (j < k)%N -> (k <= a)%N -> Es k *m ps j = 0.
Proof.
elim: k => // k IH; rewrite ltnS leq_eqVlt => /orP[/eqP->|jk] ka; first exact: Es_next.
rewrite Es_step // mulmxBl IH ?(ltnW ka) // -mulmxA.
suff -> : (ps k)^T *m ps j = 0 by rewrite mulmx0 subrr.
have [c ->] := ps_row ka.
by rewrite trmx_mul trmxK -mulmxA IH ?(ltnW ka) // mulmx0.
Qed.

Lemma p_orth j k : (j < k)%N -> (k < a)%N -> (ps k)^T *m ps j = 0.
Proof.
move=> jk ka; have [c ->] := ps_row ka.
by rewrite trmx_mul trmxK -mulmxA (Es_kills jk (ltnW ka)) mulmx0.
Qed.

Lemma decomposition k : (k <= a)%N -> Es 0 = \sum_(j < k) ts j *m (ps j)^T + Es k.
Proof.
elim: k => [|k IH] ka; first by rewrite big_ord0 add0r.
by rewrite big_ord_recr /= -addrA [_ + Es k.+1]addrC Es_step // /ts subrK -IH // ltnW.
Qed.

(* the loadings matrix P (m x a) has orthonormal columns *)
Definition Pmx : 'M[R]_(m,a) := \matrix_(i, j) ps j i 0.
Lemma col_Pmx (j : 'I_a) : col j Pmx = ps j.
Proof. by apply/colP=> i; rewrite !mxE. Qed.
Lemma loadings_orthonormal : Pmx^T *m Pmx = 1%:M.
Proof.
apply/matrixP => i j; rewrite [RHS]mxE -val_eqE.
have -> : (Pmx^T *m Pmx) i j = ((ps i)^T *m ps j) 0 0.
  by rewrite !mxE; apply: eq_bigr => k _; rewrite !mxE.
have sym x y : ((ps x)^T *m ps y) 0 0 = ((ps y)^T *m ps x) 0 0.
  by rewrite !mxE; apply: eq_bigr => k _; rewrite !mxE mulrC.
case: (ltngtP i j) => [ij|ji|ev].
- by rewrite sym (p_orth ij) // mxE.
- by rewrite (p_orth ji) // mxE.
- by rewrite (val_inj ev) ps_unit // mxE eqxx.
Qed.

(* the residual after k components is orthogonal to every loading extracted so far *)
Lemma residual_orthogonal : Es a *m Pmx = 0.
Proof.
apply/matrixP=> i j; rewrite mxE [RHS]mxE.
have h : (Es a *m ps j) i 0 = 0 by rewrite (Es_kills (ltn_ord j) (leqnn a)) mxE.
by rewrite -[RHS]h mxE; apply: eq_bigr => k _; rewrite !mxE.
Qed.

(* sums of squares: |E_0|^2 = sum_k |t_k|^2 + |E_k|^2 *)
Lemma pythagoras_sum k : (k <= a)%N ->
  fro2 (Es 0) = \sum_(j < k) fro2 (ts j) + fro2 (Es k).
Proof.
elim: k => [|k IH] ka; first by rewrite big_ord0 add0r.
rewrite big_ord_recr /= IH ?(ltnW ka) // -addrA; congr (_ + _).
by rewrite Es_step // (@pyth_gen _ _ _ (Es k) (ps k) (ts k)) ?ps_unit // addrC subrK.
Qed.

Lemma explained_le_total k : (k <= a)%N -> \sum_(j < k) fro2 (ts j) <= fro2 (Es 0).
Proof. by move=> ka; rewrite (pythagoras_sum ka) ler_addl fro2_ge0. Qed.

(* with as many components as variables the loadings form a square orthogonal matrix and the
   residual vanishes: the decomposition is exact *)
Lemma all_components : a = m -> Es a = 0.
Proof.
move=> am; move: Pmx loadings_orthonormal residual_orthogonal; rewrite am => P PtP EP.
have PPt : P *m P^T = 1%:M by apply: mulmx1C.
by rewrite -[Es m]mulmx1 -PPt mulmxA EP mul0mx.
Qed.
End NipalsSeq.
