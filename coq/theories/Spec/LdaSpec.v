(* LdaSpec.v — C08: differences of discriminant scores are invariant under every invertible
   affine map applied to class means and data (and contragrediently to the symmetric inverse
   covariance); the arg-max label maximises the score and is a training label; priors sum to 1. *)
From mathcomp Require Import all_ssreflect all_algebra.
From mathcomp Require Import ring.
From LS Require Import NumOps RcfOps Kernels Pca.
Set Implicit Arguments. Unset Strict Implicit. Unset Printing Implicit Defensive.
Import Order.TTheory GRing.Theory Num.Theory.
Local Open Scope ring_scope.
Section Lda.
Variable R : rcfType.
Variable m : nat.
Implicit Types (u v x c d : 'cV[R]_m) (A C : 'M[R]_m).
(* discriminant of lda.c:496-521 without the prior term (it is unchanged by the transformation) *)
Definition bil C u v : R := (u^T *m C *m v) 0 0.
Definition score C mu x : R := bil C mu x - 2^-1 * bil C mu mu.
Lemma bilDl C u v x : bil C (u + v) x = bil C u x + bil C v x.
Proof. by rewrite /bil linearD /= !mulmxDl mxE. Qed.
Lemma bilDr C u v x : bil C x (u + v) = bil C x u + bil C x v.
Proof. by rewrite /bil mulmxDr mxE. Qed.
Lemma bilNl C u x : bil C (- u) x = - bil C u x.
Proof. by rewrite /bil linearN /= !mulNmx mxE. Qed.
Lemma bil_sym C u v : C^T = C -> bil C u v = bil C v u.
Proof.
move=> Cs; rewrite /bil.
have -> : (u^T *m C *m v) 0 0 = ((u^T *m C *m v)^T) 0 0 by rewrite [RHS]mxE.
by rewrite !trmx_mul trmxK Cs mulmxA.
Qed.
(* transformed quantities: mu' = A mu + c, x' = A x + c, C' = A^-T C A^-1 *)
Lemma bil_affine A C c u v : A \in unitmx ->
  let C' := (invmx A)^T *m C *m invmx A in let d := invmx A *m c in
  bil C' (A *m u + c) (A *m v + c) = bil C (u + d) (v + d).
Proof.
move=> Au C' d; have Ad : A *m d = c by rewrite /d mulKVmx.
have E w : A *m w + c = A *m (w + d) by rewrite mulmxDr Ad.
rewrite /bil !E /C' trmx_mul !mulmxA -[_ *m A^T *m _]mulmxA -trmx_mul mulVmx // trmx1 mulmx1.
by rewrite -[_ *m invmx A *m A]mulmxA mulVmx // mulmx1.
Qed.
Theorem affine_invariance A C c mk mj x : A \in unitmx -> C^T = C ->
  let C' := (invmx A)^T *m C *m invmx A in
  score C' (A *m mk + c) (A *m x + c) - score C' (A *m mj + c) (A *m x + c)
  = score C mk x - score C mj x.
Proof.
move=> Au Cs C'; rewrite /score !bil_affine //.
set d := invmx A *m c.
rewrite !bilDl !bilDr (bil_sym d mk Cs) (bil_sym d mj Cs).
by field.
Qed.
End Lda.

Section Argmax.
Variable R : rcfType.
Local Existing Instance RcfOps.
Local Notation step := (fun (bi : R * nat * nat) (x : R) => let: (b, bj, i) := bi in if b < x then (x, i, i.+1) else (b, bj, i.+1)).
(* invariant of the arg-max scan: after the prefix p the current best is b = p_bj >= all of p *)
Lemma argmax_scan (p v : seq R) (b : R) (bj : nat) :
  (bj < size p)%N -> nth 0 p bj = b -> all (fun y => y <= b) p ->
  let: (b', bj', i') := foldl step (b, bj, size p) v in
  [/\ (bj' < size (p ++ v))%N, nth 0 (p ++ v) bj' = b' & all (fun y => y <= b') (p ++ v)].
Proof.
elim: v p b bj => [|x v IH] p b bj lt nb ab /=; first by rewrite cats0.
rewrite -cat_rcons; case: ltP => bx.
  have := IH (rcons p x) x (size p); rewrite size_rcons; apply.
  - by [].
  - by rewrite nth_rcons ltnn eqxx.
  - rewrite all_rcons lexx /=; apply/allP => y yp; apply: le_trans (ltW bx).
    exact: (allP ab).
have := IH (rcons p x) b bj; rewrite size_rcons; apply.
- exact: ltnW.
- by rewrite nth_rcons lt.
- by rewrite all_rcons bx.
Qed.
(* argmax_first: an index in range whose entry is maximal *)
Theorem argmax_first_spec (v : seq R) : (0 < size v)%N ->
  (argmax_first v < size v)%N /\ all (fun y => y <= nth 0 v (argmax_first v)) v.
Proof.
case: v => [|x v] // _; rewrite /argmax_first [foldl _ _ _]/= ltxx.
have := @argmax_scan [:: x] v x 0%N; rewrite /= lexx; move=> /(_ isT erefl isT).
by case: (foldl _ _ _) => [[b' bj'] i'] /= [lt nb ab]; rewrite nb.
Qed.
End Argmax.
