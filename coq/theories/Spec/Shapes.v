(* Shapes.v — the syntax tree (as normalised by translators/t_shape.py) of the routines whose executable
   model in Exec/ is a hand transcription that sampling cannot tie to the code.

   random_kfold_group_generator is a rejection sampler: CV.fill transcribes its loop nest
   (draw until an unused object index comes up; place it; stop placing once every object is placed).
   A change to the retry condition shows only on a run of draws of probability ~1e-7 per call, so the
   transcription is tied structurally: Gen_Shape.v is regenerated from the source on every run and
   Properties_C05.C05_sampler_is_the_transcribed_routine states that it is this tree. *)
From Coq Require Import String.
Local Open Scope string_scope.
Definition transcribed_random_kfold_group_generator : string :=
  "(fn random_kfold_group_generator:void(matrix*,size_t,size_t,unsignedint*) (parm gid:matrix*) (parm "
  ++ "ngroups:size_t) (parm nobj:size_t) (parm srand_init:unsignedint*) (B (call ResizeMatrix gid ngroups "
  ++ "(call ceil (/ nobj ngroups))) (call MatrixSet gid (pre- 1)) (D (var i:size_t)) (D (var j:size_t)) (D "
  ++ "(var k:size_t 0)) (D (var n:size_t)) (call srand_ (pre* srand_init)) (for (= i 0) (< i (->row gid)) "
  ++ "(post++ i) (B (for (= j 0) (< j (->col gid)) (post++ j) (B (do (B (= n (call randInt 0 nobj))) (&& "
  ++ "(== (call ValInMatrix gid n) 1) (< k nobj))) (if (< k nobj) (B (= (idx (idx (->data gid) i) j) n) "
  ++ "(post++ k)) continue))))))) ".
