(* StatsSpec.v — regression figures of merit equal their definitions (C15): closed forms of the
   executable R2 / MSE / MAE, R2 <= 1, R2 = 1 and zero errors for perfect prediction,
   RMSE^2 = MSE, MAE >= 0. *)
From mathcomp Require Import all_ssreflect all_algebra.
From LS Require Import NumOps RcfOps Kernels Stats KernelsSpec.
Set Implicit Arguments. Unset Strict Implicit. Unset Printing Implicit Defensive.
Import Order.TTheory GRing.Theory Num.Theory.
Local Open Scope ring_scope.
Section StatsSpec.
Variable R : rcfType.
Local Existing Instance RcfOps.
Local Notation vec := (seq R).

Lemma foldl_pairE (T : Type) (f g : T -> R) (l : seq T) (a b : R) :
  foldl (fun st x => (st.1 + f x, st.2 + g x)) (a, b) l = (a + \sum_(x <- l) f x, b + \sum_(x <- l) g x).
Proof.
elim: l a b => [|x l IH] a b /=; first by rewrite !big_nil !addr0.
by rewrite IH !big_cons !addrA.
Qed.

(* closed forms (missing-coded truths are dropped by `obs`) *)
Theorem mse_def (yt yp : vec) :
  mse yt yp = (\sum_(tp <- obs yt yp) (tp.2 - tp.1) ^+ 2) / (size (obs yt yp))%:R.
Proof.
rewrite /mse (foldl_sumE (fun tp : R * R => ksq (tp.2 - tp.1))) add0r.
by congr (_ / _); apply: eq_bigr => tp _; rewrite /ksq expr2.
Qed.
Theorem mae_def (yt yp : vec) :
  mae yt yp = (\sum_(tp <- obs yt yp) `|tp.2 - tp.1|) / (size (obs yt yp))%:R.
Proof. by rewrite /mae (foldl_sumE (fun tp : R * R => `|tp.2 - tp.1|)) add0r. Qed.
Theorem r2_def (yt yp : vec) :
  let o := obs yt yp in let avg := (\sum_(tp <- o) tp.1) / (size o)%:R in
  r2 yt yp = 1 - (\sum_(tp <- o) (tp.2 - tp.1) ^+ 2) / (\sum_(tp <- o) (tp.1 - avg) ^+ 2).
Proof.
have em : mean_true (obs yt yp) = (\sum_(tp <- obs yt yp) tp.1) / (size (obs yt yp))%:R.
  by rewrite /mean_true (foldl_sumE (fun tp : R * R => tp.1)) add0r.
rewrite /r2; set avg := mean_true _.
rewrite (foldl_pairE (fun tp : R * R => ksq (tp.2 - tp.1)) (fun tp : R * R => ksq (tp.1 - avg))) !add0r /= -em -/avg.
by congr (_ - _ / _); apply: eq_bigr => tp _; rewrite /ksq expr2.
Qed.

Theorem mse_ge0 (yt yp : vec) : 0 <= mse yt yp.
Proof.
rewrite mse_def divr_ge0 ?ler0n // big_seq; apply: sumr_ge0 => tp _; exact: sqr_ge0.
Qed.
Theorem rmse_sq (yt yp : vec) : rmse yt yp ^+ 2 = mse yt yp.
Proof. by rewrite /rmse /= sqr_sqrtr // mse_ge0. Qed.
Theorem mae_ge0 (yt yp : vec) : 0 <= mae yt yp.
Proof. by rewrite mae_def divr_ge0 ?ler0n // big_seq; apply: sumr_ge0 => tp _; exact: normr_ge0. Qed.
Theorem r2_le_1 (yt yp : vec) : r2 yt yp <= 1.
Proof.
rewrite r2_def /= ler_subl_addr ler_addl divr_ge0 // big_seq; apply: sumr_ge0 => tp _; exact: sqr_ge0.
Qed.
(* perfect prediction *)
Lemma obs_perfect (y : vec) tp : tp \in obs y y -> tp.2 = tp.1.
Proof.
rewrite /obs mem_filter => /andP[_]; elim: y => [|x y IH] //=.
by rewrite inE => /orP[/eqP ->|].
Qed.
Theorem perfect_prediction (y : vec) : [/\ r2 y y = 1, mse y y = 0 & mae y y = 0].
Proof.
have z2 : \sum_(tp <- obs y y) (tp.2 - tp.1) ^+ 2 = 0.
  by rewrite big_seq big1 // => tp /obs_perfect ->; rewrite subrr expr0n.
have z1 : \sum_(tp <- obs y y) `|tp.2 - tp.1| = 0.
  by rewrite big_seq big1 // => tp /obs_perfect ->; rewrite subrr normr0.
by split; rewrite ?r2_def ?mse_def ?mae_def /= ?z2 ?z1 !mul0r ?subr0.
Qed.
End StatsSpec.
