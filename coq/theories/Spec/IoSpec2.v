(* IoSpec2.v — C16: the tensor serialiser of io.c (order in front, then every matrix with its two dimensions and its row-major
   numbers) round-trips: reading back what was written returns the matrices of the tensor, for every order and every shapes
   (also matrices of different shapes in one tensor, empty ones included). *)
From mathcomp Require Import all_ssreflect.
From LS Require Import IoModel.
Set Implicit Arguments. Unset Strict Implicit. Unset Printing Implicit Defensive.

Section TensorRoundTrip.
Variable V : Type.
Variable ofnat : nat -> V.
Variable tonat : V -> nat.
Hypothesis tonatK : forall n, tonat (ofnat n) = n.

Definition twf (x : nat * nat * seq (seq V)) : bool := (size x.2 == x.1.1) && all (fun row => size row == x.1.2) x.2.

Lemma shape_wf r c (m : seq (seq V)) : size m = r -> all (fun row => size row == c) m -> shape m = nseq r c.
Proof. by move=> <-; elim: m => [|row m IH] //= /andP[/eqP -> am]; rewrite IH. Qed.

Theorem tensor_roundtrip (t : seq (nat * nat * seq (seq V))) : all twf t ->
  deser_tensor tonat (ser_tensor ofnat t) = map snd t.
Proof.
move=> wt; rewrite /deser_tensor /ser_tensor tonatK.
elim: t wt => [|[[r c] m] t IH] //= /andP[/andP[/eqP sm am] wt].
rewrite !tonatK /= in sm am *.
have sh := shape_wf sm am.
have sf : size (flatten m) = (r * c)%N by rewrite size_flatten sh sumn_nseq mulnC.
by rewrite -sf take_size_cat // drop_size_cat // -sh flattenK IH.
Qed.
End TensorRoundTrip.
