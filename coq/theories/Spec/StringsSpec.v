(* StringsSpec.v — C14: what SplitString defines, for every text and every separator set. *)
From mathcomp Require Import all_ssreflect.
From LS Require Import Strings.
Set Implicit Arguments. Unset Strict Implicit. Unset Printing Implicit Defensive.

Definition tok_ok (sep t : seq nat) : bool := (t != [::]) && all (fun c => c \notin sep) t.

Lemma push_tok_ok sep cur acc : all (fun c => c \notin sep) cur -> all (tok_ok sep) acc -> all (tok_ok sep) (push_tok cur acc).
Proof.
case: cur => [|c cur] //= /andP [c0 ccur] ok; rewrite ok andbT /tok_ok all_rev /= c0 ccur andbT.
by rewrite -size_eq0 size_rev.
Qed.

Lemma split_go_ok sep s cur acc : all (fun c => c \notin sep) cur -> all (tok_ok sep) acc ->
  all (tok_ok sep) (split_go sep s cur acc).
Proof.
elim: s cur acc => [|c s IH] cur acc ccur cacc /=; first by rewrite all_rev; apply: push_tok_ok.
case: ifP => cs; first by apply: IH => //; apply: push_tok_ok.
by apply: IH => //=; rewrite cs.
Qed.

(* every appended piece is non-empty and free of separator characters *)
Theorem split_tokens_ok sep s : all (tok_ok sep) (split_string sep s).
Proof. exact: split_go_ok. Qed.

Lemma flatten_push cur acc : flatten (rev (push_tok cur acc)) = flatten (rev acc) ++ rev cur.
Proof. by case: cur => [|c cur]; rewrite /= ?cats0 // rev_cons -cats1 flatten_cat /= cats0. Qed.

Lemma split_go_flatten sep s cur acc :
  flatten (split_go sep s cur acc) = flatten (rev acc) ++ rev cur ++ filter (fun c => c \notin sep) s.
Proof.
elim: s cur acc => [|c s IH] cur acc /=; first by rewrite cats0 flatten_push.
case: ifP => cs /=; first by rewrite IH flatten_push /= catA.
by rewrite IH rev_cons -cats1 -catA.
Qed.

(* nothing but separators is lost, nothing is added or reordered: the pieces, put end to end, are the trimmed text without its
   separator characters *)
Theorem split_flatten sep s : flatten (split_string sep s) = filter (fun c => c \notin sep) (trim s).
Proof. by rewrite /split_string split_go_flatten. Qed.

Lemma ltrim_blank s : all is_space s -> ltrim s = [::].
Proof.
move=> a; rewrite /ltrim; have -> : find (predC is_space) s = size s; last by rewrite drop_size.
by apply/eqP; rewrite eqn_leq find_size /= leqNgt -has_find has_predC a.
Qed.

(* a text of white space only (one blank, tabs, ...) and the empty text give no piece at all *)
Theorem split_blank sep s : all is_space s -> split_string sep s = [::].
Proof. by move=> a; rewrite /split_string /trim (ltrim_blank a). Qed.

Lemma ltrim_head s : ltrim s = [::] \/ (ltrim s != [::] /\ ~~ is_space (head 0 (ltrim s))).
Proof.
rewrite /ltrim; case h: (has (predC is_space) s); last first.
  by left; have -> : find (predC is_space) s = size s; [apply/eqP; rewrite eqn_leq find_size /= leqNgt -has_find h | rewrite drop_size].
right; split; first by rewrite -size_eq0 size_drop subn_eq0 -ltnNge -has_find h.
rewrite -nth0 nth_drop addn0; exact: (nth_find 0 h).
Qed.

Lemma ltrim_suffix s : exists p, s = p ++ ltrim s /\ all is_space p.
Proof.
exists (take (find (predC is_space) s) s); rewrite /ltrim cat_take_drop; split=> //.
apply/(all_nthP 0) => i; rewrite size_takel ?find_size // => li.
by rewrite nth_take //; have := before_find 0 li => /= /negbFE.
Qed.

Lemma last_rev (x : nat) s : last x (rev s) = head x s.
Proof. by case: s => [|y s] //=; rewrite rev_cons last_rcons. Qed.

(* the trimmed text neither starts nor ends with white space *)
Theorem trim_ends s : trim s = [::] \/ (~~ is_space (head 0 (trim s)) /\ ~~ is_space (last 0 (trim s))).
Proof.
rewrite /trim; set u := ltrim s; case: (ltrim_head (rev u)) => [->|[vn hd]]; first by left.
right; split; last by rewrite last_rev.
have [p [eu ap]] := ltrim_suffix (rev u).
set v := ltrim (rev u) in vn hd eu *.
rewrite -nth0 nth_rev ?lt0n ?size_eq0 // subn1 nth_last.
have -> : last 0 v = last 0 (rev u) by rewrite eu last_cat; case: (v) vn.
rewrite last_rev; case: (ltrim_head s) => [u0|[]//].
by move: vn; rewrite /v /u u0.
Qed.

(* a trimmed text without separator characters is one piece *)
Theorem split_single sep s : trim s != [::] -> all (fun c => c \notin sep) (trim s) -> split_string sep s = [:: trim s].
Proof.
rewrite /split_string; set t := trim s => tn a.
have H : forall cur, all (fun c => c \notin sep) t -> split_go sep t cur [::] = rev (push_tok (rev t ++ cur) [::]).
  elim: (t) => [|c r IH] cur //= /andP [/negbTE -> cr].
  by rewrite IH // rev_cons -cats1 -catA.
rewrite H // cats0; case e: (rev t) => [|x r] /=; last by rewrite -e revK.
by move: tn; rewrite -(revK t) e.
Qed.

(* SplitString appends: what the vector held stays, in order *)
Theorem str_split_appends tokens sep s : take (size tokens) (str_split tokens sep s) = tokens /\
  all (tok_ok sep) (drop (size tokens) (str_split tokens sep s)).
Proof. by rewrite /str_split take_size_cat // drop_size_cat //; split=> //; apply: split_tokens_ok. Qed.
