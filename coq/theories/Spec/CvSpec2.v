(* CvSpec2.v — C05, continued: k-fold and bootstrap cross-validation are out-of-sample for an
   ARBITRARY learner: the prediction of object i is computed by a model fitted on exactly the
   objects of the other groups, and is therefore unchanged when the response of i — or of any
   object of i's own group — changes.  Bootstrap (repeated random grouping, predictions
   combined by any function, e.g. the average) inherits it. *)
From Coq Require Import List Arith Lia Bool.
Import ListNotations.

Section KFold.
Variables (X Y Mdl P : Type) (fit : list (X * Y) -> Mdl) (predict : Mdl -> X -> P).
Variable dflt : X * Y.
(* the training set when group k is held out: the objects whose group is not k, in order *)
Fixpoint train_without (k : nat) (d : list (X * Y)) (gs : list nat) : list (X * Y) :=
  match d, gs with
  | p :: d', g :: gs' => if Nat.eqb g k then train_without k d' gs' else p :: train_without k d' gs'
  | _, _ => []
  end.
Definition kfold_at (d : list (X * Y)) (gs : list nat) (i : nat) : P :=
  predict (fit (train_without (nth i gs 0) d gs)) (fst (nth i d dflt)).
Definition kfold (d : list (X * Y)) (gs : list nat) : list P := map (kfold_at d gs) (seq 0 (length d)).
Fixpoint set_y (j : nat) (y : Y) (d : list (X * Y)) : list (X * Y) :=
  match d, j with
  | [], _ => []
  | p :: d', 0 => (fst p, y) :: d'
  | p :: d', S j' => p :: set_y j' y d'
  end.
Lemma set_y_length j y d : length (set_y j y d) = length d.
Proof. revert j; induction d as [|p d IH]; intros [|j]; cbn; auto. Qed.
Lemma nth_set_y_fst i j y d : fst (nth i (set_y j y d) dflt) = fst (nth i d dflt).
Proof.
revert i j; induction d as [|p d IH]; intros i j; [destruct j; reflexivity|].
destruct j as [|j], i as [|i]; cbn; auto.
Qed.
(* changing the response of an object of the held-out group does not change the training set *)
Lemma train_without_set_y k j y d gs : nth j gs (S k) = k ->
  train_without k (set_y j y d) gs = train_without k d gs.
Proof.
revert j gs; induction d as [|p d IH]; intros j gs H; [destruct j; reflexivity|].
destruct gs as [|g gs]; [destruct j; reflexivity|].
destruct j as [|j]; cbn in *.
- subst g. rewrite Nat.eqb_refl. reflexivity.
- destruct (Nat.eqb g k); [|f_equal]; apply IH; exact H.
Qed.
Theorem kfold_out_of_sample i j y d gs : j < length gs -> nth j gs 0 = nth i gs 0 ->
  kfold_at (set_y j y d) gs i = kfold_at d gs i.
Proof.
intros Hj H. unfold kfold_at. rewrite nth_set_y_fst, train_without_set_y; [reflexivity|].
rewrite <- H. apply nth_indep. exact Hj.
Qed.
Corollary kfold_own_response i y d gs : i < length gs -> kfold_at (set_y i y d) gs i = kfold_at d gs i.
Proof. intros H. apply kfold_out_of_sample; [exact H|reflexivity]. Qed.
(* the training set holds no object of the held-out group and every other object *)
Lemma train_without_spec k d gs : length gs = length d ->
  train_without k d gs = map fst (filter (fun pg => negb (Nat.eqb (snd pg) k)) (combine d gs)).
Proof.
revert gs; induction d as [|p d IH]; intros [|g gs] H; cbn in *; try reflexivity; try discriminate.
destruct (Nat.eqb g k); cbn; [|f_equal]; apply IH; lia.
Qed.
Theorem kfold_equals_refit i d gs : i < length d ->
  nth i (kfold d gs) (kfold_at d gs 0) = predict (fit (train_without (nth i gs 0) d gs)) (fst (nth i d dflt)).
Proof.
intros H. unfold kfold. rewrite (map_nth (kfold_at d gs) (seq 0 (length d)) 0 i), seq_nth by exact H. reflexivity.
Qed.
(* bootstrap: several random groupings, per-object predictions combined by any function *)
Definition boot_at (combine_p : list P -> P) (d : list (X * Y)) (gss : list (list nat)) (i : nat) : P :=
  combine_p (map (fun gs => kfold_at d gs i) gss).
Theorem bootstrap_out_of_sample combine_p i y d gss : (forall gs, In gs gss -> i < length gs) ->
  boot_at combine_p (set_y i y d) gss i = boot_at combine_p d gss i.
Proof.
intros H. unfold boot_at. f_equal. apply map_ext_in. intros gs Hin. apply kfold_own_response. apply H. exact Hin.
Qed.
End KFold.
