(* CpcaSpec.v — one CPCA super-score iteration is one NIPALS score iteration on the block-scaled
   concatenation (C09). *)
From mathcomp Require Import all_ssreflect all_algebra.
From mathcomp Require Import ring.
Set Implicit Arguments. Unset Strict Implicit. Unset Printing Implicit Defensive.
Import Order.TTheory GRing.Theory Num.Theory.
Local Open Scope ring_scope.
Section Cpca.
Variable R : rcfType.
Variables (n B : nat) (mb : 'I_B -> nat).
Variable X : forall b : 'I_B, 'M[R]_(n, mb b).
Variable sf : 'I_B -> R.                      (* block scaling factors, sqrt(width) in cpca.c *)
Hypothesis sf_pos : forall b, 0 < sf b.
Variable t : 'cV[R]_n.
Definition dot k (a b : 'cV[R]_k) : R := (a^T *m b) 0 0.
Lemma dotM k (a b : 'cV[R]_k) : a^T *m b = (dot a b)%:M.
Proof. by apply/matrixP=> i j; rewrite !ord1 [in RHS]mxE eqxx mulr1n. Qed.
Lemma dot_ge0 k (a : 'cV[R]_k) : 0 <= dot a a.
Proof. by rewrite /dot mxE; apply: sumr_ge0 => i _; rewrite mxE -expr2 sqr_ge0. Qed.
Definition nrm k (a : 'cV[R]_k) := Num.sqrt (dot a a).
Definition g b := (X b)^T *m t.
Hypothesis g_nz : forall b, dot (g b) (g b) != 0.
Hypothesis t_nz : dot t t != 0.
(* cpca.c:235-270 : block loading direction, block score, super weight, super score *)
Definition phat b := (nrm (g b))^-1 *: g b.
Definition tb b := (sf b)^-1 *: (X b *m phat b).
Definition v b := dot (tb b) t / dot t t.
Definition vnorm := Num.sqrt (\sum_b v b ^+ 2).
Definition w b := v b / vnorm.
Definition t_new := \sum_b w b *: tb b.
(* the same thing on the block-scaled concatenation Xs = [X_b / sf_b]_b, without building it:
   Xs Xs' t  and  |Xs' t|^2 *)
Definition S := \sum_b (sf b ^- 2) *: (X b *m g b).
Definition q := \sum_b sf b ^- 2 * dot (g b) (g b).

Lemma nrm_gt0 b : 0 < nrm (g b).
Proof. by rewrite /nrm sqrtr_gt0 lt0r g_nz dot_ge0. Qed.
Lemma dot_tb b : dot (tb b) t = nrm (g b) / sf b.
Proof.
rewrite /dot /tb /phat linearZ /= -scalemxAl trmx_mul -mulmxA -/(g b) linearZ /= -scalemxAl.
rewrite mxE [X in _ * X]mxE -/(dot (g b) (g b)).
have ng := nrm_gt0 b; have sfb := sf_pos b.
rewrite -[dot (g b) (g b)]sqr_sqrtr ?dot_ge0 // -/(nrm (g b)).
by field; rewrite !gt_eqF.
Qed.
Lemma v_sq b : v b ^+ 2 = (sf b ^- 2 * dot (g b) (g b)) / dot t t ^+ 2.
Proof.
rewrite /v dot_tb /nrm !exprMn !exprVn sqr_sqrtr ?dot_ge0 //.
by rewrite [_ / sf b ^+ 2]mulrC.
Qed.
Lemma q_ge0 : 0 <= q.
Proof. by apply: sumr_ge0 => b _; rewrite mulr_ge0 ?dot_ge0 // invr_ge0 sqr_ge0. Qed.
Lemma vnormE : vnorm = Num.sqrt q / `|dot t t|.
Proof.
rewrite /vnorm (eq_bigr (fun b => (sf b ^- 2 * dot (g b) (g b)) / dot t t ^+ 2)); last by move=> b _; rewrite v_sq.
by rewrite -mulr_suml -/q sqrtrM ?q_ge0 // sqrtrV ?sqr_ge0 // sqrtr_sqr.
Qed.
Lemma q_gt0 (b0 : 'I_B) : 0 < q.
Proof.
rewrite /q (bigD1 b0) //= ltr_paddr //.
  by apply: sumr_ge0 => b _; rewrite mulr_ge0 ?dot_ge0 // invr_ge0 sqr_ge0.
by rewrite mulr_gt0 ?invr_gt0 ?exprn_gt0 ?sf_pos // lt0r g_nz dot_ge0.
Qed.
(* one CPCA super-score iteration = one NIPALS score iteration on the scaled concatenation *)
Theorem step_equivalence (b0 : 'I_B) : t_new = (Num.sqrt q)^-1 *: S.
Proof.
have tt : 0 < dot t t by rewrite lt0r t_nz dot_ge0.
have sq : Num.sqrt q != 0 by rewrite gt_eqF // sqrtr_gt0 q_gt0.
rewrite /t_new /S scaler_sumr; apply: eq_bigr => b _.
rewrite /w vnormE /v dot_tb ger0_norm ?ltW // /tb /phat.
rewrite -!scalemxAr !scalerA; congr (_ *: _).
have ng := nrm_gt0 b; have sfb := sf_pos b.
by rewrite invf_div; field; rewrite sq !gt_eqF.
Qed.
End Cpca.
