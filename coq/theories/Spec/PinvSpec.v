(* PinvSpec.v — C12: the pseudo-inverse.  Matrix level, over any field: for a matrix A whose A'A is invertible (full column rank)
   P = (A'A)^-1 A' satisfies the four Penrose conditions.  Executable level, over any real closed field: the list program
   Algebra.pinv (transpose, two products, the pivoting Gauss–Jordan inversion — the model run against
   MatrixMoorePenrosePseudoinverse) computes exactly that P for every m x n matrix with invertible A'A (no pivot vanishes:
   GjTotal), hence satisfies the four conditions. *)
From mathcomp Require Import all_ssreflect all_algebra.
From LS Require Import NumOps RcfOps Kernels KernelsSpec Algebra GjExec GjTotal.
Set Implicit Arguments. Unset Strict Implicit. Unset Printing Implicit Defensive.
Import Order.TTheory GRing.Theory Num.Theory.
Local Open Scope ring_scope.

Section Penrose.
Variable F : fieldType.
Variables m n : nat.
Variable A : 'M[F]_(m, n).
Hypothesis uG : A^T *m A \in unitmx.
Definition pinv_mx : 'M[F]_(n, m) := invmx (A^T *m A) *m A^T.
Lemma pinv_left : pinv_mx *m A = 1%:M.
Proof. by rewrite /pinv_mx -mulmxA mulVmx. Qed.
Theorem penrose1 : A *m pinv_mx *m A = A.
Proof. by rewrite -mulmxA pinv_left mulmx1. Qed.
Theorem penrose2 : pinv_mx *m A *m pinv_mx = pinv_mx.
Proof. by rewrite pinv_left mul1mx. Qed.
Theorem penrose3 : (A *m pinv_mx)^T = A *m pinv_mx.
Proof.
rewrite /pinv_mx !trmx_mul trmxK trmx_inv trmx_mul trmxK mulmxA.
by [].
Qed.
Theorem penrose4 : (pinv_mx *m A)^T = pinv_mx *m A.
Proof. by rewrite pinv_left trmx1. Qed.
End Penrose.

Section PinvExec.
Variable R : rcfType.
Local Existing Instance RcfOps.
Local Notation mat := (seq (seq R)).
Variables m n : nat.
Variable A : mat.
Hypothesis wA : wf m n A.
Hypothesis uG : (mx_of m n A)^T *m mx_of m n A \in unitmx.

Theorem pinv_execE : mx_of n m (pinv m n A) = pinv_mx (mx_of m n A).
Proof.
rewrite /pinv /pinv_mx.
have wT : wf n m (transpose n A) := wf_transpose wA.
have wG : wf n n (matmul n (transpose n A) A) := wf_matmul wT wA.
have eG : mx_of n n (matmul n (transpose n A) A) = (mx_of m n A)^T *m mx_of m n A.
  by rewrite (matmulE wT wA) (transposeE wA).
have uG' : mx_of n n (matmul n (transpose n A) A) \in unitmx by rewrite eG.
have wI : wf n n (gj_inverse (matmul n (transpose n A) A)).
  rewrite /wf /gj_inverse (wf_size wG) size_mkseq eqxx /=; apply/allP => r /mapP[i]; rewrite mem_iota add0n => /andP[_ li] ->.
  have [[sS rS] _ _] := state_ok wG (leqnn n) (fun q lq => gj_pivots_nonzero wG uG' lq).
  by rewrite size_drop size_map /gj_eliminate (wf_size wG) -/(state n _ n) rS // addKn.
by rewrite (matmulE wI wT) (gj_inverse_total wG uG') eG (transposeE wA).
Qed.

Theorem pinv_exec_penrose :
  let Am := mx_of m n A in let P := mx_of n m (pinv m n A) in
  [/\ Am *m P *m Am = Am, P *m Am *m P = P, (Am *m P)^T = Am *m P & (P *m Am)^T = P *m Am].
Proof.
move=> Am P; rewrite /P pinv_execE; split.
- exact: penrose1.
- exact: penrose2.
- exact: penrose3.
- exact: penrose4.
Qed.
End PinvExec.
