(* PlsSpec.v — algebra of PLS-NIPALS (C03, C04), valid after ANY number of inner iterations:
   x-scores mutually orthogonal, weights mutually orthogonal, P'W upper unitriangular,
   X = T P' + X_a; the Y-deflation b t q' is the projection of Y on t; the score predictor
   satisfies x W = t (P'W) (the identity behind the regression-coefficient form); with as many
   non-degenerate components as the rank of X the fitted responses satisfy the normal
   equations (OLS limit). *)
From mathcomp Require Import all_ssreflect all_algebra.
From mathcomp Require Import ring.
Set Implicit Arguments. Unset Strict Implicit. Unset Printing Implicit Defensive.
Import Order.TTheory GRing.Theory Num.Theory.
Local Open Scope ring_scope.
Section PlsSeq.
Variable R : rcfType.
Variables n m : nat.
Definition dot k (a b : 'cV[R]_k) : R := (a^T *m b) 0 0.
Lemma dotM k (a b : 'cV[R]_k) : a^T *m b = (dot a b)%:M.
Proof. by apply/matrixP=> i j; rewrite !ord1 [in RHS]mxE eqxx mulr1n. Qed.
(* the X-side of PLS-NIPALS as a deflation sequence: X_k residuals, w_k whatever UNIT weight
   vector in the row space of X_k steps 2-8 of LVCalc return (any number of inner iterations,
   any Y), t_k = X_k w_k, p_k = X_k' t_k / t_k' t_k, X_{k+1} = X_k - t_k p_k' *)
Variable Xk : nat -> 'M[R]_(n,m).
Variable wk : nat -> 'cV[R]_m.
Variable a : nat.
Definition xload (X : 'M[R]_(n,m)) (t : 'cV[R]_n) := (dot t t)^-1 *: (X^T *m t).
Definition tk k := Xk k *m wk k.
Definition pk k := xload (Xk k) (tk k).
Hypothesis XkS_ : forall k, (k < a)%N -> Xk k.+1 = Xk k - tk k *m (pk k)^T.
Hypothesis wk_unit : forall k, (k < a)%N -> (wk k)^T *m wk k = 1%:M.
Hypothesis wk_row : forall k, (k < a)%N -> exists c : 'cV[R]_n, wk k = (Xk k)^T *m c.
Hypothesis nondeg : forall k, (k < a)%N -> dot (tk k) (tk k) != 0.
Let X0 := Xk 0.
Lemma t_defl k : (k < a)%N -> (tk k)^T *m Xk k.+1 = 0.
Proof.
move=> ka; rewrite XkS_ // /pk /xload mulmxBr mulmxA dotM linearZ /= [((Xk k)^T *m tk k)^T]trmx_mul trmxK.
by rewrite mul_scalar_mx scalerA mulfV ?nondeg // scale1r subrr.
Qed.
Lemma pw1 k : (k < a)%N -> (pk k)^T *m wk k = 1%:M.
Proof.
move=> ka; rewrite /pk /xload linearZ /= [((Xk k)^T *m tk k)^T]trmx_mul trmxK -scalemxAl -mulmxA -/(tk k) dotM.
by rewrite -[(dot _ _)%:M]scalemx1 scalerA mulVf ?nondeg // scale1r.
Qed.
Lemma w_defl k : (k < a)%N -> Xk k.+1 *m wk k = 0.
Proof. by move=> ka; rewrite XkS_ // mulmxBl -mulmxA pw1 // mulmx1 subrr. Qed.

(* (a) earlier scores annihilate later residuals; (c) later residuals annihilate earlier weights *)
Lemma t_kills j k : (j < k)%N -> (k <= a)%N -> (tk j)^T *m Xk k = 0.
Proof.
elim: k => // k IH; rewrite ltnS leq_eqVlt => /orP[/eqP->|jk] ka; first exact: t_defl.
rewrite XkS_ // mulmxBr mulmxA IH // 1?ltnW //.
by rewrite /tk mulmxA IH ?mul0mx ?subrr // ltnW.
Qed.
Lemma w_kills j k : (j < k)%N -> (k <= a)%N -> Xk k *m wk j = 0.
Proof.
elim: k => // k IH; rewrite ltnS leq_eqVlt => /orP[/eqP->|jk] ka; first exact: w_defl.
rewrite XkS_ // mulmxBl IH // 1?ltnW // -mulmxA.
suff -> : (pk k)^T *m wk j = 0 by rewrite mulmx0 subrr.
by rewrite /pk /xload linearZ /= [((Xk k)^T *m tk k)^T]trmx_mul trmxK -scalemxAl -mulmxA IH ?mulmx0 ?scaler0 // ltnW.
Qed.
Theorem scores_orthogonal j k : (j < k)%N -> (k < a)%N -> (tk j)^T *m tk k = 0.
Proof. by move=> jk ka; rewrite /tk mulmxA t_kills ?mul0mx // ltnW. Qed.
Theorem weights_orthogonal j k : (j < k)%N -> (k < a)%N -> (wk k)^T *m wk j = 0.
Proof.
move=> jk ka; have [c ->] := wk_row ka.
by rewrite trmx_mul trmxK -mulmxA w_kills ?mulmx0 // ltnW.
Qed.
Theorem pw_upper j k : (j < k)%N -> (k < a)%N -> (pk k)^T *m wk j = 0.
Proof.
move=> jk ka; rewrite /pk /xload linearZ /= [((Xk k)^T *m tk k)^T]trmx_mul trmxK -scalemxAl -mulmxA.
by rewrite w_kills ?mulmx0 ?scaler0 // ltnW.
Qed.
Theorem x_decomposition k : (k <= a)%N -> X0 = \sum_(j < k) tk j *m (pk j)^T + Xk k.
Proof.
elim: k => [|k IH] ka; first by rewrite big_ord0 add0r.
by rewrite big_ord_recr /= -addrA [_ + Xk k.+1]addrC XkS_ // subrK -IH // ltnW.
Qed.
End PlsSeq.

Section YDefl.
Variable R : rcfType.
Variables n ny : nat.
Local Notation dot := (@dot R _).
(* step 13-14 of LVCalc with q proportional to Y't (as after step 5) — or q = 1 for a single
   response — and b = u't/t't where u = Y q / q'q:  b t q' is the orthogonal projection of Y on t *)
Lemma ydefl_is_projection (Y : 'M[R]_(n,ny)) (t : 'cV[R]_n) (q : 'cV[R]_ny) (c : R) :
  dot t t != 0 -> q = c *: (Y^T *m t) -> (q^T *m q) 0 0 != 0 ->
  let u := ((q^T *m q) 0 0)^-1 *: (Y *m q) in
  let b := dot u t / dot t t in
  b *: (t *m q^T) = (dot t t)^-1 *: (t *m (t^T *m Y)).
Proof.
move=> tt qe qq u b.
have c0 : c != 0.
  by apply: contraNneq qq => c0; rewrite qe c0 scale0r trmx0 mul0mx mxE.
have ut : dot u t = ((q^T *m q) 0 0)^-1 * (c^-1 * (q^T *m q) 0 0).
  rewrite /dot /u linearZ /= -scalemxAl mxE; congr (_ * _).
  have -> : (Y *m q)^T *m t = c^-1 *: (q^T *m q).
    rewrite trmx_mul -mulmxA [X in _ *m X = _](_ : _ = c^-1 *: q) ?scalemxAr //.
    by rewrite qe scalerA mulVf // scale1r.
  by rewrite mxE.
have bq : b = c^-1 / dot t t by rewrite /b ut [c^-1 * _]mulrC mulrA mulVf // mul1r.
have qT : q^T = c *: (t^T *m Y) by rewrite qe linearZ /= trmx_mul trmxK.
by rewrite bq qT -scalemxAr scalerA mulrAC mulVf // mul1r.
Qed.
End YDefl.

Section Betas.
Variable R : rcfType.
Variables (m a : nat).
(* stored weights / loadings of a PLS model; the only facts used are those proved in B.10 *)
Variables (w p : nat -> 'cV[R]_m).
Hypothesis Hpw1 : forall k, (k < a)%N -> (p k)^T *m w k = 1%:M.
Hypothesis Hpw_upper : forall j k, (j < k)%N -> (k < a)%N -> (p k)^T *m w j = 0.
(* PLSScorePredictor for one new object x (a row): t_k = x_k w_k, x_{k+1} = x_k - t_k p_k' *)
Variable x : 'rV[R]_m.
Fixpoint xk k : 'rV[R]_m := if k is k'.+1 then xk k' - (xk k' *m w k') *m (p k')^T else x.
Definition trow k : 'M[R]_1 := xk k *m w k.
Lemma x_decomp k : x = \sum_(j < k) trow j *m (p j)^T + xk k.
Proof.
elim: k => [|k IH]; first by rewrite big_ord0 add0r.
by rewrite big_ord_recr /= -addrA [_ + xk k.+1]addrC /= subrK -IH.
Qed.
Lemma residual_kills j k : (j < k)%N -> (k <= a)%N -> xk k *m w j = 0.
Proof.
elim: k => // k IH; rewrite ltnS leq_eqVlt => /orP[/eqP->|jk] ka /=.
  by rewrite mulmxBl -[_ *m (p k)^T *m w k]mulmxA Hpw1 // mulmx1 subrr.
by rewrite mulmxBl (IH jk (ltnW ka)) sub0r -[_ *m (p k)^T *m w j]mulmxA (Hpw_upper jk ka) mulmx0 oppr0.
Qed.
(* x w_j = sum_k t_k (p_k' w_j): in matrix form  x W = t (P'W), i.e. t = x W (P'W)^-1, which is
   what PLSBetasCoeff uses; P'W is upper unitriangular by Hpw1 / Hpw_upper, hence invertible *)
Theorem scores_from_weights j : (j < a)%N ->
  x *m w j = \sum_(k < a) trow k *m ((p k)^T *m w j).
Proof.
move=> ja; rewrite {1}(x_decomp a) mulmxDl residual_kills // addr0 mulmx_suml.
by apply: eq_bigr => k _; rewrite mulmxA.
Qed.
End Betas.

Section Ols.
Variable R : rcfType.
Lemma ols_limit n m a k (X : 'M[R]_(n,m)) (T : 'M[R]_(n,a)) (E : 'M[R]_(n,k)) :
  \rank X = a -> (T^T <= X^T)%MS -> \rank T = a -> T^T *m E = 0 -> X^T *m E = 0.
Proof.
move=> rX sTX rT TE.
have /submxP [D ->] : (X^T <= T^T)%MS.
  by rewrite -(geq_leqif (mxrank_leqif_sup sTX)) !mxrank_tr rX rT.
by rewrite -mulmxA TE mulmx0.
Qed.
Lemma rank_orth n a (T : 'M[R]_(n,a)) (d : 'rV[R]_a) :
  T^T *m T = diag_mx d -> (forall i, d 0 i != 0) -> \rank T = a.
Proof.
move=> TT dn0; apply/eqP; rewrite eqn_leq rank_leq_col /=.
have : \rank (T^T *m T) = a.
  rewrite TT; apply: mxrank_unit; rewrite unitmxE det_diag unitfE.
  by apply/prodf_neq0 => i _.
by move=> r; rewrite -[X in (X <= _)%N]r; exact: mxrankM_maxr.
Qed.
End Ols.

(* adding a latent variable never increases the residual sum of squares: the Y-deflation is the
   orthogonal projection on t, and |Y - proj_t Y|^2 = |Y|^2 - |t'Y|^2/(t't) *)
Section Rss.
Variable R : rcfType.
Variables n ny : nat.
Local Notation dot := (@dot R _).
Definition fro2y k l (A : 'M[R]_(k,l)) : R := \tr (A^T *m A).
Lemma fro2y_ge0 k l (A : 'M[R]_(k,l)) : 0 <= fro2y A.
Proof.
rewrite /fro2y /mxtrace; apply: sumr_ge0 => i _; rewrite mxE; apply: sumr_ge0 => j _.
by rewrite mxE -expr2 sqr_ge0.
Qed.
Lemma rss_after_projection (Y : 'M[R]_(n,ny)) (t : 'cV[R]_n) : dot t t != 0 ->
  fro2y (Y - (dot t t)^-1 *: (t *m (t^T *m Y))) = fro2y Y - (dot t t)^-1 * fro2y (t^T *m Y).
Proof.
move=> tt; set c := (dot t t)^-1; set A := t^T *m Y.
have AT : A^T = Y^T *m t by rewrite /A trmx_mul trmxK.
have DT : (Y - c *: (t *m A))^T = Y^T - c *: (A^T *m t^T) by rewrite linearB /= linearZ /= trmx_mul.
rewrite /fro2y DT mulmxBr !mulmxBl.
have e1 : c *: (A^T *m t^T) *m Y = c *: (A^T *m A) by rewrite -scalemxAl -mulmxA.
have e2 : Y^T *m (c *: (t *m A)) = c *: (A^T *m A) by rewrite -scalemxAr mulmxA -AT.
have e3 : c *: (A^T *m t^T) *m (c *: (t *m A)) = c *: (A^T *m A).
  rewrite -scalemxAl -scalemxAr scalerA -mulmxA [t^T *m (t *m A)]mulmxA dotM mul_scalar_mx.
  by rewrite -scalemxAr scalerA /c -mulrA mulVf // mulr1.
rewrite e1 e2 e3 subrr subr0 raddfB /= linearZ /=.
by [].
Qed.
Theorem rss_monotone (Y : 'M[R]_(n,ny)) (t : 'cV[R]_n) : dot t t != 0 ->
  fro2y (Y - (dot t t)^-1 *: (t *m (t^T *m Y))) <= fro2y Y.
Proof.
move=> tt; rewrite rss_after_projection // ler_subl_addr ler_addl mulr_ge0 ?fro2y_ge0 // invr_ge0.
by rewrite /dot mxE; apply: sumr_ge0 => i _; rewrite mxE -expr2 sqr_ge0.
Qed.
End Rss.
