(* XSortSpec.v — the exchange sort of MatrixSort/MatrixReverseSort returns a sorted
   permutation (C11, also used by C15's ROC and C19). *)
From mathcomp Require Import all_ssreflect all_algebra.
From LS Require Import NumOps RcfOps Kernels.
Set Implicit Arguments. Unset Strict Implicit. Unset Printing Implicit Defensive.
Import Order.TTheory GRing.Theory Num.Theory.
Local Open Scope ring_scope.
Section XSort.
Variable R : realFieldType.
Variable T : eqType.
Variable key : T -> R.
Let swap (x y : T) := key y < key x.
Lemma inner_spec x rest : let: (m, r') := xs_inner swap x rest in
  [/\ perm_eq (m :: r') (x :: rest), size r' = size rest, key m <= key x & all (fun z => key m <= key z) r'].
Proof.
elim: rest x => [|y r IH] x /=; first by split.
rewrite /swap; case: ltP => yx.
  case: (xs_inner _ y r) (IH y) => m r' [pm sz my al]; split=> //=.
  - by rewrite (perm_catCA [:: m] [:: x] r') /= perm_cons.
  - by rewrite sz.
  - exact: le_trans my (ltW yx).
  - by rewrite (le_trans my (ltW yx)) al.
case: (xs_inner _ x r) (IH x) => m r' [pm sz mx al]; split=> //=.
- rewrite (perm_catCA [:: m] [:: y] r') /= perm_sym (perm_catCA [:: x] [:: y] r) /= perm_cons.
  by rewrite perm_sym.
- by rewrite sz.
- by rewrite (le_trans mx yx) al.
Qed.
Theorem xsort_perm n l : perm_eq (xsort swap n l) l.
Proof.
elim: n l => [|n IH] [|x rest] //=.
case: (xs_inner _ x rest) (inner_spec x rest) => m r' [pm _ _ _].
by apply: perm_trans pm; rewrite perm_cons.
Qed.
Theorem xsort_sorted n l : (size l <= n)%N -> sorted (fun a b => key a <= key b) (xsort swap n l).
Proof.
elim: n l => [|n IH] [|x rest] //= szl.
case: (xs_inner _ x rest) (inner_spec x rest) => m r' [pm sz mx al].
have srt := IH r' _; rewrite /= path_min_sorted ?srt //; first by rewrite sz.
apply/allP => z; rewrite (perm_mem (xsort_perm n r')) => zr'; exact: (allP al).
Qed.
End XSort.

Section Ext.
Variables (T : Type) (s1 s2 : T -> T -> bool).
Hypothesis s12 : forall x y, s1 x y = s2 x y.
Lemma xs_inner_ext x rest : xs_inner s1 x rest = xs_inner s2 x rest.
Proof. by elim: rest x => [|y r IH] x //=; rewrite s12 !IH. Qed.
Lemma xsort_ext n l : xsort s1 n l = xsort s2 n l.
Proof.
elim: n l => [|n IH] [|x rest] //=; rewrite xs_inner_ext.
by case: (xs_inner s2 x rest) => m r'; rewrite IH.
Qed.
End Ext.

Section MSort.
Variable R : rcfType.
Local Existing Instance RcfOps.
(* MatrixSort on the key column: a permutation of the rows, ascending in the key *)
Theorem msort_perm k (m : seq (seq_eqType R)) : perm_eq (msort k m) m.
Proof. exact: (xsort_perm (fun r : seq_eqType R => nth 0 r k)). Qed.
Theorem msort_sorted k (m : seq (seq_eqType R)) :
  sorted (fun a b : seq R => nth 0 a k <= nth 0 b k) (msort k m).
Proof. exact: (xsort_sorted (fun r : seq_eqType R => nth 0 r k) (leqnn _)). Qed.
(* MatrixReverseSort: descending (sorted for the negated key) *)
Theorem mrsort_perm k (m : seq (seq_eqType R)) : perm_eq (mrsort k m) m.
Proof.
have := xsort_perm (fun r : seq_eqType R => - nth 0 r k) (size m) m.
suff -> : mrsort (ops := RcfOps R) k m = xsort (fun x y : seq_eqType R => - nth 0 y k < - nth 0 x k) (size m) m by [].
by apply: xsort_ext => x y; rewrite ltr_opp2.
Qed.
End MSort.
