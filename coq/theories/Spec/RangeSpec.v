(* RangeSpec.v — C10 (range scaling, option 4): over any real closed field, for a complete column (no cell inside the missing-value
   window before or after the transformation) with positive range, the transformed column  (x - a) / (max - min)  has range
   exactly 1 — its executable minimum/maximum (Kernels.col_minmax) are the images of the original ones.  The minimum/maximum
   returned by the executable routine are determined by their specification (MinMaxSpec.col_minmax_spec). *)
From mathcomp Require Import all_ssreflect all_algebra.
From LS Require Import NumOps RcfOps Kernels MinMaxSpec.
Set Implicit Arguments. Unset Strict Implicit. Unset Printing Implicit Defensive.
Import Order.TTheory GRing.Theory Num.Theory.
Local Open Scope ring_scope.

Section RangeScaled.
Variable R : rcfType.
Local Existing Instance RcfOps.
Local Notation vec := (seq R).

Lemma minmax_unique (c : vec) lo hi : obs c != [::] -> lo \in obs c -> hi \in obs c ->
  all (fun y => lo <= y <= hi) (obs c) -> col_minmax c = (lo, hi).
Proof.
move=> h lo_in hi_in /allP bnd; have := col_minmax_spec h.
case: (col_minmax c) => [mn mx] /= [a b /allP d].
have /andP[l1 _] := d _ lo_in; have /andP[_ h1] := d _ hi_in.
have /andP[l2 _] := bnd _ a; have /andP[_ h2] := bnd _ b.
by congr (_, _); apply/eqP; rewrite eq_le ?l1 ?l2 ?h1 ?h2.
Qed.

Lemma obs_clean (c : vec) : cleanv c -> obs c = c.
Proof. by move=> cc; apply/all_filterP; apply: sub_all cc => x; rewrite /cleanx. Qed.

Theorem range_scaled_unit_range (c : vec) a : cleanv c -> c != [::] ->
  let mm := col_minmax c in let s := mm.2 - mm.1 in 0 < s ->
  cleanv [seq (x - a) / s | x <- c] ->
  let mz := col_minmax [seq (x - a) / s | x <- c] in
  [/\ mz.1 = (mm.1 - a) / s, mz.2 = (mm.2 - a) / s & mz.2 - mz.1 = 1].
Proof.
move=> cc c0 mm s s0 cz mz.
have oc : obs c = c := obs_clean cc.
have oz : obs [seq (x - a) / s | x <- c] = [seq (x - a) / s | x <- c] := obs_clean cz.
have hc : obs c != [::] by rewrite oc.
have [a1 a2 /allP a3] := col_minmax_spec hc.
rewrite -/mm oc in a1 a2 a3.
have e : mz = ((mm.1 - a) / s, (mm.2 - a) / s).
  apply: minmax_unique; rewrite oz; first by case: (c) c0.
  - exact: map_f.
  - exact: map_f.
  apply/allP => y /mapP[x xc ->]; have /andP[l u] := a3 _ xc.
  by rewrite !ler_pmul2r ?invr_gt0 // !ler_add2r l u.
rewrite e /=; split=> //.
by rewrite -mulrBl opprB addrA subrK divff // gt_eqF.
Qed.
End RangeScaled.
