(* PcaFit.v — C01: the decomposition clause for the EXECUTABLE fit, for every run that returns:
   whatever the data (missing-coded or not), whatever the number of inner iterations, the scores,
   loadings and residual returned by pca_components satisfy  E = sum_k t_k p_k' + E_res  exactly
   over any real closed field (each deflation of the code is the rank-one update, and nothing
   else touches E). *)
From mathcomp Require Import all_ssreflect all_algebra.
From LS Require Import NumOps RcfOps Kernels KernelsSpec Pca Pls PcaRefine PlsRefine.
Set Implicit Arguments. Unset Strict Implicit. Unset Printing Implicit Defensive.
Import Order.TTheory GRing.Theory Num.Theory.
Local Open Scope ring_scope.

Section PcaFit.
Variable R : rcfType.
Local Existing Instance RcfOps.
Local Notation vec := (seq R).
Local Notation mat := (seq (seq R)).

Lemma size_inner_step (E : mat) (t p : vec) :
  let: (p3, t2, _) := pca_inner_step E t p in size p3 = size p /\ size t2 = size t.
Proof.
rewrite /pca_inner_step /=; split.
  by rewrite /vnormalize /vecmat_into !size_map ?size_mkseq ?size_iota /zeros ?size_nseq.
by rewrite size_map size_matvec_into /zeros size_nseq.
Qed.
Lemma size_pca_loop fuel it (E : mat) (t told p : vec) p' t' mt told' it' :
  pca_loop fuel it E t told p = Ok (p', t', mt, told', it') -> size p' = size p /\ size t' = size t.
Proof.
elim: fuel it t told p => [|fuel IH] it t told p //=.
have := size_inner_step E t p; rewrite /pca_inner_step /= => -[s3 s2].
case: ifP => _; first by case=> <- <- _ _ _.
by move/IH => [-> ->].
Qed.
Lemma wf_deflate n m (E : mat) (t p : vec) : wf n m E -> size t = n -> size p = m -> wf n m (deflate E t p).
Proof.
move=> wE st sp; have sE := wf_size wE; apply/andP; split.
  by rewrite /deflate size_map size_zip sE st minnn.
rewrite /deflate all_map; apply/(all_nthP ([::], 0)) => i; rewrite size_zip sE st minnn => ilt /=.
by rewrite nth_zip ?sE ?st //= size_map size_zip (wf_row wE ilt) sp minnn.
Qed.

Theorem pca_components_decomposition n m fuel npc (E : mat) (told : vec) Ta Pa Da eva ita T P D ev Er its :
  wf n m E -> (0 < n)%N ->
  pca_components fuel npc E told Ta Pa Da eva ita = Ok (T, P, D, ev, Er, its) ->
  exists Tn Pn : seq vec,
    [/\ T = rev Ta ++ Tn, P = rev Pa ++ Pn, size Tn = npc /\ size Pn = npc, wf n m Er &
        mx_of n m E = \sum_(k < npc) cv_of n (nth [::] Tn k) *m (cv_of m (nth [::] Pn k))^T + mx_of n m Er].
Proof.
move=> wE n0; elim: npc E told Ta Pa Da eva ita wE => [|npc IH] E told Ta Pa Da eva ita wE /=.
  case=> <- <- _ _ <- _; exists [::], [::]; split=> //; rewrite ?cats0 //.
  by rewrite big_ord0 add0r.
have nc : ncols E = m := wf_ncols wE n0.
have sE : size E = n := wf_size wE.
set t0 := col E _.
have st0 : size t0 = n by rewrite /t0 /col size_map.
case e: (pca_loop _ _ _ _ _ _) => [[[[[p' t'] mt] told'] it']|] //.
have [sp' st'] := size_pca_loop e; rewrite /zeros size_nseq nc in sp'; rewrite st0 in st'.
have wE' := wf_deflate wE st' sp'.
move/(IH _ _ _ _ _ _ _ wE') => [Tn [Pn [eT eP [sT sP] wEr dec]]].
exists (t' :: Tn), (p' :: Pn); split=> //=.
- by rewrite eT rev_cons -cats1 -catA.
- by rewrite eP rev_cons -cats1 -catA.
- by rewrite sT sP.
- rewrite big_ord_recl /= -addrA -[X in _ = _ + X]/(\sum_(i < npc) _ + mx_of n m Er) -dec.
  by rewrite (deflateE wE st' sp') addrC subrK.
Qed.
End PcaFit.
