(* RandRange.v — C17: the statement (in Z_scope, kept out of the ssreflect property file) that the REGENERATED randInt of numeric.c
   (Gen_Leaf.randInt_out: the raw 32-bit draw reduced into [low, high)) returns an object index 0 .. n-1 for EVERY raw draw
   0 .. 2^32 - 1 — the largest one included — and every number of objects below 2^31. *)
From Coq Require Import ZArith.
From LS Require Import Gen_Leaf Gen_LeafProofs.
Local Open Scope Z_scope.
Definition random_index_in_range_stmt : Prop :=
  forall x n : Z, 0 <= x < 2 ^ 32 -> 0 < n < 2 ^ 31 -> 0 <= randInt_out x 0 n < n.
Lemma random_index_in_range : random_index_in_range_stmt.
Proof. exact randInt_out_range. Qed.
