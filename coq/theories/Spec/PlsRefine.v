(* PlsRefine.v — C03: the executable LVCalc of the model refines the hypotheses of the PLS
   deflation-sequence theorems (PlsSpec.PlsSeq): whatever the number of inner iterations and
   whatever Y, the weight vector returned by the inner loop is a unit vector in the row space of
   the current X residual, the score is t = X w, and the deflation performed by the code (with the
   normalised loading and the rescaled score) is X - t p' with p = X't / t't. *)
From mathcomp Require Import all_ssreflect all_algebra.
From LS Require Import NumOps RcfOps Kernels KernelsSpec Pca Pls Euclid NipalsSpec PcaRefine.
Set Implicit Arguments. Unset Strict Implicit. Unset Printing Implicit Defensive.
Import Order.TTheory GRing.Theory Num.Theory.
Local Open Scope ring_scope.

Section PlsRefine.
Variable R : rcfType.
Local Existing Instance RcfOps.
Local Notation vec := (seq R).
Local Notation mat := (seq (seq R)).

(* the w / t part of one pass of LVCalc is the PCA inner step applied to (X, u) *)
Lemma lv_pass_is_pca_step (X Y : mat) (u : vec) : size u = size X ->
  let: (w, t, q, u') := lv_pass X Y u in
  let: (p3, t2, mt) := pca_inner_step X u (zeros (ncols X)) in w = p3 /\ t = t2.
Proof.
move=> su; rewrite /lv_pass /pca_inner_step /vdivs size_nseq su.
by case: ifP.
Qed.
Lemma size_lv_pass_u (X Y : mat) (u : vec) : size u = size X -> size (lv_pass X Y u).2 = size X.
Proof.
move=> su; rewrite /lv_pass; case: ifP => _ //=.
by rewrite /vdivs size_map size_matvec_into size_nseq.
Qed.
(* whatever the inner loop returns was produced by one pass from some u of the right size *)
Lemma lv_loop_from_pass fuel loop (X Y : mat) (u told : vec) w t q u' it : size u = size X ->
  lv_loop fuel loop X Y u told = Ok (w, t, q, u', it) ->
  exists2 u0, size u0 = size X & lv_pass X Y u0 = (w, t, q, u').
Proof.
elim: fuel loop u told => [|fuel IH] loop u told su //=.
case e: (lv_pass X Y u) => [[[w1 t1] q1] u1].
have su1 : size u1 = size X by have := size_lv_pass_u Y su; rewrite e.
case: ifP => _; first exact: IH.
case: ifP => _; last exact: IH.
by case=> <- <- <- <- _; exists u.
Qed.
(* the weight vector and score of a pass: unit, in the row space of X, t = X w *)
Theorem lv_pass_unit_rowspace n m (X Y : mat) (u : vec) :
  wf n m X -> (0 < n)%N -> size u = n -> cleanm X -> cleanv u ->
  let p2 := map (fun x => x / vdot u u) (vecmat_into X u (zeros m)) in
  let: (w, t, q, u') := lv_pass X Y u in
  cleanv p2 -> cleanv w -> dot (cv_of m p2) (cv_of m p2) != 0 ->
  [/\ (cv_of m w)^T *m cv_of m w = 1%:M, exists c, cv_of m w = (mx_of n m X)^T *m c
    & cv_of n t = mx_of n m X *m cv_of m w].
Proof.
move=> wX n0 su cX cu.
have sX : size X = n := wf_size wX.
have nc : ncols X = m := wf_ncols wX n0.
have := @lv_pass_is_pca_step X Y u; rewrite su sX => /(_ erefl).
case e: (lv_pass X Y u) => [[[w t] q] u'].
have sz : size (zeros (ncols X) : vec) = m by rewrite /zeros size_nseq.
have := @pca_inner_step_unit_rowspace R n m X u (zeros (ncols X)) wX su sz cX cu; rewrite sz nc.
case e2: (pca_inner_step X u (zeros m)) => [[p3 t2] mt] H [-> ->] /=.
exact: H.
Qed.

(* the list-level deflation is the matrix-level rank-one update *)
Lemma deflateE n m (E : mat) (t p : vec) : wf n m E -> size t = n -> size p = m ->
  mx_of n m (deflate E t p) = mx_of n m E - cv_of n t *m (cv_of m p)^T.
Proof.
move=> wE st sp; apply/matrixP => i j; rewrite !mxE big_ord1 !mxE.
have iE : (i < size E)%N by rewrite (wf_size wE).
have szr : size (nth [::] E i) = m by apply: (wf_row wE).
rewrite /deflate (nth_map ([::], 0)) ?size_zip ?st ?(wf_size wE) ?minnn //.
rewrite nth_zip ?st ?(wf_size wE) //= (nth_map (0, 0)) ?size_zip ?szr ?sp ?minnn //.
by rewrite nth_zip ?szr ?sp.
Qed.

(* the x-loading and the deflation of LVCalc: with p1 = X't / t't, the code stores p = p1/|p1| and
   rescales the score to t|p1|; the residual it computes is X - t p1' *)
Lemma cv_of_vmuls n (v : vec) (d : R) : cv_of n (vmuls v d) = d *: cv_of n v.
Proof.
apply/colP => i; rewrite !mxE /vmuls.
case: (ltnP i (size v)) => lt; first by rewrite (nth_map 0) // mulrC.
by rewrite !nth_default ?size_map // mulr0.
Qed.
Theorem lv_deflation n m (X : mat) (t : vec) : wf n m X -> size t = n -> cleanm X -> cleanv t ->
  let p1 := vdivs (vecmat_into X t (zeros m)) (vdot t t) in
  cleanv p1 -> vmodule p1 != 0 ->
  [/\ cv_of m p1 = (dot (cv_of n t) (cv_of n t))^-1 *: ((mx_of n m X)^T *m cv_of n t),
      cv_of m (vnormalize p1) = (vmodule p1)^-1 *: cv_of m p1 &
      mx_of n m (deflate X (vmuls t (vmodule p1)) (vnormalize p1))
      = mx_of n m X - cv_of n t *m (cv_of m p1)^T].
Proof.
move=> wX st cX ct p1 cp1 np.
have sz : size (zeros m : vec) = m by rewrite /zeros size_nseq.
have z0 : cv_of m (zeros m : vec) = 0 by apply/colP=> i; rewrite !mxE nth_nseq if_same.
have sp1 : size p1 = m by rewrite /p1 /vdivs size_map size_vecmat_into.
have e1 : cv_of m p1 = (dot (cv_of n t) (cv_of n t))^-1 *: ((mx_of n m X)^T *m cv_of n t).
  by rewrite /p1 /vdivs cv_of_scale (vecmat_intoE wX st sz cX ct) z0 add0r (vdot_dot ct ct st st).
have e2 : cv_of m (vnormalize p1) = (vmodule p1)^-1 *: cv_of m p1.
  by rewrite (vnormalizeE cp1 sp1) /normalize (vmoduleE cp1 sp1).
split=> //.
rewrite deflateE //; last 2 first.
- by rewrite /vmuls size_map.
- by rewrite /vnormalize size_map.
by rewrite cv_of_vmuls e2 linearZ /= -scalemxAl -scalemxAr scalerA mulfV // scale1r.
Qed.
End PlsRefine.
