(* CvSpec.v — C05: the group generator returns a permutation of 0..nobj-1 for EVERY stream of
   draws (in particular the library's), the train/test split is a partition, and leave-one-out
   — for an arbitrary learner — predicts object i with a model that never saw it. *)
From Coq Require Import List Arith Lia ZArith Permutation.
Import ListNotations.
From LS Require Import Gen_Leaf CV Gen_LeafProofs.
Section G.
Variable nobj : nat.
Variable stream : nat -> nat.
Hypothesis stream_range : forall i, stream i < nobj.
Local Notation fill := (fill nobj stream).
Local Notation find_fresh := (find_fresh stream).
Definition Inv (l : list nat) := NoDup l /\ forall x, In x l -> x < nobj.
Lemma mem_false n l : mem n l = false -> ~ In n l.
Proof.
unfold mem. intros H Hin. assert (existsb (Nat.eqb n) l = true); [|congruence].
apply existsb_exists. exists n. split; [exact Hin | apply Nat.eqb_refl].
Qed.
Lemma find_fresh_spec fuel pos placed n pos' :
  find_fresh fuel pos placed = Some (n, pos') -> ~ In n placed /\ n < nobj.
Proof.
revert pos. induction fuel as [|f IH]; intros pos; cbn [find_fresh]; [discriminate|].
destruct (mem (stream pos) placed) eqn:E; [apply IH|].
intros H. injection H as <- _. split; [apply mem_false; exact E | apply stream_range].
Qed.
Lemma fill_inv slots fuel pos placed l :
  Inv placed -> fill slots fuel pos placed = Some l ->
  Inv l /\ length l = Nat.min nobj (length placed + slots) /\ (length placed <= nobj -> True).
Proof.
revert pos placed. induction slots as [|s IH]; intros pos placed HI; cbn [CV.fill].
- intros H. injection H as <-. destruct HI as [ND R]. split; [split; assumption|].
  split; [|trivial]. assert (length placed <= nobj); [|lia].
  apply NoDup_incl_length with (l' := seq 0 nobj) in ND.
  + rewrite seq_length in ND. exact ND.
  + intros x Hx. apply in_seq. specialize (R x Hx). lia.
- destruct (Nat.ltb_spec (length placed) nobj) as [Hlt|Hge].
  + destruct (find_fresh fuel pos placed) as [[n pos']|] eqn:E; [|discriminate].
    apply find_fresh_spec in E. destruct E as [Hn Hr]. intros H.
    apply IH in H.
    * destruct H as [I [L _]]. split; [exact I|]. split; [|trivial].
      rewrite L, app_length. cbn. lia.
    * destruct HI as [ND R]. split.
      -- apply Permutation_NoDup with (l := n :: placed).
         ++ apply Permutation_cons_append.
         ++ constructor; assumption.
      -- intros x Hx. apply in_app_or in Hx. destruct Hx as [Hx|[<-|[]]]; [apply R; exact Hx| exact Hr].
  + intros H. apply IH in H; [|exact HI]. destruct H as [I [L _]]. split; [exact I|]. split; [|trivial].
    rewrite L. destruct HI as [ND R].
    assert (length placed <= nobj).
    { apply NoDup_incl_length with (l' := seq 0 nobj) in ND.
      - rewrite seq_length in ND. exact ND.
      - intros x Hx. apply in_seq. specialize (R x Hx). lia. }
    lia.
Qed.
Theorem groups_partition slots fuel l :
  nobj <= slots -> fill slots fuel 0 [] = Some l -> Permutation l (seq 0 nobj).
Proof.
intros Hs H. apply fill_inv in H; [|split; [constructor | intros x []]].
destruct H as [[ND R] [L _]]. cbn in L.
apply NoDup_Permutation_bis; [exact ND | rewrite seq_length; lia |].
intros x Hx. apply in_seq. specialize (R x Hx). lia.
Qed.
End G.

(* the library's own stream is in range: the generator's result is a permutation of the objects *)
Lemma draws_from_range st nobj n : 0 < nobj -> (Z.of_nat nobj < 2 ^ 31)%Z ->
  Forall (fun v => v < nobj) (draws_from st nobj n).
Proof.
intros Hn Hb. revert st. induction n as [|n IH]; intros st; cbn [draws_from]; constructor; [|apply IH].
pose proof (randInt_out_range (fst (xorshift128 (fst (randInt_setup st)))) (Z.of_nat nobj)
              (xorshift128_out_range _) ltac:(lia)). lia.
Qed.
Lemma real_stream_range seed nobj i : 0 < nobj -> (Z.of_nat nobj < 2 ^ 31)%Z -> real_stream seed nobj i < nobj.
Proof.
intros Hn Hb. unfold real_stream.
pose proof (draws_from_range (generate_seed seed) nobj ndraws Hn Hb) as F.
destruct (Nat.lt_ge_cases i (length (draws_from (generate_seed seed) nobj ndraws))) as [L|L].
- rewrite Forall_forall in F. apply F. apply nth_In. exact L.
- rewrite nth_overflow by exact L. exact Hn.
Qed.
Theorem real_groups_partition seed nobj slots fuel l : 0 < nobj -> (Z.of_nat nobj < 2 ^ 31)%Z ->
  nobj <= slots -> fill nobj (real_stream seed nobj) slots fuel 0 [] = Some l -> Permutation l (seq 0 nobj).
Proof.
intros Hn Hb Hs H. apply (groups_partition nobj (real_stream seed nobj)) with (slots := slots) (fuel := fuel); auto.
intros i. apply real_stream_range; assumption.
Qed.

(* train ++ test is a rearrangement of all the ids of the group matrix *)
Theorem split_partition (gid : list (list Z)) g : g < length gid ->
  Permutation (fst (split_ids gid g) ++ snd (split_ids gid g)) (flat_map row_ids gid).
Proof.
intros Hg.
assert (E : skipn g gid = nth g gid [] :: skipn (S g) gid).
{ clear -Hg. revert g Hg. induction gid as [|a l IH]; intros [|g] Hg; cbn in *; try lia; [reflexivity|].
  apply IH. lia. }
assert (F : flat_map row_ids gid =
            flat_map row_ids (firstn g gid) ++ row_ids (nth g gid []) ++ flat_map row_ids (skipn (S g) gid)).
{ rewrite <- (firstn_skipn g gid) at 1. rewrite flat_map_app, E. reflexivity. }
unfold split_ids. cbn [fst snd]. rewrite F, flat_map_app, <- app_assoc.
apply Permutation_app_head. apply Permutation_app_comm.
Qed.

Section Loo.
Variables (X Y Mdl P : Type) (fit : list (X * Y) -> Mdl) (predict : Mdl -> X -> P).
Variable dflt : X * Y.
Definition remove_nth (i : nat) (d : list (X * Y)) := firstn i d ++ skipn (S i) d.
Definition loo_at (d : list (X * Y)) (i : nat) : P :=
  predict (fit (remove_nth i d)) (fst (nth i d dflt)).
Definition loo (d : list (X * Y)) : list P := map (loo_at d) (seq 0 (length d)).
Definition set_y (i : nat) (y : Y) (d : list (X * Y)) :=
  firstn i d ++ (fst (nth i d dflt), y) :: skipn (S i) d.
Lemma set_y_length i y d : i < length d -> length (set_y i y d) = length d.
Proof.
intros H. unfold set_y. rewrite app_length, firstn_length. cbn [length].
rewrite skipn_length. lia.
Qed.
Lemma remove_set_y i y d : i < length d -> remove_nth i (set_y i y d) = remove_nth i d.
Proof.
intros H. unfold remove_nth, set_y.
assert (L : length (firstn i d) = i) by (rewrite firstn_length; lia).
rewrite firstn_app, L, Nat.sub_diag. cbn [firstn]. rewrite app_nil_r.
rewrite firstn_all2 by lia. f_equal.
rewrite skipn_app, L. rewrite (skipn_all2 (firstn i d)) by lia.
replace (S i - i) with 1 by lia. reflexivity.
Qed.
Lemma nth_set_y_fst i y d : i < length d -> fst (nth i (set_y i y d) dflt) = fst (nth i d dflt).
Proof.
intros H. unfold set_y. rewrite app_nth2; rewrite firstn_length; [|lia].
replace (i - Nat.min i (length d)) with 0 by lia. reflexivity.
Qed.
Theorem loo_out_of_sample i y d : i < length d -> loo_at (set_y i y d) i = loo_at d i.
Proof. intros H. unfold loo_at. rewrite remove_set_y, nth_set_y_fst by exact H. reflexivity. Qed.
Theorem loo_equals_refit i d : i < length d ->
  nth i (loo d) (loo_at d 0) = predict (fit (remove_nth i d)) (fst (nth i d dflt)).
Proof.
intros H. unfold loo.
rewrite (map_nth (loo_at d) (seq 0 (length d)) 0 i), seq_nth by exact H. reflexivity.
Qed.
End Loo.
