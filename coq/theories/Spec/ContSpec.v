(* ContSpec.v — C14: the bounds-checked container model never leaves its allocations and
   computes what each operation defines, for every value of every argument.

   [vrep v l]: the vector record v represents the list l — its size field is |l|, its buffer
   owns at least |l| cells and the first |l| are written and hold l.  Each operation, started
   on a represented operand, returns [ROk] (no out-of-bounds access, no read of an unwritten
   cell: the only errors of the model) and a record that represents the list the operation
   defines.  Out-of-range accessors perform no access at all. *)
From mathcomp Require Import all_ssreflect.
From mathcomp Require Import zify.
From LS Require Import NumOps Containers.
Set Implicit Arguments. Unset Strict Implicit. Unset Printing Implicit Defensive.

Section Loop.
Variable S : Type.
(* loop invariant rule: the only way the model's loops are reasoned about *)
Lemma loop_inv (P : nat -> S -> Prop) n lo (f : nat -> S -> res S) s :
  P lo s -> (forall i s, lo <= i < lo + n -> P i s -> exists2 s', f i s = ROk s' & P i.+1 s') ->
  exists2 s', loop n lo f s = ROk s' & P (lo + n) s'.
Proof.
elim: n lo s => [|n IH] lo s p0 st /=; first by exists s => //; rewrite addn0.
have [|s1 -> p1] := st lo s _ p0; first by rewrite leqnn /=; lia.
have [i s2 /andP[li hi] pi|s' -> ps'] := IH lo.+1 s1 p1; last by exists s' => //; rewrite addnS -addSn.
by apply: st => //; apply/andP; split; lia.
Qed.
End Loop.

Section Cells.
Context {K : Type} {ops : NumOps K}.
Local Notation buf := (seq (option K)).
Definition cells_ok (b : buf) (l : seq K) : Prop :=
  size l <= size b /\ forall j, j < size l -> nth None b j = Some (nth k0 l j).
Definition vrep (v : @vec K) (l : seq K) : Prop := vsize v = size l /\ cells_ok (vdata v) l.

Lemma rd_ok b l j : cells_ok b l -> j < size l -> rd b j = ROk (nth k0 l j).
Proof. by case=> sz c jl; rewrite /rd (leq_trans jl sz) c. Qed.
Lemma wr_ok (b : buf) j x : j < size b -> wr b j x = ROk (set_nth None b j (Some x)).
Proof. by rewrite /wr => ->. Qed.
Lemma size_set (b : buf) j x : j < size b -> size (set_nth None b j x) = size b.
Proof. by move=> jb; rewrite size_set_nth; apply/maxn_idPr. Qed.
Lemma size_malloc n : size (@malloc K n) = n.
Proof. by rewrite /malloc size_nseq. Qed.
Lemma size_realloc (b : buf) n : size (realloc b n) = n.
Proof. rewrite /realloc size_cat size_take size_nseq; case: ltnP => h; lia. Qed.
Lemma nth_realloc (b : buf) n j : nth None (realloc b n) j = if j < n then nth None b j else None.
Proof.
rewrite /realloc nth_cat size_take; case: (ltnP n (size b)) => h.
  case: ltnP => jn; first by rewrite nth_take.
  by rewrite nth_nseq; case: ifP.
case: (ltnP j (size b)) => jb.
  by rewrite take_oversize // (leq_trans jb h).
by rewrite nth_nseq (nth_default _ jb); case: ifP; case: ifP.
Qed.

(* for (i = 0; i < n; i++) b[off + i] = g i  —  with g possibly read from other buffers *)
Lemma loop_write n off (e : nat -> res K) (g : nat -> K) (b : buf) :
  off + n <= size b -> (forall i, i < n -> e i = ROk (g i)) ->
  exists2 b', loop n 0 (fun i b => let* x := e i in wr b (off + i) x) b = ROk b' &
    size b' = size b /\ forall j, nth None b' j = if off <= j < off + n then Some (g (j - off)) else nth None b j.
Proof.
move=> sz eg.
have [|i s /andP[_ hi] [ss sn]|b' -> [sb' nb']] :=
  @loop_inv buf (fun i s => size s = size b /\ forall j, nth None s j = if off <= j < off + i then Some (g (j - off)) else nth None b j)
    n 0 (fun i b => let* x := e i in wr b (off + i) x) b.
- by split=> // j; rewrite addn0; case: ifP => //; lia.
- rewrite add0n in hi; rewrite (eg _ hi) /= wr_ok; last by rewrite ss; lia.
  eexists; first by []. split; first by rewrite size_set // ss; lia.
  move=> j; rewrite nth_set_nth /= sn; case: eqP => [->|ne].
    by rewrite leq_addr addnS ltnS leqnn /= addKn.
  by rewrite addnS ltnS [j <= off + i]leq_eqVlt (introF eqP ne).
- by exists b' => //; split=> // j; rewrite nb' add0n.
Qed.

(* ---- vectors --------------------------------------------------------------------------- *)
Lemma zero_fill_ok n (b : buf) : n <= size b ->
  exists2 b', zero_fill n b = ROk b' & size b' = size b /\ forall j, nth None b' j = if j < n then Some k0 else nth None b j.
Proof.
move=> nb; have [||b' e [s c]] := @loop_write n 0 (fun _ => ROk k0) (fun _ => k0) b; rewrite ?add0n //.
by exists b' => //; split=> // j; rewrite c add0n.
Qed.
Theorem v_new_ok n : exists2 v, v_new n = ROk v & vrep v (nseq n k0) /\ size (vdata v) = n.
Proof.
have [|b' e [s c]] := @zero_fill_ok n (malloc n); first by rewrite size_malloc.
rewrite /v_new e /=; eexists; first by []. rewrite size_malloc in s.
split=> //; split; rewrite /cells_ok /= size_nseq //; split; first by rewrite s.
by move=> j jn; rewrite c jn nth_nseq jn.
Qed.
Theorem v_resize_ok v n : exists2 v', v_resize v n = ROk v' & vrep v' (nseq n k0).
Proof. by have [v' e [r _]] := v_new_ok n; exists v'. Qed.
Theorem v_append_ok v l x : vrep v l -> exists2 v', v_append v x = ROk v' & vrep v' (rcons l x).
Proof.
case=> sv [sl c]; rewrite /v_append wr_ok; last by rewrite size_realloc.
eexists; first by []. split; rewrite /= ?size_rcons ?sv //; split.
  by rewrite size_rcons size_set ?size_realloc.
move=> j; rewrite size_rcons ltnS nth_set_nth /= nth_realloc nth_rcons; case: eqP => [->|ne] jl.
  by rewrite ltnn.
have jl' : j < size l by lia.
by rewrite jl' ltnS jl c.
Qed.
Theorem v_set_ok ab v l i x : vrep v l -> i < size l ->
  exists2 v', v_set ab v i x = ROk v' & vrep v' (set_nth k0 l i x).
Proof.
case=> sv [sl c] il; rewrite /v_set sv il wr_ok; last exact: leq_trans sl.
have ss : size (set_nth k0 l i x) = size l by rewrite size_set_nth; apply/maxn_idPr.
eexists; first by []. split; rewrite /= ?ss //; split; first by rewrite ss size_set //; apply: leq_trans sl.
by move=> j; rewrite ss !nth_set_nth /= => jl; case: eqP => // _; apply: c.
Qed.
(* out-of-range accessors perform no access: a clean abort, or nothing at all *)
Theorem v_set_out v l i x : vrep v l -> size l <= i ->
  v_set true v i x = RErr CleanAbort /\ v_set false v i x = ROk v.
Proof. by case=> sv _ il; rewrite /v_set sv ltnNge il. Qed.
Theorem v_get_ok v l i : vrep v l ->
  v_get v i = if i < size l then ROk (nth k0 l i) else RErr CleanAbort.
Proof. by case=> sv c; rewrite /v_get sv; case: ifP => // il; apply: rd_ok. Qed.
Theorem v_fill_ok v l x : vrep v l -> exists2 v', v_fill v x = ROk v' & vrep v' (nseq (size l) x).
Proof.
case=> sv [sl c]; rewrite /v_fill sv.
have [||b' e [s cc]] := @loop_write (size l) 0 (fun _ => ROk x) (fun _ => x) (vdata v); rewrite ?add0n //.
have -> : loop (size l) 0 (fun i b => wr b i x) (vdata v) = ROk b' by rewrite -e.
eexists; first by []. split; rewrite /= ?size_nseq //; split; first by rewrite size_nseq s.
by move=> j; rewrite size_nseq => jl; rewrite cc add0n jl nth_nseq jl.
Qed.
Lemma copy_into_ok n (src : buf) ls off (dst : buf) : cells_ok src ls -> n <= size ls -> off + n <= size dst ->
  exists2 b', copy_into n src off dst = ROk b' &
    size b' = size dst /\ forall j, nth None b' j = if off <= j < off + n then Some (nth k0 ls (j - off)) else nth None dst j.
Proof.
move=> cs nl od; apply: (@loop_write n off (fun i => rd src i) (fun i => nth k0 ls i) dst od).
by move=> i ilt; apply: rd_ok => //; apply: leq_trans nl.
Qed.
Theorem v_extend_ok a la b lb : vrep a la -> vrep b lb ->
  exists2 v', v_extend a b = ROk v' & vrep v' (la ++ lb).
Proof.
case=> sa ca [sb cb]; rewrite /v_extend.
have [e -> [[se [sle ce]] sd]] := v_new_ok (vsize a + vsize b); rewrite /= se size_nseq.
have [||d1 -> [s1 c1]] := @copy_into_ok (vsize a) (vdata a) la 0 (vdata e) ca; rewrite ?sa ?sd //=; first by lia.
have [||d2 -> [s2 c2]] := @copy_into_ok (vsize b) (vdata b) lb (size la) d1 cb; rewrite ?sb ?s1 ?sd //=; first by lia.
eexists; first by []. split; rewrite /= ?size_cat ?sa ?sb //; split; first by rewrite size_cat s2 s1 sd sa sb.
move=> j; rewrite size_cat => jl; rewrite c2 c1 add0n nth_cat subn0.
by case: (ltnP j (size la)) => h /=; [rewrite sa h | rewrite sb jl].
Qed.
Theorem v_copy_ok s ls d ld : vrep s ls -> vrep d ld -> exists2 v', v_copy s d = ROk v' & vrep v' ls.
Proof.
case=> ss cs [sd cd]; rewrite /v_copy ss.
have [b0 -> sb0] : exists2 b0, (if vsize d == 0 then zero_fill (size ls) (malloc (size ls))
     else loop (size ls) 0 (fun i b => if i < size ls then wr b i k0 else RErr CleanAbort) (realloc (vdata d) (size ls))) = ROk b0
     & size b0 = size ls.
  case: ifP => _.
    by have [|b' e [sz _]] := @zero_fill_ok (size ls) (malloc (size ls)); rewrite ?size_malloc //; exists b' => //; rewrite sz size_malloc.
  have [|i b /andP[_ hi] sb|b' e sz] := @loop_inv buf (fun _ b => size b = size ls) (size ls) 0
      (fun i b => if i < size ls then wr b i k0 else RErr CleanAbort) (realloc (vdata d) (size ls)).
  - by rewrite size_realloc.
  - by rewrite add0n in hi; rewrite hi wr_ok ?sb //; eexists; first by []; rewrite size_set ?sb.
  - by exists b'.
rewrite /=; have [||b -> [sb cb]] := @copy_into_ok (size ls) (vdata s) ls 0 b0 cs; rewrite ?sb0 //=.
eexists; first by []. split=> //=; split; first by rewrite sb sb0.
by move=> j jl; rewrite cb add0n jl subn0.
Qed.
(* DVectorRemoveAt: memmove within the buffer *)
Theorem v_remove_ok v l i : vrep v l ->
  exists2 v', v_remove v i = ROk v' & vrep v' (if i < size l then take i l ++ drop i.+1 l else l).
Proof.
case=> sv [sl c]; rewrite /v_remove sv; case: ifP => il; last by exists v.
set n := size l - i - 1.
have [|k b /andP[_ hk] [sb nb]|b' -> [sb' nb']] := @loop_inv buf
   (fun k b => size b = size (vdata v) /\ forall j, nth None b j = if i <= j < i + k then nth None (vdata v) j.+1 else nth None (vdata v) j)
   n 0 (fun k b => let* x := rd b (i + 1 + k) in wr b (i + k) x) (vdata v).
- by split=> // j; rewrite addn0; case: ifP => //; lia.
- rewrite add0n in hk.
  have r : rd b (i + 1 + k) = ROk (nth k0 l (i + 1 + k)).
    rewrite /rd sb; have lt : i + 1 + k < size l by rewrite /n in hk; lia.
    rewrite (leq_trans lt sl) nb; have -> : (i <= i + 1 + k < i + k) = false by lia.
    by rewrite c.
  have ik : i + k < size b by rewrite sb; rewrite /n in hk; lia.
  rewrite r /= wr_ok //.
  eexists; first by []. split; first by rewrite size_set.
  move=> j; rewrite nth_set_nth /= nb; case: eqP => [->|ne].
    have -> : (i <= i + k < i + k.+1) = true by lia.
    by rewrite c; [congr (Some (nth _ _ _)); lia | rewrite /n in hk; lia].
  by have -> : (i <= j < i + k.+1) = (i <= j < i + k) by lia.
eexists; first by []. rewrite add0n in nb'.
have sz : size (take i l ++ drop i.+1 l) = (size l).-1 by rewrite size_cat size_take size_drop il; lia.
split; rewrite /= ?sz //; split; first by rewrite sb'; lia.
move=> j jl; rewrite nb' nth_cat size_take il; case: (ltnP j i) => ji.
  by rewrite /= nth_take // c //; lia.
rewrite sz in jl; rewrite nth_drop; have -> /= : (j < i + n) = true by rewrite /n; lia.
by rewrite c; [congr (Some (nth _ _ _)); lia | lia].
Qed.
End Cells.

(* ---- matrices -------------------------------------------------------------------------- *)
Section Matrices.
Context {K : Type} {ops : NumOps K}.
Local Notation buf := (seq (option K)).
Local Notation parr := (seq (option buf)).
(* the row-pointer array p represents the rows A: enough pointers, each written, each row
   buffer representing its row *)
Definition rows_ok (p : parr) (A : seq (seq K)) : Prop :=
  size A <= size p /\ forall i, i < size A -> exists2 b, nth None p i = Some b & cells_ok b (nth [::] A i).
Definition mrep (m : @mat K) (r c : nat) (A : seq (seq K)) : Prop :=
  [/\ mrow m = r, mcol m = c, size A = r, (forall i, i < r -> size (nth [::] A i) = c) &
      match mdata m with Some p => rows_ok p A | None => r = 0 end].

Lemma loop_shift_gen (S : Type) n lo d (f : nat -> S -> res S) s :
  loop n (lo + d) f s = loop n lo (fun i => f (i + d)) s.
Proof. by elim: n lo s => [|n IH] lo s //=; case: (f (lo + d) s) => // s'; rewrite -addSn IH. Qed.
Lemma loop_shift (S : Type) n lo (f : nat -> S -> res S) s : loop n lo f s = loop n 0 (fun i => f (i + lo)) s.
Proof. by rewrite -{1}[lo]add0n loop_shift_gen. Qed.

Lemma rdp_ok (p : parr) i b : i < size p -> nth None p i = Some b -> rdp p i = ROk b.
Proof. by rewrite /rdp => -> ->. Qed.
Lemma wrp_ok (p : parr) i b : i < size p -> wrp p i b = ROk (set_nth None p i (Some b)).
Proof. by rewrite /wrp => ->. Qed.
Lemma size_setp (p : parr) i x : i < size p -> size (set_nth None p i x) = size p.
Proof. by move=> ip; rewrite size_set_nth; apply/maxn_idPr. Qed.

(* for (i = 0; i < n; i++) p[i] = F i (p[i])  —  rows are rewritten one by one *)
Lemma loop_rows n (F : nat -> buf -> res buf) (Q : nat -> buf -> Prop) (p : parr) :
  n <= size p ->
  (forall i, i < n -> exists b b', [/\ nth None p i = Some b, F i b = ROk b' & Q i b']) ->
  exists2 p', loop n 0 (fun i p => let* b := rdp p i in let* b' := F i b in wrp p i b') p = ROk p' &
    [/\ size p' = size p, (forall i, i < n -> exists2 b', nth None p' i = Some b' & Q i b') &
        forall i, n <= i -> nth None p' i = nth None p i].
Proof.
move=> np h.
have [|i s /andP[_ hi] [ss lo hi']|p' -> [sp lo hi']] := @loop_inv parr
  (fun k s => [/\ size s = size p, (forall i, i < k -> exists2 b', nth None s i = Some b' & Q i b') &
                  forall i, k <= i -> nth None s i = nth None p i]) n 0
  (fun i p => let* b := rdp p i in let* b' := F i b in wrp p i b') p.
- by split.
- rewrite add0n in hi; have [b [b' [nb fb qb]]] := h i hi.
  have isz : i < size s by rewrite ss; apply: leq_trans np.
  rewrite (@rdp_ok s i b) //= ?hi' ?nb // fb /= wrp_ok //.
  eexists; first by []. split; first by rewrite size_setp.
    move=> i'; rewrite ltnS leq_eqVlt nth_set_nth /=; case: eqP => [-> _|_ /= lt]; first by exists b'.
    exact: lo.
  by move=> i' lt; rewrite nth_set_nth /=; case: eqP => [e|_]; [lia | apply: hi'; lia].
- by exists p' => //; rewrite add0n in lo hi'.
Qed.

Theorem m_new_ok r c : exists2 m, m_new r c = ROk m & mrep m r c (nseq r (nseq c k0)).
Proof.
rewrite /m_new /alloc_rows.
have [|i s /andP[_ hi] [ss lo]|p' -> [sp lo]] := @loop_inv parr
  (fun k s => size s = r /\ forall i, i < k -> exists2 b, nth None s i = Some b & cells_ok b (nseq c k0)) r 0
  (fun i p => let* b := zero_fill c (malloc c) in wrp p i b) (pmalloc r).
- by rewrite /pmalloc size_nseq.
- rewrite add0n in hi; have [|b -> [sb cb]] := @zero_fill_ok K ops c (malloc c); first by rewrite size_malloc.
  rewrite /= wrp_ok ?ss //; eexists; first by []. split; first by rewrite size_setp ?ss.
  move=> i'; rewrite ltnS leq_eqVlt nth_set_nth /=; case: eqP => [-> _|_ /= lt]; last exact: lo.
  exists b => //; split; rewrite size_nseq ?sb ?size_malloc // => j jc.
  by rewrite cb jc nth_nseq jc.
eexists; first by []. rewrite add0n in lo.
split=> //=; first by rewrite size_nseq.
  by move=> i ir; rewrite nth_nseq ir size_nseq.
by split; rewrite size_nseq ?sp // => i ir; have [b nb cb] := lo i ir; exists b => //; rewrite nth_nseq ir.
Qed.

Lemma loop_ext (S : Type) n lo (f g : nat -> S -> res S) s : (forall i s, f i s = g i s) -> loop n lo f s = loop n lo g s.
Proof. by move=> e; elim: n lo s => [|n IH] lo s //=; rewrite e; case: (g lo s). Qed.
Lemma cells_ok_size (b : buf) (l : seq K) : cells_ok b l -> size l <= size b. Proof. by case. Qed.
(* realloc to nc cells and zero the new ones: row ++ zeros *)
Lemma pad_ok (b : buf) row c nc : cells_ok b row -> size row = c -> c <= nc ->
  exists2 b', loop (nc - c) c (fun j b => wr b j k0) (realloc b nc) = ROk b' & cells_ok b' (row ++ nseq (nc - c) k0).
Proof.
move=> [sb cb] sr cn; rewrite loop_shift.
rewrite (@loop_ext _ _ _ _ (fun i b => let* x := ROk k0 in wr b (c + i) x)); last by move=> i s /=; rewrite addnC.
have [||b' -> [sb' cb']] := @loop_write K (nc - c) c (fun _ => ROk k0) (fun _ => k0) (realloc b nc) => //.
  by rewrite size_realloc; lia.
exists b' => //; split; first by rewrite size_cat size_nseq sb' size_realloc; lia.
move=> j; rewrite size_cat size_nseq sr => jl; rewrite cb' nth_cat sr nth_realloc.
case: (ltnP j c) => jc /=; last first.
  have -> : j < c + (nc - c) by lia.
  by rewrite nth_nseq; case: ifP.
by rewrite (leq_trans jc cn) cb // sr.
Qed.
Lemma mrep_rows m r c A p : mrep m r c A -> mdata m = Some p -> rows_ok p A.
Proof. by case=> _ _ _ _; case: (mdata m) => // p' h [<-]. Qed.

Theorem m_get_ok m r c A i j : mrep m r c A ->
  m_get m i j = ROk (if (i < r) && (j < c) then Some (nth k0 (nth [::] A i) j) else None).
Proof.
move=> mr; case: (mr) => er ec sA cA dm; rewrite /m_get er ec; case: ifP => // /andP[ir jc].
case e: (mdata m) dm => [p|] dm; last by rewrite dm in ir.
case: dm => sp rp; rewrite sA in sp rp; have [b nb cb] := rp i ir.
by rewrite /= (@rdp_ok p i b) //= ?(rd_ok cb) ?cA //; apply: leq_trans sp.
Qed.
Theorem m_set_ok m r c A i j x : mrep m r c A -> i < r -> j < c ->
  exists2 m', m_set m i j x = ROk m' &
    mrep m' r c (set_nth [::] A i (set_nth k0 (nth [::] A i) j (if kisnan x || kisinf x then klit lit_MISSING else x))).
Proof.
move=> mr ir jc; case: (mr) => er ec sA cA dm; rewrite /m_set er ec ir jc /=.
case e: (mdata m) dm => [p|] dm; last by rewrite dm in ir.
case: dm => sp rp; rewrite sA in sp rp; have [b nb cb] := rp i ir.
have ip : i < size p by apply: leq_trans sp.
set x' := if _ then _ else _.
have jb : j < size b by case: cb => sb _; rewrite cA // in sb; apply: leq_trans sb.
rewrite /= (@rdp_ok p i b) //= wr_ok //= wrp_ok //; eexists; first by [].
have sr : size (set_nth k0 (nth [::] A i) j x') = c by rewrite size_set_nth cA //; apply/maxn_idPr.
have sA' : size (set_nth [::] A i (set_nth k0 (nth [::] A i) j x')) = r by rewrite size_set_nth sA; apply/maxn_idPr.
split=> //=.
  by move=> i' i'r; rewrite nth_set_nth /=; case: eqP => [_|_]; [exact: sr | exact: cA].
split; first by rewrite sA' size_setp.
rewrite sA' => i' i'r; rewrite !nth_set_nth /=; case: eqP => [e'|_]; last exact: rp.
exists (set_nth None b j (Some x')) => //; split; first by rewrite sr size_set //; case: cb; rewrite cA.
move=> j'; rewrite sr !nth_set_nth /= => j'c; case: eqP => // _.
by case: cb => _; apply; rewrite cA.
Qed.
(* out of range: the matrix is not touched at all *)
Theorem m_set_out m r c A i j x : mrep m r c A -> ~~ ((i < r) && (j < c)) -> m_set m i j x = ROk m.
Proof. by case=> er ec _ _ _; rewrite /m_set er ec => /negbTE ->. Qed.

Lemma nth_prealloc (p : option parr) n i :
  nth None (prealloc p n) i = if i < n then nth None (if p is Some x then x else [::]) i else None.
Proof.
rewrite /prealloc; set old := (if p is Some x then x else [::]).
rewrite nth_cat size_take; case: (ltnP n (size old)) => h.
  case: ltnP => jn; first by rewrite nth_take.
  by rewrite nth_nseq; case: ifP.
case: (ltnP i (size old)) => jb; first by rewrite take_oversize // (leq_trans jb h).
by rewrite nth_nseq (nth_default _ jb); case: ifP; case: ifP.
Qed.
Lemma size_prealloc (p : option parr) n : size (prealloc p n) = n.
Proof. rewrite /prealloc size_cat size_take size_nseq; case: ltnP => h; lia. Qed.

(* MatrixAppendRow with a row shorter than, as long as, or longer than the matrix is wide *)
Theorem m_approw_ok m r c A v l : mrep m r c A -> vrep v l ->
  let nc := maxn c (size l) in
  exists2 m', m_approw m v = ROk m' &
    mrep m' r.+1 nc (map (fun row => row ++ nseq (nc - c) k0) A ++ [:: l ++ nseq (nc - size l) k0]).
Proof.
move=> mr [sv cv] nc; case: (mr) => er ec sA cA dm; rewrite /m_approw er ec sv.
set colsize := (if c != 0 then _ else _).
have cs : colsize = nc.
  by rewrite /colsize /nc; case: eqP => [->|_] /=; [rewrite max0n | case: ltnP => h; lia].
rewrite cs; set p0 := prealloc _ _.
have sp0 : size p0 = r.+1 by rewrite size_prealloc.
have rp0 i : i < r -> exists2 b, nth None p0 i = Some b & cells_ok b (nth [::] A i).
  move=> ir; rewrite nth_prealloc ltnS (ltnW ir); case e: (mdata m) dm => [p|] dm; last by rewrite dm in ir.
  by case: dm => _; rewrite sA; apply.
have cl : c < size l -> (if c < size l then size l else c) = nc by rewrite /nc => h; rewrite h; lia.
have cl' : c < size l = false -> (if c < size l then size l else c) = nc by rewrite /nc => h; rewrite h; lia.
set A' := _ ++ _.
have sA' : size A' = r.+1 by rewrite /A' size_cat size_map sA addn1.
have cA' i : i < r.+1 -> size (nth [::] A' i) = nc.
  rewrite ltnS leq_eqVlt /A' nth_cat size_map sA => /orP[/eqP ->|ir].
    by rewrite ltnn subnn /= size_cat size_nseq /nc; lia.
  by rewrite ir (nth_map [::]) ?sA // size_cat size_nseq cA // /nc; lia.
have fin (p : parr) : size p = r.+1 ->
   (forall i, i < r -> exists2 b, nth None p i = Some b & cells_ok b (nth [::] A i ++ nseq (nc - c) k0)) ->
   (exists2 b, nth None p r = Some b & cells_ok b (l ++ nseq (nc - size l) k0)) ->
   mrep (Mat r.+1 nc (Some p)) r.+1 nc A'.
  move=> sp lo [b nb cb]; split=> //=; split; first by rewrite sA' sp.
  rewrite sA' => i; rewrite ltnS leq_eqVlt /A' nth_cat size_map sA => /orP[/eqP ->|ir].
    by rewrite ltnn subnn /=; exists b.
  by rewrite ir (nth_map [::]) ?sA //; apply: lo.
case: (ltnP c nc) => cn.
- (* the row is longer: every existing row grows and is zero filled *)
  have ll : c < size l by rewrite /nc in cn; lia.
  have nl : nc = size l by rewrite /nc; lia.
  have [||p1 -> [sp1 lo hi]] := @loop_rows r (fun i b => loop (nc - c) c (fun j b => wr b j k0) (realloc b nc))
      (fun i b' => cells_ok b' (nth [::] A i ++ nseq (nc - c) k0)) p0; first by rewrite sp0.
    move=> i ir; have [b nb cb] := rp0 i ir.
    by have [b' e cb'] := @pad_ok b (nth [::] A i) c nc cb (cA i ir) (ltnW cn); exists b, b'.
  have [|nb -> [snb cnb]] := @copy_into_ok K ops (size l) (vdata v) l 0 (malloc nc) cv (leqnn _); rewrite ?size_malloc ?nl //=.
  rewrite wrp_ok ?sp1 ?sp0 //= ll -nl; eexists; first by []. apply: fin => //.
    by rewrite size_setp ?sp1 ?sp0.
    move=> i ir; rewrite nth_set_nth /=; case: eqP => [e|_]; first by rewrite e ltnn in ir.
    exact: lo.
  rewrite nth_set_nth /= eqxx; exists nb => //; rewrite nl subnn cats0; split; first by rewrite snb size_malloc nl.
  by move=> j jl; rewrite cnb add0n jl subn0.
- (* the row is not longer: a new row of c cells, zero filled past the vector *)
  have lc : size l <= c by rewrite /nc in cn; lia.
  have nce : nc = c by rewrite /nc; lia.
  have -> : (c < size l) = false by lia.
  rewrite (@loop_ext _ _ _ _ (fun i b => let* x := (if i < size l then rd (vdata v) i else ROk k0) in wr b (0 + i) x)); last first.
    by move=> i b; rewrite add0n; case: ifP.
  have [||nb -> [snb cnb]] := @loop_write K c 0 (fun i => if i < size l then rd (vdata v) i else ROk k0)
        (fun i => nth k0 (l ++ nseq (nc - size l) k0) i) (malloc nc); rewrite ?size_malloc ?nce ?add0n //.
    by move=> i ic; case: ifP => il; [rewrite (rd_ok cv) // nth_cat il | rewrite nth_cat il nth_nseq; case: ifP].
  rewrite /= wrp_ok ?sp0 //=; eexists; first by []. rewrite -{1 2}nce; apply: fin.
  - by rewrite size_setp ?sp0.
  - move=> i ir; rewrite nth_set_nth /=; case: eqP => [e|_]; first by rewrite e ltnn in ir.
    by rewrite nce subnn cats0; apply: rp0.
  - rewrite nth_set_nth /= eqxx; exists nb => //; split.
      by rewrite size_cat size_nseq snb size_malloc; lia.
    by move=> j; rewrite size_cat size_nseq => jl; rewrite cnb add0n subn0 nce; have -> : j < c by lia.
Qed.

(* rows lo .. lo+n-1 rewritten one by one *)
Lemma loop_rows_at n lo (F : nat -> buf -> res buf) (Q : nat -> buf -> Prop) (p : parr) :
  lo + n <= size p ->
  (forall i, lo <= i < lo + n -> exists b b', [/\ nth None p i = Some b, F i b = ROk b' & Q i b']) ->
  exists2 p', loop n lo (fun i p => let* b := rdp p i in let* b' := F i b in wrp p i b') p = ROk p' &
    [/\ size p' = size p, (forall i, lo <= i < lo + n -> exists2 b', nth None p' i = Some b' & Q i b') &
        forall i, ~~ (lo <= i < lo + n) -> nth None p' i = nth None p i].
Proof.
move=> np h.
have [|i s /andP[li hi] [ss lo' hi']|p' -> [sp lo' hi']] := @loop_inv parr
  (fun k s => [/\ size s = size p, (forall i, lo <= i < k -> exists2 b', nth None s i = Some b' & Q i b') &
                  forall i, ~~ (lo <= i < k) -> nth None s i = nth None p i]) n lo
  (fun i p => let* b := rdp p i in let* b' := F i b in wrp p i b') p.
- by split=> // i; lia.
- have [|b [b' [nb fb qb]]] := h i; first by rewrite li hi.
  have isz : i < size s by rewrite ss; lia.
  rewrite (@rdp_ok s i b) //=; last by rewrite hi' //; lia.
  rewrite fb /= wrp_ok //; eexists; first by []. split; first by rewrite size_setp.
    move=> i' /andP[l1 l2]; rewrite nth_set_nth /=; case: eqP => [->|ne]; first by exists b'.
    by apply: lo'; lia.
  by move=> i' ni; rewrite nth_set_nth /=; case: eqP => [e|_]; [lia | apply: hi'; lia].
- by exists p'.
Qed.

(* MatrixAppendCol with a column shorter than, as long as, or longer than the matrix is tall *)
Theorem m_appcol_ok m r c A v l : mrep m r c A -> vrep v l ->
  let nr := maxn r (size l) in
  exists2 m', m_appcol m v = ROk m' &
    mrep m' nr c.+1 (mkseq (fun i => (if i < r then nth [::] A i else nseq c k0) ++ [:: nth k0 l i]) nr).
Proof.
move=> mr [sv cv] nr; case: (mr) => er ec sA cA dm; rewrite /m_appcol /m_appcol_gen er ec sv.
set rowsize := (if r != 0 then _ else _).
have rs : rowsize = nr.
  by rewrite /rowsize /nr; case: eqP => [->|_] /=; [rewrite max0n | case: ltnP => h; lia].
rewrite rs; set p0 := (if r < nr then _ else _).
set lastval := fun i => nth k0 l i.
have sp0 : nr <= size p0.
  rewrite /p0; case: ltnP => h; first by rewrite size_prealloc.
  have -> : nr = r by rewrite /nr; lia.
  by case e: (mdata m) dm => [p|] dm; [case: dm; rewrite sA | rewrite dm].
have rp0 i : i < r -> exists2 b, nth None p0 i = Some b & cells_ok b (nth [::] A i).
  move=> ir; case e: (mdata m) dm => [p|] dm; last by rewrite dm in ir.
  case: dm => _; rewrite sA => /(_ i ir) [b nb cb]; exists b => //.
  by rewrite /p0 e; case: ifP => // h; rewrite nth_prealloc; have -> : i < nr by rewrite /nr; lia.
(* phase 1: every row buffer has c+1 cells, the old cells are kept *)
pose Q1 i (b : buf) := size b = c.+1 /\ (i < r -> forall j, j < c -> nth None b j = Some (nth (@k0 K ops) (nth [::] A i) j)).
have [|i s /andP[_ hi] [ss lo hi']|p1 -> [sp1 lo1 _]] := @loop_inv parr
  (fun k s => [/\ size s = size p0, (forall i, i < k -> exists2 b, nth None s i = Some b & Q1 i b) &
                  forall i, k <= i -> nth None s i = nth None p0 i]) nr 0
  (fun i p => if i < r then let* b := rdp p i in wrp p i (realloc b c.+1) else wrp p i (malloc c.+1)) p0.
- by split.
- rewrite add0n in hi; have isz : i < size s by rewrite ss; apply: leq_trans sp0.
  case: ifP => ir.
    have [b nb cb] := rp0 i ir; rewrite (@rdp_ok s i b) //= ?hi' // wrp_ok //; eexists; first by [].
    split; first by rewrite size_setp.
      move=> i'; rewrite ltnS leq_eqVlt nth_set_nth /=; case: eqP => [-> _|_ /= lt]; last exact: lo.
      exists (realloc b c.+1) => //; split; first by rewrite size_realloc.
      move=> _ j jc; rewrite nth_realloc; have -> : j < c.+1 by lia.
      by case: cb => _; apply; rewrite cA.
    by move=> i' lt; rewrite nth_set_nth /=; case: eqP => [e|_]; [lia | apply: hi'; lia].
  rewrite wrp_ok //; eexists; first by []. split; first by rewrite size_setp.
    move=> i'; rewrite ltnS leq_eqVlt nth_set_nth /=; case: eqP => [-> _|_ /= lt]; last exact: lo.
    by exists (malloc c.+1) => //; split; [rewrite size_malloc | rewrite ir].
  by move=> i' lt; rewrite nth_set_nth /=; case: eqP => [e|_]; [lia | apply: hi'; lia].
rewrite add0n in lo1; rewrite /=.
(* phase 2: the last column *)
pose Q2 i (b : buf) := Q1 i b /\ nth None b c = Some (lastval i).
have setlast n short : n <= nr -> (forall i, i < n -> (short && ~~ (i < size l)) || (i < size l)) ->
  exists2 q, loop n 0 (fun i p => let* b := rdp p i in
                         let* b' := (if short && ~~ (i < size l) then wr b c k0
                                     else let* x := rd (vdata v) i in wr b c x) in wrp p i b') p1 = ROk q &
    [/\ size q = size p1, (forall i, i < n -> exists2 b, nth None q i = Some b & Q2 i b) &
        forall i, n <= i -> nth None q i = nth None p1 i].
  move=> nn ok.
  have [||q -> [sq lo2 hi2]] := @loop_rows_at n 0 (fun i b => if short && ~~ (i < size l) then wr b c k0
                                     else let* x := rd (vdata v) i in wr b c x) Q2 p1.
  - by rewrite add0n sp1; apply: leq_trans sp0.
  - move=> i; rewrite add0n => /= hi; have [|b nb [sb ob]] := lo1 i; first exact: leq_trans nn.
    have cb : c < size b by rewrite sb.
    exists b; case: ifP => sh.
      rewrite wr_ok //; eexists; split=> //; split; last first.
        by rewrite nth_set_nth /= eqxx /lastval nth_default //; case/andP: sh => _; rewrite -leqNgt.
      split; first by rewrite size_set.
      by move=> ir j jc; rewrite nth_set_nth /=; case: eqP => [e|_]; [lia | apply: ob].
    have il : i < size l by have := ok i hi; rewrite sh.
    rewrite (rd_ok cv) //= wr_ok //; eexists; split=> //; split; last by rewrite nth_set_nth /= eqxx.
    split; first by rewrite size_set.
    by move=> ir j jc; rewrite nth_set_nth /=; case: eqP => [e|_]; [lia | apply: ob].
  exists q => //; split=> // i hi; have := hi2 i; rewrite add0n /=; apply; lia.
(* the rows of the result *)
set A' := mkseq _ nr.
have fin (q : parr) : nr <= size q ->
   (forall i, i < nr -> exists2 b, nth None q i = Some b & cells_ok b (nth [::] A' i)) ->
   mrep (Mat nr c.+1 (Some q)) nr c.+1 A'.
  move=> sq lo; split=> //=; rewrite ?size_mkseq //.
    move=> i inr; rewrite nth_mkseq // size_cat /= addn1; congr _.+1.
    by case: ifP => ir; [rewrite cA | rewrite size_nseq].
  by split; rewrite size_mkseq.
have rowok i b : i < nr -> Q2 i b -> (i < r \/ forall j, j < c -> nth None b j = Some k0) -> cells_ok b (nth [::] A' i).
  move=> inr [[sb ob] lb] alt; rewrite nth_mkseq //; split.
    by rewrite size_cat /= addn1 sb ltnS; case: ifP => ir; [rewrite cA | rewrite size_nseq].
  move=> j; rewrite size_cat /= addn1 nth_cat.
  have -> : size (if i < r then nth [::] A i else nseq c k0) = c by case: ifP => ir; [rewrite cA | rewrite size_nseq].
  rewrite ltnS leq_eqVlt => /orP[/eqP ->|jc]; first by rewrite ltnn subnn /= lb.
  rewrite jc; case: ifP => ir; first exact: ob.
  by rewrite nth_nseq jc; case: alt => [|h]; [rewrite ir | apply: h].
case: (ltnP (size l) r) => lr.
- (* shorter than the matrix is tall: zero below the vector *)
  have nre : nr = r by rewrite /nr; lia.
  have [||q -> [sq lo2 _]] := setlast r true; rewrite ?nre //.
    by move=> i ir /=; case: (i < size l).
  eexists; first by []. rewrite -{1 2}nre; apply: fin; first by rewrite sq sp1.
  by move=> i; rewrite nre => ir; have [b nb qb] := lo2 i ir; exists b => //; apply: rowok; rewrite ?nre //; left.
case: (ltnP r nr) => rn.
- (* longer: new rows, zero filled except for the last cell *)
  have nre : nr = size l by rewrite /nr; lia.
  have [||q -> [sq lo2 _]] := setlast nr false => //; first by move=> i; rewrite nre => ->.
  rewrite /=.
  pose Q3 i (b : buf) := Q2 i b /\ forall j, j < c -> nth None b j = Some (@k0 K ops).
  have [||q' -> [sq' lo3 hi3]] := @loop_rows_at (nr - r) r (fun i b => loop c 0 (fun j b => wr b j k0) b) Q3 q.
  - by rewrite sq sp1; have := sp0; lia.
  - move=> i /andP[ri ir]; have [|b nb [[sb ob] lb]] := lo2 i; first by lia.
    have [||b' e [sb' cb']] := @loop_write K c 0 (fun _ => ROk k0) (fun _ => k0) b; rewrite ?add0n ?sb //.
    exists b, b'; split=> //.
    split; last by move=> j jc; rewrite cb' add0n jc.
    split; last by rewrite cb' add0n ltnn.
    split; first by rewrite sb'.
    by move=> ir'; lia.
  eexists; first by []. apply: fin; first by rewrite sq' sq sp1.
  move=> i inr; case: (ltnP i r) => ir.
    have [b nb qb] := lo2 i inr; exists b; last by apply: rowok => //; left.
    by rewrite hi3 //; lia.
  have [|b nb [qb zb]] := lo3 i; first by lia.
  by exists b => //; apply: rowok => //; right.
- (* exactly as long as the matrix is tall *)
  have nre : nr = r by rewrite /nr; lia.
  have le : size l = r by rewrite /nr in rn; lia.
  have [||q -> [sq lo2 _]] := setlast nr false => //; first by move=> i; rewrite nre le => ->.
  eexists; first by []. apply: fin; first by rewrite sq sp1.
  by move=> i inr; have [b nb qb] := lo2 i inr; exists b => //; apply: rowok => //; left; rewrite -nre.
Qed.
End Matrices.

(* ---- histories: any sequence of operations on a vector / on a matrix --------------------- *)
Section Histories.
Context {K : Type} {ops : NumOps K}.
Inductive vop := OAppend of K | ORemove of nat | OSet of nat & K | OResize of nat | OFill of K.
Definition vop_spec (l : seq K) (o : vop) : seq K :=
  match o with
  | OAppend x => rcons l x
  | ORemove i => if i < size l then take i l ++ drop i.+1 l else l
  | OSet i x => if i < size l then set_nth k0 l i x else l
  | OResize n => nseq n k0
  | OFill x => nseq (size l) x
  end.
(* an out-of-range set aborts cleanly (dvector) or is ignored (uivector): the vector is unchanged *)
Definition vop_exec (ab : bool) (v : @vec K) (o : vop) : res vec :=
  match o with
  | OAppend x => v_append v x
  | ORemove i => v_remove v i
  | OSet i x => match v_set ab v i x with RErr CleanAbort => ROk v | r => r end
  | OResize n => v_resize v n
  | OFill x => v_fill v x
  end.
Fixpoint vrun (ab : bool) (v : vec) (h : seq vop) : res vec :=
  match h with [::] => ROk v | o :: h' => let* v' := vop_exec ab v o in vrun ab v' h' end.
Theorem vector_histories ab (h : seq vop) v l : vrep v l ->
  exists2 v', vrun ab v h = ROk v' & vrep v' (foldl vop_spec l h).
Proof.
elim: h v l => [|o h IH] v l vr /=; first by exists v.
have [v1 e1 r1] : exists2 v1, vop_exec ab v o = ROk v1 & vrep v1 (vop_spec l o).
  case: o => [x|i|i x|n|x] /=.
  - exact: v_append_ok.
  - exact: v_remove_ok.
  - case: ltnP => il; first by have [v' -> r'] := v_set_ok ab x vr il; exists v'.
    by have [e1 e2] := v_set_out x vr il; case: (ab); rewrite ?e1 ?e2; exists v.
  - exact: v_resize_ok.
  - exact: v_fill_ok.
by rewrite e1 /=; apply: IH.
Qed.

(* matrix histories: set (any position), append a row / a column held by any represented vector *)
Inductive mop := PSet of nat & nat & K | PAppRow of @vec K & seq K | PAppCol of @vec K & seq K.
Definition mop_wf (o : mop) : Prop :=
  match o with PSet _ _ _ => True | PAppRow v l => vrep v l | PAppCol v l => vrep v l end.
Definition mop_spec (s : nat * nat * seq (seq K)) (o : mop) : nat * nat * seq (seq K) :=
  let: (r, c, A) := s in
  match o with
  | PSet i j x => if (i < r) && (j < c) then
                    (r, c, set_nth [::] A i (set_nth k0 (nth [::] A i) j (if kisnan x || kisinf x then klit lit_MISSING else x)))
                  else s
  | PAppRow _ l => let nc := maxn c (size l) in
                   (r.+1, nc, map (fun row => row ++ nseq (nc - c) k0) A ++ [:: l ++ nseq (nc - size l) k0])
  | PAppCol _ l => let nr := maxn r (size l) in
                   (nr, c.+1, mkseq (fun i => (if i < r then nth [::] A i else nseq c k0) ++ [:: nth k0 l i]) nr)
  end.
Arguments mop_spec : simpl never.
Definition mop_exec (m : @mat K) (o : mop) : res mat :=
  match o with PSet i j x => m_set m i j x | PAppRow v _ => m_approw m v | PAppCol v _ => m_appcol m v end.
Fixpoint mrun (m : mat) (h : seq mop) : res mat :=
  match h with [::] => ROk m | o :: h' => let* m' := mop_exec m o in mrun m' h' end.
Theorem matrix_histories (h : seq mop) m r c A : (forall o, List.In o h -> mop_wf o) -> mrep m r c A ->
  exists2 m', mrun m h = ROk m' &
    let: (r', c', A') := foldl mop_spec (r, c, A) h in mrep m' r' c' A'.
Proof.
elim: h m r c A => [|o h IH] m r c A wf mr /=; first by exists m.
have wo : mop_wf o by apply: wf; left.
have [m1 e1 r1] : exists2 m1, mop_exec m o = ROk m1 & let: (r', c', A') := mop_spec (r, c, A) o in mrep m1 r' c' A'.
  case: o wo {wf} => [i j x _|v l vr|v l vr]; rewrite /mop_spec /=.
  - case: ifP => [/andP[ir jc]|/negbT no]; first exact: m_set_ok.
    by rewrite (m_set_out x mr no); exists m.
  - exact: m_approw_ok.
  - exact: m_appcol_ok.
rewrite e1 /=; case e: (mop_spec (r, c, A) o) r1 => [[r' c'] A'] r1.
by apply: IH => // o' ino; apply: wf; right.
Qed.
End Histories.
