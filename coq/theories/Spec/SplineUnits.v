(* SplineUnits.v — C19: the natural cubic spline does not depend on the units of x.  For the sequences of the Thomas algorithm of
   Spec/SplineSpec.v (the forward sweep l, u, z, the back substitution c, the coefficient formulas b, d of interpolate.c) over any
   real field, strictly increasing knots and any factor s <> 0: with every knot spacing multiplied by s the right-hand sides are
   divided by s, u is unchanged, z and c are divided by s^2, b by s and d by s^3 — so every piece, evaluated at s times the
   offset, returns the same value. *)
From mathcomp Require Import all_ssreflect all_algebra.
From mathcomp Require Import ring.
From LS Require Import SplineSpec.
Set Implicit Arguments. Unset Strict Implicit. Unset Printing Implicit Defensive.
Import Order.TTheory GRing.Theory Num.Theory.
Local Open Scope ring_scope.

Section Units.
Variable R : realFieldType.
Variables (h a : nat -> R) (n : nat) (s : R).
Hypothesis h_pos : forall i, 0 < h i.
Hypothesis s0 : s != 0.
(* right-hand sides as interpolate.c forms them from the ordinates a and the spacings *)
Definition alpha (hh : nat -> R) i : R := 3 / hh i * (a i.+1 - a i) - 3 / hh i.-1 * (a i - a i.-1).
Let h' := fun i => s * h i.
Let al := alpha h.
Let al' := alpha h'.
Let hn0 i : h i != 0. Proof. by rewrite gt_eqF. Qed.

Lemma alpha_units i : al' i = al i / s.
Proof. by rewrite /al' /al /alpha /h'; field; rewrite s0 !hn0. Qed.

Lemma lS (hh aa : nat -> R) i : l_ hh aa i.+1 = 2 * (hh i.+1 + hh i) - hh i * u_ hh aa i.
Proof. by rewrite {1}/l_ luS. Qed.
Lemma uS (hh aa : nat -> R) i : u_ hh aa i.+1 = hh i.+1 / l_ hh aa i.+1.
Proof. by rewrite {1}/u_ luS. Qed.
Lemma zS (hh aa : nat -> R) i : z_ hh aa i.+1 = (aa i.+1 - hh i * z_ hh aa i) / l_ hh aa i.+1.
Proof. by rewrite {1}/z_ luS. Qed.

Lemma sweep_units i : [/\ u_ h' al' i = u_ h al i, z_ h' al' i = z_ h al i / s ^+ 2 & l_ h' al' i.+1 = s * l_ h al i.+1].
Proof.
elim: i => [|i [eu ez el]].
  split; rewrite ?lS /u_ /z_ /= ?mul0r ?mulr0 ?subr0 //.
  by rewrite /h'; ring.
have el2 : l_ h' al' i.+2 = s * l_ h al i.+2 by rewrite !lS !uS el /h'; field; rewrite s0 gt_eqF //; case: (@pivots _ h al h_pos i.+1).
have [lp _] := @pivots _ h al h_pos i.+1.
have ln0 : l_ h al i.+1 != 0 by rewrite gt_eqF.
split=> //.
- by rewrite !uS el /h'; field; rewrite s0 ln0.
- by rewrite !zS el ez alpha_units /h'; field; rewrite s0 ln0.
Qed.

Lemma back_units j : c_ h' al' n j = c_ h al n j / s ^+ 2.
Proof.
rewrite /c_; elim: (n - j)%N => [|k IH] /=; first by rewrite mul0r.
by have [-> -> _] := sweep_units (n - k.+1); rewrite IH mulrA mulrBl.
Qed.

Lemma bcoef_units a0 a1 hh c0 c1 : hh != 0 -> bcoef a0 a1 (s * hh) (c0 / s ^+ 2) (c1 / s ^+ 2) = bcoef a0 a1 hh c0 c1 / s.
Proof. by move=> hh0; rewrite /bcoef; field; rewrite s0 hh0. Qed.
Lemma dcoef_units hh c0 c1 : hh != 0 -> dcoef (s * hh) (c0 / s ^+ 2) (c1 / s ^+ 2) = dcoef hh c0 c1 / s ^+ 3.
Proof. by move=> hh0; rewrite /dcoef; field; rewrite s0 hh0. Qed.
Lemma S_units a0 b c d t : S a0 (b / s) (c / s ^+ 2) (d / s ^+ 3) (s * t) = S a0 b c d t.
Proof. by rewrite /S; field. Qed.

(* piece j of the spline fitted to abscissae in the other unit, evaluated at the offset in that unit *)
Theorem spline_units j t :
  let c' := c_ h' al' n in let c := c_ h al n in
  S (a j) (bcoef (a j) (a j.+1) (h' j) (c' j) (c' j.+1)) (c' j) (dcoef (h' j) (c' j) (c' j.+1)) (s * t)
  = S (a j) (bcoef (a j) (a j.+1) (h j) (c j) (c j.+1)) (c j) (dcoef (h j) (c j) (c j.+1)) t.
Proof. by move=> c' c; rewrite /c' !back_units bcoef_units // dcoef_units // S_units. Qed.
End Units.
