(* SplineSpec.v — natural cubic spline by the Thomas algorithm (C19): for strictly increasing
   knots the pivots are positive with 0 <= u_i < 1/2 (definedness), the computed c solve the
   tridiagonal system, c_0 = c_n = 0; and, for ANY c, the coefficient formulas of the code make
   each piece interpolate both end points and have matching second derivatives; first
   derivatives match exactly when the tridiagonal equation holds. *)
From mathcomp Require Import all_ssreflect all_algebra.
From mathcomp Require Import ring.
Set Implicit Arguments. Unset Strict Implicit. Unset Printing Implicit Defensive.
Import Order.TTheory GRing.Theory Num.Theory.
Local Open Scope ring_scope.
Section Spline.
Variable R : realFieldType.
(* interpolate.c:13-73: knots x_0 < ... < x_n, h_i = x_{i+1} - x_i, right-hand sides al_i *)
Variables (h al : nat -> R) (n : nat).
Hypothesis h_pos : forall i, 0 < h i.
Fixpoint lu (i : nat) : R * R * R :=      (* (l_i, u_i, z_i) of the forward sweep *)
  match i with
  | 0 => (1, 0, 0)
  | i'.+1 => let '(_, u', z') := lu i' in
             let l := 2 * (h i'.+1 + h i') - h i' * u' in
             (l, h i'.+1 / l, (al i'.+1 - h i' * z') / l)
  end.
Definition l_ i := (lu i).1.1.
Definition u_ i := (lu i).1.2.
Definition z_ i := (lu i).2.
Lemma luS i : lu i.+1 = (2 * (h i.+1 + h i) - h i * u_ i, h i.+1 / l_ i.+1, (al i.+1 - h i * z_ i) / l_ i.+1).
Proof. by rewrite /l_ /u_ /z_ /=; case: (lu i) => [[a b] c]. Qed.
(* diagonal dominance: the pivots never vanish and 0 <= u_i < 1/2 *)
Lemma pivots i : 0 < l_ i /\ 0 <= u_ i < 2^-1.
Proof.
have half2 : 2^-1 < 2 :> R by rewrite (@lt_trans _ _ 1) ?invf_lt1 ?ltr1n ?ltr0n.
elim: i => [|i [li /andP[u0 u1]]]; first by rewrite /l_ /u_ /= ltr01 lexx invr_gt0 ltr0n.
have lE : l_ i.+1 = h i.+1 * 2 + h i * (2 - u_ i) by rewrite /l_ luS /=; ring.
have lS : h i.+1 * 2 < l_ i.+1.
  by rewrite lE ltr_addl mulr_gt0 // subr_gt0 (lt_trans u1).
have lpos : 0 < l_ i.+1 by apply: lt_trans lS; rewrite mulr_gt0 ?ltr0n.
split=> //; rewrite /u_ luS /= -/(l_ i.+1) divr_ge0 ?ltW //=.
by rewrite ltr_pdivr_mulr // mulrC ltr_pdivl_mulr ?ltr0n.
Qed.
(* back substitution, indexed from the end: cb k = c_{n-k} *)
Fixpoint cb (k : nat) : R := if k is k'.+1 then z_ (n - k) - u_ (n - k) * cb k' else 0.
Definition c_ j := cb (n - j).
Lemma c_last : c_ n = 0. Proof. by rewrite /c_ subnn. Qed.
Lemma c_step j : (j < n)%N -> c_ j = z_ j - u_ j * c_ j.+1.
Proof. by move=> jn; rewrite /c_ -(subnSK jn) /= (subnSK jn) subKn // ltnW. Qed.
Lemma c_first : (0 < n)%N -> c_ 0 = 0.
Proof. by move=> n0; rewrite c_step // /z_ /u_ /= mul0r subrr. Qed.
(* the tridiagonal system of the natural spline is satisfied at every interior knot *)
Theorem tridiagonal j : (j.+1 < n)%N ->
  h j * c_ j + 2 * (h j.+1 + h j) * c_ j.+1 + h j.+1 * c_ j.+2 = al j.+1.
Proof.
move=> jn; have [lpos _] := pivots j.+1.
have zE : z_ j.+1 = (al j.+1 - h j * z_ j) / l_ j.+1 by rewrite {1}/z_ luS.
have uE : u_ j.+1 = h j.+1 / l_ j.+1 by rewrite {1}/u_ luS.
have lE : l_ j.+1 = 2 * (h j.+1 + h j) - h j * u_ j by rewrite {1}/l_ luS.
have l0 : l_ j.+1 != 0 by rewrite gt_eqF.
rewrite (c_step (ltnW jn)) (c_step jn) zE uE.
move: l0; rewrite lE; move: (c_ j.+2) (z_ j) (u_ j) => C Z U l0.
by field.
Qed.
End Spline.

Section Pieces.
Variable R : realFieldType.
(* piece j: S(x) = a + b (x - xj) + c (x - xj)^2 + d (x - xj)^3 with the code's b and d *)
Definition bcoef (a0 a1 h c0 c1 : R) := (a1 - a0) / h - h * (c1 + 2 * c0) / 3.
Definition dcoef (h c0 c1 : R) := (c1 - c0) / (3 * h).
Definition S (a b c d t : R) := a + b * t + c * t ^+ 2 + d * t ^+ 3.
Definition S' (b c d t : R) := b + 2 * c * t + 3 * d * t ^+ 2.
Definition S'' (c d t : R) := 2 * c + 6 * d * t.
Lemma piece_left a b c d : S a b c d 0 = a.
Proof. by rewrite /S !expr0n /= !mulr0 !addr0. Qed.
Lemma piece_right a0 a1 h c0 c1 : h != 0 ->
  S a0 (bcoef a0 a1 h c0 c1) c0 (dcoef h c0 c1) h = a1.
Proof. by move=> h0; rewrite /S /bcoef /dcoef; field. Qed.
Lemma piece_C2 h c0 c1 : h != 0 -> S'' c0 (dcoef h c0 c1) h = S'' c1 0 0.
Proof. by move=> h0; rewrite /S'' /dcoef; field. Qed.
(* first derivative continuity at the interior knot between pieces (h0, c0->c1) and (h1, c1->c2)
   is EQUIVALENT to the tridiagonal equation with al = 3/h1 (a2-a1) - 3/h0 (a1-a0) *)
Lemma piece_C1 a0 a1 a2 h0 h1 c0 c1 c2 : h0 != 0 -> h1 != 0 ->
  h0 * c0 + 2 * (h1 + h0) * c1 + h1 * c2 = 3 / h1 * (a2 - a1) - 3 / h0 * (a1 - a0) ->
  S' (bcoef a0 a1 h0 c0 c1) c0 (dcoef h0 c0 c1) h0 = S' (bcoef a1 a2 h1 c1 c2) c1 (dcoef h1 c1 c2) 0.
Proof.
move=> n0 n1 tri; rewrite /S' /bcoef /dcoef expr0n /= !mulr0 !addr0.
have -> : (a2 - a1) / h1 = (h0 * c0 + 2 * (h1 + h0) * c1 + h1 * c2 + 3 / h0 * (a1 - a0)) / 3.
  by rewrite tri; field; rewrite ?n0 ?n1.
by field; rewrite ?n0 ?n1.
Qed.
(* straight lines are reproduced exactly: with c = 0 everywhere b is the slope and d = 0 *)
Lemma piece_linear a0 s h : h != 0 -> bcoef a0 (a0 + s * h) h 0 0 = s /\ dcoef h 0 0 = 0.
Proof. by move=> h0; split; rewrite /bcoef /dcoef; field. Qed.
End Pieces.
