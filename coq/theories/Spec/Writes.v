(* Writes.v *)
From Coq Require Import List Arith Lia Permutation.
Import ListNotations.
(* C13: workers of the MT_ kernels write disjoint cells of the shared output; therefore every
   order in which the OS executes the per-row steps yields the same output as the sequential loop *)
Section W.
Variable V : Type.
Fixpoint upd (l : list V) (i : nat) (x : V) : list V :=
  match l, i with [], _ => [] | _ :: t, 0 => x :: t | y :: t, S i => y :: upd t i x end.
Definition apply_writes (ws : list (nat * V)) (out : list V) : list V :=
  fold_left (fun o w => upd o (fst w) (snd w)) ws out.
Lemma upd_comm l i j x y : i <> j -> upd (upd l i x) j y = upd (upd l j y) i x.
Proof.
revert i j. induction l as [|a l IH]; intros [|i] [|j] ne; cbn; try reflexivity; try lia.
f_equal. apply IH. lia.
Qed.
Theorem disjoint_writes_commute ws ws' out :
  Permutation ws ws' -> NoDup (map fst ws) -> apply_writes ws out = apply_writes ws' out.
Proof.
intros P. revert out. induction P as [|w l l' P IH|a b l|l1 l2 l3 P1 IH1 P2 IH2]; intros out ND.
- reflexivity.
- cbn. apply IH. cbn in ND. inversion ND; assumption.
- cbn. cbn in ND. inversion ND as [|? ? Hn ND']; subst.
  rewrite upd_comm; [reflexivity|]. intros E. apply Hn. left. symmetry. exact E.
- rewrite IH1 by exact ND. apply IH2.
  apply Permutation_NoDup with (l := map fst l1); [apply Permutation_map; exact P1 | exact ND].
Qed.
End W.

