(* Resid.v — a-posteriori eigen-residual bound of the documented NIPALS step: when the loop
   exits by its criterion |t - t_old|^2 <= eps |t|^2, the loading p satisfies
   |E'E p - mu p|^2 <= |E|_F^2 eps |t|^2 (mu = |E' t_old|).  Also: a fixed point of the step is
   an eigenpair of E'E. *)
From mathcomp Require Import all_ssreflect all_algebra.
From mathcomp Require Import ring.
From LS Require Import Euclid.
Set Implicit Arguments. Unset Strict Implicit. Unset Printing Implicit Defensive.
Import Order.TTheory GRing.Theory Num.Theory.
Local Open Scope ring_scope.
Section Resid.
Variable R : rcfType.
Local Notation dot := (@Euclid.dot R _).
Local Notation dot_ge0 := (@Euclid.dot_ge0 R _).
Local Notation cauchy_schwarz := (@Euclid.cauchy_schwarz R _).
Variables n m : nat.
Variable E : 'M[R]_(n,m).
Definition fro2 : R := \sum_j \sum_i E i j ^+ 2.
(* |E' d|^2 <= |E|_F^2 |d|^2 *)
Lemma op_bound (d : 'cV[R]_n) : dot (E^T *m d) (E^T *m d) <= fro2 * dot d d.
Proof.
rewrite /fro2 mulr_suml /dot; apply: ler_sum => j _.
rewrite -expr2 !mxE.
have -> : \sum_i E^T j i * d i 0 = dot (col j E) d.
  by apply: eq_bigr => i _; rewrite !mxE.
have -> : \sum_i E i j ^+ 2 = dot (col j E) (col j E).
  by apply: eq_bigr => i _; rewrite !mxE expr2.
exact: cauchy_schwarz.
Qed.
(* the documented NIPALS step and its a-posteriori eigen-residual *)
Variable t_old : 'cV[R]_n.
Let g := E^T *m t_old.
Let mu := Num.sqrt (dot g g).
Hypothesis g_nz : dot g g != 0.
Let p := mu^-1 *: g.
Let t := E *m p.
Lemma residual_identity : E^T *m E *m p - mu *: p = E^T *m (t - t_old).
Proof.
rewrite mulmxBr /t mulmxA; congr (_ - _).
have mu0 : mu != 0 by rewrite /mu sqrtr_eq0 -ltNge lt0r g_nz dot_ge0.
by rewrite /p scalerA mulfV // scale1r.
Qed.
Theorem residual_bound eps : 0 <= eps ->
  dot (t - t_old) (t - t_old) <= eps * dot t t ->
  dot (E^T *m E *m p - mu *: p) (E^T *m E *m p - mu *: p) <= fro2 * (eps * dot t t).
Proof.
move=> e0 crit; rewrite residual_identity.
apply: le_trans (op_bound _) _; apply: ler_wpmul2l => //.
by apply: sumr_ge0 => j _; apply: sumr_ge0 => i _; rewrite sqr_ge0.
Qed.
(* a fixed point of the documented step (t = t_old) is an eigenpair of E'E with eigenvalue mu *)
Corollary fixed_point_is_eigenpair : t = t_old -> E^T *m E *m p = mu *: p.
Proof. by move=> e; apply/eqP; rewrite -subr_eq0 residual_identity e subrr mulmx0. Qed.
End Resid.
