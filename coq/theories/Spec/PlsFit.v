(* PlsFit.v — C03: the decomposition clause for the EXECUTABLE PLS fit, for every run that returns
   and any number of latent variables: whatever the data and the number of inner iterations, the
   scores and x-loadings stored by pls_components and the X residual it returns satisfy
       X = sum_k t_k p_k' + X_res
   exactly over any real closed field (each latent variable deflates X by the rank-one update of
   its own stored score and loading, and nothing else touches X); the stored vectors have the
   sizes of the data. *)
From mathcomp Require Import all_ssreflect all_algebra.
From LS Require Import NumOps RcfOps Kernels KernelsSpec Pca Pls PcaRefine PlsRefine PcaFit.
Set Implicit Arguments. Unset Strict Implicit. Unset Printing Implicit Defensive.
Import Order.TTheory GRing.Theory Num.Theory.
Local Open Scope ring_scope.

Section PlsFit.
Variable R : rcfType.
Local Existing Instance RcfOps.
Local Notation vec := (seq R).
Local Notation mat := (seq (seq R)).

Lemma size_lv_pass_t (X Y : mat) (u : vec) : size (lv_pass X Y u).1.1.2 = size X.
Proof. by rewrite /lv_pass; case: ifP => _ /=; rewrite /vdivs size_map size_matvec_into /zeros size_nseq. Qed.
Lemma size_lv_loop_t fuel loop (X Y : mat) (u told : vec) w t q u' it :
  lv_loop fuel loop X Y u told = Ok (w, t, q, u', it) -> size t = size X.
Proof.
elim: fuel loop u told => [|fuel IH] loop u told //=.
have := size_lv_pass_t X Y u; case: (lv_pass X Y u) => [[[w0 t0] q0] u0] /= st0.
case: ifP => _; first exact: IH.
by case: ifP => _; [case=> _ <- | apply: IH].
Qed.

Lemma lv_calc_shape n m fuel (X Y : mat) l : wf n m X -> (0 < n)%N -> lv_calc fuel X Y = Ok l ->
  [/\ size (lv_t l) = n, size (lv_p l) = m & lv_X l = deflate X (lv_t l) (lv_p l)].
Proof.
move=> wX n0; rewrite /lv_calc.
case e: (lv_loop _ _ _ _ _ _) => [[[[[w t] q] u] it]|] //= [<-] /=.
have st := size_lv_loop_t e; rewrite (wf_size wX) in st.
split=> //; first by rewrite /vmuls size_map.
by rewrite /vnormalize size_map /vdivs size_map size_vecmat_into /zeros size_nseq (wf_ncols wX n0).
Qed.

Theorem pls_components_x_decomposition n m fuel nlv (X Y : mat) (acc lvs : seq lv) Xr Yr :
  wf n m X -> (0 < n)%N ->
  pls_components fuel nlv X Y acc = Ok (lvs, Xr, Yr) ->
  exists new : seq lv,
    [/\ lvs = rev acc ++ new, size new = nlv, wf n m Xr,
        all (fun l => (size (lv_t l) == n) && (size (lv_p l) == m)) new &
        mx_of n m X = \sum_(k < nlv) cv_of n (lv_t (nth (Lv [::] [::] [::] [::] [::] 0 [::] [::] 0) new k)) *m
                                     (cv_of m (lv_p (nth (Lv [::] [::] [::] [::] [::] 0 [::] [::] 0) new k)))^T
                      + mx_of n m Xr].
Proof.
move=> wX n0; elim: nlv X Y acc wX => [|nlv IH] X Y acc wX /=.
  by case=> <- <- _; exists [::]; split=> //; rewrite ?cats0 // big_ord0 add0r.
case e: (lv_calc fuel X Y) => [l|] //.
have [st sp eX] := lv_calc_shape wX n0 e.
have wX' : wf n m (lv_X l) by rewrite eX; apply: wf_deflate.
move/(IH _ _ _ wX') => [new [eL sN wR aN dec]].
exists (l :: new); split=> //=.
- by rewrite eL rev_cons -cats1 -catA.
- by rewrite sN.
- by rewrite st sp !eqxx.
- rewrite big_ord_recl /= -addrA -[X in _ = _ + X]/(\sum_(i < nlv) _ + mx_of n m Xr) -dec.
  by rewrite eX (deflateE wX st sp) addrC subrK.
Qed.
End PlsFit.

(* the same for the responses: every latent variable deflates Y by b_k t_k q_k' with its own stored inner coefficient,
   score and y-loading, so  Y = sum_k b_k t_k q_k' + Y_res  for every run that returns (ny = size of the y-loadings) *)
Section PlsFitY.
Variable R : rcfType.
Local Existing Instance RcfOps.
Local Notation vec := (seq R).
Local Notation mat := (seq (seq R)).
Local Open Scope ring_scope.
Import GRing.Theory.

Lemma ydeflateE n ny (Y : mat) (t q : vec) (b : R) : wf n ny Y -> size t = n -> size q = ny ->
  mx_of n ny (map (fun rt => map (fun yq => ksub yq.1 (kmul (kmul b rt.2) yq.2)) (zip rt.1 q)) (zip Y t))
  = mx_of n ny Y - (b *: cv_of n t) *m (cv_of ny q)^T.
Proof.
move=> wY st sq; apply/matrixP => i j; rewrite !mxE big_ord1 !mxE.
have iY : (i < size Y)%N by rewrite (wf_size wY).
have szr : size (nth [::] Y i) = ny by apply: (wf_row wY).
rewrite (nth_map ([::], 0)) ?size_zip ?st ?(wf_size wY) ?minnn //.
rewrite nth_zip ?st ?(wf_size wY) //= (nth_map (0, 0)) ?size_zip ?szr ?sq ?minnn //.
by rewrite nth_zip ?szr ?sq.
Qed.
End PlsFitY.
