(* RocSpec.v — the ROC walk followed by the trapezoid rule computes the Mann–Whitney statistic
   (C15): AUC = #{(i,j) : i positive, j negative, score_j < score_i} / (P N) for scores without
   ties; hence invariance under strictly increasing maps and under reordering. Includes the
   refinement of the executable model (Exec/Stats.v) to the abstract walk. *)
From mathcomp Require Import all_ssreflect all_algebra.
From mathcomp Require Import ring.
From LS Require Import NumOps RcfOps Kernels Stats.
Set Implicit Arguments. Unset Strict Implicit. Unset Printing Implicit Defensive.
Import Order.TTheory GRing.Theory Num.Theory.
Local Open Scope ring_scope.
Section Roc.
Variable R : realFieldType.
Variables (P N : R).
(* the ROC walk of statistic.c:373-425 followed by the trapezoid rule of numeric.c:207-232,
   on the label sequence sorted by descending score; one trapezoid per object *)
Fixpoint area (tp fp : nat) (ls : seq bool) : R :=
  match ls with
  | [::] => 0
  | true :: r => (fp%:R / N - fp%:R / N) * ((tp%:R / P + tp.+1%:R / P) / 2) + area tp.+1 fp r
  | false :: r => (fp.+1%:R / N - fp%:R / N) * ((tp%:R / P + tp%:R / P) / 2) + area tp fp.+1 r
  end.
Fixpoint pairs (tp : nat) (ls : seq bool) : nat :=
  match ls with [::] => 0%N | true :: r => pairs tp.+1 r | false :: r => (tp + pairs tp r)%N end.
Lemma areaE tp fp ls : N != 0 -> P != 0 -> area tp fp ls = (pairs tp ls)%:R / (P * N).
Proof.
move=> N0 P0; elim: ls tp fp => [|[] ls IH] tp fp /=; first by rewrite mul0r.
  by rewrite subrr mul0r add0r IH.
by rewrite IH natrD -[fp.+1]addn1 natrD; field; rewrite N0 P0.
Qed.

(* Mann-Whitney count over (label, score) records *)
Definition lab (x : bool * R) := x.1.
Definition sc (x : bool * R) := x.2.
Definition mw (xs : seq (bool * R)) : nat :=
  \sum_(x <- xs | lab x) count (fun y => ~~ lab y && (sc y < sc x)%R) xs.
Definition nneg (xs : seq (bool * R)) := count (fun y => ~~ lab y) xs.

Lemma pairs_mw tp xs : sorted (fun a b => sc b < sc a) xs ->
  pairs tp (map lab xs) = (tp * nneg xs + mw xs)%N.
Proof.
have tr : transitive (fun a b : bool * R => sc b < sc a).
  by move=> a b c /= ab bc; exact: lt_trans bc ab.
elim: xs tp => [|[l s] xs IH] tp; first by rewrite /mw big_nil muln0.
rewrite /= path_sortedE // => /andP[hd srt'].
have tail : (\sum_(j <- xs | lab j) ((~~ l && (s < sc j)%R) + count (fun y => ~~ lab y && (sc y < sc j)%R) xs)
           = \sum_(j <- xs | lab j) count (fun y => ~~ lab y && (sc y < sc j)%R) xs)%N.
  rewrite big_seq_cond [in RHS]big_seq_cond; apply: eq_bigr => j /andP[jxs _].
  by have /= sj := allP hd _ jxs; rewrite (lt_gtF sj) andbF add0n.
have cnt : count (fun y => ~~ lab y && (sc y < s)%R) xs = nneg xs.
  by apply/eq_in_count => y yxs; have /= -> := allP hd _ yxs; rewrite andbT.
case: l hd tail => hd tail; rewrite /= IH // /mw /nneg /= big_cons /= tail.
  by rewrite cnt /nneg !add0n mulSn addnA [(_ + tp * _)%N]addnC.
by rewrite add1n mulnS addnA.
Qed.

Theorem auc_mann_whitney xs : N != 0 -> P != 0 -> sorted (fun a b => sc b < sc a) xs ->
  area 0 0 (map lab xs) = (mw xs)%:R / (P * N).
Proof. by move=> N0 P0 s; rewrite areaE // pairs_mw // mul0n. Qed.
End Roc.

Section MwInvariance.
Variable R : realFieldType.
(* the Mann–Whitney count only looks at labels and at comparisons of scores *)
Lemma mw_monotone (phi : R -> R) (xs : seq (bool * R)) :
  (forall a b, (phi a < phi b) = (a < b)) ->
  mw (map (fun x => (x.1, phi x.2)) xs) = mw xs.
Proof.
move=> mono; rewrite /mw big_map; apply: eq_bigr => x _.
by rewrite count_map; apply: eq_count => y /=; rewrite /sc /lab /= mono.
Qed.
Lemma mw_perm (xs ys : seq (bool * R)) : perm_eq xs ys -> mw xs = mw ys.
Proof.
move=> p; rewrite /mw (perm_big _ p) /=; apply: eq_bigr => x _.
exact/permP.
Qed.
End MwInvariance.

Section Refine.
Variable R : rcfType.
Local Existing Instance RcfOps.
Lemma klit2 : klit lit_2 = 2%:R :> R.
Proof. by rewrite /= /rcf_of_Q /= divr1. Qed.
Lemma trapz_cons2 (acc : R) (p q : R * R) (r : seq (R * R)) :
  trapz acc (p :: q :: r) = trapz (acc + (q.1 - p.1) * ((p.2 + q.2) / 2%:R)) (q :: r).
Proof. by rewrite -klit2. Qed.
(* the executable walk + trapezoid on labels without MISSING codes is the abstract walk *)
Lemma trapz_walk (acc : R) tp fp ntp ntn (ls : seq R) : all (fun y => ~~ is_missing y) ls ->
  trapz acc ((fp%:R / ntn%:R, tp%:R / ntp%:R) :: roc_walk tp fp ntp ntn ls)
  = acc + area ntp%:R ntn%:R tp fp (map is_pos ls).
Proof.
elim: ls acc tp fp => [|y ls IH] acc tp fp; first by rewrite /= addr0.
move=> /= /andP[cy cl]; rewrite (negbTE cy); case: (is_pos y).
  by rewrite IH // /rcf_of_Q /= divr1 addrA.
by rewrite IH // /rcf_of_Q /= divr1 addrA.

Qed.
Theorem exec_auc_is_walk ntp ntn (ls : seq R) : all (fun y => ~~ is_missing y) ls ->
  curve_area ((0, 0) :: roc_walk 0 0 ntp ntn ls) = area ntp%:R ntn%:R 0 0 (map is_pos ls).
Proof.
move=> cl; have := trapz_walk 0 0 0 ntp ntn cl; rewrite /curve_area !mul0r add0r.
by [].
Qed.
End Refine.
