(* PcaRefine.v — the executable inner step of PCA (Exec/Pca.v), run over a real closed field
   on complete data, is the matrix-level step of Spec/NipalsSpec.v; hence the loading it
   returns is a unit vector in the row space of the residual, and the score is E p. *)
From mathcomp Require Import all_ssreflect all_algebra.
From LS Require Import NumOps RcfOps Kernels Pca KernelsSpec NipalsSpec.
Set Implicit Arguments. Unset Strict Implicit. Unset Printing Implicit Defensive.
Import Order.TTheory GRing.Theory Num.Theory.
Local Open Scope ring_scope.

Section PcaRefine.
Variable R : rcfType.
Local Existing Instance RcfOps.
Local Notation vec := (seq R).
Local Notation mat := (seq (seq R)).

Lemma cv_of_scale n (v : vec) (d : R) : cv_of n (map (fun x => x / d) v) = d^-1 *: cv_of n v.
Proof.
apply/colP => i; rewrite !mxE mulrC.
case: (ltnP i (size v)) => lt; first by rewrite (nth_map 0).
by rewrite !nth_default ?size_map // mul0r.
Qed.

Lemma vdot_dot n (u v : vec) : cleanv u -> cleanv v -> size u = n -> size v = n ->
  vdot u v = dot (cv_of n u) (cv_of n v).
Proof. by move=> cu cv su sv; rewrite (vdotE cu cv su sv). Qed.

Lemma foldl_sq (v : vec) (s : R) : cleanv v ->
  foldl (fun s x => if is_missing x then s else s + x * x) s v = s + \sum_(x <- v) x * x.
Proof.
elim: v s => [|x v IH] s /=; first by rewrite big_nil addr0.
by case/andP=> cx cv; rewrite (negbTE cx) IH // big_cons addrA.
Qed.

Lemma sum_sq_dot n (v : vec) : size v = n -> \sum_(x <- v) x * x = dot (cv_of n v) (cv_of n v).
Proof.
move=> sv; rewrite /dot mxE (big_nth 0) big_mkord sv.
by apply: eq_bigr => i _; rewrite !mxE.
Qed.

Lemma vmoduleE n (v : vec) : cleanv v -> size v = n ->
  vmodule v = Num.sqrt (dot (cv_of n v) (cv_of n v)).
Proof. by move=> cv sv; rewrite /vmodule foldl_sq // add0r (sum_sq_dot sv). Qed.

Lemma vnormalizeE n (v : vec) : cleanv v -> size v = n ->
  cv_of n (vnormalize v) = normalize (cv_of n v).
Proof.
move=> cv sv; rewrite /vnormalize /normalize (vmoduleE cv sv) -cv_of_scale.
congr (cv_of _ _); apply/eq_in_map => x xv /=.
by move/allP: cv => /(_ _ xv) /negbTE ->.
Qed.

Lemma size_vecmat_into (E : mat) (t p : vec) : size (vecmat_into E t p) = size p.
Proof. by rewrite /vecmat_into size_mkseq. Qed.

(* one pass of the while(1) body of PCA *)
Theorem pca_inner_stepE n m (E : mat) (t p : vec) :
  wf n m E -> size t = n -> size p = m -> cleanm E -> cleanv t ->
  let p2 := map (fun x => x / vdot t t) (vecmat_into E t (zeros (size p))) in
  let: (p3, t2, mod_t) := pca_inner_step E t p in
  cleanv p2 -> cleanv p3 ->
  [/\ cv_of m p3 = step_doc (mx_of n m E) (cv_of n t),
      cv_of n t2 = (dot (cv_of m p3) (cv_of m p3))^-1 *: (mx_of n m E *m cv_of m p3)
    & mod_t = dot (cv_of n t) (cv_of n t)].
Proof.
move=> wE st sp cE ct; rewrite /pca_inner_step /= => cp2 cp3.
have sz : size (zeros (size p) : vec) = m by rewrite size_nseq.
have z0 : cv_of m (zeros (size p) : vec) = 0 by apply/colP=> i; rewrite !mxE nth_nseq if_same.
have sp2 : size (map (fun x => x / vdot t t) (vecmat_into E t (zeros (size p)))) = m by rewrite size_map size_vecmat_into.
have sp3 : size (vnormalize (map (fun x => x / vdot t t) (vecmat_into E t (zeros (size p))))) = m by rewrite /vnormalize size_map.
split.
- rewrite (vnormalizeE cp2 sp2) cv_of_scale (vecmat_intoE wE st sz cE ct) /step_doc z0 add0r.
  by rewrite (vdot_dot ct ct st st).
- rewrite cv_of_scale (vdot_dot cp3 cp3 sp3 sp3); congr (_ *: _).
  rewrite (matvec_intoE (p := zeros (size t)) wE sp3) ?size_nseq //.
  rewrite [X in X + _](_ : _ = 0) ?add0r //.
  by apply/colP=> i; rewrite !mxE nth_nseq if_same.
- exact: (vdot_dot ct ct st st).
Qed.

(* consequence used by C01/C02: the loading returned by a pass is a unit vector, it lies in the
   row space of the residual, and the score is E p (p'p = 1) *)
Corollary pca_inner_step_unit_rowspace n m (E : mat) (t p : vec) :
  wf n m E -> size t = n -> size p = m -> cleanm E -> cleanv t ->
  let p2 := map (fun x => x / vdot t t) (vecmat_into E t (zeros (size p))) in
  let: (p3, t2, mod_t) := pca_inner_step E t p in
  cleanv p2 -> cleanv p3 ->
  dot (cv_of m p2) (cv_of m p2) != 0 ->
  [/\ (cv_of m p3)^T *m cv_of m p3 = 1%:M,
      exists c, cv_of m p3 = (mx_of n m E)^T *m c
    & cv_of n t2 = mx_of n m E *m cv_of m p3].
Proof.
move=> wE st sp cE ct.
have := pca_inner_stepE wE st sp cE ct; rewrite /pca_inner_step /=.
set p2 := map _ _; set p3 := vnormalize _ => H cp2 cp3 nz.
have [e1 e2 e3] := H cp2 cp3.
have sp2 : size p2 = m by rewrite size_map size_vecmat_into size_nseq.
have p3n : cv_of m p3 = normalize (cv_of m p2) by rewrite (vnormalizeE cp2 sp2).
have unit : (cv_of m p3)^T *m cv_of m p3 = 1%:M by rewrite p3n normalize_unit.
split => //; first by rewrite e1; apply: step_doc_row.
by rewrite e2 -[dot _ _]/(((cv_of m p3)^T *m cv_of m p3) 0 0) unit mxE eqxx invr1 scale1r.
Qed.
End PcaRefine.
