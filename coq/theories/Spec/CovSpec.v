(* CovSpec.v — C11: MatrixCovariance of the model over any real closed field is the textbook sum of
   products of deviations divided by n-1; the matrix is symmetric, its diagonal is non-negative and
   every entry obeys the Cauchy–Schwarz bound cov_ij^2 <= cov_ii cov_jj (|correlation| <= 1). *)
From mathcomp Require Import all_ssreflect all_algebra.
From LS Require Import NumOps RcfOps Kernels Euclid.
Set Implicit Arguments. Unset Strict Implicit. Unset Printing Implicit Defensive.
Import Order.TTheory GRing.Theory Num.Theory.
Local Open Scope ring_scope.

Section Cov.
Variable R : rcfType.
Local Existing Instance RcfOps.
Local Notation vec := (seq R).
Local Notation mat := (seq (seq R)).
Implicit Type M : mat.

Definition dev M (i : nat) : vec := [seq r`_i - (mat_col_average M)`_i | r <- M].
Lemma foldl_sumE (f : seq R -> R) (l : mat) a : foldl (fun s r => s + f r) a l = a + \sum_(r <- l) f r.
Proof. by elim: l a => [|r l IH] a /=; rewrite ?big_nil ?addr0 // IH big_cons addrA. Qed.
Lemma cov_entry M i j : (i < ncols M)%N -> (j < ncols M)%N ->
  (nth [::] (covariance M) i)`_j = (\sum_(k < size M) (dev M i)`_k * (dev M j)`_k) / ((size M).-1)%:R.
Proof.
move=> ic jc; rewrite /covariance nth_mkseq // nth_mkseq //=; congr (_ / _).
rewrite (foldl_sumE (fun r => (r`_i - (mat_col_average M)`_i) * (r`_j - (mat_col_average M)`_j))) add0r.
rewrite (big_nth [::]) big_mkord; apply: eq_bigr => k _.
by rewrite /dev !(nth_map [::]).
Qed.
Theorem covariance_symmetric M i j : (i < ncols M)%N -> (j < ncols M)%N ->
  (nth [::] (covariance M) i)`_j = (nth [::] (covariance M) j)`_i.
Proof. by move=> ic jc; rewrite !cov_entry //; congr (_ / _); apply: eq_bigr => k _; rewrite mulrC. Qed.
Theorem covariance_diag_ge0 M i : (i < ncols M)%N -> 0 <= (nth [::] (covariance M) i)`_i.
Proof.
move=> ic; rewrite cov_entry // mulr_ge0 ?invr_ge0 ?ler0n //.
by apply: sumr_ge0 => k _; rewrite -expr2 sqr_ge0.
Qed.
(* |correlation| <= 1 *)
Theorem covariance_cauchy_schwarz M i j : (i < ncols M)%N -> (j < ncols M)%N ->
  (nth [::] (covariance M) i)`_j ^+ 2 <= (nth [::] (covariance M) i)`_i * (nth [::] (covariance M) j)`_j.
Proof.
move=> ic jc; rewrite !cov_entry //.
set n := size M; set a := cv_of n (dev M i); set b := cv_of n (dev M j).
have E (u v : vec) : \sum_(k < n) u`_k * v`_k = dot (cv_of n u) (cv_of n v).
  by apply: eq_bigr => k _; rewrite !mxE.
rewrite !E -/a -/b exprMn [X in _ <= X]mulrACA -expr2; apply: ler_wpmul2r; first exact: sqr_ge0.
exact: cauchy_schwarz.
Qed.
End Cov.
