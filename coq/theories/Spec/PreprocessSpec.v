(* PreprocessSpec.v — what MatrixPreprocess computes (C10). Cell-level statements about the
   executable model of Exec/Preprocess.v; the lemmas that do not mention field laws hold for
   every instance of NumOps (binary64 included), the others over any real closed field. *)
From Coq Require Import ZArith.
From mathcomp Require Import all_ssreflect all_algebra.
From LS Require Import NumOps RcfOps Kernels Preprocess KernelsSpec.
Set Implicit Arguments. Unset Strict Implicit. Unset Printing Implicit Defensive.
Import Order.TTheory GRing.Theory Num.Theory.
Local Open Scope ring_scope.

(* ---------- facts valid for every number system (binary64 included) ------------------ *)
Section AnyK.
Context {K : Type} {ops : NumOps K}.
Local Notation vec := (seq K).
Local Notation mat := (seq (seq K)).

Definition fit_trans ty (X T0 : mat) := (preprocess_fit ty X T0).1.1.
Definition fit_avg ty (X T0 : mat) := (preprocess_fit ty X T0).1.2.
Definition fit_scale ty (X T0 : mat) := (preprocess_fit ty X T0).2.

Lemma fit_cell ty (X T0 : mat) i j : Z.le Z0 ty -> (i < size X)%N -> (j < ncols (mcheck X))%N ->
  mget (fit_trans ty X T0) i j =
    let x := mget (mcheck X) i j in
    let cen := if is_missing x then mget T0 i j else ksub x (vget (fit_avg ty X T0) j) in
    let s := vget (fit_scale ty X T0) j in
    if float_eq s k0 (klit lit_1em3) then k0 else if is_missing cen then cen else kdiv cen s.
Proof.
move=> ty0 iX jX; rewrite /fit_trans /fit_avg /fit_scale /preprocess_fit.
have -> : Z.ltb ty 0 = false by apply/Z.ltb_ge.
by rewrite /= /mget nth_mkseq ?size_map // nth_mkseq.
Qed.

(* a column whose scale falls inside the zero guard becomes exactly 0 in every row — never
   NaN or Inf, whatever the number system *)
Theorem zero_spread_is_zero ty (X T0 : mat) i j : Z.le Z0 ty -> (i < size X)%N -> (j < ncols (mcheck X))%N ->
  float_eq (vget (fit_scale ty X T0) j) k0 (klit lit_1em3) -> mget (fit_trans ty X T0) i j = k0.
Proof. by move=> ty0 iX jX g; rewrite fit_cell //= g. Qed.

(* the stored vectors are the column statistics of the (checked) training matrix *)
Theorem stored_are_statistics ty (X T0 : mat) : Z.le Z0 ty ->
  fit_avg ty X T0 = mat_col_average (mcheck X) /\
  fit_scale ty X T0 = mkseq (fun j => scale_of ty (col (mcheck X) j) (vget (mat_col_average (mcheck X)) j)) (ncols (mcheck X)).
Proof.
move=> ty0; rewrite /fit_avg /fit_scale /preprocess_fit.
by have -> : Z.ltb ty 0 = false by apply/Z.ltb_ge.
Qed.

(* option -1 copies *)
Theorem copy_option (X T0 : mat) : preprocess_fit (Zneg xH) X T0 = (mcheck X, [::], [::]).
Proof. by []. Qed.

(* applying stored statistics is the affine map (x - avg)/scale, cell by cell *)
Theorem apply_cell (X : mat) (avg sc : vec) i j : (i < size X)%N -> (j < size (nth [::] (mcheck X) i))%N ->
  (0 < size avg)%N -> (0 < size sc)%N ->
  mget (preprocess_apply X avg sc) i j =
    if float_eq (vget sc j) k0 (klit lit_1em3) then k0
    else kdiv (ksub (mget (mcheck X) i j) (vget avg j)) (vget sc j).
Proof.
move=> iX jX a0 s0; rewrite /preprocess_apply /mget (nth_map [::]) ?size_map // nth_mkseq //.
by rewrite !eqn0Ngt a0 s0.
Qed.

(* tensor preprocessing is matrix preprocessing block by block *)
Theorem tensor_blockwise ty (t t0 : seq mat) k : (k < size t)%N -> size t0 = size t ->
  nth ([::], [::], [::]) (tensor_preprocess_fit ty t t0) k = preprocess_fit ty (nth [::] t k) (nth [::] t0 k).
Proof.
move=> kt st; rewrite /tensor_preprocess_fit (nth_map ([::], [::])) ?size_zip ?st ?minnn //.
by rewrite nth_zip.
Qed.

(* MISSING-coded entries do not enter the filtered sums (mean, variance, rms) *)
Lemma fsum_cnt_filter (f : K -> K) (c : vec) :
  fsum_cnt f c = fsum_cnt f (filter (fun x => ~~ is_missing x) c).
Proof.
rewrite /fsum_cnt; elim: c (k0, 0%N) => [|x c IH] acc //=.
by case: ifP => mx /=; rewrite IH //= mx.
Qed.
Theorem missing_independent_average (c : vec) :
  col_average c = col_average (filter (fun x => ~~ is_missing x) c).
Proof. by rewrite /col_average fsum_cnt_filter. Qed.
Theorem missing_independent_var (c : vec) :
  col_var c = col_var (filter (fun x => ~~ is_missing x) c).
Proof.
have em : col_mean c = col_mean (filter (fun x => ~~ is_missing x) c) by rewrite /col_mean fsum_cnt_filter.
by rewrite /col_var -em fsum_cnt_filter.
Qed.
Theorem missing_independent_rms (c : vec) :
  col_rms c = col_rms (filter (fun x => ~~ is_missing x) c).
Proof. by rewrite /col_rms fsum_cnt_filter. Qed.
End AnyK.

(* ---------- exact statements over a real closed field ------------------------------------ *)
Section Rcf.
Variable R : rcfType.
Local Existing Instance RcfOps.
Local Notation vec := (seq R).
Local Notation mat := (seq (seq R)).

Lemma mcheck_id (X : mat) : mcheck X = X.
Proof. by rewrite /mcheck; elim: X => [|r X IH] //=; rewrite IH map_id_in. Qed.

Lemma fsum_cnt_clean (f : R -> R) (c : vec) (s0 : R) n0 : cleanv c ->
  foldl (fun sn x => if is_missing x then sn else (sn.1 + f x, sn.2.+1)) (s0, n0) c
  = (s0 + \sum_(x <- c) f x, (n0 + size c)%N).
Proof.
elim: c s0 n0 => [|x c IH] s0 n0 /=; first by rewrite big_nil addr0 addn0.
by case/andP=> cx cc; rewrite (negbTE cx) IH // big_cons addrA addnS addSn.
Qed.

(* column mean of complete data, when the sum is not within the 1e-6 snap window *)
Theorem col_average_clean (c : vec) : cleanv c ->
  ~~ float_eq (\sum_(x <- c) x) 0 (klit lit_1em6) ->
  col_average c = (\sum_(x <- c) x) / (size c)%:R.
Proof.
move=> cc ns; rewrite /col_average /fsum_cnt (fsum_cnt_clean id) //= add0r add0n.
by rewrite (negbTE ns).
Qed.

(* centred columns have exactly zero sum *)
Theorem zero_mean (c : vec) : cleanv c -> (0 < size c)%N ->
  ~~ float_eq (\sum_(x <- c) x) 0 (klit lit_1em6) ->
  \sum_(x <- c) (x - col_average c) = 0.
Proof.
move=> cc c0 ns; rewrite sumrB big_const_seq count_predT iter_addr addr0 col_average_clean //.
by rewrite -[_ *+ _]mulr_natr divfK ?subrr // pnatr_eq0 -lt0n.
Qed.

(* fit formula on complete data outside the zero guard *)
Theorem fit_formula ty (X T0 : mat) i j : Z.le Z0 ty -> cleanm X -> (i < size X)%N -> (j < ncols X)%N ->
  (forall r, r \in X -> (j < size r)%N) ->
  ~~ float_eq (vget (fit_scale ty X T0) j) 0 (klit lit_1em3) ->
  cleanx (mget X i j - vget (fit_avg ty X T0) j) ->
  mget (fit_trans ty X T0) i j = (mget X i j - vget (fit_avg ty X T0) j) / vget (fit_scale ty X T0) j.
Proof.
move=> ty0 cX iX jX hj ng cc; rewrite fit_cell ?mcheck_id //= (negbTE ng).
have /allP cr := cleanm_row i cX.
have -> : is_missing (mget X i j) = false.
  by apply/negbTE/cr/mem_nth/hj/mem_nth.
by rewrite (negbTE cc).
Qed.

(* applying the stored statistics to the training matrix reproduces the training transform
   (fit and apply path use the same zero guard) *)
Theorem apply_reproduces_fit ty (X T0 : mat) i j : Z.le Z0 ty -> cleanm X -> (i < size X)%N -> (j < ncols X)%N ->
  (forall r, r \in X -> size r = ncols X) ->
  cleanx (mget X i j - vget (fit_avg ty X T0) j) ->
  mget (preprocess_apply X (fit_avg ty X T0) (fit_scale ty X T0)) i j = mget (fit_trans ty X T0) i j.
Proof.
move=> ty0 cX iX jX hs cc.
have szr : size (nth [::] X i) = ncols X by apply/hs/mem_nth.
have [ea es] := stored_are_statistics X T0 ty0.
rewrite apply_cell ?mcheck_id ?szr //; last 2 first.
- by rewrite ea mcheck_id /mat_col_average size_mkseq; apply: leq_ltn_trans jX.
- by rewrite es size_mkseq mcheck_id; apply: leq_ltn_trans jX.
rewrite fit_cell ?mcheck_id //=; case: ifP => // _.
have /allP cr := cleanm_row i cX.
have -> : is_missing (mget X i j) = false by apply/negbTE/cr/mem_nth; rewrite szr.
by rewrite (negbTE cc).
Qed.
End Rcf.
