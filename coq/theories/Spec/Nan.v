(* Nan.v — binary64: NaN is absorbing for + - * / and makes `<` false (standard library
   FloatAxioms only).  Hence a NaN convergence measure never passes the exit test. *)
Require Import Floats ZArith Bool.
Local Open Scope float_scope.
(* C18: a NaN convergence measure stays NaN and the exit test `conv < tol` is false *)
Lemma nan_SF x : is_nan x = true -> Prim2SF x = S754_nan.
Proof. intros H. unfold Prim2SF. rewrite H. reflexivity. Qed.
Lemma SF_nan x : Prim2SF x = S754_nan -> is_nan x = true.
Proof.
unfold Prim2SF. destruct (is_nan x); [reflexivity|].
destruct (is_zero x); [discriminate|]. destruct (is_infinity x); [discriminate|].
destruct (Z.frexp x) as [r e]. destruct (shr_fexp _ _ _ _ _) as [shr e'].
destruct (shr_m shr); discriminate.
Qed.
Lemma nan_ltb_false x y : is_nan x = true -> (x <? y) = false.
Proof. intros H. rewrite FloatAxioms.ltb_spec, (nan_SF x H). reflexivity. Qed.
Lemma nan_add_l x y : is_nan x = true -> is_nan (x + y) = true.
Proof. intros H. apply SF_nan. rewrite FloatAxioms.add_spec, (nan_SF x H). reflexivity. Qed.
Lemma nan_mul_l x y : is_nan x = true -> is_nan (x * y) = true.
Proof. intros H. apply SF_nan. rewrite FloatAxioms.mul_spec, (nan_SF x H). reflexivity. Qed.
Lemma nan_div_l x y : is_nan x = true -> is_nan (x / y) = true.
Proof. intros H. apply SF_nan. rewrite FloatAxioms.div_spec, (nan_SF x H). reflexivity. Qed.
Lemma nan_sub_r x y : is_nan y = true -> is_nan (x - y) = true.
Proof.
intros H. apply SF_nan. rewrite FloatAxioms.sub_spec, (nan_SF y H).
destruct (Prim2SF x); reflexivity.
Qed.

