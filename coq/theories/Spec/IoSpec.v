(* IoSpec.v — C16: with the tables dropped before every write, the file behaves as a register
   holding the model last written, whatever was written before, to any path; serialisers
   round-trip.  Without the drop a second write appends (witness). *)
From mathcomp Require Import ssreflect ssrfun ssrbool eqtype ssrnat seq.
From Coq Require Import String.
From LS Require Import IoModel.
Set Implicit Arguments. Unset Strict Implicit. Unset Printing Implicit Defensive.
Local Open Scope string_scope.

Definition string_eqMixin := EqMixin String.eqb_spec.
Canonical string_eqType := Eval hnf in EqType string string_eqMixin.

Section AssocFacts.
Variable A : Type.
Lemma alookup_upsert_same k (f : option A -> A) d : alookup k (aupsert k f d) = Some (f (alookup k d)).
Proof.
elim: d => [|[k' v] r IH] /=; first by rewrite String.eqb_refl.
by case E: (String.eqb k' k) => /=; rewrite E.
Qed.
Lemma alookup_upsert_other k k' (f : option A -> A) d : k <> k' -> alookup k' (aupsert k f d) = alookup k' d.
Proof.
move=> ne; elim: d => [|[k2 v] r IH] /=.
  by case E: (String.eqb k k') => //; move/String.eqb_eq: E.
case E: (String.eqb k2 k) => /=; last by case: (String.eqb k2 k').
move/String.eqb_eq: E => ->.
by case E2: (String.eqb k k') => //; move/String.eqb_eq: E2.
Qed.
End AssocFacts.

Section IoFacts.
Variable V : Type.
Local Notation model := (model V).
Local Notation db := (db V).

Lemma write_keeps t rows (m : model) (d : db) : t \notin map fst m ->
  alookup t d = Some rows ->
  alookup t (foldl (fun acc kv => write_table kv.1 kv.2 acc) d m) = Some rows.
Proof.
elim: m d => [|[k v] m IH] d //=; rewrite inE negb_or => /andP[tk tm] Hd.
apply: IH => //; rewrite /write_table alookup_upsert_other //.
by move=> e; move: tk; rewrite e eqxx.
Qed.

Lemma write_read_fresh (m : model) (d0 : db) t rows : uniq (map fst m) -> List.In (t, rows) m ->
  (forall k, k \in map fst m -> alookup k d0 = None) ->
  read_table t (foldl (fun acc kv => write_table kv.1 kv.2 acc) d0 m) = rows.
Proof.
elim: m d0 => [|[k v] m IH] d0 //= /andP[knm um] [[e1 e2]|tin] fresh.
  rewrite -e1 -e2 /read_table (write_keeps (rows := v)) // /write_table alookup_upsert_same fresh //.
  by rewrite inE eqxx.
apply: IH => // k' k'm; rewrite /write_table alookup_upsert_other; first by apply: fresh; rewrite inE k'm orbT.
by move=> e; move: knm; rewrite e k'm.
Qed.

(* one write with the drop: every field reads back exactly what was written, whatever the
   database held before *)
Theorem write_then_read (m : model) (d : db) t rows : uniq (map fst m) -> List.In (t, rows) m ->
  read_table t (write_model true m d) = rows.
Proof. by move=> um tin; rewrite /write_model; apply: write_read_fresh. Qed.
(* and a table that is not a field of the model is absent: nothing of earlier models survives *)
Lemma write_absent (m : model) (d0 : db) t : t \notin map fst m -> alookup t d0 = None ->
  alookup t (foldl (fun acc kv => write_table kv.1 kv.2 acc) d0 m) = None.
Proof.
elim: m d0 => [|[k v] m IH] d0 //=; rewrite inE negb_or => /andP[tk tm] Hd.
apply: IH => //; rewrite /write_table alookup_upsert_other //.
by move=> e; move: tk; rewrite e eqxx.
Qed.
Theorem write_leaves_nothing_else (m : model) (d : db) t : t \notin map fst m ->
  read_table t (write_model true m d) = [::].
Proof. by move=> tm; rewrite /read_table /write_model write_absent. Qed.

(* ANY history of writes, to any paths, followed by a write of m to p: reading p returns m *)
Theorem last_write_wins (h : seq (string * model)) p (m : model) t rows :
  uniq (map fst m) -> List.In (t, rows) m ->
  read_table t (read_file p (run_history true (rcons h (p, m)))) = rows.
Proof.
move=> um tin; rewrite /run_history -cats1 foldl_cat /= /read_file /write_file alookup_upsert_same.
exact: write_then_read.
Qed.
(* writes to other paths do not disturb a file *)
Theorem other_paths_untouched (s : fs V) p p' (m : model) : p <> p' ->
  read_file p' (write_file true p m s) = read_file p' s.
Proof. by move=> ne; rewrite /read_file /write_file alookup_upsert_other. Qed.

(* serialisers *)
Variable ofnat : nat -> V.
Variable tonat : V -> nat.
Hypothesis tonatK : forall n, tonat (ofnat n) = n.
Theorem matrix_roundtrip r c (m : seq (seq V)) : size m = r -> all (fun row => size row == c) m ->
  deser_matrix tonat (ser_matrix ofnat r c m) = m.
Proof.
move=> sr ac; rewrite /deser_matrix /ser_matrix !tonatK.
have -> : nseq r c = shape m.
  rewrite /shape -sr; elim: m ac {sr} => [|row m IH] //= /andP[/eqP -> am]; by rewrite IH.
exact: flattenK.
Qed.
Theorem vlist_roundtrip (l : seq (seq V)) : deser_vlist tonat (ser_vlist ofnat l) = l.
Proof.
rewrite /deser_vlist /ser_vlist.
have gen : forall fuel, (size (flatten (map (fun v => ofnat (size v) :: v) l)) <= fuel)%N ->
    deser_vlist_f tonat fuel (flatten (map (fun v => ofnat (size v) :: v) l)) = l.
  elim: l => [|v l IH] fuel /=; first by case: fuel.
  case: fuel => [|fuel] //=; rewrite ltnS size_cat => le.
  rewrite tonatK take_size_cat // drop_size_cat // IH //.
  by apply: leq_trans le; apply: leq_addl.
exact: gen.
Qed.
End IoFacts.

(* without the drop (DropAllTables as it was on the pinned tree) a second write appends *)
Example append_refuted :
  read_table "scores" (read_file "f" (run_history false [:: ("f", [:: ("scores", [:: 6; 2; 9])]); ("f", [:: ("scores", [:: 8; 3; 1; 2])])]))
  = [:: 6; 2; 9; 8; 3; 1; 2].
Proof. by []. Qed.
