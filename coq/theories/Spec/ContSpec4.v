(* ContSpec4.v — C14, continued: MatrixSort / MatrixReverseSort (Containers.m_sort, the bounds-checked exchange sort with cell-wise
   row exchange) raise no memory error on ANY matrix and any key column in range, whatever the cells hold and whatever the
   comparison answers: the result is returned normally, has the same shape and row-pointer array size, and every row buffer is
   still fully written.  (That the rows come out ordered and are a permutation of the input rows is C11's msort theorem.) *)
From mathcomp Require Import all_ssreflect.
From mathcomp Require Import zify.
From LS Require Import NumOps Containers ContSpec ContSpec2.
Set Implicit Arguments. Unset Strict Implicit. Unset Printing Implicit Defensive.

Section Sort.
Context {K : Type} {ops : NumOps K}.
Local Notation buf := (seq (option K)).
Local Notation parr := (seq (option buf)).
Let z0 : K := k0.

Definition exch_body (k : nat) (bb : buf * buf) : res (buf * buf) :=
  let* a := rd bb.1 k in let* b := rd bb.2 k in let* b1 := wr bb.1 k b in let* b2 := wr bb.2 k a in ROk (b1, b2).
Definition inner_body (rv : bool) (c col i : nat) (j : nat) (p : parr) : res parr :=
  let* bi := rdp p i in let* bj := rdp p j in
  let* xi := rd bi col in let* xj := rd bj col in
  if (if rv then kltb xi xj else kltb xj xi) then
    let* bb := loop c 0 exch_body (bi, bj) in
    let* p1 := wrp p i bb.1 in wrp p1 j bb.2
  else ROk p.
Definition outer_body (rv : bool) (r c col : nat) (i : nat) (p : parr) : res parr :=
  loop (r - i.+1) i.+1 (inner_body rv c col i) p.
Lemma m_sortE rv (m : @mat K) col : m_sort rv m col =
  let* p0 := deref (mdata m) (0 < mrow m) in
  let* p := loop (mrow m) 0 (outer_body rv (mrow m) (mcol m) col) p0 in
  ROk (Mat (mrow m) (mcol m) (if mdata m is Some _ then Some p else None)).
Proof. by []. Qed.

Definition rowsfull (p : parr) (r c : nat) : Prop :=
  forall i, i < r -> exists b l, [/\ nth None p i = Some b, cells_ok b l & size l = c].

Lemma size_setp (p : parr) j x : j < size p -> size (set_nth None p j x) = size p.
Proof. by move=> jb; rewrite size_set_nth; apply/maxn_idPr. Qed.

(* the cell-wise exchange of two fully written rows *)
Lemma exch_ok (bi bj : buf) (ri rj : seq K) c : cells_ok bi ri -> cells_ok bj rj -> size ri = c -> size rj = c ->
  exists bb, [/\ loop c 0 exch_body (bi, bj) = ROk bb,
                 cells_ok bb.1 rj & cells_ok bb.2 ri].
Proof.
move=> [si ci] [sj cj] sri srj.
pose P k (bb : buf * buf) := [/\ size bb.1 = size bi, size bb.2 = size bj &
   forall j, j < c -> nth None bb.1 j = Some (if j < k then nth z0 rj j else nth z0 ri j) /\
                     nth None bb.2 j = Some (if j < k then nth z0 ri j else nth z0 rj j)].
have [||bb e [s1 s2 h]] := @loop_inv _ P c 0 exch_body (bi, bj).
- by split=> // j jc; rewrite ltn0 ci ?sri // cj ?srj.
- move=> k [b1 b2] /andP[_ kc] [/= s1 s2 h]; rewrite add0n in kc.
  have [h1 h2] := h k kc; rewrite ltnn in h1 h2.
  have k1 : k < size b1 by rewrite s1; apply: leq_trans si; rewrite sri.
  have k2 : k < size b2 by rewrite s2; apply: leq_trans sj; rewrite srj.
  rewrite /exch_body /rd /= k1 h1 k2 h2 /= (wr_ok _ k1) (wr_ok _ k2) /=.
  eexists; first by []. split; rewrite /= ?size_set //.
  move=> j jc; rewrite !nth_set_nth /= ltnS leq_eqVlt.
  by case: (altP (j =P k)) => [->|_] //=; have [a b] := h j jc.
exists bb; rewrite e; split=> //.
- split; first by rewrite s1 srj -sri.
  by move=> j; rewrite srj => jc; have [-> _] := h j jc; rewrite add0n jc.
- split; first by rewrite s2 sri -srj.
  by move=> j; rewrite sri => jc; have [_ ->] := h j jc; rewrite add0n jc.
Qed.

Theorem m_sort_safe rv (m : @mat K) r c (A : seq (seq K)) col : mrep m r c A -> col < c ->
  exists2 m', m_sort rv m col = ROk m' &
    [/\ mrow m' = r, mcol m' = c &
        match mdata m, mdata m' with
        | Some p, Some p' => size p' = size p /\ rowsfull p' r c
        | None, None => r = 0
        | _, _ => False
        end].
Proof.
move=> [er ec sA cA dm] cc; rewrite m_sortE er ec.
case e: (mdata m) dm => [p|] dm; last first.
  by rewrite dm /=; exists (Mat 0 c None) => //.
case: dm => sp rp; rewrite sA in sp rp.
have full0 : rowsfull p r c by move=> i ir; have [b nb cb] := rp i ir; exists b, (nth [::] A i); split=> //; apply: cA.
rewrite /=.
pose Q (_ : nat) (q : parr) := size q = size p /\ rowsfull q r c.
have [||p' -> [sp' fp']] := @loop_inv _ Q r 0 (outer_body rv r c col) p; first by [].
  move=> i q /andP[_ ir] [sq fq]; rewrite add0n in ir.
  have [||q' eq' [sq' fq']] := @loop_inv _ Q (r - i.+1) i.+1 (inner_body rv c col i) q; first by [].
    move=> j q2 /andP[ij jr] [sq2 fq2].
    have jr' : j < r by move: jr; rewrite subnKC.
    have [bi [li [nbi cbi sli]]] := fq2 i ir.
    have [bj [lj [nbj cbj slj]]] := fq2 j jr'.
    have iq : i < size q2 by rewrite sq2; exact: leq_trans ir sp.
    have jq : j < size q2 by rewrite sq2; exact: leq_trans jr' sp.
    rewrite /inner_body (rdp_ok iq nbi) (rdp_ok jq nbj) /= (rd_ok cbi) ?sli // (rd_ok cbj) ?slj //=.
    case: ifP => _; last by exists q2.
    have [[b1 b2] [-> c1 c2]] := exch_ok cbi cbj sli slj; rewrite /=.
    rewrite (wrp_ok _ iq) /= wrp_ok ?size_setp //=.
    eexists; first by []. split; first by rewrite !size_setp // size_setp.
    move=> x xr; rewrite nth_set_nth /=.
    case: (altP (x =P j)) => [_|xj]; first by exists b2, li.
    rewrite nth_set_nth /=; case: (altP (x =P i)) => [_|xi]; first by exists b1, lj.
    exact: fq2.
  by rewrite /outer_body eq'; exists q'.
by eexists; first by []; split.
Qed.
End Sort.
