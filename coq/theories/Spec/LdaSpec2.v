(* LdaSpec2.v — C08, continued: under an invertible affine map x -> A x + c of all objects the class
   means map the same way, the pooled within-class scatter becomes A Sw A^T, and its inverse
   becomes A^-T Sw^-1 A^-1 — exactly the contragredient transformation assumed by
   [affine_invariance]; so the discriminant differences computed from the transformed data
   equal those computed from the original data. Weights of the classes (priors) are arbitrary. *)
From mathcomp Require Import all_ssreflect all_algebra.
From LS Require Import NumOps RcfOps Kernels Pca LdaSpec.
Set Implicit Arguments. Unset Strict Implicit. Unset Printing Implicit Defensive.
Import Order.TTheory GRing.Theory Num.Theory.
Local Open Scope ring_scope.

Section Scatter.
Variable R : rcfType.
Variables (m : nat) (I : finType) (G : finType).
Variable cls : I -> G.                 (* class of every object *)
Variable w : G -> R.                   (* weight of every class (prior / count), arbitrary *)
Implicit Types (x : I -> 'cV[R]_m) (A : 'M[R]_m) (c : 'cV[R]_m).
Definition cnt (g : G) : R := (\sum_(i | cls i == g) 1).
Definition cmean x (g : G) : 'cV[R]_m := (cnt g)^-1 *: \sum_(i | cls i == g) x i.
Definition scatter x : 'M[R]_m :=
  \sum_g w g *: \sum_(i | cls i == g) (x i - cmean x g) *m (x i - cmean x g)^T.
Definition amap A c x : I -> 'cV[R]_m := fun i => A *m x i + c.

Lemma cmean_affine A c x g : cnt g != 0 -> cmean (amap A c x) g = A *m cmean x g + c.
Proof.
move=> n0; rewrite /cmean /amap big_split /= -mulmx_sumr scalerDr -scalemxAr; congr (_ + _).
rewrite (eq_bigr (fun i => 1 *: c)); last by move=> i _; rewrite scale1r.
by rewrite -scaler_suml scalerA mulVf // scale1r.
Qed.
Lemma scatter_affine A c x : (forall g, cnt g != 0) -> scatter (amap A c x) = A *m scatter x *m A^T.
Proof.
move=> n0; rewrite /scatter mulmx_sumr mulmx_suml; apply: eq_bigr => g _.
rewrite -scalemxAr -scalemxAl mulmx_sumr mulmx_suml; congr (_ *: _); apply: eq_bigr => i _.
rewrite cmean_affine // /amap opprD addrACA subrr addr0 -mulmxBr trmx_mul !mulmxA.
by [].
Qed.
Lemma scatter_sym x : (scatter x)^T = scatter x.
Proof.
rewrite /scatter raddf_sum /=; apply: eq_bigr => g _; rewrite linearZ /= raddf_sum /=; congr (_ *: _).
by apply: eq_bigr => i _; rewrite trmx_mul trmxK.
Qed.
(* the inverse covariance transforms contragrediently *)
Theorem inverse_scatter_affine A c x : (forall g, cnt g != 0) -> A \in unitmx -> scatter x \in unitmx ->
  invmx (scatter (amap A c x)) = (invmx A)^T *m invmx (scatter x) *m invmx A.
Proof.
move=> n0 Au Su; rewrite scatter_affine //.
set S := scatter x; set B := (invmx A)^T *m invmx S *m invmx A.
have BM : B *m (A *m S *m A^T) = 1%:M.
  rewrite /B !mulmxA -[_ *m invmx A *m A]mulmxA mulVmx // mulmx1.
  by rewrite -[_ *m invmx S *m S]mulmxA mulVmx // mulmx1 -trmx_mul mulmxV // trmx1.
have [_ Mu] := mulmx1_unit BM.
by rewrite -[LHS]mul1mx -BM -mulmxA mulmxV // mulmx1.
Qed.
(* discriminant differences computed entirely from the transformed data set equal the original ones *)
Theorem lda_affine_invariance A c x (k j : G) (z : 'cV[R]_m) :
  (forall g, cnt g != 0) -> A \in unitmx -> scatter x \in unitmx ->
  let x' := amap A c x in
  score (invmx (scatter x')) (cmean x' k) (A *m z + c) - score (invmx (scatter x')) (cmean x' j) (A *m z + c)
  = score (invmx (scatter x)) (cmean x k) z - score (invmx (scatter x)) (cmean x j) z.
Proof.
move=> n0 Au Su x'; rewrite /x' inverse_scatter_affine // !cmean_affine //.
apply: affine_invariance => //.
by rewrite trmx_inv scatter_sym.
Qed.
End Scatter.
