(* Sched.v — workers, schedules, thread-local vs shared generator state (C06). *)
From Coq Require Import List Arith Lia ZArith.
Import ListNotations.
(* C06: a worker is a script of RNG calls; a schedule is the order in which the OS lets the
   workers perform their next call.  gen/out are the regenerated generate_seed / output maps. *)
Section S.
Variable gen : Z -> Z.
Variable out : Z -> Z.
Inductive op := Srand (s : Z) | Draw.
(* one call on a state cell: returns new cell and optional output *)
Definition call (cell : Z) (o : op) : Z * list Z :=
  match o with Srand s => (gen s, []) | Draw => (gen cell, [out cell]) end.
Fixpoint seq_run (cell : Z) (script : list op) : Z * list Z :=
  match script with
  | [] => (cell, [])
  | o :: r => let '(c, y) := call cell o in let '(c', ys) := seq_run c r in (c', y ++ ys)
  end.
Record wst := { todo : list op; cellw : Z; outs : list Z }.
Definition upd (f : nat -> wst) (w : nat) (x : wst) : nat -> wst := fun v => if Nat.eqb v w then x else f v.
(* thread-local discipline: every worker has its own cell *)
Definition step_tls (f : nat -> wst) (w : nat) : nat -> wst :=
  match todo (f w) with
  | [] => f
  | o :: r => let '(c, y) := call (cellw (f w)) o in upd f w {| todo := r; cellw := c; outs := outs (f w) ++ y |}
  end.
Definition run_tls (f : nat -> wst) (sched : list nat) := fold_left step_tls sched f.
(* invariant: what a worker has produced so far is the sequential run of what it has consumed *)
Definition Inv (script : nat -> list op) (c0 : nat -> Z) (f : nat -> wst) :=
  forall w, exists done, script w = done ++ todo (f w) /\
     seq_run (c0 w) done = (cellw (f w), outs (f w)).
Lemma seq_run_app c a b : seq_run c (a ++ b) =
  let '(c1, y1) := seq_run c a in let '(c2, y2) := seq_run c1 b in (c2, y1 ++ y2).
Proof.
revert c. induction a as [|o a IH]; intros c; cbn [seq_run app].
- destruct (seq_run c b). reflexivity.
- destruct (call c o) as [c1 y]. rewrite IH. destruct (seq_run c1 a) as [c2 y2].
  destruct (seq_run c2 b) as [c3 y3]. rewrite app_assoc. reflexivity.
Qed.
Lemma step_inv script c0 f w : Inv script c0 f -> Inv script c0 (step_tls f w).
Proof.
intros HI v. unfold step_tls. destruct (todo (f w)) as [|o r] eqn:E; [apply HI|].
destruct (call (cellw (f w)) o) as [c y] eqn:C. unfold upd.
destruct (Nat.eqb_spec v w) as [->|ne]; [|apply HI].
destruct (HI w) as [done [Hs Hr]]. exists (done ++ [o]). cbn [todo cellw outs]. split.
- rewrite Hs, E, <- app_assoc. reflexivity.
- rewrite seq_run_app, Hr. cbn [seq_run]. rewrite C. rewrite app_nil_r. reflexivity.
Qed.
Lemma run_inv script c0 sched f : Inv script c0 f -> Inv script c0 (run_tls f sched).
Proof.
unfold run_tls. revert f. induction sched as [|x xs IH]; intros f H; cbn [fold_left]; [exact H|].
apply IH. apply step_inv. exact H.
Qed.
Theorem tls_schedule_independent script c0 sched :
  let f0 := fun w => {| todo := script w; cellw := c0 w; outs := [] |} in
  forall w, todo (run_tls f0 sched w) = [] ->
    outs (run_tls f0 sched w) = snd (seq_run (c0 w) (script w)).
Proof.
intros f0 w Hdone.
assert (HI : Inv script c0 (run_tls f0 sched)).
{ apply run_inv. intros v. exists []. split; reflexivity. }
destruct (HI w) as [done [Hs Hr]]. rewrite Hdone, app_nil_r in Hs. rewrite Hs, Hr. reflexivity.
Qed.
(* shared discipline: one cell for all workers (what a plain global gives) *)
Record sst := { todos : nat -> list op; cell : Z; souts : nat -> list Z }.
Definition step_shared (st : sst) (w : nat) : sst :=
  match todos st w with
  | [] => st
  | o :: r => let '(c, y) := call (cell st) o in
      {| todos := fun v => if Nat.eqb v w then r else todos st v; cell := c;
         souts := fun v => if Nat.eqb v w then souts st v ++ y else souts st v |}
  end.
Definition run_shared (script : nat -> list op) (c0 : Z) (sched : list nat) : sst :=
  fold_left step_shared sched {| todos := script; cell := c0; souts := fun _ => [] |}.
(* what the implementation does, according to the storage class found in the source *)
Definition worker_outs (tls : bool) (script : nat -> list op) (c0 : Z) (sched : list nat) (w : nat) : list Z :=
  if tls then outs (run_tls (fun w => {| todo := script w; cellw := c0; outs := [] |}) sched w)
  else souts (run_shared script c0 sched) w.
Definition worker_done (tls : bool) (script : nat -> list op) (c0 : Z) (sched : list nat) (w : nat) : bool :=
  match (if tls then todo (run_tls (fun w => {| todo := script w; cellw := c0; outs := [] |}) sched w)
         else todos (run_shared script c0 sched) w) with [] => true | _ => false end.
End S.
