(* AbiSpec.v — the decision procedure of Exec/Abi.v means what C20 says. *)
From Coq Require Import String List Bool Arith Lia.
Import ListNotations.
From LS Require Import Abi.
Local Open Scope string_scope.

Lemma forallb2_Forall2 {A B} (f : A -> B -> bool) l m :
  forallb2 f l m = true -> Forall2 (fun a b => f a b = true) l m.
Proof.
revert m; induction l as [|a l IH]; intros [|b m] H; cbn in H; try discriminate; constructor.
- apply andb_prop in H; tauto.
- apply IH; apply andb_prop in H; tauto.
Qed.

Lemma str_list_eqb_eq a b : str_list_eqb a b = true -> a = b.
Proof.
unfold str_list_eqb; revert b; induction a as [|x a IH]; intros [|y b] H; cbn in H; try discriminate; [reflexivity|].
apply andb_prop in H as [H1 H2]; apply String.eqb_eq in H1; subst; f_equal; auto.
Qed.

(* compatible field types have the same size and alignment ... *)
Lemma compat_size_align nm p c : compat nm p c = true -> size_align p = size_align c.
Proof.
destruct p, c; cbn; intros H; try discriminate; try reflexivity.
apply andb_prop in H as [H _]; apply Nat.eqb_eq in H; subst; reflexivity.
Qed.

(* ... hence compatible field lists have the same LP64 layout (every offset and size) *)
Lemma compat_layout nm ps cs off :
  Forall2 (fun p c => compat nm p c = true) ps cs -> layout_from off ps = layout_from off cs.
Proof.
intros H; revert off; induction H as [|p c ps cs Hpc _ IH]; intros off; cbn; [reflexivity|].
rewrite (compat_size_align _ _ _ Hpc); destruct (size_align c) as [[sz al]|]; [|reflexivity].
rewrite IH; reflexivity.
Qed.

Theorem check_struct_sound nm ps cs : check_struct nm ps cs = true ->
  map fst ps = map fst cs /\
  Forall2 (fun p c => compat nm p c = true) (map snd ps) (map snd cs) /\
  layout (map snd ps) = layout (map snd cs) /\ layout (map snd cs) <> None.
Proof.
unfold check_struct; intros H; apply andb_prop in H as [H H3]; apply andb_prop in H as [H1 H2].
apply str_list_eqb_eq in H1; apply forallb2_Forall2 in H2.
repeat split; auto; [apply (compat_layout nm); exact H2|].
destruct (layout (map snd cs)); [discriminate | discriminate].
Qed.

Lemma Forall2_len {A B} (R : A -> B -> Prop) l m : Forall2 R l m -> length l = length m.
Proof. induction 1; cbn; congruence. Qed.

Lemma kind_eqb_eq a b : kind_eqb a b = true -> a = b.
Proof.
destruct a, b; cbn; intros H; try discriminate; try reflexivity.
- apply Nat.eqb_eq in H; subst; reflexivity.
- apply andb_prop in H as [H1 H2]; apply Nat.eqb_eq in H1; apply Nat.eqb_eq in H2; subst; reflexivity.
Qed.

Theorem check_fun_sound pargs pret cret cargs : check_fun pargs pret cret cargs = true ->
  (match pargs with
   | Some pa => length pa = length cargs /\ Forall2 (fun p c => kind_of p = kind_of c) pa cargs
   | None => cargs = []
   end) /\
  kind_of (match pret with Some t => t | None => Int 32 true end) = kind_of cret.
Proof.
unfold check_fun; intros H; apply andb_prop in H as [H1 H2]; split; [|apply kind_eqb_eq; exact H2].
destruct pargs as [pa|]; [|destruct cargs; [reflexivity|discriminate]].
apply forallb2_Forall2 in H1; split.
- eapply Forall2_len; exact H1.
- clear -H1; induction H1; constructor; auto using kind_eqb_eq.
Qed.

Section Tables.
Variables (c_structs py_structs : list (string * list (string * ctype)))
          (c_protos : list (string * (ctype * list ctype)))
          (py_decls : list (string * (option (list ctype) * option ctype)))
          (nm : list (string * string)).
Local Notation ok := (abi_ok c_structs py_structs c_protos py_decls nm).
Local Notation mism := (abi_mismatches c_structs py_structs c_protos py_decls nm).

(* ok = true: every declared structure / function agrees with the C side *)
Theorem abi_ok_sound : ok = true ->
  (forall pn pf, In (pn, pf) py_structs ->
     exists cn cf, lookup nm pn = Some cn /\ lookup c_structs cn = Some cf /\
       map fst pf = map fst cf /\ Forall2 (fun p c => compat nm p c = true) (map snd pf) (map snd cf) /\
       layout (map snd pf) = layout (map snd cf) /\ layout (map snd cf) <> None) /\
  (forall fn pa pr, In (fn, (pa, pr)) py_decls ->
     exists cret cargs, lookup c_protos fn = Some (cret, cargs) /\
       (match pa with Some l => length l = length cargs /\ Forall2 (fun p c => kind_of p = kind_of c) l cargs | None => cargs = [] end) /\
       kind_of (match pr with Some t => t | None => Int 32 true end) = kind_of cret).
Proof.
unfold abi_ok; intros H; apply andb_prop in H as [Hs Hf]; rewrite forallb_forall in Hs, Hf; split.
- intros pn pf Hin; specialize (Hs _ Hin); unfold struct_ok in Hs; cbn in Hs.
  destruct (lookup nm pn) as [cn|] eqn:E1; [|discriminate]; destruct (lookup c_structs cn) as [cf|] eqn:E2; [|discriminate].
  exists cn, cf; apply check_struct_sound in Hs; destruct Hs as [A [B [C D]]]; repeat split; assumption.
- intros fn pa pr Hin; specialize (Hf _ Hin); unfold fun_ok in Hf; cbn in Hf.
  destruct (lookup c_protos fn) as [[cret cargs]|] eqn:E1; [|discriminate].
  exists cret, cargs; apply check_fun_sound in Hf; destruct Hf as [A B]; repeat split; assumption.
Qed.

(* ok = false: the list of mismatches is non-empty and every listed name is a declaration that
   really fails its check *)
Theorem abi_ok_complete : ok = false ->
  mism <> [] /\
  forall n, In n mism ->
    (exists pf, In (n, pf) py_structs /\ struct_ok c_structs nm (n, pf) = false) \/
    (exists d, In (n, d) py_decls /\ fun_ok c_protos (n, d) = false).
Proof.
unfold abi_ok, abi_mismatches; intros H; split.
- apply andb_false_iff in H as [H|H].
  + assert (E : exists x, In x py_structs /\ struct_ok c_structs nm x = false).
    { clear -H; induction py_structs as [|a l IH]; cbn in H; [discriminate|].
      apply andb_false_iff in H as [H|H]; [exists a; split; [left; reflexivity|exact H]|].
      destruct (IH H) as [x [Hx Hx']]; exists x; split; [right; exact Hx|exact Hx']. }
    destruct E as [x [Hx Hx']]; intros E.
    assert (In (fst x) (map fst (filter (fun p => negb (struct_ok c_structs nm p)) py_structs))).
    { apply in_map, filter_In; split; [exact Hx|rewrite Hx'; reflexivity]. }
    apply app_eq_nil in E as [E _]; rewrite E in H0; destruct H0.
  + assert (E : exists x, In x py_decls /\ fun_ok c_protos x = false).
    { clear -H; induction py_decls as [|a l IH]; cbn in H; [discriminate|].
      apply andb_false_iff in H as [H|H]; [exists a; split; [left; reflexivity|exact H]|].
      destruct (IH H) as [x [Hx Hx']]; exists x; split; [right; exact Hx|exact Hx']. }
    destruct E as [x [Hx Hx']]; intros E.
    assert (In (fst x) (map fst (filter (fun p => negb (fun_ok c_protos p)) py_decls))).
    { apply in_map, filter_In; split; [exact Hx|rewrite Hx'; reflexivity]. }
    apply app_eq_nil in E as [_ E]; rewrite E in H0; destruct H0.
- intros n Hn; apply in_app_or in Hn as [Hn|Hn]; apply in_map_iff in Hn as [[n' x] [E Hx]]; cbn in E; subst n';
    apply filter_In in Hx as [Hx Hb]; apply negb_true_iff in Hb.
  + left; exists x; split; assumption.
  + right; exists x; split; assumption.
Qed.
End Tables.
