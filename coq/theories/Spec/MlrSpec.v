(* MlrSpec.v — ordinary least squares through the normal equations (C07): with N a left inverse
   of Z'Z (what Gauss–Jordan returns, Spec/GJ.v) and B = N Z'Y, the residual is orthogonal to
   every column of Z, B minimises the residual sum of squares, exact linear data are recovered,
   and the fit is linear in Y. *)
From mathcomp Require Import all_ssreflect all_algebra.
Set Implicit Arguments. Unset Strict Implicit. Unset Printing Implicit Defensive.
Import Order.TTheory GRing.Theory Num.Theory.
Local Open Scope ring_scope.

Section Mlr.
Variable R : rcfType.
Variables n p k : nat.
Variable Z : 'M[R]_(n,p).      (* design matrix (first column of ones in MLR) *)
Variable N : 'M[R]_p.
Hypothesis NZ : N *m (Z^T *m Z) = 1%:M.
Definition fro2 a b (A : 'M[R]_(a,b)) : R := \tr (A^T *m A).
Lemma fro2_ge0 a b (A : 'M[R]_(a,b)) : 0 <= fro2 A.
Proof.
rewrite /fro2 /mxtrace; apply: sumr_ge0 => i _; rewrite mxE; apply: sumr_ge0 => j _.
by rewrite mxE -expr2 sqr_ge0.
Qed.
Definition coef (Y : 'M[R]_(n,k)) : 'M[R]_(p,k) := N *m (Z^T *m Y).
Lemma ZN : (Z^T *m Z) *m N = 1%:M.
Proof. exact: mulmx1C. Qed.

Theorem normal_equations Y : Z^T *m (Y - Z *m coef Y) = 0.
Proof. by rewrite mulmxBr /coef !mulmxA ZN mul1mx subrr. Qed.

(* residuals are orthogonal to every vector of the column space of Z — in particular to the
   column of ones (they sum to zero) and to every predictor *)
Corollary residual_orthogonal_to_colspace Y (c : 'cV[R]_p) : (Z *m c)^T *m (Y - Z *m coef Y) = 0.
Proof. by rewrite trmx_mul -mulmxA normal_equations mulmx0. Qed.

Lemma pyth (Rm D : 'M[R]_(n,k)) : Rm^T *m D = 0 -> fro2 (Rm + D) = fro2 Rm + fro2 D.
Proof.
move=> o; have o' : D^T *m Rm = 0 by rewrite -[D^T *m Rm]trmxK trmx_mul trmxK o trmx0.
by rewrite /fro2 [(Rm + D)^T]linearD /= mulmxDr !mulmxDl o o' addr0 add0r raddfD.
Qed.

Theorem least_squares Y (B' : 'M[R]_(p,k)) : fro2 (Y - Z *m coef Y) <= fro2 (Y - Z *m B').
Proof.
have -> : Y - Z *m B' = (Y - Z *m coef Y) + Z *m (coef Y - B').
  by rewrite mulmxBr addrA subrK.
rewrite (@pyth (Y - Z *m coef Y) (Z *m (coef Y - B'))) ?ler_addl ?fro2_ge0 //.
apply: trmx_inj; rewrite trmx_mul trmxK trmx_mul -mulmxA normal_equations mulmx0.
by rewrite trmx0.
Qed.

Theorem exact_recovery (B0 : 'M[R]_(p,k)) : coef (Z *m B0) = B0.
Proof. by rewrite /coef [Z^T *m _]mulmxA [N *m _]mulmxA NZ mul1mx. Qed.

Theorem linear_in_y Y (D : 'M[R]_k) : coef (Y *m D) = coef Y *m D.
Proof. by rewrite /coef !mulmxA. Qed.
Theorem shift_equivariance Y (c : 'cV[R]_p) (d : 'rV[R]_k) :
  coef (Y + (Z *m c) *m d) = coef Y + c *m d.
Proof. by rewrite /coef !mulmxDr -![Z *m c *m d]mulmxA [Z^T *m (Z *m _)]mulmxA [N *m (_ *m _ *m _)]mulmxA NZ mul1mx. Qed.
End Mlr.

(* R2 = 1 - RSS/TSS lies in [0,1] on the training data when the mean-only model belongs to the
   family (intercept column) *)
Section R2.
Variable R : rcfType.
Lemma r2_range (rss tss : R) : 0 <= rss -> rss <= tss -> 0 < tss -> 0 <= 1 - rss / tss <= 1.
Proof.
move=> r0 rt t0; rewrite subr_ge0 ler_pdivr_mulr // mul1r rt /=.
by rewrite ler_subl_addr ler_addl divr_ge0 // ltW.
Qed.
End R2.
