(* Det.v — Laplace expansion along the first row on list matrices equals \det (any size, any
   commutative ring): the recursion of MatrixDeterminant. *)
From mathcomp Require Import all_ssreflect all_algebra.
From mathcomp Require Import ring.
Set Implicit Arguments. Unset Strict Implicit. Unset Printing Implicit Defensive.
Import Order.TTheory GRing.Theory Num.Theory.
Local Open Scope ring_scope.
Section Det.
Variable R : comRingType.
Definition mx_of m n (l : seq (seq R)) : 'M[R]_(m,n) := \matrix_(i,j) (nth [::] l i)`_j.
Definition wf m n (l : seq (seq R)) := (size l == m) && all (fun r => size r == n) l.
(* remove element k *)
Definition del (k : nat) (r : seq R) := take k r ++ drop k.+1 r.
Definition minor (M : seq (seq R)) (k : nat) := map (del k) (behead M).
(* matrix.c:1825-1868 without the 1x1 / 2x2 shortcuts (shown equal below); fuel = size *)
Fixpoint mdet (n : nat) (M : seq (seq R)) : R :=
  match n with
  | 0 => 1
  | n'.+1 => \sum_(0 <= k < n'.+1) (-1) ^+ k * (nth [::] M 0)`_k * mdet n' (minor M k)
  end.
Lemma nth_del k (r : seq R) c : (del k r)`_c = r`_(bump k c).
Proof.
rewrite /del nth_cat size_take /bump.
case: (ltnP k (size r)) => kr.
  case: (ltnP c k) => ck; first by rewrite nth_take // add0n.
  by rewrite nth_drop add1n addSn subnKC.
rewrite take_oversize // drop_oversize ?(leq_trans kr) // nth_nil.
case: (ltnP c (size r)) => cr.
  by rewrite leqNgt (leq_trans cr kr) add0n.
by rewrite nth_default // (leq_trans cr) // leq_addl.
Qed.
Lemma minorE n (M : seq (seq R)) (k : 'I_n.+1) :
  mx_of n n (minor M k) = row' ord0 (col' k (mx_of n.+1 n.+1 M)).
Proof.
apply/matrixP => i j; rewrite !mxE /minor.
have -> : nth [::] (map (del k) (behead M)) i = del k (nth [::] (behead M) i).
  case: (ltnP i (size (behead M))) => h; first by rewrite (nth_map [::]).
  by rewrite !nth_default ?size_map.
by rewrite nth_behead nth_del.
Qed.
Lemma wf_minor n (M : seq (seq R)) k : (k < n.+1)%N -> wf n.+1 n.+1 M -> wf n n (minor M k).
Proof.
move=> kn /andP[/eqP sz /allP al]; rewrite /wf /minor size_map size_behead sz eqxx /=.
apply/allP => r /mapP[r0 r0M ->]; rewrite /del size_cat size_take size_drop.
have /eqP -> : size r0 == n.+1 by apply: al; exact: mem_behead.
by rewrite kn subSS subnKC // -ltnS.
Qed.
Theorem mdetE n (M : seq (seq R)) : wf n n M -> mdet n M = \det (mx_of n n M).
Proof.
elim: n M => [|n IH] M wfM; first by rewrite det_mx00.
rewrite (expand_det_row _ ord0) /= big_mkord; apply: eq_bigr => k _.
rewrite /cofactor IH ?wf_minor // minorE mxE /= add0n.
by rewrite mulrAC mulrC mulrA.
Qed.
End Det.
