(* KernelsSpec.v — refinement lemmas: the list kernels of Exec/Kernels.v, run over an
   arbitrary real closed field, compute the textbook objects of MathComp's matrix
   library. These lemmas are the content of C11 and the rewriting base of every later
   proof. *)
From mathcomp Require Import all_ssreflect all_algebra.
From LS Require Import NumOps RcfOps Kernels.
Set Implicit Arguments. Unset Strict Implicit. Unset Printing Implicit Defensive.
Import Order.TTheory GRing.Theory Num.Theory.
Local Open Scope ring_scope.

Section KS.
Variable R : rcfType.
Local Notation vec := (seq R).
Local Notation mat := (seq (seq R)).
Local Existing Instance RcfOps.

(* ---------- shapes ---------------------------------------------------------------- *)
Lemma wf_size m n (E : mat) : wf m n E -> size E = m.
Proof. by case/andP=> /eqP. Qed.
Lemma wf_row m n (E : mat) i : wf m n E -> (i < m)%N -> size (nth [::] E i) = n.
Proof. by case/andP=> /eqP sz /allP h lt; apply/eqP/h/mem_nth; rewrite sz. Qed.
Lemma wf_ncols m n (E : mat) : wf m n E -> (0 < m)%N -> ncols E = n.
Proof.
case: E => [|r E]; first by case/andP=> /eqP <-.
by case/andP=> _ /= /andP[/eqP].
Qed.
Lemma nth_col (E : mat) j i : (i < size E)%N -> nth 0 (col E j) i = nth 0 (nth [::] E i) j.
Proof. by move=> lt; rewrite /col (nth_map [::]). Qed.
Lemma size_col (E : mat) j : size (col E j) = size E.
Proof. by rewrite /col size_map. Qed.
Lemma mx_ofE m n (E : mat) (i : 'I_m) (j : 'I_n) : mx_of m n E i j = (nth [::] E i)`_j.
Proof. by rewrite mxE. Qed.

(* ---------- the plain and the unrolled inner product -------------------------------- *)
Lemma dot_plainE (acc : R) (u v : vec) : size u = size v ->
  dot_plain acc u v = acc + \sum_(i < size u) u`_i * v`_i.
Proof.
elim: u v acc => [|x u IH] [|y v] acc //=; first by rewrite big_ord0 addr0.
by case=> sz; rewrite IH // big_ord_recl /= addrA.
Qed.

Lemma dot_unrolled_fE fuel (res : R) (u v : vec) : (size u < fuel)%N ->
  dot_unrolled_f fuel res u v = dot_plain res u v.
Proof.
elim: fuel res u v => // fuel IH res u v.
case: u => [|x0 [|x1 [|x2 [|x3 u]]]] //; case: v => [|y0 [|y1 [|y2 [|y3 v]]]] // lt.
rewrite [LHS]/= IH; last by move: lt; rewrite /= !ltnS => /ltnW/ltnW/ltnW.
by rewrite /= !addrA.
Qed.

Lemma dot_unrolledE (u v : vec) : size u = size v ->
  dot_unrolled u v = \sum_(i < size u) u`_i * v`_i.
Proof. by move=> sz; rewrite /dot_unrolled dot_unrolled_fE // dot_plainE // add0r. Qed.

(* ---------- MISSING-filtered accumulations on clean data -------------------------- *)
Lemma mv_accE (acc : R) (u v : vec) : cleanv u -> cleanv v -> size u = size v ->
  mv_acc acc u v = acc + \sum_(i < size u) u`_i * v`_i.
Proof.
elim: u v acc => [|x u IH] [|y v] acc //=; first by rewrite big_ord0 addr0.
case/andP=> cx cu /andP[cy cv] [sz].
by rewrite (negbTE cx) (negbTE cy) /= IH // big_ord_recl /= addrA.
Qed.

Lemma dotm_accE (acc : R) (u v : vec) : cleanv u -> cleanv v -> size u = size v ->
  dotm_acc acc u v = acc + \sum_(i < size u) u`_i * v`_i.
Proof.
elim: u v acc => [|x u IH] [|y v] acc //=; first by rewrite big_ord0 addr0.
case/andP=> cx cu /andP[cy cv] [sz].
by rewrite (negbTE cx) (negbTE cy) /= IH // big_ord_recl /= addrA.
Qed.

Lemma vdotE n (u v : vec) : cleanv u -> cleanv v -> size u = n -> size v = n ->
  vdot u v = ((cv_of n u)^T *m cv_of n v) 0 0.
Proof.
move=> cu cv su sv; rewrite /vdot dotm_accE ?su ?sv // add0r mxE.
by apply: eq_bigr => i _; rewrite !mxE.
Qed.

Lemma cleanm_row (E : mat) i : cleanm E -> cleanv (nth [::] E i).
Proof.
move=> /allP cE; case: (ltnP i (size E)) => lt; first exact/cE/mem_nth.
by rewrite nth_default.
Qed.
Lemma cleanm_col (E : mat) j : cleanm E -> (forall r, r \in E -> (j < size r)%N) -> cleanv (col E j).
Proof.
move=> /allP cE hj; apply/allP => x /mapP[r rE ->].
by have /allP h := cE _ rE; apply/h/mem_nth/hj.
Qed.

(* ---------- matrix-vector products ------------------------------------------------- *)
Lemma size_matvec_into (E : mat) (v p : vec) : size (matvec_into E v p) = size p.
Proof. by elim: E p => [|r E IH] [|pi p] //=; rewrite IH. Qed.

Lemma nth_matvec_into (E : mat) (v p : vec) i : (i < size E)%N -> (i < size p)%N ->
  nth 0 (matvec_into E v p) i = mv_acc (nth 0 p i) (nth [::] E i) v.
Proof. by elim: E p i => [|r E IH] [|pi p] [|i] //= lt1 lt2; apply: IH. Qed.

(* C11_matvec: MatrixDVectorDotProduct adds E*v to what p already holds *)
Lemma matvec_intoE m n (E : mat) (v p : vec) : wf m n E -> size v = n -> size p = m ->
  cleanm E -> cleanv v ->
  cv_of m (matvec_into E v p) = cv_of m p + mx_of m n E *m cv_of n v.
Proof.
move=> wE sv sp cE cv; apply/colP => i; rewrite !mxE.
have iE : (i < size E)%N by rewrite (wf_size wE).
rewrite nth_matvec_into ?sp // mv_accE ?(wf_row wE) //; last exact: cleanm_row.
by congr (_ + _); apply: eq_bigr => j _; rewrite !mxE.
Qed.

Lemma matvecE m n (E : mat) (v : vec) : wf m n E -> size v = n -> cleanm E -> cleanv v ->
  cv_of m (matvec E v) = mx_of m n E *m cv_of n v.
Proof.
move=> wE sv cE cv; rewrite /matvec (matvec_intoE (p := zeros (size E)) wE) //;
  last by rewrite size_nseq (wf_size wE).
rewrite [X in X + _](_ : _ = 0) ?add0r //.
by apply/colP=> i; rewrite !mxE nth_nseq if_same.
Qed.

(* C11_vecmat: DVectorMatrixDotProduct adds v^T*E (as a column: E^T v) to p *)
Lemma vecmat_intoE m n (E : mat) (v p : vec) : wf m n E -> size v = m -> size p = n ->
  cleanm E -> cleanv v ->
  cv_of n (vecmat_into E v p) = cv_of n p + (mx_of m n E)^T *m cv_of m v.
Proof.
move=> wE sv sp cE cv; apply/colP => j; rewrite !mxE.
rewrite /vecmat_into nth_mkseq ?sp // mv_accE ?size_col ?(wf_size wE) ?sv //; last first.
  apply: cleanm_col => // r rE; case/andP: wE => _ /allP h.
  by rewrite (eqP (h _ rE)).
congr (_ + _); apply: eq_bigr => i _.
by rewrite !mxE nth_col ?(wf_size wE) // mulrC.
Qed.

(* ---------- matrix product, both branches of the dispatch --------------------------- *)
Lemma col_rowE m n (B : mat) j (k : 'I_m) : wf m n B -> (col B j)`_k = (nth [::] B k)`_j.
Proof. by move=> wB; rewrite nth_col // (wf_size wB). Qed.

Lemma matmul_plain_intoE m n p (A B C : mat) : wf m n A -> wf n p B -> wf m p C ->
  mx_of m p (matmul_plain_into A B C) = mx_of m p C + mx_of m n A *m mx_of n p B.
Proof.
move=> wA wB wC; apply/matrixP => i j; rewrite !mxE.
rewrite /matmul_plain_into (wf_size wA) nth_mkseq // nth_mkseq ?(wf_row wC) //.
rewrite dot_plainE ?size_col ?(wf_row wA) ?(wf_size wB) //.
by congr (_ + _); apply: eq_bigr => k _; rewrite !mxE (col_rowE _ _ wB).
Qed.

Lemma matmul_unrolled_intoE m n p (A B C : mat) : wf m n A -> wf n p B -> wf m p C ->
  mx_of m p (matmul_unrolled_into A B C) = mx_of m p C + mx_of m n A *m mx_of n p B.
Proof.
move=> wA wB wC; apply/matrixP => i j; rewrite !mxE.
rewrite /matmul_unrolled_into (wf_size wA) nth_mkseq // nth_mkseq ?(wf_row wC) //.
rewrite dot_unrolledE ?size_col ?(wf_row wA) ?(wf_size wB) //.
by congr (_ + _); apply: eq_bigr => k _; rewrite !mxE (col_rowE _ _ wB).
Qed.

(* C11_matmul: MatrixDotProduct (whatever branch the dispatch takes) adds A*B to R *)
Lemma matmul_intoE m n p (A B C : mat) : wf m n A -> wf n p B -> wf m p C ->
  mx_of m p (matmul_into A B C) = mx_of m p C + mx_of m n A *m mx_of n p B.
Proof.
move=> wA wB wC; rewrite /matmul_into; case: ifP => _.
  exact: matmul_unrolled_intoE.
exact: matmul_plain_intoE.
Qed.

Lemma mx_of_zerom m p r c : mx_of m p (zerom r c : mat) = 0.
Proof.
apply/matrixP=> i j; rewrite !mxE /zerom nth_nseq; case: ifP => _; last by rewrite nth_nil.
by rewrite nth_nseq if_same.
Qed.

Lemma wf_zerom m p : wf m p (zerom m p : mat).
Proof.
rewrite /wf size_nseq eqxx /=; apply/allP => r /nseqP[-> _].
by rewrite size_nseq.
Qed.

Lemma matmulE m n p (A B : mat) : wf m n A -> wf n p B ->
  mx_of m p (matmul p A B) = mx_of m n A *m mx_of n p B.
Proof.
move=> wA wB; rewrite /matmul (wf_size wA).
by rewrite (matmul_intoE wA wB (wf_zerom m p)) // mx_of_zerom add0r.
Qed.

(* ---------- outer product, transpose, trace ------------------------------------------ *)
Lemma outerE m n (a b : vec) : size a = m -> size b = n -> cleanv a -> cleanv b ->
  mx_of m n (outer a b) = cv_of m a *m (cv_of n b)^T.
Proof.
move=> sa sb ca cb; apply/matrixP => i j; rewrite !mxE big_ord1 !mxE.
rewrite /outer (nth_map 0) ?sa // (nth_map 0) ?sb //.
have /allP ha := ca; have /allP hb := cb.
have ci : cleanx a`_i by apply/ha/mem_nth; rewrite sa.
have cj : cleanx b`_j by apply/hb/mem_nth; rewrite sb.
by rewrite (negbTE ci) (negbTE cj).
Qed.

Lemma transposeE m n (E : mat) : wf m n E ->
  mx_of n m (transpose n E) = (mx_of m n E)^T.
Proof.
move=> wE; apply/matrixP => j i; rewrite !mxE /transpose nth_mkseq //.
by rewrite nth_col // (wf_size wE).
Qed.

Lemma foldl_sumE (T : Type) (f : T -> R) (s : seq T) (t : R) :
  foldl (fun t i => t + f i) t s = t + \sum_(i <- s) f i.
Proof.
elim: s t => [|x s IH] t /=; first by rewrite big_nil addr0.
by rewrite IH big_cons addrA.
Qed.

Lemma traceE n (E : mat) : wf n n E -> trace E = \tr (mx_of n n E).
Proof.
move=> wE; rewrite /trace (wf_size wE) (foldl_sumE (fun i => mget E i i)) add0r.
rewrite -[n in iota 0 n]subn0 -/(index_iota 0 n) big_mkord /mxtrace.
by apply: eq_bigr => i _; rewrite mxE.
Qed.

(* ---------- shapes of results, algebraic laws through the refinement ------------------ *)
Lemma wf_transpose m n (E : mat) : wf m n E -> wf n m (transpose n E).
Proof.
move=> wE; rewrite /wf /transpose size_mkseq eqxx /=.
by apply/allP => r /mapP[j _ ->]; rewrite size_col (wf_size wE).
Qed.

Lemma size_row_zerom m p i : (i < m)%N -> size (nth [::] (zerom m p : mat) i) = p.
Proof. by move=> lt; rewrite /zerom nth_nseq lt size_nseq. Qed.

Lemma wf_matmul m n p (A B : mat) : wf m n A -> wf n p B -> wf m p (matmul p A B).
Proof.
move=> wA wB; rewrite /matmul /matmul_into (wf_size wA).
by case: ifP => _; rewrite /wf /matmul_unrolled_into /matmul_plain_into size_mkseq (wf_size wA) eqxx /=;
  apply/allP => r /mapP[i]; rewrite mem_iota add0n => /andP[_ lt] ->; rewrite size_mkseq size_row_zerom.
Qed.

Lemma transpose_product m n p (A B : mat) : wf m n A -> wf n p B ->
  mx_of p m (transpose p (matmul p A B)) = mx_of p m (matmul m (transpose p B) (transpose n A)).
Proof.
move=> wA wB.
rewrite (transposeE (wf_matmul wA wB)) (matmulE wA wB) // trmx_mul.
by rewrite (matmulE (wf_transpose wB) (wf_transpose wA)) // !transposeE.
Qed.

Lemma transpose_involutive m n (E : mat) : wf m n E ->
  mx_of m n (transpose m (transpose n E)) = mx_of m n E.
Proof. by move=> wE; rewrite (transposeE (wf_transpose wE)) transposeE // trmxK. Qed.

End KS.
