(* Metric.v — C13: the Euclidean and Manhattan distances of the model (the code of
   metricspace.c run over a real closed field) are metrics on vectors of equal length:
   non-negative, zero exactly on equal vectors, symmetric, and they satisfy the triangle
   inequality (Minkowski from Cauchy–Schwarz for the Euclidean one). *)
From mathcomp Require Import all_ssreflect all_algebra.
From LS Require Import NumOps RcfOps Kernels Distance Euclid.
Set Implicit Arguments. Unset Strict Implicit. Unset Printing Implicit Defensive.
Import Order.TTheory GRing.Theory Num.Theory.
Local Open Scope ring_scope.

Section Metric.
Variable R : rcfType.
Local Existing Instance RcfOps.
Implicit Types u v w : seq R.

Lemma sqdist_accE acc u v : size u = size v ->
  sqdist_acc acc u v = acc + \sum_(i < size u) (u`_i - v`_i) ^+ 2.
Proof.
elim: u v acc => [|x u IH] [|y v] acc //=; first by rewrite big_ord0 addr0.
by case=> sz; rewrite IH // big_ord_recl /= addrA expr2.
Qed.
Lemma absdist_accE acc u v : size u = size v ->
  absdist_acc acc u v = acc + \sum_(i < size u) `|u`_i - v`_i|.
Proof.
elim: u v acc => [|x u IH] [|y v] acc //=; first by rewrite big_ord0 addr0.
by case=> sz; rewrite IH // big_ord_recl /= addrA.
Qed.

(* ---- Manhattan ---- *)
Theorem manhattan_ge0 u v : size u = size v -> 0 <= dist Manhattan u v.
Proof. by move=> sz; rewrite /= absdist_accE // add0r; apply: sumr_ge0 => i _; apply: normr_ge0. Qed.
Theorem manhattan_sym u v : size u = size v -> dist Manhattan u v = dist Manhattan v u.
Proof.
move=> sz; rewrite /= !absdist_accE // !add0r -sz; apply: eq_bigr => i _; exact: distrC.
Qed.
Theorem manhattan_eq0 u v : size u = size v -> (dist Manhattan u v == 0) = (u == v).
Proof.
move=> sz; rewrite /= absdist_accE // add0r psumr_eq0; last by move=> i _; apply: normr_ge0.
apply/idP/eqP => [/allP h|->]; last by apply/allP => i _ /=; rewrite subrr normr0.
apply: (@eq_from_nth _ 0) => // i ilt.
by have := h (Ordinal ilt) (mem_index_enum _); rewrite /= normr_eq0 subr_eq0 => /eqP.
Qed.
Theorem manhattan_triangle u v w : size u = size v -> size v = size w ->
  dist Manhattan u w <= dist Manhattan u v + dist Manhattan v w.
Proof.
move=> s1 s2; rewrite /= !absdist_accE ?s1 // !add0r -big_split /=.
by apply: ler_sum => i _; apply: ler_dist_add.
Qed.

(* ---- Euclidean ---- *)
Lemma euclidE u v : size u = size v ->
  dist Euclidean u v = Num.sqrt (dot (cv_of (size u) u - cv_of (size u) v) (cv_of (size u) u - cv_of (size u) v)).
Proof.
move=> sz; rewrite /= sqdist_accE // add0r; congr Num.sqrt; apply: eq_bigr => i _.
by rewrite !mxE expr2.
Qed.
Lemma norm_triangle n (x y : 'cV[R]_n) :
  Num.sqrt (dot (x + y) (x + y)) <= Num.sqrt (dot x x) + Num.sqrt (dot y y).
Proof.
have h0 : 0 <= Num.sqrt (dot x x) + Num.sqrt (dot y y) by rewrite addr_ge0 // sqrtr_ge0.
rewrite -[X in _ <= X]ger0_norm // -sqrtr_sqr; apply: ler_wsqrtr.
rewrite sqrrD !sqr_sqrtr ?dot_ge0 // dotDl [dot x (x + y)]dotC [dot y (x + y)]dotC !dotDl.
rewrite [dot y x]dotC -!addrA ler_add2l !addrA ler_add2r -mulr2n ler_muln2r /=.
apply: le_trans (ler_norm _) _; rewrite -sqrtr_sqr -sqrtrM ?dot_ge0 //; apply: ler_wsqrtr.
exact: cauchy_schwarz.
Qed.
Theorem euclidean_ge0 u v : 0 <= dist Euclidean u v.
Proof. exact: sqrtr_ge0. Qed.
Theorem euclidean_sym u v : size u = size v -> dist Euclidean u v = dist Euclidean v u.
Proof.
move=> sz; rewrite /= !sqdist_accE // !add0r -sz; congr Num.sqrt; apply: eq_bigr => i _.
by rewrite -sqrrN opprB.
Qed.
Theorem euclidean_eq0 u v : size u = size v -> (dist Euclidean u v == 0) = (u == v).
Proof.
move=> sz; rewrite euclidE // sqrtr_eq0 le_eqVlt ltNge dot_ge0 orbF dot_eq0 subr_eq0.
apply/eqP/eqP => [h|->] //; apply: (@eq_from_nth _ 0) => // i ilt.
by have := congr1 (fun a : 'cV_ _ => a (Ordinal ilt) 0) h; rewrite !mxE.
Qed.
Theorem euclidean_triangle u v w : size u = size v -> size v = size w ->
  dist Euclidean u w <= dist Euclidean u v + dist Euclidean v w.
Proof.
move=> s1 s2; rewrite (@euclidE u w) ?s1 // (@euclidE u v) // (@euclidE v w) // -s1.
set a := cv_of _ u; set b := cv_of _ v; set c := cv_of _ w.
have -> : a - c = (a - b) + (b - c) by rewrite addrA subrK.
exact: norm_triangle.
Qed.
End Metric.
