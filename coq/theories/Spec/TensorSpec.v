(* TensorSpec.v — C11: the executable tensor contractions (Exec/Tensor.v, the models run against
   DvectorTensorDotProduct, TransposedTensorDVectorProduct and TensorMatrixDotProduct) over any real
   closed field are the accumulating sums of their definitions, for every tensor, vector and
   start content of the output (these kernels have no missing-value branch; products are only
   dropped when NaN/Inf, which do not exist in an ordered field). *)
From mathcomp Require Import all_ssreflect all_algebra.
From LS Require Import NumOps RcfOps Kernels KernelsSpec Tensor.
Set Implicit Arguments. Unset Strict Implicit. Unset Printing Implicit Defensive.
Import Order.TTheory GRing.Theory Num.Theory.
Local Open Scope ring_scope.

Section TensorSpec.
Variable R : rcfType.
Local Existing Instance RcfOps.
Local Notation vec := (seq R).
Local Notation mat := (seq (seq R)).
Local Notation tensor := (seq (seq (seq R))).

Lemma acc_badE (a r : R) : acc_bad a r = a + r.
Proof. by rewrite /acc_bad /kbad /=. Qed.
Lemma fold_accE (T : Type) (f : T -> R) (s : seq T) (a : R) :
  foldl (fun acc i => acc_bad acc (f i)) a s = a + \sum_(i <- s) f i.
Proof.
by rewrite -(foldl_sumE f s a); elim: s a => [|x s IH] a //=.
Qed.

(* m[j][k] += sum_i v[i] * t[k][i][j] *)
Theorem dvector_tensor_dotE (t : tensor) (v : vec) (m : mat) j k : (j < size m)%N -> (k < size t)%N ->
  mget (dvector_tensor_dot t v m) j k = mget m j k + \sum_(i <- iota 0 (size v)) v`_i * mget (slice t k) i j.
Proof.
by move=> lj lk; rewrite /dvector_tensor_dot /mget nth_mkseq // nth_mkseq // fold_accE.
Qed.
(* p[k][i] += sum_j t[k][i][j] * v[j] *)
Theorem transposed_tensor_dvectorE (t : tensor) (v : vec) (p : mat) k i : (k < size t)%N -> (i < size (slice t k))%N ->
  mget (transposed_tensor_dvector t v p) k i =
  mget p k i + \sum_(j <- iota 0 (ncols (slice t k))) mget (slice t k) i j * v`_j.
Proof.
by move=> lk li; rewrite /transposed_tensor_dvector /mget nth_mkseq // nth_mkseq // fold_accE.
Qed.
(* v[i] += sum_k sum_j t[k][i][j] * m[j][k] *)
Theorem tensor_matrix_dotE (t : tensor) (m : mat) (v : vec) i : (i < size v)%N ->
  (tensor_matrix_dot t m v)`_i =
  v`_i + \sum_(k <- iota 0 (size t)) \sum_(j <- iota 0 (ncols (slice t k))) mget (slice t k) i j * mget m j k.
Proof.
move=> li; rewrite /tensor_matrix_dot nth_mkseq //.
have -> : v`_i = vget v i by [].
elim: (iota 0 (size t)) (vget v i) => [|k s IH] a /=; first by rewrite big_nil addr0.
by rewrite IH fold_accE big_cons addrA.
Qed.
End TensorSpec.
