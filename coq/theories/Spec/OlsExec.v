(* OlsExec.v — C07: the chain for the EXECUTABLE OrdinaryLeastSquares (Exec/Mlr.v: transpose, Z'Z by the product kernel, the pivoting
   Gauss–Jordan inversion, two matrix-vector products) over any real closed field: for every n x p design Z of full column rank
   (Z'Z invertible) and every response y — no cell of the data or of the two intermediate results inside the missing-value window,
   which the matrix-vector kernel skips — the list program returns  b = (Z'Z)^-1 Z'y , hence the normal equations
   Z'(y - Z b) = 0  hold and b minimises the residual sum of squares (MlrSpec, with N := the inverse the code computes). *)
From mathcomp Require Import all_ssreflect all_algebra.
From LS Require Import NumOps RcfOps Kernels KernelsSpec Algebra Mlr GjExec GjTotal MlrSpec.
Set Implicit Arguments. Unset Strict Implicit. Unset Printing Implicit Defensive.
Import Order.TTheory GRing.Theory Num.Theory.
Local Open Scope ring_scope.

Section OlsExec.
Variable R : rcfType.
Local Existing Instance RcfOps.
Local Notation vec := (seq R).
Local Notation mat := (seq (seq R)).
Variables n p : nat.
Variable Z : mat.
Variable y : vec.
Hypothesis wZ : wf n p Z.
Hypothesis n_pos : (0 < n)%N.
Hypothesis sy : size y = n.
Hypothesis uG : (mx_of n p Z)^T *m mx_of n p Z \in unitmx.
Let Zt := transpose p Z.
Let G := matmul p Zt Z.
Hypothesis cZt : cleanm Zt.
Hypothesis cy : cleanv y.
Hypothesis cI : cleanm (gj_inverse G).
Hypothesis cZy : cleanv (matvec Zt y).

Theorem ols_execE : cv_of p (ols Z y) = invmx ((mx_of n p Z)^T *m mx_of n p Z) *m ((mx_of n p Z)^T *m cv_of n y).
Proof.
rewrite /ols (wf_ncols wZ n_pos) -/Zt -/G.
have wT : wf p n Zt := wf_transpose wZ.
have wG : wf p p G := wf_matmul wT wZ.
have eG : mx_of p p G = (mx_of n p Z)^T *m mx_of n p Z by rewrite (matmulE wT wZ) (transposeE wZ).
have uG' : mx_of p p G \in unitmx by rewrite eG.
have wI : wf p p (gj_inverse G).
  rewrite /wf /gj_inverse (wf_size wG) size_mkseq eqxx /=; apply/allP => r /mapP[i]; rewrite mem_iota add0n => /andP[_ li] ->.
  have [[sS rS] _ _] := state_ok wG (leqnn p) (fun q lq => gj_pivots_nonzero wG uG' lq).
  by rewrite size_drop size_map /gj_eliminate (wf_size wG) -/(state p _ p) rS // addKn.
have sZy : size (matvec Zt y) = p by rewrite /matvec size_matvec_into size_nseq (wf_size wT).
by rewrite (matvecE wI sZy cI cZy) (matvecE wT sy cZt cy) (gj_inverse_total wG uG') eG (transposeE wZ).
Qed.

(* the executable coefficients satisfy the normal equations and are a least-squares solution *)
Theorem ols_exec_normal_equations :
  (mx_of n p Z)^T *m (cv_of n y - mx_of n p Z *m cv_of p (ols Z y)) = 0.
Proof.
rewrite ols_execE; set Zm := mx_of n p Z.
have NZ : invmx (Zm^T *m Zm) *m (Zm^T *m Zm) = 1%:M by rewrite mulVmx.
exact: (normal_equations NZ (cv_of n y)).
Qed.
Theorem ols_exec_least_squares (b' : 'cV[R]_p) :
  fro2 (cv_of n y - mx_of n p Z *m cv_of p (ols Z y)) <= fro2 (cv_of n y - mx_of n p Z *m b').
Proof.
rewrite ols_execE; set Zm := mx_of n p Z.
have NZ : invmx (Zm^T *m Zm) *m (Zm^T *m Zm) = 1%:M by rewrite mulVmx.
exact: (least_squares NZ (cv_of n y) b').
Qed.
End OlsExec.
