(* Tensor.v — executable models of the tensor contractions of tensor.c:346-430. *)
From mathcomp Require Import ssreflect ssrfun ssrbool eqtype ssrnat seq.
From LS Require Import NumOps Kernels.
Set Implicit Arguments. Unset Strict Implicit. Unset Printing Implicit Defensive.
Section Tensor.
Context {K : Type} {ops : NumOps K}.
Local Notation vec := (seq K).
Local Notation mat := (seq (seq K)).
Local Notation tensor := (seq (seq (seq K))).
(* "value + res", or "value + 0" when res is NaN/Inf *)
Definition acc_bad (acc r : K) : K := if kbad r then kadd acc k0 else kadd acc r.
Definition slice (t : tensor) k : mat := nth [::] t k.
(* DvectorTensorDotProduct: m[j][k] += sum_i v[i]*t[k][i][j]   (m is cols x order) *)
Definition dvector_tensor_dot (t : tensor) (v : vec) (m : mat) : mat :=
  mkseq (fun j => mkseq (fun k =>
    foldl (fun acc i => acc_bad acc (kmul (vget v i) (mget (slice t k) i j))) (mget m j k) (iota 0 (size v)))
    (size t)) (size m).
(* TransposedTensorDVectorProduct: p[k][i] += sum_j t[k][i][j]*v[j]   (p is order x rows) *)
Definition transposed_tensor_dvector (t : tensor) (v : vec) (p : mat) : mat :=
  mkseq (fun k => mkseq (fun i =>
    foldl (fun acc j => acc_bad acc (kmul (mget (slice t k) i j) (vget v j))) (mget p k i) (iota 0 (ncols (slice t k))))
    (size (slice t k))) (size t).
(* TensorMatrixDotProduct: v[i] += sum_k sum_j t[k][i][j]*m[j][k]   (k outermost) *)
Definition tensor_matrix_dot (t : tensor) (m : mat) (v : vec) : vec :=
  mkseq (fun i =>
    foldl (fun acc k => foldl (fun acc j => acc_bad acc (kmul (mget (slice t k) i j) (mget m j k))) acc
                          (iota 0 (ncols (slice t k)))) (vget v i) (iota 0 (size t))) (size v).
End Tensor.
