(* Containers.v — C14: executable, bounds-checked model of the container operations of
   vector.c and matrix.c (the repaired tree), transcribed loop for loop.

   Memory model: a buffer is the list of its cells, [None] = allocated but never written;
   its length is the number of cells the allocation owns.  Every read and write goes through
   [rd]/[wr] (cells) or [rdp]/[wrp] (row pointers), which fail with [OOBRead]/[OOBWrite]
   outside the allocation and with [UninitRead] on a cell or pointer that was never written.
   [malloc n] owns n unwritten cells, [realloc b n] keeps the common prefix.  Containers are
   values (no sharing): what the model says a copy contains is by construction independent
   of later changes to the source; that the C code shares nothing is decided by the
   correspondence run (every live container is dumped after every operation, under ASan). *)
From mathcomp Require Import ssreflect ssrfun ssrbool eqtype ssrnat seq.
From LS Require Import NumOps.
Set Implicit Arguments. Unset Strict Implicit. Unset Printing Implicit Defensive.

Inductive merr := OOBRead | OOBWrite | UninitRead | NullDeref | CleanAbort.
Inductive res (A : Type) := ROk of A | RErr of merr.
Arguments RErr {A} _.
Definition mbind A B (x : res A) (f : A -> res B) : res B :=
  match x with ROk a => f a | RErr e => RErr e end.
Notation "'let*' x := a 'in' b" := (mbind a (fun x => b)) (at level 200, x name, a at level 100, b at level 200).

(* for (i = lo; i < lo + n; i++) s = f i s *)
Fixpoint loop (S : Type) (n lo : nat) (f : nat -> S -> res S) (s : S) : res S :=
  match n with
  | 0 => ROk s
  | n'.+1 => match f lo s with ROk s' => loop n' lo.+1 f s' | RErr e => RErr e end
  end.

Section Cont.
Context {K : Type} {ops : NumOps K}.
Definition buf := seq (option K).
Definition rd (b : buf) (i : nat) : res K :=
  if i < size b then (if nth None b i is Some v then ROk v else RErr UninitRead) else RErr OOBRead.
Definition wr (b : buf) (i : nat) (v : K) : res buf :=
  if i < size b then ROk (set_nth None b i (Some v)) else RErr OOBWrite.
Definition malloc (n : nat) : buf := nseq n None.
Definition realloc (b : buf) (n : nat) : buf := take n b ++ nseq (n - size b) None.

(* ---- vectors (dvector / uivector / ivector share this code shape) --------------------- *)
Record vec := Vec { vsize : nat; vdata : buf }.
Definition zero_fill (n : nat) (b : buf) : res buf := loop n 0 (fun i b => wr b i k0) b.
Definition v_init : vec := Vec 0 [::].
Definition v_new (n : nat) : res vec := let* b := zero_fill n (malloc n) in ROk (Vec n b).
(* DVectorResize: free, malloc, zero *)
Definition v_resize (v : vec) (n : nat) : res vec := v_new n.
(* DVectorAppend: realloc(size+1); data[size] = val *)
Definition v_append (v : vec) (x : K) : res vec :=
  let n := (vsize v).+1 in
  let* b := wr (realloc (vdata v) n) n.-1 x in ROk (Vec n b).
(* DVectorRemoveAt: memmove(&data[i], &data[i+1], size-i-1) *)
Definition v_remove (v : vec) (i : nat) : res vec :=
  if i < vsize v then
    let* b := loop (vsize v - i - 1) 0 (fun k b => let* x := rd b (i + 1 + k) in wr b (i + k) x) (vdata v) in
    ROk (Vec (vsize v).-1 b)
  else ROk v.
(* setDVectorValue aborts when out of range; the ui/i variants print a message and return *)
Definition v_set (aborting : bool) (v : vec) (i : nat) (x : K) : res vec :=
  if i < vsize v then let* b := wr (vdata v) i x in ROk (Vec (vsize v) b)
  else if aborting then RErr CleanAbort else ROk v.
Definition v_get (v : vec) (i : nat) : res K :=
  if i < vsize v then rd (vdata v) i else RErr CleanAbort.
Definition copy_into (n : nat) (src : buf) (off : nat) (dst : buf) : res buf :=
  loop n 0 (fun i b => let* x := rd src i in wr b (off + i) x) dst.
(* DVectorCopy *)
Definition v_copy (src dst : vec) : res vec :=
  let n := vsize src in
  let* b0 := (if vsize dst == 0 then zero_fill n (malloc n)
              else loop n 0 (fun i b => if i < n then wr b i k0 else RErr CleanAbort) (realloc (vdata dst) n)) in
  let* b := copy_into n (vdata src) 0 b0 in ROk (Vec n b).
(* DVectorExtend *)
Definition v_extend (a b : vec) : res vec :=
  let* e := v_new (vsize a + vsize b) in
  let* d1 := copy_into (vsize a) (vdata a) 0 (vdata e) in
  let* d2 := copy_into (vsize b) (vdata b) (vsize a) d1 in
  ROk (Vec (vsize e) d2).
Definition v_fill (v : vec) (x : K) : res vec :=
  let* b := loop (vsize v) 0 (fun i b => wr b i x) (vdata v) in ROk (Vec (vsize v) b).
(* what a vector means: its first [vsize] cells, all written *)
Definition v_abs (v : vec) : option (seq K) :=
  if vsize v <= size (vdata v) then
    let c := take (vsize v) (vdata v) in
    if all isSome c then Some (pmap id c) else None
  else None.

(* ---- matrices ------------------------------------------------------------------------ *)
Definition parr := seq (option buf).          (* array of row pointers; None = never written *)
Record mat := Mat { mrow : nat; mcol : nat; mdata : option parr }.   (* mdata None = NULL *)
Definition rdp (p : parr) (i : nat) : res buf :=
  if i < size p then (if nth None p i is Some b then ROk b else RErr UninitRead) else RErr OOBRead.
Definition wrp (p : parr) (i : nat) (b : buf) : res parr :=
  if i < size p then ROk (set_nth None p i (Some b)) else RErr OOBWrite.
Definition pmalloc (n : nat) : parr := nseq n None.
Definition prealloc (p : option parr) (n : nat) : parr :=
  let old := if p is Some x then x else [::] in take n old ++ nseq (n - size old) None.
Definition deref (p : option parr) (need : bool) : res parr :=
  match p with Some x => ROk x | None => if need then RErr NullDeref else ROk [::] end.
Definition m_init : mat := Mat 0 0 None.
(* rows of c zeros each *)
Definition alloc_rows (r c : nat) : res parr :=
  loop r 0 (fun i p => let* b := zero_fill c (malloc c) in wrp p i b) (pmalloc r).
Definition m_new (r c : nat) : res mat := let* p := alloc_rows r c in ROk (Mat r c (Some p)).
(* MatrixSet with 0 (both branches write every cell in range; modelled as the plain double loop) *)
Definition m_fill (m : mat) (x : K) : res mat :=
  let* p0 := deref (mdata m) (0 < mrow m) in
  let* p := loop (mrow m) 0 (fun i p => let* b := rdp p i in
                                        let* b' := loop (mcol m) 0 (fun j b => wr b j x) b in wrp p i b') p0 in
  ROk (Mat (mrow m) (mcol m) (if mdata m is Some _ then Some p else None)).
Definition m_resize (m : mat) (r c : nat) : res mat :=
  if (mrow m == r) && (mcol m == c) then m_fill m k0 else m_new r c.
(* copy src cells into the rows of p *)
Definition copy_cells (src : mat) (p : parr) : res parr :=
  let* ps := deref (mdata src) (0 < mrow src) in
  loop (mrow src) 0 (fun i p => let* sb := rdp ps i in let* b := rdp p i in
                                let* b' := copy_into (mcol src) sb 0 b in wrp p i b') p.
Definition m_copy (src dst : mat) : res mat :=
  let fresh := (let* p := alloc_rows (mrow src) (mcol src) in ROk p) in
  let* p0 := (match mdata dst with
              | None => fresh
              | Some p => if (mrow dst != mrow src) || (mcol dst != mcol src) then fresh else ROk p
              end) in
  let* p := copy_cells src p0 in ROk (Mat (mrow src) (mcol src) (Some p)).
Definition m_set (m : mat) (i j : nat) (x : K) : res mat :=
  if (i < mrow m) && (j < mcol m) then
    let* p := deref (mdata m) true in let* b := rdp p i in
    let* b' := wr b j (if kisnan x || kisinf x then klit lit_MISSING else x) in
    let* p' := wrp p i b' in ROk (Mat (mrow m) (mcol m) (Some p'))
  else ROk m.
(* None = the NaN the accessor returns out of range *)
Definition m_get (m : mat) (i j : nat) : res (option K) :=
  if (i < mrow m) && (j < mcol m) then
    let* p := deref (mdata m) true in let* b := rdp p i in let* x := rd b j in ROk (Some x)
  else ROk None.
(* MatrixAppendRow *)
Definition m_approw (m : mat) (v : vec) : res mat :=
  let rowsize := (mrow m).+1 in
  let colsize := if mcol m != 0 then (if mcol m < vsize v then vsize v else mcol m) else vsize v in
  let p0 := prealloc (mdata m) rowsize in
  let* p :=
    (if mcol m < colsize then
       let* p1 := loop (mrow m) 0 (fun i p => let* b := rdp p i in
                      let* b' := loop (colsize - mcol m) (mcol m) (fun j b => wr b j k0) (realloc b colsize) in
                      wrp p i b') p0 in
       let* nb := copy_into (vsize v) (vdata v) 0 (malloc colsize) in
       wrp p1 rowsize.-1 nb
     else
       let* nb := loop (mcol m) 0 (fun i b => if i < vsize v then let* x := rd (vdata v) i in wr b i x
                                                else wr b i k0) (malloc colsize) in
       wrp p0 rowsize.-1 nb) in
  ROk (Mat rowsize (if mcol m < vsize v then vsize v else mcol m) (Some p)).
(* MatrixAppendCol (repaired: the short-vector branch tests the vector length) *)
Definition m_appcol_gen (repaired : bool) (m : mat) (v : vec) : res mat :=
  let colsize := (mcol m).+1 in
  let rowsize := if mrow m != 0 then (if mrow m < vsize v then vsize v else mrow m) else vsize v in
  let p0 := if mrow m < rowsize then prealloc (mdata m) rowsize
            else (if mdata m is Some x then x else [::]) in
  let* p1 := loop rowsize 0 (fun i p => if i < mrow m then let* b := rdp p i in wrp p i (realloc b colsize)
                                          else wrp p i (malloc colsize)) p0 in
  let lastcol := mcol m in
  let setlast (n : nat) (short : bool) (p : parr) :=
    loop n 0 (fun i p => let* b := rdp p i in
                         let* b' := (if short && ~~ (i < vsize v) then wr b lastcol k0
                                     else let* x := rd (vdata v) i in wr b lastcol x) in wrp p i b') p in
  let* p2 :=
    (if (if repaired then vsize v < mrow m else rowsize < mrow m) then setlast (mrow m) true p1
     else if mrow m < rowsize then
       let* q := setlast rowsize false p1 in
       loop (rowsize - mrow m) (mrow m) (fun i p => let* b := rdp p i in
                 let* b' := loop colsize.-1 0 (fun j b => wr b j k0) b in wrp p i b') q
     else setlast rowsize false p1) in
  ROk (Mat rowsize colsize (Some p2)).
(* [m_appcol_gen false] is the code before the repair: its short-vector branch tested
   rowsize < m->row, which never holds *)
Definition m_appcol := m_appcol_gen true.
(* MatrixDeleteRowAt / ColAt: copy, resize, copy back skipping one index *)
Definition m_delrow (m : mat) (row : nat) : res mat :=
  let* c0 := m_new (mrow m) (mcol m) in
  let* c := m_copy m c0 in
  let* m' := m_resize m (mrow c).-1 (mcol c) in
  let* pc := deref (mdata c) (0 < mrow c) in
  let* pm := deref (mdata m') (0 < mrow m') in
  let* pk := loop (mrow c) 0 (fun i (pk : parr * nat) =>
                 if i == row then ROk pk
                 else let* sb := rdp pc i in let* b := rdp pk.1 pk.2 in
                      let* b' := copy_into (mcol c) sb 0 b in
                      let* p' := wrp pk.1 pk.2 b' in ROk (p', pk.2.+1)) (pm, 0) in
  ROk (Mat (mrow m') (mcol m') (Some pk.1)).
Definition m_delcol (m : mat) (col : nat) : res mat :=
  let* c0 := m_new (mrow m) (mcol m) in
  let* c := m_copy m c0 in
  let* m' := m_resize m (mrow c) (mcol c).-1 in
  let* pc := deref (mdata c) (0 < mrow c) in
  let* pm := deref (mdata m') (0 < mrow m') in
  let* pk := loop (mcol c) 0 (fun j (pk : parr * nat) =>
                 if j == col then ROk pk
                 else let* p' := loop (mrow c) 0 (fun i p => let* sb := rdp pc i in let* x := rd sb j in
                                        let* b := rdp p i in let* b' := wr b pk.2 x in wrp p i b') pk.1 in
                      ROk (p', pk.2.+1)) (pm, 0) in
  ROk (Mat (mrow m') (mcol m') (Some pk.1)).
(* getMatrixRow / getMatrixColumn: a fresh vector, or nothing out of range *)
Definition m_getrow (m : mat) (row : nat) : res (option vec) :=
  if row < mrow m then
    let* p := deref (mdata m) true in let* sb := rdp p row in
    let* v := v_new (mcol m) in let* b := copy_into (mcol m) sb 0 (vdata v) in ROk (Some (Vec (mcol m) b))
  else ROk None.
Definition m_getcol (m : mat) (col : nat) : res (option vec) :=
  if col < mcol m then
    let* p := deref (mdata m) (0 < mrow m) in
    let* v := v_new (mrow m) in
    let* b := loop (mrow m) 0 (fun i b => let* sb := rdp p i in let* x := rd sb col in wr b i x) (vdata v) in
    ROk (Some (Vec (mrow m) b))
  else ROk None.
(* MatrixSort / MatrixReverseSort: exchange sort of the rows by the key column, whole rows exchanged cell by cell; keys compared
   at the precision of the cells *)
Definition m_sort (rv : bool) (m : mat) (col : nat) : res mat :=
  let* p0 := deref (mdata m) (0 < mrow m) in
  let* p := loop (mrow m) 0 (fun i p =>
      loop (mrow m - i.+1) i.+1 (fun j p =>
        let* bi := rdp p i in let* bj := rdp p j in
        let* xi := rd bi col in let* xj := rd bj col in
        if (if rv then kltb xi xj else kltb xj xi) then
          let* bb := loop (mcol m) 0 (fun k (bb : buf * buf) =>
                        let* a := rd bb.1 k in let* b := rd bb.2 k in
                        let* b1 := wr bb.1 k b in let* b2 := wr bb.2 k a in ROk (b1, b2)) (bi, bj) in
          let* p1 := wrp p i bb.1 in wrp p1 j bb.2
        else ROk p) p) p0 in
  ROk (Mat (mrow m) (mcol m) (if mdata m is Some _ then Some p else None)).
(* what a matrix means: its shape and cells, all allocated and written, buffers exactly sized *)
Definition row_abs (c : nat) (b : option buf) : option (seq K) :=
  match b with Some cells => if (c <= size cells) && all isSome (take c cells) then Some (pmap id (take c cells)) else None | None => None end.
Definition m_abs (m : mat) : option (nat * nat * seq (seq K)) :=
  match mdata m with
  | None => if mrow m == 0 then Some (0, mcol m, [::]) else None
  | Some p => if mrow m <= size p then
                let rows := map (row_abs (mcol m)) (take (mrow m) p) in
                if all isSome rows then Some (mrow m, mcol m, pmap id rows) else None
              else None
  end.
End Cont.

(* ---- operation histories over pools of containers (what the driver executes) ------------ *)
Section Run.
Context {K : Type} {ops : NumOps K}.
Inductive cop :=
  | VNew of bool & nat & nat | VInit of bool & nat | VDel of bool & nat | VResize of bool & nat & nat
  | VAppend of bool & nat & K | VRemove of bool & nat & nat | VCopy of nat & nat | VExtend of bool & nat & nat & nat
  | VSet of bool & nat & nat & K | VGet of bool & nat & nat | VFill of bool & nat & K | VSort of bool & nat
  | MNew of nat & nat & nat | MInit of nat | MDel of nat | MResize of nat & nat & nat | MCopy of nat & nat
  | MSet of nat & nat & nat & K | MGet of nat & nat & nat | MFill of nat & K
  | MAppRow of bool & nat & nat | MAppCol of bool & nat & nat | MDelRow of nat & nat | MDelCol of nat & nat
  | MGetRow of nat & nat & nat | MGetCol of nat & nat & nat | MSort of bool & nat & nat.
(* the bool selects the pool: false = dvector (set aborts out of range), true = uivector *)
Record pools := Pools { pd : seq (option (@vec K)); pu : seq (option (@vec K)); pm : seq (option (@mat K)) }.
Definition pools0 : pools := Pools (nseq 4 None) (nseq 4 None) (nseq 4 None).
Definition vpool (ui : bool) (s : pools) := if ui then pu s else pd s.
Definition set_vpool (ui : bool) (s : pools) (p : seq (option vec)) : pools :=
  if ui then Pools (pd s) p (pm s) else Pools p (pu s) (pm s).
Definition set_mpool (s : pools) (p : seq (option mat)) : pools := Pools (pd s) (pu s) p.
Definition getv ui s k : res vec := if nth None (vpool ui s) k is Some v then ROk v else RErr NullDeref.
Definition getm s k : res mat := if nth None (pm s) k is Some m then ROk m else RErr NullDeref.
Definition putv ui s k v := set_vpool ui s (set_nth None (vpool ui s) k v).
Definition putm s k m := set_mpool s (set_nth None (pm s) k m).
(* qsort on the first vsize cells: any sorting algorithm gives the same list on a total order *)
Fixpoint ins (x : K) (l : seq K) : seq K := match l with [::] => [:: x] | y :: l' => if kltb y x then y :: ins x l' else x :: l end.
Definition v_sort (v : @vec K) : res vec :=
  match v_abs v with
  | Some l => ROk (Vec (vsize v) (map Some (foldr ins [::] l) ++ drop (vsize v) (vdata v)))
  | None => RErr UninitRead
  end.
(* outcome of one call: nothing, a returned number (None = NaN) *)
Definition step (s : pools) (o : cop) : res (pools * option (option K)) :=
  match o with
  | VNew ui k n => let* v := v_new n in ROk (putv ui s k (Some v), None)
  | VInit ui k => ROk (putv ui s k (Some v_init), None)
  | VDel ui k => ROk (putv ui s k None, None)
  | VResize ui k n => let* v := getv ui s k in let* v' := v_resize v n in ROk (putv ui s k (Some v'), None)
  | VAppend ui k x => let* v := getv ui s k in let* v' := v_append v x in ROk (putv ui s k (Some v'), None)
  | VRemove ui k i => let* v := getv ui s k in let* v' := v_remove v i in ROk (putv ui s k (Some v'), None)
  | VCopy a b => let* va := getv false s a in let* vb := getv false s b in let* v' := v_copy va vb in ROk (putv false s b (Some v'), None)
  | VExtend ui a b d => let* va := getv ui s a in let* vb := getv ui s b in let* v' := v_extend va vb in ROk (putv ui s d (Some v'), None)
  | VSet ui k i x => let* v := getv ui s k in let* v' := v_set (~~ ui) v i x in ROk (putv ui s k (Some v'), None)
  | VGet ui k i => let* v := getv ui s k in let* x := v_get v i in ROk (s, Some (Some x))
  | VFill ui k x => let* v := getv ui s k in let* v' := v_fill v x in ROk (putv ui s k (Some v'), None)
  | VSort ui k => let* v := getv ui s k in let* v' := v_sort v in ROk (putv ui s k (Some v'), None)
  | MNew k r c => let* m := m_new r c in ROk (putm s k (Some m), None)
  | MInit k => ROk (putm s k (Some m_init), None)
  | MDel k => ROk (putm s k None, None)
  | MResize k r c => let* m := getm s k in let* m' := m_resize m r c in ROk (putm s k (Some m'), None)
  | MCopy a b => let* ma := getm s a in let* mb := getm s b in let* m' := m_copy ma mb in ROk (putm s b (Some m'), None)
  | MSet k i j x => let* m := getm s k in let* m' := m_set m i j x in ROk (putm s k (Some m'), None)
  | MGet k i j => let* m := getm s k in let* x := m_get m i j in ROk (s, Some x)
  | MFill k x => let* m := getm s k in let* m' := m_fill m x in ROk (putm s k (Some m'), None)
  | MAppRow ui k d => let* m := getm s k in let* v := getv ui s d in let* m' := m_approw m v in ROk (putm s k (Some m'), None)
  | MAppCol ui k d => let* m := getm s k in let* v := getv ui s d in let* m' := m_appcol m v in ROk (putm s k (Some m'), None)
  | MDelRow k i => let* m := getm s k in let* m' := m_delrow m i in ROk (putm s k (Some m'), None)
  | MDelCol k j => let* m := getm s k in let* m' := m_delcol m j in ROk (putm s k (Some m'), None)
  | MGetRow k i d => let* m := getm s k in let* v := m_getrow m i in ROk (putv false s d v, None)
  | MGetCol k j d => let* m := getm s k in let* v := m_getcol m j in ROk (putv false s d v, None)
  | MSort rv k c => let* m := getm s k in let* m' := m_sort rv m c in ROk (putm s k (Some m'), None)
  end.
(* what the driver prints after a call: status (0 ok, 1 clean abort, 2 returned value, 3 memory
   error), the value, and every live container as (kind, slot, dims, cells) *)
Definition snap := seq (nat * nat * seq nat * seq K).
Definition dump_v (kind : nat) (p : seq (option vec)) : option snap :=
  foldr (fun (kv : nat * option vec) acc =>
           match acc, kv.2 with
           | None, _ => None
           | Some a, None => Some a
           | Some a, Some v => if v_abs v is Some l then Some ((kind, kv.1, [:: size l], l) :: a) else None
           end) (Some [::]) (zip (iota 0 (size p)) p).
Definition dump_m (p : seq (option mat)) : option snap :=
  foldr (fun (kv : nat * option mat) acc =>
           match acc, kv.2 with
           | None, _ => None
           | Some a, None => Some a
           | Some a, Some m => if m_abs m is Some (r, c, A) then Some ((2, kv.1, [:: r; c], flatten A) :: a) else None
           end) (Some [::]) (zip (iota 0 (size p)) p).
Definition dump (s : pools) : option snap :=
  match dump_v 0 (pd s), dump_v 1 (pu s), dump_m (pm s) with
  | Some a, Some b, Some c => Some (a ++ b ++ c)
  | _, _, _ => None
  end.
Fixpoint run (s : pools) (l : seq cop) : seq (nat * option K * option snap) :=
  match l with
  | [::] => [::]
  | o :: l' =>
      match step s o with
      | ROk (s', None) => (0, None, dump s') :: run s' l'
      | ROk (s', Some r) => (2, r, dump s') :: run s' l'
      | RErr CleanAbort => (1, None, dump s) :: run s l'
      | RErr _ => [:: (3, None, None)]
      end
  end.
Definition snap_eqb (a b : snap) : bool :=
  (size a == size b) && all (fun xy : (nat * nat * seq nat * seq K) * (nat * nat * seq nat * seq K) =>
      let: ((k1, s1, d1, c1), (k2, s2, d2, c2)) := xy in
      [&& k1 == k2, s1 == s2, d1 == d2, size c1 == size c2 & all (fun p : K * K => keqb p.1 p.2) (zip c1 c2)]) (zip a b).
Definition out_eqb (a b : nat * option K * option snap) : bool :=
  let: ((st1, r1, d1), (st2, r2, d2)) := (a, b) in
  (st1 == st2) && (match r1, r2 with None, None => true | Some x, Some y => keqb x y | _, _ => false end)
  && (match d1, d2 with Some x, Some y => snap_eqb x y | _, _ => false end).
(* the whole trace agrees with what the library printed *)
Definition trace_ok (l : seq cop) (expected : seq (nat * option K * option snap)) : bool :=
  let got := run pools0 l in (size got == size expected) && all (fun p => out_eqb p.1 p.2) (zip got expected).
End Run.
