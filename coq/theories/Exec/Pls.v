(* Pls.v — executable model of LVCalc / PLS / PLSScorePredictor / PLSYPredictor /
   PLSBetasCoeff of pls.c, statement by statement. *)
From mathcomp Require Import ssreflect ssrfun ssrbool eqtype ssrnat seq div.
From Coq Require Import ZArith.
From LS Require Import NumOps Kernels Preprocess Pca Algebra.
Set Implicit Arguments. Unset Strict Implicit. Unset Printing Implicit Defensive.
Section Pls.
Context {K : Type} {ops : NumOps K}.
Local Notation vec := (seq K).
Local Notation mat := (seq (seq K)).

Definition lit_PLSCONV := lit_1em8.
Definition vdivs (v : vec) (d : K) : vec := map (fun x => kdiv x d) v.
Definition vmuls (v : vec) (d : K) : vec := map (fun x => kmul x d) v.

(* steps 2-7 of one pass of the while(1) loop of LVCalc *)
Definition lv_pass (X Y : mat) (u : vec) : vec * vec * vec * vec :=
  let n := size X in
  let w := vnormalize (vdivs (vecmat_into X u (zeros (ncols X))) (vdot u u)) in
  let t := vdivs (matvec_into X w (zeros n)) (vdot w w) in
  if 1 < ncols Y then
    let q := vnormalize (vdivs (vecmat_into Y t (zeros (ncols Y))) (vdot t t)) in
    let u' := vdivs (matvec_into Y q (zeros n)) (vdot q q) in
    (w, t, q, u')
  else (w, t, [:: k1], u).

Fixpoint lv_loop (fuel loop : nat) (X Y : mat) (u told : vec) : result (vec * vec * vec * vec * nat) :=
  match fuel with
  | 0 => Err Fuel
  | fuel'.+1 =>
      let: (w, t, q, u') := lv_pass X Y u in
      if loop == 0 then lv_loop fuel' 1 X Y u' t
      else if kltb (calc_convergence t told) (klit lit_PLSCONV) then Ok (w, t, q, u', loop.+1)
      else lv_loop fuel' loop.+1 X Y u' t
  end.

Record lv := Lv { lv_t : vec; lv_u : vec; lv_p : vec; lv_q : vec; lv_w : vec; lv_b : K; lv_X : mat; lv_Y : mat; lv_it : nat }.

Definition lv_calc (fuel : nat) (X Y : mat) : result lv :=
  let j := if 1 < ncols Y then argmax_first (mat_col_var Y) else 0 in
  let u0 := col Y j in
  match lv_loop fuel 0 X Y u0 (zeros (size X)) with
  | Err e => Err e
  | Ok (w, t, q, u, it) =>
      let p1 := vdivs (vecmat_into X t (zeros (ncols X))) (vdot t t) in
      let mod_p := vmodule p1 in
      let p := vnormalize p1 in
      let t' := vmuls t mod_p in
      let w' := vmuls w mod_p in
      let b := kdiv (vdot u t') (vdot t' t') in
      let X' := deflate X t' p in
      let Y' := map (fun rt => map (fun yq => ksub yq.1 (kmul (kmul b rt.2) yq.2)) (zip rt.1 q)) (zip Y t') in
      Ok (Lv t' u p q w' b X' Y' it)
  end.

Record pls_model := PlsModel {
  pl_T : seq vec; pl_U : seq vec; pl_P : seq vec; pl_W : seq vec; pl_Q : seq vec; pl_b : vec;
  pl_xvarexp : vec; pl_xavg : vec; pl_xsc : vec; pl_yavg : vec; pl_ysc : vec;
  pl_recalc : mat; pl_resid : mat; pl_Xres : mat; pl_Yres : mat; pl_iters : seq nat }.

Fixpoint pls_components (fuel nlv : nat) (X Y : mat) (acc : seq lv) : result (seq lv * mat * mat) :=
  match nlv with
  | 0 => Ok (rev acc, X, Y)
  | nlv'.+1 => match lv_calc fuel X Y with
               | Err e => Err e
               | Ok l => pls_components fuel nlv' (lv_X l) (lv_Y l) (l :: acc)
               end
  end.

(* PLSYPredictor: y[i][j] = sum_{lv<a} (b_lv * t[i][lv]) * q[j][lv]; then * yscale + yavg *)
Definition pls_ypredict (T Q : seq vec) (b yavg ysc : vec) (a rows ny : nat) : mat :=
  let core := foldl (fun Y tqb => let: (t, q, bl) := tqb in
                 map (fun rt => map (fun yq => kadd yq.1 (kmul (kmul bl rt.2) yq.2)) (zip rt.1 q)) (zip Y t))
                 (zerom rows ny) (take a (zip (zip T Q) b)) in
  if size yavg == 0 then core
  else map (fun r => mkseq (fun j => let y := nth k0 r j in
                       if j < size yavg then kadd (if size ysc == 0 then y else kmul y (vget ysc j)) (vget yavg j) else y) (size r)) core.

(* recalc_residuals: column c of the LV-major layout (c = ny*(a-1)+j) minus response j = c mod ny *)
Definition pls_residuals (rec my : mat) (ny : nat) : mat :=
  map (fun rr => mkseq (fun c => ksub (nth k0 rr.1 c) (nth k0 rr.2 (c %% ny))) (size rr.1)) (zip rec my).

Definition pls_fit (fuel : nat) (xs ys : Z) (nlv : nat) (mx my : mat) : result pls_model :=
  let nlv := minn nlv (ncols mx) in
  let: (X, xavg, xsc) := preprocess_fit xs mx (zerom (size mx) (ncols mx)) in
  let: (Y, yavg, ysc) := preprocess_fit ys my (zerom (size my) (ncols my)) in
  let ssx := sumsq X in
  match pls_components fuel nlv X Y [::] with
  | Err e => Err e
  | Ok (ls, Xr, Yr) =>
      let T := map lv_t ls in let Q := map lv_q ls in let b := map lv_b ls in
      let ny := ncols my in
      let rec := foldl (fun R a => map (fun rr => rr.1 ++ rr.2) (zip R (pls_ypredict T Q b yavg ysc a (size mx) ny)))
                       (nseq (size mx) [::]) (iota 1 nlv) in
      let res := pls_residuals rec (mcheck my) ny in
      Ok (PlsModel T (map lv_u ls) (map lv_p ls) (map lv_w ls) Q b
            (map (fun l => kmul (kdiv (vdot (lv_t l) (lv_t l)) ssx) (klit lit_100)) ls)
            xavg xsc yavg ysc rec res Xr Yr (map lv_it ls))
  end.

(* PLSScorePredictor: t = X w (w carries the |p| factor), X -= t p' *)
Fixpoint pls_predict_components (X : mat) (WP : seq (vec * vec)) (acc : seq vec) : seq vec :=
  match WP with
  | [::] => rev acc
  | (w, p) :: WP' => let t := matvec_into X w (zeros (size X)) in
                     pls_predict_components (deflate X t p) WP' (t :: acc)
  end.
Definition pls_predict_scores (xavg xsc : vec) (W P : seq vec) (nlv : nat) (mx : mat) : seq vec :=
  pls_predict_components (preprocess_apply mx xavg xsc) (take nlv (zip W P)) [::].

(* PLSBetasCoeff: W (P'W)^-1 b  with the Gauss–Jordan inverse *)
Definition pls_betas (W P : seq vec) (b : vec) (nlv : nat) : vec :=
  let Wm := transpose (size (head [::] W)) (take nlv W) in     (* variables x nlv *)
  let Pt := take nlv P in                                       (* nlv x variables *)
  let PW := matmul nlv Pt Wm in
  let PWi := gj_inverse PW in
  let Ws := matmul nlv Wm PWi in
  map (fun r => nth k0 r 0) (matmul 1 Ws (map (fun x => [:: x]) (take nlv b))).
End Pls.
