(* Cpca.v — executable model of CPCA and CPCAScorePredictor (cpca.c). *)
From mathcomp Require Import ssreflect ssrfun ssrbool eqtype ssrnat seq.
From Coq Require Import ZArith.
From LS Require Import NumOps Kernels Preprocess Pca.
Set Implicit Arguments. Unset Strict Implicit. Unset Printing Implicit Defensive.
Section Cpca.
Context {K : Type} {ops : NumOps K}.
Local Notation vec := (seq K).
Local Notation mat := (seq (seq K)).
Definition lit_CPCACONV := lit_1em18.
(* CalcBlockLoadings: p = Xb' t / t't (through the transposed matrix and the mat-vec kernel) *)
Definition block_loadings (Xb : mat) (t : vec) : vec :=
  let Xt := transpose (ncols Xb) Xb in
  let p := matvec_into Xt t (zeros (ncols Xb)) in
  let mod_t := vdot t t in map (fun x => kdiv x mod_t) p.
(* block scores for the current t: t_b = Xb phat_b / sf_b, one vector per block *)
Definition block_scores (Eb : seq mat) (sf : vec) (t : vec) : seq vec :=
  map (fun es => let pb := vnormalize (block_loadings es.1 t) in
                 map (fun x => kdiv x es.2) (matvec_into es.1 pb (zeros (size es.1)))) (zip Eb sf).
Definition cpca_pass (Eb : seq mat) (sf : vec) (t : vec) : seq vec * vec * vec * K :=
  let TT := block_scores Eb sf t in                      (* order x rows *)
  let w0 := matvec_into TT t (zeros (size TT)) in
  let mod_t := vdot t t in
  let w := vnormalize (map (fun x => kdiv x mod_t) w0) in
  let T := transpose (size t) TT in                       (* rows x order *)
  let t_new := matvec_into T w (zeros (size t)) in
  (TT, w, t_new, mod_t).
Fixpoint cpca_loop (fuel it : nat) (Eb : seq mat) (sf t : vec) : result (seq vec * vec * vec * K * nat) :=
  match fuel with
  | 0 => Err Fuel
  | fuel'.+1 =>
      let: (TT, w, t_new, mod_t) := cpca_pass Eb sf t in
      if kltb (calc_convergence t_new t) (klit lit_CPCACONV) then Ok (TT, w, t_new, mod_t, it.+1)
      else cpca_loop fuel' it.+1 Eb sf t_new
  end.
Definition trace_gram (E : mat) : K :=
  (* trace(E'E) through MatrixTranspose / MatrixDotProduct / MatrixTrace *)
  let Et := transpose (ncols E) E in trace (matmul (ncols E) Et E).
Record cpca_comp := CpcaComp { cc_T : seq vec; cc_w : vec; cc_t : vec; cc_P : seq vec; cc_bev : vec; cc_tev : K; cc_it : nat }.
(* starting vector: the column with the largest variance over all blocks (strict >, blocks in order) *)
Definition cpca_start (Eb : seq mat) : vec :=
  let best := foldl (fun bst kE => let: (bv, bk, bj) := bst in
                 let cvs := mat_col_var kE.2 in let j := argmax_first cvs in
                 if kltb bv (nth k0 cvs j) then (nth k0 cvs j, kE.1, j) else bst) (k0, 0, 0) (zip (iota 0 (size Eb)) Eb) in
  col (nth [::] Eb best.1.2) best.2.
Fixpoint cpca_components (fuel npc : nat) (Eb : seq mat) (sf tr_orig : vec) (ss : K) (acc : seq cpca_comp)
    : result (seq cpca_comp * seq mat) :=
  match npc with
  | 0 => Ok (rev acc, Eb)
  | npc'.+1 =>
      match cpca_loop fuel 0 Eb sf (cpca_start Eb) with
      | Err e => Err e
      | Ok (TT, w, t_new, mod_t, it) =>
          let P := map (fun E => block_loadings E t_new) Eb in
          let Eb' := map (fun EP => deflate EP.1 t_new EP.2) (zip Eb P) in
          let bev := map (fun Et => kmul (ksub k1 (kdiv (trace_gram Et.1) Et.2)) (klit lit_100)) (zip Eb' tr_orig) in
          cpca_components fuel npc' Eb' sf tr_orig ss
            (CpcaComp TT w t_new P bev (kmul (kdiv mod_t ss) (klit lit_100)) it :: acc)
      end
  end.
Record cpca_model := CpcaModel { cm_comps : seq cpca_comp; cm_sf : vec; cm_avg : seq vec; cm_sc : seq vec; cm_res : seq mat }.
Definition cpca_fit (fuel : nat) (scaling : Z) (npc : nat) (X : seq mat) : result cpca_model :=
  let pre := tensor_preprocess_fit scaling X (map (fun m => zerom (size m) (ncols m)) X) in
  let Eb := map (fun p => p.1.1) pre in
  let sf := map (fun m => ksqrt (kofnat (ncols m))) X in
  let npc := foldl (fun n E => minn n (ncols E)) npc Eb in
  let ss := foldl (fun s Es => foldl (fun s r => foldl (fun s x => let y := kdiv x Es.2 in kadd s (kmul y y)) s r) s Es.1) k0 (zip Eb sf) in
  let tr_orig := map trace_gram Eb in
  match cpca_components fuel npc Eb sf tr_orig ss [::] with
  | Err e => Err e
  | Ok (cs, Er) => Ok (CpcaModel cs sf (map (fun p => p.1.2) pre) (map (fun p => p.2) pre) Er)
  end.
End Cpca.
