(* Strings.v — C14: executable model of the text helpers of vector.c (Trim, SplitString): characters are their codes,
   a text is the list of the codes before its terminating NUL.  SplitString(str, sep, tokens) appends to `tokens` the
   maximal runs of non-separator characters of Trim(str) (strtok_r), Trim removes leading and trailing white space
   (isspace in the C locale: blank and the codes 9..13). *)
From mathcomp Require Import all_ssreflect.
Set Implicit Arguments. Unset Strict Implicit. Unset Printing Implicit Defensive.

Definition is_space (c : nat) : bool := (c == 32) || ((9 <= c) && (c <= 13)).
Definition ltrim (s : seq nat) : seq nat := drop (find (predC is_space) s) s.
Definition trim (s : seq nat) : seq nat := rev (ltrim (rev (ltrim s))).

Definition push_tok (cur : seq nat) (acc : seq (seq nat)) : seq (seq nat) :=
  if cur is [::] then acc else rev cur :: acc.
Fixpoint split_go (sep s cur : seq nat) (acc : seq (seq nat)) : seq (seq nat) :=
  match s with
  | [::] => rev (push_tok cur acc)
  | c :: s' => if c \in sep then split_go sep s' [::] (push_tok cur acc) else split_go sep s' (c :: cur) acc
  end.
Definition split_string (sep s : seq nat) : seq (seq nat) := split_go sep (trim s) [::] [::].
(* the operation on a string vector *)
Definition str_split (tokens : seq (seq nat)) (sep s : seq nat) : seq (seq nat) := tokens ++ split_string sep s.
