(* IoModel.v — the SQLite file as a table store (io.c): one table per model field, a write =
   (drop every table) ; CREATE TABLE IF NOT EXISTS ; INSERT one row per number, a read = SELECT
   in rowid order.  Serialisers of matrices / tensors / vector lists as in io.c:11-104. *)
From mathcomp Require Import ssreflect ssrfun ssrbool eqtype ssrnat seq.
From Coq Require Import String.
Set Implicit Arguments. Unset Strict Implicit. Unset Printing Implicit Defensive.
Local Open Scope string_scope.

Section Assoc.
Variable A : Type.
Definition assoc := seq (string * A).
Fixpoint alookup (k : string) (d : assoc) : option A :=
  match d with [::] => None | (k', v) :: r => if String.eqb k' k then Some v else alookup k r end.
Fixpoint aupsert (k : string) (f : option A -> A) (d : assoc) : assoc :=
  match d with
  | [::] => [:: (k, f None)]
  | (k', v) :: r => if String.eqb k' k then (k', f (Some v)) :: r else (k', v) :: aupsert k f r
  end.
End Assoc.

Section Io.
Variable V : Type.
Definition db := assoc (seq V).                       (* table -> rows *)
Definition model := seq (string * seq V).             (* field -> serialised numbers *)
Definition write_table (t : string) (rows : seq V) (d : db) : db :=
  aupsert t (fun old => match old with Some o => cat o rows | None => rows end) d.
Definition read_table (t : string) (d : db) : seq V := match alookup t d with Some v => v | None => [::] end.
(* drops = true: DropAllTables removes every table before the fields are written *)
Definition write_model (drops : bool) (m : model) (d : db) : db :=
  foldl (fun acc kv => write_table kv.1 kv.2 acc) (if drops then [::] else d) m.
Definition read_model (fields : seq string) (d : db) : model := map (fun f => (f, read_table f d)) fields.
(* the file system: path -> database; a history is a list of writes *)
Definition fs := assoc db.
Definition write_file (drops : bool) (p : string) (m : model) (s : fs) : fs :=
  aupsert p (fun old => write_model drops m (match old with Some d => d | None => [::] end)) s.
Definition read_file (p : string) (s : fs) : db := match alookup p s with Some d => d | None => [::] end.
Definition run_history (drops : bool) (h : seq (string * model)) : fs :=
  foldl (fun s pm => write_file drops pm.1 pm.2 s) [::] h.

(* serialisers: dimensions in front, row-major numbers *)
Variable ofnat : nat -> V.
Variable tonat : V -> nat.
Definition ser_matrix (r c : nat) (m : seq (seq V)) : seq V := ofnat r :: ofnat c :: flatten m.
Definition deser_matrix (s : seq V) : seq (seq V) :=
  match s with
  | r :: c :: rest => reshape (nseq (tonat r) (tonat c)) rest
  | _ => [::]
  end.
Definition ser_vlist (l : seq (seq V)) : seq V := flatten (map (fun v => ofnat (size v) :: v) l).
Fixpoint deser_vlist_f (fuel : nat) (s : seq V) : seq (seq V) :=
  match fuel, s with
  | fuel'.+1, n :: rest => take (tonat n) rest :: deser_vlist_f fuel' (drop (tonat n) rest)
  | _, _ => [::]
  end.
Definition deser_vlist (s : seq V) := deser_vlist_f (size s) s.
Definition ser_tensor (t : seq (nat * nat * seq (seq V))) : seq V :=
  ofnat (size t) :: flatten (map (fun x => ser_matrix x.1.1 x.1.2 x.2) t).
Fixpoint deser_tensor_f (k : nat) (s : seq V) : seq (seq (seq V)) :=
  match k, s with
  | k'.+1, r :: c :: rest =>
      let n := tonat r * tonat c in
      reshape (nseq (tonat r) (tonat c)) (take n rest) :: deser_tensor_f k' (drop n rest)
  | _, _ => [::]
  end.
Definition deser_tensor (s : seq V) := match s with o :: rest => deser_tensor_f (tonat o) rest | _ => [::] end.
End Io.
