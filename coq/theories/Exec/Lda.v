(* Lda.v — executable model of the part of LDA / LDAPrediction (lda.c) that determines the
   predictions: class bookkeeping for labels from 0 or from 1, priors, class means, the
   prior-weighted scatter about the grand mean, its Gauss–Jordan inverse, the discriminant
   scores and the arg-max.  ln(prior) is supplied by the caller (libm's log is an oracle);
   the LAPACK eigen-decomposition used for the projected features is not modelled. *)
From mathcomp Require Import ssreflect ssrfun ssrbool eqtype ssrnat seq.
From LS Require Import NumOps Kernels Preprocess Pca Algebra.
Set Implicit Arguments. Unset Strict Implicit. Unset Printing Implicit Defensive.
Section Lda.
Context {K : Type} {ops : NumOps K}.
Local Notation vec := (seq K).
Local Notation mat := (seq (seq K)).
Record lda_model := LdaModel { ld_nclass : nat; ld_start : nat; ld_pprob : vec; ld_mu : mat; ld_inv_cov : mat }.
(* labels are given as naturals (the (int) casts of the response column) *)
Definition lda_fit (X0 : mat) (labels : seq nat) : lda_model :=
  let X := mcheck X0 in
  let imin := foldl minn (head 0 labels) labels in
  let imax := foldl maxn (head 0 labels) labels in
  let start := if imin == 0 then 0 else 1 in
  let nclass := if imin == 0 then imax.+1 else imax in
  let classes := mkseq (fun k => map fst (filter (fun xl => xl.2 == k + start) (zip X labels))) nclass in
  let n := kofnat (size X) in
  let pprob := map (fun c : mat => kdiv (kofnat (size c)) n) classes in
  let mu := map (fun c : mat => mkseq (fun j => col_average (col c j)) (ncols X)) classes in
  let mutot := mat_col_average X in
  let nc := ncols X in
  (* per class: covmx = (C - mutot)'(C - mutot) / n_k ; Sw += (n_k / n) * covmx *)
  let Sw := foldl (fun S (c : mat) =>
      let cc := map (fun r => map (fun xm => ksub xm.1 xm.2) (zip r mutot)) c in
      let cov := map (fun r => map (fun x => kdiv x (kofnat (size c))) r) (matmul nc (transpose nc cc) cc) in
      let w := kdiv (kofnat (size c)) n in
      map (fun sr => map (fun sx => kadd sx.1 (kmul w sx.2)) (zip sr.1 sr.2)) (zip S cov)) (zerom nc nc) classes in
  LdaModel nclass start pprob mu (gj_inverse Sw).
(* f_k(x) = mu_k' C x - 0.5 mu_k' C mu_k + ln(prior_k) *)
Definition lda_scores (M : lda_model) (logp : vec) (x : vec) : vec :=
  map (fun ml => let cx := matvec (ld_inv_cov M) x in let cm := matvec (ld_inv_cov M) ml.1 in
                 kadd (ksub (vdot ml.1 cx) (kmul (klit lit_half) (vdot ml.1 cm))) ml.2) (zip (ld_mu M) logp).
Definition lda_predict (M : lda_model) (logp : vec) (x : vec) : nat :=
  argmax_first (lda_scores M logp x) + ld_start M.
End Lda.
