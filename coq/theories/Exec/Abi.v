(* Abi.v — decision procedure comparing the ctypes declarations of the Python package with
   the C structures / prototypes (tables regenerated into Gen_Abi.v). Definitions only. *)
From Coq Require Import String List Bool Arith.
Import ListNotations.
Local Open Scope string_scope.

Inductive ctype :=
  | Void | Char | Int (w : nat) (sgn : bool) | Double | Float
  | Ptr (t : ctype) | Named (s : string) | FunPtr | Unknown.

Fixpoint lookup {A} (l : list (string * A)) (k : string) : option A :=
  match l with [] => None | (k', v) :: l' => if String.eqb k k' then Some v else lookup l' k end.

(* full type agreement (struct fields): same scalar type incl. signedness, same pointer
   structure, struct names related by the name map python-class -> C typedef *)
Fixpoint compat (nm : list (string * string)) (p c : ctype) : bool :=
  match p, c with
  | Void, Void | Char, Char | Double, Double | Float, Float | FunPtr, FunPtr => true
  | Int w s, Int w' s' => Nat.eqb w w' && Bool.eqb s s'
  | Ptr p', Ptr c' => compat nm p' c'
  | Named a, Named b => match lookup nm a with Some b' => String.eqb b b' | None => false end
  | _, _ => false
  end.

(* parameter / return kinds: pointer depth AND what is pointed to at the bottom (a scalar of which width, or an opaque
   object: structure, void, function), integer width, floating type *)
Inductive kind := KVoid | KInt (w : nat) | KDouble | KFloat | KPtr (depth : nat) (pointee : nat) | KStruct | KUnknown.
Fixpoint depth (t : ctype) : nat := match t with Ptr t' => S (depth t') | _ => 0 end.
(* 0 = opaque (structure, void, function, unknown); integers by width; 1032 = float; 1064 = double *)
Fixpoint base_tag (t : ctype) : nat :=
  match t with
  | Ptr t' => base_tag t' | Char => 8 | Int w _ => w | Float => 1032 | Double => 1064 | _ => 0
  end.
Definition kind_of (t : ctype) : kind :=
  match t with
  | Void => KVoid | Char => KInt 8 | Int w _ => KInt w | Double => KDouble | Float => KFloat
  | Ptr _ => KPtr (depth t) (base_tag t) | FunPtr => KPtr 1 0 | Named _ => KStruct | Unknown => KUnknown
  end.
Definition kind_eqb (a b : kind) : bool :=
  match a, b with
  | KVoid, KVoid | KDouble, KDouble | KFloat, KFloat => true
  | KInt w, KInt w' => Nat.eqb w w'
  | KPtr d g, KPtr d' g' => Nat.eqb d d' && Nat.eqb g g'
  | _, _ => false
  end.

(* LP64 System V layout of a field list: natural alignment; by-value structs unsupported *)
Definition size_align (t : ctype) : option (nat * nat) :=
  match t with
  | Char => Some (1, 1) | Int w _ => Some (w / 8, w / 8) | Double => Some (8, 8) | Float => Some (4, 4)
  | Ptr _ | FunPtr => Some (8, 8) | _ => None
  end.
Definition round_up (off al : nat) : nat := ((off + al - 1) / al) * al.
Fixpoint layout_from (off : nat) (ts : list ctype) : option (list (nat * nat)) :=
  match ts with
  | [] => Some []
  | t :: ts' =>
      match size_align t with
      | None => None
      | Some (sz, al) =>
          let o := round_up off al in
          match layout_from (o + sz) ts' with None => None | Some l => Some ((o, sz) :: l) end
      end
  end.
Definition layout (ts : list ctype) := layout_from 0 ts.
Fixpoint struct_size_from (off mx : nat) (ts : list ctype) : option nat :=
  match ts with
  | [] => Some (round_up off (Nat.max mx 1))
  | t :: ts' => match size_align t with None => None | Some (sz, al) => struct_size_from (round_up off al + sz) (Nat.max mx al) ts' end
  end.

Fixpoint forallb2 {A B} (f : A -> B -> bool) (l : list A) (m : list B) : bool :=
  match l, m with [] , [] => true | a :: l', b :: m' => f a b && forallb2 f l' m' | _, _ => false end.
Definition str_list_eqb (a b : list string) : bool := forallb2 String.eqb a b.

Definition check_struct nm (ps cs : list (string * ctype)) : bool :=
  str_list_eqb (map fst ps) (map fst cs) && forallb2 (compat nm) (map snd ps) (map snd cs)
  && match layout (map snd cs) with Some _ => true | None => false end.

(* ctypes: undeclared restype means c_int; undeclared argtypes is accepted only for a
   parameterless C function *)
Definition check_fun (pargs : option (list ctype)) (pret : option ctype) (cret : ctype) (cargs : list ctype) : bool :=
  (match pargs with
   | None => match cargs with [] => true | _ => false end
   | Some pa => forallb2 (fun p c => kind_eqb (kind_of p) (kind_of c)) pa cargs
   end)
  && kind_eqb (kind_of (match pret with Some t => t | None => Int 32 true end)) (kind_of cret).

Section Tables.
Variables (c_structs py_structs : list (string * list (string * ctype)))
          (c_protos : list (string * (ctype * list ctype)))
          (py_decls : list (string * (option (list ctype) * option ctype)))
          (nm : list (string * string)).
Definition struct_ok (p : string * list (string * ctype)) : bool :=
  match lookup nm (fst p) with
  | None => false
  | Some cn => match lookup c_structs cn with None => false | Some cf => check_struct nm (snd p) cf end
  end.
Definition fun_ok (d : string * (option (list ctype) * option ctype)) : bool :=
  match lookup c_protos (fst d) with
  | None => false
  | Some (cret, cargs) => check_fun (fst (snd d)) (snd (snd d)) cret cargs
  end.
Definition abi_ok : bool := forallb struct_ok py_structs && forallb fun_ok py_decls.
Definition abi_mismatches : list string :=
  map fst (filter (fun p => negb (struct_ok p)) py_structs) ++ map fst (filter (fun d => negb (fun_ok d)) py_decls).
End Tables.
