(* Lse.v — executable model of SolveLSE (algebra.c): the pre-pass that moves usable entries on the
   diagonal, Gaussian elimination with partial pivoting on the augmented matrix [A | b], and the
   back substitution INTO the caller's solution vector (which may already hold numbers). *)
From mathcomp Require Import ssreflect ssrfun ssrbool eqtype ssrnat seq.
From LS Require Import NumOps Kernels.
Set Implicit Arguments. Unset Strict Implicit. Unset Printing Implicit Defensive.
Section Lse.
Context {K : Type} {ops : NumOps K}.
Local Notation vec := (seq K).
Local Notation mat := (seq (seq K)).
(* FLOAT_EQ(x, 0, 1e-4) *)
Definition near0 (x : K) : bool := float_eq x k0 (klit lit_1em4).
Definition swap2 (X : mat) (a b : nat) : mat :=
  mkseq (fun r => nth [::] X (if r == a then b else if r == b then a else r)) (size X).
(* pre-pass, column k: when X[k][k] is inside the window, exchange row k with the FIRST row (from
   row 0) whose entry in column k is outside it *)
Definition lse_pre_k (X : mat) (k : nat) : mat :=
  if near0 (mget X k k) then
    match [seq i <- iota 0 (size X) | ~~ near0 (mget X i k)] with
    | i :: _ => swap2 X i k
    | [::] => X
    end
  else X.
Definition lse_pre (X : mat) : mat := foldl lse_pre_k X (iota 0 (size X)).
(* partial pivoting: first row l >= k with the largest |X[l][k]| (strict >) *)
Definition lse_pivot (X : mat) (k : nat) : nat :=
  foldl (fun l i => if kltb (kabs (mget X l k)) (kabs (mget X i k)) then i else l) k (iota k.+1 (size X - k.+1)).
(* row i <- row i + row k * (-(X[i][k]/X[k][k])), every column of the augmented row *)
Definition lse_elim_row (rk ri : vec) (k : nat) : vec :=
  if keqb (nth k0 ri k) k0 then ri
  else let tmp := if keqb (nth k0 rk k) k0 then k0 else kdiv (nth k0 ri k) (nth k0 rk k) in
       map (fun ab => kadd (kmul ab.1 (kopp tmp)) ab.2) (zip rk ri).
Definition lse_elim_k (X : mat) (k : nat) : mat :=
  let l := lse_pivot X k in
  let X1 := if l == k then X else swap2 X l k in
  let rk := nth [::] X1 k in
  mkseq (fun i => let ri := nth [::] X1 i in if k < i then lse_elim_row rk ri k else ri) (size X1).
Definition lse_eliminate (X : mat) : mat := foldl lse_elim_k X (iota 0 (size X)).
(* back substitution, row l: b = sum over EVERY column i <> l of the coefficient part (also i < l,
   read from whatever the solution vector holds) *)
Definition lse_back_l (X : mat) (sol : vec) (l : nat) : vec :=
  let r := nth [::] X l in
  let n1 := (size r).-1 in
  let b := foldl (fun acc i => if i == l then acc else kadd acc (kmul (nth k0 r i) (nth k0 sol i))) k0 (iota 0 n1) in
  let v := if keqb (nth k0 r l) k0 then k0 else kdiv (ksub (nth k0 r n1) b) (nth k0 r l) in
  set_nth k0 sol l v.
Definition lse_back (X : mat) (sol0 : vec) : vec := foldl (lse_back_l X) sol0 (rev (iota 0 (size X))).
(* SolveLSE(mx, solution): the solution vector is re-created (zeros) only when its size differs *)
Definition solve_lse (M : mat) (sol0 : vec) : vec :=
  lse_back (lse_eliminate (lse_pre M)) (if size sol0 == size M then sol0 else zeros (size M)).
End Lse.
