(* Kernels.v — executable models of the dense kernels of matrix.c / vector.c.
   Each definition follows the C loop nest statement by statement (same accumulation
   order, same MISSING / NaN / Inf filters). Definitions only; proofs are in Spec/. *)
From mathcomp Require Import ssreflect ssrfun ssrbool eqtype ssrnat seq.
From LS Require Import NumOps.
Set Implicit Arguments. Unset Strict Implicit. Unset Printing Implicit Defensive.

(* --- exchange sort of MatrixSort / MatrixReverseSort (generic part) ----------------- *)
(* for i: for j>i: if swap(m[i], m[j]) exchange rows i and j.  One pass of the inner loop =
   carry the row currently at position i through the rest of the list *)
Section XSort.
Variable T : Type.
Variable swap : T -> T -> bool.
Fixpoint xs_inner (x : T) (rest : seq T) : T * seq T :=
  match rest with
  | [::] => (x, [::])
  | y :: r => if swap x y then let: (m, r') := xs_inner y r in (m, x :: r')
              else let: (m, r') := xs_inner x r in (m, y :: r')
  end.
Fixpoint xsort (n : nat) (l : seq T) : seq T :=
  match n, l with
  | n'.+1, x :: rest => let: (m, r') := xs_inner x rest in m :: xsort n' r'
  | _, _ => l
  end.
End XSort.

Section Kernels.
Context {K : Type} {ops : NumOps K}.
Local Notation vec := (seq K).
Local Notation mat := (seq (seq K)).

Definition vget (v : vec) i := nth k0 v i.
Definition mget (m : mat) i j := nth k0 (nth [::] m i) j.
Definition ncols (m : mat) := size (head [::] m).
Definition col (m : mat) j : vec := map (fun r => nth k0 r j) m.
Definition zeros n : vec := nseq n k0.
Definition zerom r c : mat := nseq r (zeros c).

(* --- vector.c ------------------------------------------------------------------ *)
(* DVectorDVectorDotProd: p = 0; for i: skip if either is MISSING; p += v1[i]*v2[i] *)
Fixpoint dotm_acc (acc : K) (u v : vec) : K :=
  match u, v with
  | x :: u', y :: v' =>
      dotm_acc (if is_missing x || is_missing y then acc else kadd acc (kmul x y)) u' v'
  | _, _ => acc
  end.
Definition vdot (u v : vec) : K := dotm_acc k0 u v.
(* DvectorModule *)
Definition vmodule (v : vec) : K :=
  ksqrt (foldl (fun s x => if is_missing x then s else kadd s (kmul x x)) k0 v).
(* DVectNorm (nv has the size of v) *)
Definition vnormalize (v : vec) : vec :=
  let md := vmodule v in map (fun x => if is_missing x then MISSINGk else kdiv x md) v.
Definition vscale_div (v : vec) (d : K) : vec := map (fun x => kdiv x d) v.

(* --- matrix-vector ----------------------------------------------------------------*)
(* inner loop shared by MatrixDVectorDotProduct / DVectorMatrixDotProduct and their
   workers: acc += a*b unless a or b is MISSING or the product is NaN/Inf *)
Fixpoint mv_acc (acc : K) (u v : vec) : K :=
  match u, v with
  | x :: u', y :: v' =>
      let acc' := if is_missing x || is_missing y then acc
                  else let r := kmul x y in if kbad r then acc else kadd acc r in
      mv_acc acc' u' v'
  | _, _ => acc
  end.
(* MatrixDVectorDotProduct(m, v, p): p[i] += sum_j m[i][j]*v[j]   (accumulates into p) *)
Fixpoint matvec_into (m : mat) (v p : vec) : vec :=
  match m, p with
  | r :: m', pi :: p' => mv_acc pi r v :: matvec_into m' v p'
  | _, _ => p
  end.
Definition matvec (m : mat) (v : vec) : vec := matvec_into m v (zeros (size m)).
(* worker of MT_MatrixDVectorDotProduct: res[i] = 0 first, then accumulate *)
Definition matvec_row_mt (r v : vec) : K := mv_acc k0 r v.
(* DVectorMatrixDotProduct(m, v, p): p[j] += sum_i v[i]*m[i][j] *)
Definition vecmat_into (m : mat) (v p : vec) : vec :=
  mkseq (fun j => mv_acc (vget p j) v (col m j)) (size p).
Definition vecmat (m : mat) (v : vec) : vec := vecmat_into m v (zeros (ncols m)).

(* --- matrix-matrix ---------------------------------------------------------------- *)
(* MatrixDotProduct_: r[i][j] += a[i][k]*b[k][j], k ascending, straight into r *)
Fixpoint dot_plain (acc : K) (u v : vec) : K :=
  match u, v with
  | x :: u', y :: v' => dot_plain (kadd acc (kmul x y)) u' v'
  | _, _ => acc
  end.
(* MatrixDotProduct_LOOP_UNROLLING: res = 0; k += 4 blocks summed left to right and
   added to res; then the tail; finally r[i][j] += res. Fuel = size u (never runs out) *)
Fixpoint dot_unrolled_f (fuel : nat) (res : K) (u v : vec) : K :=
  match fuel with
  | 0 => res
  | fuel'.+1 =>
    match u, v with
    | x0 :: x1 :: x2 :: x3 :: u', y0 :: y1 :: y2 :: y3 :: v' =>
        dot_unrolled_f fuel'
          (kadd res (kadd (kadd (kadd (kmul x0 y0) (kmul x1 y1)) (kmul x2 y2)) (kmul x3 y3))) u' v'
    | _, _ => dot_plain res u v
    end
  end.
Definition dot_unrolled (u v : vec) : K := dot_unrolled_f (size u).+1 k0 u v.
Definition matmul_plain_into (a b r : mat) : mat :=
  mkseq (fun i => mkseq (fun j => dot_plain (mget r i j) (nth [::] a i) (col b j)) (size (nth [::] r i))) (size a).
Definition matmul_unrolled_into (a b r : mat) : mat :=
  mkseq (fun i => mkseq (fun j => kadd (mget r i j) (dot_unrolled (nth [::] a i) (col b j))) (size (nth [::] r i))) (size a).
(* MatrixDotProduct: dispatch on (int)a->col - 3 > 0 *)
Definition matmul_into (a b r : mat) : mat :=
  if 3 < ncols a then matmul_unrolled_into a b r else matmul_plain_into a b r.
(* product into a zero-initialised (size a) x p output *)
Definition matmul (p : nat) (a b : mat) : mat := matmul_into a b (zerom (size a) p).

(* RowColOuterProduct *)
Definition outer (a b : vec) : mat :=
  map (fun x => map (fun y =>
    if is_missing x || is_missing y then MISSINGk
    else let r := kmul x y in if kbad r then k0 else r) b) a.
(* MatrixTranspose (r is col x row) *)
Definition transpose (nc : nat) (m : mat) : mat := mkseq (fun j => col m j) nc.
(* MatrixTrace *)
Definition trace (m : mat) : K := foldl (fun t i => kadd t (mget m i i)) k0 (iota 0 (size m)).
(* Matrixnorm: column-major traversal, skipping non-finite values *)
Definition fro_norm (m : mat) : K :=
  ksqrt (foldl (fun s j => foldl (fun s x => if kbad x then s else kadd s (kmul x x)) s (col m j)) k0 (iota 0 (ncols m))).

(* --- column statistics (MISSING-filtered) ---------------------------------------- *)
Definition fsum_cnt (f : K -> K) (c : vec) : K * nat :=
  foldl (fun sn x => if is_missing x then sn else (kadd sn.1 (f x), sn.2.+1)) (k0, 0) c.
(* MatrixColAverage: sums within (-1e-6, 1e-6) are snapped to 0 *)
Definition col_average (c : vec) : K :=
  let: (s, n) := fsum_cnt id c in
  if float_eq s k0 (klit lit_1em6) then k0 else kdiv s (kofnat n).
(* plain mean as used inside MatrixColVar / MatrixColSDEV *)
Definition col_mean (c : vec) : K := let: (s, n) := fsum_cnt id c in kdiv s (kofnat n).
Definition col_var (c : vec) : K :=
  let a := col_mean c in
  let: (s, n) := fsum_cnt (fun x => let d := ksub x a in kmul d d) c in kdiv s (kofnat n.-1).
Definition col_sdev (c : vec) : K := ksqrt (col_var c).
Definition col_rms (c : vec) : K :=
  let: (s, n) := fsum_cnt (fun x => kmul x x) c in ksqrt (kdiv s (kofnat n)).
(* MatrixColumnMinMax: seeded with the first non-MISSING value (the last row if all are
   MISSING); later MISSING rows skipped *)
Fixpoint drop_missing_prefix (c : vec) : vec :=
  match c with
  | x :: ((_ :: _) as c') => if is_missing x then drop_missing_prefix c' else c
  | _ => c
  end.
Definition col_minmax (c : vec) : K * K :=
  match drop_missing_prefix c with
  | [::] => (MISSINGk, MISSINGk)
  | x :: c' => foldl (fun mm a => if is_missing a then mm else
                 (if kltb a mm.1 then a else mm.1, if kltb mm.2 a then a else mm.2)) (x, x) c'
  end.
Definition mat_col_average (m : mat) : vec := mkseq (fun j => col_average (col m j)) (ncols m).
Definition mat_col_var (m : mat) : vec := mkseq (fun j => col_var (col m j)) (ncols m).
Definition mat_col_sdev (m : mat) : vec := mkseq (fun j => col_sdev (col m j)) (ncols m).
Definition mat_col_rms (m : mat) : vec := mkseq (fun j => col_rms (col m j)) (ncols m).
(* MatrixRowAverage (no snapping) *)
Definition mat_row_average (m : mat) : vec := map col_mean m.
(* MatrixCovariance: uses MatrixColAverage (snapped), no MISSING filter in the sum *)
Definition covariance (m : mat) : mat :=
  let av := mat_col_average m in
  let nc := ncols m in
  mkseq (fun i => mkseq (fun j =>
    kdiv (foldl (fun s r => kadd s (kmul (ksub (nth k0 r i) (vget av i)) (ksub (nth k0 r j) (vget av j)))) k0 m)
         (kofnat (size m).-1)) nc) nc.

(* MatrixSort: swap when m[i][key] > m[j][key]; MatrixReverseSort: when < *)
Definition msort (key : nat) (m : mat) : mat :=
  xsort (fun x y => kltb (nth k0 y key) (nth k0 x key)) (size m) m.
Definition mrsort (key : nat) (m : mat) : mat :=
  xsort (fun x y => kltb (nth k0 x key) (nth k0 y key)) (size m) m.

End Kernels.
