(* Select.v — executable models of the max-min dissimilarity selection (MaxDis and MaxDis_Fast)
   and of KMeans (labelling, centroids, stopping rule) of clustering.c. *)
From mathcomp Require Import ssreflect ssrfun ssrbool eqtype ssrnat seq.
From Coq Require Import ZArith.
From LS Require Import NumOps Kernels Pca Gen_Leaf Distance.
Set Implicit Arguments. Unset Strict Implicit. Unset Printing Implicit Defensive.
Section Select.
Context {K : Type} {ops : NumOps K}.
Local Notation vec := (seq K).
Local Notation mat := (seq (seq K)).
(* first object: the one farthest (Euclidean) from the centroid, first index on ties *)
Definition centroid_of (X : mat) : vec :=
  let s := foldl (fun c r => map (fun cx => kadd cx.1 cx.2) (zip c r)) (zeros (ncols X)) X in
  map (fun x => kdiv x (kofnat (size X))) s.
Definition far_away (X : mat) : nat :=
  let c := centroid_of X in
  argmax_first (map (fun r => ksqrt (foldl (fun s cx => let d := ksub cx.1 cx.2 in kadd s (kmul d d)) k0 (zip c r))) X).
(* index of the first minimum / maximum are argmax_first on the list; min over the selected *)
Definition min_over (d : nat -> nat -> K) (i : nat) (sel : seq nat) : K :=
  match sel with
  | [::] => k0
  | s0 :: rest => foldl (fun m s => if kltb (d i s) m then d i s else m) (d i s0) rest
  end.
Definition remove_at (T : Type) (j : nat) (l : seq T) : seq T := take j l ++ drop j.+1 l.
(* greedy max-min: among the remaining ids (increasing original index) take the first one whose
   minimum distance to the selected ids is largest *)
Fixpoint greedy (steps : nat) (d : nat -> nat -> K) (remaining selected : seq nat) : seq nat :=
  match steps with
  | 0 => selected
  | steps'.+1 =>
      match remaining with
      | [::] => selected
      | _ => let j := argmax_first (map (fun i => min_over d i selected) remaining) in
             greedy steps' d (remove_at j remaining) (rcons selected (nth 0 remaining j))
      end
  end.
Definition select_maxmin (d : nat -> nat -> K) (X : mat) (n : nat) : seq nat :=
  let f := far_away X in
  greedy (minn n (size X)).-1 d (remove_at f (iota 0 (size X))) [:: f].
(* MaxDis: distances between rows computed by CalculateDistance(remaining, selected) *)
Definition maxdis (me : metric) (X : mat) (n : nat) : seq nat :=
  select_maxmin (fun i s => dist me (nth [::] X i) (nth [::] X s)) X n.
(* MaxDis_Fast: distances read from the condensed vector through the regenerated index map *)
Definition maxdis_fast (me : metric) (X : mat) (n : nat) : seq nat :=
  let cd := condensed me X in
  let nz := Z.of_nat (size X) in
  select_maxmin (fun i s => nth k0 cd (Z.to_nat (cidx (Z.of_nat i) (Z.of_nat s) nz))) X n.

(* ---- k-means ------------------------------------------------------------------------ *)
(* getLabelsWorker: nearest centroid (Euclidean), first index on ties *)
Definition nearest (cents : mat) (x : vec) : nat :=
  (foldl (fun bk c => let: (b, bi, k) := bk in
            let d := ksqrt (foldl (fun s xc => let e := ksub xc.1 xc.2 in kadd s (kmul e e)) k0 (zip x c)) in
            if (k == 0) then (d, 0, 1) else if kltb d b then (d, k, k.+1) else (b, bi, k.+1)) (k0, 0, 0) cents).1.2.
(* getCentroids: mean of the objects of each cluster; None when a cluster is empty (the code
   then draws a random object) *)
Definition centroids_of (X : mat) (labels : seq nat) (ncl : nat) : option mat :=
  let rows := mkseq (fun c => map fst (filter (fun xl => xl.2 == c) (zip X labels))) ncl in
  if has (fun r : mat => size r == 0) rows then None
  else Some (map (fun r : mat => map (fun x => kdiv x (kofnat (size r)))
                  (foldl (fun s x => map (fun sx => kadd sx.1 sx.2) (zip s x)) (zeros (ncols X)) r)) rows).
Definition same_centroids (a b : mat) : bool :=
  all (fun rs => all (fun xy => float_eq xy.1 xy.2 (klit lit_1em3)) (zip rs.1 rs.2)) (zip a b).
Fixpoint kmeans_loop (fuel it : nat) (X : mat) (cents old : mat) (labels : seq nat) : option (seq nat * mat * nat) :=
  match fuel with
  | 0 => Some (labels, cents, it)
  | fuel'.+1 =>
      if (0 < it) && ((100 < it) || same_centroids cents old) then Some (labels, cents, it)
      else let labels' := map (nearest cents) X in
           match centroids_of X labels' (size cents) with
           | None => None
           | Some c' => kmeans_loop fuel' it.+1 X c' cents labels'
           end
  end.
Definition kmeans_maxdis (X : mat) (ncl : nat) : option (seq nat * mat * nat) :=
  let c0 := map (fun i => nth [::] X i) (maxdis Euclidean X ncl) in
  kmeans_loop 200 0 X c0 (zerom (size c0) (ncols X)) (nseq (size X) 0).
End Select.
