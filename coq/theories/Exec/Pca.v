(* Pca.v — executable model of PCA (NIPALS), PCAScorePredictor and PCAIndVarPredictor of pca.c.
   Statement by statement, including: p is cleared before each t'E projection, t_old survives
   from one component to the next, the eigenvalue stored is t't of the previous iterate. *)
From mathcomp Require Import ssreflect ssrfun ssrbool eqtype ssrnat seq.
From Coq Require Import ZArith.
From LS Require Import NumOps Kernels Preprocess.
Set Implicit Arguments. Unset Strict Implicit. Unset Printing Implicit Defensive.
Section Pca.
Context {K : Type} {ops : NumOps K}.
Local Notation vec := (seq K).
Local Notation mat := (seq (seq K)).

Record pca_model := PcaModel {
  pm_scores : seq vec;    (* one vector (length rows) per component *)
  pm_loadings : seq vec;  (* one vector (length cols) per component *)
  pm_dmodx : seq vec;
  pm_varexp : vec;
  pm_avg : vec; pm_scale : vec;
  pm_residual : mat;      (* E after the last deflation (not stored by the C code) *)
  pm_iters : seq nat }.   (* inner iterations used per component *)

(* calcConvergence *)
Fixpoint conv_acc (nd : K * K) (t told : vec) : K * K :=
  match t, told with
  | x :: t', y :: o' => let d := ksub x y in conv_acc (kadd nd.1 (kmul d d), kadd nd.2 (kmul x x)) t' o'
  | _, _ => nd
  end.
Definition calc_convergence (t told : vec) : K :=
  let: (n, d) := conv_acc (k0, k0) t told in kdiv n (kmul (kofnat (size t)) d).

(* index of the first maximum (strict >) *)
Definition argmax_first (v : vec) : nat :=
  (foldl (fun bi x => let: (b, bj, i) := bi in if kltb b x then (x, i, i.+1) else (b, bj, i.+1)) (nth k0 v 0, 0, 0) v).1.2.

(* one pass of the while(1) body: p = 0; p += E't; p /= t't; p /= |p|; t = E p / p'p *)
Definition pca_inner_step (E : mat) (t p : vec) : vec * vec * K :=
  let p1 := vecmat_into E t (zeros (size p)) in
  let mod_t := vdot t t in
  let p2 := map (fun x => kdiv x mod_t) p1 in
  let p3 := vnormalize p2 in
  let t1 := matvec_into E p3 (zeros (size t)) in
  let mod_p := vdot p3 p3 in
  (p3, map (fun x => kdiv x mod_p) t1, mod_t).

Definition lit_PCACONV := lit_1em10.
Fixpoint pca_loop (fuel : nat) (it : nat) (E : mat) (t told p : vec) : result (vec * vec * K * vec * nat) :=
  match fuel with
  | 0 => Err Fuel
  | fuel'.+1 =>
      let: (p', t', mod_t) := pca_inner_step E t p in
      if kltb (calc_convergence t' told) (klit lit_PCACONV) then Ok (p', t', mod_t, told, it.+1)
      else pca_loop fuel' it.+1 E t' t' p'
  end.

(* E := E - t p' with the dmodx bookkeeping *)
Definition deflate (E : mat) (t p : vec) : mat :=
  map (fun rt => map (fun ep => ksub ep.1 (kmul rt.2 ep.2)) (zip rt.1 p)) (zip E t).
Definition row_norms (E : mat) : vec := map (fun r => ksqrt (foldl (fun s x => kadd s (kmul x x)) k0 r)) E.

Fixpoint pca_components (fuel : nat) (npc : nat) (E : mat) (told : vec)
    (T P D : seq vec) (ev : vec) (its : seq nat) : result (seq vec * seq vec * seq vec * vec * mat * seq nat) :=
  match npc with
  | 0 => Ok (rev T, rev P, rev D, rev ev, E, rev its)
  | npc'.+1 =>
      let j := argmax_first (mat_col_var E) in
      let t := col E j in
      match pca_loop fuel 0 E t told (zeros (ncols E)) with
      | Err e => Err e
      | Ok (p', t', mod_t, told', it) =>
          let E' := deflate E t' p' in
          pca_components fuel npc' E' told' (t' :: T) (p' :: P) (row_norms E' :: D) (mod_t :: ev) (it :: its)
      end
  end.

Definition sumsq (E : mat) : K := foldl (fun s r => foldl (fun s x => kadd s (kmul x x)) s r) k0 E.

Definition pca_fit (fuel : nat) (scaling : Z) (npc : nat) (X : mat) : result pca_model :=
  let: (E, avg, sc) := preprocess_fit scaling X (zerom (size X) (ncols X)) in
  let npc := minn npc (ncols E) in
  let ss := sumsq E in
  match pca_components fuel npc E (zeros (size E)) [::] [::] [::] [::] [::] with
  | Err e => Err e
  | Ok (T, P, D, ev, Er, its) =>
      Ok (PcaModel T P D (map (fun e => kmul (kdiv e ss) (klit lit_100)) ev) avg sc Er its)
  end.

(* PCAScorePredictor: apply the stored preprocessing, then t = E p / p'p, E -= t p' *)
Fixpoint predict_components (E : mat) (P : seq vec) (acc : seq vec) : seq vec :=
  match P with
  | [::] => rev acc
  | p :: P' =>
      let t1 := matvec_into E p (zeros (size E)) in
      let mod_p := vdot p p in
      let t := map (fun x => kdiv x mod_p) t1 in
      predict_components (deflate E t p) P' (t :: acc)
  end.
Definition pca_predict (avg sc : vec) (P : seq vec) (npc : nat) (X : mat) : seq vec :=
  predict_components (preprocess_apply X avg sc) (take npc P) [::].

(* PCAIndVarPredictor: X = sum_k t_k p_k' ; then * scale + average *)
Definition pca_backtransform (T P : seq vec) (avg sc : vec) (npc : nat) (rows cols : nat) : mat :=
  let core := foldl (fun M tp => map (fun rt => map (fun mp => kadd mp.1 (kmul rt.2 mp.2)) (zip rt.1 tp.2)) (zip M tp.1))
                    (zerom rows cols) (take npc (zip T P)) in
  if size avg == 0 then core
  else if size sc == 0 then map (fun r => map (fun xa => kadd xa.1 xa.2) (zip r avg)) core
  else map (fun r => map (fun xas => kadd (kmul xas.1.1 xas.2) xas.1.2) (zip (zip r avg) sc)) core.
End Pca.
