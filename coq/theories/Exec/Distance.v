(* Distance.v — executable models of metricspace.c: the four distances, the square
   distance matrix of CalculateDistance and the condensed vector of *DistanceCondensed,
   placed through the index map regenerated from the source (Gen_Leaf.cidx). *)
From mathcomp Require Import ssreflect ssrfun ssrbool eqtype ssrnat seq div.
From Coq Require Import ZArith.
From LS Require Import NumOps Kernels Gen_Leaf.
Set Implicit Arguments. Unset Strict Implicit. Unset Printing Implicit Defensive.
Section Distance.
Context {K : Type} {ops : NumOps K}.
Local Notation vec := (seq K).
Local Notation mat := (seq (seq K)).
Inductive metric := Euclidean | SqEuclidean | Manhattan | Cosine.
Fixpoint sqdist_acc (acc : K) (u v : vec) : K :=
  match u, v with
  | x :: u', y :: v' => let d := ksub x y in sqdist_acc (kadd acc (kmul d d)) u' v'
  | _, _ => acc
  end.
Fixpoint absdist_acc (acc : K) (u v : vec) : K :=
  match u, v with
  | x :: u', y :: v' => absdist_acc (kadd acc (kabs (ksub x y))) u' v'
  | _, _ => acc
  end.
Fixpoint cos_acc (n da db : K) (u v : vec) : K * K * K :=
  match u, v with
  | x :: u', y :: v' => cos_acc (kadd n (kmul x y)) (kadd da (kmul x x)) (kadd db (kmul y y)) u' v'
  | _, _ => (n, da, db)
  end.
Definition dist (me : metric) (u v : vec) : K :=
  match me with
  | Euclidean => ksqrt (sqdist_acc k0 u v)
  | SqEuclidean => sqdist_acc k0 u v
  | Manhattan => absdist_acc k0 u v
  | Cosine => let: (n, da, db) := cos_acc k0 k0 k0 u v in kdiv n (kmul (ksqrt da) (ksqrt db))
  end.
(* CalculateDistance: distances[k][i] = d(m1[i], m2[k])  (m2->row x m1->row) *)
Definition dist_matrix (me : metric) (m1 m2 : mat) : mat :=
  map (fun r2 => map (fun r1 => dist me r1 r2) m1) m2.
(* *DistanceCondensed: distances[cidx(i,k,n)] = d(m[i], m[k]) for i < k, into zeros *)
Definition condensed (me : metric) (m : mat) : vec :=
  let n := size m in
  foldl (fun out i =>
    foldl (fun out k =>
      set_nth k0 out (Z.to_nat (cidx (Z.of_nat i) (Z.of_nat k) (Z.of_nat n))) (dist me (nth [::] m i) (nth [::] m k)))
      out (iota i.+1 (n - i.+1)))
    (nseq ((n * n - n) %/ 2) k0) (iota 0 n).
End Distance.
