(* Stats.v — executable models of the figures of merit of statistic.c (R2, MAE, MSE, RMSE, BIAS),
   ROC / PrecisionRecall and curve_area (trapezoid rule, numeric.c). *)
From mathcomp Require Import ssreflect ssrfun ssrbool eqtype ssrnat seq.
From LS Require Import NumOps Kernels.
Set Implicit Arguments. Unset Strict Implicit. Unset Printing Implicit Defensive.
Section Stats.
Context {K : Type} {ops : NumOps K}.
Local Notation vec := (seq K).
Local Notation mat := (seq (seq K)).
(* pairs (true, predicted) whose truth is not MISSING-coded, in order *)
Definition obs (yt yp : vec) : seq (K * K) := filter (fun tp => ~~ is_missing tp.1) (zip yt yp).
Definition ksq (x : K) := kmul x x.
Definition mean_true (o : seq (K * K)) : K := kdiv (foldl (fun s tp => kadd s tp.1) k0 o) (kofnat (size o)).
Definition r2 (yt yp : vec) : K :=
  let o := obs yt yp in let avg := mean_true o in
  let: (ssreg, sstot) := foldl (fun st tp => (kadd st.1 (ksq (ksub tp.2 tp.1)), kadd st.2 (ksq (ksub tp.1 avg)))) (k0, k0) o in
  ksub k1 (kdiv ssreg sstot).
Definition mae (yt yp : vec) : K :=
  let o := obs yt yp in kdiv (foldl (fun s tp => kadd s (kabs (ksub tp.2 tp.1))) k0 o) (kofnat (size o)).
Definition mse (yt yp : vec) : K :=
  let o := obs yt yp in kdiv (foldl (fun s tp => kadd s (ksq (ksub tp.2 tp.1))) k0 o) (kofnat (size o)).
Definition rmse (yt yp : vec) : K := ksqrt (mse yt yp).
Definition bias (yt yp : vec) : K :=
  let o := obs yt yp in let avg := mean_true o in
  let: (sy, sx) := foldl (fun st tp => (kadd st.1 (kmul tp.2 (ksub tp.1 avg)), kadd st.2 (kmul tp.1 (ksub tp.1 avg)))) (k0, k0) o in
  kabs (ksub k1 (kdiv sy sx)).

(* curve_area(xy, 0): trapezoid rule over consecutive points *)
Definition trap_step (acc : K) (p q : K * K) : K :=
  kadd acc (kmul (ksub q.1 p.1) (kdiv (kadd p.2 q.2) (klit lit_2))).
Fixpoint trapz (acc : K) (pts : seq (K * K)) : K :=
  match pts with
  | p :: ((q :: _) as r) => trapz (trap_step acc p q) r
  | _ => acc
  end.
Definition curve_area (pts : seq (K * K)) : K := trapz k0 pts.

Definition is_pos (y : K) : bool := float_eq y k1 (klit lit_1em1).
(* labels ordered by descending score (MatrixReverseSort on the score column) *)
Definition sorted_labels (yt ys : vec) : vec :=
  map (fun r => nth k0 r 0) (mrsort 1 (map (fun ts => [:: ts.1; ts.2]) (zip yt ys))).
Fixpoint roc_walk (tp fp ntp ntn : nat) (ls : vec) : seq (K * K) :=
  match ls with
  | [::] => [::]
  | y :: r => if is_missing y then roc_walk tp fp ntp ntn r
              else let: (tp', fp') := if is_pos y then (tp.+1, fp) else (tp, fp.+1) in
                   (kdiv (kofnat fp') (kofnat ntn), kdiv (kofnat tp') (kofnat ntp)) :: roc_walk tp' fp' ntp ntn r
  end.
Definition roc_curve (yt ys : vec) : seq (K * K) :=
  let ls := sorted_labels yt ys in
  let ntp := count (fun y => ~~ is_missing y && is_pos y) ls in
  let ntn := count (fun y => ~~ is_missing y && ~~ is_pos y) ls in
  (k0, k0) :: roc_walk 0 0 ntp ntn ls.
Definition roc_auc (yt ys : vec) : K := let a := curve_area (roc_curve yt ys) in if kisnan a then k0 else a.
Fixpoint pr_walk (tp fp ntp : nat) (ls : vec) : seq (K * K) :=
  match ls with
  | [::] => [::]
  | y :: r => if is_missing y then pr_walk tp fp ntp r
              else let: (tp', fp') := if is_pos y then (tp.+1, fp) else (tp, fp.+1) in
                   (kdiv (kofnat tp') (kofnat ntp), kdiv (kofnat tp') (kofnat (tp' + fp'))) :: pr_walk tp' fp' ntp r
  end.
Definition pr_curve (yt ys : vec) : seq (K * K) :=
  let ls := sorted_labels yt ys in
  let ntp := count (fun y => ~~ is_missing y && is_pos y) ls in
  (k0, k1) :: pr_walk 0 0 ntp ls.
Definition pr_ap (yt ys : vec) : K := let a := curve_area (pr_curve yt ys) in if kisnan a then k0 else a.
End Stats.
