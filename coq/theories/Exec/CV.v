(* CV.v — executable models of the cross-validation bookkeeping of modelvalidation.c:
   random_kfold_group_generator (rejection sampling of unused object ids, for an arbitrary
   stream of draws and for the REAL stream regenerated from numeric.c), the group matrix and
   kfold_group_train_test_split. Stdlib lists (shared with the proofs of Spec/CvSpec.v). *)
From Coq Require Import List Arith Lia ZArith.
Import ListNotations.
From LS Require Import Gen_Leaf.
Section G.
Variable nobj : nat.
Variable stream : nat -> nat.
Hypothesis stream_range : forall i, stream i < nobj.
Definition mem (n : nat) (l : list nat) := existsb (Nat.eqb n) l.
(* do { n = randInt(0,nobj) } while (ValInMatrix(gid,n) && k < nobj)   -- case k < nobj *)
Fixpoint find_fresh (fuel pos : nat) (placed : list nat) : option (nat * nat) :=
  match fuel with
  | 0 => None
  | S f => let n := stream pos in
           if mem n placed then find_fresh f (S pos) placed else Some (n, S pos)
  end.
Fixpoint fill (slots fuel pos : nat) (placed : list nat) : option (list nat) :=
  match slots with
  | 0 => Some placed
  | S s => if length placed <? nobj
           then match find_fresh fuel pos placed with
                | Some (n, pos') => fill s fuel pos' (placed ++ [n])
                | None => None
                end
           else fill s fuel (S pos) placed      (* one draw, slot stays -1 *)
  end.
End G.

(* the stream the library really draws: srand_(seed); then randInt(0, nobj) repeatedly *)
Definition state_at (seed : Z) (i : nat) : Z := Nat.iter i generate_seed (generate_seed seed).
Definition raw_draw (seed : Z) (i : nat) : Z := fst (xorshift128 (fst (randInt_setup (state_at seed i)))).
(* the first n draws, computed by threading the generator state (linear time) *)
Fixpoint draws_from (st : Z) (nobj : nat) (n : nat) : list nat :=
  match n with
  | O => []
  | S n' => Z.to_nat (randInt_out (fst (xorshift128 (fst (randInt_setup st)))) 0 (Z.of_nat nobj))
            :: draws_from (generate_seed st) nobj n'
  end.
Definition ndraws : nat := 800.
Definition real_stream (seed : Z) (nobj : nat) : nat -> nat :=
  let l := draws_from (generate_seed seed) nobj ndraws in fun i => nth i l 0.
(* gid: ngroups rows of ceil(nobj/ngroups) slots, filled row by row, -1 where nothing was placed *)
Definition group_cols (ngroups nobj : nat) : nat := (nobj + ngroups - 1) / ngroups.
Fixpoint chunk (c : nat) (fuel : nat) (l : list Z) : list (list Z) :=
  match fuel with O => [] | S f => firstn c l :: chunk c f (skipn c l) end.
Definition gen_groups (fuel : nat) (seed : Z) (ngroups nobj : nat) : option (list (list Z)) :=
  let cols := group_cols ngroups nobj in
  match fill nobj (real_stream seed nobj) (ngroups * cols) fuel 0 [] with
  | None => None
  | Some placed =>
      let padded := map Z.of_nat placed ++ repeat (-1)%Z (ngroups * cols - length placed) in
      Some (chunk cols ngroups padded)
  end.
(* kfold_group_train_test_split: object ids of the training part (all groups but g, in order)
   and of the test part (group g) *)
Definition row_ids (r : list Z) : list nat := map Z.to_nat (filter (fun a => negb (Z.eqb a (-1))) r).
Definition split_ids (gid : list (list Z)) (g : nat) : list nat * list nat :=
  (flat_map row_ids (firstn g gid ++ skipn (S g) gid), row_ids (nth g gid [])).
