(* Spline.v — executable model of cubic_spline_interpolation / cubic_spline_predict
   (interpolate.c): natural cubic spline by the Thomas algorithm, piece lookup, evaluation. *)
From mathcomp Require Import ssreflect ssrfun ssrbool eqtype ssrnat seq.
From LS Require Import NumOps Kernels.
Set Implicit Arguments. Unset Strict Implicit. Unset Printing Implicit Defensive.
Section Spline.
Context {K : Type} {ops : NumOps K}.
Local Notation vec := (seq K).
Local Notation mat := (seq (seq K)).
Definition k2 : K := klit lit_2.
Definition k3 : K := klit lit_3.
(* rows [x_j; a_j; b_j; c_j; d_j] for the n = size-1 pieces *)
Definition spline_fit (xs a : vec) : mat :=
  let n := (size xs).-1 in
  let x i := nth k0 xs i in let ai i := nth k0 a i in
  let h := mkseq (fun i => ksub (x i.+1) (x i)) n in
  let hi i := nth k0 h i in
  let alpha := mkseq (fun i => if i == 0 then k0
                 else ksub (kmul (kdiv k3 (hi i)) (ksub (ai i.+1) (ai i))) (kmul (kdiv k3 (hi i.-1)) (ksub (ai i) (ai i.-1)))) n in
  let: (us, zs) := foldl (fun uz i =>
        let l := ksub (kmul k2 (ksub (x i.+1) (x i.-1))) (kmul (hi i.-1) (nth k0 uz.1 i.-1)) in
        (rcons uz.1 (kdiv (hi i) l), rcons uz.2 (kdiv (ksub (nth k0 alpha i) (kmul (hi i.-1) (nth k0 uz.2 i.-1))) l)))
      ([:: k0], [:: k0]) (iota 1 n.-1) in
  let cs := foldr (fun j cs => ksub (nth k0 zs j) (kmul (nth k0 us j) (head k0 cs)) :: cs) [:: k0] (iota 0 n) in
  let c i := nth k0 cs i in
  mkseq (fun j => [:: x j; ai j;
                     ksub (kdiv (ksub (ai j.+1) (ai j)) (hi j)) (kdiv (kmul (hi j) (kadd (c j.+1) (kmul k2 (c j)))) k3);
                     c j;
                     kdiv (ksub (c j.+1) (c j)) (kmul k3 (hi j))]) n.
Definition spline_eval (row : vec) (x : K) : K :=
  let xi := nth k0 row 0 in let dx := ksub x xi in
  kadd (kadd (kadd (nth k0 row 1) (kmul (nth k0 row 2) dx)) (kmul (kmul (nth k0 row 3) dx) dx)) (kmul (kmul (kmul (nth k0 row 4) dx) dx) dx).
(* piece lookup: first piece j < pieces-1 with x_j <= x <= x_{j+1}; otherwise the last piece *)
Fixpoint spline_find (S : mat) (x : K) : option vec :=
  match S with
  | r :: ((r' :: _) as S') =>
      if (kltb (nth k0 r 0) x || keqb x (nth k0 r 0)) && (kltb x (nth k0 r' 0) || keqb x (nth k0 r' 0)) then Some r
      else spline_find S' x
  | _ => None
  end.
Definition spline_predict1 (S : mat) (x : K) : K :=
  let y := match spline_find S x with Some r => spline_eval r x | None => MISSINGk end in
  if float_eq y MISSINGk (klit lit_1em2) then spline_eval (last [::] S) x else y.
Definition spline_predict (S : mat) (xs : vec) : vec := map (spline_predict1 S) xs.
End Spline.
