(* Simplex.v — executable model of NelderMeadSimplex (optimization.c). The objective is a
   parameter, so every statement holds for every objective. A simplex is a list of rows
   (point, value), kept sorted by value with the exchange sort of MatrixSort. *)
From mathcomp Require Import ssreflect ssrfun ssrbool eqtype ssrnat seq.
From LS Require Import NumOps Kernels.
Set Implicit Arguments. Unset Strict Implicit. Unset Printing Implicit Defensive.
Section Simplex.
Context {K : Type} {ops : NumOps K}.
Local Notation vec := (seq K).
Variable func : vec -> K.
Definition row := (vec * K)%type.
Definition sort_rows (s : seq row) : seq row := xsort (fun x y : row => kltb y.2 x.2) (size s) s.
Definition vmap2 (f : K -> K -> K) (a b : vec) : vec := map (fun ab => f ab.1 ab.2) (zip a b).
(* gen_centroids: mean of all rows but the last, coordinate by coordinate, summed in row order *)
Definition centroid (s : seq row) (dim : nat) : vec :=
  let pts := map fst (take (size s).-1 s) in
  mkseq (fun j => kdiv (foldl (fun acc p => kadd acc (nth k0 p j)) k0 pts) (ksub (kofnat (size s)) k1)) dim.
Definition replace_last (s : seq row) (r : row) : seq row := rcons (take (size s).-1 s) r.
(* shrink towards the best point, then re-evaluate every row *)
Definition shrink (s : seq row) (delta : K) : seq row :=
  match s with
  | [::] => [::]
  | r0 :: rest =>
      let pts := r0.1 :: map (fun r : row => vmap2 (fun a b => kadd a (kmul delta (ksub b a))) r0.1 r.1) rest in
      map (fun p => (p, func p)) pts
  end.
Definition nm_step (dim : nat) (beta gamma delta : K) (s : seq row) : seq row :=
  let c := centroid s dim in
  let worst := last ([::], k0) s in
  let best := head ([::], k0) s in
  let second := nth ([::], k0) s (size s).-2 in
  let xr := vmap2 (fun ci wi => kadd ci (kmul k1 (ksub ci wi))) c worst.1 in
  let fr := func xr in
  let s' :=
    if kleb best.2 fr && kltb fr second.2 then replace_last s (xr, fr)
    else if kltb fr best.2 then
      let xe := vmap2 (fun ci ri => kadd ci (kmul beta (ksub ri ci))) c xr in
      let fe := func xe in
      if kltb fe fr then replace_last s (xe, fe) else replace_last s (xr, fr)
    else if kleb second.2 fr && kltb fr worst.2 then
      let xoc := vmap2 (fun ci ri => kadd ci (kmul gamma (ksub ri ci))) c xr in
      let foc := func xoc in
      if kleb foc fr then replace_last s (xoc, foc) else shrink s delta
    else if kleb worst.2 fr then
      let xic := vmap2 (fun ci ri => ksub ci (kmul gamma (ksub ri ci))) c xr in
      let fic := func xic in
      if kltb fic worst.2 then replace_last s (xic, fic) else shrink s delta
    else s in
  sort_rows s'.
Fixpoint nm_loop (iter : nat) (dim : nat) (beta gamma delta xtol : K) (s : seq row) : seq row :=
  match iter with
  | 0 => s
  | iter'.+1 =>
      let s' := nm_step dim beta gamma delta s in
      if kltb (kabs (ksub (last ([::], k0) s').2 (head ([::], k0) s').2)) xtol then s'
      else nm_loop iter' dim beta gamma delta xtol s'
  end.
Definition nm_init (x0 step : vec) : seq row :=
  let dim := size x0 in
  let pts := mkseq (fun i => mkseq (fun j => if i == j.+1 then kadd (nth k0 x0 j) (nth k0 step j) else nth k0 x0 j) dim) dim.+1 in
  sort_rows (map (fun p => (p, func p)) pts).
Definition nelder_mead (x0 step : vec) (xtol : K) (iter : nat) : row :=
  let dim := size x0 in
  let n := kofnat dim in
  let beta := kadd k1 (kdiv (klit lit_2) n) in
  let gamma := ksub (klit lit_075) (kdiv k1 (kmul (klit lit_2) n)) in
  let delta := ksub k1 (kdiv k1 n) in
  head ([::], k0) (nm_loop iter dim beta gamma delta xtol (nm_init x0 step)).
End Simplex.
