(* Mlr.v — executable model of OrdinaryLeastSquares (algebra.c), MLR and MLRPredictY (mlr.c). *)
From mathcomp Require Import ssreflect ssrfun ssrbool eqtype ssrnat seq.
From LS Require Import NumOps Kernels Preprocess Algebra.
Set Implicit Arguments. Unset Strict Implicit. Unset Printing Implicit Defensive.
Section Mlr.
Context {K : Type} {ops : NumOps K}.
Local Notation vec := (seq K).
Local Notation mat := (seq (seq K)).
(* b = (Z'Z)^-1 Z'y with the Gauss–Jordan inverse *)
Definition ols (Z : mat) (y : vec) : vec :=
  let p := ncols Z in
  let Zt := transpose p Z in
  let ZtZ := matmul p Zt Z in
  let inv := gj_inverse ZtZ in
  matvec inv (matvec Zt y).
Definition design (X : mat) : mat := map (fun r => k1 :: r) (mcheck X).
(* coefficient matrix: (vars+1) x responses, as list of columns *)
Definition mlr_coef (X Y : mat) : seq vec := map (fun j => ols (design X) (col Y j)) (iota 0 (ncols Y)).
(* MLRPredictY: ypred = b0 + sum_j x_j b_{j+1} *)
Definition mlr_predict (B : seq vec) (X : mat) : mat :=
  map (fun r => map (fun b => foldl (fun acc xb => kadd acc (kmul xb.1 xb.2)) (nth k0 b 0) (zip r (behead b))) B) X.
Record mlr_model := MlrModel { ml_B : seq vec; ml_ymean : vec; ml_recalc : mat; ml_resid : mat; ml_r2 : vec; ml_sdec : vec }.
Definition mlr_fit (X Y : mat) : mlr_model :=
  let B := mlr_coef X Y in
  let ymean := mat_col_average Y in
  let X' := mcheck X in
  let P := mlr_predict B X' in
  let res := map (fun py => map (fun ab => ksub ab.1 ab.2) (zip py.1 py.2)) (zip P Y) in
  let stats := map (fun j =>
      let: (rss, tss) := foldl (fun rt py => let y := nth k0 py.2 j in let p := nth k0 py.1 j in
                                  let d := ksub y p in let e := ksub y (nth k0 ymean j) in
                                  (kadd rt.1 (kmul d d), kadd rt.2 (kmul e e))) (k0, k0) (zip P Y) in
      (ksub k1 (kdiv rss tss), ksqrt (kdiv rss (kofnat (size Y))))) (iota 0 (ncols Y)) in
  MlrModel B ymean P res (map fst stats) (map snd stats).
End Mlr.
