(* Preprocess.v — executable model of MatrixPreprocess (fit path and apply path) and
   TensorPreprocess (preprocessing.c). *)
From mathcomp Require Import ssreflect ssrfun ssrbool eqtype ssrnat seq.
From Coq Require Import ZArith.
From LS Require Import NumOps Kernels.
Set Implicit Arguments. Unset Strict Implicit. Unset Printing Implicit Defensive.
Section Preprocess.
Context {K : Type} {ops : NumOps K}.
Local Notation vec := (seq K).
Local Notation mat := (seq (seq K)).
(* MatrixCheck: NaN / Inf cells become MISSING *)
Definition mcheck (m : mat) : mat := map (map (fun x => if kbad x then MISSINGk else x)) m.
(* the column scaling of option ty (1 SDEV, 2 RMS, 3 Pareto, 4 range, 5 level, other: 1.0) *)
Definition scale_of (ty : Z) (c : vec) (avg : K) : K :=
  if Z.eqb ty 1 then col_sdev c
  else if Z.eqb ty 2 then col_rms c
  else if Z.eqb ty 3 then ksqrt (col_sdev c)
  else if Z.eqb ty 4 then let: (mn, mx) := col_minmax c in ksub mx mn
  else if Z.eqb ty 5 then avg
  else k1.
(* fit path (colaverage and colscaling empty on entry); trans0 is what the output held *)
Definition preprocess_fit (ty : Z) (orig0 trans0 : mat) : mat * vec * vec :=
  let orig := mcheck orig0 in
  if Z.ltb ty 0 then (orig, [::], [::]) else
  let nc := ncols orig in
  let avg := mat_col_average orig in
  let sc := mkseq (fun j => scale_of ty (col orig j) (vget avg j)) nc in
  let tr := mkseq (fun i => mkseq (fun j =>
      let x := mget orig i j in
      let cen := if is_missing x then mget trans0 i j else ksub x (vget avg j) in
      let s := vget sc j in
      if float_eq s k0 (klit lit_1em3) then k0
      else if is_missing cen then cen else kdiv cen s) nc) (size orig) in
  (tr, avg, sc).
(* apply path (stored averages / scalings given): no MISSING skip, same guard EPSILON *)
Definition preprocess_apply (orig0 : mat) (avg sc : vec) : mat :=
  let orig := mcheck orig0 in
  map (fun r => mkseq (fun j =>
      let x := nth k0 r j in
      let cen := if size avg == 0 then x else ksub x (vget avg j) in
      if size sc == 0 then cen
      else if float_eq (vget sc j) k0 (klit lit_1em3) then k0 else kdiv cen (vget sc j)) (size r)) orig.
(* TensorPreprocess: block by block *)
Definition tensor_preprocess_fit (ty : Z) (t t0 : seq mat) : seq (mat * vec * vec) :=
  map (fun p => preprocess_fit ty p.1 p.2) (zip t t0).
End Preprocess.
