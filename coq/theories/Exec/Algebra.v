(* Algebra.v — executable models of MatrixInversion (Gauss–Jordan with partial pivoting) and
   MatrixDeterminant (Laplace expansion along the first row) of matrix.c. *)
From mathcomp Require Import ssreflect ssrfun ssrbool eqtype ssrnat seq.
From LS Require Import NumOps Kernels.
Set Implicit Arguments. Unset Strict Implicit. Unset Printing Implicit Defensive.
Section Algebra.
Context {K : Type} {ops : NumOps K}.
Local Notation vec := (seq K).
Local Notation mat := (seq (seq K)).
(* pivot search: first row r >= i with the largest |AI[r][i]| (strict >) *)
Definition gj_pivot (n : nat) (AI : mat) (i : nat) : nat :=
  foldl (fun piv j => if kltb (kabs (mget AI piv i)) (kabs (mget AI j i)) then j else piv) i (iota i.+1 (n - i.+1)).
Definition swap_rows (AI : mat) (i r : nat) : mat :=
  if i == r then AI else mkseq (fun x => nth [::] AI (if x == i then r else if x == r then i else x)) (size AI).
(* one column step: pivot row exchanged into place, then every row j <> i gets
   row_j - row_i * (AI[j][i]/AI[i][i]) *)
Definition gj_step (n : nat) (AI0 : mat) (i : nat) : mat :=
  let AI := swap_rows AI0 i (gj_pivot n AI0 i) in
  let ri := nth [::] AI i in
  let aii := nth k0 ri i in
  mkseq (fun j => let rj := nth [::] AI j in
                  if j == i then rj
                  else let ratio := kdiv (nth k0 rj i) aii in
                       map (fun ab => ksub ab.1 (kmul ab.2 ratio)) (zip rj ri)) n.
Definition gj_augment (M : mat) : mat :=
  let n := size M in mkseq (fun i => take n (nth [::] M i) ++ mkseq (fun j => if i == j then k1 else k0) n) n.
Definition gj_eliminate (M : mat) : mat := foldl (gj_step (size M)) (gj_augment M) (iota 0 (size M)).
Definition gj_inverse (M : mat) : mat :=
  let n := size M in
  let AI := gj_eliminate M in
  mkseq (fun i => let r := nth [::] AI i in let a := nth k0 r i in drop n (map (fun x => kdiv x a) r)) n.

(* MatrixMoorePenrosePseudoinverse: A+ = (A'A)^-1 A' with the transpose, the two products and the Gauss–Jordan inversion above
   (A is m x n, the result n x m) *)
Definition pinv (m n : nat) (A : mat) : mat :=
  let At := transpose n A in matmul m (gj_inverse (matmul n At A)) At.

(* MatrixDeterminant: sizes 1 and 2 directly, otherwise sum_k (-1)^(k+2) m[0][k] det(minor_0k) *)
Definition minor0 (M : mat) (k : nat) : mat :=
  map (fun r => take k r ++ drop k.+1 r) (behead M).
Fixpoint mdet_f (fuel : nat) (M : mat) : K :=
  match fuel with
  | 0 => MISSINGk
  | fuel'.+1 =>
    match size M with
    | 0 => MISSINGk
    | 1 => mget M 0 0
    | 2 => ksub (kmul (mget M 0 0) (mget M 1 1)) (kmul (mget M 1 0) (mget M 0 1))
    | n => foldl (fun d k => kadd d (kmul (kmul (if odd k then kopp k1 else k1) (mget M 0 k)) (mdet_f fuel' (minor0 M k))))
                 k0 (iota 0 n)
    end
  end.
Definition mdet (M : mat) : K := mdet_f (size M).+1 M.
End Algebra.
