(* Properties_C13.v — multithreaded kernels equal their sequential definition for any
   thread count.  The slicing loops and the condensed index map are REGENERATED from the C
   source on every run (Gen_Leaf.v); Gen_LeafProofs.v re-proves, per site, that the loop as
   written is one of the two canonical forms whose partition theorem is in Spec/Slicing.v. *)
From Coq Require Import List Arith ZArith Lia Permutation.
Import ListNotations.
From LS Require Import Gen_Leaf Slicing Writes Cidx Gen_LeafProofs.
(* the metric axioms of the distances are stated in Properties_C13b.v (MathComp style) *)
From LS Require Properties_C13b.

(* every slicing loop of the library, for every row count and every positive thread count
   (more threads than rows, one thread, non-dividing counts, rows = 0): the slices read in
   order are exactly 0..rows-1 — each row is processed by exactly one worker *)
Theorem C13_slices_partition :
  Forall (fun s => forall rows nth, 0 < nth -> cover (s rows nth) = seq 0 rows) all_slicers.
Proof. exact all_slicers_partition. Qed.
Theorem C13_all_sites_covered : length all_slicers = n_slicers_proved.
Proof. reflexivity. Qed.

(* workers write disjoint cells: any execution order of their per-row steps (any
   interleaving at row granularity) gives the sequential result *)
Theorem C13_mt_equals_st (V : Type) (ws ws' : list (nat * V)) (out : list V) :
  Permutation ws ws' -> NoDup (map fst ws) -> apply_writes V ws out = apply_writes V ws' out.
Proof. exact (disjoint_writes_commute V ws ws' out). Qed.

Local Open Scope Z_scope.
(* the condensed index map of the source (with size_t wrap-around made explicit) is
   injective on the strict upper triangle, lands in [0, n(n-1)/2) and is symmetric *)
Theorem C13_condensed_index_injective n i j i' j' :
  n < 2 ^ 32 -> 0 <= i < j -> j < n -> 0 <= i' < j' -> j' < n ->
  Gen_Leaf.cidx i j n = Gen_Leaf.cidx i' j' n -> i = i' /\ j = j'.
Proof.
intros Hn H1 H2 H3 H4. rewrite !cidx_gen_spec by assumption.
exact (cidx_injective n i j i' j' H1 H2 H3 H4).
Qed.
Theorem C13_condensed_index_range n i j :
  n < 2 ^ 32 -> 0 <= i < j -> j < n -> 0 <= Gen_Leaf.cidx i j n < n * (n - 1) / 2.
Proof. intros Hn H1 H2. rewrite cidx_gen_spec by assumption. exact (cidx_range n i j H1 H2). Qed.
Theorem C13_condensed_index_symmetric n i j : i < j -> Gen_Leaf.cidx j i n = Gen_Leaf.cidx i j n.
Proof. exact (cidx_gen_sym i j n). Qed.
(* injective into a set of the same size as the strict upper triangle: a bijection *)
Local Close Scope Z_scope.

(* non-vacuity / sanity: the generated loops on a concrete non-dividing case *)
Example C13_example : forall s, In s all_slicers -> s 10 4 = [(0, 3); (3, 6); (6, 9); (9, 10)].
Proof. intros s H; repeat (destruct H as [<-|H]; [reflexivity|]); destruct H. Qed.
Example C13_example_more_threads_than_rows :
  forall s, In s all_slicers -> cover (s 3 8) = [0; 1; 2].
Proof. intros s H; repeat (destruct H as [<-|H]; [reflexivity|]); destruct H. Qed.

Print Assumptions C13_slices_partition.
Print Assumptions C13_mt_equals_st.
Print Assumptions C13_condensed_index_injective.
Print Assumptions C13_condensed_index_range.
Print Assumptions C13_condensed_index_symmetric.
