(* Properties_C10.v — centring/scaling does what each option promises and is reproducible on
   new data. Statements about the executable model of MatrixPreprocess (Exec/Preprocess.v),
   which is run on binary64 against the library in every check. *)
From Coq Require Import ZArith Floats.
From mathcomp Require Import all_ssreflect all_algebra.
From LS Require Import NumOps RcfOps F64Ops Kernels Preprocess KernelsSpec PreprocessSpec PreprocessSpec2 MinMaxSpec RangeSpec Gen_Params.
Set Implicit Arguments. Unset Strict Implicit. Unset Printing Implicit Defensive.
Import Order.TTheory GRing.Theory Num.Theory.
Local Open Scope ring_scope.

Section AnyNumberSystem.
Context {K : Type} {ops : NumOps K}.
Local Notation vec := (seq K).
Local Notation mat := (seq (seq K)).
(* columns without spread (scale inside the zero guard) become exactly zero — not NaN/Inf —
   in every number system, binary64 included *)
Theorem C10_zero_spread_is_zero ty (X T0 : mat) i j : Z.le Z0 ty -> (i < size X)%N -> (j < ncols (mcheck X))%N ->
  float_eq (vget (fit_scale ty X T0) j) k0 (klit lit_1em3) -> mget (fit_trans ty X T0) i j = k0.
Proof. exact: zero_spread_is_zero. Qed.
Theorem C10_stored_are_statistics ty (X T0 : mat) : Z.le Z0 ty ->
  fit_avg ty X T0 = mat_col_average (mcheck X) /\
  fit_scale ty X T0 = mkseq (fun j => scale_of ty (col (mcheck X) j) (vget (mat_col_average (mcheck X)) j)) (ncols (mcheck X)).
Proof. exact: stored_are_statistics. Qed.
Theorem C10_copy (X T0 : mat) : preprocess_fit (Zneg xH) X T0 = (mcheck X, [::], [::]).
Proof. exact: copy_option. Qed.
(* applying stored statistics to any rows is the affine map (x - avg)/scale *)
Theorem C10_apply_affine (X : mat) (avg sc : vec) i j : (i < size X)%N -> (j < size (nth [::] (mcheck X) i))%N ->
  (0 < size avg)%N -> (0 < size sc)%N ->
  mget (preprocess_apply X avg sc) i j =
    if float_eq (vget sc j) k0 (klit lit_1em3) then k0
    else kdiv (ksub (mget (mcheck X) i j) (vget avg j)) (vget sc j).
Proof. exact: apply_cell. Qed.
Theorem C10_tensor_blockwise ty (t t0 : seq mat) k : (k < size t)%N -> size t0 = size t ->
  nth ([::], [::], [::]) (tensor_preprocess_fit ty t t0) k = preprocess_fit ty (nth [::] t k) (nth [::] t0 k).
Proof. exact: tensor_blockwise. Qed.
(* missing-coded cells do not influence mean, variance/sd, rms *)
Theorem C10_missing_independent_average (c : vec) : col_average c = col_average (filter (fun x => ~~ is_missing x) c).
Proof. exact: missing_independent_average. Qed.
Theorem C10_missing_independent_var (c : vec) : col_var c = col_var (filter (fun x => ~~ is_missing x) c).
Proof. exact: missing_independent_var. Qed.
Theorem C10_missing_independent_rms (c : vec) : col_rms c = col_rms (filter (fun x => ~~ is_missing x) c).
Proof. exact: missing_independent_rms. Qed.
End AnyNumberSystem.

Section Exact.
Variable R : rcfType.
Local Existing Instance RcfOps.
Local Notation vec := (seq R).
Local Notation mat := (seq (seq R)).
Theorem C10_zero_mean (c : vec) : cleanv c -> (0 < size c)%N ->
  ~~ float_eq (\sum_(x <- c) x) 0 (klit lit_1em6) -> \sum_(x <- c) (x - col_average c) = 0.
Proof. exact: zero_mean. Qed.
Theorem C10_fit_formula ty (X T0 : mat) i j : Z.le Z0 ty -> cleanm X -> (i < size X)%N -> (j < ncols X)%N ->
  (forall r, r \in X -> (j < size r)%N) ->
  ~~ float_eq (vget (fit_scale ty X T0) j) 0 (klit lit_1em3) ->
  cleanx (mget X i j - vget (fit_avg ty X T0) j) ->
  mget (fit_trans ty X T0) i j = (mget X i j - vget (fit_avg ty X T0) j) / vget (fit_scale ty X T0) j.
Proof. exact: fit_formula. Qed.
(* no hypothesis on the scale is needed: fit path and apply path use the same zero guard *)
Theorem C10_apply_reproduces_fit ty (X T0 : mat) i j : Z.le Z0 ty -> cleanm X -> (i < size X)%N -> (j < ncols X)%N ->
  (forall r, r \in X -> size r = ncols X) ->
  cleanx (mget X i j - vget (fit_avg ty X T0) j) ->
  mget (preprocess_apply X (fit_avg ty X T0) (fit_scale ty X T0)) i j = mget (fit_trans ty X T0) i j.
Proof. exact: apply_reproduces_fit. Qed.
(* the promised statistic: on complete data the column statistics are equivariant under the
   preprocessing map, so autoscaling gives unit standard deviation and Pareto scaling sqrt(sd) *)
Theorem C10_sdev_equivariant (c : vec) a s : cleanv c -> cleanv [seq (x - a) / s | x <- c] -> (0 < size c)%N ->
  col_sdev [seq (x - a) / s | x <- c] = col_sdev c / `|s|.
Proof. exact: col_sdev_affine. Qed.
Theorem C10_autoscaled_unit_sdev (c : vec) a : cleanv c -> (0 < size c)%N -> 0 < col_sdev c ->
  cleanv [seq (x - a) / col_sdev c | x <- c] -> col_sdev [seq (x - a) / col_sdev c | x <- c] = 1.
Proof. exact: autoscaled_unit_sdev. Qed.
Theorem C10_pareto_sdev (c : vec) a : cleanv c -> (0 < size c)%N -> 0 < col_sdev c ->
  cleanv [seq (x - a) / Num.sqrt (col_sdev c) | x <- c] ->
  col_sdev [seq (x - a) / Num.sqrt (col_sdev c) | x <- c] = Num.sqrt (col_sdev c).
Proof. exact: pareto_sdev. Qed.
(* root-mean-square scaling: the stored scaling of a complete column is sqrt(sum x^2 / n) *)
Theorem C10_rms_statistic (c : vec) : cleanv c -> col_rms c = Num.sqrt ((\sum_(x <- c) x ^+ 2) / (size c)%:R).
Proof. exact: col_rms_clean. Qed.
(* range scaling: the executable column minimum / maximum are observed cells bounding every observed cell, wherever the
   column lies (also entirely above the missing-value code, or entirely negative); so the stored range is the largest
   difference of two observed cells *)
Theorem C10_range_statistic (c : seq R) : obs c != [::] ->
  let mm := col_minmax c in
  [/\ mm.1 \in obs c, mm.2 \in obs c & all (fun y => (mm.1 <= y <= mm.2)%R) (obs c)].
Proof. exact: col_minmax_spec. Qed.
(* ... and the promised statistic of range scaling: on complete data with a positive range the transformed column
   (x - a) / (max - min) has, by the same executable routine, minimum and maximum that are the images of the original ones and
   a range of exactly 1 *)
Theorem C10_range_scaled_unit_range (c : seq R) a : cleanv c -> c != [::] ->
  let mm := col_minmax c in let s := (mm.2 - mm.1)%R in (0 < s)%R ->
  cleanv [seq ((x - a) / s)%R | x <- c] ->
  let mz := col_minmax [seq ((x - a) / s)%R | x <- c] in
  [/\ mz.1 = ((mm.1 - a) / s)%R, mz.2 = ((mm.2 - a) / s)%R & (mz.2 - mz.1 = 1)%R].
Proof. exact: range_scaled_unit_range. Qed.
End Exact.

(* the literals of the model are the constants the C source uses NOW (Gen_Params.v is
   regenerated from the source on every run): zero-scale guards of the fit and of the apply
   path, MISSING code and window, snap window of the column average *)
Theorem C10_model_constants_are_the_sources :
  [&& QArith_base.Qeq_bool (lq lit_1em3) c_prep_fit_guard, QArith_base.Qeq_bool (lq lit_1em3) c_prep_apply_guard,
      QArith_base.Qeq_bool (lq lit_MISSING) c_MISSING, QArith_base.Qeq_bool (lq lit_1em1) c_missing_window
    & QArith_base.Qeq_bool (lq lit_1em6) c_colaverage_snap] = true.
Proof. by vm_compute. Qed.

(* executions on binary64 (the instance compared with the library) *)
Local Open Scope float_scope.
Definition Xw : seq (seq float) := [:: [:: 1; 10]; [:: 2; 10]; [:: 4; 10]].
Example C10_f64_autoscale_runs :
  let: (tr, avg, sc) := preprocess_fit (ops := F64Ops) 1 Xw (zerom 3 2) in
  v_agree 0 0 avg [:: 0x1.2aaaaaaaaaaabp+1; 10] && f_agree 0 0 (nth 0 (nth [::] tr 0) 1) 0 = true.
Proof. by vm_compute. Qed.

Print Assumptions C10_zero_spread_is_zero.
Print Assumptions C10_stored_are_statistics.
Print Assumptions C10_rms_statistic.
Print Assumptions C10_range_statistic.
Print Assumptions C10_range_scaled_unit_range.
Print Assumptions C10_apply_affine.
Print Assumptions C10_tensor_blockwise.
Print Assumptions C10_missing_independent_var.
Print Assumptions C10_zero_mean.
Print Assumptions C10_fit_formula.
Print Assumptions C10_apply_reproduces_fit.
Print Assumptions C10_sdev_equivariant.
Print Assumptions C10_autoscaled_unit_sdev.
Print Assumptions C10_pareto_sdev.
