(* Properties_C06.v — validation results are deterministic under every thread schedule.
   generate_seed / xorshift128 / the state set-up of randInt and the STORAGE CLASS of the
   generator state are regenerated from numeric.c on every run (Gen_Leaf.v).  Decision form:
   with thread-local state every interleaving gives each worker its sequential stream; with a
   shared state a concrete schedule is exhibited on which it does not. *)
From Coq Require Import List Arith Lia ZArith Bool.
Import ListNotations.
From LS Require Import Gen_Leaf Sched.
Local Open Scope Z_scope.

(* raw 32-bit output of one draw from generator state `seed` (xorshift of the set-up state) *)
Definition draw_out (seed : Z) : Z := fst (xorshift128 (fst (randInt_setup seed))).
Definition next_state (seed : Z) : Z := snd (randInt_setup seed).
Definition seq_outs (script : list op) (c0 : Z) : list Z := snd (seq_run generate_seed draw_out c0 script).
Definition impl_outs := worker_outs generate_seed draw_out rng_state_thread_local.
Definition impl_done := worker_done generate_seed draw_out rng_state_thread_local.

(* the state written back by a draw is generate_seed of the old state (so `gen` above is the
   regenerated generate_seed for both Srand and Draw) *)
Theorem C06_draw_advances_by_generate_seed : forall s, next_state s = generate_seed s.
Proof. intros s; reflexivity. Qed.

(* for ALL worker scripts, ALL schedules (any number of workers, any interleaving of their
   random-number calls): a worker that has finished its script has drawn exactly the stream it
   draws when run alone *)
Theorem C06_sound : rng_state_thread_local = true ->
  forall (script : nat -> list op) (c0 : Z) (sched : list nat) (w : nat),
    impl_done script c0 sched w = true -> impl_outs script c0 sched w = seq_outs (script w) c0.
Proof.
intros Htls script c0 sched w. unfold impl_done, impl_outs, worker_done, worker_outs, seq_outs. rewrite Htls.
intros Hd. apply (tls_schedule_independent generate_seed draw_out script (fun _ => c0) sched w).
cbv zeta. destruct (todo _); [reflexivity|discriminate].
Qed.

(* the witness: two workers, seeds 1 and 2, three draws each, alternating schedule *)
Definition wit_script (w : nat) : list op :=
  match w with O => [Srand 1; Draw; Draw; Draw] | S O => [Srand 2; Draw; Draw; Draw] | _ => [] end.
Definition wit_sched : list nat := [0; 1; 0; 1; 0; 1; 0; 1]%nat.
Definition list_Z_eqb (a b : list Z) : bool := if list_eq_dec Z.eq_dec a b then true else false.

Theorem C06_complete : rng_state_thread_local = false ->
  exists script c0 sched w, impl_done script c0 sched w = true /\ impl_outs script c0 sched w <> seq_outs (script w) c0.
Proof.
intros Hsh. exists wit_script, 0, wit_sched, 0%nat.
unfold impl_done, impl_outs, worker_done, worker_outs, seq_outs. rewrite Hsh. split.
- vm_compute. reflexivity.
- vm_compute. intros E. discriminate E.
Qed.

(* clock path: a generator state 0 makes the next draw consult time(); generate_seed is a
   bijection on 32-bit words (odd multiplier), so exactly one state is mapped to 0 *)
Definition zero_preimage : Z := generate_seed_zero_preimage_hint.
Definition clock_reachable_after_seeding : bool := generate_seed zero_preimage =? 0.

(* non-vacuity: the hypothesis of C06_sound's conclusion is met by a concrete run *)
Example C06_example_done :
  worker_done generate_seed draw_out true wit_script 0 wit_sched 0%nat = true /\
  worker_outs generate_seed draw_out true wit_script 0 wit_sched 0%nat = seq_outs (wit_script 0%nat) 0.
Proof. split; vm_compute; reflexivity. Qed.

Print Assumptions C06_sound.
Print Assumptions C06_complete.
