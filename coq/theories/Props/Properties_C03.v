(* Properties_C03.v — PLS (NIPALS) structural identities for every X, Y, LV count.
   Layer 1: theorems about PLS deflation sequences over any real closed field, valid after ANY
   number of inner iterations and for any Y (the weight vector is any unit vector of the row
   space of the current X-residual).  Layer 2: statements about the executable model
   (Exec/Pls.v, run on binary64 against the library): residual columns.
   Partial: the refinement of lv_calc to the sequence hypotheses is validated by the
   correspondence, not proved; score round trip and recalculated-y layout are validated. *)
From Coq Require Import ZArith Floats.
From mathcomp Require Import all_ssreflect all_algebra.
From LS Require Import NumOps RcfOps F64Ops Kernels Preprocess Pca Pls KernelsSpec PlsSpec PlsRefine Gen_Params.
From LS Require NipalsSpec.
From LS Require Import PlsFit.
Set Implicit Arguments. Unset Strict Implicit. Unset Printing Implicit Defensive.
Import Order.TTheory GRing.Theory Num.Theory.
Local Open Scope ring_scope.

Section Sequences.
Variable R : rcfType.
Variables n m a : nat.
Variable Xk : nat -> 'M[R]_(n,m).
Variable wk : nat -> 'cV[R]_m.
Local Notation t k := (tk Xk wk k).
Local Notation p k := (pk Xk wk k).
Hypothesis X_step : forall k, (k < a)%N -> Xk k.+1 = Xk k - t k *m (p k)^T.
Hypothesis w_unit : forall k, (k < a)%N -> (wk k)^T *m wk k = 1%:M.
Hypothesis w_row : forall k, (k < a)%N -> exists c : 'cV[R]_n, wk k = (Xk k)^T *m c.
Hypothesis nondeg : forall k, (k < a)%N -> PlsSpec.dot (t k) (t k) != 0.

Theorem C03_scores_orthogonal j k : (j < k)%N -> (k < a)%N -> (t j)^T *m t k = 0.
Proof. exact: (scores_orthogonal X_step nondeg). Qed.
Theorem C03_weights_orthogonal j k : (j < k)%N -> (k < a)%N -> (wk k)^T *m wk j = 0.
Proof. exact: (weights_orthogonal X_step w_row nondeg). Qed.
Theorem C03_x_decomposition k : (k <= a)%N -> Xk 0 = \sum_(j < k) t j *m (p j)^T + Xk k.
Proof. exact: (x_decomposition X_step). Qed.
(* p_k' w_k = 1 and p_k' w_j = 0 for j < k: the facts behind the score round trip
   (re-projecting X through weights and loadings reproduces the scores) *)
Theorem C03_pw_unit k : (k < a)%N -> (p k)^T *m wk k = 1%:M.
Proof. exact: (pw1 nondeg). Qed.
Theorem C03_pw_upper j k : (j < k)%N -> (k < a)%N -> (p k)^T *m wk j = 0.
Proof. exact: (pw_upper X_step nondeg). Qed.
End Sequences.

Section YSide.
Variable R : rcfType.
(* b t q' is exactly the orthogonal projection of Y on t (q proportional to Y't) *)
Theorem C03_y_deflation_is_projection n ny (Y : 'M[R]_(n,ny)) (t : 'cV[R]_n) (q : 'cV[R]_ny) (c : R) :
  PlsSpec.dot t t != 0 -> q = c *: (Y^T *m t) -> (q^T *m q) 0 0 != 0 ->
  let u := ((q^T *m q) 0 0)^-1 *: (Y *m q) in
  let b := PlsSpec.dot u t / PlsSpec.dot t t in
  b *: (t *m q^T) = (PlsSpec.dot t t)^-1 *: (t *m (t^T *m Y)).
Proof. exact: ydefl_is_projection. Qed.
End YSide.

Section Model.
Context {K : Type} {ops : NumOps K}.
(* recalc_residuals, column c of the LV-major layout (c = ny*(a-1)+j): recalculated minus the
   observed response of the SAME response index j = c mod ny — in every number system *)
Theorem C03_residual_columns (rec my : seq (seq K)) ny i c :
  (i < size rec)%N -> (i < size my)%N -> (c < size (nth [::] rec i))%N ->
  nth k0 (nth [::] (pls_residuals rec my ny) i) c
  = ksub (nth k0 (nth [::] rec i) c) (nth k0 (nth [::] my i) (c %% ny)).
Proof.
move=> ir im cs; rewrite /pls_residuals (nth_map ([::], [::])) ?size_zip ?leq_min ?ir ?im //.
by rewrite nth_zip_cond size_zip leq_min ir im /= nth_mkseq.
Qed.
End Model.

(* the EXECUTABLE LVCalc meets the hypotheses of the sequence theorems above: whatever the inner loop
   returns comes from one pass; the weight vector of a pass is a unit vector of the row space of the
   current X residual and the score is t = X w; the deflation the code performs (normalised loading,
   rescaled score) is X - t p' with p = X't / t't *)
Section Refinement.
Variable R : rcfType.
Local Existing Instance RcfOps.
Theorem C03_loop_returns_a_pass fuel loop (X Y : seq (seq R)) (u told : seq R) w t q u' it : size u = size X ->
  lv_loop fuel loop X Y u told = Ok (w, t, q, u', it) ->
  exists2 u0, size u0 = size X & lv_pass X Y u0 = (w, t, q, u').
Proof. exact: lv_loop_from_pass. Qed.
Theorem C03_pass_weight_unit_rowspace n m (X Y : seq (seq R)) (u : seq R) :
  wf n m X -> (0 < n)%N -> size u = n -> cleanm X -> cleanv u ->
  let p2 := map (fun x => x / vdot u u) (vecmat_into X u (zeros m)) in
  let: (w, t, q, u') := lv_pass X Y u in
  cleanv p2 -> cleanv w -> NipalsSpec.dot (cv_of m p2) (cv_of m p2) != 0 ->
  [/\ (cv_of m w)^T *m cv_of m w = 1%:M, exists c, cv_of m w = (mx_of n m X)^T *m c
    & cv_of n t = mx_of n m X *m cv_of m w].
Proof. exact: lv_pass_unit_rowspace. Qed.
Theorem C03_code_deflation n m (X : seq (seq R)) (t : seq R) : wf n m X -> size t = n -> cleanm X -> cleanv t ->
  let p1 := vdivs (vecmat_into X t (zeros m)) (vdot t t) in
  cleanv p1 -> vmodule p1 != 0 ->
  [/\ cv_of m p1 = (NipalsSpec.dot (cv_of n t) (cv_of n t))^-1 *: ((mx_of n m X)^T *m cv_of n t),
      cv_of m (vnormalize p1) = (vmodule p1)^-1 *: cv_of m p1 &
      mx_of n m (deflate X (vmuls t (vmodule p1)) (vnormalize p1)) = mx_of n m X - cv_of n t *m (cv_of m p1)^T].
Proof. exact: lv_deflation. Qed.
End Refinement.

Theorem C03_threshold_is_the_sources : QArith_base.Qeq_bool (lq lit_PLSCONV) c_PLSCONVERGENCE = true.
Proof. by vm_compute. Qed.

(* the decomposition clause for the EXECUTABLE fit, every run that returns, any number of latent variables, any data and any
   number of inner iterations: X = sum_k t_k p_k' + X_res with the scores and x-loadings the model stores *)
Theorem C03_executable_x_decomposition (R : rcfType) n m fuel nlv (X Y : seq (seq R)) (acc lvs : seq (lv (K := R))) Xr Yr :
  wf n m X -> (0 < n)%N -> pls_components (ops := RcfOps R) fuel nlv X Y acc = Ok (lvs, Xr, Yr) ->
  exists new : seq lv,
    [/\ lvs = rev acc ++ new, size new = nlv, wf n m Xr,
        all (fun l => (size (lv_t l) == n) && (size (lv_p l) == m)) new &
        mx_of n m X = (\sum_(k < nlv) cv_of n (lv_t (nth (Lv [::] [::] [::] [::] [::] 0 [::] [::] 0) new k)) *m
                                     (cv_of m (lv_p (nth (Lv [::] [::] [::] [::] [::] 0 [::] [::] 0) new k)))^T
                      + mx_of n m Xr)%R].
Proof. exact: pls_components_x_decomposition. Qed.
Print Assumptions C03_scores_orthogonal.
Print Assumptions C03_weights_orthogonal.
Print Assumptions C03_x_decomposition.
Print Assumptions C03_executable_x_decomposition.
Print Assumptions C03_pw_upper.
Print Assumptions C03_y_deflation_is_projection.
Print Assumptions C03_residual_columns.
Print Assumptions C03_loop_returns_a_pass.
Print Assumptions C03_pass_weight_unit_rowspace.
Print Assumptions C03_code_deflation.
