(* Properties_C20.v — the Python bindings describe exactly the C structures and functions.
   Gen_Abi.v is REGENERATED from src/*.h and src/python_bindings/libscientific/*.py on every
   run; `ok` is evaluated by the kernel over those tables.  Decision form: the theorems
   below hold for both values of `ok`; the run prints which one the current tree yields. *)
From Coq Require Import String List Bool Arith.
Import ListNotations.
From LS Require Import Abi AbiSpec Gen_Abi.

Definition ok : bool := abi_ok c_structs py_structs c_protos py_decls name_map.
Definition mismatches : list string := abi_mismatches c_structs py_structs c_protos py_decls name_map.

(* ok = true  ->  every ctypes structure has the fields of the C structure it mirrors, in the
   same order, with the same C types and therefore the same LP64 layout (every field is read at
   the right offset with the right width); every declared foreign function exists with the same
   arity, the same parameter kinds (pointer depth, integer width, floating type) and the same
   return kind (no truncated or misaligned argument) *)
Theorem C20_sound : ok = true ->
  (forall pn pf, In (pn, pf) py_structs ->
     exists cn cf, lookup name_map pn = Some cn /\ lookup c_structs cn = Some cf /\
       map fst pf = map fst cf /\ Forall2 (fun p c => compat name_map p c = true) (map snd pf) (map snd cf) /\
       layout (map snd pf) = layout (map snd cf) /\ layout (map snd cf) <> None) /\
  (forall fn pa pr, In (fn, (pa, pr)) py_decls ->
     exists cret cargs, lookup c_protos fn = Some (cret, cargs) /\
       (match pa with Some l => length l = length cargs /\ Forall2 (fun p c => kind_of p = kind_of c) l cargs | None => cargs = [] end) /\
       kind_of (match pr with Some t => t | None => Int 32 true end) = kind_of cret).
Proof. exact (abi_ok_sound c_structs py_structs c_protos py_decls name_map). Qed.

(* ok = false ->  the printed list is non-empty and each listed declaration really disagrees *)
Theorem C20_complete : ok = false ->
  mismatches <> [] /\
  forall n, In n mismatches ->
    (exists pf, In (n, pf) py_structs /\ struct_ok c_structs name_map (n, pf) = false) \/
    (exists d, In (n, d) py_decls /\ fun_ok c_protos (n, d) = false).
Proof. exact (abi_ok_complete c_structs py_structs c_protos py_decls name_map). Qed.

Theorem C20_check_struct_sound nm ps cs : check_struct nm ps cs = true ->
  map fst ps = map fst cs /\
  Forall2 (fun p c => compat nm p c = true) (map snd ps) (map snd cs) /\
  layout (map snd ps) = layout (map snd cs) /\ layout (map snd cs) <> None.
Proof. exact (check_struct_sound nm ps cs). Qed.

(* non-vacuity: the tables are not empty and a correct pair passes, a wrong one fails *)
Example C20_tables_nonempty : (Nat.ltb 0 (length py_structs)) && (Nat.ltb 0 (length py_decls)) && (Nat.ltb 0 (length c_protos)) = true.
Proof. reflexivity. Qed.
Example C20_checker_discriminates :
  check_fun (Some [Ptr (Named "M"); Int 64 false]) (Some Void) Void [Ptr (Named "m"); Int 64 false] = true /\
  check_fun (Some [Ptr (Named "M"); Int 64 false]) (Some Void) Void [Ptr (Named "m"); Int 32 true] = false /\
  check_fun (Some [Ptr (Named "M")]) (Some Void) Void [Ptr (Named "m"); Int 64 false] = false.
Proof. repeat split. Qed.

Print Assumptions C20_sound.
Print Assumptions C20_complete.
Print Assumptions C20_check_struct_sound.
