(* Properties_C12.v — linear solvers, inverses and factorisations. *)
From Coq Require Import Floats.
From mathcomp Require Import all_ssreflect all_algebra.
From LS Require Import NumOps RcfOps F64Ops Kernels Algebra GJ Det DetLink Lse LseSpec GjExec GjTotal PinvSpec.
Set Implicit Arguments. Unset Strict Implicit. Unset Printing Implicit Defensive.
Import Order.TTheory GRing.Theory Num.Theory.
Local Open Scope ring_scope.

(* Gauss–Jordan elimination core: sound whenever it completes (no vanishing pivot) *)
Theorem C12_gauss_jordan_sound (F : fieldType) n (M A B : 'M[F]_n) :
  gj_run M (enum 'I_n) = Some (A, B) -> normalise A B *m M = 1%:M.
Proof. exact: gj_sound. Qed.
(* a left inverse of a square matrix is also a right inverse: M * M^-1 = I *)
Theorem C12_inverse_two_sided (F : fieldType) n (M N : 'M[F]_n) : N *m M = 1%:M -> M *m N = 1%:M.
Proof. exact: mulmx1C. Qed.
(* the recursion of MatrixDeterminant (Laplace expansion along the first row) is \det *)
Theorem C12_det_laplace (R : comRingType) n (M : seq (seq R)) :
  Det.wf n n M -> Det.mdet n M = \det (Det.mx_of n n M).
Proof. exact: mdetE. Qed.
(* the EXECUTABLE determinant (with its 1x1 / 2x2 shortcuts and fuel: the code run against the
   library) is \det, over any real closed field, every size >= 1 *)
Theorem C12_executable_determinant (R : rcfType) n (M : seq (seq R)) : Det.wf n.+1 n.+1 M ->
  Algebra.mdet (ops := RcfOps R) M = \det (Det.mx_of n.+1 n.+1 M).
Proof. exact: exec_mdetE. Qed.
(* the EXECUTABLE Gauss-Jordan inversion (pivot search, row exchange, elimination, normalisation: the list program that
   is run against MatrixInversion), over any real closed field, every size: whenever no pivot vanishes the returned
   matrix times the input is the identity *)
Theorem C12_executable_inverse (R : rcfType) n (M : seq (seq R)) : RcfOps.wf n n M ->
  (forall i, (i < n)%N -> pivot_of n (state n M i) i != 0) ->
  RcfOps.mx_of n n (gj_inverse M) *m RcfOps.mx_of n n M = 1%:M.
Proof. exact: gj_inverse_mx. Qed.
(* ... and for EVERY invertible matrix of every size no pivot vanishes (the pivot search returns a row of largest modulus; a zero
   pivot would make the input annihilate a non-zero vector): the executable inversion is total on the property's domain and
   returns the inverse, including when leading entries are zero and rows must be exchanged *)
Theorem C12_executable_inverse_pivots (R : rcfType) n (M : seq (seq R)) : RcfOps.wf n n M -> RcfOps.mx_of n n M \in unitmx ->
  forall i, (i < n)%N -> pivot_of n (state n M i) i != 0.
Proof. exact: gj_pivots_nonzero. Qed.
Theorem C12_executable_inverse_total (R : rcfType) n (M : seq (seq R)) : RcfOps.wf n n M -> RcfOps.mx_of n n M \in unitmx ->
  RcfOps.mx_of n n (gj_inverse M) = invmx (RcfOps.mx_of n n M).
Proof. exact: gj_inverse_total. Qed.
(* the pseudo-inverse: for every m x n matrix with invertible A'A (full column rank) the EXECUTABLE MatrixMoorePenrosePseudoinverse
   (transpose, two products, the pivoting inversion above) computes (A'A)^-1 A' and satisfies the four Penrose conditions *)
Theorem C12_pseudoinverse_penrose (R : rcfType) m n (A : seq (seq R)) : RcfOps.wf m n A ->
  (RcfOps.mx_of m n A)^T *m RcfOps.mx_of m n A \in unitmx ->
  let Am := RcfOps.mx_of m n A in let P := RcfOps.mx_of n m (pinv m n A) in
  [/\ Am *m P *m Am = Am, P *m Am *m P = P, (Am *m P)^T = Am *m P & (P *m Am)^T = P *m Am].
Proof. exact: pinv_exec_penrose. Qed.
(* SolveLSE, the EXECUTABLE model (pre-pass, elimination with partial pivoting, back substitution into the
   caller's vector), over any real closed field and every size n:
   - the pre-pass and the elimination keep the solution set of [A | b], whatever the matrix;
   - the eliminated coefficient part is upper triangular, whatever the matrix;
   - when no pivot of the eliminated system is zero, what is returned solves A x = b, and it does not depend on
     what the solution vector held before the call *)
Theorem C12_solve_lse_keeps_the_solution_set (R : rcfType) n (M : seq (seq R)) x : wfa n M ->
  msat n (lse_eliminate (lse_pre M)) x <-> msat n M x.
Proof.
move=> wM; have [wP eP] := lse_pre_ok x wM; have [_ eE] := lse_eliminate_ok x wP.
by rewrite eE eP.
Qed.
Theorem C12_solve_lse_triangular (R : rcfType) n (M : seq (seq R)) : wfa n M ->
  tri_upto n (lse_eliminate (lse_pre M)) n.
Proof. by move=> wM; have [wP _] := lse_pre_ok [::] wM; exact: lse_eliminate_tri. Qed.
Theorem C12_solve_lse_solves (R : rcfType) n (M : seq (seq R)) (s0 : seq R) : wfa n M ->
  (forall i, (i < n)%N -> mget (lse_eliminate (lse_pre M)) i i != 0) -> msat n M (solve_lse M s0).
Proof. exact: solve_lse_correct. Qed.
Theorem C12_solve_lse_ignores_previous_contents (R : rcfType) n (M : seq (seq R)) (s0 s1 : seq R) : wfa n M ->
  (forall i, (i < n)%N -> mget (lse_eliminate (lse_pre M)) i i != 0) -> solve_lse M s0 = solve_lse M s1.
Proof. exact: solve_lse_independent_of_previous_contents. Qed.
Theorem C12_det_multiplicative (R : comRingType) n (A B : 'M[R]_n) : \det (A *m B) = \det A * \det B.
Proof. exact: det_mulmx. Qed.

Local Open Scope float_scope.
(* with row exchange the model inverts matrices whose leading entries vanish *)
Example C12_f64_pivoting :
  m_agree 0 0 (gj_inverse (ops := F64Ops) [:: [:: 0; 1]; [:: 1; 0]]) [:: [:: 0; 1]; [:: 1; 0]] = true.
Proof. by vm_compute. Qed.
Example C12_f64_det :
  f_agree 0 0 (Algebra.mdet (ops := F64Ops) [:: [:: 2; 0; 1]; [:: 1; 3; 2]; [:: 1; 1; 4]]) 18 = true.
Proof. by vm_compute. Qed.

Print Assumptions C12_gauss_jordan_sound.
Print Assumptions C12_det_laplace.
Print Assumptions C12_executable_inverse.
Print Assumptions C12_executable_inverse_pivots.
Print Assumptions C12_executable_inverse_total.
Print Assumptions C12_pseudoinverse_penrose.
Print Assumptions C12_solve_lse_keeps_the_solution_set.
Print Assumptions C12_solve_lse_solves.
Print Assumptions C12_solve_lse_ignores_previous_contents.
Print Assumptions C12_det_multiplicative.
Print Assumptions C12_executable_determinant.
