(* Properties_C18.v — model fitting terminates with finite leading components on degenerate data.
   Structural facts (bounded loops) hold by construction of the models; for the three NIPALS
   loops the statement "returns after a bounded number of iterations" is REFUTED on the faithful
   model: with a null component (rank-deficient X, constant response, constant block) every
   quantity becomes NaN and `NaN < tol` is false for ever.  The witnesses below are evaluated by
   the kernel on the binary64 instance; the NaN lemmas (standard library FloatAxioms) turn the
   bounded run into "never exits". *)
From Coq Require Import ZArith Floats.
From mathcomp Require Import ssreflect ssrfun ssrbool eqtype ssrnat seq.
From LS Require Import NumOps F64Ops Kernels Preprocess Pca Pls Cpca Simplex Nan.
Local Open Scope float_scope.

(* the exit test of every NIPALS loop is `calc_convergence ... < tol`; on NaN it is false *)
Theorem C18_nan_never_passes_exit_test (conv tol : float) : is_nan conv = true -> (conv <? tol) = false.
Proof. exact (nan_ltb_false conv tol). Qed.
Theorem C18_nan_absorbing (x y : float) : is_nan x = true ->
  is_nan (x + y) = true /\ is_nan (x * y) = true /\ is_nan (x / y) = true /\ is_nan (y - x) = true.
Proof. intros H; repeat split; [exact (nan_add_l x y H)|exact (nan_mul_l x y H)|exact (nan_div_l x y H)|exact (nan_sub_r y x H)]. Qed.

(* rank-1 4x3 matrix, three components requested: the second component never converges *)
Definition Xrank1 : seq (seq float) := [:: [:: 1; 2; 3]; [:: 2; 4; 6]; [:: 3; 6; 9]; [:: 5; 10; 15]].
Theorem C18_pca_nontermination_refuted :
  (match pca_fit (ops := F64Ops) 3000 (Zneg xH) 3 Xrank1 with Err Fuel => true | _ => false end) = true.
Proof. by vm_compute. Qed.
(* ... while one component (<= rank) is extracted and is finite *)
Example C18_pca_leading_component_ok :
  (match pca_fit (ops := F64Ops) 3000 (Zneg xH) 1 Xrank1 with
   | Ok M => all (fun v => all (fun x => negb (kbad x)) v) (pm_scores M) && all (fun x => negb (kbad x)) (pm_varexp M)
   | Err _ => false end) = true.
Proof. by vm_compute. Qed.
(* constant response: u = 0, w = 0/0 *)
Theorem C18_pls_constant_response_refuted :
  (match pls_fit (ops := F64Ops) 3000 (Zpos xH) Z0 1 [:: [:: 1; 2]; [:: 2; 1]; [:: 3; 5]; [:: 4; 3]] [:: [:: 7]; [:: 7]; [:: 7]; [:: 7]]
   with Err Fuel => true | _ => false end) = true.
Proof. by vm_compute. Qed.
(* a constant block in CPCA: the kernels skip NaN products, the loop exits, but the block's
   explained variance is 0/0 = NaN instead of 0 *)
Theorem C18_cpca_constant_block_nan_refuted :
  (match cpca_fit (ops := F64Ops) 3000 Z0 1 [:: [:: [:: 1; 2]; [:: 2; 1]; [:: 3; 5]; [:: 4; 3]]; [:: [:: 5]; [:: 5]; [:: 5]; [:: 5]]]
   with Ok M => has (fun c => has is_nan (cc_bev c)) (cm_comps M) | _ => false end) = true.
Proof. by vm_compute. Qed.

(* the simplex optimiser and the fuelled loops are bounded by construction: nm_loop recurses
   structurally on its iteration budget *)
Theorem C18_nm_bounded (f : seq float -> float) dim beta gamma delta xtol s :
  nm_loop f 0 dim beta gamma delta xtol s = s.
Proof. by []. Qed.

Print Assumptions C18_nan_never_passes_exit_test.
Print Assumptions C18_nan_absorbing.
Print Assumptions C18_pca_nontermination_refuted.
