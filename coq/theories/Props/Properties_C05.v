(* Properties_C05.v — cross-validation predictions are out-of-sample and cover every object once.
   The pseudo-random stream is the one REGENERATED from numeric.c (Gen_Leaf.v). *)
From Coq Require Import List Arith Lia ZArith Permutation.
Import ListNotations.
From LS Require Import Gen_Leaf CV Gen_LeafProofs CvSpec.
From LS Require CvSpec2.
From LS Require Gen_Shape Shapes.

(* for EVERY stream of draws in range the rejection sampler — when it returns — has placed every
   object index exactly once (a permutation of 0..nobj-1) *)
Theorem C05_generator_partition_any_stream nobj (stream : nat -> nat) slots fuel l :
  (forall i, stream i < nobj) -> nobj <= slots ->
  fill nobj stream slots fuel 0 [] = Some l -> Permutation l (seq 0 nobj).
Proof. intros Hr Hs H. exact (groups_partition nobj stream Hr slots fuel l Hs H). Qed.
(* in particular for the library's own generator, every seed *)
Theorem C05_generator_partition seed nobj slots fuel l : 0 < nobj -> (Z.of_nat nobj < 2 ^ 31)%Z ->
  nobj <= slots -> fill nobj (real_stream seed nobj) slots fuel 0 [] = Some l -> Permutation l (seq 0 nobj).
Proof. exact (real_groups_partition seed nobj slots fuel l). Qed.
(* the sampler these theorems are about is the one in the source: its syntax tree, regenerated from
   src/modelvalidation.c on every run, is the tree CV.fill was transcribed from *)
Theorem C05_sampler_is_the_transcribed_routine :
  Gen_Shape.shape_random_kfold_group_generator = Shapes.transcribed_random_kfold_group_generator.
Proof. reflexivity. Qed.
(* training and test parts of a split are disjoint and together exhaust the group matrix *)
Theorem C05_split_partition (gid : list (list Z)) g : g < length gid ->
  Permutation (fst (split_ids gid g) ++ snd (split_ids gid g)) (flat_map row_ids gid).
Proof. exact (split_partition gid g). Qed.
(* leave-one-out, for ANY learner (PLS, MLR, LDA, ...): the prediction of object i does not change
   when its own response changes, and equals the prediction of the model refitted on the others *)
Theorem C05_loo_out_of_sample (X Y Mdl P : Type) (fit : list (X * Y) -> Mdl) (predict : Mdl -> X -> P) dflt i y d :
  i < length d -> loo_at X Y Mdl P fit predict dflt (set_y X Y dflt i y d) i = loo_at X Y Mdl P fit predict dflt d i.
Proof. exact (loo_out_of_sample X Y Mdl P fit predict dflt i y d). Qed.
Theorem C05_loo_equals_refit (X Y Mdl P : Type) (fit : list (X * Y) -> Mdl) (predict : Mdl -> X -> P) dflt i d :
  i < length d ->
  nth i (loo X Y Mdl P fit predict dflt d) (loo_at X Y Mdl P fit predict dflt d 0)
  = predict (fit (remove_nth X Y i d)) (fst (nth i d dflt)).
Proof. exact (loo_equals_refit X Y Mdl P fit predict dflt i d). Qed.

(* k-fold (any grouping gs : object -> group) for an ARBITRARY learner: the prediction of object i is
   unchanged when the response of any object j of i's own group changes (i itself included), and it
   is the prediction of the model fitted on exactly the objects of the other groups *)
Theorem C05_kfold_out_of_sample (X Y Mdl P : Type) (fit : list (X * Y) -> Mdl) (predict : Mdl -> X -> P) dflt i j y d gs :
  j < length gs -> nth j gs 0 = nth i gs 0 ->
  CvSpec2.kfold_at X Y Mdl P fit predict dflt (CvSpec2.set_y X Y j y d) gs i = CvSpec2.kfold_at X Y Mdl P fit predict dflt d gs i.
Proof. exact (@CvSpec2.kfold_out_of_sample X Y Mdl P fit predict dflt i j y d gs). Qed.
Theorem C05_kfold_training_set (X Y : Type) k (d : list (X * Y)) gs : length gs = length d ->
  CvSpec2.train_without X Y k d gs = map fst (filter (fun pg => negb (Nat.eqb (snd pg) k)) (combine d gs)).
Proof. exact (@CvSpec2.train_without_spec X Y k d gs). Qed.
Theorem C05_kfold_equals_refit (X Y Mdl P : Type) (fit : list (X * Y) -> Mdl) (predict : Mdl -> X -> P) dflt i d gs :
  i < length d ->
  nth i (CvSpec2.kfold X Y Mdl P fit predict dflt d gs) (CvSpec2.kfold_at X Y Mdl P fit predict dflt d gs 0) =
  predict (fit (CvSpec2.train_without X Y (nth i gs 0) d gs)) (fst (nth i d dflt)).
Proof. exact (@CvSpec2.kfold_equals_refit X Y Mdl P fit predict dflt i d gs). Qed.
(* bootstrap: any number of random groupings, per-object predictions combined by any function *)
Theorem C05_bootstrap_out_of_sample (X Y Mdl P : Type) (fit : list (X * Y) -> Mdl) (predict : Mdl -> X -> P) dflt
  (combine_p : list P -> P) i y d gss : (forall gs, In gs gss -> i < length gs) ->
  CvSpec2.boot_at X Y Mdl P fit predict dflt combine_p (CvSpec2.set_y X Y i y d) gss i = CvSpec2.boot_at X Y Mdl P fit predict dflt combine_p d gss i.
Proof. exact (@CvSpec2.bootstrap_out_of_sample X Y Mdl P fit predict dflt combine_p i y d gss). Qed.

(* termination of the sampler on the seeds the library uses is decided by computation for a
   finite family: seeds 0..3, 1..8 objects, 3 groups — every run returns (within 800 draws) *)
Definition sampler_returns (seed nobj : nat) : bool :=
  match gen_groups 4000 (Z.of_nat seed) 3 nobj with Some _ => true | None => false end.
Theorem C05_sampler_terminates_on_small_seeds :
  forallb (fun s => forallb (fun n => sampler_returns s n) (seq 1 8)) (seq 0 4) = true.
Proof. vm_compute. reflexivity. Qed.

Example C05_example_groups : gen_groups 4000 7 3 7 = Some [[1; 4; 0]; [6; 3; 2]; [5; -1; -1]]%Z.
Proof. vm_compute. reflexivity. Qed.

Print Assumptions C05_generator_partition.
Print Assumptions C05_sampler_is_the_transcribed_routine.
Print Assumptions C05_split_partition.
Print Assumptions C05_loo_out_of_sample.
Print Assumptions C05_loo_equals_refit.
Print Assumptions C05_sampler_terminates_on_small_seeds.
Print Assumptions C05_kfold_out_of_sample.
Print Assumptions C05_kfold_training_set.
Print Assumptions C05_kfold_equals_refit.
Print Assumptions C05_bootstrap_out_of_sample.
