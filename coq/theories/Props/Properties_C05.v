(* Properties_C05.v — cross-validation predictions are out-of-sample and cover every object once.
   The pseudo-random stream is the one REGENERATED from numeric.c (Gen_Leaf.v). *)
From Coq Require Import List Arith Lia ZArith Permutation.
Import ListNotations.
From LS Require Import Gen_Leaf CV Gen_LeafProofs CvSpec.

(* for EVERY stream of draws in range the rejection sampler — when it returns — has placed every
   object index exactly once (a permutation of 0..nobj-1) *)
Theorem C05_generator_partition_any_stream nobj (stream : nat -> nat) slots fuel l :
  (forall i, stream i < nobj) -> nobj <= slots ->
  fill nobj stream slots fuel 0 [] = Some l -> Permutation l (seq 0 nobj).
Proof. intros Hr Hs H. exact (groups_partition nobj stream Hr slots fuel l Hs H). Qed.
(* in particular for the library's own generator, every seed *)
Theorem C05_generator_partition seed nobj slots fuel l : 0 < nobj -> (Z.of_nat nobj < 2 ^ 31)%Z ->
  nobj <= slots -> fill nobj (real_stream seed nobj) slots fuel 0 [] = Some l -> Permutation l (seq 0 nobj).
Proof. exact (real_groups_partition seed nobj slots fuel l). Qed.
(* training and test parts of a split are disjoint and together exhaust the group matrix *)
Theorem C05_split_partition (gid : list (list Z)) g : g < length gid ->
  Permutation (fst (split_ids gid g) ++ snd (split_ids gid g)) (flat_map row_ids gid).
Proof. exact (split_partition gid g). Qed.
(* leave-one-out, for ANY learner (PLS, MLR, LDA, ...): the prediction of object i does not change
   when its own response changes, and equals the prediction of the model refitted on the others *)
Theorem C05_loo_out_of_sample (X Y Mdl P : Type) (fit : list (X * Y) -> Mdl) (predict : Mdl -> X -> P) dflt i y d :
  i < length d -> loo_at X Y Mdl P fit predict dflt (set_y X Y dflt i y d) i = loo_at X Y Mdl P fit predict dflt d i.
Proof. exact (loo_out_of_sample X Y Mdl P fit predict dflt i y d). Qed.
Theorem C05_loo_equals_refit (X Y Mdl P : Type) (fit : list (X * Y) -> Mdl) (predict : Mdl -> X -> P) dflt i d :
  i < length d ->
  nth i (loo X Y Mdl P fit predict dflt d) (loo_at X Y Mdl P fit predict dflt d 0)
  = predict (fit (remove_nth X Y i d)) (fst (nth i d dflt)).
Proof. exact (loo_equals_refit X Y Mdl P fit predict dflt i d). Qed.

(* termination of the sampler on the seeds the library uses is decided by computation for a
   finite family: seeds 0..3, 1..8 objects, 3 groups — every run returns (within 800 draws) *)
Definition sampler_returns (seed nobj : nat) : bool :=
  match gen_groups 4000 (Z.of_nat seed) 3 nobj with Some _ => true | None => false end.
Theorem C05_sampler_terminates_on_small_seeds :
  forallb (fun s => forallb (fun n => sampler_returns s n) (seq 1 8)) (seq 0 4) = true.
Proof. vm_compute. reflexivity. Qed.

Example C05_example_groups : gen_groups 4000 7 3 7 = Some [[1; 4; 0]; [6; 3; 2]; [5; -1; -1]]%Z.
Proof. vm_compute. reflexivity. Qed.

Print Assumptions C05_generator_partition.
Print Assumptions C05_split_partition.
Print Assumptions C05_loo_out_of_sample.
Print Assumptions C05_loo_equals_refit.
Print Assumptions C05_sampler_terminates_on_small_seeds.
