(* Properties_C01.v — PCA is an exact orthogonal decomposition that accounts for all the
   variance.  Two layers:
   (1) theorems about NIPALS deflation sequences over any real closed field, valid after ANY
       number of inner iterations (no convergence needed);
   (2) the refinement of the EXECUTABLE inner step (Exec/Pca.v — the definitions run on binary64
       against the library in every check) to that matrix-level step, which discharges the two
       hypotheses `unit` and `row space` for the loop as the code has it.
   Not proved (named _partial in DESIGN.md): the induction over components that chains (2) into
   (1) for the whole pca_fit function; monotonicity of the explained variances. *)
From Coq Require Import ZArith Floats.
From mathcomp Require Import all_ssreflect all_algebra.
From LS Require Import NumOps RcfOps F64Ops Kernels Preprocess Pca KernelsSpec NipalsSpec PcaRefine PcaFit Gen_Params.
Set Implicit Arguments. Unset Strict Implicit. Unset Printing Implicit Defensive.
Import Order.TTheory GRing.Theory Num.Theory.
Local Open Scope ring_scope.

Section Sequences.
Variable R : rcfType.
Variables n m a : nat.
Variable Es : nat -> 'M[R]_(n,m).   (* preprocessed data E_0 and the residuals after k deflations *)
Variable ps : nat -> 'cV[R]_m.      (* loadings *)
Hypothesis Es_step : forall k, (k < a)%N -> Es k.+1 = Es k - (Es k *m ps k) *m (ps k)^T.
Hypothesis ps_unit : forall k, (k < a)%N -> (ps k)^T *m ps k = 1%:M.
Hypothesis ps_row : forall k, (k < a)%N -> exists c : 'cV[R]_n, ps k = (Es k)^T *m c.
Local Notation P := (Pmx ps a).
Local Notation t k := (ts Es ps k).

Theorem C01_loadings_orthonormal : P^T *m P = 1%:M.
Proof. exact: (loadings_orthonormal Es_step ps_unit ps_row). Qed.
(* scores are the successive projections of the residual onto the loadings: t_k = E_k p_k,
   and preprocessed data = scores x loadings^T + residual *)
Theorem C01_decomposition k : (k <= a)%N -> Es 0 = \sum_(j < k) t j *m (ps j)^T + Es k.
Proof. exact: (decomposition Es_step). Qed.
Theorem C01_residual_orthogonal : Es a *m P = 0.
Proof. exact: (residual_orthogonal Es_step ps_unit ps_row). Qed.
(* explained sums of squares are non-negative, add up to at most the total ... *)
Theorem C01_pythagoras k : (k <= a)%N -> fro2 (Es 0) = \sum_(j < k) fro2 (t j) + fro2 (Es k).
Proof. exact: (pythagoras_sum Es_step ps_unit). Qed.
Theorem C01_explained_nonneg k : 0 <= fro2 (t k).
Proof. exact: fro2_ge0. Qed.
Theorem C01_explained_sum_le_total k : (k <= a)%N -> \sum_(j < k) fro2 (t j) <= fro2 (Es 0).
Proof. exact: (explained_le_total Es_step ps_unit). Qed.
(* ... and to exactly the total when all components are taken: the residual vanishes *)
Theorem C01_all_components : a = m -> Es a = 0.
Proof. exact: (all_components Es_step ps_unit ps_row). Qed.
Theorem C01_all_variance_explained : a = m -> \sum_(j < a) fro2 (t j) = fro2 (Es 0).
Proof.
move=> am; rewrite (pythagoras_sum Es_step ps_unit (leqnn a)) (all_components Es_step ps_unit ps_row am).
by rewrite /fro2 mulmx0 mxtrace0 addr0.
Qed.
End Sequences.

Section Step.
Variable R : rcfType.
Local Existing Instance RcfOps.
(* the executable inner step of PCA returns a unit loading in the row space of the residual and
   the score E p — for the loop exactly as the code has it *)
Theorem C01_inner_step_unit_rowspace n m (E : seq (seq R)) (t p : seq R) :
  wf n m E -> size t = n -> size p = m -> cleanm E -> cleanv t ->
  let p2 := map (fun x => x / vdot t t) (vecmat_into E t (zeros (size p))) in
  let: (p3, t2, mod_t) := pca_inner_step E t p in
  cleanv p2 -> cleanv p3 ->
  dot (cv_of m p2) (cv_of m p2) != 0 ->
  [/\ (cv_of m p3)^T *m cv_of m p3 = 1%:M,
      exists c, cv_of m p3 = (mx_of n m E)^T *m c
    & cv_of n t2 = mx_of n m E *m cv_of m p3].
Proof. exact: pca_inner_step_unit_rowspace. Qed.
End Step.

(* the convergence threshold of the model is the one the source defines now *)
Theorem C01_threshold_is_the_sources : QArith_base.Qeq_bool (lq lit_PCACONV) c_PCACONVERGENCE = true.
Proof. by vm_compute. Qed.

(* non-vacuity + the binary64 instance runs: a 4x3 matrix, 2 components *)
Local Open Scope float_scope.
Definition Xex : seq (seq float) := [:: [:: 1; 2; 3]; [:: 2; 1; 0]; [:: 4; 4; 1]; [:: 0; 3; 5]].
Example C01_f64_runs :
  match pca_fit (ops := F64Ops) 1000%N (Zpos xH) 2%N Xex with
  | Ok M => (size (pm_scores M) == 2%N) && (size (pm_loadings M) == 2%N) && (pm_iters M == [:: 24%N; 3%N])
  | Err _ => false end = true.
Proof. by vm_compute. Qed.

(* the decomposition clause for the EXECUTABLE fit, for every run that returns (any data, missing
   codes included, any number of inner iterations): E = sum_k t_k p_k' + E_res exactly *)
Section ExecutableFit.
Variable R : rcfType.
Local Existing Instance RcfOps.
Theorem C01_executable_decomposition n m fuel npc (E : seq (seq R)) (told : seq R) T P D ev Er its :
  wf n m E -> (0 < n)%N ->
  pca_components fuel npc E told [::] [::] [::] [::] [::] = Ok (T, P, D, ev, Er, its) ->
  [/\ size T = npc, size P = npc, wf n m Er &
      mx_of n m E = (\sum_(k < npc) cv_of n (nth [::] T k) *m (cv_of m (nth [::] P k))^T + mx_of n m Er)%R].
Proof.
move=> wE n0 /(pca_components_decomposition wE n0) [Tn [Pn [-> -> [sT sP] wEr dec]]].
by split.
Qed.
End ExecutableFit.

Print Assumptions C01_loadings_orthonormal.
Print Assumptions C01_decomposition.
Print Assumptions C01_residual_orthogonal.
Print Assumptions C01_pythagoras.
Print Assumptions C01_all_components.
Print Assumptions C01_all_variance_explained.
Print Assumptions C01_inner_step_unit_rowspace.
Print Assumptions C01_executable_decomposition.
