(* Properties_C02.v — PCA components are the principal axes (spectral correctness).
   Proved: a fixed point of the documented NIPALS step is an eigenpair of E'E; the a-posteriori
   eigen-residual bound implied by the documented stopping criterion; which matrix the inner
   loop is a power iteration of — E'E as documented, I + E'E for a loop that does not clear p
   between inner iterations (the pinned code before the fix recorded in known_findings.json); the executable step refines the matrix step.
   Partial: global convergence to the k-th LARGEST eigenvector and the permutation/rotation
   equivariance are validated against an independent eigen-solver, not proved. *)
From Coq Require Import ZArith.
From mathcomp Require Import all_ssreflect all_algebra.
From LS Require Import NumOps RcfOps Kernels Pca KernelsSpec Euclid NipalsSpec PcaRefine Resid Gen_Params.
Set Implicit Arguments. Unset Strict Implicit. Unset Printing Implicit Defensive.
Import Order.TTheory GRing.Theory Num.Theory.
Local Open Scope ring_scope.

Section C02.
Variable R : rcfType.
Variables n m : nat.
Variable E : 'M[R]_(n,m).
Local Notation dotE := (@Euclid.dot R _).

(* documented step from t_old: p = E't_old/|E't_old|, t = E p *)
Theorem C02_fixed_point_is_eigenpair (t_old : 'cV[R]_n) :
  dotE (E^T *m t_old) (E^T *m t_old) != 0 ->
  let mu := Num.sqrt (dotE (E^T *m t_old) (E^T *m t_old)) in
  let p := mu^-1 *: (E^T *m t_old) in
  E *m p = t_old -> E^T *m E *m p = mu *: p.
Proof. by move=> nz mu p e; exact: (fixed_point_is_eigenpair nz e). Qed.

(* accuracy implied by the criterion |t - t_old|^2 <= eps |t|^2 at loop exit
   (the code uses eps = PCACONVERGENCE * n) *)
Theorem C02_residual_bound (t_old : 'cV[R]_n) eps :
  dotE (E^T *m t_old) (E^T *m t_old) != 0 ->
  let mu := Num.sqrt (dotE (E^T *m t_old) (E^T *m t_old)) in
  let p := mu^-1 *: (E^T *m t_old) in
  let t := E *m p in
  0 <= eps -> dotE (t - t_old) (t - t_old) <= eps * dotE t t ->
  dotE (E^T *m E *m p - mu *: p) (E^T *m E *m p - mu *: p) <= Resid.fro2 E * (eps * dotE t t).
Proof. by move=> nz mu p t e0 crit; exact: (residual_bound nz e0 crit). Qed.

(* which matrix the inner loop iterates.  With t = E p (p a unit vector):
   documented:  p_next is parallel to  E'E p          -> component along an eigenvector v scales by lambda
   p not cleared: p_next is parallel to p + E'E p     -> it scales by 1 + lambda *)
Theorem C02_power_iteration_documented (p v : 'cV[R]_m) (lambda : R) :
  E^T *m E *m v = lambda *: v -> v^T *m (E^T *m (E *m p)) = lambda *: (v^T *m p).
Proof.
move=> ev; rewrite !mulmxA.
have -> : v^T *m E^T *m E = (E^T *m E *m v)^T by rewrite !trmx_mul trmxK mulmxA.
by rewrite ev linearZ /= -scalemxAl.
Qed.
Theorem C02_power_iteration_uncleared (p v : 'cV[R]_m) (lambda : R) :
  E^T *m E *m v = lambda *: v -> v^T *m (p + E^T *m (E *m p)) = (1 + lambda) *: (v^T *m p).
Proof. by move=> ev; rewrite mulmxDr (C02_power_iteration_documented p ev) scalerDl scale1r. Qed.
End C02.

(* contraction ratio of the two iterations for eigenvalues l1 >= l2 >= 0: l2/l1 (documented)
   against (1+l2)/(1+l1) (p not cleared).  The second is never better, and it is at least
   1 - l1 WHATEVER the separation: for data of small magnitude (l1 <= 1e-3) every non-leading
   direction survives an inner iteration with factor >= 0.999, the loop stalls and the stopping
   rule fires early.  This is the formal content of finding F1. *)
Theorem C02_uncleared_rate_never_better (R : rcfType) (l1 l2 : R) :
  0 <= l2 -> l2 <= l1 -> 0 < l1 -> l2 / l1 <= (1 + l2) / (1 + l1).
Proof.
move=> l20 l21 l10; have h1 : 0 < 1 + l1 by rewrite addr_gt0 ?ltr01.
rewrite ler_pdivr_mulr // mulrAC ler_pdivl_mulr // mulrDl mul1r mulrDr mulr1.
by rewrite [l2 * l1]mulrC ler_add2r.
Qed.
Theorem C02_uncleared_rate_lower_bound (R : rcfType) (l1 l2 : R) :
  0 <= l2 -> 0 <= l1 -> 1 - l1 <= (1 + l2) / (1 + l1).
Proof.
move=> l20 l10; have h1 : 0 < 1 + l1 by rewrite ltr_paddr ?ltr01.
rewrite ler_pdivl_mulr // -subr_sqr expr1n; apply: (@le_trans _ _ 1).
  by rewrite ler_subl_addr ler_addl sqr_ge0.
by rewrite ler_addl.
Qed.

Section Step.
Variable R : rcfType.
Local Existing Instance RcfOps.
(* the executable inner step (the code as it is now) is the documented matrix-level step: the
   loop is a power iteration on E'E *)
Theorem C02_executable_step_is_documented_step n m (E : seq (seq R)) (t p : seq R) :
  wf n m E -> size t = n -> size p = m -> cleanm E -> cleanv t ->
  let p2 := map (fun x => x / vdot t t) (vecmat_into E t (zeros (size p))) in
  let: (p3, t2, mod_t) := pca_inner_step E t p in
  cleanv p2 -> cleanv p3 ->
  [/\ cv_of m p3 = step_doc (mx_of n m E) (cv_of n t),
      cv_of n t2 = (NipalsSpec.dot (cv_of m p3) (cv_of m p3))^-1 *: (mx_of n m E *m cv_of m p3)
    & mod_t = NipalsSpec.dot (cv_of n t) (cv_of n t)].
Proof. exact: pca_inner_stepE. Qed.
End Step.

(* the documented criterion is the one compiled in *)
Theorem C02_documented_criterion : QArith_base.Qeq_bool c_PCACONVERGENCE (QArith_base.Qmake 1 10000000000) = true.
Proof. by vm_compute. Qed.

Print Assumptions C02_fixed_point_is_eigenpair.
Print Assumptions C02_residual_bound.
Print Assumptions C02_power_iteration_uncleared.
Print Assumptions C02_uncleared_rate_lower_bound.
Print Assumptions C02_executable_step_is_documented_step.
