(* Properties_C09.v — CPCA super scores are the PCA scores of the block-scaled concatenation. *)
From Coq Require Import ZArith Floats.
From mathcomp Require Import all_ssreflect all_algebra.
From LS Require Import NumOps RcfOps F64Ops Kernels Preprocess Pca Cpca CpcaSpec CpcaRefine PlsSpec Gen_Params.
Set Implicit Arguments. Unset Strict Implicit. Unset Printing Implicit Defensive.
Import Order.TTheory GRing.Theory Num.Theory.
Local Open Scope ring_scope.

Section Step.
Variable R : rcfType.
Variables (n B : nat) (mb : 'I_B -> nat).
Variable X : forall b : 'I_B, 'M[R]_(n, mb b).     (* preprocessed blocks *)
Variable sf : 'I_B -> R.                            (* block scaling factors (sqrt of the widths) *)
Hypothesis sf_pos : forall b, 0 < sf b.
Variable t : 'cV[R]_n.
Hypothesis g_nz : forall b, CpcaSpec.dot (g X t b) (g X t b) != 0.
Hypothesis t_nz : CpcaSpec.dot t t != 0.
(* one CPCA super-score iteration (block loadings, block scores, super weights, super score) IS
   one NIPALS score iteration on the concatenation Xs = [X_b / sf_b]:
   t_new = Xs Xs' t / |Xs' t|   (S = Xs Xs' t, q = |Xs' t|^2) — for every t, any number of
   blocks of any widths.  Hence the fixed points coincide and the super scores are the PCA
   scores of the block-scaled concatenated data. *)
Theorem C09_step_equivalence (b0 : 'I_B) :
  t_new X sf t = (Num.sqrt (q X sf t))^-1 *: CpcaSpec.S X sf t.
Proof. exact: step_equivalence. Qed.
End Step.

Section Variance.
Variable R : rcfType.
(* block deflation E_b <- E_b - t p_b' with p_b = E_b' t / t't is an orthogonal projection, so the
   residual sum of squares of every block can only decrease: the block explained variances
   (1 - |E_b,k|^2 / |E_b,0|^2) * 100 are cumulative and non-decreasing *)
Theorem C09_block_residual_decreases n m (E : 'M[R]_(n,m)) (t : 'cV[R]_n) : PlsSpec.dot t t != 0 ->
  fro2y (E - (PlsSpec.dot t t)^-1 *: (t *m (t^T *m E))) <= fro2y E.
Proof. exact: rss_monotone. Qed.
Theorem C09_block_expvar_range (r0 rk : R) : 0 < r0 -> 0 <= rk -> rk <= r0 ->
  0 <= (1 - rk / r0) * 100%:R <= 100%:R.
Proof.
move=> r0p rk0 le; rewrite mulr_ge0 ?ler0n ?subr_ge0 ?ler_pdivr_mulr ?mul1r //=.
by rewrite -[X in _ <= X]mul1r ler_wpmul2r ?ler0n // ler_subl_addr ler_addl divr_ge0 // ltW.
Qed.
End Variance.

Theorem C09_threshold_is_the_sources : QArith_base.Qeq_bool (lq lit_CPCACONV) c_CPCACONVERGENCE = true.
Proof. by vm_compute. Qed.

(* refinement of the EXECUTABLE pass to those matrix-level objects, any real closed field, blocks without missing-coded cells:
   for every block the list program computes phat_b = (X_b' t)/|X_b' t| (the factor 1/t't cancels) and the block score
   t_b = X_b phat_b / sf_b; from the block scores TT (one row per block) it computes w = (TT t)/|TT t| and the new super score
   TT' w = sum_b w_b t_b — the quantities phat, tb, w, t_new of the step theorem above *)
Theorem C09_block_scores_refine (R : rcfType) n m (E : seq (seq R)) (t : seq R) (sf : R) :
  wf n m E -> (0 < n)%N -> size t = n -> cleanm E -> cleanv t -> (0 < NipalsSpec.dot (cv_of n t) (cv_of n t))%R ->
  let pl := block_loadings E t in
  let pb := vnormalize pl in
  let tb := map (fun x => (x / sf)%R) (matvec_into E pb (zeros (size E))) in
  cleanv (matvec_into (transpose (ncols E) E) t (zeros (ncols E))) -> cleanv pl -> cleanv pb ->
  [/\ cv_of m pl = ((NipalsSpec.dot (cv_of n t) (cv_of n t))^-1 *: ((mx_of n m E)^T *m cv_of n t))%R,
      cv_of m pb = NipalsSpec.normalize ((mx_of n m E)^T *m cv_of n t)%R &
      cv_of n tb = (sf^-1 *: (mx_of n m E *m NipalsSpec.normalize ((mx_of n m E)^T *m cv_of n t)))%R].
Proof. exact: block_scoreE. Qed.
Theorem C09_pass_refines (R : rcfType) B n (Eb : seq (seq (seq R))) (sf t : seq R) :
  let TT := block_scores Eb sf t in
  wf B n TT -> (0 < B)%N -> size t = n -> cleanm TT -> cleanv t -> (0 < NipalsSpec.dot (cv_of n t) (cv_of n t))%R ->
  let: (TT', w, t_new, mod_t) := cpca_pass Eb sf t in
  cleanv (map (fun x => (x / vdot t t)%R) (matvec_into TT t (zeros (size TT)))) -> cleanv w ->
  [/\ TT' = TT, mod_t = NipalsSpec.dot (cv_of n t) (cv_of n t),
      cv_of B w = NipalsSpec.normalize (mx_of B n TT *m cv_of n t)%R &
      cv_of n t_new = ((mx_of B n TT)^T *m NipalsSpec.normalize (mx_of B n TT *m cv_of n t))%R].
Proof. exact: cpca_pass_from_block_scores. Qed.
(* ... and that matrix form is the super score of the step theorem: with TT the B x n matrix whose rows are the block scores
   tb_b, t_new (sum over blocks) = TT' * normalised (TT t), whenever t't > 0 *)
Theorem C09_pass_is_the_spec_step (R : rcfType) (n B : nat) (mb : 'I_B -> nat) (X : forall b : 'I_B, 'M[R]_(n, mb b)) (sf : 'I_B -> R) (t : 'cV[R]_n) :
  (0 < CpcaSpec.dot t t)%R ->
  CpcaSpec.t_new X sf t = ((tbm X sf t)^T *m NipalsSpec.normalize (tbm X sf t *m t))%R.
Proof. exact: pass_is_spec_step. Qed.
Print Assumptions C09_step_equivalence.
Print Assumptions C09_block_scores_refine.
Print Assumptions C09_pass_refines.
Print Assumptions C09_pass_is_the_spec_step.
Print Assumptions C09_block_residual_decreases.
