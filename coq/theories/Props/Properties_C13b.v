(* Properties_C13b.v — C13, metric axioms: the distances computed by the model of metricspace.c,
   run over any real closed field, are metrics on vectors of equal length. *)
From mathcomp Require Import all_ssreflect all_algebra.
From LS Require Import NumOps RcfOps Kernels Distance Metric.
Set Implicit Arguments. Unset Strict Implicit. Unset Printing Implicit Defensive.
Import Order.TTheory GRing.Theory Num.Theory.
Local Open Scope ring_scope.
Section Metrics.
Variable R : rcfType.
Local Existing Instance RcfOps.
Implicit Types u v w : seq R.
Theorem C13_euclidean_metric u v w : size u = size v -> size v = size w ->
  [/\ 0 <= dist Euclidean u v, (dist Euclidean u v == 0) = (u == v), dist Euclidean u v = dist Euclidean v u &
      dist Euclidean u w <= dist Euclidean u v + dist Euclidean v w].
Proof.
by move=> s1 s2; split; [exact: euclidean_ge0 | exact: euclidean_eq0 | exact: euclidean_sym | exact: euclidean_triangle].
Qed.
Theorem C13_manhattan_metric u v w : size u = size v -> size v = size w ->
  [/\ 0 <= dist Manhattan u v, (dist Manhattan u v == 0) = (u == v), dist Manhattan u v = dist Manhattan v u &
      dist Manhattan u w <= dist Manhattan u v + dist Manhattan v w].
Proof.
by move=> s1 s2; split; [exact: manhattan_ge0 | exact: manhattan_eq0 | exact: manhattan_sym | exact: manhattan_triangle].
Qed.
End Metrics.
Print Assumptions C13_euclidean_metric.
Print Assumptions C13_manhattan_metric.
