(* Properties_C15.v — regression and classification figures of merit equal their definitions. *)
From Coq Require Import Floats.
From mathcomp Require Import all_ssreflect all_algebra.
From LS Require Import NumOps RcfOps F64Ops Kernels Stats StatsSpec RocSpec XSortSpec.
Set Implicit Arguments. Unset Strict Implicit. Unset Printing Implicit Defensive.
Import Order.TTheory GRing.Theory Num.Theory.
Local Open Scope ring_scope.

Section Regression.
Variable R : rcfType.
Local Existing Instance RcfOps.
Local Notation vec := (seq R).
Theorem C15_mse_def (yt yp : vec) : mse yt yp = (\sum_(tp <- obs yt yp) (tp.2 - tp.1) ^+ 2) / (size (obs yt yp))%:R.
Proof. exact: mse_def. Qed.
Theorem C15_mae_def (yt yp : vec) : mae yt yp = (\sum_(tp <- obs yt yp) `|tp.2 - tp.1|) / (size (obs yt yp))%:R.
Proof. exact: mae_def. Qed.
Theorem C15_r2_def (yt yp : vec) :
  let o := obs yt yp in let avg := (\sum_(tp <- o) tp.1) / (size o)%:R in
  r2 yt yp = 1 - (\sum_(tp <- o) (tp.2 - tp.1) ^+ 2) / (\sum_(tp <- o) (tp.1 - avg) ^+ 2).
Proof. exact: r2_def. Qed.
Theorem C15_perfect (y : vec) : [/\ r2 y y = 1, mse y y = 0 & mae y y = 0].
Proof. exact: perfect_prediction. Qed.
Theorem C15_r2_le_1 (yt yp : vec) : r2 yt yp <= 1.
Proof. exact: r2_le_1. Qed.
Theorem C15_rmse_sq (yt yp : vec) : rmse yt yp ^+ 2 = mse yt yp.
Proof. exact: rmse_sq. Qed.
End Regression.

Section Roc.
Variable R : rcfType.
Local Existing Instance RcfOps.
(* the executable ROC walk + trapezoid rule is the abstract walk `area` ... *)
Theorem C15_exec_auc_is_walk ntp ntn (ls : seq R) : all (fun y => ~~ is_missing y) ls ->
  curve_area ((0, 0) :: roc_walk 0 0 ntp ntn ls) = area ntp%:R ntn%:R 0 0 (map is_pos ls).
Proof. exact: exec_auc_is_walk. Qed.
(* ... which, on (label, score) records sorted by strictly descending score (no ties), is the
   Mann–Whitney probability that a positive outscores a negative *)
Theorem C15_auc_mann_whitney (P N : R) (xs : seq (bool * R)) : N != 0 -> P != 0 ->
  sorted (fun a b => sc b < sc a) xs -> area P N 0 0 (map (@lab R) xs) = (mw xs)%:R / (P * N).
Proof. exact: auc_mann_whitney. Qed.
(* the Mann–Whitney count is unchanged by strictly increasing score maps and by reordering *)
Theorem C15_mw_monotone_invariant (phi : R -> R) (xs : seq (bool * R)) :
  (forall a b, (phi a < phi b) = (a < b)) -> mw (map (fun x => (x.1, phi x.2)) xs) = mw xs.
Proof. exact: mw_monotone. Qed.
Theorem C15_mw_perm_invariant (xs ys : seq (bool * R)) : perm_eq xs ys -> mw xs = mw ys.
Proof. exact: mw_perm. Qed.
End Roc.

Local Open Scope float_scope.
Example C15_f64_auc : f_agree 0 0 (roc_auc (ops := F64Ops) [:: 1; 0; 1; 0] [:: 0.9; 0.8; 0.35; 0.1]) 0.75 = true.
Proof. by vm_compute. Qed.

Print Assumptions C15_r2_def.
Print Assumptions C15_perfect.
Print Assumptions C15_rmse_sq.
Print Assumptions C15_exec_auc_is_walk.
Print Assumptions C15_auc_mann_whitney.
Print Assumptions C15_mw_monotone_invariant.
