(* Properties_C17.v — object selection and k-means return valid, optimal-by-construction results. *)
From Coq Require Import Floats.
From mathcomp Require Import all_ssreflect all_algebra.
From LS Require Import NumOps RcfOps F64Ops Kernels Pca Distance Select SelectSpec.
From LS Require RandRange.
Set Implicit Arguments. Unset Strict Implicit. Unset Printing Implicit Defensive.
Import Order.TTheory GRing.Theory Num.Theory.

Section AnyNumbers.
Context {K : Type} {ops : NumOps K}.
(* the max-min selection (both implementations share this core) returns distinct indices taken
   from the candidates, as many as requested — for EVERY distance function and number system *)
Theorem C17_selection_valid steps (d : nat -> nat -> K) (rem sel : seq nat) : uniq (rem ++ sel) ->
  let r := greedy steps d rem sel in
  [/\ uniq r, {subset r <= rem ++ sel} & size r = (size sel + minn steps (size rem))%N].
Proof. exact: greedy_valid. Qed.
(* MaxDis and MaxDis_Fast scan candidates in the same order and take the first maximum: they
   return the same sequence whenever their distance look-ups agree (square matrix entry vs
   condensed-vector entry through the index map) *)
Theorem C17_maxdis_fast_agrees (d d' : nat -> nat -> K) X n : (forall i s, d i s = d' i s) ->
  select_maxmin d X n = select_maxmin d' X n.
Proof. exact: select_maxmin_ext. Qed.
(* k-means, in every number system (binary64 included): whatever KMeans returns after at least one
   iteration, the returned centroids are the means of the returned labelling (no cluster empty),
   the labels are indices of nearest previous centroids, all in range, one per object *)
Theorem C17_kmeans_result fuel it X (cents old : seq (seq K)) labels l c n :
  kmeans_loop fuel it X cents old labels = Some (l, c, n) ->
  (l = labels /\ c = cents /\ n = it) \/ kmeans_post X (size cents) l c.
Proof. exact: kmeans_loop_post. Qed.
(* ... and a run of KMeans itself (it starts at pass 0 with at least one unit of fuel) always does iterate:
   the result is never the untouched start state, whatever the start centroids and the units of the data *)
Theorem C17_kmeans_run fuel X (cents old : seq (seq K)) labels l c n :
  kmeans_loop fuel.+1 0 X cents old labels = Some (l, c, n) -> kmeans_post X (size cents) l c.
Proof. exact: kmeans_run_post. Qed.
Theorem C17_kmeans_labels_in_range (X : seq (seq K)) ncl l c : (0 < ncl)%N -> kmeans_post X ncl l c ->
  size l = size X /\ all (fun k => (k < ncl)%N) l.
Proof. exact: kmeans_labels_in_range. Qed.
Theorem C17_centroid_is_mean (X : seq (seq K)) labels ncl C c : centroids_of X labels ncl = Some C -> (c < ncl)%N ->
  (0 < size (members X labels c))%N /\ nth [::] C c = mean_of (ncols X) (members X labels c).
Proof. exact: centroids_of_mean. Qed.
End AnyNumbers.

Section Exact.
Local Open Scope ring_scope.
Variable R : rcfType.
Local Existing Instance RcfOps.
(* every further element maximises the minimum distance to those already chosen *)
Theorem C17_maxdis_greedy (d : nat -> nat -> R) (rem sel : seq nat) : (0 < size rem)%N ->
  let md := map (fun i => min_over d i sel) rem in
  let j := argmax_first md in
  (j < size rem)%N /\ all (fun y => y <= nth 0 md j) md.
Proof. exact: greedy_step_optimal. Qed.
(* ... in the sense of the statement: for every remaining object i there is a chosen object s
   with d(i,s) <= d(c,s') for every chosen s' — c's minimum distance is the largest *)
Theorem C17_maxmin_choice (d : nat -> nat -> R) (rem : seq nat) s0 (sel : seq nat) : (0 < size rem)%N ->
  let c := nth 0%N rem (argmax_first (map (fun i => min_over d i (s0 :: sel)) rem)) in
  c \in rem /\ forall i, i \in rem ->
     exists2 s, s \in s0 :: sel & forall s', s' \in s0 :: sel -> d i s <= d c s'.
Proof. exact: maxmin_choice. Qed.
(* the first element is an object farthest from the centroid *)
Theorem C17_first_is_farthest (X : seq (seq R)) : (0 < size X)%N ->
  let dc := (fun r => ksqrt (foldl (fun s cx => let e := ksub cx.1 cx.2 in kadd s (kmul e e)) k0 (zip (centroid_of X) r))) in
  (far_away X < size X)%N /\ all (fun r => dc r <= dc (nth [::] X (far_away X))) X.
Proof. exact: far_away_spec. Qed.
(* the labelling step assigns the index of a nearest centroid *)
Theorem C17_label_is_nearest (cents : seq (seq R)) x : (0 < size cents)%N ->
  let ed := (fun (x c : seq R) => ksqrt (foldl (fun s xc => let e := ksub xc.1 xc.2 in kadd s (kmul e e)) k0 (zip x c))) in
  (nearest cents x < size cents)%N /\ all (fun c => ed x (nth [::] cents (nearest cents x)) <= ed x c) cents.
Proof. exact: nearest_spec. Qed.
End Exact.

(* the random initialisers (random objects, k-means++ seeding) pick object indices with randInt(0, n): for the function
   REGENERATED from numeric.c on every run (Gen_Leaf.randInt_out: the raw 32-bit draw reduced into [low, high)), EVERY raw draw
   0 .. 2^32 - 1 — the largest one included — gives an index in 0 .. n-1, for every number of objects below 2^31 *)
Theorem C17_random_index_in_range : RandRange.random_index_in_range_stmt.
(* = forall x n : Z, 0 <= x < 2^32 -> 0 < n < 2^31 -> 0 <= Gen_Leaf.randInt_out x 0 n < n *)
Proof. exact: RandRange.random_index_in_range. Qed.

Local Open Scope float_scope.
Example C17_f64_both_agree :
  let X := [:: [:: 0; 0]; [:: 1; 0.5]; [:: 5; 5]; [:: 0.25; 4]; [:: 3; 1]] in
  (maxdis (ops := F64Ops) Euclidean X 4 == maxdis_fast (ops := F64Ops) Euclidean X 4) && (size (maxdis (ops := F64Ops) Euclidean X 4) == 4%N) = true.
Proof. by vm_compute. Qed.

Print Assumptions C17_selection_valid.
Print Assumptions C17_random_index_in_range.
Print Assumptions C17_maxdis_fast_agrees.
Print Assumptions C17_maxdis_greedy.
Print Assumptions C17_kmeans_result.
Print Assumptions C17_kmeans_run.
Print Assumptions C17_kmeans_labels_in_range.
Print Assumptions C17_centroid_is_mean.
Print Assumptions C17_maxmin_choice.
Print Assumptions C17_first_is_farthest.
Print Assumptions C17_label_is_nearest.
