(* Properties_C16.v — a saved model reads back equal to the model last written, whatever came
   before.  The SQLite file is modelled as a table store; numbers pass through an abstract codec
   (printf %.18f + SQLite's decimal parser), whose closeness is measured by the check. *)
From mathcomp Require Import ssreflect ssrfun ssrbool eqtype ssrnat seq.
From Coq Require Import String.
From LS Require Import IoModel IoSpec IoSpec2.
Set Implicit Arguments. Unset Strict Implicit. Unset Printing Implicit Defensive.
Local Open Scope string_scope.

Section C16.
Variable V : Type.
(* ANY history of writes (any models, any sizes, any paths) followed by a write of m to p:
   every field of m reads back exactly as written ... *)
Theorem C16_last_write_wins (h : seq (string * model V)) p (m : model V) t rows :
  uniq (map fst m) -> List.In (t, rows) m ->
  read_table t (read_file p (run_history true (rcons h (p, m)))) = rows.
Proof. exact: last_write_wins. Qed.
(* ... nothing of earlier models survives in the file ... *)
Theorem C16_nothing_else_survives (m : model V) (d : db V) t : t \notin map fst m ->
  read_table t (write_model true m d) = [::].
Proof. exact: write_leaves_nothing_else. Qed.
(* ... and other paths are not disturbed *)
Theorem C16_other_paths_untouched (s : fs V) p p' (m : model V) : p <> p' ->
  read_file p' (write_file true p m s) = read_file p' s.
Proof. exact: other_paths_untouched. Qed.
(* serialisers round-trip (matrices with their dimensions in front, vector lists with lengths) *)
Variables (ofnat : nat -> V) (tonat : V -> nat).
Hypothesis tonatK : forall n, tonat (ofnat n) = n.
Theorem C16_matrix_roundtrip r c (m : seq (seq V)) : size m = r -> all (fun row => size row == c) m ->
  deser_matrix tonat (ser_matrix ofnat r c m) = m.
Proof. exact: matrix_roundtrip. Qed.
Theorem C16_vlist_roundtrip (l : seq (seq V)) : deser_vlist tonat (ser_vlist ofnat l) = l.
Proof. exact: vlist_roundtrip. Qed.
(* tensors (CPCA block loadings/scores): order in front, every matrix with its own dimensions — any order, any shapes *)
Theorem C16_tensor_roundtrip (t : seq (nat * nat * seq (seq V))) : all (@twf V) t ->
  deser_tensor tonat (ser_tensor ofnat t) = map snd t.
Proof. exact: tensor_roundtrip. Qed.
End C16.

(* without executing the DROP statements a second write appends: the witness of the defect
   found on the pinned tree (two PCA models of different sizes written to one path) *)
Theorem C16_append_refuted :
  read_table "scores" (read_file "f" (run_history false [:: ("f", [:: ("scores", [:: 6; 2; 9])]); ("f", [:: ("scores", [:: 8; 3; 1; 2])])]))
  = [:: 6; 2; 9; 8; 3; 1; 2].
Proof. exact: append_refuted. Qed.

Print Assumptions C16_last_write_wins.
Print Assumptions C16_nothing_else_survives.
Print Assumptions C16_matrix_roundtrip.
Print Assumptions C16_vlist_roundtrip.
Print Assumptions C16_tensor_roundtrip.
