(* Properties_C14.v — containers stay memory-safe and shape-consistent under any operation history.
   Statements about the bounds-checked model Exec/Containers.v (the transcription of vector.c /
   matrix.c that the correspondence check runs against the library under ASan+UBSan).
   [ROk] excludes every error of the model: out-of-bounds read or write, read of a cell or
   row pointer never written, NULL dereference. *)
From Coq Require Import Floats.
From mathcomp Require Import all_ssreflect.
From LS Require Import NumOps F64Ops Containers ContSpec ContSpec2 ContSpec3 ContSpec4 Strings StringsSpec.
Set Implicit Arguments. Unset Strict Implicit. Unset Printing Implicit Defensive.

Section AnyNumbers.
Context {K : Type} {ops : NumOps K}.
(* ANY history of append / remove-at / set / resize / fill on a vector, with any arguments
   (positions in or out of range): no memory error, and the vector holds exactly what the
   operations define *)
Theorem C14_vector_histories ab (h : seq (@vop K)) v l : vrep v l ->
  exists2 v', vrun ab v h = ROk v' & vrep v' (foldl vop_spec l h).
Proof. exact: vector_histories. Qed.
(* ANY history of set / append-row / append-column on a matrix, the appended vectors being
   shorter than, as long as or longer than the current shape: no memory error; old cells are
   preserved, newly exposed cells are zero, counts are those the operation defines *)
Theorem C14_matrix_histories (h : seq (@mop K)) m r c A : (forall o, List.In o h -> mop_wf o) -> mrep m r c A ->
  exists2 m', mrun m h = ROk m' & let: (r', c', A') := foldl mop_spec (r, c, A) h in mrep m' r' c' A'.
Proof. exact: matrix_histories. Qed.
(* the same with EVERY single-matrix operation: fill, resize, delete row / column (position in
   range, checked along the history), set, append row / column *)
Theorem C14_matrix_histories_all (h : seq (@mop2 K)) m r c A : valid_from (r, c, A) h -> mrep m r c A ->
  exists2 m', mrun2 m h = ROk m' & let: (r', c', A') := foldl mop2_spec (r, c, A) h in mrep m' r' c' A'.
Proof. exact: matrix_histories2. Qed.
(* MatrixCopy: the destination becomes a copy of the source whatever it held before *)
Theorem C14_matrix_copy s rs cs As d rd cd Ad : mrep s rs cs As -> mrep d rd cd Ad ->
  exists2 m', m_copy s d = ROk m' & mrep m' rs cs As.
Proof. exact: m_copy_ok. Qed.
Theorem C14_delete_row m r c A row : mrep m r c A -> row < r ->
  exists2 m', m_delrow m row = ROk m' & mrep m' r.-1 c (take row A ++ drop row.+1 A).
Proof. exact: m_delrow_ok. Qed.
Theorem C14_delete_column m r c A col : mrep m r c A -> col < c ->
  exists2 m', m_delcol m col = ROk m' & mrep m' r c.-1 (map (fun row => take col row ++ drop col.+1 row) A).
Proof. exact: m_delcol_ok. Qed.
(* getMatrixRow / getMatrixColumn: a fresh vector with the row / column, nothing out of range *)
Theorem C14_get_row m r c A row : mrep m r c A ->
  if row < r then exists2 v, m_getrow m row = ROk (Some v) & vrep v (nth [::] A row) else m_getrow m row = ROk None.
Proof. exact: m_getrow_ok. Qed.
Theorem C14_get_column m r c A col : mrep m r c A ->
  if col < c then exists2 v, m_getcol m col = ROk (Some v) & vrep v [seq nth k0 row col | row <- A] else m_getcol m col = ROk None.
Proof. exact: m_getcol_ok. Qed.
Theorem C14_vector_sort v l : vrep v l -> exists2 v', v_sort v = ROk v' & vrep v' (foldr ins [::] l).
Proof. exact: v_sort_ok. Qed.
Theorem C14_new_vector n : exists2 v, v_new n = ROk v & vrep v (nseq n k0) /\ size (vdata v) = n.
Proof. exact: v_new_ok. Qed.
Theorem C14_new_matrix r c : exists2 m, m_new r c = ROk m & mrep m r c (nseq r (nseq c k0)).
Proof. exact: m_new_ok. Qed.
(* copies are deep and complete: the copy represents the source's contents, whatever the
   destination held (the model has no sharing; that the library shares nothing is what the
   per-operation dump comparison under ASan decides) *)
Theorem C14_vector_copy s ls d ld : vrep s ls -> vrep d ld -> exists2 v', v_copy s d = ROk v' & vrep v' ls.
Proof. exact: v_copy_ok. Qed.
Theorem C14_vector_extend a la b lb : vrep a la -> vrep b lb -> exists2 v', v_extend a b = ROk v' & vrep v' (la ++ lb).
Proof. exact: v_extend_ok. Qed.
(* out-of-range accessors touch nothing: clean abort / ignored / the documented sentinel *)
Theorem C14_vector_accessors_fail_safely v l i x : vrep v l -> size l <= i ->
  [/\ v_set true v i x = RErr CleanAbort, v_set false v i x = ROk v & v_get v i = RErr CleanAbort].
Proof. by move=> vr il; have [e1 e2] := v_set_out x vr il; split=> //; rewrite (v_get_ok _ vr) ltnNge il. Qed.
Theorem C14_matrix_accessors_fail_safely m r c A i j x : mrep m r c A -> ~~ ((i < r) && (j < c)) ->
  m_set m i j x = ROk m /\ m_get m i j = ROk None.
Proof. by move=> mr no; split; [exact: (m_set_out x mr no) | rewrite (m_get_ok _ _ mr) (negbTE no)]. Qed.
Theorem C14_matrix_get m r c A i j : mrep m r c A ->
  m_get m i j = ROk (if (i < r) && (j < c) then Some (nth k0 (nth [::] A i) j) else None).
Proof. exact: m_get_ok. Qed.
(* the two anchors named in the property: appending a column / a row of any length *)
Theorem C14_append_column m r c A v l : mrep m r c A -> vrep v l ->
  let nr := maxn r (size l) in
  exists2 m', m_appcol m v = ROk m' &
    mrep m' nr c.+1 (mkseq (fun i => (if i < r then nth [::] A i else nseq c k0) ++ [:: nth k0 l i]) nr).
Proof. exact: m_appcol_ok. Qed.
Theorem C14_append_row m r c A v l : mrep m r c A -> vrep v l ->
  let nc := maxn c (size l) in
  exists2 m', m_approw m v = ROk m' &
    mrep m' r.+1 nc (map (fun row => row ++ nseq (nc - c) k0) A ++ [:: l ++ nseq (nc - size l) k0]).
Proof. exact: m_approw_ok. Qed.
(* MatrixSort / MatrixReverseSort (exchange sort, rows exchanged cell by cell) on ANY matrix and any key column in range: no memory
   error whatever the cells hold and whatever the comparisons answer; same shape, same row-pointer array, every row still fully
   written (order and permutation of the rows: C11_sort_perm / C11_sort_sorted) *)
Theorem C14_matrix_sort_safe rv (m : @mat K) r c (A : seq (seq K)) col : mrep m r c A -> col < c ->
  exists2 m', m_sort rv m col = ROk m' &
    [/\ mrow m' = r, mcol m' = c &
        match mdata m, mdata m' with
        | Some p, Some p' => size p' = size p /\ rowsfull p' r c
        | None, None => r = 0
        | _, _ => False
        end].
Proof. exact: m_sort_safe. Qed.
End AnyNumbers.

(* the defect found and repaired (F10): before the repair MatrixAppendCol read past a column
   vector shorter than the matrix is tall — the transcription of the old test says so *)
Local Open Scope float_scope.
Definition v_of (l : seq float) : @vec float := Vec (size l) (map Some l).
Example C14_appendcol_short_refuted :
  (let m := match m_new (ops := F64Ops) 3 1 with ROk m => m | RErr _ => m_init end in
   match m_appcol_gen (ops := F64Ops) false m (v_of [:: 7]), m_appcol_gen (ops := F64Ops) true m (v_of [:: 7]) with
   | RErr OOBRead, ROk m' => if m_abs m' is Some (r, c, A) then [&& r == 3%N, c == 2%N & all (fun p : float * float => keqb p.1 p.2) (zip (flatten A) [:: 0; 7; 0; 0; 0; 0])] else false
   | _, _ => false end) = true.
Proof. by vm_compute. Qed.
(* non-vacuity: a history on the binary64 instance, run by the same code the theorems are about *)
Example C14_history_runs :
  trace_ok (ops := F64Ops) [:: MNew 0%N 2%N 2%N; VNew false 1%N 3%N; VSet false 1%N 2%N 5; MAppCol false 0%N 1%N; MAppRow false 0%N 1%N; MGet 0%N 2%N 2%N; MGet 0%N 9%N 9%N; VGet false 1%N 7%N]
    [:: (0%N, None, Some [:: (2%N, 0%N, [:: 2%N; 2%N], [:: 0; 0; 0; 0])]);
        (0%N, None, Some [:: (0%N, 1%N, [:: 3%N], [:: 0; 0; 0]); (2%N, 0%N, [:: 2%N; 2%N], [:: 0; 0; 0; 0])]);
        (0%N, None, Some [:: (0%N, 1%N, [:: 3%N], [:: 0; 0; 5]); (2%N, 0%N, [:: 2%N; 2%N], [:: 0; 0; 0; 0])]);
        (0%N, None, Some [:: (0%N, 1%N, [:: 3%N], [:: 0; 0; 5]); (2%N, 0%N, [:: 3%N; 3%N], [:: 0; 0; 0; 0; 0; 0; 0; 0; 5])]);
        (0%N, None, Some [:: (0%N, 1%N, [:: 3%N], [:: 0; 0; 5]); (2%N, 0%N, [:: 4%N; 3%N], [:: 0; 0; 0; 0; 0; 0; 0; 0; 5; 0; 0; 5])]);
        (2%N, Some 5, Some [:: (0%N, 1%N, [:: 3%N], [:: 0; 0; 5]); (2%N, 0%N, [:: 4%N; 3%N], [:: 0; 0; 0; 0; 0; 0; 0; 0; 5; 0; 0; 5])]);
        (2%N, None, Some [:: (0%N, 1%N, [:: 3%N], [:: 0; 0; 5]); (2%N, 0%N, [:: 4%N; 3%N], [:: 0; 0; 0; 0; 0; 0; 0; 0; 5; 0; 0; 5])]);
        (1%N, None, Some [:: (0%N, 1%N, [:: 3%N], [:: 0; 0; 5]); (2%N, 0%N, [:: 4%N; 3%N], [:: 0; 0; 0; 0; 0; 0; 0; 0; 5; 0; 0; 5])])] = true.
Proof. by vm_compute. Qed.

Section Texts.
Local Close Scope float_scope.
Local Open Scope nat_scope.
(* SplitString on a string vector (model Exec/Strings.v, run against the library under ASan+UBSan): for EVERY text and separator
   set the vector keeps what it held and gains pieces that are non-empty and free of separator characters; put end to end the
   pieces are the trimmed text without its separator characters; a text of white space only (or the empty text) adds nothing; a
   trimmed text without separators is one piece; the trimmed text neither starts nor ends with white space *)
Theorem C14_split_appends_clean_pieces tokens sep s : take (size tokens) (str_split tokens sep s) = tokens /\
  all (tok_ok sep) (drop (size tokens) (str_split tokens sep s)).
Proof. exact: str_split_appends. Qed.
Theorem C14_split_loses_only_separators sep s : flatten (split_string sep s) = filter (fun c => c \notin sep) (trim s).
Proof. exact: split_flatten. Qed.
Theorem C14_split_blank_text sep s : all is_space s -> split_string sep s = [::].
Proof. exact: split_blank. Qed.
Theorem C14_split_single_piece sep s : trim s != [::] -> all (fun c => c \notin sep) (trim s) -> split_string sep s = [:: trim s].
Proof. exact: split_single. Qed.
Theorem C14_trim_ends s : trim s = [::] \/ (~~ is_space (head 0 (trim s)) /\ ~~ is_space (last 0 (trim s))).
Proof. exact: trim_ends. Qed.
Example C14_split_example : str_split [:: [:: 120]] [:: 59] [:: 32; 97; 59; 59; 98; 32; 99; 9] = [:: [:: 120]; [:: 97]; [:: 98; 32; 99]] /\
  split_string [:: 59] [:: 32; 9; 32] = [::].
Proof. by vm_compute. Qed.
End Texts.

Print Assumptions C14_vector_histories.
Print Assumptions C14_matrix_sort_safe.
Print Assumptions C14_matrix_histories.
Print Assumptions C14_matrix_histories_all.
Print Assumptions C14_matrix_copy.
Print Assumptions C14_delete_row.
Print Assumptions C14_delete_column.
Print Assumptions C14_get_row.
Print Assumptions C14_get_column.
Print Assumptions C14_vector_sort.
Print Assumptions C14_new_vector.
Print Assumptions C14_new_matrix.
Print Assumptions C14_vector_copy.
Print Assumptions C14_vector_extend.
Print Assumptions C14_vector_accessors_fail_safely.
Print Assumptions C14_matrix_accessors_fail_safely.
Print Assumptions C14_matrix_get.
Print Assumptions C14_append_column.
Print Assumptions C14_append_row.
Print Assumptions C14_appendcol_short_refuted.
Print Assumptions C14_split_appends_clean_pieces.
Print Assumptions C14_split_loses_only_separators.
Print Assumptions C14_split_blank_text.
Print Assumptions C14_split_single_piece.
Print Assumptions C14_trim_ends.
