(* Properties_C19.v — spline, trapezoid area and simplex minimiser meet their numerical contracts. *)
From Coq Require Import Floats.
From mathcomp Require Import all_ssreflect all_algebra.
From LS Require Import NumOps RcfOps F64Ops Kernels Stats Spline Simplex SplineSpec SplineUnits SimplexSpec.
Set Implicit Arguments. Unset Strict Implicit. Unset Printing Implicit Defensive.
Import Order.TTheory GRing.Theory Num.Theory.
Local Open Scope ring_scope.

Section Thomas.
Variable R : realFieldType.
Variables (h al : nat -> R) (n : nat).
Hypothesis h_pos : forall i, 0 < h i.     (* strictly increasing abscissae, at any scale of x *)
(* definedness: no pivot of the forward sweep vanishes; 0 <= u_i < 1/2 *)
Theorem C19_thomas_pivots_pos i : 0 < l_ h al i /\ 0 <= u_ h al i < 2^-1.
Proof. exact: pivots. Qed.
(* the computed second-derivative coefficients solve the natural-spline tridiagonal system *)
Theorem C19_tridiagonal_solved j : (j.+1 < n)%N ->
  h j * c_ h al n j + 2 * (h j.+1 + h j) * c_ h al n j.+1 + h j.+1 * c_ h al n j.+2 = al j.+1.
Proof. exact: tridiagonal. Qed.
(* natural end conditions: zero second derivative at both ends *)
Theorem C19_natural : (0 < n)%N -> c_ h al n 0 = 0 /\ c_ h al n n = 0.
Proof. by move=> n0; split; [exact: c_first | exact: c_last]. Qed.
End Thomas.

Section Pieces.
Variable R : realFieldType.
Theorem C19_interpolates a0 a1 h c0 c1 : h != 0 ->
  S a0 (bcoef a0 a1 h c0 c1) c0 (dcoef h c0 c1) 0 = a0 /\ S a0 (bcoef a0 a1 h c0 c1) c0 (dcoef h c0 c1) h = a1 :> R.
Proof. by move=> h0; split; [exact: piece_left | exact: piece_right]. Qed.
Theorem C19_C2 (h c0 c1 : R) : h != 0 -> S'' c0 (dcoef h c0 c1) h = S'' c1 0 0.
Proof. exact: piece_C2. Qed.
Theorem C19_C1 (a0 a1 a2 h0 h1 c0 c1 c2 : R) : h0 != 0 -> h1 != 0 ->
  h0 * c0 + 2 * (h1 + h0) * c1 + h1 * c2 = 3 / h1 * (a2 - a1) - 3 / h0 * (a1 - a0) ->
  S' (bcoef a0 a1 h0 c0 c1) c0 (dcoef h0 c0 c1) h0 = S' (bcoef a1 a2 h1 c1 c2) c1 (dcoef h1 c1 c2) 0.
Proof. exact: piece_C1. Qed.
Theorem C19_linear_exact (a0 s h : R) : h != 0 -> bcoef a0 (a0 + s * h) h 0 0 = s /\ dcoef h 0 0 = 0.
Proof. exact: piece_linear. Qed.
End Pieces.

(* the evaluation does not depend on the units of x: with every knot spacing multiplied by s <> 0 (abscissae in another unit) the
   right-hand sides the code forms are divided by s, the sweep gives c / s^2, the coefficient formulas b / s and d / s^3, and piece
   j evaluated at s times the offset returns the same value — for every number of knots, every ordinates a and every piece *)
Section Units.
Variable R : realFieldType.
Variables (h a : nat -> R) (n : nat) (s : R).
Hypothesis h_pos : forall i, 0 < h i.
Hypothesis s0 : s != 0.
Theorem C19_spline_unit_free j t :
  let h' := fun i => s * h i in
  let c' := c_ h' (alpha a h') n in let c := c_ h (alpha a h) n in
  S (a j) (bcoef (a j) (a j.+1) (h' j) (c' j) (c' j.+1)) (c' j) (dcoef (h' j) (c' j) (c' j.+1)) (s * t)
  = S (a j) (bcoef (a j) (a j.+1) (h j) (c j) (c j.+1)) (c j) (dcoef (h j) (c j) (c j.+1)) t.
Proof. exact: spline_units. Qed.
End Units.

Section Trapezoid.
Variable R : rcfType.
Local Existing Instance RcfOps.
(* the trapezoid area is additive over a split point *)
Lemma trapz_cons2 (acc : R) p q r : trapz acc (p :: q :: r) = trapz (trap_step acc p q) (q :: r).
Proof. by []. Qed.
Lemma trapz_acc (acc : R) pts : trapz acc pts = acc + trapz 0 pts.
Proof.
elim: pts acc => [|p pts IH] acc; first by rewrite /= addr0.
case: pts IH => [|q r] IH; first by rewrite /= addr0.
by rewrite !trapz_cons2 IH [in RHS]IH /trap_step /= add0r addrA.
Qed.
Theorem C19_trapezoid_additive (l1 l2 : seq (R * R)) (p : R * R) :
  curve_area (l1 ++ p :: l2) = curve_area (rcons l1 p) + curve_area (p :: l2).
Proof.
rewrite /curve_area; elim: l1 => [|a l1 IH]; first by rewrite /= add0r.
case: l1 IH => [|b l1] IH.
  by rewrite [LHS]/= -/(trapz _ (p :: l2)) trapz_acc [in RHS]/= add0r.
rewrite [(a :: b :: l1) ++ _]/= [rcons _ _]/= !trapz_cons2 trapz_acc [in RHS]trapz_acc.
by move: IH; rewrite /= => ->; rewrite addrA.
Qed.
End Trapezoid.

Local Open Scope float_scope.
Example C19_f64_spline_runs :
  let Sm := spline_fit (ops := F64Ops) [:: 0; 1; 2; 3] [:: 0; 1; 0; 1] in
  v_agree 0x1p-45 1 (spline_predict Sm [:: 0; 1; 2; 3]) [:: 0; 1; 0; 1] = true.
Proof. by vm_compute. Qed.

(* the simplex minimiser, for EVERY objective function *)
Section SimplexAnyNumbers.
Context {K : Type} {ops : NumOps K}.
(* in every number system (binary64 included) the value reported is the objective at the point returned *)
Theorem C19_simplex_reports_its_value (func : seq K -> K) x0 step xtol iter :
  (nelder_mead func x0 step xtol iter).2 = func (nelder_mead func x0 step xtol iter).1.
Proof. exact: nm_reports_its_value. Qed.
End SimplexAnyNumbers.
Section SimplexExact.
Variable R : rcfType.
Local Existing Instance RcfOps.
(* over any real closed field the result is never worse than any vertex of the initial simplex *)
Theorem C19_simplex_not_worse_than_start (func : seq R -> R) x0 step xtol iter j : (0 < size x0)%N -> (j <= size x0)%N ->
  let p := mkseq (fun k => if j == k.+1 then (x0`_k + step`_k)%R else x0`_k) (size x0) in
  ((nelder_mead func x0 step xtol iter).2 <= func p)%R.
Proof. exact: nm_not_worse_than_start. Qed.
End SimplexExact.

Print Assumptions C19_thomas_pivots_pos.
Print Assumptions C19_spline_unit_free.
Print Assumptions C19_tridiagonal_solved.
Print Assumptions C19_C1.
Print Assumptions C19_trapezoid_additive.
Print Assumptions C19_simplex_reports_its_value.
Print Assumptions C19_simplex_not_worse_than_start.
